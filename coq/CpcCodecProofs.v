(* CpcCodecProofs.v — round-trip and buffer-size theorems for the low-level compressor of the CPC sketch, stated about
   the executable model of CpcCodecDefs.v (cpc/include/cpc_compressor_impl.hpp l.369-418 and l.467-761).

   Proof architecture.  The bit stream is ONE natural number: bit i of the stream is binary digit i of the number
   (the compressor emits the least significant bit of a codeword first).  A list of (value, length) symbols denotes
   [enc_num] (first symbol in the lowest digits) and has [enc_bits] bits.
   - Writer invariant [winv (bitbuf, bufbits, rev_words) S L]: bufbits < 32, bitbuf < 2^bufbits, and the words flushed so
     far followed by the low bufbits bits of bitbuf are the number S of L digits.  [emit_bits] appends a symbol
     (S + 2^L * v, L + len) when v < 2^len and len <= 32 (this is where the uint64_t shift [v << bufbits] and the uint8_t
     arithmetic on bufbits are shown not to lose anything); [finish_bits] pads, and the words it returns have
     [words_val] = S and are exactly ceil((L + padding) / 32) many.
   - Reader invariant [rinv words (bitbuf, bufbits, word_index) pos]: 32 * word_index = pos + bufbits and
     bitbuf = (words_val words / 2^pos) mod 2^bufbits, where pos is the number of stream bits consumed.
     [maybe_fill_bitbuf words st m] succeeds (no read past the end of [words]) as soon as pos + m <= 32 * length words:
     this is the point of the 11 (resp. max(0, 10 - B)) padding bits, and of the fact that every symbol has at least
     one bit (resp. 2 + B bits per pair).
   - A Huffman step: with p = the next 12 stream bits, p mod 2^len = code_val holds because the codeword occupies the
     low len <= 12 digits, and [byte_decode_encode] / [unary_decode_encode] (CpcCodecTables.v) give the table entry.

   Main results (all for arbitrary inputs, by induction over the byte list / the pair list):
     bytes_codec_rt, bytes_codec_len, compress_bytes_total                                   (T1)
     pairs_codec_total, pairs_codec_rt, pairs_codec_rt_bounded                               (T2)
     pairs_codec_len                                                                         (T3)
     sliding_window_rt, sliding_window_len, surprising_values_rt, surprising_values_total    (the callers)
     pseudo_phase_lt22, sliding_phase_lt16                            (determine_pseudo_phase, repaired)
   Side conditions:
   - bytes: every byte < 256 (they are uint8_t), fewer than 2^32 of them (uint32_t count); for the length bound
     12 * n + 11 < 2^32 (the C++ computes 12 * k + 11 in uint32_t).
   - pairs: num_base_bits <= 30 for the round trip ((1 << num_base_bits) - 1 is an int expression in the C++; the
     callers produce at most 26), <= 32 for the writer alone; the pair list is strictly increasing and every pair is
     < 2^32 (a uint32_t, i.e. row = pair >> 6 < 2^26 and col = pair & 63): exactly a sorted duplicate-free list;
     the number of compressed words is < 2^32 (it is a uint32_t in the C++), which [pairs_codec_rt_bounded] derives from
     length pairs <= 2^31.
   Every proof is closed; see the [Print Assumptions] at the end. *)
From Coq Require Import ZArith NArith List Bool Lia Sorted.
From DS.gen Require Import CpcTablesGen.
From DS Require Import Word RunnerLib CpcCodecTables CpcCodecDefs.
Import ListNotations.
Local Open Scope N_scope.

Ltac dlia := zify; Z.to_euclidean_division_equations; lia.

(** * Arithmetic helpers *)

Lemma pow2_pos n : 0 < 2 ^ n.
Proof. apply N.neq_0_lt_0, N.pow_nonzero. discriminate. Qed.

Lemma pow2_nz n : 2 ^ n <> 0.
Proof. apply N.pow_nonzero. discriminate. Qed.

Lemma pow2_le a b : a <= b -> 2 ^ a <= 2 ^ b.
Proof. intros H. apply N.pow_le_mono_r; [discriminate|exact H]. Qed.

Lemma pow2_lt a b : a < b -> 2 ^ a < 2 ^ b.
Proof. intros H. apply N.pow_lt_mono_r; [reflexivity|exact H]. Qed.

Lemma lt_pow2_trans x a b : x < 2 ^ a -> a <= b -> x < 2 ^ b.
Proof. intros H1 H2. eapply N.lt_le_trans; [exact H1|apply pow2_le, H2]. Qed.

Lemma w8_id x : x < 256 -> w8 x = x.
Proof. intros H. unfold w8. change 255 with (N.ones 8). rewrite N.land_ones. apply N.mod_small. exact H. Qed.

Lemma w16_id x : x < 65536 -> w16 x = x.
Proof. intros H. unfold w16. change 65535 with (N.ones 16). rewrite N.land_ones. apply N.mod_small. exact H. Qed.

Lemma w32_id x : x < 2 ^ 32 -> w32 x = x.
Proof. intros H. rewrite w32_mod. apply N.mod_small. exact H. Qed.

Lemma w64_id x : x < 2 ^ 64 -> w64 x = x.
Proof. intros H. rewrite w64_mod. apply N.mod_small. exact H. Qed.

Lemma land_mask32 x : N.land x mask32 = x mod 2 ^ 32.
Proof. unfold mask32. change 4294967295 with (N.ones 32). apply N.land_ones. Qed.

Lemma land_4095 x : N.land x 4095 = x mod 2 ^ 12.
Proof. change 4095 with (N.ones 12). apply N.land_ones. Qed.

Lemma land_255 x : N.land x 255 = x mod 2 ^ 8.
Proof. change 255 with (N.ones 8). apply N.land_ones. Qed.

(* or of two numbers with disjoint bits is their sum *)
Lemma lor_shift_add a b n : a < 2 ^ n -> N.lor a (b * 2 ^ n) = a + b * 2 ^ n.
Proof.
  intros Ha.
  assert (Hd : N.land a (b * 2 ^ n) = 0).
  { apply N.bits_inj. intros i. rewrite N.land_spec, N.bits_0, <- N.shiftl_mul_pow2.
    destruct (N.lt_ge_cases i n) as [Hi|Hi].
    - rewrite (N.shiftl_spec_low _ _ _ Hi). apply andb_false_r.
    - replace (N.testbit a i) with false; [reflexivity|]. symmetry.
      destruct (N.eq_dec a 0) as [->|Hz]; [apply N.bits_0|].
      apply N.bits_above_log2. apply N.log2_lt_pow2; [lia|]. eapply lt_pow2_trans; eauto. }
  rewrite <- N.lxor_lor by exact Hd. symmetry. apply N.add_nocarry_lxor. exact Hd.
Qed.

Lemma shl64_small v n m : v < 2 ^ m -> m + n <= 64 -> shl64 v n = v * 2 ^ n.
Proof.
  intros Hv Hm. unfold shl64. rewrite N.shiftl_mul_pow2. apply w64_id.
  apply N.lt_le_trans with (2 ^ m * 2 ^ n).
  - apply N.mul_lt_mono_pos_r; [apply pow2_pos|exact Hv].
  - rewrite <- N.pow_add_r. apply pow2_le. exact Hm.
Qed.

Lemma div_pow_add x a b : x / 2 ^ (a + b) = x / 2 ^ a / 2 ^ b.
Proof. rewrite N.pow_add_r, N.div_div by apply pow2_nz. reflexivity. Qed.

Lemma mod_pow_split x a b : x mod 2 ^ (a + b) = x mod 2 ^ a + 2 ^ a * ((x / 2 ^ a) mod 2 ^ b).
Proof. rewrite N.pow_add_r. apply N.mod_mul_r; apply pow2_nz. Qed.

Lemma mod_pow_div x n l : l <= n -> (x mod 2 ^ n) / 2 ^ l = (x / 2 ^ l) mod 2 ^ (n - l).
Proof.
  intros H. replace n with (l + (n - l)) at 1 by lia. rewrite mod_pow_split.
  rewrite N.mul_comm, N.div_add by apply pow2_nz.
  rewrite N.div_small by (apply N.mod_lt, pow2_nz). reflexivity.
Qed.

Lemma mod_pow_mod x n k : k <= n -> (x mod 2 ^ n) mod 2 ^ k = x mod 2 ^ k.
Proof.
  intros H. replace n with (k + (n - k)) at 1 by lia. rewrite mod_pow_split.
  rewrite N.mul_comm, N.mod_add by apply pow2_nz. apply N.mod_mod, pow2_nz.
Qed.

Lemma mod_lt_pow2 x n : x mod 2 ^ n < 2 ^ n.
Proof. apply N.mod_lt, pow2_nz. Qed.

(* v + 2^n * E with v < 2^n *)
Lemma cons_mod v n E : v < 2 ^ n -> (v + 2 ^ n * E) mod 2 ^ n = v.
Proof. intros H. rewrite N.mul_comm, N.mod_add by apply pow2_nz. apply N.mod_small, H. Qed.

Lemma cons_div v n E : v < 2 ^ n -> (v + 2 ^ n * E) / 2 ^ n = E.
Proof. intros H. rewrite N.mul_comm, N.div_add by apply pow2_nz. rewrite N.div_small by exact H. reflexivity. Qed.

(** * Little-endian value of a list of 32-bit words *)

Fixpoint words_val (ws : list N) : N :=
  match ws with [] => 0 | w :: r => w + 2 ^ 32 * words_val r end.

Definition lenN {A} (l : list A) : N := N.of_nat (length l).

Lemma lenN_cons {A} (x : A) l : lenN (x :: l) = lenN l + 1.
Proof. unfold lenN. cbn [length]. lia. Qed.

Lemma lenN_app {A} (a b : list A) : lenN (a ++ b) = lenN a + lenN b.
Proof. unfold lenN. rewrite app_length. lia. Qed.

Lemma words_val_app a b : words_val (a ++ b) = words_val a + 2 ^ (32 * lenN a) * words_val b.
Proof.
  induction a as [|w r IH]; cbn [app words_val].
  - change (lenN (@nil N)) with 0. rewrite N.mul_0_r, N.pow_0_r. lia.
  - rewrite IH, lenN_cons. replace (32 * (lenN r + 1)) with (32 + 32 * lenN r) by lia.
    rewrite N.pow_add_r. ring.
Qed.

Definition words32 (ws : list N) : Prop := Forall (fun w => w < 2 ^ 32) ws.

Lemma words_val_nth : forall ws i w, words32 ws -> nth_error ws i = Some w ->
  w = (words_val ws / 2 ^ (32 * N.of_nat i)) mod 2 ^ 32.
Proof.
  induction ws as [|x r IH]; intros i w Hw Hn; [destruct i; discriminate|].
  inversion Hw as [|? ? Hx Hr]; subst. destruct i as [|i]; cbn [nth_error words_val] in *.
  - injection Hn as <-. change (32 * N.of_nat 0) with 0. rewrite N.pow_0_r, N.div_1_r.
    symmetry. apply cons_mod. exact Hx.
  - replace (32 * N.of_nat (S i)) with (32 + 32 * N.of_nat i) by lia.
    rewrite div_pow_add, cons_div by exact Hx. apply IH; assumption.
Qed.

Lemma lenN_rev {A} (l : list A) : lenN (rev l) = lenN l.
Proof. unfold lenN. rewrite rev_length. reflexivity. Qed.

Lemma lenN_nil {A} : lenN (@nil A) = 0.
Proof. reflexivity. Qed.

(** * The abstract bit stream: a list of (value, length) symbols, first symbol in the lowest bits *)

Fixpoint enc_num (l : list (N * N)) : N :=
  match l with [] => 0 | (v, n) :: r => v + 2 ^ n * enc_num r end.

Fixpoint enc_bits (l : list (N * N)) : N :=
  match l with [] => 0 | (_, n) :: r => n + enc_bits r end.

(** * Writer invariant
    [S] is the number whose binary digits are the bits emitted so far (first bit emitted = bit 0), [L] their count:
    the flushed words followed by the low [bufbits] bits of [bitbuf]; nothing else is set in [bitbuf]. *)

Definition winv_gen (bound : N) (st : wstate) (S L : N) : Prop :=
  let '(bb, nb, rw) := st in
  nb < bound /\ bb < 2 ^ nb /\ L = 32 * lenN rw + nb /\
  S = words_val (rev rw) + 2 ^ (32 * lenN rw) * bb /\ words32 rw.

Notation winv := (winv_gen 32).

Lemma winv0 : winv wstate0 0 0.
Proof.
  unfold wstate0, winv_gen. repeat split; try reflexivity. constructor.
Qed.

Lemma flush_inv st S L : winv_gen 64 st S L -> winv (maybe_flush_bitbuf st) S L.
Proof.
  destruct st as [[bb nb] rw]. intros (H1 & H2 & H3 & H4 & H5). unfold maybe_flush_bitbuf.
  destruct (32 <=? nb) eqn:E.
  - apply N.leb_le in E. cbn [winv_gen]. repeat split.
    + lia.
    + rewrite N.shiftr_div_pow2. apply N.div_lt_upper_bound; [apply pow2_nz|].
      rewrite <- N.pow_add_r. replace (32 + (nb - 32)) with nb by lia. exact H2.
    + rewrite lenN_cons. lia.
    + cbn [rev]. rewrite words_val_app, lenN_rev, land_mask32, N.shiftr_div_pow2, lenN_cons. cbn [words_val].
      replace (32 * (lenN rw + 1)) with (32 * lenN rw + 32) by lia. rewrite N.pow_add_r.
      rewrite H4. pose proof (N.div_mod' bb (2 ^ 32)) as Hd.
      set (q := bb / 2 ^ 32) in *. set (r := bb mod 2 ^ 32) in *. rewrite Hd. ring.
    + constructor; [apply mod_lt_pow2 || (rewrite land_mask32; apply mod_lt_pow2)|exact H5].
  - apply N.leb_gt in E. cbn [winv_gen]. repeat split; auto.
Qed.

Lemma emit_inv st S L v len : winv st S L -> v < 2 ^ len -> len <= 32 ->
  winv (emit_bits st v len) (S + 2 ^ L * v) (L + len).
Proof.
  destruct st as [[bb nb] rw]. intros (H1 & H2 & H3 & H4 & H5) Hv Hl. unfold emit_bits.
  apply flush_inv. cbn [winv_gen].
  rewrite (shl64_small v nb len Hv) by lia. rewrite (lor_shift_add _ _ _ H2).
  rewrite w8_id by lia. repeat split.
  - lia.
  - rewrite N.pow_add_r.
    assert (v * 2 ^ nb <= (2 ^ len - 1) * 2 ^ nb) by (apply N.mul_le_mono_r; lia).
    pose proof (pow2_pos len). pose proof (pow2_pos nb). nia.
  - lia.
  - rewrite H4, H3, N.pow_add_r. ring.
  - exact H5.
Qed.

Lemma skip_inv st S L n : winv st S L -> n <= 32 -> winv (skip_bits st n) S (L + n).
Proof.
  destruct st as [[bb nb] rw]. intros (H1 & H2 & H3 & H4 & H5) Hn. unfold skip_bits.
  apply flush_inv. cbn [winv_gen]. rewrite w8_id by lia. repeat split; auto.
  - lia.
  - eapply lt_pow2_trans; [exact H2|lia].
  - lia.
Qed.

(* the tail: the words produced are the stream, and there are exactly ceil((L + padding) / 32) of them *)
Lemma finish_spec st S L pad : winv st S L -> pad <= 32 ->
  exists ws, finish_bits st pad = Some ws /\ words_val ws = S /\ words32 ws /\
             L + pad <= 32 * lenN ws < L + pad + 32.
Proof.
  intros H Hp. unfold finish_bits. pose proof (skip_inv st S L pad H Hp) as H1.
  destruct (skip_bits st pad) as [[bb nb] rw]. destruct H1 as (H1 & H2 & H3 & H4 & H5).
  destruct (0 <? nb) eqn:E0.
  - apply N.ltb_lt in E0. replace (32 <=? nb) with false by (symmetry; apply N.leb_gt; exact H1).
    eexists. split; [reflexivity|]. rewrite land_mask32.
    rewrite (N.mod_small bb) by (eapply lt_pow2_trans; [exact H2|lia]).
    cbn [rev]. rewrite words_val_app, lenN_app, lenN_rev. cbn [words_val]. repeat split.
    + rewrite H4. ring.
    + apply Forall_app. split; [apply Forall_rev; exact H5|].
      constructor; [|constructor]. eapply lt_pow2_trans; [exact H2|lia].
    + change (lenN [bb]) with 1. lia.
    + change (lenN [bb]) with 1. lia.
  - apply N.ltb_ge in E0. assert (nb = 0) by lia. subst nb.
    eexists. split; [reflexivity|]. rewrite lenN_rev. repeat split.
    + rewrite H4. change (2 ^ 0) with 1 in H2. assert (bb = 0) by lia. subst bb. ring.
    + apply Forall_rev. exact H5.
    + lia.
    + lia.
Qed.

(** * low_level_compress_bytes *)

Definition byte_sym (enc : list N) (b : N) : N * N :=
  let e := nth (N.to_nat b) enc 0 in (code_val e, code_len e).

Definition enc_ok (enc : list N) : Prop :=
  forall b, b < 256 -> let e := nth (N.to_nat b) enc 0 in
    e < 65536 /\ 1 <= code_len e <= 12 /\ code_val e < 2 ^ code_len e.

Lemma byte_enc_ok ti : (ti < 22)%nat -> enc_ok (nth ti encoding_tables_for_high_entropy_byte []).
Proof.
  intros Hti b Hb. assert (Hb' : (N.to_nat b < 256)%nat) by (change 256%nat with (N.to_nat 256); lia).
  pose proof (byte_code_len_bounds ti _ Hti Hb') as [H1 H2].
  pose proof (byte_code_val_canonical ti _ Hti Hb') as H3. cbv zeta in *. auto.
Qed.

Lemma compress_bytes_loop_spec enc : enc_ok enc -> forall bytes st S L,
  Forall (fun b => b < 256) bytes -> winv st S L ->
  winv (compress_bytes_loop enc bytes st)
       (S + 2 ^ L * enc_num (map (byte_sym enc) bytes)) (L + enc_bits (map (byte_sym enc) bytes)).
Proof.
  intros Hok. induction bytes as [|b r IH]; intros st S L Hb Hw; cbn [compress_bytes_loop map enc_num enc_bits].
  - rewrite N.mul_0_r, !N.add_0_r. exact Hw.
  - inversion Hb as [|? ? Hb1 Hb2]; subst. destruct (Hok b Hb1) as (He & Hl & Hv). cbv zeta in He, Hl, Hv.
    unfold byte_sym at 1 3. cbv zeta. cbn [enc_num enc_bits].
    unfold table_entry. rewrite (w8_id b Hb1), (w16_id _ He).
    fold (code_val (nth (N.to_nat b) enc 0)). fold (code_len (nth (N.to_nat b) enc 0)).
    set (e := nth (N.to_nat b) enc 0) in *. rewrite (w8_id (code_len e)) by lia.
    pose proof (emit_inv st S L (code_val e) (code_len e) Hw Hv ltac:(lia)) as H1.
    specialize (IH _ _ _ Hb2 H1).
    replace (S + 2 ^ L * (code_val e + 2 ^ code_len e * enc_num (map (byte_sym enc) r)))
      with (S + 2 ^ L * code_val e + 2 ^ (L + code_len e) * enc_num (map (byte_sym enc) r))
      by (rewrite N.pow_add_r; ring).
    rewrite N.add_assoc. exact IH.
Qed.

Lemma enc_bits_byte_le enc : enc_ok enc -> forall bytes, Forall (fun b => b < 256) bytes ->
  lenN bytes <= enc_bits (map (byte_sym enc) bytes) <= 12 * lenN bytes.
Proof.
  intros Hok. induction bytes as [|b r IH]; intros Hb; cbn [map enc_bits].
  - rewrite lenN_nil. lia.
  - inversion Hb as [|? ? Hb1 Hb2]; subst. destruct (Hok b Hb1) as (He & Hl & Hv). cbv zeta in Hl.
    unfold byte_sym at 1 3. cbv zeta. rewrite lenN_cons. specialize (IH Hb2). lia.
Qed.

Lemma compress_bytes_spec enc bytes : enc_ok enc -> Forall (fun b => b < 256) bytes ->
  let syms := map (byte_sym enc) bytes in
  let ws := compress_bytes enc bytes in
  compress_bytes_opt enc bytes = Some ws /\ words_val ws = enc_num syms /\ words32 ws /\
  enc_bits syms + 11 <= 32 * lenN ws < enc_bits syms + 11 + 32.
Proof.
  intros Hok Hb syms ws.
  pose proof (compress_bytes_loop_spec enc Hok bytes wstate0 0 0 Hb winv0) as H.
  fold syms in H. rewrite N.pow_0_r, N.mul_1_l, !N.add_0_l in H.
  destruct (finish_spec _ _ _ 11 H ltac:(lia)) as (ws' & H1 & H2 & H3 & H4).
  assert (ws = ws') as ->. { unfold ws, compress_bytes, compress_bytes_opt. rewrite H1. reflexivity. }
  unfold compress_bytes_opt. auto.
Qed.

(* the throw "bufbits >= 32" of low_level_compress_bytes is unreachable, whatever the table and the input *)
Lemma compress_bytes_loop_nb enc : forall bytes st, snd (fst st) < 32 ->
  snd (fst (compress_bytes_loop enc bytes st)) < 32.
Proof.
  induction bytes as [|b r IH]; intros st H; cbn [compress_bytes_loop]; [exact H|]. apply IH.
  destruct st as [[bb nb] rw]. cbn [fst snd] in H. unfold emit_bits, maybe_flush_bitbuf.
  set (cl := w8 (N.shiftr (table_entry enc (w8 b)) 12)).
  assert (Hcl : cl < 16).
  { unfold cl, table_entry. set (e := w16 _). assert (e < 65536).
    { unfold e, w16. change 65535 with (N.ones 16). rewrite N.land_ones. apply (mod_lt_pow2 _ 16). }
    assert (N.shiftr e 12 < 16).
    { rewrite N.shiftr_div_pow2. apply N.div_lt_upper_bound; [apply pow2_nz|]. exact H0. }
    rewrite w8_id by lia. exact H1. }
  rewrite (w8_id (nb + cl)) by lia.
  destruct (32 <=? nb + cl) eqn:E; cbn [fst snd]; [apply N.leb_le in E|apply N.leb_gt in E]; lia.
Qed.

Theorem compress_bytes_total enc bytes : compress_bytes_opt enc bytes = Some (compress_bytes enc bytes).
Proof.
  unfold compress_bytes. destruct (compress_bytes_opt enc bytes) eqn:E; [reflexivity|exfalso].
  unfold compress_bytes_opt, finish_bits in E.
  pose proof (compress_bytes_loop_nb enc bytes wstate0 ltac:(cbn; lia)) as H.
  destruct (compress_bytes_loop enc bytes wstate0) as [[bb nb] rw]. cbn [fst snd] in H.
  unfold skip_bits, maybe_flush_bitbuf in E. rewrite (w8_id (nb + 11)) in E by lia.
  destruct (32 <=? nb + 11) eqn:E1; [apply N.leb_le in E1|apply N.leb_gt in E1].
  - destruct (0 <? nb + 11 - 32); [|discriminate].
    replace (32 <=? nb + 11 - 32) with false in E by (symmetry; apply N.leb_gt; lia). discriminate.
  - destruct (0 <? nb + 11); [|discriminate].
    replace (32 <=? nb + 11) with false in E by (symmetry; apply N.leb_gt; lia). discriminate.
Qed.

(** * Reader invariant
    [pos] = number of stream bits consumed so far; the reader has loaded [word_index] whole words, of which the
    [bufbits] bits not yet consumed sit in [bitbuf] (and nothing else). *)

Definition rinv (words : list N) (st : rstate) (pos : N) : Prop :=
  let '(bb, nb, idx) := st in
  nb < 64 /\ 32 * idx = pos + nb /\ bb = (words_val words / 2 ^ pos) mod 2 ^ nb /\ idx <= lenN words.

Lemma rinv0 words : rinv words rstate0 0.
Proof.
  unfold rstate0, rinv. repeat split; try lia. rewrite !N.pow_0_r, N.mod_1_r. reflexivity.
Qed.

Section Reader.
  Variable words : list N.
  Hypothesis Hw32 : words32 words.
  Hypothesis Hlen : lenN words < 2 ^ 32.

  (* the fill never reads past the end as long as [minbits] more stream bits exist in [words] *)
  Lemma fill_inv st pos minbits : rinv words st pos -> minbits <= 32 -> pos + minbits <= 32 * lenN words ->
    exists st', maybe_fill_bitbuf words st minbits = Some st' /\ rinv words st' pos /\ minbits <= snd (fst st').
  Proof.
    destruct st as [[bb nb] idx]. intros (H1 & H2 & H3 & H4) Hm Hp. unfold maybe_fill_bitbuf.
    destruct (nb <? minbits) eqn:E; [apply N.ltb_lt in E|apply N.ltb_ge in E].
    - assert (Hi : idx < lenN words) by lia.
      destruct (nth_error words (N.to_nat idx)) as [w|] eqn:En.
      + pose proof (words_val_nth _ _ _ Hw32 En) as Hwv. rewrite N2Nat.id in Hwv.
        assert (Hwlt : w < 2 ^ 32) by (rewrite Hwv; apply mod_lt_pow2).
        eexists. split; [reflexivity|]. cbn [fst snd].
        rewrite (w32_id w Hwlt), (shl64_small w nb 32 Hwlt) by lia.
        assert (Hbb : bb < 2 ^ nb) by (rewrite H3; apply mod_lt_pow2).
        rewrite (lor_shift_add _ _ _ Hbb), (w8_id (nb + 32)) by lia.
        rewrite (w32_id (idx + 1)) by lia.
        split; [|lia]. unfold rinv. repeat split; try lia.
        rewrite mod_pow_split, <- H3, <- div_pow_add, <- H2, <- Hwv. ring.
      + exfalso. apply nth_error_None in En. unfold lenN in Hi. lia.
    - eexists. split; [reflexivity|]. cbn [fst snd]. split; [|exact E]. unfold rinv. auto.
  Qed.

  Lemma drop_inv st pos n : rinv words st pos -> n <= snd (fst st) -> rinv words (drop_bits st n) (pos + n).
  Proof.
    clear Hw32 Hlen. destruct st as [[bb nb] idx]. cbn [fst snd]. intros (H1 & H2 & H3 & H4) Hn. unfold drop_bits, rinv.
    rewrite (w8_id n) by lia.
    assert (Hnb : w8 (nb + 256 - n) = nb - n).
    { replace (nb + 256 - n) with ((nb - n) + 1 * 256) by lia. unfold w8. rewrite land_255.
      change (2 ^ 8) with 256. rewrite N.mod_add by discriminate. apply N.mod_small. lia. }
    rewrite Hnb. repeat split; try lia.
    rewrite N.shiftr_div_pow2, H3, mod_pow_div, <- div_pow_add by exact Hn. reflexivity.
  Qed.

  Lemma peek_inv bb nb idx pos k : rinv words (bb, nb, idx) pos -> k <= nb ->
    bb mod 2 ^ k = (words_val words / 2 ^ pos) mod 2 ^ k.
  Proof. clear Hw32 Hlen. intros (H1 & H2 & H3 & H4) Hk. rewrite H3. apply mod_pow_mod, Hk. Qed.
End Reader.

(** * low_level_uncompress_bytes *)

Definition dec_ok (enc dec : list N) : Prop :=
  forall b p, b < 256 -> p < 4096 -> let e := nth (N.to_nat b) enc 0 in
    p mod 2 ^ code_len e = code_val e -> nth (N.to_nat p) dec 0 = code_len e * 256 + b.

Lemma byte_dec_ok ti : (ti < 22)%nat ->
  dec_ok (nth ti encoding_tables_for_high_entropy_byte []) (nth ti byte_decoding_tables []).
Proof.
  intros Hti b p Hb Hp e Hm. assert (Hb' : (N.to_nat b < 256)%nat) by (change 256%nat with (N.to_nat 256); lia).
  pose proof (byte_decode_encode ti _ p Hti Hb' Hp Hm) as H. rewrite N2Nat.id in H. exact H.
Qed.

Lemma entry_len n b : b < 256 -> N.shiftr (n * 256 + b) 8 = n.
Proof.
  intros H. rewrite N.shiftr_div_pow2. change (2 ^ 8) with 256. rewrite N.div_add_l by discriminate.
  rewrite (N.div_small b) by exact H. apply N.add_0_r.
Qed.

Lemma entry_byte n b : b < 256 -> N.land (n * 256 + b) 255 = b.
Proof.
  intros H. rewrite land_255. change (2 ^ 8) with 256. rewrite N.add_comm, N.mod_add by discriminate.
  apply N.mod_small, H.
Qed.

Section BytesReader.
  Variables enc dec words : list N.
  Hypothesis Hok : enc_ok enc.
  Hypothesis Hdec : dec_ok enc dec.
  Hypothesis Hw32 : words32 words.
  Hypothesis Hlen : lenN words < 2 ^ 32.

  Lemma uncompress_bytes_loop_spec : forall bytes st pos,
    Forall (fun b => b < 256) bytes -> rinv words st pos ->
    words_val words / 2 ^ pos = enc_num (map (byte_sym enc) bytes) ->
    pos + enc_bits (map (byte_sym enc) bytes) + 11 <= 32 * lenN words ->
    exists st', uncompress_bytes_loop dec words (length bytes) st = Some (bytes, st') /\
                rinv words st' (pos + enc_bits (map (byte_sym enc) bytes)).
  Proof.
    induction bytes as [|b r IH]; intros st pos Hb Hr HV Hbits;
      cbn [length uncompress_bytes_loop map enc_num enc_bits] in *.
    - eexists. split; [reflexivity|]. rewrite N.add_0_r. exact Hr.
    - inversion Hb as [|? ? Hb1 Hb2]; subst. destruct (Hok b Hb1) as (He & Hl & Hv). cbv zeta in He, Hl, Hv.
      unfold byte_sym at 1 in HV. unfold byte_sym at 1 in Hbits. unfold byte_sym at 1. cbv zeta in HV, Hbits |- *.
      set (e := nth (N.to_nat b) enc 0) in *. cbn [enc_num enc_bits] in HV, Hbits |- *.
      set (E := enc_num (map (byte_sym enc) r)) in *. set (B := enc_bits (map (byte_sym enc) r)) in *.
      destruct (fill_inv words Hw32 Hlen st pos 12 Hr ltac:(lia) ltac:(lia)) as (st1 & Hf & Hr1 & Hnb).
      rewrite Hf. destruct st1 as [[bb1 nb1] idx1]. cbn [fst snd] in Hnb |- *.
      rewrite land_4095, (peek_inv words _ _ _ _ 12 Hr1 Hnb), HV.
      set (p := (code_val e + 2 ^ code_len e * E) mod 2 ^ 12).
      assert (Hp : p < 4096) by apply (mod_lt_pow2 _ 12).
      assert (Hpm : p mod 2 ^ code_len e = code_val e).
      { unfold p. rewrite mod_pow_mod by lia. apply cons_mod, Hv. }
      pose proof (Hdec b p Hb1 Hp Hpm) as Hlk. fold e in Hlk.
      unfold table_entry. rewrite Hlk, w16_id by lia.
      rewrite (entry_len _ _ Hb1), (entry_byte _ _ Hb1), (w8_id (code_len e)) by lia.
      pose proof (drop_inv words (bb1, nb1, idx1) pos (code_len e) Hr1 ltac:(cbn [fst snd]; lia)) as Hr2.
      destruct (IH _ (pos + code_len e) Hb2 Hr2) as (st' & Hl' & Hr').
      + rewrite div_pow_add, HV. apply cons_div, Hv.
      + fold B. lia.
      + rewrite Hl'. eexists. split; [reflexivity|]. fold B in Hr'. rewrite N.add_assoc. exact Hr'.
  Qed.
End BytesReader.

(* T1, for any (encoding table, decoding table) pair that passes the table checks *)
Lemma bytes_codec_rt_gen enc dec bytes : enc_ok enc -> dec_ok enc dec ->
  Forall (fun b => b < 256) bytes -> lenN bytes < 2 ^ 32 ->
  uncompress_bytes dec (lenN bytes) (compress_bytes enc bytes) = Some bytes.
Proof.
  intros Hok Hdec Hb Hn. destruct (compress_bytes_spec enc bytes Hok Hb) as (_ & HV & Hw32 & Hl1 & Hl2).
  cbv zeta in HV, Hl1, Hl2. set (ws := compress_bytes enc bytes) in *.
  pose proof (enc_bits_byte_le enc Hok bytes Hb) as [_ Hbits].
  assert (Hlen : lenN ws < 2 ^ 32). { change (2 ^ 32) with 4294967296 in *. lia. }
  destruct (uncompress_bytes_loop_spec enc dec ws Hok Hdec Hw32 Hlen bytes rstate0 0 Hb (rinv0 ws))
    as (st' & Hl' & Hr').
  - rewrite N.pow_0_r, N.div_1_r. exact HV.
  - lia.
  - unfold uncompress_bytes, lenN at 1. rewrite Nat2N.id, Hl'. destruct st' as [[bb nb] idx].
    destruct Hr' as (_ & _ & _ & Hi). fold (lenN ws).
    replace (lenN ws <? idx) with false by (symmetry; apply N.ltb_ge; exact Hi). reflexivity.
Qed.

Theorem bytes_codec_rt : forall ti bytes, (ti < 22)%nat ->
  Forall (fun b => b < 256) bytes -> N.of_nat (length bytes) < 2 ^ 32 ->
  uncompress_bytes (nth ti byte_decoding_tables []) (N.of_nat (length bytes))
    (compress_bytes (nth ti encoding_tables_for_high_entropy_byte []) bytes) = Some bytes.
Proof.
  intros ti bytes Hti Hb Hn. apply bytes_codec_rt_gen; auto using byte_enc_ok, byte_dec_ok.
Qed.

(** ** the words written fit in the buffer sized by safe_length_for_compressed_window_buf *)

Lemma divide_up_32 x : x < 2 ^ 64 -> exists r, divide_longs_rounding_up x 32 = Some r /\ x <= 32 * r < x + 32.
Proof.
  intros Hx. unfold divide_longs_rounding_up. change (32 =? 0) with false. cbv iota.
  pose proof (N.div_mod' x 32) as Hd. pose proof (N.mod_lt x 32 ltac:(discriminate)) as Hm.
  set (q := x / 32) in *. set (m := x mod 32) in *. change (2 ^ 64) with 18446744073709551616 in Hx.
  rewrite (w64_id (q * 32)) by (change (2 ^ 64) with 18446744073709551616; lia).
  destruct (q * 32 =? x) eqn:E; [apply N.eqb_eq in E|apply N.eqb_neq in E].
  - exists q. split; [reflexivity|lia].
  - exists (q + 1). rewrite w64_id by (change (2 ^ 64) with 18446744073709551616; lia). split; [reflexivity|lia].
Qed.

Theorem bytes_codec_len : forall ti bytes, (ti < 22)%nat ->
  Forall (fun b => b < 256) bytes -> 12 * N.of_nat (length bytes) + 11 < 2 ^ 32 ->
  N.of_nat (length (compress_bytes (nth ti encoding_tables_for_high_entropy_byte []) bytes))
  <= safe_length_for_compressed_window_buf (N.of_nat (length bytes)).
Proof.
  intros ti bytes Hti Hb Hn. set (enc := nth ti encoding_tables_for_high_entropy_byte []).
  destruct (compress_bytes_spec enc bytes (byte_enc_ok ti Hti) Hb) as (_ & _ & _ & Hl1 & Hl2).
  cbv zeta in Hl1, Hl2. pose proof (enc_bits_byte_le enc (byte_enc_ok ti Hti) bytes Hb) as [_ Hbits].
  fold (lenN bytes) in *. fold (lenN (compress_bytes enc bytes)).
  unfold safe_length_for_compressed_window_buf. change (2 ^ 32) with 4294967296 in Hn.
  rewrite (w32_id (12 * lenN bytes)) by (change (2 ^ 32) with 4294967296; lia).
  rewrite (w32_id (12 * lenN bytes + 11)) by (change (2 ^ 32) with 4294967296; lia).
  destruct (divide_up_32 (12 * lenN bytes + 11)) as (r & Hr & Hr1 & Hr2).
  { change (2 ^ 64) with 18446744073709551616. lia. }
  rewrite Hr. lia.
Qed.

(** * write_unary: [value] zero bits then a one bit, i.e. the symbol (2^value, value + 1) *)

Lemma write_unary_loop_spec : forall fuel st rem S L, winv st S L -> (N.to_nat (rem / 16) <= fuel)%nat ->
  exists st', write_unary_loop fuel st rem = Some (st', rem mod 16) /\ winv st' S (L + 16 * (rem / 16)).
Proof.
  induction fuel as [|f IH]; intros st rem S L Hw Hf; cbn [write_unary_loop];
    (destruct (rem <? 16) eqn:E; [apply N.ltb_lt in E|apply N.ltb_ge in E]).
  - exists st. rewrite N.mod_small, N.div_small, N.mul_0_r, N.add_0_r by exact E. auto.
  - exfalso. dlia.
  - exists st. rewrite N.mod_small, N.div_small, N.mul_0_r, N.add_0_r by exact E. auto.
  - pose proof (skip_inv st S L 16 Hw ltac:(lia)) as H1.
    destruct (IH _ (rem - 16) _ _ H1 ltac:(dlia)) as (st' & Hl & Hw').
    exists st'. replace (rem mod 16) with ((rem - 16) mod 16) by dlia. split; [exact Hl|].
    replace (L + 16 * (rem / 16)) with (L + 16 + 16 * ((rem - 16) / 16)) by dlia. exact Hw'.
Qed.

Lemma write_unary_spec st S L hi : winv st S L ->
  exists st', write_unary st hi = Some st' /\ winv st' (S + 2 ^ L * 2 ^ hi) (L + (hi + 1)).
Proof.
  intros Hw. unfold write_unary.
  assert (Hnb : snd (fst st) < 32) by (destruct st as [[bb nb] rw]; destruct Hw as (H & _); exact H).
  replace (31 <? snd (fst st)) with false by (symmetry; apply N.ltb_ge; lia).
  destruct (write_unary_loop_spec (N.to_nat (hi / 16)) st hi S L Hw ltac:(lia)) as (st1 & Hl & Hw1).
  rewrite Hl. set (q := hi / 16) in *. set (r := hi mod 16) in *.
  assert (Hr : r < 16) by (apply N.mod_lt; discriminate).
  assert (Hhi : hi = 16 * q + r) by (apply N.div_mod'; discriminate).
  replace (15 <? r) with false by (symmetry; apply N.ltb_ge; lia).
  eexists. split; [reflexivity|].
  rewrite (shl64_small 1 r 1) by (try reflexivity; lia). rewrite N.mul_1_l, (w8_id (r + 1)) by lia.
  pose proof (emit_inv st1 S (L + 16 * q) (2 ^ r) (r + 1) Hw1 ltac:(apply pow2_lt; lia) ltac:(lia)) as H.
  replace (S + 2 ^ L * 2 ^ hi) with (S + 2 ^ (L + 16 * q) * 2 ^ r)
    by (rewrite Hhi, <- !N.pow_add_r; f_equal; f_equal; lia).
  replace (L + (hi + 1)) with (L + 16 * q + (r + 1)) by lia. exact H.
Qed.

(** * The symbols of a pair list *)

Definition pair_syms1 (nbb pr pc p : N) : list (N * N) :=
  let row := N.shiftr p 6 in
  let col := N.land p 63 in
  let pc' := if row =? pr then pc else 0 in
  let yd := row - pr in
  let xd := col - pc' in
  let e := nth (N.to_nat xd) length_limited_unary_encoding_table65 0 in
  let hi := N.shiftr yd nbb in
  [(code_val e, code_len e); (2 ^ hi, hi + 1); (N.land yd (N.ones nbb), nbb)].

Fixpoint pair_syms (nbb pr pc : N) (pairs : list N) : list (N * N) :=
  match pairs with
  | [] => []
  | p :: r => pair_syms1 nbb pr pc p ++ pair_syms nbb (N.shiftr p 6) (N.land p 63 + 1) r
  end.

(* every pair is a uint32_t, the first one is >= lb, and each one is > its predecessor *)
Fixpoint increasing_from (lb : N) (l : list N) : Prop :=
  match l with
  | [] => True
  | p :: r => lb <= p /\ p < 2 ^ 32 /\ increasing_from (p + 1) r
  end.

Lemma increasing_from_weaken : forall l a b, a <= b -> increasing_from b l -> increasing_from a l.
Proof. destruct l as [|p r]; cbn [increasing_from]; intros a b Hab H; [exact I|]. intuition lia. Qed.

Lemma sorted_increasing_from : forall l, StronglySorted N.lt l -> Forall (fun p => p < 2 ^ 32) l ->
  increasing_from 0 l.
Proof.
  intros l Hs Hf. assert (G : forall lb, Forall (fun p => lb <= p) l -> increasing_from lb l).
  { induction l as [|p r IH]; intros lb Hlb; cbn [increasing_from]; [exact I|].
    inversion Hs as [|? ? Hs1 Hs2]; subst. inversion Hf as [|? ? Hf1 Hf2]; subst.
    inversion Hlb as [|? ? Hlb1 Hlb2]; subst. repeat split; auto.
    apply IH; auto. eapply Forall_impl; [|exact Hs2]. cbv beta. intros a Ha. lia. }
  apply G. eapply Forall_impl; [|exact Hf]. cbv beta. intros; lia.
Qed.

(* facts about one pair, given the prediction *)
Lemma pair_facts pr pc p : pc <= 64 -> 64 * pr + pc <= p -> p < 2 ^ 32 ->
  let row := N.shiftr p 6 in
  let col := N.land p 63 in
  let pc' := if row =? pr then pc else 0 in
  p = 64 * row + col /\ col < 64 /\ row < 2 ^ 26 /\ pr <= row /\ pc' <= col.
Proof.
  intros Hpc Hlb Hp row col pc'.
  assert (Hrow : row = p / 64) by (unfold row; rewrite N.shiftr_div_pow2; reflexivity).
  assert (Hcol : col = p mod 64) by (unfold col; change 63 with (N.ones 6); rewrite N.land_ones; reflexivity).
  change (2 ^ 32) with 4294967296 in Hp. change (2 ^ 26) with 67108864.
  assert (H1 : p = 64 * row + col) by (rewrite Hrow, Hcol; apply N.div_mod'; discriminate).
  assert (H2 : col < 64) by (rewrite Hcol; apply N.mod_lt; discriminate).
  repeat split; try lia.
  unfold pc'. destruct (row =? pr) eqn:E; [apply N.eqb_eq in E|apply N.eqb_neq in E]; lia.
Qed.

Lemma unary_entry_facts xd : xd < 65 ->
  let e := nth (N.to_nat xd) length_limited_unary_encoding_table65 0 in
  e < 65536 /\ 1 <= code_len e <= 12 /\ code_val e < 2 ^ code_len e.
Proof.
  intros H. assert (H' : (N.to_nat xd < 65)%nat) by (change 65%nat with (N.to_nat 65); lia).
  pose proof (unary_code_len_bounds _ H') as [H1 H2]. pose proof (unary_code_val_canonical _ H') as H3.
  cbv zeta in *. auto.
Qed.

Lemma land_ones_lt x n : N.land x (N.ones n) < 2 ^ n.
Proof. rewrite N.land_ones. apply mod_lt_pow2. Qed.

(** * low_level_compress_pairs *)

Lemma compress_pairs_loop_spec nbb : nbb <= 32 -> forall pairs pr pc st S L,
  pc <= 64 -> increasing_from (64 * pr + pc) pairs -> winv st S L ->
  exists st', compress_pairs_loop pairs nbb pr pc st = Some st' /\
    winv st' (S + 2 ^ L * enc_num (pair_syms nbb pr pc pairs)) (L + enc_bits (pair_syms nbb pr pc pairs)).
Proof.
  intros Hnbb. induction pairs as [|p r IH]; intros pr pc st S L Hpc Hinc Hw;
    cbn [compress_pairs_loop pair_syms enc_num enc_bits].
  - exists st. rewrite N.mul_0_r, !N.add_0_r. auto.
  - destruct Hinc as (Hlb & Hp & Hinc).
    destruct (pair_facts pr pc p Hpc Hlb Hp) as (Hpe & Hcol & Hrow & Hpr & Hpc').
    cbv zeta in Hpe, Hcol, Hrow, Hpr, Hpc'. rewrite (w32_id p Hp). unfold pair_syms1. cbv zeta.
    set (row := N.shiftr p 6) in *. set (col := N.land p 63) in *.
    set (pc' := if row =? pr then pc else 0) in *.
    replace (row <? pr) with false by (symmetry; apply N.ltb_ge; exact Hpr).
    replace (col <? pc') with false by (symmetry; apply N.ltb_ge; exact Hpc').
    set (yd := row - pr). set (xd := col - pc').
    destruct (unary_entry_facts xd ltac:(lia)) as (He & Hl & Hv). cbv zeta in He, Hl, Hv.
    unfold table_entry. set (e := nth (N.to_nat xd) length_limited_unary_encoding_table65 0) in *.
    rewrite (w16_id e He). fold (code_val e). fold (code_len e). rewrite (w8_id (code_len e)) by lia.
    unfold golomb_lo_mask. set (hi := N.shiftr yd nbb). set (lo := N.land yd (N.ones nbb)).
    pose proof (emit_inv st S L (code_val e) (code_len e) Hw Hv ltac:(lia)) as H1.
    destruct (write_unary_spec _ _ _ hi H1) as (st2 & Hwu & H2). rewrite Hwu.
    pose proof (emit_inv st2 _ _ lo nbb H2 (land_ones_lt yd nbb) Hnbb) as H3.
    rewrite (w8_id (col + 1)) by lia.
    destruct (IH row (col + 1) _ _ _ ltac:(lia) ltac:(replace (64 * row + (col + 1)) with (p + 1) by lia; exact Hinc) H3)
      as (st' & Hl' & Hw').
    exists st'. split; [exact Hl'|]. cbn [app enc_num enc_bits].
    set (E := enc_num (pair_syms nbb row (col + 1) r)) in *.
    set (B := enc_bits (pair_syms nbb row (col + 1) r)) in *.
    replace (S + 2 ^ L * (code_val e + 2 ^ code_len e * (2 ^ hi + 2 ^ (hi + 1) * (lo + 2 ^ nbb * E))))
      with (S + 2 ^ L * code_val e + 2 ^ (L + code_len e) * 2 ^ hi + 2 ^ (L + code_len e + (hi + 1)) * lo
            + 2 ^ (L + code_len e + (hi + 1) + nbb) * E)
      by (rewrite !N.pow_add_r; ring).
    replace (L + (code_len e + (hi + 1 + (nbb + B)))) with (L + code_len e + (hi + 1) + nbb + B) by lia.
    exact Hw'.
Qed.

Lemma pair_padding_le nbb : pair_padding nbb <= 10 /\ 10 <= nbb + pair_padding nbb.
Proof. unfold pair_padding. destruct (10 <? nbb) eqn:E; [apply N.ltb_lt in E|apply N.ltb_ge in E]; lia. Qed.

Lemma compress_pairs_spec nbb pairs : nbb <= 32 -> increasing_from 0 pairs ->
  let syms := pair_syms nbb 0 0 pairs in
  exists ws, compress_pairs pairs nbb = Some ws /\ words_val ws = enc_num syms /\ words32 ws /\
    enc_bits syms + pair_padding nbb <= 32 * lenN ws < enc_bits syms + pair_padding nbb + 32.
Proof.
  intros Hnbb Hinc syms.
  destruct (compress_pairs_loop_spec nbb Hnbb pairs 0 0 wstate0 0 0 ltac:(lia) Hinc winv0) as (st & Hl & Hw).
  fold syms in Hw. rewrite N.pow_0_r, N.mul_1_l, !N.add_0_l in Hw.
  destruct (finish_spec _ _ _ (pair_padding nbb) Hw ltac:(pose proof (pair_padding_le nbb); lia))
    as (ws & H1 & H2 & H3 & H4).
  exists ws. unfold compress_pairs. rewrite Hl. auto.
Qed.

(** * read_unary *)

Definition tz_check : bool :=
  (nth 0 byte_trailing_zeros_table 0 =? 8) &&
  forallb (fun x => forallb (fun h =>
    if x mod 2 ^ (h + 1) =? 2 ^ h then nth (N.to_nat x) byte_trailing_zeros_table 0 =? h else true) (nseq 0 8))
    (nseq 0 256).

Lemma tz_check_ok : tz_check = true.
Proof. vm_compute. reflexivity. Qed.

Lemma tz_zero : nth 0 byte_trailing_zeros_table 0 = 8.
Proof. reflexivity. Qed.

Lemma tz_spec x h : x < 256 -> h < 8 -> x mod 2 ^ (h + 1) = 2 ^ h ->
  nth (N.to_nat x) byte_trailing_zeros_table 0 = h.
Proof.
  intros Hx Hh Hm. pose proof tz_check_ok as H. unfold tz_check in H. apply andb_true_iff in H as [_ H].
  assert (Hx' : (N.to_nat x < 256)%nat) by (change 256%nat with (N.to_nat 256); lia).
  assert (Hh' : (N.to_nat h < 8)%nat) by (change 8%nat with (N.to_nat 8); lia).
  pose proof (forallb_nseq _ 256 0 (N.to_nat x) H Hx') as H1. cbv beta in H1.
  pose proof (forallb_nseq _ 8 0 (N.to_nat h) H1 Hh') as H2. cbv beta in H2.
  rewrite !N.add_0_l, !N2Nat.id in H2. rewrite Hm, N.eqb_refl in H2. apply N.eqb_eq, H2.
Qed.

Section PairsReader.
  Variable words : list N.
  Variable nbb : N.
  Hypothesis Hnbb : nbb <= 30.
  Hypothesis Hw32 : words32 words.
  Hypothesis Hlen : lenN words < 2 ^ 32.

  Lemma read_unary_loop_spec : forall fuel st pos hi sub E,
    rinv words st pos -> words_val words / 2 ^ pos = 2 ^ hi + 2 ^ (hi + 1) * E ->
    pos + hi + 8 <= 32 * lenN words -> sub + hi < 2 ^ 64 -> (N.to_nat (hi / 8) < fuel)%nat ->
    exists st', read_unary_loop fuel words st sub = Some (sub + hi, st') /\ rinv words st' (pos + (hi + 1)).
  Proof.
    induction fuel as [|f IH]; intros st pos hi sub E Hr HV Hbits Hsub Hf; [exfalso; exact (Nat.nlt_0_r _ Hf)|].
    cbn [read_unary_loop].
    destruct (fill_inv words Hw32 Hlen st pos 8 Hr ltac:(lia) ltac:(lia)) as (st1 & Hfl & Hr1 & Hnb).
    rewrite Hfl. destruct st1 as [[bb1 nb1] idx1]. cbn [fst snd] in Hnb |- *.
    rewrite land_255, (peek_inv words _ _ _ _ 8 Hr1 Hnb), HV.
    set (x := (2 ^ hi + 2 ^ (hi + 1) * E) mod 2 ^ 8).
    assert (Hx : x < 256) by apply (mod_lt_pow2 _ 8).
    destruct (N.lt_ge_cases hi 8) as [Hh|Hh].
    - assert (Hxm : x mod 2 ^ (hi + 1) = 2 ^ hi).
      { unfold x. rewrite mod_pow_mod by lia. apply cons_mod. apply pow2_lt. lia. }
      rewrite (tz_spec x hi Hx Hh Hxm).
      replace (8 <? hi) with false by (symmetry; apply N.ltb_ge; lia).
      replace (hi <? 8) with true by (symmetry; apply N.ltb_lt; lia).
      rewrite w64_id by exact Hsub. eexists. split; [reflexivity|].
      replace (hi + 1) with (1 + hi) by lia.
      apply (drop_inv words (bb1, nb1, idx1) pos (1 + hi) Hr1). cbn [fst snd]. lia.
    - assert (Hsplit : 2 ^ hi + 2 ^ (hi + 1) * E = 0 + 2 ^ 8 * (2 ^ (hi - 8) + 2 ^ (hi - 8 + 1) * E)).
      { replace (hi + 1) with (8 + (hi - 8 + 1)) by lia. replace hi with (8 + (hi - 8)) at 1 by lia.
        rewrite !N.pow_add_r. ring. }
      assert (Hx0 : x = 0). { unfold x. rewrite Hsplit. apply cons_mod. apply pow2_pos. }
      rewrite Hx0. change (N.to_nat 0) with 0%nat. rewrite tz_zero.
      change (8 <? 8) with false. cbv iota.
      rewrite w64_id by (change (2 ^ 64) with 18446744073709551616 in *; lia).
      pose proof (drop_inv words (bb1, nb1, idx1) pos 8 Hr1 ltac:(cbn [fst snd]; lia)) as Hr2.
      destruct (IH _ (pos + 8) (hi - 8) (sub + 8) E Hr2) as (st' & Hl' & Hr').
      + rewrite div_pow_add, HV, Hsplit. apply cons_div. apply pow2_pos.
      + lia.
      + lia.
      + dlia.
      + exists st'. replace (sub + 8 + (hi - 8)) with (sub + hi) in Hl' by lia.
        replace (pos + 8 + (hi - 8 + 1)) with (pos + (hi + 1)) in Hr' by lia. auto.
  Qed.

  Lemma read_unary_spec st pos hi E :
    rinv words st pos -> words_val words / 2 ^ pos = 2 ^ hi + 2 ^ (hi + 1) * E ->
    pos + hi + 8 <= 32 * lenN words -> hi < 2 ^ 64 ->
    exists st', read_unary words st = Some (hi, st') /\ rinv words st' (pos + (hi + 1)).
  Proof.
    intros Hr HV Hbits Hhi. unfold read_unary.
    destruct (read_unary_loop_spec (read_unary_fuel words) st pos hi 0 E Hr HV Hbits ltac:(lia)) as (st' & H1 & H2).
    - unfold read_unary_fuel. unfold lenN in Hbits. dlia.
    - exists st'. rewrite N.add_0_l in H1. auto.
  Qed.

  Lemma uncompress_pairs_loop_spec : forall pairs pr pc st pos,
    pc <= 64 -> increasing_from (64 * pr + pc) pairs -> rinv words st pos ->
    words_val words / 2 ^ pos = enc_num (pair_syms nbb pr pc pairs) ->
    pos + enc_bits (pair_syms nbb pr pc pairs) + pair_padding nbb <= 32 * lenN words ->
    exists st', uncompress_pairs_loop (length pairs) nbb words pr pc st = Some (pairs, st') /\
                rinv words st' (pos + enc_bits (pair_syms nbb pr pc pairs)).
  Proof.
    pose proof (pair_padding_le nbb) as [Hpad1 Hpad2].
    induction pairs as [|p r IH]; intros pr pc st pos Hpc Hinc Hr HV Hbits;
      cbn [length uncompress_pairs_loop pair_syms enc_num enc_bits] in *.
    - eexists. split; [reflexivity|]. rewrite N.add_0_r. exact Hr.
    - destruct Hinc as (Hlb & Hp & Hinc).
      destruct (pair_facts pr pc p Hpc Hlb Hp) as (Hpe & Hcol & Hrow & Hpr & Hpc').
      cbv zeta in Hpe, Hcol, Hrow, Hpr, Hpc'. unfold pair_syms1 in HV, Hbits |- *. cbv zeta in HV, Hbits |- *.
      set (row := N.shiftr p 6) in *. set (col := N.land p 63) in *.
      set (pc' := if row =? pr then pc else 0) in *.
      set (yd := row - pr) in *. set (xd := col - pc') in *.
      destruct (unary_entry_facts xd ltac:(lia)) as (He & Hl & Hv). cbv zeta in He, Hl, Hv.
      set (e := nth (N.to_nat xd) length_limited_unary_encoding_table65 0) in *.
      set (hi := N.shiftr yd nbb) in *. set (lo := N.land yd (N.ones nbb)) in *.
      cbn [app enc_num enc_bits] in HV, Hbits |- *.
      set (E := enc_num (pair_syms nbb row (col + 1) r)) in *.
      set (B := enc_bits (pair_syms nbb row (col + 1) r)) in *.
      assert (Hyd : yd < 2 ^ 26) by (change (2 ^ 26) with 67108864 in *; lia).
      assert (Hhi : hi <= yd).
      { unfold hi. rewrite N.shiftr_div_pow2. apply N.div_le_upper_bound; [apply pow2_nz|].
        pose proof (pow2_pos nbb). nia. }
      assert (Hlo : lo < 2 ^ nbb) by apply land_ones_lt.
      assert (Hydsplit : yd = lo + hi * 2 ^ nbb).
      { unfold lo, hi. rewrite N.land_ones, N.shiftr_div_pow2.
        rewrite (N.div_mod' yd (2 ^ nbb)) at 1. lia. }
      (* x_delta *)
      destruct (fill_inv words Hw32 Hlen st pos 12 Hr ltac:(lia) ltac:(lia)) as (st1 & Hf & Hr1 & Hnb).
      rewrite Hf. destruct st1 as [[bb1 nb1] idx1]. cbn [fst snd] in Hnb |- *.
      rewrite land_4095, (peek_inv words _ _ _ _ 12 Hr1 Hnb), HV.
      set (R1 := 2 ^ hi + 2 ^ (hi + 1) * (lo + 2 ^ nbb * E)) in *.
      set (pk := (code_val e + 2 ^ code_len e * R1) mod 2 ^ 12).
      assert (Hpk : pk < 4096) by apply (mod_lt_pow2 _ 12).
      assert (Hpm : pk mod 2 ^ code_len e = code_val e).
      { unfold pk. rewrite mod_pow_mod by lia. apply cons_mod, Hv. }
      assert (Hxd' : (N.to_nat xd < 65)%nat) by (change 65%nat with (N.to_nat 65); lia).
      pose proof (unary_decode_encode _ pk Hxd' Hpk Hpm) as Hlk. fold e in Hlk. rewrite N2Nat.id in Hlk.
      unfold table_entry. rewrite Hlk, w16_id by lia.
      rewrite (entry_len _ xd), (entry_byte _ xd), (w8_id (code_len e)) by lia.
      unfold sext8. replace (xd <? 128) with true by (symmetry; apply N.ltb_lt; lia).
      pose proof (drop_inv words (bb1, nb1, idx1) pos (code_len e) Hr1 ltac:(cbn [fst snd]; lia)) as Hr2.
      assert (HV2 : words_val words / 2 ^ (pos + code_len e) = R1).
      { rewrite div_pow_add, HV. apply cons_div, Hv. }
      (* golomb_hi *)
      destruct (read_unary_spec _ _ hi _ Hr2 HV2 ltac:(lia)
                  ltac:(change (2 ^ 26) with 67108864 in *; change (2 ^ 64) with 18446744073709551616; lia))
        as (st3 & Hru & Hr3).
      rewrite Hru.
      assert (HV3 : words_val words / 2 ^ (pos + code_len e + (hi + 1)) = lo + 2 ^ nbb * E).
      { rewrite div_pow_add, HV2. apply cons_div. apply pow2_lt. lia. }
      (* golomb_lo *)
      destruct (fill_inv words Hw32 Hlen st3 _ nbb Hr3 ltac:(lia) ltac:(lia)) as (st4 & Hf4 & Hr4 & Hnb4).
      rewrite Hf4. destruct st4 as [[bb4 nb4] idx4]. cbn [fst snd] in Hnb4 |- *.
      unfold golomb_lo_mask. rewrite N.land_ones, (peek_inv words _ _ _ _ nbb Hr4 Hnb4), HV3, (cons_mod _ _ _ Hlo).
      pose proof (drop_inv words (bb4, nb4, idx4) _ nbb Hr4 ltac:(cbn [fst snd]; lia)) as Hr5.
      assert (HV5 : words_val words / 2 ^ (pos + code_len e + (hi + 1) + nbb) = E).
      { rewrite div_pow_add, HV3. apply cons_div, Hlo. }
      (* y_delta and the pair *)
      assert (Hhi26 : hi < 2 ^ 26) by (eapply N.le_lt_trans; [exact Hhi|exact Hyd]).
      rewrite (shl64_small hi nbb 26 Hhi26) by lia.
      rewrite N.lor_comm, (lor_shift_add _ _ _ Hlo), <- Hydsplit.
      replace (yd <? 9223372036854775808) with true
        by (symmetry; apply N.ltb_lt; change (2 ^ 26) with 67108864 in *; lia).
      rewrite andb_true_r.
      assert (Hpcd : (if 0 <? yd then 0 else pc) = pc').
      { unfold pc'. destruct (row =? pr) eqn:Erow; [apply N.eqb_eq in Erow|apply N.eqb_neq in Erow].
        - replace (0 <? yd) with false by (symmetry; apply N.ltb_ge; lia). reflexivity.
        - replace (0 <? yd) with true by (symmetry; apply N.ltb_lt; lia). reflexivity. }
      rewrite Hpcd.
      replace (pr + yd) with row by lia. replace (pc' + xd) with col by lia.
      rewrite (w32_id row) by (eapply lt_pow2_trans; [exact Hrow|lia]).
      rewrite (w8_id col), (w8_id (col + 1)) by lia.
      assert (Hrc : N.lor (shl32 row 6) col = p).
      { unfold shl32. rewrite N.shiftl_mul_pow2, w32_id.
        - rewrite N.lor_comm, lor_shift_add by exact Hcol. change (2 ^ 6) with 64. lia.
        - change (2 ^ 6) with 64. change (2 ^ 32) with 4294967296. change (2 ^ 26) with 67108864 in *. lia. }
      rewrite Hrc.
      destruct (IH row (col + 1) _ _ ltac:(lia)
                  ltac:(replace (64 * row + (col + 1)) with (p + 1) by lia; exact Hinc) Hr5 HV5)
        as (st' & Hl' & Hr').
      + fold B. lia.
      + rewrite Hl'. eexists. split; [reflexivity|]. fold B in Hr'.
        replace (pos + (code_len e + (hi + 1 + (nbb + B)))) with (pos + code_len e + (hi + 1) + nbb + B) by lia.
        exact Hr'.
  Qed.
End PairsReader.

(** * T2 *)

Theorem pairs_codec_total : forall nbb pairs, nbb <= 32 ->
  StronglySorted N.lt pairs -> Forall (fun p => p < 2 ^ 32) pairs ->
  exists words, compress_pairs pairs nbb = Some words.
Proof.
  intros nbb pairs Hnbb Hs Hf.
  destruct (compress_pairs_spec nbb pairs Hnbb (sorted_increasing_from pairs Hs Hf)) as (ws & H & _).
  exists ws. exact H.
Qed.

Theorem pairs_codec_rt : forall nbb pairs words, nbb <= 30 ->
  StronglySorted N.lt pairs -> Forall (fun p => p < 2 ^ 32) pairs ->
  compress_pairs pairs nbb = Some words -> N.of_nat (length words) < 2 ^ 32 ->
  uncompress_pairs (N.of_nat (length pairs)) nbb words = Some pairs.
Proof.
  intros nbb pairs words Hnbb Hs Hf Hc Hlen.
  pose proof (sorted_increasing_from pairs Hs Hf) as Hinc.
  destruct (compress_pairs_spec nbb pairs ltac:(lia) Hinc) as (ws & H1 & HV & Hw32 & Hl1 & Hl2).
  cbv zeta in HV, Hl1, Hl2. rewrite Hc in H1. injection H1 as <-.
  destruct (uncompress_pairs_loop_spec words nbb Hnbb Hw32 Hlen pairs 0 0 rstate0 0 ltac:(lia) Hinc (rinv0 words))
    as (st' & Hl' & Hr').
  - rewrite N.pow_0_r, N.div_1_r. exact HV.
  - lia.
  - unfold uncompress_pairs. rewrite Nat2N.id, Hl'. destruct st' as [[bb nb] idx].
    destruct Hr' as (_ & _ & _ & Hi). fold (lenN words).
    replace (lenN words <? idx) with false by (symmetry; apply N.ltb_ge; exact Hi). reflexivity.
Qed.

(** * T3: the words written by low_level_compress_pairs fit in safe_length_for_compressed_pair_buf
    ("Managing Gigabytes" bound: the unary parts take sum_i floor(ydelta_i / 2^b) <= floor(k / 2^b) bits) *)

Fixpoint sum_hi (nbb pr : N) (pairs : list N) : N :=
  match pairs with
  | [] => 0
  | p :: r => N.shiftr (N.shiftr p 6 - pr) nbb + sum_hi nbb (N.shiftr p 6) r
  end.

Lemma enc_bits_pairs_le nbb : forall pairs pr pc, pc <= 64 -> increasing_from (64 * pr + pc) pairs ->
  lenN pairs * (2 + nbb) + sum_hi nbb pr pairs <= enc_bits (pair_syms nbb pr pc pairs)
    <= lenN pairs * (13 + nbb) + sum_hi nbb pr pairs.
Proof.
  induction pairs as [|p r IH]; intros pr pc Hpc Hinc; cbn [pair_syms enc_bits sum_hi].
  - change (lenN (@nil N)) with 0. lia.
  - destruct Hinc as (Hlb & Hp & Hinc).
    destruct (pair_facts pr pc p Hpc Hlb Hp) as (Hpe & Hcol & Hrow & Hpr & Hpc').
    cbv zeta in Hpe, Hcol, Hrow, Hpr, Hpc'. unfold pair_syms1. cbv zeta.
    set (row := N.shiftr p 6) in *. set (col := N.land p 63) in *.
    set (pc' := if row =? pr then pc else 0) in *.
    destruct (unary_entry_facts (col - pc') ltac:(lia)) as (He & Hl & Hv). cbv zeta in Hl.
    cbn [app enc_bits]. rewrite lenN_cons.
    specialize (IH row (col + 1) ltac:(lia) ltac:(replace (64 * row + (col + 1)) with (p + 1) by lia; exact Hinc)).
    rewrite !N.mul_add_distr_r, !N.mul_1_l. lia.
Qed.

Lemma sum_hi_le nbb k : forall pairs pr pc, pc <= 64 -> increasing_from (64 * pr + pc) pairs -> pr <= k ->
  Forall (fun p => N.shiftr p 6 <= k) pairs -> 2 ^ nbb * sum_hi nbb pr pairs + pr <= k.
Proof.
  induction pairs as [|p r IH]; intros pr pc Hpc Hinc Hk Hrows; cbn [sum_hi].
  - lia.
  - destruct Hinc as (Hlb & Hp & Hinc). inversion Hrows as [|? ? Hr1 Hr2]; subst.
    destruct (pair_facts pr pc p Hpc Hlb Hp) as (Hpe & Hcol & Hrow & Hpr & Hpc').
    cbv zeta in Hpe, Hcol, Hrow, Hpr, Hpc'.
    set (row := N.shiftr p 6) in *. set (col := N.land p 63) in *.
    specialize (IH row (col + 1) ltac:(lia) ltac:(replace (64 * row + (col + 1)) with (p + 1) by lia; exact Hinc)
                   Hr1 Hr2).
    rewrite N.shiftr_div_pow2. pose proof (N.mul_div_le (row - pr) (2 ^ nbb) (pow2_nz nbb)). lia.
Qed.

Theorem pairs_codec_len : forall nbb k pairs words, nbb <= 32 ->
  StronglySorted N.lt pairs -> Forall (fun p => p < 2 ^ 32) pairs ->
  Forall (fun p => N.shiftr p 6 <= k) pairs ->
  N.of_nat (length pairs) * (13 + nbb) + N.shiftr k nbb + 10 < 2 ^ 32 ->
  compress_pairs pairs nbb = Some words ->
  N.of_nat (length words) <= safe_length_for_compressed_pair_buf k (N.of_nat (length pairs)) nbb.
Proof.
  intros nbb k pairs words Hnbb Hs Hf Hrows Hsz Hc.
  pose proof (sorted_increasing_from pairs Hs Hf) as Hinc.
  destruct (compress_pairs_spec nbb pairs Hnbb Hinc) as (ws & H1 & _ & _ & Hl1 & Hl2).
  cbv zeta in Hl1, Hl2. rewrite Hc in H1. injection H1 as <-.
  pose proof (enc_bits_pairs_le nbb pairs 0 0 ltac:(lia) Hinc) as [_ Hb].
  pose proof (sum_hi_le nbb k pairs 0 0 ltac:(lia) Hinc ltac:(lia) Hrows) as Hh. rewrite N.add_0_r in Hh.
  assert (Hh' : sum_hi nbb 0 pairs <= N.shiftr k nbb).
  { rewrite N.shiftr_div_pow2. apply N.div_le_lower_bound; [apply pow2_nz|exact Hh]. }
  fold (lenN pairs) in *. fold (lenN words). set (n := lenN pairs) in *.
  pose proof (pair_padding_le nbb) as [Hpad _].
  assert (Hn : n * (13 + nbb) = 12 * n + n * (1 + nbb)) by ring.
  change (2 ^ 32) with 4294967296 in Hsz.
  unfold safe_length_for_compressed_pair_buf. fold (pair_padding nbb).
  rewrite (w32_id (n * (1 + nbb))) by (change (2 ^ 32) with 4294967296; lia).
  rewrite (w32_id (n * (1 + nbb) + N.shiftr k nbb)) by (change (2 ^ 32) with 4294967296; lia).
  rewrite (w32_id (12 * n)) by (change (2 ^ 32) with 4294967296; lia).
  rewrite w64_id by (change (2 ^ 64) with 18446744073709551616; lia).
  destruct (divide_up_32 (12 * n + (n * (1 + nbb) + N.shiftr k nbb) + pair_padding nbb)) as (r & Hr & Hr1 & Hr2).
  { change (2 ^ 64) with 18446744073709551616. lia. }
  rewrite Hr. lia.
Qed.

(* T2 with the bound on the number of words derived instead of assumed *)
Theorem pairs_codec_rt_bounded : forall nbb pairs words, nbb <= 30 ->
  StronglySorted N.lt pairs -> Forall (fun p => p < 2 ^ 32) pairs ->
  N.of_nat (length pairs) <= 2 ^ 31 ->
  compress_pairs pairs nbb = Some words ->
  uncompress_pairs (N.of_nat (length pairs)) nbb words = Some pairs.
Proof.
  intros nbb pairs words Hnbb Hs Hf Hn Hc. apply pairs_codec_rt; auto.
  pose proof (sorted_increasing_from pairs Hs Hf) as Hinc.
  destruct (compress_pairs_spec nbb pairs ltac:(lia) Hinc) as (ws & H1 & _ & _ & Hl1 & Hl2).
  cbv zeta in Hl1, Hl2. rewrite Hc in H1. injection H1 as <-.
  pose proof (enc_bits_pairs_le nbb pairs 0 0 ltac:(lia) Hinc) as [_ Hb].
  assert (Hrows : Forall (fun p => N.shiftr p 6 <= 2 ^ 26) pairs).
  { eapply Forall_impl; [|exact Hf]. cbv beta. intros p Hp. rewrite N.shiftr_div_pow2.
    apply N.lt_le_incl. apply N.div_lt_upper_bound; [apply pow2_nz|]. rewrite <- N.pow_add_r. exact Hp. }
  pose proof (sum_hi_le nbb (2 ^ 26) pairs 0 0 ltac:(lia) Hinc ltac:(lia) Hrows) as Hh. rewrite N.add_0_r in Hh.
  assert (Hh' : sum_hi nbb 0 pairs <= 2 ^ 26).
  { pose proof (pow2_pos nbb). nia. }
  fold (lenN pairs) in *. fold (lenN words). set (n := lenN pairs) in *.
  pose proof (pair_padding_le nbb) as [Hpad _].
  assert (Hm : n * (13 + nbb) <= 2 ^ 31 * 43) by (apply N.mul_le_mono; lia).
  change (2 ^ 31) with 2147483648 in *. change (2 ^ 26) with 67108864 in *. change (2 ^ 32) with 4294967296.
  lia.
Qed.

(** * The callers *)

(** ** sliding window *)

Lemma pseudo_phase_some lg_k c : 4 <= lg_k ->
  exists ph, determine_pseudo_phase_opt lg_k c = Some ph /\ determine_pseudo_phase lg_k c = ph /\ ph < 22.
Proof.
  intros Hlg. unfold determine_pseudo_phase. unfold determine_pseudo_phase_opt. cbv zeta.
  repeat match goal with |- context [if ?b then _ else _] => destruct b eqn:?; try (eexists; repeat split; lia) end.
  - apply N.ltb_lt in Heqb0. lia.
  - apply N.leb_le in Heqb1. exfalso. change 15 with (N.ones 4) in Heqb1. rewrite N.land_ones in Heqb1.
    pose proof (mod_lt_pow2 (N.shiftr c (lg_k - 4)) 4). change (2 ^ 4) with 16 in *. lia.
  - eexists. repeat split. apply N.leb_gt in Heqb1. lia.
Qed.

(* the pseudo phase is always a valid table index *)
Theorem pseudo_phase_lt22 : forall lg_k c, 4 <= lg_k -> determine_pseudo_phase lg_k c < 22.
Proof. intros lg_k c Hlg. destruct (pseudo_phase_some lg_k c Hlg) as (ph & _ & -> & H). exact H. Qed.

(* SLIDING flavor (27 k <= 8 c, i.e. c >= 3.375 k > 2.375 k): the steady-state branch is taken and a true phase < 16 is
   returned, so the throw "unexpected pseudo phase for sliding flavor" of compress_sliding_flavor is unreachable *)
Theorem sliding_phase_lt16 : forall lg_k c, 4 <= lg_k -> 27 * 2 ^ lg_k <= 8 * c ->
  determine_pseudo_phase lg_k c < 16.
Proof.
  intros lg_k c Hlg Hc. unfold determine_pseudo_phase, determine_pseudo_phase_opt. cbv zeta.
  rewrite N.shiftl_1_l. pose proof (pow2_pos lg_k) as HK. set (K := 2 ^ lg_k) in *.
  replace (1000 * c <? 2375 * K) with false by (symmetry; apply N.ltb_ge; lia).
  replace (lg_k <? 4) with false by (symmetry; apply N.ltb_ge; lia).
  destruct (16 <=? N.land (N.shiftr c (lg_k - 4)) 15) eqn:E; [lia|]. apply N.leb_gt in E. exact E.
Qed.

Theorem sliding_window_rt : forall lg_k c win, 4 <= lg_k < 32 ->
  N.of_nat (length win) = 2 ^ lg_k -> Forall (fun b => b < 256) win ->
  uncompress_sliding_window (compress_sliding_window win lg_k c) lg_k c = Some win.
Proof.
  intros lg_k c win Hlg Hlen Hb. destruct (pseudo_phase_some lg_k c ltac:(lia)) as (ph & H1 & H2 & H3).
  unfold uncompress_sliding_window, compress_sliding_window. rewrite H1, H2.
  assert (Hk : 2 ^ lg_k < 2 ^ 32) by (apply pow2_lt; lia).
  rewrite N.shiftl_1_l, (w32_id _ Hk), <- Hlen.
  apply bytes_codec_rt; [|exact Hb|rewrite Hlen; exact Hk].
  change 22%nat with (N.to_nat 22). lia.
Qed.

(* the window buffer is large enough (k = 2^lg_k <= 2^26 in every CPC sketch) *)
Theorem sliding_window_len : forall lg_k c win, 4 <= lg_k <= 26 ->
  N.of_nat (length win) = 2 ^ lg_k -> Forall (fun b => b < 256) win ->
  N.of_nat (length (compress_sliding_window win lg_k c)) <= safe_length_for_compressed_window_buf (2 ^ lg_k).
Proof.
  intros lg_k c win Hlg Hlen Hb. destruct (pseudo_phase_some lg_k c ltac:(lia)) as (ph & H1 & H2 & H3).
  unfold compress_sliding_window. rewrite H2, <- Hlen.
  apply bytes_codec_len; [change 22%nat with (N.to_nat 22); lia|exact Hb|].
  rewrite Hlen. assert (2 ^ lg_k <= 2 ^ 26) by (apply pow2_le; lia).
  change (2 ^ 26) with 67108864 in *. change (2 ^ 32) with 4294967296. lia.
Qed.

(** ** surprising values *)

Lemma floor_log2_loop_bound : forall fuel x p y r, 1 <= x <= 2 ^ 30 -> y = 2 ^ p ->
  (p = 0 \/ 2 ^ (p - 1) < x) -> floor_log2_loop fuel x p y = Some r -> r <= 30.
Proof.
  induction fuel as [|f IH]; intros x p y r Hx Hy Hinv H; cbn [floor_log2_loop] in H; [discriminate|].
  assert (Hp : p <= 31).
  { destruct Hinv as [->|Hinv]; [lia|]. assert (p - 1 < 30); [|lia].
    apply (N.pow_lt_mono_r_iff 2); [reflexivity|]. lia. }
  destruct (y =? x) eqn:E1; [apply N.eqb_eq in E1|apply N.eqb_neq in E1].
  - injection H as <-. apply (N.pow_le_mono_r_iff 2); [reflexivity|]. rewrite <- Hy, E1. lia.
  - destruct (x <? y) eqn:E2; [apply N.ltb_lt in E2|apply N.ltb_ge in E2].
    + injection H as <-. destruct Hinv as [->|Hinv].
      * change (2 ^ 0) with 1 in Hy. lia.
      * assert (p - 1 < 30) by (apply (N.pow_lt_mono_r_iff 2); [reflexivity|lia]).
        assert (p <> 0) by (intros ->; change (2 ^ 0) with 1 in Hy; lia).
        replace (p + 255) with ((p - 1) + 1 * 256) by lia. unfold w8. rewrite land_255. change (2 ^ 8) with 256.
        rewrite N.mod_add by discriminate. rewrite N.mod_small by lia. lia.
    + assert (Hp30 : p < 30) by (apply (N.pow_lt_mono_r_iff 2); [reflexivity|rewrite <- Hy; lia]).
      rewrite (w8_id (p + 1)) in H by lia.
      rewrite (shl64_small y 1 31) in H by (try lia; rewrite Hy; apply pow2_lt; lia).
      apply (IH _ _ _ _ Hx) in H; [exact H| |].
      * rewrite Hy, N.pow_add_r. reflexivity.
      * right. replace (p + 1 - 1) with p by lia. rewrite <- Hy. lia.
Qed.

Lemma base_bits_bound num_pairs lg_k nbb : lg_k <= 30 -> num_pairs <= 2 ^ 31 ->
  surprising_values_base_bits num_pairs lg_k = Some nbb -> nbb <= 30.
Proof.
  intros Hlg Hn H. unfold surprising_values_base_bits, golomb_choose_number_of_base_bits in H. cbv zeta in H.
  assert (Hk : 2 ^ lg_k <= 2 ^ 30) by (apply pow2_le; exact Hlg).
  rewrite N.shiftl_1_l in H. change (2 ^ 30) with 1073741824 in *. change (2 ^ 31) with 2147483648 in *.
  rewrite (w32_id (2 ^ lg_k)) in H by (change (2 ^ 32) with 4294967296; lia).
  rewrite (w32_id (2 ^ lg_k + num_pairs)) in H by (change (2 ^ 32) with 4294967296; lia).
  destruct (2 ^ lg_k + num_pairs <? 1); [discriminate|].
  destruct (num_pairs <? 1) eqn:E; [discriminate|]. apply N.ltb_ge in E.
  rewrite (w64_id num_pairs) in H by (change (2 ^ 64) with 18446744073709551616; lia).
  replace (2 ^ lg_k + num_pairs + two64 - num_pairs) with (2 ^ lg_k + 1 * two64) in H by (unfold two64; lia).
  rewrite w64_mod in H. rewrite N.mod_add in H by discriminate.
  rewrite N.mod_small in H by (unfold two64; lia).
  set (q := 2 ^ lg_k / num_pairs) in *.
  assert (Hq : q <= 1073741824).
  { unfold q. etransitivity; [|exact Hk]. apply N.div_le_upper_bound; [lia|]. nia. }
  destruct (q =? 0) eqn:E0; [injection H as <-; lia|]. apply N.eqb_neq in E0.
  unfold floor_log2_of_long in H. destruct (q <? 1) eqn:E1; [discriminate|].
  assert (Hq1 : 1 <= q <= 2 ^ 30) by (change (2 ^ 30) with 1073741824; lia).
  exact (floor_log2_loop_bound 70 q 0 1 nbb Hq1 eq_refl (or_introl eq_refl) H).
Qed.

Theorem surprising_values_rt : forall lg_k pairs words, lg_k <= 30 ->
  StronglySorted N.lt pairs -> Forall (fun p => p < 2 ^ 32) pairs ->
  N.of_nat (length pairs) <= 2 ^ 31 ->
  compress_surprising_values pairs lg_k = Some words ->
  uncompress_surprising_values words (N.of_nat (length pairs)) lg_k = Some pairs.
Proof.
  intros lg_k pairs words Hlg Hs Hf Hn Hc. unfold compress_surprising_values in Hc. cbv zeta in Hc.
  unfold uncompress_surprising_values.
  rewrite (w32_id (N.of_nat (length pairs))) in Hc
    by (change (2 ^ 31) with 2147483648 in Hn; change (2 ^ 32) with 4294967296; lia).
  destruct (surprising_values_base_bits (N.of_nat (length pairs)) lg_k) as [nbb|] eqn:E; [|discriminate].
  apply pairs_codec_rt_bounded; auto. eapply base_bits_bound; eauto.
Qed.

(* the compressor throws only for an empty pair list (golomb_choose_number_of_base_bits: count < 1) *)
Theorem surprising_values_total : forall lg_k pairs, lg_k <= 30 -> pairs <> [] ->
  StronglySorted N.lt pairs -> Forall (fun p => p < 2 ^ 32) pairs ->
  N.of_nat (length pairs) <= 2 ^ 26 ->
  exists words, compress_surprising_values pairs lg_k = Some words.
Proof.
  intros lg_k pairs Hlg Hne Hs Hf Hn. unfold compress_surprising_values. cbv zeta.
  assert (Hn1 : 1 <= N.of_nat (length pairs)) by (destruct pairs; [congruence|cbn [length]; lia]).
  change (2 ^ 26) with 67108864 in Hn.
  rewrite (w32_id (N.of_nat (length pairs))) by (change (2 ^ 32) with 4294967296; lia).
  set (n := N.of_nat (length pairs)) in *.
  assert (Hbb : exists nbb, surprising_values_base_bits n lg_k = Some nbb).
  { unfold surprising_values_base_bits, golomb_choose_number_of_base_bits. cbv zeta.
    assert (Hk : 2 ^ lg_k <= 2 ^ 30) by (apply pow2_le; exact Hlg). change (2 ^ 30) with 1073741824 in Hk.
    rewrite N.shiftl_1_l. rewrite (w32_id (2 ^ lg_k)) by (change (2 ^ 32) with 4294967296; lia).
    rewrite (w32_id (2 ^ lg_k + n)) by (change (2 ^ 32) with 4294967296; lia).
    replace (2 ^ lg_k + n <? 1) with false by (symmetry; apply N.ltb_ge; lia).
    replace (n <? 1) with false by (symmetry; apply N.ltb_ge; lia).
    rewrite (w64_id n) by (change (2 ^ 64) with 18446744073709551616; lia).
    replace (2 ^ lg_k + n + two64 - n) with (2 ^ lg_k + 1 * two64) by (unfold two64; lia).
    rewrite w64_mod, N.mod_add by discriminate. rewrite N.mod_small by (unfold two64; lia).
    set (q := 2 ^ lg_k / n).
    assert (Hq : q <= 1073741824).
    { unfold q. etransitivity; [|exact Hk]. apply N.div_le_upper_bound; [lia|]. nia. }
    destruct (q =? 0) eqn:E0; [eauto|]. apply N.eqb_neq in E0.
    unfold floor_log2_of_long. replace (q <? 1) with false by (symmetry; apply N.ltb_ge; lia).
    (* the loop ends within 32 iterations *)
    assert (G : forall fuel p, (31 - N.to_nat p < fuel)%nat -> p <= 31 -> 2 ^ p <= 2 * q ->
                exists r, floor_log2_loop fuel q p (2 ^ p) = Some r).
    { induction fuel as [|f IH]; intros p Hfu Hp Hpq; [lia|]. cbn [floor_log2_loop].
      destruct (2 ^ p =? q) eqn:E1; [eauto|]. apply N.eqb_neq in E1.
      destruct (q <? 2 ^ p) eqn:E2; [eauto|]. apply N.ltb_ge in E2.
      assert (Hp30 : p < 30).
      { apply (N.pow_lt_mono_r_iff 2); [reflexivity|]. change (2 ^ 30) with 1073741824. lia. }
      rewrite (w8_id (p + 1)) by lia.
      rewrite (shl64_small (2 ^ p) 1 31) by (try lia; apply pow2_lt; lia).
      rewrite <- N.pow_add_r. apply IH; [lia|lia|]. rewrite N.pow_add_r. change (2 ^ 1) with 2. lia. }
    apply (G 70%nat 0); [lia|lia|]. change (2 ^ 0) with 1. lia. }
  destruct Hbb as (nbb & Hbb). rewrite Hbb.
  assert (Hnbb : nbb <= 30) by (eapply (base_bits_bound n lg_k); [exact Hlg|change (2 ^ 31) with 2147483648; lia|exact Hbb]).
  apply pairs_codec_total; auto. lia.
Qed.

(** * Non-vacuity: the theorems applied to concrete inputs (hypotheses discharged), and the conclusions recomputed *)

Lemma ex_bytes_ok : Forall (fun b => b < 256) ex_bytes.
Proof. unfold ex_bytes. repeat constructor. Qed.

Lemma ex_pairs_sorted : StronglySorted N.lt ex_pairs /\ Forall (fun p => p < 2 ^ 32) ex_pairs.
Proof. unfold ex_pairs. split; repeat constructor. Qed.

Example bytes_codec_rt_ex :
  uncompress_bytes (nth 3 byte_decoding_tables []) (N.of_nat (length ex_bytes))
    (compress_bytes (nth 3 encoding_tables_for_high_entropy_byte []) ex_bytes) = Some ex_bytes.
Proof. apply bytes_codec_rt; [lia|exact ex_bytes_ok|reflexivity]. Qed.

Example bytes_codec_rt_ex_computed :
  compress_bytes (nth 3 encoding_tables_for_high_entropy_byte []) ex_bytes <> [] /\
  uncompress_bytes (nth 3 byte_decoding_tables []) 20
    (compress_bytes (nth 3 encoding_tables_for_high_entropy_byte []) ex_bytes) = Some ex_bytes.
Proof. vm_compute. split; [discriminate|reflexivity]. Qed.

Example bytes_codec_len_ex :
  N.of_nat (length (compress_bytes (nth 3 encoding_tables_for_high_entropy_byte []) ex_bytes))
  <= safe_length_for_compressed_window_buf (N.of_nat (length ex_bytes)).
Proof. apply bytes_codec_len; [lia|exact ex_bytes_ok|reflexivity]. Qed.

Example bytes_codec_len_ex_computed :
  N.of_nat (length (compress_bytes (nth 3 encoding_tables_for_high_entropy_byte []) ex_bytes)) = 6 /\
  safe_length_for_compressed_window_buf 20 = 8.
Proof. vm_compute. split; reflexivity. Qed.

Example pairs_codec_total_ex : exists words, compress_pairs ex_pairs 20 = Some words.
Proof. apply pairs_codec_total; [lia|apply ex_pairs_sorted|apply ex_pairs_sorted]. Qed.

Example pairs_codec_rt_ex : forall words, compress_pairs ex_pairs 20 = Some words ->
  uncompress_pairs (N.of_nat (length ex_pairs)) 20 words = Some ex_pairs.
Proof.
  intros words H. apply pairs_codec_rt_bounded; [lia|apply ex_pairs_sorted|apply ex_pairs_sorted|vm_compute; discriminate|exact H].
Qed.

Example pairs_codec_rt_ex_computed :
  match compress_pairs ex_pairs 20 with
  | Some words => words <> [] /\ uncompress_pairs 10 20 words = Some ex_pairs
  | None => False
  end.
Proof. vm_compute. split; [discriminate|reflexivity]. Qed.

Example pairs_codec_len_ex : forall words, compress_pairs ex_pairs 20 = Some words ->
  N.of_nat (length words) <= safe_length_for_compressed_pair_buf 67108864 (N.of_nat (length ex_pairs)) 20.
Proof.
  intros words H. apply pairs_codec_len; [lia|apply ex_pairs_sorted|apply ex_pairs_sorted| |reflexivity|exact H].
  unfold ex_pairs. repeat constructor; vm_compute; discriminate.
Qed.

Example sliding_window_rt_ex :
  uncompress_sliding_window (compress_sliding_window ex_window 4 40) 4 40 = Some ex_window.
Proof. apply sliding_window_rt; [lia|reflexivity|unfold ex_window; repeat constructor]. Qed.

(* the SLIDING sketch on which the function failed before the repair (lg_k = 20, C = 4296581; cf. Regression_cpc.v) *)
Example sliding_phase_lt16_ex : determine_pseudo_phase 20 4296581 < 16.
Proof. apply sliding_phase_lt16; [lia|vm_compute; discriminate]. Qed.

Example sliding_phase_lt16_ex_computed : determine_pseudo_phase 20 4296581 = 1.
Proof. vm_compute. reflexivity. Qed.

Example surprising_values_rt_ex : forall words, compress_surprising_values ex_pairs 26 = Some words ->
  uncompress_surprising_values words (N.of_nat (length ex_pairs)) 26 = Some ex_pairs.
Proof.
  intros words H. apply surprising_values_rt; [lia|apply ex_pairs_sorted|apply ex_pairs_sorted|vm_compute; discriminate|exact H].
Qed.

Example surprising_values_total_ex : exists words, compress_surprising_values ex_pairs 26 = Some words.
Proof.
  apply surprising_values_total; [lia|discriminate|apply ex_pairs_sorted|apply ex_pairs_sorted|vm_compute; discriminate].
Qed.

(* the side conditions are needed: an unsorted list makes the compressor throw, and a missing last word is an over-read *)
Example unsorted_throws : compress_pairs [2 * 64 + 1; 1 * 64 + 5] 3 = None.
Proof. vm_compute. reflexivity. Qed.

Example padding_is_needed :
  uncompress_bytes (nth 3 byte_decoding_tables []) 20
    (removelast (compress_bytes (nth 3 encoding_tables_for_high_entropy_byte []) ex_bytes)) = None.
Proof. vm_compute. reflexivity. Qed.

Print Assumptions compress_bytes_total.
Print Assumptions bytes_codec_rt.
Print Assumptions bytes_codec_len.
Print Assumptions pairs_codec_total.
Print Assumptions pairs_codec_rt.
Print Assumptions pairs_codec_rt_bounded.
Print Assumptions pairs_codec_len.
Print Assumptions pseudo_phase_lt22.
Print Assumptions sliding_phase_lt16.
Print Assumptions sliding_window_rt.
Print Assumptions sliding_window_len.
Print Assumptions surprising_values_rt.
Print Assumptions surprising_values_total.
