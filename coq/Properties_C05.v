(* Properties_C05.v — CPC sketch is an exact coupon bit matrix; union ORs row-folded matrices.
   Only statements, closed by [exact]; proofs live in Cpc*Proofs.v. *)
From Coq Require Import ZArith NArith List Bool Lia.
From DS Require Import Word Murmur3 RunnerLib CpcDefs.
Import ListNotations.
Local Open Scope N_scope.

Theorem C05_empty_flavor_iff : forall l c, determine_flavor l c = FL_EMPTY <-> c = 0.
Proof.
  intros l c. unfold determine_flavor. destruct (N.eqb_spec c 0); [tauto|].
  split; [|tauto]. repeat match goal with |- context [if ?b then _ else _] => destruct b end; discriminate.
Qed.

Print Assumptions C05_empty_flavor_iff.
