(* Properties_C05.v — CPC sketch is an exact coupon bit matrix (every flavor, across promotion and every window
   move); the surprising-value table refines a finite set; the low-level compressor round-trips.
   Only statements, closed by [exact]; proofs live in CpcTableProofs.v, CpcSketchInv.v, CpcProofs.v,
   CpcCodecTables.v, CpcCodecProofs.v. All statements are partial-correctness statements about the executable
   model ([Some] = the C++ code neither throws nor runs into undefined behaviour) and hold for EVERY lg_k, every
   seed and every sequence of row_col pairs (arbitrary hash functions), not only for Murmur-derived ones. *)
From Coq Require Import ZArith NArith List Bool Lia Sorted Permutation.
From DS.gen Require Import CpcTablesGen.
From DS Require Import Word Murmur3 RunnerLib CpcDefs CpcTableProofs CpcBits CpcSketchInv CpcProofs
     CpcUnionProofs CpcCodecTables CpcCodecDefs CpcCodecProofs CpcFlavorDefs CpcFlavorProofs Regression_cpc.
Import ListNotations.
Local Open Scope N_scope.

(* u32_table: any sequence of maybe_insert / maybe_delete from an empty table (any lg_size, any num_valid_bits,
   across every growth and shrink rebuild and every delete-by-reinsertion) holds exactly the abstract set, returns
   exactly the novelty flags, stores no item twice and counts correctly *)
Theorem C05_table_refines_set : forall lg nvb ops t bs,
  (forall o, In o ops -> op_arg o <> EMPTY) ->
  tab_run (t_new lg nvb) ops = Some (t, bs) ->
  (forall y, In y (t_items t) <-> In y (fst (set_run [] ops))) /\ bs = snd (set_run [] ops) /\
  NoDup (t_items t) /\ t_num t = N.of_nat (length (t_items t)).
Proof. exact tab_refines. Qed.

Section AnyRun.
  Variables (l sd : N) (rcs : list N) (s : sketch).
  Hypothesis Hv : valid_rcs l rcs.                 (* row < 2^l, col < 64, pair <> UINT32_MAX *)
  Hypothesis Hrun : sk_run l sd rcs = Some s.

  (* the matrix rebuilt by build_bit_matrix is exactly the matrix with the offered coupons set *)
  Theorem C05_matrix_exact : exists m, build_bit_matrix s = Some m /\ m = spec_matrix l rcs.
  Proof. exact (run_matrix l sd rcs s Hv Hrun). Qed.

  (* num_coupons = number of distinct pairs = popcount of the matrix; validate() holds *)
  Theorem C05_count_distinct : ncoup s = N.of_nat (length (distinct rcs)).
  Proof. exact (run_count l sd rcs s Hv Hrun). Qed.

  Theorem C05_count_popcount : ncoup s = sum_popcount (spec_matrix l rcs).
  Proof. exact (run_popcount l sd rcs s Hv Hrun). Qed.

  Theorem C05_validate : validate s = Some true.
  Proof. exact (run_validate l sd rcs s Hv Hrun). Qed.

  (* window_offset is always determine_correct_offset(lg_k, num_coupons) *)
  Theorem C05_offset_correct : woff s = determine_correct_offset l (ncoup s) /\ woff s <= 56.
  Proof. exact (run_offset l sd rcs s Hv Hrun). Qed.

  (* every column below first_interesting_column is full: the speed filter discards no novel coupon *)
  Theorem C05_fic_sound : forall r c, r < 2 ^ l -> c < fic s -> mem (rcp r c) rcs = true.
  Proof. exact (run_fic_sound l sd rcs s Hv Hrun). Qed.

  (* the window exists exactly from 3K/32 coupons on (flavor >= HYBRID) and has K bytes *)
  Theorem C05_flavor_window : lgk s = l /\ (window s = [] <-> 32 * ncoup s < 3 * 2 ^ l) /\
                              (window s <> [] -> length (window s) = N.to_nat (2 ^ l)).
  Proof. exact (run_flavor l sd rcs s Hv Hrun). Qed.

  (* representation: table without duplicates, and each matrix bit is the window bit inside the window and
     the default pattern (ones before the window, zeros after) flipped by table membership outside *)
  Theorem C05_representation : NoDup (t_items (table s)) /\ t_num (table s) = N.of_nat (length (t_items (table s))) /\
    forall r c, r < 2 ^ l -> c < 64 -> mem (rcp r c) rcs = bitF s r c.
  Proof. exact (run_table_set l sd rcs s Hv Hrun). Qed.
End AnyRun.

(* one update from ANY state satisfying the invariant (e.g. a deserialized or merged sketch), any flavor *)
Theorem C05_update_refines : forall l s hist rc s', SInv l s hist -> rc < 2 ^ (6 + l) -> rc <> EMPTY ->
  row_col_update s rc = Some s' -> SInv l s' (rc :: hist).
Proof. exact step_rcu. Qed.

(* a state rebuilt from a bit matrix (move_window, and get_result_from_bit_matrix of the union) represents it *)
Theorem C05_rebuilt_from_matrix : forall l hist m off t0 win t' ored sd mg nc,
  length m = N.to_nat (2 ^ l) ->
  (forall r c, r < 2 ^ l -> c < 64 -> bit m r c = has hist r c) ->
  (forall r c, 64 <= c -> bit m r c = false) ->
  valid l hist -> off <= 56 -> TInv t0 -> t_items t0 = [] ->
  rows_loop m 0 off t0 0 = Some (win, t', ored) ->
  Core l (mkS l sd mg nc t' win off (if off <? ctz64 ored then off else ctz64 ored)) hist.
Proof. exact rebuilt_core. Qed.

(* --- the union: every sequence of inputs (EMPTY / SPARSE / HYBRID / PINNED / SLIDING, any lg_k <= 26, any order);
   an input is any sketch satisfying the invariant for some coupon history (sketches built by updates:
   input_ok_of_run; results of other unions: C05_union_spec itself) --- *)
Theorem C05_union_spec : forall lgu sd ins u r,
  lgu <= 26 -> Forall input_ok ins ->
  union_run (un_new lgu sd) (map fst ins) = Some u -> get_result u = Some r -> woff r <= 56 ->
  let L := union_lg lgu (descr ins) in              (* min over the union and the NON-EMPTY inputs *)
  lgk r = L /\ SInv L r (union_log lgu (descr ins)).
Proof. exact union_spec. Qed.

(* matrix form: result matrix = OR over the inputs of their matrices with rows folded modulo 2^L *)
Theorem C05_union_matrix : forall lgu sd ins u r,
  lgu <= 26 -> Forall input_ok ins ->
  union_run (un_new lgu sd) (map fst ins) = Some u -> get_result u = Some r -> woff r <= 56 ->
  let L := union_lg lgu (descr ins) in
  build_bit_matrix r = Some (spec_matrix L (union_log lgu (descr ins))) /\
  ncoup r = sum_popcount (spec_matrix L (union_log lgu (descr ins))) /\
  forall row c, row < 2 ^ L -> c < 64 ->
    (bit (spec_matrix L (union_log lgu (descr ins))) row c = true <->
     exists p row', In p ins /\ row' < 2 ^ lgk (fst p) /\ row' mod 2 ^ L = row /\
                    bit (spec_matrix (lgk (fst p)) (snd p)) row' c = true).
Proof. exact union_matrix. Qed.

Theorem C05_union_perm : forall lgu sd ins ins' u u' r r',
  lgu <= 26 -> Forall input_ok ins -> Permutation ins ins' ->
  union_run (un_new lgu sd) (map fst ins) = Some u -> get_result u = Some r -> woff r <= 56 ->
  union_run (un_new lgu sd) (map fst ins') = Some u' -> get_result u' = Some r' -> woff r' <= 56 ->
  lgk r = lgk r' /\ build_bit_matrix r = build_bit_matrix r' /\ ncoup r = ncoup r' /\ woff r = woff r'.
Proof. exact union_perm. Qed.

Theorem C05_union_inputs_from_runs : forall l sd rcs s,
  valid_rcs l rcs -> l <= 26 -> sk_run l sd rcs = Some s -> input_ok (s, rev rcs).
Proof. exact input_ok_of_run. Qed.

(* --- compression (second stage): the low-level codec of cpc_compressor_impl.hpp, on the TRANSLATED tables --- *)
Theorem C05_bytes_codec_rt : forall ti bytes, (ti < 22)%nat ->
  Forall (fun b => b < 256) bytes -> N.of_nat (length bytes) < 2 ^ 32 ->
  uncompress_bytes (nth ti byte_decoding_tables []) (N.of_nat (length bytes))
    (compress_bytes (nth ti encoding_tables_for_high_entropy_byte []) bytes) = Some bytes.
Proof. exact bytes_codec_rt. Qed.

Theorem C05_pairs_codec_rt : forall nbb pairs words, nbb <= 30 ->
  StronglySorted N.lt pairs -> Forall (fun p => p < 2 ^ 32) pairs ->
  compress_pairs pairs nbb = Some words -> N.of_nat (length words) < 2 ^ 32 ->
  uncompress_pairs (N.of_nat (length pairs)) nbb words = Some pairs.
Proof. exact pairs_codec_rt. Qed.

Theorem C05_pairs_codec_total : forall nbb pairs, nbb <= 32 ->
  StronglySorted N.lt pairs -> Forall (fun p => p < 2 ^ 32) pairs ->
  exists words, compress_pairs pairs nbb = Some words.
Proof. exact pairs_codec_total. Qed.

(* the output never exceeds the pre-sized buffer safe_length_for_compressed_pair_buf (padding arithmetic included) *)
Theorem C05_pairs_codec_len : forall nbb k pairs words, nbb <= 32 ->
  StronglySorted N.lt pairs -> Forall (fun p => p < 2 ^ 32) pairs ->
  Forall (fun p => N.shiftr p 6 <= k) pairs ->
  N.of_nat (length pairs) * (13 + nbb) + N.shiftr k nbb + 10 < 2 ^ 32 ->
  compress_pairs pairs nbb = Some words ->
  N.of_nat (length words) <= safe_length_for_compressed_pair_buf k (N.of_nat (length pairs)) nbb.
Proof. exact pairs_codec_len. Qed.

Theorem C05_sliding_window_rt : forall lg_k c win, 4 <= lg_k < 32 ->
  N.of_nat (length win) = 2 ^ lg_k -> Forall (fun b => b < 256) win ->
  uncompress_sliding_window (compress_sliding_window win lg_k c) lg_k c = Some win.
Proof. exact sliding_window_rt. Qed.

Theorem C05_surprising_values_rt : forall lg_k pairs words, lg_k <= 30 ->
  StronglySorted N.lt pairs -> Forall (fun p => p < 2 ^ 32) pairs ->
  N.of_nat (length pairs) <= 2 ^ 31 ->
  compress_surprising_values pairs lg_k = Some words ->
  uncompress_surprising_values words (N.of_nat (length pairs)) lg_k = Some pairs.
Proof. exact surprising_values_rt. Qed.

(* --- end to end per flavor: cpc_compressor::uncompress(compress(s)) gives back the window and the table (as a set), for
   EMPTY / SPARSE / HYBRID (pairs merged from window and table, split back) / PINNED (columns shifted by 8) / SLIDING
   (columns rotated by the offset and permuted by the phase); [table_fits] only constrains SLIDING sketches with more than
   48K surprising values (the rebuilt table would need lg_size > num_valid_bits; unreachable through hashed inputs) --- *)
Theorem C05_flavor_codec_rt : forall l s hist c,
  SInv l s hist -> 4 <= l <= 26 -> table_fits l s ->
  compress_sketch s = Some c ->
  exists t', uncompress_sketch c l (ncoup s) = Some (t', window s) /\
             TInv t' /\ t_nvb t' = 6 + l /\
             (forall y, In y (t_items t') <-> In y (t_items (table s))).
Proof. exact flavor_codec_rt. Qed.

(* the sketch after deserialize(serialize s) has the same scalar fields, window and offset, the same table set, and
   represents the same coupon history (hence the same bit matrix, count, and it can be updated / merged further) *)
Theorem C05_codec_roundtrip_state : forall l s hist s',
  SInv l s hist -> 4 <= l <= 26 ->
  (l = 26 -> determine_flavor l (ncoup s) = FL_SLIDING -> t_num (table s) <= 2 ^ 31) ->
  codec_roundtrip s = Some s' ->
  lgk s' = lgk s /\ seed s' = seed s /\ merged s' = merged s /\ ncoup s' = ncoup s /\ window s' = window s /\
  woff s' = woff s /\ fic s' = fic s /\ (forall y, In y (t_items (table s')) <-> In y (t_items (table s))) /\
  SInv l s' hist.
Proof. exact codec_roundtrip_state. Qed.

Theorem C05_codec_roundtrip_total : forall l s hist, SInv l s hist -> 4 <= l <= 26 ->
  t_num (table s) <= 2 ^ 26 -> table_fits l s ->
  exists s', codec_roundtrip s = Some s'.
Proof. exact codec_roundtrip_total. Qed.

(* with 64-bit products (fixes/05_cpc_pseudo_phase_overflow.patch) a SLIDING sketch always gets a steady-state
   phase, so serialize() cannot throw "unexpected pseudo phase"; the old 32-bit code is refuted in Regression_cpc.v *)
Theorem C05_sliding_phase_lt16 : forall lg_k c, 4 <= lg_k -> 27 * 2 ^ lg_k <= 8 * c ->
  determine_pseudo_phase lg_k c < 16.
Proof. exact sliding_phase_lt16. Qed.

(* the OLD code (uint32 products, before fixes/05_cpc_pseudo_phase_overflow.patch) gives a SLIDING sketch a mid-range
   pseudo phase >= 16, on which compress_sliding_flavor throws: witness lg_k = 20, C = 4296581 *)
Theorem C05_old_pseudo_phase_refuted : exists lg_k c,
  4 <= lg_k <= 26 /\ c < 2 ^ 32 /\ 27 * 2 ^ lg_k <= 8 * c /\ 16 <= determine_pseudo_phase_old lg_k c.
Proof. exact pseudo_phase_old_refuted. Qed.

(* non-vacuity: lg_k = 4, all 16 rows x columns 0..3 (64 coupons > 27K/8 = 54): the run goes through SPARSE,
   promotion, HYBRID, PINNED and one window move, and ends SLIDING with offset 1 *)
Definition ex_rcs : list N := flat_map (fun c => map (fun r => rcp r c) [0;1;2;3;4;5;6;7;8;9;10;11;12;13;14;15]) [0;1;2;3].
Example C05_nonvacuous :
  exists s, sk_run 4 9001 ex_rcs = Some s /\ ncoup s = 64 /\ woff s = 1 /\ fic s = 1 /\
            determine_flavor 4 (ncoup s) = FL_SLIDING /\ validate s = Some true.
Proof. vm_compute. eexists. repeat split; reflexivity. Qed.

Example C05_table_nonvacuous :
  exists t bs, tab_run (t_new 2 10) [TIns 5; TIns 9; TIns 5; TDel 9; TDel 7; TIns 1; TIns 2; TIns 3; TIns 4] = Some (t, bs) /\
               bs = [true; true; false; true; false; true; true; true; true] /\ t_lg t = 3.
Proof. vm_compute. eexists. eexists. repeat split; reflexivity. Qed.

(* non-vacuity of the union theorems: a SLIDING lg_k=5 sketch, a SPARSE lg_k=6 sketch and an empty lg_k=4 sketch into a
   union of lg_k 7: result lg_k = 5 (the empty input does not count), 97 coupons *)
Definition ex_a : list N := flat_map (fun c => map (fun r => rcp r c) [0;1;2;3;4;5;6;7;8;9;10;11;12;13;14;15;16;17;18;19;20;21;22;23;24;25;26;27;28;29;30;31]) [0;1;2].
Definition ex_b : list N := [rcp 40 3; rcp 8 0; rcp 63 9].
Example C05_union_nonvacuous :
  (do sa <- sk_run 5 9001 ex_a; do sb <- sk_run 6 9001 ex_b; do se <- sk_run 4 9001 [];
   do u <- union_run (un_new 7 9001) [sb; se; sa]; do r <- get_result u;
   Some (lgk r, ncoup r, woff r <=? 56, union_lg 7 [(6, rev ex_b); (4, []); (5, rev ex_a)])) = Some (5, 98, true, 5).
Proof. vm_compute. reflexivity. Qed.

Example C05_codec_nonvacuous :
  (do s <- sk_run 4 9001 ex_rcs; do s' <- codec_roundtrip s; do m <- build_bit_matrix s; do m' <- build_bit_matrix s';
   Some (determine_flavor 4 (ncoup s), ncoup s', woff s', length (t_items (table s')) =? length (t_items (table s)))%nat,
   (do s <- sk_run 4 9001 ex_rcs; do s' <- codec_roundtrip s; do m <- build_bit_matrix s; do m' <- build_bit_matrix s';
    Some (forallb (fun p => fst p =? snd p) (combine m m')))) = (Some (FL_SLIDING, 64, 1, true), Some true).
Proof. vm_compute. reflexivity. Qed.

Print Assumptions C05_table_refines_set.
Print Assumptions C05_matrix_exact.
Print Assumptions C05_count_distinct.
Print Assumptions C05_count_popcount.
Print Assumptions C05_validate.
Print Assumptions C05_offset_correct.
Print Assumptions C05_fic_sound.
Print Assumptions C05_flavor_window.
Print Assumptions C05_representation.
Print Assumptions C05_update_refines.
Print Assumptions C05_rebuilt_from_matrix.
Print Assumptions C05_union_spec.
Print Assumptions C05_union_matrix.
Print Assumptions C05_union_perm.
Print Assumptions C05_union_inputs_from_runs.
Print Assumptions C05_bytes_codec_rt.
Print Assumptions C05_pairs_codec_rt.
Print Assumptions C05_pairs_codec_total.
Print Assumptions C05_pairs_codec_len.
Print Assumptions C05_sliding_window_rt.
Print Assumptions C05_surprising_values_rt.
Print Assumptions C05_flavor_codec_rt.
Print Assumptions C05_codec_roundtrip_state.
Print Assumptions C05_codec_roundtrip_total.
Print Assumptions C05_sliding_phase_lt16.
Print Assumptions C05_old_pseudo_phase_refuted.
