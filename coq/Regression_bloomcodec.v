(* Regression_bloomcodec.v — the Bloom filter readers BEFORE fixes/11_bloom_header_validation.patch: a non-empty image went to
   the private constructor without any check of num_hashes / num_longs.  [dec_old] is [dec] without the validation line. *)
From Coq Require Import ZArith NArith List Bool Lia.
From DS Require Import Word RunnerLib BloomDefs BloomProofs BloomCodecDefs BloomCodecProofs.
Import ListNotations.
Local Open Scope N_scope.

Definition dec_old (r : reader) (d : list N) : option (cimg * list N) :=
  let len := length d in
  let stream := is_stream r in
  if Nat.ltb len (if stream then 24 else 8) then None else
  let pl := nth 0 d 0 in
  if (pl <? (if stream then 1 else 3)) || (4 <? pl) then None else
  if negb (nth 1 d 0 =? 1) then None else
  if negb (nth 2 d 0 =? 21) then None else
  let empty := negb (N.land (nth 3 d 0) 4 =? 0) in
  if negb stream && Nat.ltb len (N.to_nat pl * 8) then None else
  let nh := rd d 4 2 in
  let seed := rd d 8 8 in
  let nl := rd d 16 4 in
  if empty then
    match r with
    | RWritable => None
    | _ => if (nh =? 0) || (nl =? 0) || (MAX_BITS <? N.shiftl nl 6) then None
           else Some (mkC nh seed nl None, skipn 24 d)
    end
  else
    (* no validation; num_bytes = num_longs << 3 computed on uint32_t *)
    let nb := w32 (N.shiftl nl 3) in
    if N.of_nat len <? 32 + nb then None else
    Some (mkC nh seed nl (Some (rd d 24 8, rd d 32 (N.to_nat nb))), skipn (32 + N.to_nat nb) d).

Definition r_img : list N := enc (mkC 3 123 2 (Some (2, N.setbit (N.setbit 0 5) 77))).

(* the old readers accepted contents that are not well-formed: capacity 0 (query divides by zero), 0 hashes, and 2^29 words
   whose byte length wraps to 0 in 32 bits (capacity 2^35 bits over a 16-byte array: get_bit reads far outside) *)
Theorem header_validation_refuted :
  exists d1 d2 d3 s1 s2 s3 r1 r2 r3,
    dec_old RWrap d1 = Some (s1, r1) /\ c_nl s1 = 0 /\ ~ wf s1 /\ dec RWrap d1 = None /\
    dec_old RBytes d2 = Some (s2, r2) /\ c_nh s2 = 0 /\ ~ wf s2 /\ dec RBytes d2 = None /\
    dec_old RWritable d3 = Some (s3, r3) /\ c_nl s3 = 2 ^ 29 /\ ~ (32 + 8 * c_nl s3 <= N.of_nat (length d3)) /\ dec RWritable d3 = None.
Proof.
  exists (firstn 16 r_img ++ [0] ++ skipn 17 r_img), (firstn 4 r_img ++ [0; 0] ++ skipn 6 r_img),
         (firstn 16 r_img ++ [0; 0; 0; 32] ++ skipn 20 r_img).
  do 6 eexists.
  split; [vm_compute; reflexivity|]. split; [reflexivity|]. split; [intros (_ & _ & _ & H & _); now apply H|]. split; [vm_compute; reflexivity|].
  split; [vm_compute; reflexivity|]. split; [reflexivity|]. split; [intros (H & _); now apply H|]. split; [vm_compute; reflexivity|].
  split; [vm_compute; reflexivity|]. split; [reflexivity|]. split; [vm_compute; intros H; now apply H|]. vm_compute. reflexivity.
Qed.

(* on well-formed images (and their prefixes) the old and the repaired readers agree: the patch only rejects more *)
Theorem dec_old_agrees_when_accepted : forall r d s rest, dec r d = Some (s, rest) -> dec_old r d = Some (s, rest).
Proof.
  intros r d s rest Hd. destruct (dec_accepts r d s rest Hd) as ((_ & _ & _ & _ & _ & Hb) & _).
  unfold dec in Hd. unfold dec_old.
  destruct (Nat.ltb (length d) (if is_stream r then 24 else 8)); [discriminate|].
  destruct ((nth 0 d 0 <? (if is_stream r then 1 else 3)) || (4 <? nth 0 d 0)); [discriminate|].
  destruct (negb (nth 1 d 0 =? 1)); [discriminate|]. destruct (negb (nth 2 d 0 =? 21)); [discriminate|].
  destruct (negb (is_stream r) && Nat.ltb (length d) (N.to_nat (nth 0 d 0) * 8)); [discriminate|].
  destruct (negb (N.land (nth 3 d 0) 4 =? 0)); [exact Hd|].
  destruct ((rd d 4 2 =? 0) || (rd d 16 4 =? 0) || (MAX_LONGS <? rd d 16 4)) eqn:Ec; [discriminate|].
  apply orb_false_elim in Ec. destruct Ec as [_ E3]. apply N.ltb_ge in E3.
  assert (Ew : w32 (N.shiftl (rd d 16 4) 3) = 8 * rd d 16 4).
  { rewrite w32_mod, N.shiftl_mul_pow2. change (2 ^ 3) with 8. rewrite N.mul_comm. apply N.mod_small.
    assert (MAX_LONGS * 8 < two32) by reflexivity. lia. }
  rewrite Ew. unfold body_bytes in Hd. exact Hd.
Qed.

Print Assumptions header_validation_refuted.
Print Assumptions dec_old_agrees_when_accepted.
