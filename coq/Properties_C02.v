(* Properties_C02.v — Theta set operations return the exact set expression over the hash samples.
   Statements only; proofs live in ThetaSetWf.v, ThetaSetUnion.v, ThetaSetInter.v, ThetaSetANotB.v,
   ThetaSetJaccard.v, ThetaSetForms.v (and C01's OpenAddr.v, KSmallest.v, ThetaProofs.v, ThetaRefine.v).

   Setting: the executable model of ThetaSetDefs.v (the code of theta_union_base, theta_intersection_base — both with the
   repairs fixes/02_union_empty_theta.patch and fixes/02_intersection_empty_order.patch —, theta_set_difference_base, jaccard_similarity_base and the ratio bounds,
   over the Theta hash table of C01) — the same definitions that are extracted and run against the C++ on every check.
   Everything is polymorphic in the payload type S and the combine policy comb (S = unit for Theta sketches,
   summaries for Tuple sketches; no property of comb is assumed), and std::nth_element is ANY function meeting its
   postcondition [sel_ok].  Inputs are arbitrary well-formed sketches [wf]: distinct non-zero keys below theta,
   flagged ordered => strictly increasing, empty => no entries and theta = MAX; [seed_ok sh] = the seed check passes
   (empty inputs are never checked).  Hash values are arbitrary.  The observable part of a result is
   (theta, is_empty, sorted keys); spec_union / spec_inter / spec_a_not_b are the set-algebra definitions. *)
From Coq Require Import ZArith NArith List Bool Lia Permutation Sorted.
From DS Require Import Word Murmur3 RunnerLib OpenAddr KSmallest Canon ThetaDefs ThetaProofs ThetaRefine ThetaFacts
  ThetaSetDefs ThetaSetWf ThetaSetUnion ThetaSetInter ThetaSetANotB ThetaSetJaccard ThetaSetForms ThetaSetErase ThetaSetPayload.
Import ListNotations.
Local Open Scope N_scope.

Section AnyPayloadAnyNthElement.
  Variable S : Type.
  Variable sel : nat -> list (N * S) -> list (N * S).
  Hypothesis sel_ok : forall k l, (k < length l)%nat -> nth_post fst k l (sel k l).
  Variable comb : S -> S -> S.
  Notation input := (input S).
  Notation obs res := (in_theta res, in_empty res, sortN (in_keys res)).

  (* ------------------------------------------------------------------------------------------ *)
  (** Union *)
  Section Union.
    Variables lgk r th0 sh : N.          (* nominal size 2^lgk, resize factor, starting theta (builder p), seed hash *)
    Hypothesis lgk_ge : 5 <= lgk.
    Notation ufold := (union_fold S sel comb (union_new S lgk r th0 sh)).

    (* for every sequence of inputs (stateful reuse: every prefix is such a sequence) and both get_result modes:
       theta = min(theta0, thetas of the non-empty inputs), lowered to the (k+1)-th smallest key of the union below it
       when more than k survive; keys = exactly the keys of the union below the result theta (the k smallest when
       trimmed); empty iff all inputs were, and then theta = MAX and no keys; keys distinct, non-zero, below theta;
       sorted when asked *)
    Theorem C02_union_spec : forall ins, Forall wf ins -> Forall (seed_ok sh) ins ->
      exists u, ufold ins = Some u /\
        forall ordered, let res := union_result S sel u ordered in
          obs res = spec_union S (N.to_nat (2 ^ lgk)) th0 ins /\
          NoDup (in_keys res) /\ (forall h, In h (in_keys res) -> 0 < h < in_theta res) /\
          in_seed_hash res = sh /\
          (ordered = true -> in_ordered res = true /\ StronglySorted (klt fst) (in_entries res)).
    Proof. exact (union_spec S sel sel_ok comb lgk r th0 sh lgk_ge). Qed.

    (* any permutation of the inputs gives the same result *)
    Theorem C02_union_perm : forall a b, Permutation a b -> Forall wf a -> Forall (seed_ok sh) a ->
      exists ua ub, ufold a = Some ua /\ ufold b = Some ub /\
        forall o o', obs (union_result S sel ua o) = obs (union_result S sel ub o').
    Proof. exact (union_perm S sel sel_ok comb lgk r th0 sh lgk_ge). Qed.

    (* any presentation (ordered flag, entry order, physical form) of the same samples gives the same result *)
    Theorem C02_union_form_indep : forall a b, Forall2 same_sample a b ->
      Forall wf a -> Forall (seed_ok sh) a -> Forall wf b -> Forall (seed_ok sh) b ->
      exists ua ub, ufold a = Some ua /\ ufold b = Some ub /\
        forall o o', obs (union_result S sel ua o) = obs (union_result S sel ub o').
    Proof. exact (union_form_indep S sel sel_ok comb lgk r th0 sh lgk_ge). Qed.

    (* reset() after any history restores the initial state *)
    Theorem C02_union_reset : forall ins, Forall wf ins -> Forall (seed_ok sh) ins ->
      exists u, ufold ins = Some u /\ union_reset S u = union_new S lgk r th0 sh.
    Proof.
      intros ins Hw Hs. destruct (union_reach S sel sel_ok comb lgk r th0 sh lgk_ge ins Hw Hs) as (u & seen & Hf & HU).
      exists u. split; auto. exact (union_reset_new S lgk r th0 sh u ins seen HU).
    Qed.
  End Union.

  (* a non-empty sketch with another seed hash is refused *)
  Theorem C02_union_seed_refused : forall (u : union_st S) i, in_empty i = false -> in_seed_hash i <> u_sh u ->
    union_update S sel comb u i = None.
  Proof. exact (union_seed_refused S sel comb). Qed.

  (* ------------------------------------------------------------------------------------------ *)
  (** Intersection *)

  (* the table sized by lg_size_from_count(n, 15/16) holds n entries below its rebuild threshold with a free slot ... *)
  Theorem C02_capacity_sized : forall n, 0 < n -> let lg := lg_size_from_count n in
    capacity lg (lg - 1) = 15 * 2 ^ lg / 16 /\ n <= capacity lg (lg - 1) /\ capacity lg (lg - 1) < 2 ^ lg.
  Proof. exact capacity_sized. Qed.

  (* ... so filling it (first copy, re-insertion of the matches) never reaches resize/rebuild: nothing is dropped *)
  Theorem C02_lg_size_never_rebuilds : forall (l : list (N * S)) n th e,
    NoDup (map fst l) -> 0 < n -> N.of_nat (length l) = n ->
    exists t', copy_loop S sel (sized_table S n th e) l = Some t' /\
      put_loop S sel (sized_table S n th e) l = Some t' /\
      SInv t' /\ Permutation (entries S t') l /\ num t' = n /\ lg_cur t' = lg_size_from_count n /\
      theta t' = th /\ is_empty t' = e.
  Proof. exact (lg_size_never_rebuilds S sel). Qed.

  (* for every non-empty sequence of inputs: has_result; theta = MAX if some input is empty, else the minimum theta;
     keys = the keys common to all inputs (automatically below theta); empty iff some input is empty or
     (no keys and theta = MAX) *)
  Theorem C02_intersection_spec : forall sh ins, ins <> [] ->
    Forall wf ins -> Forall (theta_ok S) ins -> Forall (seed_ok sh) ins ->
    exists x, inter_fold S sel comb (inter_new S sh) ins = Some x /\ inter_has_result S x = true /\
    forall ordered, exists res, inter_result S x ordered = Some res /\
      obs res = spec_inter S ins /\ NoDup (in_keys res) /\ in_seed_hash res = sh /\
      (ordered = true -> in_ordered res = true /\ StronglySorted (klt fst) (in_entries res)).
  Proof. exact (inter_spec S sel comb). Qed.

  Theorem C02_intersection_perm : forall sh ins ins', ins <> [] -> Permutation ins ins' ->
    Forall wf ins -> Forall (theta_ok S) ins -> Forall (seed_ok sh) ins ->
    exists x x', inter_fold S sel comb (inter_new S sh) ins = Some x /\ inter_fold S sel comb (inter_new S sh) ins' = Some x' /\
      forall o o', exists r r', inter_result S x o = Some r /\ inter_result S x' o' = Some r' /\ obs r = obs r'.
  Proof. exact (inter_perm S sel comb). Qed.

  (* before the first update: no result, get_result refused *)
  Theorem C02_intersection_no_result : forall sh ordered,
    inter_result S (inter_new S sh) ordered = None /\ inter_has_result S (inter_new S sh) = false.
  Proof. exact (inter_no_result S). Qed.

  Theorem C02_intersection_seed_refused : forall (x : inter_st S) i, is_empty (i_table x) = false -> in_empty i = false ->
    in_seed_hash i <> i_sh x -> inter_update S sel comb x i = None.
  Proof. exact (inter_seed_refused S sel comb). Qed.

  (* ------------------------------------------------------------------------------------------ *)
  (** A-not-B *)

  (* past the early returns: theta = min(thetaA, thetaB); keys = A's keys below theta that are not in B, with A's
     payloads; ordered flag = A's || requested; empty iff no keys and theta = MAX; well formed *)
  Theorem C02_a_not_b_spec : forall sh (a b : input) ordered, wf a -> wf b -> in_seed_hash a = sh -> in_seed_hash b = sh ->
    in_empty a = false -> (in_num a = 0 \/ in_empty b = false) ->
    exists res, a_not_b S sh a b ordered = Some res /\
      obs res = spec_a_not_b S a b /\
      (forall e, In e (in_entries res) -> In e (in_entries a)) /\
      in_ordered res = (in_ordered a || ordered || (length (in_entries res) <=? 1)%nat) /\
      in_seed_hash res = sh /\ wf res.
  Proof. exact (a_not_b_spec S). Qed.

  (* the two early returns (A empty; A has entries and B empty) give a compact copy of A: same theta, emptiness, entries *)
  Theorem C02_a_not_b_early : forall sh (a b : input) ordered, in_empty a = true \/ (0 < in_num a /\ in_empty b = true) ->
    a_not_b S sh a b ordered = Some (compact_copy S a ordered).
  Proof. exact (a_not_b_early S). Qed.

  Theorem C02_compact_copy_same : forall (a : input) ordered, wf a -> let c := compact_copy S a ordered in
    in_theta c = in_theta a /\ in_empty c = in_empty a /\ Permutation (in_entries c) (in_entries a) /\
    (ordered = true -> in_ordered c = true) /\ wf c.
  Proof. exact (compact_copy_same S). Qed.

  (* the sort-based path (std::set_difference, both inputs ordered) and the hash-based path compute the same list *)
  Theorem C02_a_not_b_paths_agree : forall th (a b : input), wf a -> wf b -> in_ordered a = true -> in_ordered b = true ->
    0 < in_num b -> diff_hash S th a b = Some (diff_sort S th a b).
  Proof. exact (a_not_b_paths_agree S). Qed.

  Theorem C02_set_difference_spec : forall th a b, StronglySorted (klt fst) a -> StronglySorted (klt fst) b ->
    set_diff S th a b = filter (keep th (map fst b)) a.
  Proof. intros th a b. exact (set_diff_spec S th a b). Qed.

  Theorem C02_a_not_b_seed_refused : forall sh (a b : input) ordered, in_empty a = false ->
    (in_num a = 0 \/ in_empty b = false) -> (in_seed_hash a <> sh \/ in_seed_hash b <> sh) ->
    a_not_b S sh a b ordered = None.
  Proof. exact (a_not_b_seed_refused S). Qed.

  (* ------------------------------------------------------------------------------------------ *)
  (** Jaccard, exactly_equal, ratio bounds — exact mode *)

  (* all three returned values are the quotient |A n B| / |A u B|: (double)i / (double)u for the two naturals, or the
     constant 1.0 of the identical-sets shortcut, where i = u *)
  Theorem C02_jaccard_exact : forall sh (a b : input), wf a -> wf b -> exact_mode a -> exact_mode b ->
    in_seed_hash a = sh -> in_seed_hash b = sh -> in_num a + in_num b <= 2 ^ 26 ->
    exists v, jaccard S sel comb sh false a b = Some (v, v, v) /\
              jquot v (fst (spec_jaccard S a b)) (snd (spec_jaccard S a b)).
  Proof. exact (jaccard_exact S sel sel_ok comb). Qed.

  Theorem C02_exactly_equal_exact : forall sh (a b : input), wf a -> wf b -> exact_mode a -> exact_mode b ->
    in_seed_hash a = sh -> in_seed_hash b = sh -> in_num a + in_num b <= 2 ^ 26 ->
    exactly_equal S sel comb sh false a b = Some (spec_equal S a b).
  Proof. exact (exactly_equal_exact S sel sel_ok comb). Qed.

  Theorem C02_ratio_bounds_exact : forall (A B : input), wf A -> in_theta B <= in_theta A -> f_is_one (in_theta B) = true ->
    let '(cb, ca) := spec_ratio S A B in
    0 < ca -> cb <= ca -> ratio_bounds S A B = Some (JFrac cb ca, JFrac cb ca, JFrac cb ca).
  Proof. exact (ratio_bounds_exact S). Qed.

  (* ------------------------------------------------------------------------------------------ *)
  (** The inputs the API can build (C01) are well formed, and all their physical forms are the same sample *)
  Section ApiInputs.
    Variables lgn r th0 : N.
    Hypothesis lgn_ge : 5 <= lgn.

    Theorem C02_update_sketch_is_wf : forall sh ops, wf (input_of_sketch S sh (run_ops S sel lgn r th0 ops)).
    Proof. exact (wf_input_of_sketch S sel sel_ok lgn r th0 lgn_ge). Qed.

    Theorem C02_forms_same_sample : forall sh ops o1 o2,
      let i := input_of_sketch S sh (run_ops S sel lgn r th0 ops) in
      let c1 := compact_copy S i o1 in
      let c2 := compact_copy S c1 o2 in
      wf c1 /\ wf c2 /\ same_sample i c1 /\ same_sample i c2 /\
      (o1 = true -> in_ordered c1 = true) /\ (o2 = true -> in_ordered c2 = true).
    Proof. exact (forms_same_sample S sel sel_ok lgn r th0 lgn_ge). Qed.
  End ApiInputs.
End AnyPayloadAnyNthElement.

(* ============================================================================================== *)
(** Payload erasure, payloads, order flags: what property C13 (Tuple sketches) inherits from this model.
    [erase] forgets the payloads of an input (a Tuple sketch seen as a Theta sketch); the Theta operations use their own
    nth_element [selu] and the trivial policy. *)
Section PayloadIndependence.
  Variable S : Type.
  Variable sel : nat -> list (N * S) -> list (N * S).
  Hypothesis sel_ok : forall k l, (k < length l)%nat -> nth_post fst k l (sel k l).
  Variable selu : nat -> list (N * unit) -> list (N * unit).
  Hypothesis selu_ok : forall k l, (k < length l)%nat -> nth_post fst k l (selu k l).
  Variable comb : S -> S -> S.
  Notation input := (input S).
  Notation obs res := (in_theta res, in_empty res, sortN (in_keys res)).

  (* union / intersection / A-not-B at payload type S with ANY policy: theta, emptiness, keys, order flag and seed hash of the
     result are those of the Theta operation on the erased inputs *)
  Theorem C02_union_erase : forall lgk r th0 sh ins, 5 <= lgk -> Forall wf ins -> Forall (seed_ok sh) ins ->
    exists u u1, union_fold S sel comb (union_new S lgk r th0 sh) ins = Some u /\
      union_fold unit selu comb_unit (union_new unit lgk r th0 sh) (map erase ins) = Some u1 /\
      forall o, let res := union_result S sel u o in let res1 := union_result unit selu u1 o in
        obs res = obs res1 /\ in_ordered res = in_ordered res1 /\ in_seed_hash res = in_seed_hash res1.
  Proof. exact (union_erase S sel sel_ok selu selu_ok comb). Qed.

  Theorem C02_intersection_erase : forall sh ins, ins <> [] -> Forall wf ins -> Forall (theta_ok S) ins -> Forall (seed_ok sh) ins ->
    exists x x1, inter_fold S sel comb (inter_new S sh) ins = Some x /\
      inter_fold unit selu comb_unit (inter_new unit sh) (map erase ins) = Some x1 /\
      forall o, exists res res1, inter_result S x o = Some res /\ inter_result unit x1 o = Some res1 /\
        obs res = obs res1 /\ in_ordered res = in_ordered res1 /\ in_seed_hash res = in_seed_hash res1.
  Proof. exact (inter_erase S sel selu comb). Qed.

  Theorem C02_a_not_b_erase : forall sh (a b : input) o, wf a -> wf b -> in_seed_hash a = sh -> in_seed_hash b = sh ->
    in_empty a = false -> (in_num a = 0 \/ in_empty b = false) ->
    exists res res1, a_not_b S sh a b o = Some res /\ a_not_b unit sh (erase a) (erase b) o = Some res1 /\
      obs res = obs res1 /\ in_ordered res = in_ordered res1 /\ in_seed_hash res = in_seed_hash res1.
  Proof. exact (a_not_b_erase S). Qed.

  (* the order flag of every result: requested || at most one entry (an empty union result is flagged ordered); A-not-B adds
     A's own flag (C02_a_not_b_spec), and its early returns report A's flag || requested *)
  Theorem C02_result_order_flags : forall (u : union_st S) (x : inter_st S) (a : input) o,
    (let res := union_result S sel u o in
     in_ordered res = (o || (length (in_entries res) <=? 1)%nat) \/ (in_empty res = true /\ in_ordered res = true /\ in_entries res = [])) /\
    (forall res, inter_result S x o = Some res -> in_ordered res = (o || (length (in_entries res) <=? 1)%nat)) /\
    in_ordered (compact_copy S a o) = (in_ordered a || o).
  Proof.
    intros u x a o. split; [apply union_result_ordered|]. split; [intros res; apply inter_result_ordered|reflexivity].
  Qed.

  (* intersection: the summary of every surviving key is the policy folded over the inputs' summaries of that key in
     presentation order, the first input's summary being the seed — no assumption on the policy *)
  Theorem C02_intersection_summary : forall sh ins, Forall wf ins -> Forall (theta_ok S) ins -> Forall (seed_ok sh) ins ->
    exists x, inter_fold S sel comb (inter_new S sh) ins = Some x /\
      forall ordered res, inter_result S x ordered = Some res ->
        forall h v, In (h, v) (in_entries res) -> inter_summary S comb ins h = Some v.
  Proof. exact (inter_summary_spec S sel comb). Qed.

  (* A-not-B: the result holds exactly A's entries (key AND payload, verbatim) whose key is below the result theta and not in B *)
  Theorem C02_a_not_b_payloads : forall sh (a b : input) ordered, wf a -> wf b -> in_seed_hash a = sh -> in_seed_hash b = sh ->
    in_empty a = false -> (in_num a = 0 \/ in_empty b = false) ->
    exists res, a_not_b S sh a b ordered = Some res /\
      forall e, In e (in_entries res) <-> In e (in_entries a) /\ fst e < in_theta res /\ ~ In (fst e) (in_keys b).
  Proof. exact (a_not_b_payloads S comb). Qed.

  (* rvalue = lvalue: the operations are functions of the operand VALUE only *)
  Theorem C02_operand_value_only : forall (u : union_st S) (x : inter_st S) sh (a a' b : input) o, a = a' ->
    union_update S sel comb u a = union_update S sel comb u a' /\
    inter_update S sel comb x a = inter_update S sel comb x a' /\
    a_not_b S sh a b o = a_not_b S sh a' b o.
  Proof. exact (operand_value_only S sel comb). Qed.
End PayloadIndependence.

(* the specifications themselves do not depend on the order / presentation of the inputs *)
Theorem C02_spec_union_perm : forall S k th0 (a b : list (input S)), Permutation a b ->
  spec_union S k th0 a = spec_union S k th0 b.
Proof. exact spec_union_perm. Qed.

Theorem C02_spec_union_form_indep : forall S k th0 (a b : list (input S)), Forall2 same_sample a b ->
  spec_union S k th0 a = spec_union S k th0 b.
Proof. exact spec_union_form_indep. Qed.

Theorem C02_spec_inter_perm : forall S (ins ins' : list (input S)), Permutation ins ins' -> Forall wf ins ->
  spec_inter S ins = spec_inter S ins'.
Proof. exact spec_inter_perm. Qed.

(* ---- the line protocol drives exactly these functions; get_result / has_result do not change the object ---- *)
Theorem C02_protocol_union_update : forall st r k th0 u log a form i e,
  reg_get st r = Some (SUn k th0 u log) -> (match reg_get st a with Some g => present g form | None => None end) = Some i ->
  fst (step st [11; r; a; form]%Z e) =
  match union_update unit sel_sort comb_unit u i with
  | Some u' => reg_set st r (SUn k th0 u' (log ++ [i]))
  | None => st
  end.
Proof.
  intros st r k th0 u log a form i e Hr Hp. unfold step. rewrite Hr, Hp. unfold t_union_update.
  destruct (union_update unit sel_sort comb_unit u i); reflexivity.
Qed.

Theorem C02_protocol_get_result_pure : forall st r ord e,
  fst (step st [12; r; ord]%Z e) = st /\ fst (step st [22; r; ord]%Z e) = st /\ fst (step st [23; r]%Z e) = st.
Proof.
  intros st r ord e. unfold step. repeat split.
  - destruct (reg_get st r) as [[ | | |]|]; reflexivity.
  - destruct (reg_get st r) as [[ | | | x log]|]; try reflexivity. destruct (t_inter_result x (negb (ord =? 0)%Z)); reflexivity.
  - destruct (reg_get st r) as [[ | | |]|]; reflexivity.
Qed.

(* ---- non-vacuity: two Murmur-hashed update sketches at lg_k 7 (100 and 90 items, 30 shared), the second presented
   as an ordered compact form, united at lg_k 5: the hypotheses hold (C02_update_sketch_is_wf, C02_forms_same_sample)
   and the conclusions are informative (the union trims to 32 keys, theta is the 33rd smallest; the intersection has the
   30 shared items; A-not-B the other 70; Jaccard 30/160) ---- *)
Definition nv_items (start n : nat) : list (op unit) :=
  map (fun i => OpUpdate (hash64 9001 (N_to_le_bytes 8 (N.of_nat i))) unit_upd) (seq start n).
Definition nv_sh : N := compute_seed_hash 9001.
Definition nv_a : tinput := input_of_sketch unit nv_sh (run_ops unit sel_sort 7 1 max_theta (nv_items 1 100)).
Definition nv_b : tinput := compact_copy unit (input_of_sketch unit nv_sh (run_ops unit sel_sort 7 1 max_theta (nv_items 71 90))) true.

Lemma nv_lg : 5 <= 7. Proof. lia. Qed.

Example C02_nonvacuous_inputs : wf nv_a /\ wf nv_b /\ exact_mode nv_a /\ exact_mode nv_b /\
  in_num nv_a = 100 /\ in_num nv_b = 90 /\ in_ordered nv_a = false /\ in_ordered nv_b = true.
Proof.
  split; [exact (wf_input_of_sketch unit sel_sort (sel_sort_ok unit) 7 1 max_theta nv_lg nv_sh (nv_items 1 100))|].
  split; [exact (proj1 (forms_same_sample unit sel_sort (sel_sort_ok unit) 7 1 max_theta nv_lg nv_sh (nv_items 71 90) true false))|].
  vm_compute. repeat split; reflexivity.
Qed.

Definition obs_of (res : tinput) : N * bool * list N * N := (in_theta res, in_empty res, sortN (in_keys res), in_num res).
Definition nv_union : option (N * bool * list N * N) :=
  option_map (fun u => obs_of (union_result unit sel_sort u true))
             (union_fold unit sel_sort comb_unit (union_new unit 5 0 max_theta nv_sh) [nv_a; nv_b]).
Definition obind {A B} (o : option A) (f : A -> option B) : option B := match o with Some a => f a | None => None end.
Definition nv_inter : option (N * bool * list N * N) :=
  obind (inter_fold unit sel_sort comb_unit (inter_new unit nv_sh) [nv_a; nv_b])
        (fun x => option_map obs_of (inter_result unit x true)).
Definition nv_anotb : option (N * bool * list N * N) := option_map obs_of (a_not_b unit nv_sh nv_a nv_b true).

Example C02_nonvacuous_results :
  (* union at lg_k 5: trimmed to 32 keys, theta below MAX *)
  nv_union = Some (spec_union unit 32 max_theta [nv_a; nv_b], 32) /\
  (fst (fst (spec_union unit 32 max_theta [nv_a; nv_b])) <? max_theta) = true /\
  (* intersection: the 30 shared items; A-not-B: the other 70; Jaccard 30/160 *)
  nv_inter = Some (spec_inter unit [nv_a; nv_b], 30) /\
  nv_anotb = Some (spec_a_not_b unit nv_a nv_b, 70) /\
  jaccard unit sel_sort comb_unit nv_sh false nv_a nv_b = Some (JFrac 30 160, JFrac 30 160, JFrac 30 160) /\
  spec_jaccard unit nv_a nv_b = (30, 160) /\
  exactly_equal unit sel_sort comb_unit nv_sh false nv_a nv_b = Some false.
Proof. vm_compute. repeat split; reflexivity. Qed.

Print Assumptions C02_union_spec.
Print Assumptions C02_union_perm.
Print Assumptions C02_union_form_indep.
Print Assumptions C02_union_reset.
Print Assumptions C02_union_seed_refused.
Print Assumptions C02_capacity_sized.
Print Assumptions C02_lg_size_never_rebuilds.
Print Assumptions C02_intersection_spec.
Print Assumptions C02_intersection_perm.
Print Assumptions C02_intersection_no_result.
Print Assumptions C02_intersection_seed_refused.
Print Assumptions C02_a_not_b_spec.
Print Assumptions C02_a_not_b_early.
Print Assumptions C02_compact_copy_same.
Print Assumptions C02_a_not_b_paths_agree.
Print Assumptions C02_set_difference_spec.
Print Assumptions C02_a_not_b_seed_refused.
Print Assumptions C02_jaccard_exact.
Print Assumptions C02_exactly_equal_exact.
Print Assumptions C02_ratio_bounds_exact.
Print Assumptions C02_update_sketch_is_wf.
Print Assumptions C02_forms_same_sample.
Print Assumptions C02_union_erase.
Print Assumptions C02_intersection_erase.
Print Assumptions C02_a_not_b_erase.
Print Assumptions C02_result_order_flags.
Print Assumptions C02_intersection_summary.
Print Assumptions C02_a_not_b_payloads.
Print Assumptions C02_operand_value_only.
Print Assumptions C02_spec_union_perm.
Print Assumptions C02_spec_union_form_indep.
Print Assumptions C02_spec_inter_perm.
Print Assumptions C02_protocol_union_update.
Print Assumptions C02_protocol_get_result_pure.
