(* FiDefs.v — executable model of fi/include/frequent_items_sketch*.hpp and reverse_purge_hash_map*.hpp
   (no proofs here).
   L1: abstract sketch = association list item -> counter, offset, total; purges with ANY decrement
       (histories) and the deterministic instance whose decrement is the median of all counters.
   L2: the reverse-purge hash map as coded: linear probing with drift states, hash_delete back-shift,
       resize, purge = median of the first min(1024, active) active values in slot order,
       subtract_and_keep_positive_only in the code's two-pass order, golden-ratio stride iterator;
       the serialized image (byte layout) and its reader.
   merge() is that of the REPAIRED code (fixes/12_1_fi_merge_purged_empty.patch): it returns at once only when the operand
   has no active counter AND zero total weight (the unrepaired code tested "no active counter" only and so dropped the
   total weight and offset of a sketch whose counters were all purged; old behaviour + refutation: Regression_fi.v).
   Quirks mirrored on purpose (known findings, see Properties_C12.v for the refutation witnesses):
     - serialize() writes the 8-byte empty form whenever there is NO ACTIVE COUNTER, even if total weight and offset are
       non-zero (all counters purged), so a round trip of such a sketch resets total and offset;
     - get_frequent_items(type, threshold) uses the caller's threshold as is (no clamp to the maximum error; for
       NO_FALSE_NEGATIVES the clamp would not change the rows, see FiProofs.nfn_clamp_noop).
   Not modelled: the DRIFT_LIMIT (1024) exception and the "num_active > capacity" exception (unreachable for
   tables of at most 1024 slots / by the load factor), wrap-around of the weight type. *)
From Coq Require Import ZArith NArith List Bool.
From DS Require Import Word Murmur3 RunnerLib.
Import ListNotations.
Local Open Scope Z_scope.

(* ---------- generic insertion sort (used for the median and for canonical output order) ---------- *)
Section Sort.
  Context {A : Type}.
  Variable leb : A -> A -> bool.
  Fixpoint ins (x : A) (l : list A) : list A :=
    match l with
    | [] => [x]
    | y :: t => if leb x y then x :: l else y :: ins x t
    end.
  Fixpoint isort (l : list A) : list A :=
    match l with [] => [] | x :: t => ins x (isort t) end.
End Sort.

Definition zsort (l : list Z) : list Z := isort Z.leb l.
(* what std::nth_element(s, s + n/2, s + n) leaves at position n/2 *)
Definition median (l : list Z) : Z := nth (length l / 2) (zsort l) 0.

(* =====================================  L1  ===================================== *)
Section L1.
  Variable Item : Type.
  Variable eqb : Item -> Item -> bool.

  Definition amap := list (Item * Z).

  Fixpoint a_get (m : amap) (x : Item) : Z :=
    match m with
    | [] => 0
    | (k, v) :: t => if eqb k x then v else a_get t x
    end.

  Fixpoint a_add (m : amap) (x : Item) (w : Z) : amap :=
    match m with
    | [] => [(x, w)]
    | (k, v) :: t => if eqb k x then (k, v + w) :: t else (k, v) :: a_add t x w
    end.

  (* subtract d from every counter and keep the positive ones *)
  Definition a_purge (m : amap) (d : Z) : amap :=
    filter (fun kv => 0 <? snd kv) (map (fun kv => (fst kv, snd kv - d)) m).

  Record ask := { a_ents : amap; a_off : Z; a_tot : Z }.
  Definition a_empty : ask := {| a_ents := []; a_off := 0; a_tot := 0 |}.

  (* a history: effective updates (weight > 0) and purges with an arbitrary decrement *)
  Inductive aop := AUpd (x : Item) (w : Z) | APurge (d : Z).

  Definition a_step (s : ask) (o : aop) : ask :=
    match o with
    | AUpd x w => {| a_ents := a_add (a_ents s) x w; a_off := a_off s; a_tot := a_tot s + w |}
    | APurge d => {| a_ents := a_purge (a_ents s) d; a_off := a_off s + d; a_tot := a_tot s |}
    end.
  Definition a_run (s : ask) (h : list aop) : ask := fold_left a_step h s.

  Definition aop_ok (o : aop) : Prop := match o with AUpd _ w => 0 < w | APurge d => 0 <= d end.

  (* the getters *)
  Definition a_lb (s : ask) (x : Item) : Z := a_get (a_ents s) x.
  Definition a_ub (s : ask) (x : Item) : Z := a_get (a_ents s) x + a_off s.
  Definition a_est (s : ask) (x : Item) : Z :=
    let w := a_get (a_ents s) x in if 0 <? w then w + a_off s else 0.

  (* ground truth of a history *)
  Definition h_weight (h : list aop) (x : Item) : Z :=
    fold_right (fun o acc => match o with AUpd y w => if eqb y x then w + acc else acc | APurge _ => acc end) 0 h.
  Definition h_total (h : list aop) : Z :=
    fold_right (fun o acc => match o with AUpd _ w => w + acc | APurge _ => acc end) 0 h.
  Definition h_nopurge (h : list aop) : Prop :=
    Forall (fun o => match o with AUpd _ _ => True | APurge _ => False end) h.

  (* merge: the operand's counters are replayed as updates (history h: in any order, purges wherever the
     map decides), then the operand's offset is added and the total is fixed up.  (The code's early return for
     an operand with no counter and zero total weight is the identity; proved at L2.) *)
  Definition a_merge (a b : ask) (h : list aop) : ask :=
    let a' := a_run a h in
    {| a_ents := a_ents a'; a_off := a_off a' + a_off b; a_tot := a_tot a + a_tot b |}.

  (* serialize + deserialize as coded: the empty form when there is no active counter; otherwise the
     counters are re-inserted into a fresh sketch (history h) and offset/total are restored *)
  Definition a_roundtrip (s : ask) (h : list aop) : ask :=
    match a_ents s with
    | [] => a_empty
    | _ => {| a_ents := a_ents (a_run a_empty h); a_off := a_off s; a_tot := a_tot s |}
    end.

  (* get_frequent_items: rows (item, lower bound) of the active counters that pass the filter,
     sorted by estimate = lb + offset, descending *)
  Definition a_rows (nfn : bool) (s : ask) (thr : Z) : amap :=
    isort (fun p q => snd q <=? snd p)
          (filter (fun kv => if nfn then thr <? snd kv + a_off s else thr <? snd kv) (a_ents s)).

  (* deterministic update when the whole map is sampled (active <= 1024): purge as soon as the number of
     counters exceeds cap, decrement = median of ALL counters *)
  Definition a_update_det (cap : Z) (s : ask) (x : Item) (w : Z) : ask :=
    let e := a_add (a_ents s) x w in
    if cap <? Z.of_nat (length e) then
      let d := median (map snd e) in
      {| a_ents := a_purge e d; a_off := a_off s + d; a_tot := a_tot s + w |}
    else {| a_ents := e; a_off := a_off s; a_tot := a_tot s + w |}.

  Definition a_run_det (cap : Z) (s : ask) (l : list (Item * Z)) : ask :=
    fold_left (fun s xw => a_update_det cap s (fst xw) (snd xw)) l s.

  Definition a_merge_det (cap : Z) (a b : ask) (order : amap) : ask :=
    let a' := a_run_det cap a order in
    {| a_ents := a_ents a'; a_off := a_off a' + a_off b; a_tot := a_tot a + a_tot b |}.

  Definition a_sum (m : amap) : Z := fold_right (fun kv acc => snd kv + acc) 0 m.
End L1.

(* =====================================  L2  ===================================== *)
Section L2.
  Variable Item : Type.
  Variable eqb : Item -> Item -> bool.
  Variable hash : Item -> N.                 (* fmix64 (H key), all 64 bits *)

  Record cell := { ck : Item; cv : Z; cs : nat }.   (* key, value, state (= drift from home + 1) *)
  Definition table := list (option cell).
  Record rpmap := { lgc : N; lgm : N; nact : Z; tab : table }.

  Definition slot (t : table) (i : nat) : option cell := nth i t None.
  Definition set_slot (t : table) (i : nat) (c : option cell) : table := upd_nth i (fun _ => c) t.
  Definition nxt (t : table) (i : nat) : nat := if Nat.eqb (S i) (length t) then O else S i.
  Definition home (t : table) (k : Item) : nat := N.to_nat (hash k mod N.of_nat (length t)).
  Definition capacity (t : table) : Z := Z.of_nat (length t) * 3 / 4.

  (* get *)
  Fixpoint get_loop (fuel : nat) (t : table) (k : Item) (p : nat) : Z :=
    match fuel with
    | O => 0
    | S f => match slot t p with
             | None => 0
             | Some c => if eqb (ck c) k then cv c else get_loop f t k (nxt t p)
             end
    end.
  Definition rp_get (m : rpmap) (k : Item) : Z :=
    get_loop (length (tab m)) (tab m) k (home (tab m) k).

  (* internal_adjust_or_insert: (table, inserted?) *)
  Fixpoint aoi_loop (fuel : nat) (t : table) (k : Item) (v : Z) (p drift : nat) : table * bool :=
    match fuel with
    | O => (t, false)
    | S f => match slot t p with
             | None => (set_slot t p (Some {| ck := k; cv := v; cs := drift |}), true)
             | Some c => if eqb (ck c) k
                         then (set_slot t p (Some {| ck := ck c; cv := cv c + v; cs := cs c |}), false)
                         else aoi_loop f t k v (nxt t p) (S drift)
             end
    end.
  Definition raw_insert (t : table) (k : Item) (v : Z) : table * bool :=
    aoi_loop (length t) t k v (home t k) 1.

  (* hash_delete *)
  Fixpoint hd_loop (fuel : nat) (t : table) (di p drift : nat) : table :=
    match fuel with
    | O => t
    | S f => match slot t p with
             | None => t
             | Some c =>
                 if Nat.ltb drift (cs c) then
                   let t1 := set_slot t di (Some {| ck := ck c; cv := cv c; cs := cs c - drift |}) in
                   let t2 := set_slot t1 p None in
                   hd_loop f t2 p (nxt t p) 1
                 else hd_loop f t di (nxt t p) (S drift)
             end
    end.
  Definition hash_delete (t : table) (di : nat) : table :=
    hd_loop (length t) (set_slot t di None) di (nxt t di) 1.

  (* subtract_and_keep_positive_only *)
  Fixpoint first_probe (t : table) (i : nat) : nat :=
    match i with
    | O => O
    | S j => match slot t i with None => i | Some _ => first_probe t j end
    end.
  Definition probe_order (t : table) : list nat :=
    let fp := first_probe t (length t - 1) in
    rev (seq 0 fp) ++ rev (seq fp (length t - fp)).
  Definition sub_step (amount : Z) (st : table * Z) (p : nat) : table * Z :=
    let '(t, n) := st in
    match slot t p with
    | None => st
    | Some c => if cv c <=? amount then (hash_delete t p, n - 1)
                else (set_slot t p (Some {| ck := ck c; cv := cv c - amount; cs := cs c |}), n)
    end.
  Definition subtract_kpo (t : table) (n : Z) (amount : Z) : table * Z :=
    fold_left (sub_step amount) (probe_order t) (t, n).

  Definition active_cells (t : table) : list cell :=
    flat_map (fun o => match o with Some c => [c] | None => [] end) t.

  (* purge *)
  Definition purge (m : rpmap) : rpmap * Z :=
    let limit := Z.to_nat (Z.min 1024 (nact m)) in
    let samples := firstn limit (map cv (active_cells (tab m))) in
    let med := median samples in
    let '(t, n) := subtract_kpo (tab m) (nact m) med in
    ({| lgc := lgc m; lgm := lgm m; nact := n; tab := t |}, med).

  (* resize: re-insert in slot order into a table twice as large (no purge/resize can trigger inside:
     the new capacity 3/4 * 2 * size is at least the old number of active items) *)
  Definition resize (m : rpmap) : rpmap :=
    let t0 : table := repeat None (2 * length (tab m)) in
    let '(t, n) := fold_left (fun (st : table * Z) o =>
                      match o with
                      | None => st
                      | Some c => let '(t, n) := st in
                                  let '(t', i) := raw_insert t (ck c) (cv c) in
                                  (t', if i then n + 1 else n)
                      end) (tab m) (t0, 0) in
    {| lgc := (lgc m + 1)%N; lgm := lgm m; nact := n; tab := t |}.

  (* adjust_or_insert: new map and the offset increment *)
  Definition adjust_or_insert (m : rpmap) (k : Item) (v : Z) : rpmap * Z :=
    let '(t, i) := raw_insert (tab m) k v in
    if i then
      let m1 := {| lgc := lgc m; lgm := lgm m; nact := nact m + 1; tab := t |} in
      if capacity t <? nact m1 then
        if (lgc m <? lgm m)%N then (resize m1, 0) else purge m1
      else (m1, 0)
    else ({| lgc := lgc m; lgm := lgm m; nact := nact m; tab := t |}, 0).

  (* iterator: first active slot, then golden-ratio strides *)
  Definition stride (n : nat) : nat :=
    N.to_nat (N.lor (N.of_nat n * 6180339887498949 / 10000000000000000) 1).
  Fixpoint find_active (fuel : nat) (t : table) (i : nat) : nat :=
    match fuel with
    | O => i
    | S f => match slot t i with Some _ => i | None => find_active f t (S i) end
    end.
  Fixpoint advance (fuel : nat) (t : table) (i st : nat) : nat :=
    match fuel with
    | O => i
    | S f => let j := Nat.modulo (i + st) (length t) in
             match slot t j with Some _ => j | None => advance f t j st end
    end.
  Fixpoint iter_loop (cnt : nat) (t : table) (i st : nat) : list cell :=
    match cnt with
    | O => []
    | S c => match slot t i with
             | None => []
             | Some cl => cl :: match c with O => [] | _ => iter_loop c t (advance (length t) t i st) st end
             end
    end.
  Definition entries (m : rpmap) : list cell :=
    iter_loop (Z.to_nat (nact m)) (tab m) (find_active (length (tab m)) (tab m) 0) (stride (length (tab m))).

  (* the sketch *)
  Record sketch := { sk_tot : Z; sk_off : Z; sk_map : rpmap }.

  Definition sk_new (lg_max lg_start : N) : sketch :=
    let c := N.max lg_start 3 in
    {| sk_tot := 0; sk_off := 0;
       sk_map := {| lgc := c; lgm := N.max lg_max 3; nact := 0; tab := repeat None (Nat.pow 2 (N.to_nat c)) |} |}.

  Definition sk_update (s : sketch) (k : Item) (w : Z) : sketch :=
    if w =? 0 then s else
    let '(m, d) := adjust_or_insert (sk_map s) k w in
    {| sk_tot := sk_tot s + w; sk_off := sk_off s + d; sk_map := m |}.

  Definition sk_replay (s : sketch) (l : list cell) : sketch :=
    fold_left (fun s c => sk_update s (ck c) (cv c)) l s.

  Definition sk_merge (a b : sketch) : sketch :=
    if (nact (sk_map b) =? 0) && (sk_tot b =? 0) then a else
    let a' := sk_replay a (entries (sk_map b)) in
    {| sk_tot := sk_tot a + sk_tot b; sk_off := sk_off a' + sk_off b; sk_map := sk_map a' |}.

  Definition sk_roundtrip (s : sketch) : sketch :=
    let m := sk_map s in
    if nact m =? 0 then sk_new (lgm m) (lgc m) else
    let s1 := sk_replay (sk_new (lgm m) (lgc m)) (entries m) in
    {| sk_tot := sk_tot s; sk_off := sk_off s; sk_map := sk_map s1 |}.

  Definition sk_lb (s : sketch) (k : Item) : Z := rp_get (sk_map s) k.
  Definition sk_ub (s : sketch) (k : Item) : Z := rp_get (sk_map s) k + sk_off s.
  Definition sk_est (s : sketch) (k : Item) : Z :=
    let w := rp_get (sk_map s) k in if 0 <? w then w + sk_off s else 0.

  (* rows of get_frequent_items before sorting: (item, weight) *)
  Definition sk_rows (nfn : bool) (s : sketch) (thr : Z) : list cell :=
    filter (fun c => if nfn then thr <? cv c + sk_off s else thr <? cv c) (entries (sk_map s)).

  (* abstraction to L1: the active cells in slot order *)
  Definition abs_ents (t : table) : list (Item * Z) := map (fun c => (ck c, cv c)) (active_cells t).
  Definition abs_sk (s : sketch) : ask Item :=
    {| a_ents := abs_ents (tab (sk_map s)); a_off := sk_off s; a_tot := sk_tot s |}.
End L2.

(* =====================================  concrete instance and line protocol  ===================================== *)
(* items travel as token lists: [v] for uint64_t, the bytes for std::string *)
Definition item := list Z.

Fixpoint item_eqb (a b : item) : bool :=
  match a, b with
  | [], [] => true
  | x :: a', y :: b' => Z.eqb x y && item_eqb a' b'
  | _, _ => false
  end.

Fixpoint item_ltb (a b : item) : bool :=      (* lexicographic, a proper prefix is smaller *)
  match a, b with
  | [], [] => false
  | [], _ :: _ => true
  | _ :: _, [] => false
  | x :: a', y :: b' => if x <? y then true else if y <? x then false else item_ltb a' b'
  end.
Definition item_leb (a b : item) : bool := negb (item_ltb b a).

(* the harness' hash functors (drv_fi.cpp): kind 0 multiplicative, kind 1 clustering (x mod 5), kind 2 FNV-1a over the bytes *)
Local Open Scope N_scope.
Definition fnv1a (bs : list N) : N :=
  fold_left (fun h b => mul64 (N.lxor h (w8 b)) 1099511628211) bs 14695981039346656037.
Definition user_hash (kind : Z) (x : item) : N :=
  match kind with
  | 0%Z => match x with v :: _ => mul64 (z_to_u64 v) 0x9E3779B97F4A7C15 | [] => 0 end
  | 1%Z => match x with v :: _ => (z_to_u64 v) mod 5 | [] => 0 end
  | _ => fnv1a (map zN x)
  end.
Definition fi_hash (kind : Z) (x : item) : N := fmix64 (user_hash kind x).
Local Open Scope Z_scope.

Definition sk := sketch item.

(* ghost log: true weight per item (first-seen order) *)
Definition glog := list (item * Z).
Definition log_get (l : glog) (x : item) : Z := a_get item item_eqb l x.
Definition log_add (l : glog) (x : item) (w : Z) : glog := a_add item item_eqb l x w.
Definition log_merge (a b : glog) : glog := fold_left (fun l kv => log_add l (fst kv) (snd kv)) b a.
Definition log_total (l : glog) : Z := a_sum item l.

Record full := { f_kind : Z; f_sk : sk; f_log : glog }.

Definition enc_item (x : item) : line := nz (length x) :: x.

Definition upd (k : Z) (s : sk) (x : item) (w : Z) : sk := sk_update item item_eqb (fi_hash k) s x w.

(* ---------- serialized image (frequent_items_sketch::serialize / deserialize, both the stream and the bytes overloads) ----------
   byte 0 preamble longs (1 empty / 4), 1 serial version 1, 2 family 10, 3 lg_max, 4 lg_cur, 5 flags (5 = both "empty" bits),
   6-7 unused; then, unless empty: u32 number of counters, u32 unused, W total weight, W offset, the counters (8 bytes each,
   iterator order), the items through the serde (uint64_t: 8 bytes each; std::string: u32 length + bytes).  Little endian. *)
Fixpoint le_enc (n : nat) (v : Z) : list Z :=
  match n with O => [] | S k => v mod 256 :: le_enc k (v / 256) end.
Fixpoint le_dec (bs : list Z) : Z :=
  match bs with [] => 0 | b :: t => b + 256 * le_dec t end.

Definition ser_item (kind : Z) (x : item) : list Z :=
  if kind =? 2 then le_enc 4 (nz (length x)) ++ x else le_enc 8 (match x with v :: _ => v | [] => 0 end).

Definition sk_serialize (kind : Z) (s : sk) : list Z :=
  let m := sk_map _ s in
  if nact _ m =? 0 then [1; 1; 10; Nz (lgm _ m); Nz (lgc _ m); 5; 0; 0]
  else let es := entries item m in
       [4; 1; 10; Nz (lgm _ m); Nz (lgc _ m); 0; 0; 0] ++ le_enc 4 (nact _ m) ++ [0; 0; 0; 0] ++
       le_enc 8 (sk_tot _ s) ++ le_enc 8 (sk_off _ s) ++
       flat_map (fun c => le_enc 8 (cv _ c)) es ++ flat_map (fun c => ser_item kind (ck _ c)) es.

Definition split_at (n : nat) (l : list Z) : option (list Z * list Z) :=
  if (n <=? length l)%nat then Some (firstn n l, skipn n l) else None.

Fixpoint de_weights (n : nat) (l : list Z) : option (list Z * list Z) :=
  match n with
  | O => Some ([], l)
  | S k => match split_at 8 l with
           | None => None
           | Some (b, r) => match de_weights k r with
                            | None => None
                            | Some (ws, r') => Some (le_dec b :: ws, r')
                            end
           end
  end.

Fixpoint de_items (kind : Z) (n : nat) (l : list Z) : option (list item * list Z) :=
  match n with
  | O => Some ([], l)
  | S k =>
      if kind =? 2 then
        match split_at 4 l with
        | None => None
        | Some (lb, r) =>
            match split_at (Z.to_nat (le_dec lb)) r with
            | None => None
            | Some (x, r2) => match de_items kind k r2 with
                              | None => None
                              | Some (xs, r3) => Some (x :: xs, r3)
                              end
            end
        end
      else
        match split_at 8 l with
        | None => None
        | Some (b, r) => match de_items kind k r with
                         | None => None
                         | Some (xs, r3) => Some ([le_dec b] :: xs, r3)
                         end
        end
  end.

Definition sk_deserialize (kind : Z) (bs : list Z) : option sk :=
  match bs with
  | pl :: sv :: fam :: lgmax :: lgcur :: flags :: _ :: _ :: rest =>
      let empty := negb (Z.land flags 5 =? 0) in
      if negb (pl =? (if empty then 1 else 4)) || negb (sv =? 1) || negb (fam =? 10) || (lgmax <? lgcur) || (lgcur <? 3)
      then None else
      let s0 := sk_new item (zN lgmax) (zN lgcur) in
      if empty then Some s0 else
      match split_at 4 rest with None => None | Some (nb, r1) =>
      match split_at 4 r1 with None => None | Some (_, r2) =>
      match split_at 8 r2 with None => None | Some (tb, r3) =>
      match split_at 8 r3 with None => None | Some (ob, r4) =>
      let n := Z.to_nat (le_dec nb) in
      match de_weights n r4 with None => None | Some (ws, r5) =>
      match de_items kind n r5 with None => None | Some (xs, _) =>
        let s1 := fold_left (fun s xw => upd kind s (fst xw) (snd xw)) (combine xs ws) s0 in
        Some {| sk_tot := le_dec tb; sk_off := le_dec ob; sk_map := sk_map _ s1 |}
      end end end end end end
  | _ => None
  end.

(* canonical orders for output *)
Definition rows_by_item (l : list (cell item)) : list (cell item) :=
  isort (fun a b => item_leb (ck _ a) (ck _ b)) l.
Definition rows_by_est (l : list (cell item)) : list (cell item) :=
  isort (fun a b => if cv _ b <? cv _ a then true else if cv _ a <? cv _ b then false else item_leb (ck _ a) (ck _ b)) l.

Definition regs := list (Z * full).

Definition op_new (s : regs) (r kind lgmax lgstart : Z) : regs * outline :=
  if (lgmax <? lgstart) || negb ((0 <=? kind) && (kind <=? 2)) then (reg_del s r, (refused, []))
  else (reg_set s r {| f_kind := kind; f_sk := sk_new item (zN lgmax) (zN lgstart); f_log := [] |}, (ok, [])).

Definition op_update (s : regs) (r w : Z) (x : item) : regs * outline :=      (* update (lvalue / rvalue) *)
  match reg_get s r with
  | Some f =>
      if w <? 0 then (s, (refused, [])) else
      (reg_set s r {| f_kind := f_kind f; f_sk := upd (f_kind f) (f_sk f) x w;
                      f_log := if w =? 0 then f_log f else log_add (f_log f) x w |}, (ok, []))
  | None => (s, (refused, []))
  end.

Definition op_query (s : regs) (r : Z) (x : item) : regs * outline :=         (* 3 r 0 item... *)
  match reg_get s r with
  | Some f =>
      let k := f_sk f in let h := fi_hash (f_kind f) in
      (s, ([sk_est item item_eqb h k x; sk_lb item item_eqb h k x; sk_ub item item_eqb h k x;
            sk_off _ k; sk_tot _ k; nact _ (sk_map _ k)],
           [log_get (f_log f) x; log_total (f_log f)]))
  | None => (s, (refused, []))
  end.

Definition op_merge (s : regs) (r w : Z) : regs * outline :=                  (* merge w into r *)
  match reg_get s r, reg_get s w with
  | Some f, Some g =>
      if negb (f_kind f =? f_kind g) then (s, (refused, [])) else
      (reg_set s r {| f_kind := f_kind f;
                      f_sk := sk_merge item item_eqb (fi_hash (f_kind f)) (f_sk f) (f_sk g);
                      f_log := log_merge (f_log f) (f_log g) |}, (ok, []))
  | _, _ => (s, (refused, []))
  end.

(* 6 r et has thr: has = 0 the one-argument overload (threshold = maximum error); has = 2 explicit threshold
   max 0 (maximum error + thr) (thresholds around the maximum error); otherwise explicit threshold thr *)
Definition op_freq (s : regs) (r et : Z) (x : line) : regs * outline :=
  match reg_get s r, x with
  | Some f, has :: thr :: _ =>
      let k := f_sk f in
      let t := if has =? 0 then sk_off _ k else if has =? 2 then Z.max 0 (sk_off _ k + thr) else thr in
      let rows := rows_by_est (sk_rows item (et =? 1) k t) in
      (s, (nz (length rows) :: sk_off _ k ::
             flat_map (fun c => enc_item (ck _ c) ++ [cv _ c + sk_off _ k; cv _ c; cv _ c + sk_off _ k]) rows,
           log_total (f_log f) :: flat_map (fun kv => enc_item (fst kv) ++ [snd kv]) (f_log f)))
  | _, _ => (s, (refused, []))
  end.

Definition op_roundtrip (s : regs) (r w : Z) : regs * outline :=   (* serialize r, deserialize into w; R = 1, length, bytes *)
  match reg_get s r with
  | Some f =>
      let bs := sk_serialize (f_kind f) (f_sk f) in
      match sk_deserialize (f_kind f) bs with
      | Some k' => (reg_set s w {| f_kind := f_kind f; f_sk := k'; f_log := f_log f |}, (1 :: nz (length bs) :: bs, []))
      | None => (s, (refused, []))
      end
  | None => (s, (refused, []))
  end.

Definition op_copy (s : regs) (r w : Z) : regs * outline :=
  match reg_get s r with
  | Some f => (reg_set s w f, (ok, []))
  | None => (s, (refused, []))
  end.

Definition op_dump (s : regs) (r : Z) : regs * outline :=
  match reg_get s r with
  | Some f =>
      let k := f_sk f in
      let rows := rows_by_item (entries item (sk_map _ k)) in
      (s, (nact _ (sk_map _ k) :: sk_tot _ k :: sk_off _ k :: bz (nact _ (sk_map _ k) =? 0) ::
             flat_map (fun c => enc_item (ck _ c) ++ [cv _ c]) rows,
           [log_total (f_log f)]))
  | None => (s, (refused, []))
  end.

Definition step (s : regs) (o e : line) : regs * outline :=
  match o with
  | opc :: r :: rest =>
      if opc =? 1 then
        match rest with
        | kind :: lgmax :: lgstart :: _ => op_new s r kind lgmax lgstart
        | _ => (s, ([-2], []))
        end
      else if opc =? 5 then op_dump s r
      else match rest with
           | w :: x =>
               if (opc =? 2) || (opc =? 12) then op_update s r w x
               else if opc =? 3 then op_query s r x
               else if (opc =? 4) || (opc =? 14) then op_merge s r w
               else if opc =? 6 then op_freq s r w x
               else if (opc =? 7) || (opc =? 17) then op_roundtrip s r w
               else if opc =? 8 then op_copy s r w
               else (s, ([-2], []))
           | [] => (s, ([-2], []))
           end
  | _ => (s, ([-2], []))
  end.

Definition run (ops : list opline) : list outline := run_case step [] ops.
