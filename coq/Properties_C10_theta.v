(* Properties_C10_theta.v — the compact Theta images keep the documented little-endian layout, and the legacy
   serial versions 1 and 2 stay readable. Only statements; proofs live in ThetaCodecProofs2.v/ThetaCodecProofs3.v.
   The model is ThetaCodecDefs.v (extracted and compared with the C++ on every run). [rd k off img] is the
   little-endian unsigned integer in the k bytes at offset off. *)
From Coq Require Import NArith List Bool Lia Arith.
From DS Require Import Word BitPackLang BitPackSpec ThetaCodecDefs ThetaCodecProofs ThetaCodecProofs2 ThetaCodecProofs3.
Import ListNotations.
Local Open Scope N_scope.

(* serial version 3: byte 0 preamble longs, byte 1 serial version 3, byte 2 sketch type 3 (compact theta),
   byte 5 flags (bit 0 big-endian: never; bit 1 read-only; bit 2 empty; bit 3 compact; bit 4 ordered),
   bytes 6-7 seed hash, bytes 8-11 entry count when there is more than one preamble long, bytes 16-23 theta in
   estimation mode (three preamble longs), then the entries, 8 bytes each. *)
Theorem C10_theta_v3_layout : forall s rest, wf s ->
  let img := enc_v3 s ++ rest in
  nth 0 img 0 = pre_longs_v3 s /\ nth 1 img 0 = 3 /\ nth 2 img 0 = 3 /\ nth 5 img 0 = flags_v3 s /\
  N.testbit (flags_v3 s) 0 = false /\ N.testbit (flags_v3 s) 1 = true /\ N.testbit (flags_v3 s) 2 = k_empty s /\
  N.testbit (flags_v3 s) 3 = true /\ N.testbit (flags_v3 s) 4 = k_ordered s /\
  rd 2 6 img = Some (k_seed_hash s) /\
  (1 < pre_longs_v3 s -> rd 4 8 img = Some (nent s)) /\
  (est_mode s = true -> pre_longs_v3 s = 3 /\ rd 8 16 img = Some (k_theta s)) /\
  (forall i, (i < length (k_entries s))%nat ->
     rd 8 (8 * N.to_nat (pre_longs_v3 s) + 8 * i) img = Some (nth i (k_entries s) 0)).
Proof. exact v3_layout. Qed.

(* serial version 4: byte 0 preamble longs (2 with theta, else 1), byte 1 serial version 4, byte 2 sketch type 3,
   byte 3 entry bits (1..63), byte 4 number of bytes of the entry count (1..4), byte 5 flags 26 (read-only,
   compact, ordered), bytes 6-7 seed hash, theta at 8 in estimation mode, then the entry count little-endian in
   that many bytes, then exactly the packed deltas. *)
Theorem C10_theta_v4_layout : forall s img, wf4 s -> suitable_for_compression s = true -> enc_v4 s = Some img ->
  nth 0 img 0 = (if est_mode s then 2 else 1) /\ nth 1 img 0 = 4 /\ nth 2 img 0 = 3 /\
  nth 3 img 0 = entry_bits s /\ nth 4 img 0 = num_entries_bytes s /\ nth 5 img 0 = 26 /\
  1 <= entry_bits s <= 63 /\ 1 <= num_entries_bytes s <= 4 /\
  rd 2 6 img = Some (k_seed_hash s) /\
  (est_mode s = true -> rd 8 8 img = Some (k_theta s)) /\
  rd (N.to_nat (num_entries_bytes s)) (if est_mode s then 16 else 8) img = Some (nent s) /\
  pack_all (S (length (k_entries s))) (N.to_nat (entry_bits s)) (deltas 0 (k_entries s)) =
    Some (skipn ((if est_mode s then 16 else 8) + N.to_nat (num_entries_bytes s)) img).
Proof. exact v4_layout. Qed.

(* legacy images: serial version 1 ([3;1;3;0*5][count u32][0*4][theta u64] entries; no seed hash stored) and
   serial version 2 ([pre;2;3;0;0;0][seed hash u16]([count u32][0*4])?([theta u64])? entries) are read by both
   readers as the upgraded sketch: same theta and entries, ordered, empty iff no entries and theta = MAX_THETA;
   for version 1 the seed hash reported is the expected one. *)
Theorem C10_theta_v1_readable : forall s e rest, ranges s ->
  dec_bytes e (enc_v1 s ++ rest) = Some (upgrade e s) /\
  dec_stream e (enc_v1 s ++ rest) = Some (upgrade e s, length (enc_v1 s)).
Proof. exact v1_readable. Qed.

Theorem C10_theta_v2_readable : forall s rest, ranges s ->
  dec_bytes (k_seed_hash s) (enc_v2 s ++ rest) = Some (upgrade (k_seed_hash s) s) /\
  dec_stream (k_seed_hash s) (enc_v2 s ++ rest) = Some (upgrade (k_seed_hash s) s, length (enc_v2 s)).
Proof. exact v2_readable. Qed.

(* every well-formed sketch is in range for the legacy writers *)
Theorem C10_theta_wf_ranges : forall s, wf s -> ranges s.
Proof. exact wf_ranges. Qed.

(* non-vacuity *)
Definition C10_ex : csk := mk false true 37836 4611686018427387904 [1000; 70000; 4000000000000].
Example C10_ex_wf4 : wf4 C10_ex /\ suitable_for_compression C10_ex = true /\ ranges C10_ex.
Proof.
  unfold wf4, wf, ranges. cbn [C10_ex mk k_seed_hash k_theta k_entries k_empty k_ordered incr].
  repeat split; try reflexivity; try discriminate; repeat (apply Forall_cons; [reflexivity|]); apply Forall_nil.
Qed.
Example C10_ex_images :
  enc_v3 C10_ex = [3; 3; 3; 0; 0; 26; 204; 147; 3; 0; 0; 0; 0; 0; 0; 0; 0; 0; 0; 0; 0; 0; 0; 64;
                   232; 3; 0; 0; 0; 0; 0; 0; 112; 17; 1; 0; 0; 0; 0; 0; 0; 64; 148; 82; 163; 3; 0; 0] /\
  enc_v4 C10_ex = Some [2; 4; 3; 42; 1; 26; 204; 147; 0; 0; 0; 0; 0; 0; 0; 64; 3; 0; 0; 0;
                        0; 250; 0; 0; 0; 16; 216; 142; 141; 74; 76; 186; 64] /\
  enc_v1 C10_ex = [3; 1; 3; 0; 0; 0; 0; 0; 3; 0; 0; 0; 0; 0; 0; 0; 0; 0; 0; 0; 0; 0; 0; 64;
                   232; 3; 0; 0; 0; 0; 0; 0; 112; 17; 1; 0; 0; 0; 0; 0; 0; 64; 148; 82; 163; 3; 0; 0] /\
  enc_v2 C10_ex = [3; 2; 3; 0; 0; 0; 204; 147; 3; 0; 0; 0; 0; 0; 0; 0; 0; 0; 0; 0; 0; 0; 0; 64;
                   232; 3; 0; 0; 0; 0; 0; 0; 112; 17; 1; 0; 0; 0; 0; 0; 0; 64; 148; 82; 163; 3; 0; 0] /\
  dec_bytes 37836 (enc_v1 C10_ex) = Some C10_ex /\ dec_bytes 37836 (enc_v2 C10_ex) = Some C10_ex /\
  upgrade 37836 C10_ex = C10_ex /\
  dec_bytes 37836 (enc_v2 (mk true true 37836 MAX_THETA [])) = Some (mk true true 37836 MAX_THETA []) /\
  length (enc_v2 (mk true true 37836 MAX_THETA [])) = 8%nat /\
  dec_bytes 37836 (enc_v2 (mk false true 37836 MAX_THETA [5; 9])) = Some (mk false true 37836 MAX_THETA [5; 9]) /\
  length (enc_v2 (mk false true 37836 MAX_THETA [5; 9])) = 32%nat.
Proof. vm_compute. repeat split. Qed.

Print Assumptions C10_theta_v3_layout.
Print Assumptions C10_theta_v4_layout.
Print Assumptions C10_theta_v1_readable.
Print Assumptions C10_theta_v2_readable.
Print Assumptions C10_theta_wf_ranges.
