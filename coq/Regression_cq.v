(* Regression_cq.v — concrete reachable classic quantiles sketches computed inside Coq (non-vacuity witnesses for
   Properties_C07_cq / Properties_C08_cq).  No defect of the implementation is recorded for this family. *)
From Coq Require Import ZArith List Bool Lia QArith.
From DS Require Import RunnerLib SortedView CqDefs CqProofs CqView CqUnbiased CqDraws.
Import ListNotations.
Local Open Scope Z_scope.

(* replay that also reports the arities of the draws it went through *)
Fixpoint replay_ar {A} (m : M A) (cs : list Z) : option (list Z * A) :=
  match m with
  | Ret a => Some ([], a)
  | Draw n k => match cs with
                | [] => None
                | c :: r => if (0 <=? c) && (c <? n)
                            then match replay_ar (k c) r with Some (ar, a) => Some (n :: ar, a) | None => None end
                            else None
                end
  end.

Lemma replay_ar_path {A} (m : M A) : forall cs ar a, replay_ar m cs = Some (ar, a) -> path m ar a.
Proof.
  induction m as [a0|n k IH]; cbn [replay_ar]; intros cs ar a H.
  - inversion H; subst. constructor.
  - destruct cs as [|c cs]; [discriminate|].
    destruct ((0 <=? c) && (c <? n)) eqn:E; [|discriminate].
    apply andb_true_iff in E as [E1 E2]. apply Z.leb_le in E1. apply Z.ltb_lt in E2.
    destruct (replay_ar (k c) cs) as [[ar' a']|] eqn:R; [|discriminate]. inversion H; subst.
    econstructor; eauto.
Qed.

Definition stream (k : Z) (xs : list Z) : prog := fold_left PUpd xs (PNew k).
Definition range (a n : nat) : list Z := map Z.of_nat (seq a n).

(* a(k=8) 40 updates, b(k=2) 9 updates, a.merge(b): both estimating, a.k > b.k, so the result is built on a copy
   of b (k = 2) and a's full level is downsampled with stride 4; then one more update and a query *)
Definition W1 : prog := PQuery (PUpd (PMerge (stream 8 (range 0 40)) (stream 2 (range 100 9))) 50).

Lemma W1_wf : wf W1.
Proof. repeat split. Qed.

(* all outcomes 0 *)
Lemma witness1_values :
  exists ar s, replay_ar (exec W1) (repeat 0 11) = Some (ar, s) /\ path (exec W1) ar s /\
    ar = [2; 2; 2; 2; 2; 2; 2; 2; 2; 2; 4] /\
    ck s = 2 /\ cn s = 50 /\ cbp s = 12 /\ cbb s = [39; 50] /\ clv s = [[]; []; [32; 100]; [0; 16]] /\
    iterate s = [(39, 1); (50, 1); (32, 8); (100, 8); (0, 16); (16, 16)] /\
    sum_weights (iterate s) = 50 /\ compute_retained_items 2 50 = 6.
Proof.
  destruct (replay_ar (exec W1) (repeat 0 11)) as [[ar s]|] eqn:E.
  - exists ar, s. split; [reflexivity|]. split; [exact (replay_ar_path _ _ _ _ E)|].
    vm_compute in E. injection E as <- <-. vm_compute. repeat split.
  - vm_compute in E. discriminate.
Qed.

(* another outcome: same draws, same n and bit pattern *)
Lemma witness1_other_outcome :
  exists ar s, replay_ar (exec W1) [1; 0; 1; 1; 0; 1; 0; 1; 1; 0; 3] = Some (ar, s) /\
    ar = [2; 2; 2; 2; 2; 2; 2; 2; 2; 2; 4] /\ cn s = 50 /\ cbp s = 12.
Proof.
  destruct (replay_ar (exec W1) [1; 0; 1; 1; 0; 1; 0; 1; 1; 0; 3]) as [[ar s]|] eqn:E.
  - exists ar, s. split; [reflexivity|]. vm_compute in E. injection E as <- <-. vm_compute. repeat split.
  - vm_compute in E. discriminate.
Qed.

(* a reachable sketch with an empty base buffer and a gap in the levels: n = 8k, bit_pattern = 100b *)
Definition W2 : prog := stream 2 (range 0 16).

Lemma W2_wf : wf W2.
Proof. repeat split. Qed.

Lemma witness2_values :
  exists ar s, replay_ar (exec W2) (repeat 1 7) = Some (ar, s) /\ path (exec W2) ar s /\ length ar = 7%nat /\
    cbb s = [] /\ cbp s = 4 /\ clv s = [[]; []; [7; 15]] /\ iterate s = [(7, 8); (15, 8)].
Proof.
  destruct (replay_ar (exec W2) (repeat 1 7)) as [[ar s]|] eqn:E.
  - exists ar, s. split; [reflexivity|]. split; [exact (replay_ar_path _ _ _ _ E)|].
    vm_compute in E. injection E as <- <-. vm_compute. repeat split.
  - vm_compute in E. discriminate.
Qed.

(* ---------- the unrepaired check_split_points (before fixes/07_cq_split_points_comparator.patch) ---------- *)
(* quantiles_sorted_view::check_split_points compared with a default-constructed Comparator() instead of the view's
   comparator instance.  For a sketch whose comparator instance orders the other way (the harness kind 3: DirCmp with
   the descending flag, items negated) that is the check under the REVERSED order: increasing split points were refused
   and decreasing ones answered. *)
Definition splits_ok_default_cmp (sp : list Z) : bool := splits_ok Z (fun a b => Z.ltb b a) sp.

Theorem cq_split_check_default_comparator_refuted :
  exists sp, splits_ok Z Z.ltb sp = true /\ splits_ok_default_cmp sp = false /\
             splits_ok Z Z.ltb (rev sp) = false /\ splits_ok_default_cmp (rev sp) = true.
Proof. exists [2; 6]. repeat split; reflexivity. Qed.
