(* Properties_C04_result.v — C04 statements that lean on the C03 development (HllSketchProofs.v: [skinv], [hinv]):
   every hll_sketch reachable by updates is an admissible union input, and get_result(type) for every target type.
   Only statements, closed by [exact]; proofs live in HllUnionResult.v. *)
From Coq Require Import ZArith NArith List Bool Lia.
From DS Require Import Word RunnerLib HllDefs HllProofs HllSketchProofs.
From DS Require Import HllUnionDefs HllUnionBase HllUnionCoupon HllUnionProofs HllUnionCorollaries HllUnionResult HllUnionProtocol.
Import ListNotations.
Local Open Scope N_scope.

(* the hypothesis [src_ok] on input sketches follows from the sketch invariant C03 proves ([skinv]) ... *)
Theorem C04_sketch_invariant_admissible : forall lgk ty full i C, Forall cok C -> skinv lgk ty full i C -> src_ok C i.
Proof. exact skinv_src_ok. Qed.

(* ... so every sketch built from coupons — HLL_4 / HLL_6 / HLL_8, list / set / HLL mode, start_full_size or not — is admissible *)
Theorem C04_all_built_inputs_admissible : forall lgk ty full cs, 4 <= lgk -> lgk <= 21 -> Forall cok cs ->
  exists i, sk_updates (sk_new lgk ty full) cs = Some i /\ src_ok cs i.
Proof. exact built_src_ok. Qed.

(* get_result(type), every target type, after every history: defined; lg_k = lg*; of the requested type; decodes to the
   per-slot max of every coupon offered since the last reset; empty iff nothing was offered; admissible as an input of
   another union *)
Theorem C04_get_result_any_type : forall lgmax ops ty, 4 <= lgmax -> lgmax <= 21 -> Forall hop_ok ops ->
  exists u r, u_run repaired (u_new lgmax) (map op_of ops) = Some u /\ u_result u ty = Some r /\
    sk_lgk r = lg_star lgmax (since_reset ops) /\ sk_ty r = ty /\
    sk_regs r = Some (spec_regs (lg_star lgmax (since_reset ops)) (offered (since_reset ops))) /\
    (sk_is_empty r = true <-> offered (since_reset ops) = []) /\
    src_ok (offered (since_reset ops)) r.
Proof. exact union_result_any. Qed.

(* ---- the same, at the level of the extracted line protocol (HllUnionDefs.step is what runs against the C++) ----
   [st_adm s]: every sketch register is an admissible input for its ghost log, every union register satisfies the gadget
   invariant for its ghost (coupons offered since the last reset, lg* ).  It holds initially and every union operation
   keeps it; the query operations answer exactly what the specification values printed beside them say. *)
Theorem C04_protocol_update : forall s u r rv e, st_adm s -> st_adm (fst (step s [11; u; r; rv]%Z e)).
Proof. exact step_update. Qed.

Theorem C04_protocol_raw_coupons : forall s u cs e, st_adm s -> Forall cok (map (fun z => w32 (zN z)) cs) ->
  st_adm (fst (step s (12 :: u :: cs)%Z e)).
Proof. exact step_raw_coupons. Qed.

Theorem C04_protocol_estimate_reset : forall s u w e, st_adm s ->
  st_adm (fst (step s [15; u; w]%Z e)) /\ st_adm (fst (step s [16; u]%Z e)) /\ st_adm (fst (step s [10; u; w]%Z e)).
Proof. intros s u w e H. split; [now apply step_estimate|split; [now apply step_reset|now apply step_new_union]]. Qed.

Theorem C04_protocol_get_result : forall s u tyz ty e x, st_adm s -> reg_get (uns s) u = Some x -> tgt_of_Z tyz = Some ty ->
  exists r, step s [14; u; tyz]%Z e = (s, (observe r, spec_line (n_log x) (n_minlg x))) /\
            sk_lgk r = n_minlg x /\ sk_ty r = ty /\ sk_regs r = Some (spec_regs_fold (n_minlg x) (n_log x)) /\
            (sk_is_empty r = true <-> n_log x = []).
Proof. exact step_get_result. Qed.

Theorem C04_protocol_accessors : forall s u e x, st_adm s -> reg_get (uns s) u = Some x ->
  exists mode, step s [17; u]%Z e =
    (s, ([Nz (n_minlg x); bz (match n_log x with [] => true | _ => false end); mode; 2%Z], [Nz (n_minlg x); Nz (lenN (n_log x))])).
Proof. exact step_accessors. Qed.

Theorem C04_protocol_result_register : forall s u r tyz e, st_adm s -> st_adm (fst (step s [18; u; r; tyz]%Z e)).
Proof. exact step_result_register. Qed.

Theorem C04_protocol_new_sketch : forall s r lgk tyz full e, st_adm s -> st_adm (fst (step s [1; r; lgk; tyz; full]%Z e)).
Proof. exact step_new_sketch. Qed.

(* non-vacuity: an HLL_4 sketch of lg_k 7 built from 9 coupons is in HLL mode, admissible, and a union of lg_max_k 5 fed
   this sketch returns an HLL_6 result of lg_k 5 whose registers are the folded maxima *)
Example C04_result_nonvacuous :
  let cs := map (fun a => pair_sv a 4) [1; 33; 65; 97; 100; 5; 6; 7; 40] in
  exists i u r, sk_updates (sk_new 7 T4 false) cs = Some i /\ is_hll i = true /\
    u_run repaired (u_new 5) [USketch false i] = Some u /\ u_result u T6 = Some r /\
    sk_lgk r = 5 /\ sk_ty r = T6 /\
    sk_regs r = Some (spec_regs 5 cs) /\ getN (spec_regs 5 cs) 1 = 4 /\ getN (spec_regs 5 cs) 2 = 0.
Proof.
  cbv zeta. eexists _, _, _.
  split; [vm_compute; reflexivity|]. split; [reflexivity|]. split; [vm_compute; reflexivity|].
  split; [vm_compute; reflexivity|]. repeat split; vm_compute; reflexivity.
Qed.

Print Assumptions C04_sketch_invariant_admissible.
Print Assumptions C04_all_built_inputs_admissible.
Print Assumptions C04_get_result_any_type.
Print Assumptions C04_protocol_update.
Print Assumptions C04_protocol_raw_coupons.
Print Assumptions C04_protocol_estimate_reset.
Print Assumptions C04_protocol_get_result.
Print Assumptions C04_protocol_accessors.
Print Assumptions C04_protocol_result_register.
Print Assumptions C04_protocol_new_sketch.
