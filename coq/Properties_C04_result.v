(* Properties_C04_result.v — C04 statements that lean on the C03 development (HllSketchProofs.v: [skinv], [hinv]):
   every hll_sketch reachable by updates is an admissible union input, and get_result(type) for every target type.
   Only statements, closed by [exact]; proofs live in HllUnionResult.v. *)
From Coq Require Import ZArith NArith List Bool Lia.
From DS Require Import Word RunnerLib HllDefs HllProofs HllSketchProofs.
From DS Require Import HllUnionDefs HllUnionBase HllUnionCoupon HllUnionProofs HllUnionCorollaries HllUnionResult.
Import ListNotations.
Local Open Scope N_scope.

(* the hypothesis [src_ok] on input sketches follows from the sketch invariant C03 proves ([skinv]) ... *)
Theorem C04_sketch_invariant_admissible : forall lgk ty full i C, Forall cok C -> skinv lgk ty full i C -> src_ok C i.
Proof. exact skinv_src_ok. Qed.

(* ... so every sketch built from coupons — HLL_4 / HLL_6 / HLL_8, list / set / HLL mode, start_full_size or not — is admissible *)
Theorem C04_all_built_inputs_admissible : forall lgk ty full cs, 4 <= lgk -> lgk <= 21 -> Forall cok cs ->
  exists i, sk_updates (sk_new lgk ty full) cs = Some i /\ src_ok cs i.
Proof. exact built_src_ok. Qed.

(* get_result(type), every target type, after every history: defined; lg_k = lg*; of the requested type; decodes to the
   per-slot max of every coupon offered since the last reset; empty iff nothing was offered; admissible as an input of
   another union *)
Theorem C04_get_result_any_type : forall lgmax ops ty, 4 <= lgmax -> lgmax <= 21 -> Forall hop_ok ops ->
  exists u r, u_run repaired (u_new lgmax) (map op_of ops) = Some u /\ u_result u ty = Some r /\
    sk_lgk r = lg_star lgmax (since_reset ops) /\ sk_ty r = ty /\
    sk_regs r = Some (spec_regs (lg_star lgmax (since_reset ops)) (offered (since_reset ops))) /\
    (sk_is_empty r = true <-> offered (since_reset ops) = []) /\
    src_ok (offered (since_reset ops)) r.
Proof. exact union_result_any. Qed.

(* non-vacuity: an HLL_4 sketch of lg_k 7 built from 9 coupons is in HLL mode, admissible, and a union of lg_max_k 5 fed
   this sketch returns an HLL_6 result of lg_k 5 whose registers are the folded maxima *)
Example C04_result_nonvacuous :
  let cs := map (fun a => pair_sv a 4) [1; 33; 65; 97; 100; 5; 6; 7; 40] in
  exists i u r, sk_updates (sk_new 7 T4 false) cs = Some i /\ is_hll i = true /\
    u_run repaired (u_new 5) [USketch false i] = Some u /\ u_result u T6 = Some r /\
    sk_lgk r = 5 /\ sk_ty r = T6 /\
    sk_regs r = Some (spec_regs 5 cs) /\ getN (spec_regs 5 cs) 1 = 4 /\ getN (spec_regs 5 cs) 2 = 0.
Proof.
  cbv zeta. eexists _, _, _.
  split; [vm_compute; reflexivity|]. split; [reflexivity|]. split; [vm_compute; reflexivity|].
  split; [vm_compute; reflexivity|]. repeat split; vm_compute; reflexivity.
Qed.

Print Assumptions C04_sketch_invariant_admissible.
Print Assumptions C04_all_built_inputs_admissible.
Print Assumptions C04_get_result_any_type.
