(* DensityCodec_Properties.v — serialized image of the density sketch (C09 round trip, C11 truncation), statements only;
   proofs in DensityCodecProofs.v.  [enc] is the writer (serialize, bytes and stream form), [dec true] the reader
   deserialize(bytes, size) with its ensure_minimum_memory look-ahead, [dec false] the reader deserialize(istream);
   both return the sketch and the unread rest of the input.  The same definitions are extracted and compared byte for
   byte with the code on every run (checks/fam_densitycodec.py).  The model is the code with the repairs
   fixes/20_is_empty_n.patch, 20_serialize_header.patch and 20_deserialize_level_size_bounds.patch (old behaviour:
   Regression_density.v). *)
From Coq Require Import ZArith NArith List Bool Lia.
From DS Require Import RunnerLib DensityDefs DensityProofs DensityCodecProofs.
Import ListNotations.
Local Open Scope Z_scope.

(* -- round trip: for EVERY well-formed sketch in wire form, either reader, ANY bytes after the image -- *)
Theorem C09d_roundtrip : forall la w t, wfw w ->
  dec la (enc w ++ t) = Some (ds_roundtrip w, padding w ++ t).
Proof. intros la w t H. now apply dec_enc. Qed.

(* a sketch without trailing empty levels comes back identical, and the reader consumes exactly the image *)
Theorem C09d_roundtrip_exact : forall la w t, wfw w -> d_n w <> 0 -> kept w = d_levels w ->
  dec la (enc w ++ t) = Some (w, t).
Proof. exact dec_enc_exact. Qed.

(* an empty sketch comes back as a fresh one *)
Theorem C09d_roundtrip_empty : forall la w t, wfw w -> d_n w = 0 ->
  dec la (enc w ++ t) = Some (ds_new (d_k w) (d_dim w), t).
Proof. exact dec_enc_empty. Qed.

(* serialize(header_size_bytes): h reserved zero bytes followed by the same image *)
Theorem C09d_header : forall h w, 0 <= h ->
  firstn (Z.to_nat h) (enc_hdr h w) = repeat 0 (Z.to_nat h) /\ skipn (Z.to_nat h) (enc_hdr h w) = enc w.
Proof. exact enc_hdr_split. Qed.

(* re-serializing the restored sketch gives the needed part of the image again (the image itself when the sketch had no
   trailing empty levels) *)
Theorem C09d_reserialize : forall w, wfw w -> d_n w <> 0 -> kept w <> [] -> enc (ds_roundtrip w) = ess w.
Proof. exact enc_roundtrip. Qed.

(* -- truncation: an input that stops before the last byte the reader needs is refused; this includes every strict
      prefix of the image of a sketch without trailing empty levels -- *)
Theorem C11d_truncated_refused : forall la w b t, wfw w -> ess w = b ++ t -> t <> [] -> dec la b = None.
Proof. exact dec_truncated_refused. Qed.

(* every strict prefix of an image is refused, or (only size words of trailing empty levels missing) yields the same sketch *)
Theorem C11d_strict_prefix : forall la w b t, wfw w -> enc w = b ++ t -> t <> [] ->
  dec la b = None \/
  (exists r, dec la b = Some (ds_roundtrip w, r) /\ (length (ess w) <= length b)%nat /\
             dec la (enc w) = Some (ds_roundtrip w, r ++ t)).
Proof. exact dec_strict_prefix. Qed.

(* the readers never look at bytes after the part they consumed *)
Theorem C11d_extension : forall la b w r, dec la b = Some (w, r) -> forall t, dec la (b ++ t) = Some (w, r ++ t).
Proof. exact dec_ext. Qed.

(* -- integer-valued doubles and their bit patterns -- *)
Theorem C09d_double_bits : forall z, Z.abs z < 2 ^ 53 -> dint (dbits z) = Some z /\ 0 <= dbits z < 2 ^ 64.
Proof. exact dint_dbits. Qed.

(* -- reachable sketches: every merge tree of updates whose coordinates are integers below 2^53 in absolute value and
      whose counters fit their slots has a well-formed wire form; the byte-level round trip is ds_roundtrip -- *)
Theorem C09d_reachable_roundtrip : forall K h la t, valid h -> fits K h ->
  dec la (enc (to_wire (eval K h)) ++ t) = Some (to_wire (ds_roundtrip (eval K h)), padding (to_wire (eval K h)) ++ t) /\
  of_wire (to_wire (ds_roundtrip (eval K h))) = Some (ds_roundtrip (eval K h)).
Proof. exact reachable_roundtrip. Qed.

(* non-vacuity: a sketch with trailing empty levels (n = 7, one point at level 0, two empty levels) *)
Definition w1 : ds := to_wire {| d_k := 2; d_dim := 1; d_ret := 1; d_n := 7; d_levels := [[[5]]; []; []] |}.
Example C09d_nonvacuous :
  length (enc w1) = 44%nat /\ length (ess w1) = 36%nat /\
  dec true (enc w1) = Some (ds_roundtrip w1, [0; 0; 0; 0; 0; 0; 0; 0]) /\
  dec false (firstn 36 (enc w1)) = Some (ds_roundtrip w1, []) /\ dec true (firstn 35 (enc w1)) = None /\
  d_levels (ds_roundtrip w1) = [[[dbits 5]]].
Proof. vm_compute. repeat split. Qed.

(* non-vacuity of the reachable-state theorem: a history with a compaction satisfies [valid] and [fits]; its image is 60 bytes *)
Definition h1 : hist :=
  fold_left (fun h x => HUpd h [x; -x] (mk_env [1; 0; 1; 0; 1; 0; 1])) [0; 3; 1000; 2; 7] (HNew 2 2).
Example C09d_reachable_nonvacuous :
  valid h1 /\ fits kern0 h1 /\ (1 <? Z.of_nat (length (d_levels (eval kern0 h1)))) = true /\
  (match dec true (enc (to_wire (eval kern0 h1))) with
   | Some (w, r) => of_wire w = Some (ds_roundtrip (eval kern0 h1)) /\ r = padding (to_wire (eval kern0 h1))
   | None => False end).
Proof.
  assert (Ei : inputs kern0 h1 = [[0; 0]; [3; -3]; [1000; -1000]; [2; -2]; [7; -7]]) by (vm_compute; reflexivity).
  split; [vm_compute; discriminate|]. split.
  - unfold fits. rewrite Ei. split; [vm_compute; reflexivity|]. split; [vm_compute; split; [discriminate|reflexivity]|].
    split; [vm_compute; reflexivity|]. repeat constructor; vm_compute; reflexivity.
  - split; [vm_compute; reflexivity|]. vm_compute. split; reflexivity.
Qed.

Print Assumptions C09d_roundtrip.
Print Assumptions C09d_roundtrip_exact.
Print Assumptions C09d_roundtrip_empty.
Print Assumptions C09d_header.
Print Assumptions C09d_reserialize.
Print Assumptions C11d_truncated_refused.
Print Assumptions C11d_strict_prefix.
Print Assumptions C11d_extension.
Print Assumptions C09d_double_bits.
Print Assumptions C09d_reachable_roundtrip.
