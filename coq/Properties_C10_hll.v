(* Properties_C10_hll.v — documented layout of the hll_sketch images (C10): every field of [enc] sits at its documented
   offset with its documented value (HllUtil.hpp hll_constants: PREAMBLE_INTS_BYTE 0, SER_VER_BYTE 1, FAMILY_BYTE 2, LG_K_BYTE 3,
   LG_ARR_BYTE 4, FLAGS_BYTE 5, LIST_COUNT_BYTE / HLL_CUR_MIN_BYTE 6, MODE_BYTE 7, LIST_INT_ARR_START 8, HASH_SET_COUNT_INT 8,
   HASH_SET_INT_ARR_START 12, HIP_ACCUM_DOUBLE 8, KXQ0_DOUBLE 16, KXQ1_DOUBLE 24, CUR_MIN_COUNT_INT 32, AUX_COUNT_INT 36,
   HLL_BYTE_ARR_START 40), for EVERY state (no invariant needed), and the table of an updatable SET image follows the documented
   open-addressing rule.  [enc] is compared byte for byte with the implementation on every run (fam_hllcodec). *)
From Coq Require Import ZArith NArith List Bool Lia.
From DS Require Import Word RunnerLib HllDefs HllProofs HllOpenAddr HllSetProofs HllSketchProofs HllCodecDefs HllCodecProofs.
Import ListNotations.
Local Open Scope N_scope.

(* the 8 preamble bytes shared by the three kinds: preamble ints 2 / 3 / 10, serial version 1, family 7, lg_k, flag bits
   (4 empty, 8 compact, 16 out of order, 32 full size), mode byte = mode | type << 2 *)
Theorem C10_hll_preamble : forall compact hip i,
  let b := enc compact hip i in
  getN b 0 = match i with IList _ => 2 | ISet _ => 3 | IHll _ => 10 end /\ getN b 1 = 1 /\ getN b 2 = 7 /\
  getN b 3 = sk_lgk i /\ getN b 7 = mode_byte (sk_mode i) (sk_ty i) /\
  flag (getN b 5) 8 = compact /\ flag (getN b 5) 4 = sk_is_empty i /\ flag (getN b 5) 16 = sk_ooo i /\ flag (getN b 5) 32 = sk_full i.
Proof. exact enc_preamble. Qed.

Theorem C10_hll_list_layout : forall compact hip l,
  let b := enc compact hip (IList l) in
  getN b 4 = 3 /\ getN b 6 = l_cnt l mod 256 /\ skipn 8 b = flat_map le32 (if compact then nonzero (l_arr l) else l_arr l).
Proof. exact enc_list_layout. Qed.

Theorem C10_hll_set_layout : forall compact hip s,
  let b := enc compact hip (ISet s) in
  getN b 4 = s_lg s /\ getN b 6 = 0 /\ firstn 4 (skipn 8 b) = le32 (s_cnt s) /\
  skipn 12 b = flat_map le32 (if compact then nonzero (s_arr s) else s_arr s).
Proof. exact enc_set_layout. Qed.

Theorem C10_hll_array_layout : forall compact hip h,
  let b := enc compact hip (IHll h) in
  getN b 4 = aux_lg (h_aux h) /\ getN b 6 = h_curmin h /\
  firstn 8 (skipn 8 b) = le64 hip /\ firstn 8 (skipn 16 b) = le64 (kbits 31 (h_kxq0 h)) /\ firstn 8 (skipn 24 b) = le64 (kbits 63 (h_kxq1 h)) /\
  firstn 4 (skipn 32 b) = le32 (h_numat h) /\ firstn 4 (skipn 36 b) = le32 (aux_cnt (h_aux h)) /\
  skipn 40 b = h_bytes h ++ match h_ty h with T4 => enc_aux compact (h_lgk h) (h_aux h) | _ => [] end.
Proof. exact enc_hll_layout. Qed.

(* SET mode: the table stored verbatim in the updatable image has 2^lg slots and every stored coupon c is reachable from its
   home slot (c & mask) along home + j * stride, stride = ((c & KEY_MASK_26) >> lg) | 1, without crossing an empty slot
   ([reach] of HllOpenAddr, instantiated with the documented home and stride) *)
Theorem C10_hll_set_probe_rule : forall ty lgk full cs s hip,
  4 <= lgk -> lgk <= 21 -> Forall cvalid cs -> sk_run ty lgk full cs = Some (ISet s) ->
  lenN (s_arr s) = 2 ^ s_lg s /\
  reach (s_lg s) (fun e => e) (shome (s_lg s)) (set_stride (s_lg s)) (s_arr s) /\
  skipn 12 (enc false hip (ISet s)) = flat_map le32 (s_arr s).
Proof. exact run_set_probe_rule. Qed.

(* the documented stride and home, spelled out *)
Example C10_hll_stride_is_documented : forall lg c,
  set_stride lg c = N.lor (N.shiftr (N.land c 67108863) lg) 1 /\ shome lg c = N.land c (N.ones lg).
Proof. intros. split; reflexivity. Qed.

(* non-vacuity: a list image and an HLL_8 image, field by field *)
Example C10_hll_nonvacuous :
  match sk_run T8 12 false [pair_sv 5 3; pair_sv 70000 1], sk_run T8 4 true [pair_sv 5 3] with
  | Some i, Some j =>
      enc true 0 i = [2; 1; 7; 12; 3; 8; 2; 8] ++ le32 (pair_sv 5 3) ++ le32 (pair_sv 70000 1) /\
      firstn 8 (enc true 0 j) = [10; 1; 7; 4; 0; 40; 0; 10] /\ getN (enc true 0 j) (40 + 5) = 3 /\ lenN (enc true 0 j) = 56
  | _, _ => False
  end.
Proof. vm_compute. repeat split; reflexivity. Qed.

Print Assumptions C10_hll_preamble.
Print Assumptions C10_hll_list_layout.
Print Assumptions C10_hll_set_layout.
Print Assumptions C10_hll_array_layout.
Print Assumptions C10_hll_set_probe_rule.
