(* LedgerReq.v — sizes-only model of the hand-managed items_ buffer of req_compactor (req_compactor_impl.hpp) and of the
   way req_sketch (req_sketch_impl.hpp) drives its vector of compactors, with the effect log.  Each compactor is an
   owner of its own buffer and carries its own ledger (block ids are local to it); the constructed range of items_ is
   [cap - num, cap) for HRA and [0, num) for LRA.  The successive section sizes nearest_even(k / sqrt(2)^j) go through
   float arithmetic and sqrtf: they are an INPUT table (read from the implementation), the theorems hold for any table.
   Definitions only. *)
From Coq Require Import ZArith NArith List Bool Lia.
From DS Require Import LedgerCore.
Import ListNotations.
Local Open Scope N_scope.

Record comp := {
  c_hra : bool;
  c_sec : N;            (* section_size_ *)
  c_j : N;              (* how many times the section size was reduced (index into the table) *)
  c_nsec : N;           (* num_sections_ *)
  c_state : N;          (* state_ *)
  c_num : N;            (* num_items_ *)
  c_cap : N;            (* capacity_ *)
  c_blk : N;            (* items_ *)
  c_nxt : N
}.

Definition MIN_K : N := 4.
Definition nom_capacity (c : comp) : N := 2 * c_nsec c * c_sec c.
Definition c_begin (c : comp) : N := if c_hra c then c_cap c - c_num c else 0.

Definition mkc (c : comp) (sec j nsec state num cap blk nxt : N) : comp :=
  {| c_hra := c_hra c; c_sec := sec; c_j := j; c_nsec := nsec; c_state := state; c_num := num; c_cap := cap; c_blk := blk; c_nxt := nxt |}.

(* capacity_ = 2 * get_nom_capacity() = 2 * (MULTIPLIER * INIT_NUM_SECTIONS * k) *)
Definition init_cap (k : N) : N := 12 * k.

Definition new_comp (hra : bool) (k : N) : comp * list eff :=
  let cap := init_cap k in
  ({| c_hra := hra; c_sec := k; c_j := 0; c_nsec := 3; c_state := 0; c_num := 0; c_cap := cap; c_blk := 0; c_nxt := 1 |},
   [Alloc true 0 cap]).

(* grow(new_capacity) *)
Definition comp_grow (c : comp) (new_cap : N) : comp * list eff :=
  let b' := c_nxt c in
  let c' := mkc c (c_sec c) (c_j c) (c_nsec c) (c_state c) (c_num c) new_cap b' (b' + 1) in
  (c', [Alloc true b' new_cap; MovD (c_blk c) (c_begin c) b' (c_begin c') (c_num c); Dealloc (c_blk c) (c_cap c)]).

(* append(item) *)
Definition comp_append (c : comp) : comp * list eff :=
  let '(c1, e1) := if c_num c =? c_cap c then comp_grow c (c_cap c + nom_capacity c) else (c, []) in
  let i := if c_hra c1 then c_cap c1 - c_num c1 - 1 else c_num c1 in
  (mkc c1 (c_sec c1) (c_j c1) (c_nsec c1) (c_state c1) (c_num c1 + 1) (c_cap c1) (c_blk c1) (c_nxt c1), e1 ++ [Cons (c_blk c1) i 1]).

(* ensure_space(num) *)
Definition comp_ensure_space (c : comp) (n : N) : comp * list eff :=
  if c_cap c <? c_num c + n then comp_grow c (c_num c + n + nom_capacity c) else (c, []).

(* ensure_enough_sections(): [tab] = successive section sizes *)
Definition comp_ensure_sections (tab : list N) (c : comp) : comp * list eff * bool :=
  let ne := nth (N.to_nat (c_j c)) tab 0 in
  if (2 ^ (c_nsec c - 1) <=? c_state c) && (MIN_K <=? ne) then
    let c1 := mkc c ne (c_j c + 1) (2 * c_nsec c) (c_state c) (c_num c) (c_cap c) (c_blk c) (c_nxt c) in
    let '(c2, e) := if c_cap c1 <? 2 * nom_capacity c1 then comp_grow c1 (2 * nom_capacity c1) else (c1, []) in
    (c2, e, true)
  else (c, [], false).

Fixpoint ensure_sections_loop (fuel : nat) (tab : list N) (c : comp) (acc : list eff) : comp * list eff :=
  match fuel with
  | O => (c, acc)
  | S f => let '(c1, e, again) := comp_ensure_sections tab c in
           if again then ensure_sections_loop f tab c1 (acc ++ e) else (c1, acc ++ e)
  end.

(* count_trailing_zeros_in_u64(~state): number of trailing one bits of state *)
Fixpoint trailing_ones (fuel : nat) (s : N) : N :=
  match fuel with O => 0 | S f => if N.odd s then 1 + trailing_ones f (s / 2) else 0 end.

(* compute_compaction_range *)
Definition compaction_range (c : comp) : N * N :=
  let secs := N.min (trailing_ones 64 (c_state c) + 1) (c_nsec c) in
  let nc0 := nom_capacity c / 2 + (c_nsec c - secs) * c_sec c in
  let nc := if N.odd (c_num c - nc0) then nc0 + 1 else nc0 in
  if c_hra c then (0, c_num c - nc) else (nc, c_num c).

(* compact(next): effects on [next] (which read this compactor: FromX) and then effects on this compactor.
   [None]: "compaction range error", or the range does not lie inside the items (the code would then run off the buffer) *)
Definition comp_compact (tab : list N) (c next : comp) : option (comp * list eff * comp * list eff * N * N) :=
  let start_nom := nom_capacity c in
  let '(low, high) := compaction_range c in
  if (high - low <? 2) || (c_num c <? high) || (high <? low) then None else
  let num := (high - low) / 2 in
  let '(n1, en1) := comp_ensure_space next num in
  let dst := if c_hra c then c_begin n1 - num else c_begin n1 + c_num n1 in
  let n2 := mkc n1 (c_sec n1) (c_j n1) (c_nsec n1) (c_state n1) (c_num n1 + num) (c_cap n1) (c_blk n1) (c_nxt n1) in
  let en := en1 ++ [FromX (c_blk c) (c_begin c + low) (c_blk n1) dst num] in
  let c1 := mkc c (c_sec c) (c_j c) (c_nsec c) (c_state c + 1) (c_num c - (high - low)) (c_cap c) (c_blk c) (c_nxt c) in
  let '(c2, ec2, _) := comp_ensure_sections tab c1 in
  Some (c2, Dest (c_blk c) (c_begin c + low) (high - low) :: ec2, n2, en, num, nom_capacity c2 - start_nom).

(* compactor merge(other): effects on this compactor, reading the other one *)
Definition comp_merge (tab : list N) (c o : comp) : comp * list eff :=
  let c0 := mkc c (c_sec c) (c_j c) (c_nsec c) (N.lor (c_state c) (c_state o)) (c_num c) (c_cap c) (c_blk c) (c_nxt c) in
  let '(c1, e1) := ensure_sections_loop 64 tab c0 [] in
  let '(c2, e2) := comp_ensure_space c1 (c_num o) in
  let dst := if c_hra c2 then c_begin c2 - c_num o else c_num c2 in
  (mkc c2 (c_sec c2) (c_j c2) (c_nsec c2) (c_state c2) (c_num c2 + c_num o) (c_cap c2) (c_blk c2) (c_nxt c2),
   e1 ++ e2 ++ (if 0 <? c_num o then [FromX (c_blk o) (c_begin o) (c_blk c2) dst (c_num o)] else [])).

Definition comp_copy (o : comp) : comp * list eff :=
  (mkc o (c_sec o) (c_j o) (c_nsec o) (c_state o) (c_num o) (c_cap o) 0 1,
   [Alloc true 0 (c_cap o)] ++ (if 0 <? c_num o then [FromX (c_blk o) (c_begin o) 0 (c_begin o) (c_num o)] else [])).

Definition comp_destroy (c : comp) : list eff :=
  [Dest (c_blk c) (c_begin c) (c_num c); Dealloc (c_blk c) (c_cap c)].

(* ---- the sketch: a vector of (compactor, its ledger) ---- *)
Record req := {
  q_k : N; q_hra : bool; q_tab : list N;
  q_n : N; q_retained : N; q_maxnom : N;
  q_comps : list (comp * ledger)
}.

Definition q_extras (s : req) : N := if q_n s =? 0 then 0 else 2.      (* min_item_, max_item_ *)
Definition sum_nom (cs : list (comp * ledger)) : N := fold_right (fun p a => nom_capacity (fst p) + a) 0 cs.
Definition sum_num (cs : list (comp * ledger)) : N := fold_right (fun p a => c_num (fst p) + a) 0 cs.
Definition q_ledger (s : req) : ledger := flat_map snd (q_comps s).

(* judge: (ledger', rejected) *)
Definition judgeq (X L : ledger) (es : list eff) : ledger * bool :=
  match apply_all X L es with Some L' => (L', false) | None => (L, true) end.

Definition new_req (k : N) (hra : bool) (tab : list N) : req * bool :=
  let '(c, e) := new_comp hra k in
  let '(L, bad) := judgeq [] [] e in
  ({| q_k := k; q_hra := hra; q_tab := tab; q_n := 0; q_retained := 0; q_maxnom := nom_capacity c; q_comps := [(c, L)] |}, bad).

Definition with_comps (s : req) (n ret maxnom : N) (cs : list (comp * ledger)) : req :=
  {| q_k := q_k s; q_hra := q_hra s; q_tab := q_tab s; q_n := n; q_retained := ret; q_maxnom := maxnom; q_comps := cs |}.

(* grow(): a new top compactor *)
Definition push_comp (s : req) (cs : list (comp * ledger)) : list (comp * ledger) * bool :=
  let '(c, e) := new_comp (q_hra s) (q_k s) in
  let '(L, bad) := judgeq [] [] e in (cs ++ [(c, L)], bad).

(* compress(): [cs] = compactors h, h+1, ... still to visit; [done] = those below, already final.
   Returns compactors, num_retained, max_nom_size, flag; None = a logic_error escaped *)
Fixpoint compress_loop (fuel : nat) (s : req) (done rest : list (comp * ledger)) (ret maxnom : N) (bad : bool)
  : option (list (comp * ledger) * N * N * bool) :=
  match fuel with
  | O => Some (done ++ rest, ret, maxnom, bad)
  | S f =>
    match rest with
    | [] => Some (done, ret, maxnom, bad)
    | (c, L) :: t =>
      if nom_capacity c <=? c_num c then
        (* at the top: add a level *)
        let '(t1, maxnom1, bad1) :=
          match t with
          | [] => let '(t', b') := push_comp s [] in (t', sum_nom (done ++ (c, L) :: t'), bad || b')   (* grow() recomputes max_nom_size_ *)
          | _ => (t, maxnom, bad)
          end in
        match t1 with
        | [] => None
        | (nx, LN) :: t2 =>
          match comp_compact (q_tab s) c nx with
          | None => None
          | Some (c', ec, nx', en, num, dnom) =>
            let '(LN', b1) := judgeq L LN en in
            let '(L', b2) := judgeq [] L ec in
            let ret' := ret - num in
            let maxnom' := maxnom1 + dnom in
            (* LAZY_COMPRESSION is false: the loop always goes on to the next level *)
            compress_loop f s (done ++ [(c', L')]) ((nx', LN') :: t2) ret' maxnom' (bad1 || b1 || b2)
          end
        end
      else compress_loop f s (done ++ [(c, L)]) t ret maxnom bad
    end
  end.

Definition req_compress (s : req) (cs : list (comp * ledger)) (ret maxnom : N) (bad : bool) :=
  compress_loop (length cs + 70) s [] cs ret maxnom bad.

(* update(item): [None] = a logic_error escaped *)
Definition req_update (s : req) : option (req * bool) :=
  match q_comps s with
  | [] => None
  | (c0, L0) :: t =>
    let '(c1, e1) := comp_append c0 in
    let '(L1, b1) := judgeq [] L0 e1 in
    let cs := (c1, L1) :: t in
    let ret := q_retained s + 1 in
    if ret =? q_maxnom s then
      match req_compress s cs ret (q_maxnom s) b1 with
      | Some (cs', ret', mx', bad) => Some (with_comps s (q_n s + 1) ret' mx' cs', bad)
      | None => None
      end
    else Some (with_comps s (q_n s + 1) ret (q_maxnom s) cs, b1)
  end.

(* merge(other) *)
Fixpoint grow_to (fuel : nat) (s : req) (cs : list (comp * ledger)) (n : nat) (bad : bool) : list (comp * ledger) * bool :=
  match fuel with
  | O => (cs, bad)
  | S f => if (length cs <? n)%nat then let '(cs', b) := push_comp s cs in grow_to f s cs' n (bad || b) else (cs, bad)
  end.

Fixpoint merge_comps (tab : list N) (cs os : list (comp * ledger)) (bad : bool) : list (comp * ledger) * bool :=
  match cs, os with
  | (c, L) :: t, (o, LO) :: ot =>
      let '(c', e) := comp_merge tab c o in
      let '(L', b) := judgeq LO L e in
      let '(t', bad') := merge_comps tab t ot (bad || b) in ((c', L') :: t', bad')
  | _, _ => (cs, bad)
  end.

Definition req_merge (s o : req) : option (req * bool) :=
  if negb (Bool.eqb (q_hra s) (q_hra o)) then None else
  if q_n o =? 0 then Some (s, false) else
  let '(cs1, b1) := grow_to (length (q_comps o)) s (q_comps s) (length (q_comps o)) false in
  let '(cs2, b2) := merge_comps (q_tab s) cs1 (q_comps o) b1 in
  let mx := sum_nom cs2 in
  let ret := sum_num cs2 in
  if mx <=? ret then
    match req_compress s cs2 ret mx b2 with
    | Some (cs', ret', mx', bad) => Some (with_comps s (q_n s + q_n o) ret' mx' cs', bad)
    | None => None
    end
  else Some (with_comps s (q_n s + q_n o) ret mx cs2, b2).

Definition req_copy (o : req) : req * bool :=
  let r := map (fun p => let '(c, e) := comp_copy (fst p) in let '(L, b) := judgeq (snd p) [] e in ((c, L), b)) (q_comps o) in
  (with_comps o (q_n o) (q_retained o) (q_maxnom o) (map fst r), existsb snd r).

(* destructor: flag also if a block survives *)
Definition req_destroy (s : req) : bool :=
  existsb (fun p => let '(L, b) := judgeq [] (snd p) (comp_destroy (fst p)) in b || match L with [] => false | _ => true end) (q_comps s).

(* the move constructor takes the vector of compactors away *)
Definition req_moved_from (s : req) : req := with_comps s (q_n s) (q_retained s) (q_maxnom s) [].
