(* RunnerLib.v — the line protocol shared by every family model.
   A case is a list of operations; an operation is a pair (op tokens, env tokens):
   op tokens come from the generated script, env tokens are values the
   implementation reported for that operation (hash seeds, coin flips, random
   indices) and that the model consumes instead of modelling their source.
   A step returns (new state, (result tokens, spec tokens)): result tokens are
   compared with the implementation's, spec tokens are ground-truth facts of the
   L0 specification used by the property oracle. *)
From Coq Require Import ZArith NArith List Lia.
Import ListNotations.
Local Open Scope Z_scope.

Definition line := list Z.
Definition opline : Type := line * line.
Definition outline : Type := line * line.

Fixpoint run_case {S : Type} (step : S -> line -> line -> S * outline)
         (s : S) (ops : list opline) : list outline :=
  match ops with
  | [] => []
  | (o, e) :: r => let '(s', out) := step s o e in out :: run_case step s' r
  end.

Definition refused : line := [-1].
Definition ok : line := [1].

Definition zN (z : Z) : N := Z.to_N z.
Definition zn (z : Z) : nat := Z.to_nat z.
Definition Nz (n : N) : Z := Z.of_N n.
Definition nz (n : nat) : Z := Z.of_nat n.
Definition bz (b : bool) : Z := if b then 1 else 0.

(* registers: association list from register number to value *)
Fixpoint reg_get {A} (rs : list (Z * A)) (r : Z) : option A :=
  match rs with
  | [] => None
  | (k, v) :: t => if Z.eqb k r then Some v else reg_get t r
  end.
Fixpoint reg_del {A} (rs : list (Z * A)) (r : Z) : list (Z * A) :=
  match rs with
  | [] => []
  | (k, v) :: t => if Z.eqb k r then reg_del t r else (k, v) :: reg_del t r
  end.
Definition reg_set {A} (rs : list (Z * A)) (r : Z) (v : A) : list (Z * A) :=
  (r, v) :: reg_del rs r.

(* list helpers *)
Fixpoint upd_nth {A} (n : nat) (f : A -> A) (l : list A) : list A :=
  match l with
  | [] => []
  | x :: t => match n with O => f x :: t | S n' => x :: upd_nth n' f t end
  end.

Lemma upd_nth_length {A} n (f : A -> A) l : length (upd_nth n f l) = length l.
Proof. revert n; induction l as [|x t IH]; intros [|n]; simpl; auto. Qed.

Lemma nth_upd_nth_eq {A} n (f : A -> A) l d :
  (n < length l)%nat -> nth n (upd_nth n f l) d = f (nth n l d).
Proof.
  revert n; induction l as [|x t IH]; intros [|n] H; simpl in *; try (exfalso; inversion H; fail); auto.
  apply IH. lia.
Qed.

Lemma nth_upd_nth_neq {A} n m (f : A -> A) l d :
  n <> m -> nth m (upd_nth n f l) d = nth m l d.
Proof.
  revert n m; induction l as [|x t IH]; intros [|n] [|m] H; simpl; auto.
  - congruence.
Qed.
