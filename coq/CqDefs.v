(* CqDefs.v — executable model of the classic quantiles sketch, quantiles/include/quantiles_sketch_impl.hpp
   (no proofs here).  Items are integers with the usual order (the harness instantiates quantiles_sketch<int64_t>,
   quantiles_sketch<double> fed integer values, and a string type under a reversed comparator through an order
   isomorphism).  Every random choice the code makes is a [Draw n] node of the choice monad [M] (an outcome in [0, n)):
     zip_buffer             : random_utils::random_bit()                      -> Draw 2
     zip_buffer_with_stride : uniform_int_distribution<uint16_t>(0, stride-1) -> Draw stride   (hooked index(stride))
   The runner replays the outcomes the implementation reported.

   State as in the code: k_, n_, bit_pattern_, base_buffer_ (physical order, push_back at the end), levels_
   (level i is empty or holds k sorted items; its items weigh 2^(i+1)), min_item_, max_item_,
   is_base_buffer_sorted_.  Control decisions are taken from the same fields as in the code (bit_pattern_ decides where
   a carry stops, n_ / (2k) and n_ % (2k) drive the iterator). *)
From Coq Require Import ZArith List Bool Lia.
From DS Require Import RunnerLib SortedView.
Import ListNotations.
Local Open Scope Z_scope.

(* ---------- choice monad ---------- *)
Inductive M (A : Type) : Type :=
| Ret (a : A)
| Draw (n : Z) (k : Z -> M A).       (* one draw, uniform in [0, n) *)
Arguments Ret {A}.
Arguments Draw {A}.

Fixpoint bind {A B} (m : M A) (f : A -> M B) : M B :=
  match m with
  | Ret a => f a
  | Draw n k => Draw n (fun c => bind (k c) f)
  end.

(* replay with the outcomes reported by the implementation; an outcome outside [0, n) is rejected *)
Fixpoint replay {A} (m : M A) (cs : list Z) : option (A * list Z) :=
  match m with
  | Ret a => Some (a, cs)
  | Draw n k => match cs with
                | [] => None
                | c :: r => if (0 <=? c) && (c <? n) then replay (k c) r else None
                end
  end.

(* ---------- lists ---------- *)
Definition len {A} (l : list A) : Z := Z.of_nat (length l).

Fixpoint insert (x : Z) (l : list Z) : list Z :=
  match l with
  | [] => [x]
  | y :: r => if x <? y then x :: l else y :: insert x r
  end.
Fixpoint isort (l : list Z) : list Z :=          (* std::sort on integers: the sorted permutation *)
  match l with
  | [] => []
  | x :: r => insert x (isort r)
  end.

(* merge_two_size_k_buffers(src_1, src_2): takes from src_1 iff src_1 < src_2 (ties: src_2 first) *)
Fixpoint merge2 (a : list Z) : list Z -> list Z :=
  fix inner (b : list Z) : list Z :=
    match a, b with
    | [], _ => b
    | _, [] => a
    | x :: a', y :: b' => if x <? y then x :: merge2 a' b else y :: inner b'
    end.

(* the items at positions skip, skip + stride, skip + 2 stride, ...  (stride >= 1) *)
Fixpoint every (stride skip : nat) (l : list Z) : list Z :=
  match l with
  | [] => []
  | x :: r => match skip with
              | O => x :: every stride (pred stride) r
              | S s => every stride s r
              end
  end.

(* zip_buffer: offset = random_bit(); out[o] = in[offset + 2 o] *)
Definition zip (buf : list Z) : M (list Z) := Draw 2 (fun o => Ret (every 2 (Z.to_nat o) buf)).
(* zip_buffer_with_stride: offset uniform in [0, stride); out[o] = in[offset + stride o] *)
Definition zip_stride (buf : list Z) (stride : Z) : M (list Z) :=
  Draw stride (fun o => Ret (every (Z.to_nat stride) (Z.to_nat o) buf)).

(* ---------- the sketch ---------- *)
Record cq := mkcq {
  ck : Z;                    (* k_ *)
  cn : Z;                    (* n_ *)
  cbp : Z;                   (* bit_pattern_ *)
  cbb : list Z;              (* base_buffer_ *)
  clv : list (list Z);       (* levels_ *)
  cmin : Z; cmax : Z;        (* min_item_, max_item_ (engaged iff n > 0) *)
  csorted : bool             (* is_base_buffer_sorted_ *)
}.

Definition cq_new (k : Z) : cq := mkcq k 0 0 [] [] 0 0 true.

(* check_k: a power of 2 in [MIN_K, MAX_K] = [2, 2^15] *)
Definition check_k (k : Z) : bool := (2 <=? k) && (k <=? 32768) && (Z.land k (k - 1) =? 0).

(* 64 - count_leading_zeros(z): the number of significant bits *)
Definition bitlen (z : Z) : nat := if z <=? 0 then O else S (Z.to_nat (Z.log2 z)).
Definition levels_needed (k n : Z) : nat := bitlen (n / (2 * k)).

(* count_valid_levels: number of set bits *)
Fixpoint pop_pos (p : positive) : Z :=
  match p with
  | xH => 1
  | xO q => pop_pos q
  | xI q => 1 + pop_pos q
  end.
Definition popcount (z : Z) : Z := match z with Zpos p => pop_pos p | _ => 0 end.
Definition compute_retained_items (k n : Z) : Z := n mod (2 * k) + k * popcount (n / (2 * k)).

Definition is_estimation_mode (s : cq) : bool := negb (cbp s =? 0).

Definition set_lv (s : cq) (lv : list (list Z)) (bp : Z) : cq :=
  mkcq (ck s) (cn s) bp (cbb s) lv (cmin s) (cmax s) (csorted s).

(* in_place_propagate_carry, the part below ending_level = lowest_zero_bit_starting_at(bit_pattern, starting_level):
   [carry] sits in levels_[ending_level]; every full level from starting_level up to ending_level is merged with it
   (merge_two_size_k_buffers(levels_[lvl], levels_[ending_level], buf_size_2k)), both are cleared and the 2k items are
   zipped back into levels_[ending_level].  [bp] is the bit pattern shifted to the current level. *)
Fixpoint carry_in (carry : list Z) (bp : Z) (lv : list (list Z)) : M (list (list Z)) :=
  match lv with
  | [] => Ret []                                   (* levels_[ending_level] past the end: not reachable *)
  | l :: r =>
      if Z.odd bp then
        bind (zip (merge2 l carry)) (fun c' =>
        bind (carry_in c' (bp / 2) r) (fun r' => Ret ([] :: r')))
      else Ret (carry :: r)
  end.

Fixpoint carry_at (start : nat) (carry : list Z) (bp : Z) (lv : list (list Z)) : M (list (list Z)) :=
  match start with
  | O => carry_in carry bp lv
  | S st => match lv with
            | [] => Ret []
            | l :: r => bind (carry_at st carry (bp / 2) r) (fun r' => Ret (l :: r'))
            end
  end.

(* in_place_propagate_carry(starting_level, buf_size_k, buf_size_2k, apply_as_update, sketch) *)
Definition propagate (start : nat) (buf_k buf_2k : list Z) (as_update : bool) (s : cq) : M cq :=
  bind (if as_update then zip buf_2k else Ret buf_k) (fun carry =>
  bind (carry_at start carry (cbp s) (clv s)) (fun lv' =>
  Ret (set_lv s lv' (cbp s + 2 ^ Z.of_nat start)))).

(* grow_levels_if_needed: at most one new (empty) level *)
Definition grow_levels (s : cq) : cq :=
  let needed := levels_needed (ck s) (cn s) in
  if (needed =? 0)%nat then s
  else if (needed <=? length (clv s))%nat then s
  else set_lv s (clv s ++ [[]]) (cbp s).

(* process_full_base_buffer *)
Definition process_full (s : cq) : M cq :=
  let s1 := grow_levels s in
  bind (propagate 0 [] (isort (cbb s1)) true s1) (fun s2 =>
  Ret (mkcq (ck s2) (cn s2) (cbp s2) [] (clv s2) (cmin s2) (cmax s2) true)).

(* update(item) (NaN is filtered by the caller) *)
Definition update (s : cq) (x : Z) : M cq :=
  let mn := if cn s =? 0 then x else if x <? cmin s then x else cmin s in
  let mx := if cn s =? 0 then x else if cmax s <? x then x else cmax s in
  let bb := cbb s ++ [x] in
  let srt := if 1 <? len bb then false else csorted s in
  let s1 := mkcq (ck s) (cn s + 1) (cbp s) bb (clv s) mn mx srt in
  if len bb =? 2 * ck s then process_full s1 else Ret s1.

Fixpoint updates (s : cq) (items : list Z) : M cq :=
  match items with
  | [] => Ret s
  | x :: r => bind (update s x) (fun s' => updates s' r)
  end.

(* while (levels_.size() < levels_needed) push an empty level *)
Definition grow_to (needed : nat) (lv : list (list Z)) : list (list Z) :=
  lv ++ repeat [] (needed - length lv).

(* for (src_lvl = 0; src_pattern != 0; ++src_lvl, src_pattern >>= 1) if (src_pattern & 1) f(src_lvl, src.levels_[src_lvl]) *)
Fixpoint merge_levels (f : nat -> list Z -> cq -> M cq) (lvl : nat) (pat : Z) (src : list (list Z)) (tgt : cq) : M cq :=
  match src with
  | [] => Ret tgt
  | l :: r => bind (if Z.odd pat then f lvl l tgt else Ret tgt) (fun t' => merge_levels f (S lvl) (pat / 2) r t')
  end.

(* tgt.n_ = new_n; min/max from src (tgt's are engaged iff something was ever given to tgt) *)
Definition finish_merge (tgt src : cq) (new_n : Z) : cq :=
  let has := negb (cn tgt =? 0) in
  mkcq (ck tgt) new_n (cbp tgt) (cbb tgt) (clv tgt)
       (if has then (if cmin src <? cmin tgt then cmin src else cmin tgt) else cmin src)
       (if has then (if cmax tgt <? cmax src then cmax src else cmax tgt) else cmax src)
       (csorted tgt).

Definition merge_with (f : nat -> list Z -> cq -> M cq) (tgt src : cq) : M cq :=
  if cn src =? 0 then Ret tgt else                 (* if (src.is_empty()) return; *)
  let new_n := cn src + cn tgt in
  bind (updates tgt (cbb src)) (fun t1 =>
  let t2 := set_lv t1 (grow_to (levels_needed (ck t1) new_n) (clv t1)) (cbp t1) in
  bind (merge_levels f 0 (cbp src) (clv src) t2) (fun t3 =>
  Ret (finish_merge t3 src new_n))).

(* standard_merge(tgt, src): same k *)
Definition standard_merge (tgt src : cq) : M cq :=
  merge_with (fun lvl l t => propagate lvl l [] false t) tgt src.

(* downsampling_merge(tgt, src): src.k = factor * tgt.k *)
Definition downsampling_merge (tgt src : cq) : M cq :=
  let factor := ck src / ck tgt in
  let lg := Z.to_nat (Z.log2 factor) in
  merge_with (fun lvl l t => bind (zip_stride l factor) (fun down => propagate (lvl + lg) down [] false t)) tgt src.

(* merge(other): the result may be built on a copy of [other] (then it has other's k) *)
Definition merge (s o : cq) : M cq :=
  if cn o =? 0 then Ret s
  else if negb (is_estimation_mode o) then updates s (cbb o)
  else if is_estimation_mode s then
    if ck s =? ck o then standard_merge s o
    else if ck o <? ck s then downsampling_merge o s
    else downsampling_merge s o
  else
    if ck s <=? ck o then updates o (cbb s)
    else downsampling_merge o s.

(* ---------- iterator, AS CODED (quantiles_sketch::const_iterator) ---------- *)
Record iter := mkiter { it_level : Z; it_index : Z; it_bp : Z; it_w : Z }.

(* while ((bit_pattern_ & 1) == 0) { weight_ *= 2; ++level_; bit_pattern_ >>= 1; }
   (the loops of the iterator are unbounded in the code; the number of levels is enough fuel) *)
Fixpoint begin_skip (fuel : nat) (level bp w : Z) : iter :=
  match fuel with
  | O => mkiter level 0 bp w
  | S f => if Z.odd bp then mkiter level 0 bp w else begin_skip f (level + 1) (bp / 2) (2 * w)
  end.

Definition it_begin (s : cq) : iter :=
  let bb_count := cn s mod (2 * ck s) in
  let bp := cn s / (2 * ck s) in
  if (bb_count =? 0) && (0 <? bp) then begin_skip (length (clv s)) 0 bp 2 else mkiter (-1) 0 bp 1.

(* (level_, index_) of end() *)
Definition it_end (s : cq) : Z * Z :=
  if cn s / (2 * ck s) =? 0 then (-1, cn s) else (len (clv s), 0).

(* do { ++level_; if (level_ > 0) bit_pattern_ >>= 1; if (bit_pattern_ == 0) return; weight_ *= 2; } while ((bit_pattern_ & 1) == 0) *)
Fixpoint next_level (fuel : nat) (level bp w : Z) : iter :=
  match fuel with
  | O => mkiter level 0 bp w
  | S f =>
      let level' := level + 1 in
      let bp' := if 0 <? level' then bp / 2 else bp in
      if bp' =? 0 then mkiter level' 0 bp' w
      else if Z.odd bp' then mkiter level' 0 bp' (2 * w)
      else next_level f level' bp' (2 * w)
  end.

Definition it_next (s : cq) (i : iter) : iter :=
  let idx := it_index i + 1 in
  if ((it_level i =? -1) && (idx =? len (cbb s)) && (0 <? len (clv s))) || ((0 <=? it_level i) && (idx =? ck s))
  then next_level (S (length (clv s))) (it_level i) (it_bp i) (it_w i)
  else mkiter (it_level i) idx (it_bp i) (it_w i).

Definition it_deref (s : cq) (i : iter) : Z * Z :=
  (if it_level i =? -1 then nth (Z.to_nat (it_index i)) (cbb s) 0
   else nth (Z.to_nat (it_index i)) (nth (Z.to_nat (it_level i)) (clv s) []) 0, it_w i).

(* for (it = begin(); it != end(); ++it) yield *it   — fuel exhausted = the loop ran past the end *)
Fixpoint it_run (fuel : nat) (s : cq) (i : iter) : list (Z * Z) :=
  if (it_level i =? fst (it_end s)) && (it_index i =? snd (it_end s)) then []
  else match fuel with
       | O => [(0, -1)]
       | S f => it_deref s i :: it_run f s (it_next s i)
       end.

Definition retained (s : cq) : Z := len (cbb s) + len (concat (clv s)).

Definition iterate (s : cq) : list (Z * Z) := it_run (Z.to_nat (retained s) + 2) s (it_begin s).

(* what the iterator is supposed to yield: base buffer with weight 1, level i with weight 2^(i+1) *)
Fixpoint lv_spec (w : Z) (lv : list (list Z)) : list (Z * Z) :=
  match lv with
  | [] => []
  | l :: r => map (fun x => (x, w)) l ++ lv_spec (2 * w) r
  end.
Definition iter_spec (s : cq) : list (Z * Z) := map (fun x => (x, 1)) (cbb s) ++ lv_spec 2 (clv s).

(* ---------- sorted view ---------- *)
Definition sort_bb (s : cq) : cq :=
  if csorted s then s
  else mkcq (ck s) (cn s) (cbp s) (isort (cbb s)) (clv s) (cmin s) (cmax s) true.

(* weight <<= 1; if (level.empty()) continue; view.add(level, weight) *)
Fixpoint add_levels (es : list (entry Z)) (w : Z) (lv : list (list Z)) : list (entry Z) :=
  match lv with
  | [] => es
  | l :: r => let w' := 2 * w in
              add_levels (match l with [] => es | _ => sv_add Z Z.ltb es l w' end) w' r
  end.

(* get_sorted_view() of a sketch whose base buffer has been sorted *)
Definition sorted_view (s : cq) : view Z :=
  sv_finish Z (add_levels (sv_add Z Z.ltb [] (cbb s) 1) 1 (clv s)).

(* ---------- line protocol ---------- *)
(* r_log: ghost, every accepted item with its multiplicity, sorted by item (a sketch merged with a copy of itself many
   times has been given 2^40 items: the log must not be a plain list) *)
Record reg := mkreg { r_kind : Z; r_sk : cq; r_log : list (Z * Z) }.

Fixpoint log_add (x c : Z) (l : list (Z * Z)) : list (Z * Z) :=
  match l with
  | [] => [(x, c)]
  | (y, d) :: r => if x <? y then (x, c) :: l else if x =? y then (y, d + c) :: r else (y, d) :: log_add x c r
  end.
Fixpoint log_merge (a b : list (Z * Z)) : list (Z * Z) :=
  match a with
  | [] => b
  | (x, c) :: r => log_merge r (log_add x c b)
  end.
Definition log_len (l : list (Z * Z)) : Z := fold_right (fun e a => snd e + a) 0 l.
Definition log_count (p : Z -> bool) (l : list (Z * Z)) : Z := fold_right (fun e a => (if p (fst e) then snd e else 0) + a) 0 l.
Definition log_min (l : list (Z * Z)) : Z := match l with [] => 0 | e :: _ => fst e end.
Definition log_max (l : list (Z * Z)) : Z := fst (last l (0, 0)).
(* the item at 0-based position i of the sorted expansion *)
Fixpoint log_nth (i : Z) (l : list (Z * Z)) (d : Z) : Z :=
  match l with
  | [] => d
  | (x, c) :: r => if i <? c then x else log_nth (i - c) r x
  end.

Definition st := list (Z * reg).

Fixpoint evens (l : list Z) : list Z :=
  match l with
  | [] => []
  | x :: r => x :: match r with [] => [] | _ :: r' => evens r' end
  end.
Definition odds (l : list Z) : list Z := match l with [] => [] | _ :: r => evens r end.

(* merge sort, used only for the ground-truth order statistics of the S lines *)
Fixpoint msort (fuel : nat) (l : list Z) : list Z :=
  match fuel with
  | O => isort l
  | S f => match l with
           | [] | [_] => l
           | _ => merge2 (msort f (evens l)) (msort f (odds l))
           end
  end.

Fixpoint sort_pairs_ins (p : Z * Z) (l : list (Z * Z)) : list (Z * Z) :=
  match l with
  | [] => [p]
  | q :: r => if (fst p <? fst q) || ((fst p =? fst q) && (snd p <=? snd q)) then p :: l else q :: sort_pairs_ins p r
  end.
Fixpoint sort_pairs (l : list (Z * Z)) : list (Z * Z) :=
  match l with [] => [] | p :: r => sort_pairs_ins p (sort_pairs r) end.

Definition flat_pairs (l : list (Z * Z)) : list Z := flat_map (fun p => [fst p; snd p]) l.

Definition count_if (p : Z -> bool) (l : list Z) : Z := len (filter p l).
Definition lmin (l : list Z) : Z := match l with [] => 0 | x :: r => fold_left Z.min r x end.
Definition lmax (l : list Z) : Z := match l with [] => 0 | x :: r => fold_left Z.max r x end.

Definition with_sk (s : st) (r : Z) (g : reg) (sk : cq) : st := reg_set s r (mkreg (r_kind g) sk (r_log g)).

(* run a monadic operation with the reported outcomes; all of them must be consumed *)
Definition run_m {A} (m : M A) (e : line) (s : st) (f : A -> st * outline) : st * outline :=
  match replay m e with
  | Some (a, []) => f a
  | _ => (s, ([-3], []))
  end.

Definition step (s : st) (o e : line) : st * outline :=
  match o with
  | 1 :: r :: kind :: k :: _ =>                           (* new sketch *)
      if check_k k then (reg_set s r (mkreg kind (cq_new k) []), (ok, []))
      else (s, (refused, []))
  | 2 :: r :: v :: _ =>                                   (* update *)
      match reg_get s r with
      | Some g => run_m (update (r_sk g) v) e s
                    (fun sk => (reg_set s r (mkreg (r_kind g) sk (log_add v 1 (r_log g))), (ok, [])))
      | None => (s, (refused, []))
      end
  | 3 :: r :: _ =>                                        (* update with NaN (double sketches): ignored *)
      match reg_get s r with
      | Some g => (s, (ok, []))
      | None => (s, (refused, []))
      end
  | 4 :: r :: r2 :: mode :: _ =>                          (* merge r2 into r; mode 1: rvalue, r2 is dropped *)
      match reg_get s r, reg_get s r2 with
      | Some g, Some g2 =>
          if (r =? r2) || negb (r_kind g =? r_kind g2) then (s, (refused, [])) else
          run_m (merge (r_sk g) (r_sk g2)) e s
            (fun sk => let s' := reg_set s r (mkreg (r_kind g) sk (log_merge (r_log g2) (r_log g))) in
                       ((if mode =? 1 then reg_del s' r2 else s'), (ok, [])))
      | _, _ => (s, (refused, []))
      end
  | 5 :: r :: _ =>                                        (* observe *)
      match reg_get s r with
      | Some g =>
          let sk := r_sk g in
          let it := sort_pairs (iterate sk) in
          let hdr := [cn sk; compute_retained_items (ck sk) (cn sk); bz (cn sk =? 0); bz (is_estimation_mode sk); ck sk] in
          let mm := if cn sk =? 0 then [] else [cmin sk; cmax sk] in
          (s, (hdr ++ mm ++ [len it] ++ flat_pairs it,
               [log_len (r_log g); log_min (r_log g); log_max (r_log g); retained sk]))
      | None => (s, (refused, []))
      end
  | 6 :: r :: x :: _ =>                                   (* rank numerators: inclusive, exclusive *)
      match reg_get s r with
      | Some g =>
          if cn (r_sk g) =? 0 then (s, (refused, [])) else
          let sk := sort_bb (r_sk g) in
          let v := sorted_view sk in
          (with_sk s r g sk,
           ([rank_num Z Z.ltb v x true; rank_num Z Z.ltb v x false; bz (is_estimation_mode sk)],
            [log_count (fun y => y <=? x) (r_log g); log_count (fun y => y <? x) (r_log g); log_len (r_log g)]))
      | None => (s, (refused, []))
      end
  | 7 :: r :: j :: t :: _ =>                              (* quantiles at rank j / 2^t: inclusive, exclusive *)
      match reg_get s r with
      | Some g =>
          if (cn (r_sk g) =? 0) || (j <? 0) || (2 ^ t <? j) then (s, (refused, [])) else
          let sk := sort_bb (r_sk g) in
          let v := sorted_view sk in
          let n := v_total v in
          match quantile_w Z v (weight_of_rank j t n true) true, quantile_w Z v (weight_of_rank j t n false) false with
          | Some a, Some b =>
              let nl := log_len (r_log g) in
              let wi := weight_of_rank j t nl true in
              let we := weight_of_rank j t nl false in
              (with_sk s r g sk,
               ([a; b; bz (is_estimation_mode sk)],
                [log_nth (Z.max 0 (wi - 1)) (r_log g) 0; log_nth (Z.min we (nl - 1)) (r_log g) 0]))
          | _, _ => (s, (refused, []))
          end
      | None => (s, (refused, []))
      end
  | 8 :: r :: splits =>                                   (* CDF numerators inclusive ++ exclusive *)
      match reg_get s r with
      | Some g =>
          if cn (r_sk g) =? 0 then (s, (refused, [])) else
          let sk := sort_bb (r_sk g) in
          let v := sorted_view sk in
          match cdf_num Z Z.ltb v splits true, cdf_num Z Z.ltb v splits false with
          | Some a, Some b => (with_sk s r g sk, (a ++ b, []))
          | _, _ => (with_sk s r g sk, (refused, []))
          end
      | None => (s, (refused, []))
      end
  | 9 :: r :: _ =>                                        (* CDF with a NaN split point (double sketches): refused *)
      match reg_get s r with
      | Some g =>
          if cn (r_sk g) =? 0 then (s, (refused, [])) else
          (with_sk s r g (sort_bb (r_sk g)), (refused, []))
      | None => (s, (refused, []))
      end
  | 10 :: r :: _ =>                                       (* sorted view listing, ties collapsed *)
      match reg_get s r with
      | Some g =>
          let sk := sort_bb (r_sk g) in
          let v := sorted_view sk in
          (with_sk s r g sk, (v_total v :: flat_pairs (groups Z Z.ltb (v_entries v)), []))
      | None => (s, (refused, []))
      end
  | 13 :: r :: r2 :: _ =>                                 (* r := copy of r2 *)
      match reg_get s r2 with
      | Some g2 => (reg_set s r g2, (ok, []))
      | None => (s, (refused, []))
      end
  | 15 :: r :: r2 :: _ =>                                 (* r = r2 (copy assignment, both exist, same item type) *)
      match reg_get s r, reg_get s r2 with
      | Some g, Some g2 =>
          if (r =? r2) || negb (r_kind g =? r_kind g2) then (s, (refused, [])) else
          (reg_set s r (mkreg (r_kind g) (r_sk g2) (r_log g2)), (ok, []))
      | _, _ => (s, (refused, []))
      end
  | 16 :: r :: r2 :: _ =>                                 (* r = std::move(r2) (move assignment); r2 is dropped *)
      match reg_get s r, reg_get s r2 with
      | Some g, Some g2 =>
          if (r =? r2) || negb (r_kind g =? r_kind g2) then (s, (refused, [])) else
          (reg_del (reg_set s r (mkreg (r_kind g) (r_sk g2) (r_log g2))) r2, (ok, []))
      | _, _ => (s, (refused, []))
      end
  | 97 :: _ => (s, (ok, []))                              (* harness: report leftover scripted outcomes (F only) *)
  | 98 :: _ => (s, (ok, []))                              (* harness: scripted outcomes *)
  | 99 :: _ => (s, (ok, []))                              (* harness: reseed the source *)
  | _ => (s, ([-2], []))
  end.

(* = run_case step [] ops (CqProofs.run_is_run_case), written with an accumulator: the enumeration scripts of C08 have
   several hundred thousand operations per case and the runner must not recurse that deep *)
Fixpoint run_acc (s : st) (ops : list opline) (acc : list outline) : list outline :=
  match ops with
  | [] => rev_append acc []
  | (o, e) :: r => let '(s', out) := step s o e in run_acc s' r (out :: acc)
  end.

Definition run (ops : list opline) : list outline := run_acc [] ops [].
