(* ThetaDefs.v — executable model of the Theta update sketch (no proofs here).
   Mirrors theta/include/theta_update_sketch_base_impl.hpp (hash table with stride probing, resize, rebuild,
   trim, reset, hash_and_screen) and theta_sketch_impl.hpp (update overloads, get_theta64, is_estimation_mode,
   is_ordered, compact).  Polymorphic in a payload type [S] attached to each key ([S = unit] for the Theta
   sketch; a summary type for tuple sketches): an update carries a payload-update function
   [f : option S -> S] ([f None] creates the payload of a new key, [f (Some v)] updates an existing one).
   std::nth_element is an abstract function [sel] (its postcondition is KSmallest.nth_post); the executable
   instance sorts by key. *)
From Coq Require Import ZArith NArith List Bool.
From DS Require Import Word Murmur3 RunnerLib OpenAddr KSmallest Canon.
Import ListNotations.
Local Open Scope N_scope.

Section Sketch.
  Variable S : Type.
  Variable sel : nat -> list (N * S) -> list (N * S).   (* sel k l = l after nth_element(l, l + k, l + |l|) *)

  Record sketch := mk_sketch {
    lg_cur : N;            (* lg_cur_size_ *)
    lg_nom : N;            (* lg_nom_size_ *)
    rf : N;                (* rf_ (0..3 = X1..X8) *)
    theta0 : N;            (* starting_theta_from_p(p_) *)
    theta : N;             (* theta_ *)
    is_empty : bool;       (* is_empty_ *)
    num : N;               (* num_entries_ *)
    slots : table S        (* entries_ : 2^lg_cur slots, None = key 0 *)
  }.

  (* get_stride / the index computation of find *)
  Definition stride (lg key : N) : N := 2 * ((key / 2 ^ lg) mod 128) + 1.
  Definition tprobe (lg key : N) (j : nat) : nat := probe_idx lg (key mod 2 ^ lg) (stride lg key) j.
  Definition tsize (lg : N) : nat := N.to_nat (2 ^ lg).
  Definition tfind (lg : N) (t : table S) (key : N) : option (nat * bool) := find (tsize lg) (tprobe lg) t key.
  Definition trehash (lg : N) (l : list (N * S)) : table S := rehash (tsize lg) (tprobe lg) l.

  (* get_capacity: floor(0.5 * 2^lg) below the nominal size, floor(15/16 * 2^lg) in the full-size table *)
  Definition capacity (lgc lgn : N) : N := if lgc <=? lgn then 2 ^ lgc / 2 else 15 * 2 ^ lgc / 16.

  (* theta_build_helper::starting_sub_multiple(lg_nom + 1, MIN_LG_K = 5, rf) *)
  Definition start_lg (lgn r : N) : N :=
    let tgt := lgn + 1 in
    if tgt <=? 5 then 5 else if r =? 0 then tgt else (tgt - 5) mod r + 5.

  Definition new_sketch (lgn r th0 : N) : sketch :=
    let lgc := start_lg lgn r in
    mk_sketch lgc lgn r th0 th0 true 0 (repeat None (tsize lgc)).

  Definition with_table (s : sketch) (n : N) (t : table S) : sketch :=
    mk_sketch (lg_cur s) (lg_nom s) (rf s) (theta0 s) (theta s) (is_empty s) n t.

  Definition set_nonempty (s : sketch) : sketch :=
    mk_sketch (lg_cur s) (lg_nom s) (rf s) (theta0 s) (theta s) false (num s) (slots s).

  Definition resize (s : sketch) : sketch :=
    let lg' := N.min (lg_cur s + rf s) (lg_nom s + 1) in
    mk_sketch lg' (lg_nom s) (rf s) (theta0 s) (theta s) (is_empty s) (num s)
              (trehash lg' (occupied (slots s))).

  Definition knom (s : sketch) : nat := N.to_nat (2 ^ lg_nom s).

  (* consolidate_non_empty; nth_element at nominal_size; theta := key there; keep the first nominal_size *)
  Definition rebuild (s : sketch) : sketch :=
    let l' := sel (knom s) (occupied (slots s)) in
    match nth_error l' (knom s) with
    | Some p =>
        mk_sketch (lg_cur s) (lg_nom s) (rf s) (theta0 s) (fst p) (is_empty s) (2 ^ lg_nom s)
                  (trehash (lg_cur s) (firstn (knom s) l'))
    | None => s            (* num <= nominal size: undefined behaviour in the code; proved unreachable *)
    end.

  Definition insert (s : sketch) (i : nat) (e : N * S) : sketch :=
    let s1 := with_table s (num s + 1) (set_nth i (Some e) (slots s)) in
    if capacity (lg_cur s) (lg_nom s) <? num s1 then
      if lg_cur s <=? lg_nom s then resize s1 else rebuild s1
    else s1.

  (* update(data, length) after hashing: [h] = compute_hash = h1 >> 1 *)
  Definition update (s : sketch) (h : N) (f : option S -> S) : sketch :=
    let s0 := set_nonempty s in                                  (* is_empty_ = false, before screening *)
    if (theta s <=? h) || (h =? 0) then s0 else
    match tfind (lg_cur s) (slots s) h with
    | Some (i, true) =>
        match nth i (slots s) None with
        | Some (_, v) => with_table s0 (num s) (set_nth i (Some (h, f (Some v))) (slots s))
        | None => s0
        end
    | Some (i, false) => insert s0 i (h, f None)
    | None => s0           (* "key not found and no empty slots": proved unreachable *)
    end.

  Definition trim (s : sketch) : sketch := if 2 ^ lg_nom s <? num s then rebuild s else s.

  Definition reset (s : sketch) : sketch := new_sketch (lg_nom s) (rf s) (theta0 s).

  (* observers *)
  Definition get_theta64 (s : sketch) : N := if is_empty s then max_theta else theta s.
  Definition is_estimation_mode (s : sketch) : bool := (get_theta64 s <? max_theta) && negb (is_empty s).
  Definition is_ordered (s : sketch) : bool := negb (1 <? num s).
  Definition entries (s : sketch) : list (N * S) := occupied (slots s).
  Definition keys (s : sketch) : list N := map fst (entries s).

  Record compact := mk_compact {
    c_theta : N; c_empty : bool; c_ordered : bool; c_entries : list (N * S) }.

  (* compact_theta_sketch(const Other& other, bool ordered) for an update sketch and for a compact one *)
  Definition compact_of (s : sketch) (ordered : bool) : compact :=
    mk_compact (get_theta64 s) (is_empty s) (is_ordered s || ordered)
      (if is_empty s then []
       else if ordered && negb (is_ordered s) then msort fst (entries s) else entries s).

  Definition compact_of_compact (c : compact) (ordered : bool) : compact :=
    mk_compact (c_theta c) (c_empty c) (c_ordered c || ordered)
      (if c_empty c then []
       else if ordered && negb (c_ordered c) then msort fst (c_entries c) else c_entries c).

  (* histories *)
  Inductive op :=
  | OpUpdate (hash64 : N) (f : option S -> S)    (* an update whose input hashes to hash64 (h1 of Murmur) *)
  | OpTrim
  | OpReset.

  Definition step_op (s : sketch) (o : op) : sketch :=
    match o with
    | OpUpdate h64 f => update s (h64 / 2) f
    | OpTrim => trim s
    | OpReset => reset s
    end.

  Definition run_ops (lgn r th0 : N) (ops : list op) : sketch := fold_left step_op ops (new_sketch lgn r th0).
End Sketch.

Arguments lg_cur {S}. Arguments lg_nom {S}. Arguments rf {S}. Arguments theta0 {S}. Arguments theta {S}.
Arguments is_empty {S}. Arguments num {S}. Arguments slots {S}.
Arguments c_theta {S}. Arguments c_empty {S}. Arguments c_ordered {S}. Arguments c_entries {S}.
Arguments OpUpdate {S}. Arguments OpTrim {S}. Arguments OpReset {S}.

(* executable instance of nth_element: sort by key *)
Definition sel_sort {S} (k : nat) (l : list (N * S)) : list (N * S) := msort fst l.

(* ---- Theta sketch instance and line protocol ---- *)
Definition tsk := sketch unit.
Definition tcompact := compact unit.
Definition unit_upd (_ : option unit) : unit := tt.

Inductive reg := RU (seed : N) (s : tsk) | RC (c : tcompact).

Definition hash64 (seed : N) (bytes : list N) : N := fst (murmur3_x64_128 bytes seed).

Local Open Scope Z_scope.

Definition summary_u (s : tsk) : line :=
  [Nz (get_theta64 unit s); bz (is_empty s); bz (is_estimation_mode unit s); Nz (num s)].
Definition summary_c (c : tcompact) : line :=
  [Nz (c_theta c); bz (c_empty c); bz ((c_theta c <? max_theta)%N && negb (c_empty c));
   nz (length (c_entries c))].
Definition summary (g : reg) : line := match g with RU _ s => summary_u s | RC c => summary_c c end.

Definition sorted_keys (g : reg) : line :=
  map Nz (sortN (match g with RU _ s => keys unit s | RC c => map fst (c_entries c) end)).

Definition step (s : list (Z * reg)) (o e : line) : list (Z * reg) * outline :=
  match o with
  | 1 :: r :: lgk :: rfz :: pbits :: seed :: _ =>       (* builder: lg_k, resize factor, p (float bits), seed *)
      if (5 <=? lgk) && (lgk <=? 26) && (0 <=? rfz) && (rfz <=? 3) && (0 <=? pbits) && p_accepted (zN pbits) then
        let th0 := starting_theta (zN pbits) in
        let g := RU (z_to_u64 seed) (new_sketch unit (zN lgk) (zN rfz) th0) in
        (reg_set s r g, (summary g, [Nz th0; Nz (2 ^ zN lgk)]))
      else (s, (refused, []))
  | 2 :: r :: kind :: args =>                           (* update(<type>) ; S = the hash offered *)
      match reg_get s r with
      | Some (RU seed k) =>
          match canon_input kind args with
          | None => (s, (summary (RU seed k), []))       (* ignored: not even is_empty changes *)
          | Some bytes =>
              let h := (hash64 seed bytes / 2)%N in
              let g := RU seed (update unit sel_sort k h unit_upd) in
              (reg_set s r g, (summary g, [Nz h]))
          end
      | _ => (s, (refused, []))
      end
  | 3 :: r :: _ =>                                      (* trim *)
      match reg_get s r with
      | Some (RU seed k) => let g := RU seed (trim unit sel_sort k) in (reg_set s r g, (summary g, []))
      | _ => (s, (refused, []))
      end
  | 4 :: r :: _ =>                                      (* reset *)
      match reg_get s r with
      | Some (RU seed k) => let g := RU seed (reset unit k) in (reg_set s r g, (summary g, []))
      | _ => (s, (refused, []))
      end
  | 5 :: r :: r2 :: ord :: _ =>                         (* r2 := compact(r, ordered) *)
      match reg_get s r with
      | Some (RU _ k) => let g := RC (compact_of unit k (negb (ord =? 0))) in (reg_set s r2 g, (summary g, []))
      | Some (RC c) => let g := RC (compact_of_compact unit c (negb (ord =? 0))) in (reg_set s r2 g, (summary g, []))
      | None => (s, (refused, []))
      end
  | 6 :: r :: r2 :: _ =>                                (* r2 := copy of r *)
      match reg_get s r with
      | Some g => (reg_set s r2 g, (summary g, []))
      | None => (s, (refused, []))
      end
  | 7 :: r :: _ =>                                      (* query: summary and the sorted retained hashes *)
      match reg_get s r with
      | Some g => (s, (summary g ++ sorted_keys g, []))
      | None => (s, (refused, []))
      end
  | _ => (s, ([-2], []))
  end.

Definition run (ops : list opline) : list outline := run_case step [] ops.
