(* LedgerHllProofs.v — the block discipline of LedgerHll.v: for ANY sequence of shapes every allocation / release is accepted by the
   ledger (each block released once, with its size), the ledger always holds exactly the blocks of the current shape, and the
   destructor leaves it empty. *)
From Coq Require Import ZArith NArith List Bool Lia.
From DS Require Import LedgerCore LedgerCoreProofs LedgerHll.
Import ListNotations.
Local Open Scope N_scope.

Definition ent (p : N * N) : N * blk := (fst p, mkblk true (snd p) 0 0).
Definition keys_lt (bs : list (N * N)) (n : N) : Prop := Forall (fun p => fst p < n) bs.

Definition HInv (s : hsk) (L : ledger) : Prop :=
  L = map ent (h_blocks s) /\ NoDup (map fst (h_blocks s)) /\ keys_lt (h_blocks s) (h_nxt s).

Lemma lookup_ent_none bs n : keys_lt bs n -> lookup (map ent bs) n = None.
Proof.
  induction 1 as [|[b sz] t Hb Ht IH]; simpl; auto. simpl in Hb.
  destruct (N.eqb_spec b n); [lia|exact IH].
Qed.

Lemma number_keys : forall sizes n0, Forall (fun p => n0 <= fst p /\ fst p < n0 + N.of_nat (length sizes)) (number n0 sizes).
Proof.
  induction sizes as [|s t IH]; intros n0; simpl; constructor.
  - simpl. lia.
  - eapply Forall_impl; [|apply (IH (n0 + 1))]. simpl. intros p H. lia.
Qed.

Lemma number_nodup : forall sizes n0, NoDup (map fst (number n0 sizes)).
Proof.
  induction sizes as [|s t IH]; intros n0; simpl; constructor; auto.
  intros Hin. apply in_map_iff in Hin. destruct Hin as (p & Hp & Hin).
  pose proof (number_keys t (n0 + 1)) as HF. rewrite Forall_forall in HF. specialize (HF p Hin). lia.
Qed.

Lemma number_length sizes n0 : length (number n0 sizes) = length sizes.
Proof. revert n0; induction sizes; intros; simpl; auto. Qed.

(* allocating fresh, increasing ids on top of a ledger whose ids are all smaller *)
Lemma allocs_ok X : forall sizes n0 old, keys_lt old n0 ->
  apply_all X (map ent old) (allocs (number n0 sizes)) = Some (map ent (rev (number n0 sizes) ++ old)).
Proof.
  induction sizes as [|s t IH]; intros n0 old Hlt; [reflexivity|].
  unfold allocs. cbn [number map apply_all fst snd]. fold (allocs (number (n0 + 1) t)).
  rewrite apply_alloc by (now apply lookup_ent_none).
  change ((n0, mkblk true s 0 0) :: map ent old) with (map ent ((n0, s) :: old)).
  rewrite (IH (n0 + 1) ((n0, s) :: old)).
  - f_equal. f_equal. cbn [rev]. now rewrite <- app_assoc.
  - constructor; [simpl; lia|]. eapply Forall_impl; [|exact Hlt]. simpl. intros; lia.
Qed.

Lemma lookup_app_notin P b Q : ~ In b (map fst P) -> lookup (map ent P ++ Q) b = lookup Q b.
Proof.
  induction P as [|[k sz] t IH]; simpl; auto. intros H.
  destruct (N.eqb_spec k b); [exfalso; apply H; auto|]. apply IH. tauto.
Qed.

Lemma remove_app_notin P b Q : ~ In b (map fst P) -> remove (map ent P ++ Q) b = map ent P ++ remove Q b.
Proof.
  induction P as [|[k sz] t IH]; simpl; auto. intros H.
  destruct (N.eqb_spec k b); [exfalso; apply H; auto|]. f_equal. apply IH. tauto.
Qed.

Lemma remove_ent_notin Q b : ~ In b (map fst Q) -> remove (map ent Q) b = map ent Q.
Proof.
  induction Q as [|[k sz] t IH]; simpl; auto. intros H.
  destruct (N.eqb_spec k b); [exfalso; apply H; auto|]. f_equal. apply IH. tauto.
Qed.

(* releasing every old block, each with its own size *)
Lemma deallocs_ok X : forall Q P, NoDup (map fst Q) -> (forall b, In b (map fst Q) -> ~ In b (map fst P)) ->
  apply_all X (map ent P ++ map ent Q) (deallocs Q) = Some (map ent P).
Proof.
  induction Q as [|[b sz] t IH]; intros P Hnd Hdis; unfold deallocs; cbn [map apply_all fst snd].
  - now rewrite app_nil_r.
  - fold (deallocs t). inversion Hnd as [|? ? Hnin Hnd']; subst.
    assert (HbP : ~ In b (map fst P)) by (apply Hdis; simpl; auto).
    rewrite (apply_dealloc X _ b (mkblk true sz 0 0) sz).
    + rewrite remove_app_notin by assumption. unfold ent at 2. cbn [fst snd]. rewrite remove_hd. rewrite remove_ent_notin by assumption.
      apply IH; auto. intros b' Hb'. apply Hdis. simpl. auto.
    + rewrite lookup_app_notin by assumption. unfold ent at 1. cbn [fst snd map]. apply lookup_hd.
    + reflexivity.
    + apply none_true_rng. lia.
Qed.

Lemma build_ok X union tab sh s es : hll_build union tab sh = (s, es) -> exists L, apply_all X [] es = Some L /\ HInv s L.
Proof.
  unfold hll_build. intros E; injection E as <- <-.
  pose proof (allocs_ok X (shape_sizes tab sh) 0 [] (Forall_nil _)) as H. simpl map in H. rewrite app_nil_r in H.
  eexists. split; [exact H|]. unfold HInv. cbn [h_blocks h_nxt]. split; [reflexivity|]. split.
  - rewrite map_rev. apply NoDup_rev. apply number_nodup.
  - unfold keys_lt. apply Forall_rev. eapply Forall_impl; [|apply number_keys]. simpl. rewrite number_length. intros; lia.
Qed.

Lemma reshape_ok X s L sh s' es : HInv s L -> hll_reshape s sh = (s', es) -> exists L', apply_all X L es = Some L' /\ HInv s' L'.
Proof.
  intros (-> & Hnd & Hlt). unfold hll_reshape. destruct (shape_eqb (h_shape s) sh).
  - intros E; injection E as <- <-. eexists. split; [reflexivity|]. unfold HInv. auto.
  - intros E; injection E as <- <-.
    set (bs := number (h_nxt s) (shape_sizes (h_tab s) sh)).
    pose proof (allocs_ok X (shape_sizes (h_tab s) sh) (h_nxt s) (h_blocks s) Hlt) as HA. fold bs in HA.
    rewrite (apply_all_app X _ _ _ _ HA). rewrite map_app.
    rewrite (deallocs_ok X (h_blocks s) (rev bs) Hnd).
    + eexists. split; [reflexivity|]. unfold HInv. cbn [h_blocks h_nxt]. split; [reflexivity|]. split.
      * rewrite map_rev. apply NoDup_rev. apply number_nodup.
      * unfold keys_lt. apply Forall_rev. eapply Forall_impl; [|apply number_keys]. simpl. unfold bs. rewrite number_length. intros; lia.
    + intros b Hb Hin. rewrite map_rev, <- in_rev in Hin. apply in_map_iff in Hin. destruct Hin as (p & <- & Hp).
      pose proof (number_keys (shape_sizes (h_tab s) sh) (h_nxt s)) as HF. rewrite Forall_forall in HF. specialize (HF p Hp).
      apply in_map_iff in Hb. destruct Hb as (q & Hq & Hqin). unfold keys_lt in Hlt. rewrite Forall_forall in Hlt. specialize (Hlt q Hqin). lia.
Qed.

Lemma hll_destroy_ok X s L : HInv s L -> apply_all X L (hll_destroy s) = Some [].
Proof.
  intros (-> & Hnd & _). unfold hll_destroy.
  pose proof (deallocs_ok X (h_blocks s) [] Hnd (fun _ _ H => H)) as H. simpl in H. exact H.
Qed.

Lemma hll_moved_from_ok s : HInv (hll_moved_from s) [].
Proof. unfold HInv. simpl. repeat split; constructor. Qed.

(* no constructed items; the live bytes are the bytes of the current shape *)
Lemma hll_live s L : HInv s L -> live_slots L = 0 /\ item_slots L = hll_bytes s.
Proof.
  intros (-> & _). unfold hll_bytes. induction (h_blocks s) as [|[b sz] t IH]; simpl; auto.
  destruct IH as [I1 I2]. split.
  - unfold live_slots in *. simpl. rewrite count_true_rng by lia. rewrite I1. lia.
  - unfold item_slots in *. simpl. rewrite I2. lia.
Qed.
