(* WireConstantsDoc.v — the documented wire-format constants (family ids, serial versions, preamble sizes, byte/field
   offsets, flag bit positions and masks) of every serializable sketch family, as published in the layout comments of the
   headers at the pinned baseline and in the DataSketches cross-language format documentation. This file is the CONTRACT side:
   it is hand-maintained and never regenerated; gen/WireConstantsGen.v is regenerated from the headers on every run and
   Properties_C10_consts.v proves that every documented constant still exists in the code with the documented value. *)
From Coq Require Import NArith String List.
Import ListNotations.
Local Open Scope string_scope.

Definition documented_constants : list (string * N) := [
  ("kll/kll_sketch.EMPTY_SIZE_BYTES", 8%N);
  ("kll/kll_sketch.DATA_START", 20%N);
  ("kll/kll_sketch.SERIAL_VERSION_1", 1%N);
  ("kll/kll_sketch.SERIAL_VERSION_2", 2%N);
  ("kll/kll_sketch.FAMILY", 15%N);
  ("kll/kll_sketch.PREAMBLE_INTS_SHORT", 2%N);
  ("kll/kll_sketch.PREAMBLE_INTS_FULL", 5%N);
  ("kll/kll_sketch.flags.IS_EMPTY", 0%N);
  ("kll/kll_sketch.flags.IS_LEVEL_ZERO_SORTED", 1%N);
  ("kll/kll_sketch.flags.IS_SINGLE_ITEM", 2%N);
  ("fi/frequent_items_sketch.SERIAL_VERSION", 1%N);
  ("fi/frequent_items_sketch.FAMILY_ID", 10%N);
  ("fi/frequent_items_sketch.PREAMBLE_LONGS_EMPTY", 1%N);
  ("fi/frequent_items_sketch.PREAMBLE_LONGS_NONEMPTY", 4%N);
  ("fi/frequent_items_sketch.flags.IS_EMPTY_1", 0%N);
  ("fi/frequent_items_sketch.flags.IS_EMPTY_2", 2%N);
  ("count/count_min.PREAMBLE_LONGS_SHORT", 2%N);
  ("count/count_min.PREAMBLE_LONGS_FULL", 3%N);
  ("count/count_min.SERIAL_VERSION_1", 1%N);
  ("count/count_min.FAMILY_ID", 18%N);
  ("count/count_min.flags.IS_EMPTY", 0%N);
  ("density/density_sketch.PREAMBLE_INTS_SHORT", 3%N);
  ("density/density_sketch.PREAMBLE_INTS_LONG", 6%N);
  ("density/density_sketch.FAMILY_ID", 19%N);
  ("density/density_sketch.SERIAL_VERSION", 1%N);
  ("density/density_sketch.LEVELS_ARRAY_START", 5%N);
  ("density/density_sketch.flags.RESERVED0", 0%N);
  ("density/density_sketch.flags.RESERVED1", 1%N);
  ("density/density_sketch.flags.IS_EMPTY", 2%N);
  ("tdigest/tdigest.PREAMBLE_LONGS_EMPTY_OR_SINGLE", 1%N);
  ("tdigest/tdigest.PREAMBLE_LONGS_MULTIPLE", 2%N);
  ("tdigest/tdigest.SERIAL_VERSION", 1%N);
  ("tdigest/tdigest.SKETCH_TYPE", 20%N);
  ("tdigest/tdigest.COMPAT_DOUBLE", 1%N);
  ("tdigest/tdigest.COMPAT_FLOAT", 2%N);
  ("tdigest/tdigest.flags.IS_EMPTY", 0%N);
  ("tdigest/tdigest.flags.IS_SINGLE_VALUE", 1%N);
  ("tdigest/tdigest.flags.REVERSE_MERGE", 2%N);
  ("req/req_sketch.SERIAL_VERSION", 1%N);
  ("req/req_sketch.FAMILY", 17%N);
  ("req/req_sketch.PREAMBLE_SIZE_BYTES", 8%N);
  ("req/req_sketch.flags.RESERVED1", 0%N);
  ("req/req_sketch.flags.RESERVED2", 1%N);
  ("req/req_sketch.flags.IS_EMPTY", 2%N);
  ("req/req_sketch.flags.IS_HIGH_RANK", 3%N);
  ("req/req_sketch.flags.RAW_ITEMS", 4%N);
  ("req/req_sketch.flags.IS_LEVEL_ZERO_SORTED", 5%N);
  ("filters/bloom_filter.DIRTY_BITS_VALUE", 18446744073709551615%N);
  ("filters/bloom_filter.MAX_HEADER_SIZE_BYTES", 32%N);
  ("filters/bloom_filter.BIT_ARRAY_LENGTH_OFFSET_BYTES", 16%N);
  ("filters/bloom_filter.NUM_BITS_SET_OFFSET_BYTES", 24%N);
  ("filters/bloom_filter.BIT_ARRAY_OFFSET_BYTES", 32%N);
  ("filters/bloom_filter.PREAMBLE_LONGS_EMPTY", 3%N);
  ("filters/bloom_filter.PREAMBLE_LONGS_STANDARD", 4%N);
  ("filters/bloom_filter.FAMILY_ID", 21%N);
  ("filters/bloom_filter.SER_VER", 1%N);
  ("filters/bloom_filter.EMPTY_FLAG_MASK", 4%N);
  ("quantiles/quantiles_sketch.EMPTY_SIZE_BYTES", 8%N);
  ("quantiles/quantiles_sketch.SERIAL_VERSION_1", 1%N);
  ("quantiles/quantiles_sketch.SERIAL_VERSION_2", 2%N);
  ("quantiles/quantiles_sketch.SERIAL_VERSION", 3%N);
  ("quantiles/quantiles_sketch.FAMILY", 8%N);
  ("quantiles/quantiles_sketch.PREAMBLE_LONGS_SHORT", 1%N);
  ("quantiles/quantiles_sketch.PREAMBLE_LONGS_FULL", 2%N);
  ("quantiles/quantiles_sketch.DATA_START", 16%N);
  ("quantiles/quantiles_sketch.flags.RESERVED0", 0%N);
  ("quantiles/quantiles_sketch.flags.RESERVED1", 1%N);
  ("quantiles/quantiles_sketch.flags.IS_EMPTY", 2%N);
  ("quantiles/quantiles_sketch.flags.IS_COMPACT", 3%N);
  ("quantiles/quantiles_sketch.flags.IS_SORTED", 4%N);
  ("tuple/tuple_sketch.SERIAL_VERSION_LEGACY", 1%N);
  ("tuple/tuple_sketch.SERIAL_VERSION", 3%N);
  ("tuple/tuple_sketch.SKETCH_FAMILY", 9%N);
  ("tuple/tuple_sketch.SKETCH_TYPE", 1%N);
  ("tuple/tuple_sketch.SKETCH_TYPE_LEGACY", 5%N);
  ("tuple/tuple_sketch.flags.IS_BIG_ENDIAN", 0%N);
  ("tuple/tuple_sketch.flags.IS_READ_ONLY", 1%N);
  ("tuple/tuple_sketch.flags.IS_EMPTY", 2%N);
  ("tuple/tuple_sketch.flags.IS_COMPACT", 3%N);
  ("tuple/tuple_sketch.flags.IS_ORDERED", 4%N);
  ("tuple/array_tuple_sketch.SERIAL_VERSION", 1%N);
  ("tuple/array_tuple_sketch.SKETCH_FAMILY", 9%N);
  ("tuple/array_tuple_sketch.SKETCH_TYPE", 3%N);
  ("tuple/array_tuple_sketch.flags.UNUSED1", 0%N);
  ("tuple/array_tuple_sketch.flags.UNUSED2", 1%N);
  ("tuple/array_tuple_sketch.flags.IS_EMPTY", 2%N);
  ("tuple/array_tuple_sketch.flags.HAS_ENTRIES", 3%N);
  ("tuple/array_tuple_sketch.flags.IS_ORDERED", 4%N);
  ("hll/HllUtil.SER_VER", 1%N);
  ("hll/HllUtil.FAMILY_ID", 7%N);
  ("hll/HllUtil.EMPTY_FLAG_MASK", 4%N);
  ("hll/HllUtil.COMPACT_FLAG_MASK", 8%N);
  ("hll/HllUtil.OUT_OF_ORDER_FLAG_MASK", 16%N);
  ("hll/HllUtil.FULL_SIZE_FLAG_MASK", 32%N);
  ("hll/HllUtil.PREAMBLE_INTS_BYTE", 0%N);
  ("hll/HllUtil.SER_VER_BYTE", 1%N);
  ("hll/HllUtil.FAMILY_BYTE", 2%N);
  ("hll/HllUtil.LG_K_BYTE", 3%N);
  ("hll/HllUtil.LG_ARR_BYTE", 4%N);
  ("hll/HllUtil.FLAGS_BYTE", 5%N);
  ("hll/HllUtil.LIST_COUNT_BYTE", 6%N);
  ("hll/HllUtil.HLL_CUR_MIN_BYTE", 6%N);
  ("hll/HllUtil.MODE_BYTE", 7%N);
  ("hll/HllUtil.LIST_INT_ARR_START", 8%N);
  ("hll/HllUtil.LIST_PREINTS", 2%N);
  ("hll/HllUtil.HASH_SET_COUNT_INT", 8%N);
  ("hll/HllUtil.HASH_SET_INT_ARR_START", 12%N);
  ("hll/HllUtil.HASH_SET_PREINTS", 3%N);
  ("hll/HllUtil.HLL_PREINTS", 10%N);
  ("hll/HllUtil.HLL_BYTE_ARR_START", 40%N);
  ("hll/HllUtil.HIP_ACCUM_DOUBLE", 8%N);
  ("hll/HllUtil.KXQ0_DOUBLE", 16%N);
  ("hll/HllUtil.KXQ1_DOUBLE", 24%N);
  ("hll/HllUtil.CUR_MIN_COUNT_INT", 32%N);
  ("hll/HllUtil.AUX_COUNT_INT", 36%N);
  ("hll/HllUtil.EMPTY_SKETCH_SIZE_BYTES", 8%N);
  ("hll/HllUtil.KEY_BITS_26", 26%N);
  ("hll/HllUtil.VAL_BITS_6", 6%N);
  ("hll/HllUtil.MIN_LOG_K", 4%N);
  ("hll/HllUtil.MAX_LOG_K", 21%N);
  ("hll/HllUtil.AUX_TOKEN", 15%N);
  ("theta/compact_theta_sketch_parser.COMPACT_SKETCH_PRE_LONGS_BYTE", 0%N);
  ("theta/compact_theta_sketch_parser.COMPACT_SKETCH_SERIAL_VERSION_BYTE", 1%N);
  ("theta/compact_theta_sketch_parser.COMPACT_SKETCH_TYPE_BYTE", 2%N);
  ("theta/compact_theta_sketch_parser.COMPACT_SKETCH_FLAGS_BYTE", 5%N);
  ("theta/compact_theta_sketch_parser.COMPACT_SKETCH_SEED_HASH_U16", 3%N);
  ("theta/compact_theta_sketch_parser.COMPACT_SKETCH_SINGLE_ENTRY_U64", 1%N);
  ("theta/compact_theta_sketch_parser.COMPACT_SKETCH_NUM_ENTRIES_U32", 2%N);
  ("theta/compact_theta_sketch_parser.COMPACT_SKETCH_ENTRIES_EXACT_U64", 2%N);
  ("theta/compact_theta_sketch_parser.COMPACT_SKETCH_ENTRIES_ESTIMATION_U64", 3%N);
  ("theta/compact_theta_sketch_parser.COMPACT_SKETCH_THETA_U64", 2%N);
  ("theta/compact_theta_sketch_parser.COMPACT_SKETCH_V4_ENTRY_BITS_BYTE", 3%N);
  ("theta/compact_theta_sketch_parser.COMPACT_SKETCH_V4_NUM_ENTRIES_BYTES_BYTE", 4%N);
  ("theta/compact_theta_sketch_parser.COMPACT_SKETCH_V4_THETA_U64", 1%N);
  ("theta/compact_theta_sketch_parser.COMPACT_SKETCH_V4_PACKED_DATA_EXACT_BYTE", 8%N);
  ("theta/compact_theta_sketch_parser.COMPACT_SKETCH_V4_PACKED_DATA_ESTIMATION_BYTE", 16%N);
  ("theta/compact_theta_sketch_parser.COMPACT_SKETCH_IS_EMPTY_FLAG", 2%N);
  ("theta/compact_theta_sketch_parser.COMPACT_SKETCH_IS_ORDERED_FLAG", 4%N);
  ("theta/compact_theta_sketch_parser.COMPACT_SKETCH_TYPE", 3%N);
  ("theta/theta_sketch.UNCOMPRESSED_SERIAL_VERSION", 3%N);
  ("theta/theta_sketch.COMPRESSED_SERIAL_VERSION", 4%N);
  ("theta/theta_sketch.SKETCH_TYPE", 3%N);
  ("theta/theta_sketch.flags.IS_BIG_ENDIAN", 0%N);
  ("theta/theta_sketch.flags.IS_READ_ONLY", 1%N);
  ("theta/theta_sketch.flags.IS_EMPTY", 2%N);
  ("theta/theta_sketch.flags.IS_COMPACT", 3%N);
  ("theta/theta_sketch.flags.IS_ORDERED", 4%N);
  ("cpc/cpc_sketch.SERIAL_VERSION", 1%N);
  ("cpc/cpc_sketch.FAMILY", 16%N);
  ("cpc/cpc_sketch.flags.IS_BIG_ENDIAN", 0%N);
  ("cpc/cpc_sketch.flags.IS_COMPRESSED", 1%N);
  ("cpc/cpc_sketch.flags.HAS_HIP", 2%N);
  ("cpc/cpc_sketch.flags.HAS_TABLE", 3%N);
  ("cpc/cpc_sketch.flags.HAS_WINDOW", 4%N);
  ("sampling/var_opt_sketch.PREAMBLE_LONGS_EMPTY", 1%N);
  ("sampling/var_opt_sketch.PREAMBLE_LONGS_WARMUP", 3%N);
  ("sampling/var_opt_sketch.PREAMBLE_LONGS_FULL", 4%N);
  ("sampling/var_opt_sketch.SER_VER", 2%N);
  ("sampling/var_opt_sketch.FAMILY_ID", 13%N);
  ("sampling/var_opt_sketch.EMPTY_FLAG_MASK", 4%N);
  ("sampling/var_opt_sketch.GADGET_FLAG_MASK", 128%N);
  ("sampling/var_opt_union.PREAMBLE_LONGS_EMPTY", 1%N);
  ("sampling/var_opt_union.PREAMBLE_LONGS_NON_EMPTY", 4%N);
  ("sampling/var_opt_union.SER_VER", 2%N);
  ("sampling/var_opt_union.FAMILY_ID", 14%N);
  ("sampling/var_opt_union.EMPTY_FLAG_MASK", 4%N);
  ("sampling/ebpps_sketch.PREAMBLE_LONGS_EMPTY", 1%N);
  ("sampling/ebpps_sketch.PREAMBLE_LONGS_FULL", 5%N);
  ("sampling/ebpps_sketch.SER_VER", 1%N);
  ("sampling/ebpps_sketch.FAMILY_ID", 19%N);
  ("sampling/ebpps_sketch.EMPTY_FLAG_MASK", 4%N);
  ("common/common_defs.DEFAULT_SEED", 9001%N)
].

Fixpoint lookup (k : string) (l : list (string * N)) : option N :=
  match l with
  | [] => None
  | (k', v) :: t => if String.eqb k k' then Some v else lookup k t
  end.

(* every documented constant is present in [code] with the documented value *)
Definition conforms (code doc : list (string * N)) : bool :=
  forallb (fun kv => match lookup (fst kv) code with Some v => N.eqb v (snd kv) | None => false end) doc.

Lemma conforms_spec code doc : conforms code doc = true ->
  forall k v, In (k, v) doc -> lookup k code = Some v.
Proof.
  unfold conforms. intros H k v Hin. rewrite forallb_forall in H. specialize (H (k, v) Hin). cbn [fst snd] in H.
  destruct (lookup k code) as [w|]; [|discriminate]. apply N.eqb_eq in H. subst. reflexivity.
Qed.
