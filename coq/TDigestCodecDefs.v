(* TDigestCodecDefs.v — executable model of the tdigest<double> image (tdigest/include/tdigest_impl.hpp): the writer serialize()
   (byte vector and stream write the same image) and the readers deserialize(bytes, size) / deserialize(istream), which accept
   the native little-endian format and the two big-endian formats of the reference implementation.  No proofs here.

   Native layout (little endian), T = double, centroid = { double mean; uint64 weight } = 16 bytes:
     byte 0 preamble longs (1 if empty or single value, else 2) | 1 serial version = 1 | 2 sketch type = 20 | 3..4 k (uint16)
     5 flags (bit 0 IS_EMPTY, bit 1 IS_SINGLE_VALUE, bit 2 REVERSE_MERGE) | 6..7 unused
     empty: nothing more.   single value (total weight 1): 8..15 the value (min_).
     otherwise: 8..11 number of centroids | 12..15 number of buffered values | 16..23 min | 24..31 max
                | 16 bytes per centroid (mean, weight) | 8 bytes per buffered value.
   Reference-implementation layouts (big endian), recognised by the first three bytes being zero:
     COMPAT_DOUBLE: 0 0 0 1 | min f64 | max f64 | k as f64 | number of centroids u32 | per centroid: weight f64, mean f64
     COMPAT_FLOAT : 0 0 0 2 | min f64 | max f64 | k as f32 | 4 unused bytes | number of centroids u16 | per centroid: weight f32, mean f32
   Doubles are carried as their 64-bit patterns.  A read outside the supplied bytes is a rejection: the bytes reader tests the
   remaining size before every group of fields, the stream reader tests the stream state (native format: commit 0e10a1c;
   compat formats: fixes/11_tdigest_compat_stream_state.patch), so both readers accept exactly the same images and one decoder
   [dec] describes both; its second component is what the stream reader leaves unread.  The float -> integer conversions of the
   compat formats are modelled as repaired by fixes/11_tdigest_compat_casts.patch: a k outside [0, 65536) or a weight outside
   [0, 2^64) (NaN included) is rejected (as found: undefined behaviour).  The constructor refuses k < 10. *)
From Coq Require Import NArith ZArith List Bool Arith.
From DS Require Import Word RunnerLib.
Import ListNotations.
Local Open Scope N_scope.

Record tdc := { c_k : N; c_rev : bool; c_min : N; c_max : N; c_cents : list (N * N); c_buf : list N }.

Definition sum_weights (l : list (N * N)) : N := fold_right (fun c a => snd c + a) 0 l.
Definition cw (s : tdc) : N := w64 (sum_weights (c_cents s)).                       (* centroids_weight_ *)
Definition total (s : tdc) : N := w64 (cw s + N.of_nat (length (c_buf s))).         (* get_total_weight() *)
Definition is_empty (s : tdc) : bool := match c_cents s, c_buf s with [], [] => true | _, _ => false end.
Definition is_single (s : tdc) : bool := total s =? 1.

Definition u16 (x : N) := N_to_le_bytes 2 x.
Definition u32 (x : N) := N_to_le_bytes 4 x.
Definition u64 (x : N) := N_to_le_bytes 8 x.

Definition flags (s : tdc) : N :=
  (if is_empty s then 1 else 0) + (if is_single s then 2 else 0) + (if c_rev s then 4 else 0).
Definition pre_longs (s : tdc) : N := if is_empty s || is_single s then 1 else 2.

Definition enc_cent (c : N * N) : list N := u64 (fst c) ++ u64 (snd c).

Definition enc (s : tdc) : list N :=
  [pre_longs s; 1; 20] ++ u16 (c_k s) ++ [flags s; 0; 0] ++
  (if is_empty s then []
   else if is_single s then u64 (c_min s)
   else u32 (N.of_nat (length (c_cents s))) ++ u32 (N.of_nat (length (c_buf s))) ++ u64 (c_min s) ++ u64 (c_max s) ++
        flat_map enc_cent (c_cents s) ++ flat_map u64 (c_buf s)).

(* get_serialized_size_bytes(with_buffer) on a state whose buffer is what the image holds *)
Definition serialized_size (s : tdc) : N :=
  8 * pre_longs s +
  (if is_empty s then 0 else if is_single s then 8
   else 16 + 16 * N.of_nat (length (c_cents s)) + 8 * N.of_nat (length (c_buf s))).

(* ---- sequential reader ---- *)
Definition bind {A B} (o : option A) (f : A -> option B) : option B :=
  match o with Some a => f a | None => None end.
Notation "'do' x <- o ; k" := (bind o (fun x => k)) (at level 200, x pattern, right associativity).

Definition take (n : nat) (l : list N) : option (list N * list N) :=
  if (n <=? length l)%nat then Some (firstn n l, skipn n l) else None.
Definition rd_le (n : nat) (l : list N) : option (N * list N) :=
  do (a, r) <- take n l; Some (le_bytes_to_N a, r).
Definition rd_be (n : nat) (l : list N) : option (N * list N) :=
  do (a, r) <- take n l; Some (le_bytes_to_N (rev a), r).

Fixpoint rd_cents (n : nat) (l : list N) : option (list (N * N) * list N) :=
  match n with
  | O => Some ([], l)
  | S n' => do (m, l1) <- rd_le 8 l; do (w, l2) <- rd_le 8 l1; do (t, l3) <- rd_cents n' l2; Some ((m, w) :: t, l3)
  end.
Fixpoint rd_vals (n : nat) (l : list N) : option (list N * list N) :=
  match n with
  | O => Some ([], l)
  | S n' => do (v, l1) <- rd_le 8 l; do (t, l2) <- rd_vals n' l1; Some (v :: t, l2)
  end.

(* ---- binary64 / binary32 patterns ---- *)
(* the integer part of a binary64 value v with 0 <= v < lim (truncation), None otherwise (negative, NaN, infinite, too large) *)
Definition f64_to_N (lim : N) (b : N) : option N :=
  let e := N.land (N.shiftr b 52) 2047 in
  let m := N.land b 4503599627370495 in
  if e =? 2047 then None else
  if N.testbit b 63 then (if (e =? 0) && (m =? 0) then Some 0 else None) else
  let v := if e <? 1023 then 0
           else let sig := m + 4503599627370496 in
                if 1075 <=? e then N.shiftl sig (e - 1075) else N.shiftr sig (1075 - e) in
  if v <? lim then Some v else None.

(* exact widening of a binary32 pattern to binary64 (a NaN becomes quiet, as the hardware conversion does) *)
Definition f32_to_f64 (b : N) : N :=
  let s := N.shiftl (N.land (N.shiftr b 31) 1) 63 in
  let e := N.land (N.shiftr b 23) 255 in
  let m := N.land b 8388607 in
  if e =? 255 then s + N.shiftl 2047 52 + (if m =? 0 then 0 else N.lor (N.shiftl m 29) 2251799813685248)
  else if e =? 0 then
    (if m =? 0 then s
     else let h := N.log2 m in s + N.shiftl (h + 874) 52 + N.shiftl (m - N.shiftl 1 h) (52 - h))
  else s + N.shiftl (e + 896) 52 + N.shiftl m 29.

Definition two16 : N := 65536.
Definition pinf_bits : N := 9218868437227405312.     (* 0x7FF0000000000000: min_ of an empty digest *)
Definition ninf_bits : N := 18442240474082181120.    (* 0xFFF0000000000000: max_ of an empty digest *)

(* ---- the two reference-implementation formats; [c] = the bytes after the three zero bytes ---- *)
Fixpoint rd_compat_d (n : nat) (l : list N) : option (list (N * N) * list N) :=
  match n with
  | O => Some ([], l)
  | S n' => do (wd, l1) <- rd_be 8 l; do (m, l2) <- rd_be 8 l1;
            do w <- f64_to_N two64 wd;
            do (t, l3) <- rd_compat_d n' l2; Some ((m, w) :: t, l3)
  end.
Fixpoint rd_compat_f (n : nat) (l : list N) : option (list (N * N) * list N) :=
  match n with
  | O => Some ([], l)
  | S n' => do (wf, l1) <- rd_be 4 l; do (mf, l2) <- rd_be 4 l1;
            do w <- f64_to_N two64 (f32_to_f64 wf);
            do (t, l3) <- rd_compat_f n' l2; Some ((f32_to_f64 mf, w) :: t, l3)
  end.

Definition mk (k : N) (rev : bool) (mn mx : N) (cs : list (N * N)) (buf : list N) : option tdc :=
  if k <? 10 then None else Some {| c_k := k; c_rev := rev; c_min := mn; c_max := mx; c_cents := cs; c_buf := buf |}.

Definition dec_compat (c : list N) : option (tdc * list N) :=
  do (t, l0) <- rd_le 1 c;
  if t =? 1 then
    do (mn, l1) <- rd_be 8 l0; do (mx, l2) <- rd_be 8 l1; do (kd, l3) <- rd_be 8 l2; do (nc, l4) <- rd_be 4 l3;
    if N.of_nat (length l4) <? 16 * nc then None else
    do (cs, l5) <- rd_compat_d (N.to_nat nc) l4;
    do k <- f64_to_N two16 kd;
    do s <- mk k false mn mx cs []; Some (s, l5)
  else if t =? 2 then
    do (mn, l1) <- rd_be 8 l0; do (mx, l2) <- rd_be 8 l1; do (kf, l3) <- rd_be 4 l2; do (unused, l4) <- rd_le 4 l3;
    do (nc, l5) <- rd_be 2 l4;
    if N.of_nat (length l5) <? 8 * nc then None else
    do (cs, l6) <- rd_compat_f (N.to_nat nc) l5;
    do k <- f64_to_N two16 (f32_to_f64 kf);
    do s <- mk k false mn mx cs []; Some (s, l6)
  else None.

(* ---- deserialize: both readers ---- *)
Definition byte (i : nat) (l : list N) : N := w8 (nth i l 0).

Definition dec (b : list N) : option (tdc * list N) :=
  do (hd, r8) <- take 8 b;
  let pre := byte 0 hd in let ver := byte 1 hd in let typ := byte 2 hd in
  if negb (typ =? 20) then
    (if (pre =? 0) && (ver =? 0) && (typ =? 0) then dec_compat (skipn 3 b) else None)
  else if negb (ver =? 1) then None else
  let k := le_bytes_to_N [nth 3 hd 0; nth 4 hd 0] in
  let fl := byte 5 hd in
  let empty := N.testbit fl 0 in let single := N.testbit fl 1 in let rev := N.testbit fl 2 in
  if negb (pre =? (if empty || single then 1 else 2)) then None else
  if empty then do s <- mk k false pinf_bits ninf_bits [] []; Some (s, r8) else
  if single then
    do (v, r) <- rd_le 8 r8; do s <- mk k rev v v [(v, 1)] []; Some (s, r)
  else
    do (nc, r1) <- rd_le 4 r8; do (nb, r2) <- rd_le 4 r1;
    if N.of_nat (length r2) <? 16 + 16 * nc + 8 * nb then None else
    do (mn, r3) <- rd_le 8 r2; do (mx, r4) <- rd_le 8 r3;
    do (cs, r5) <- rd_cents (N.to_nat nc) r4; do (buf, r6) <- rd_vals (N.to_nat nb) r5;
    do s <- mk k rev mn mx cs buf; Some (s, r6).

Definition dec_bytes (b : list N) : option tdc := option_map fst (dec b).
Definition dec_stream (b : list N) : option (tdc * nat) :=
  match dec b with Some (s, r) => Some (s, (length b - length r)%nat) | None => None end.

(* what a digest looks like after a round trip: the single-value image does not say where the value was held *)
Definition norm (s : tdc) : tdc :=
  if is_empty s then {| c_k := c_k s; c_rev := false; c_min := pinf_bits; c_max := ninf_bits; c_cents := []; c_buf := [] |}
  else if is_single s then
    {| c_k := c_k s; c_rev := c_rev s; c_min := c_min s; c_max := c_min s; c_cents := [(c_min s, 1)]; c_buf := [] |}
  else s.

(* ---- line protocol (harness/drv_tdigestcodec.cpp) ----
   1 r k | 2 r v* | 10 r | 7 r r2 : the harness builds the digest (the t-digest algorithm itself is C17's business)
   6 r wb hdr : env = content of the object after serialize: k rev min max cw nc (mean w)* nb buf*; R = image bytes
   5 r path cut pos val ntrail : the image of r mangled and read through path 0 (bytes) / 1 (stream)
   3 byte* / 4 byte* : explicit image through the bytes / stream reader
   a decoded digest is shown as 1 [used] k rev min max cw nc (mean w)* nb buf* [re-serialization equal] *)
Local Open Scope Z_scope.

Fixpoint pairs (n : nat) (l : list Z) : option (list (N * N) * list Z) :=
  match n with
  | O => Some ([], l)
  | S n' => match l with
            | m :: w :: t => match pairs n' t with Some (ps, r) => Some ((zN m, zN w) :: ps, r) | None => None end
            | _ => None
            end
  end.

Definition tdc_of_env (e : list Z) : option tdc :=
  match e with
  | k :: rev :: mn :: mx :: cwv :: nc :: t =>
      match pairs (Z.to_nat nc) t with
      | Some (cs, nb :: buf) =>
          if (Z.of_nat (length buf) =? nb) then
            Some {| c_k := zN k; c_rev := negb (rev =? 0); c_min := zN mn; c_max := zN mx; c_cents := cs; c_buf := map zN buf |}
          else None
      | _ => None
      end
  | _ => None
  end.

Definition show (s : tdc) : list Z :=
  [Nz (c_k s); bz (c_rev s); Nz (c_min s); Nz (c_max s); Nz (cw s); Z.of_nat (length (c_cents s))] ++
  flat_map (fun c => [Nz (fst c); Nz (snd c)]) (c_cents s) ++ [Z.of_nat (length (c_buf s))] ++ map Nz (c_buf s).

Fixpoint list_eqb (a b : list N) : bool :=
  match a, b with
  | [], [] => true
  | x :: a', y :: b' => N.eqb x y && list_eqb a' b'
  | _, _ => false
  end.

Definition set_nth (n : nat) (v : N) (l : list N) : list N := upd_nth n (fun _ => v) l.

Definition mangle (img : list N) (cut pos val ntrail : Z) : list N :=
  let a := if cut <? 0 then img else firstn (Z.to_nat cut) img in
  let b := if pos <? 0 then a else set_nth (Z.to_nat pos) (zN val) a in
  b ++ repeat 165%N (Z.to_nat ntrail).

Definition show_dec (path : Z) (bytes : list N) (orig : option (list N)) : list Z :=
  match dec bytes with
  | Some (s, r) =>
      1 :: (if path =? 0 then [] else [Z.of_nat (length bytes - length r)]) ++ show s ++
      match orig with Some img => [bz (list_eqb (enc s) img)] | None => [] end
  | None => refused
  end.

Definition step (st : list (Z * tdc)) (o e : line) : list (Z * tdc) * outline :=
  match o with
  | 1 :: r :: k :: _ => (st, ((if k <? 10 then refused else ok), []))
  | 2 :: _ => (st, (ok, []))
  | 10 :: _ => (st, (ok, []))
  | 7 :: _ => (st, (ok, []))
  | 6 :: r :: _ =>
      match tdc_of_env e with
      | Some s => (reg_set st r s, (map Nz (enc s), [Nz (serialized_size s)]))
      | None => (st, (refused, []))
      end
  | 5 :: r :: path :: cut :: pos :: val :: ntrail :: _ =>
      match reg_get st r with
      | Some s => (st, (show_dec path (mangle (enc s) cut pos val ntrail)
                                 (if (cut <? 0) && (pos <? 0) then Some (enc s) else None), []))
      | None => (st, (refused, []))
      end
  | 3 :: bytes => (st, (show_dec 0 (map zN bytes) None, []))
  | 4 :: bytes => (st, (show_dec 1 (map zN bytes) None, []))
  | _ => (st, ([-2], []))
  end.

Definition run (ops : list opline) : list outline := run_case step [] ops.
