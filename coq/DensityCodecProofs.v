(* DensityCodecProofs.v — lemmas about the serialized image of the density sketch (codec part of DensityDefs.v):
   the reader undoes the writer (up to the trailing empty levels the reader never looks at), tolerates any trailing
   bytes, rejects every input that stops before the last byte it needs, and the integer <-> double-pattern conversion
   is exact for |c| < 2^53. *)
From Coq Require Import ZArith NArith List Bool Lia.
From DS Require Import RunnerLib DensityDefs DensityProofs.
Import ListNotations.
Local Open Scope Z_scope.

(* ---------------------------------------------------------------- *)
(* little-endian fields                                              *)
(* ---------------------------------------------------------------- *)
Lemma le_bytes_length : forall n x, length (le_bytes n x) = n.
Proof. induction n as [|n IH]; intros x; cbn [le_bytes length]; [reflexivity|now rewrite IH]. Qed.

Lemma le_val_le_bytes : forall n x, 0 <= x < 256 ^ Z.of_nat n -> le_val (le_bytes n x) = x.
Proof.
  induction n as [|n IH]; intros x Hx.
  - simpl in Hx. cbn. lia.
  - cbn [le_bytes le_val]. rewrite Nat2Z.inj_succ, Z.pow_succ_r in Hx by lia.
    rewrite IH.
    + pose proof (Z.div_mod x 256). lia.
    + split; [apply Z.div_pos; lia|apply Z.div_lt_upper_bound; lia].
Qed.

Lemma le_bytes_range : forall n x b, In b (le_bytes n x) -> 0 <= b < 256.
Proof.
  induction n as [|n IH]; intros x b; cbn [le_bytes In]; [tauto|].
  intros [<-|H]; [apply Z.mod_pos_bound; lia|eauto].
Qed.

(* ---------------------------------------------------------------- *)
(* parsers                                                           *)
(* ---------------------------------------------------------------- *)
Lemma pbind_some {A B} (p : parser A) (f : A -> parser B) b x :
  pbind p f b = Some x <-> exists a r, p b = Some (a, r) /\ f a r = Some x.
Proof.
  unfold pbind. destruct (p b) as [[a r]|].
  - split; [intros H; exists a, r; auto|intros (a' & r' & E & H); inversion E; subst; exact H].
  - split; [discriminate|intros (a' & r' & E & _); discriminate].
Qed.

Lemma pbind_eq {A B} (p : parser A) (f : A -> parser B) b a r :
  p b = Some (a, r) -> pbind p f b = f a r.
Proof. intros H. unfold pbind. now rewrite H. Qed.

Lemma take_n_app : forall l r, take_n (length l) (l ++ r) = Some (l, r).
Proof. induction l as [|x l IH]; intros r; cbn [length take_n app]; [reflexivity|now rewrite IH]. Qed.

Lemma rd_le n x r : 0 <= x < 256 ^ Z.of_nat n -> rd n (le_bytes n x ++ r) = Some (x, r).
Proof.
  intros Hx. unfold rd. rewrite (pbind_eq _ _ _ (le_bytes n x) r).
  - unfold pret. now rewrite le_val_le_bytes.
  - rewrite <- (le_bytes_length n x) at 1. apply take_n_app.
Qed.

Lemma rd1 x r : rd 1 (x :: r) = Some (x, r).
Proof. unfold rd, pbind, pret. cbn [take_n le_val]. do 2 f_equal. lia. Qed.

Lemma need_ok la m b : m <= Z.of_nat (length b) -> need la m b = Some (tt, b).
Proof. intros H. unfold need. destruct la; cbn [andb]; [|reflexivity]. destruct (Z.ltb_spec (Z.of_nat (length b)) m); [lia|reflexivity]. Qed.

(* -- a parser that succeeded on b succeeds in the same way on every extension of b -- *)
Definition ext {A} (p : parser A) : Prop :=
  forall b v r, p b = Some (v, r) -> forall t, p (b ++ t) = Some (v, r ++ t).

Lemma ext_pret {A} (a : A) : ext (pret a).
Proof. intros b v r H t. unfold pret in *. inversion H; subst. reflexivity. Qed.

Lemma ext_pbind {A B} (p : parser A) (f : A -> parser B) : ext p -> (forall a, ext (f a)) -> ext (pbind p f).
Proof.
  intros Hp Hf b v r H t. apply pbind_some in H. destruct H as (a & r1 & H1 & H2).
  rewrite (pbind_eq _ _ _ a (r1 ++ t)); [|now apply Hp]. now apply Hf.
Qed.

Lemma ext_take_n : forall n, ext (take_n n).
Proof.
  induction n as [|n IH]; intros b v r H t; cbn [take_n] in *.
  - inversion H; subst. reflexivity.
  - destruct b as [|x b]; [discriminate|]. cbn [app].
    destruct (take_n n b) as [[l r1]|] eqn:E; [|discriminate].
    inversion H; subst. now rewrite (IH _ _ _ E t).
Qed.

Lemma ext_rd n : ext (rd n).
Proof. apply ext_pbind; [apply ext_take_n|intros; apply ext_pret]. Qed.

Lemma ext_need la m : ext (need la m).
Proof.
  intros b v r H t. unfold need in *.
  destruct (la && (Z.of_nat (length b) <? m)) eqn:E; [discriminate|]. inversion H; subst.
  assert (E2 : la && (Z.of_nat (length (r ++ t)) <? m) = false).
  { destruct la; cbn [andb] in *; [|reflexivity]. apply Z.ltb_ge in E. apply Z.ltb_ge. rewrite app_length. lia. }
  now rewrite E2.
Qed.

Lemma ext_guard c : ext (guard c).
Proof. intros b v r H t. unfold guard in *. destruct c; [|discriminate]. inversion H; subst. reflexivity. Qed.

Lemma ext_rd_words : forall n, ext (rd_words n).
Proof.
  induction n as [|n IH]; cbn [rd_words]; [apply ext_pret|].
  apply ext_pbind; [apply ext_rd|intros w]. apply ext_pbind; [exact IH|intros; apply ext_pret].
Qed.

Lemma ext_rd_points dim : forall c, ext (rd_points c dim).
Proof.
  induction c as [|c IH]; cbn [rd_points]; [apply ext_pret|].
  apply ext_pbind; [apply ext_rd_words|intros p]. apply ext_pbind; [exact IH|intros; apply ext_pret].
Qed.

Lemma ext_rd_levels la dim : forall fuel to_read, ext (rd_levels la fuel dim to_read).
Proof.
  induction fuel as [|f IH]; intros to_read; cbn [rd_levels]; destruct (to_read <=? 0);
    try (apply ext_pbind; [apply ext_guard|intros; apply ext_pret]).
  - intros b v r H; discriminate.
  - apply ext_pbind; [apply ext_rd|intros c].
    apply ext_pbind; [apply ext_need|intros _].
    apply ext_pbind; [apply ext_rd_points|intros l].
    apply ext_pbind; [apply IH|intros; apply ext_pret].
Qed.

Lemma ext_dec_head la : ext (dec_head la).
Proof.
  unfold dec_head.
  repeat (apply ext_pbind; [first [apply ext_need|apply ext_rd|apply ext_guard]|intros ?]).
  apply ext_pret.
Qed.

Lemma ext_dec_body la fuel k dim : ext (dec_body la fuel k dim).
Proof.
  unfold dec_body.
  repeat (apply ext_pbind; [first [apply ext_need|apply ext_rd|apply ext_rd_levels]|intros ?]).
  apply ext_pret.
Qed.

Lemma ext_dec_p la fuel : ext (dec_p la fuel).
Proof.
  unfold dec_p. apply ext_pbind; [apply ext_dec_head|intros [[k dim] [|]]]; [apply ext_pret|apply ext_dec_body].
Qed.

(* -- more fuel never changes a successful run -- *)
Lemma pbind_mono {A B} (p : parser A) (f g : A -> parser B) b x :
  (forall a r, f a r = Some x -> g a r = Some x) -> pbind p f b = Some x -> pbind p g b = Some x.
Proof.
  intros H H1. apply pbind_some in H1. destruct H1 as (a & r & E & F).
  rewrite (pbind_eq _ _ _ a r E). now apply H.
Qed.

Lemma pbind_mono_p {A B} (p p' : parser A) (f : A -> parser B) b x :
  (forall a r, p b = Some (a, r) -> p' b = Some (a, r)) -> pbind p f b = Some x -> pbind p' f b = Some x.
Proof.
  intros H H1. apply pbind_some in H1. destruct H1 as (a & r & E & F).
  rewrite (pbind_eq _ _ _ a r (H _ _ E)). exact F.
Qed.

Lemma rd_levels_fuel_mono la dim : forall f f' to_read b x,
  (f <= f')%nat -> rd_levels la f dim to_read b = Some x -> rd_levels la f' dim to_read b = Some x.
Proof.
  induction f as [|f IH]; intros f' to_read b x Hle H.
  - destruct f' as [|f']; [exact H|]. cbn [rd_levels] in *. destruct (to_read <=? 0); [exact H|discriminate].
  - destruct f' as [|f']; [lia|]. cbn [rd_levels] in *. destruct (to_read <=? 0); [exact H|].
    revert H. apply pbind_mono; intros c r1. apply pbind_mono; intros _ r2. apply pbind_mono; intros l r3.
    apply pbind_mono_p. intros a r Ha. apply (IH f'); [lia|exact Ha].
Qed.

Lemma dec_p_fuel_mono la f f' b x : (f <= f')%nat -> dec_p la f b = Some x -> dec_p la f' b = Some x.
Proof.
  intros Hle. unfold dec_p. apply pbind_mono. intros [[k dim] [|]] r; [auto|].
  unfold dec_body. apply pbind_mono; intros _ r1. apply pbind_mono; intros ret r2. apply pbind_mono; intros n r3.
  apply pbind_mono; intros _ r4. apply pbind_mono_p. intros a r5. now apply rd_levels_fuel_mono.
Qed.

(* the reader accepts every extension of an accepted input, with the same sketch: trailing bytes are never looked at *)
Theorem dec_ext la b w r : dec la b = Some (w, r) -> forall t, dec la (b ++ t) = Some (w, r ++ t).
Proof.
  unfold dec. intros H t. apply (dec_p_fuel_mono la (length b) (length (b ++ t))) in H; [|rewrite app_length; lia].
  now apply ext_dec_p.
Qed.

(* ---------------------------------------------------------------- *)
(* the reader on the writer's image                                  *)
(* ---------------------------------------------------------------- *)
Definition word_ok (c : Z) : Prop := 0 <= c < 256 ^ Z.of_nat 8.
Definition point_ok (dim : Z) (p : point) : Prop := Z.of_nat (length p) = dim /\ Forall word_ok p.

(* a sketch in wire form whose fields fit their slots (k: u16, dim and num_retained: u32, n: u64, coordinates: 64-bit
   patterns), whose points have the configured dimension and whose num_retained is the number of points *)
Definition wfw (w : ds) : Prop :=
  2 <= d_k w < 256 ^ Z.of_nat 2 /\ 0 <= d_dim w < 256 ^ Z.of_nat 4 /\ 0 <= d_ret w < 256 ^ Z.of_nat 4 /\
  0 <= d_n w < 256 ^ Z.of_nat 8 /\
  d_ret w = Z.of_nat (total (d_levels w)) /\ d_levels w <> [] /\
  Forall (Forall (point_ok (d_dim w))) (d_levels w).

Lemma enc_point_length p : length (enc_point p) = (8 * length p)%nat.
Proof.
  unfold enc_point. induction p as [|c p IH]; cbn [map concat length]; [reflexivity|].
  rewrite app_length, le_bytes_length, IH. lia.
Qed.

Lemma enc_points_length dim l : Forall (point_ok dim) l ->
  Z.of_nat (length (concat (map enc_point l))) = Z.of_nat (length l) * (8 * dim).
Proof.
  induction 1 as [|p l [Hp _] _ IH]; cbn [map concat length]; [lia|].
  rewrite app_length, enc_point_length. lia.
Qed.

Lemma rd_words_enc : forall p r, Forall word_ok p -> rd_words (length p) (enc_point p ++ r) = Some (p, r).
Proof.
  induction p as [|c p IH]; intros r H; cbn [length rd_words]; [reflexivity|].
  inversion H; subst. unfold enc_point. cbn [map concat]. rewrite <- app_assoc.
  rewrite (pbind_eq _ _ _ c (enc_point p ++ r)); [|now apply rd_le].
  rewrite (pbind_eq _ _ _ p r); [reflexivity|now apply IH].
Qed.

Lemma rd_points_enc dim : forall l r, Forall (point_ok (Z.of_nat dim)) l ->
  rd_points (length l) dim (concat (map enc_point l) ++ r) = Some (l, r).
Proof.
  induction l as [|p l IH]; intros r H; cbn [length rd_points]; [reflexivity|].
  inversion H as [|? ? [Hl Hw] Hr]; subst. cbn [map concat]. rewrite <- app_assoc.
  apply Nat2Z.inj in Hl. rewrite <- Hl.
  rewrite (pbind_eq _ _ _ p (concat (map enc_point l) ++ r)); [|now apply rd_words_enc].
  rewrite Hl. rewrite (pbind_eq _ _ _ l r); [reflexivity|now apply IH].
Qed.

Lemma take_levels_nonpos r ls : r <= 0 -> take_levels r ls = [].
Proof. intros H. destruct ls; cbn [take_levels]; destruct (Z.leb_spec r 0); try reflexivity; lia. Qed.

Lemma take_levels_pos r l t : 0 < r -> take_levels r (l :: t) = l :: take_levels (r - Z.of_nat (length l)) t.
Proof. intros H. cbn [take_levels]. destruct (Z.leb_spec r 0); [lia|reflexivity]. Qed.

(* the levels the reader keeps, and the ones it never reads (all empty: num_retained points have been read) *)
Definition kept (w : ds) : list (list point) := take_levels (d_ret w) (d_levels w).
Definition unread (w : ds) : list (list point) := skipn (length (kept w)) (d_levels w).

Lemma take_levels_split : forall ls r, ls = take_levels r ls ++ skipn (length (take_levels r ls)) ls.
Proof.
  induction ls as [|l t IH]; intros r.
  - destruct (Z.leb_spec r 0); cbn [take_levels]; destruct (r <=? 0); reflexivity.
  - destruct (Z.leb_spec r 0) as [H|H].
    + rewrite take_levels_nonpos by exact H. reflexivity.
    + rewrite take_levels_pos by exact H. cbn [length skipn app]. f_equal. apply IH.
Qed.

Lemma rd_levels_kept la dim : 0 <= dim -> forall ls f r t,
  (length (take_levels r ls) <= f)%nat -> r = Z.of_nat (total ls) -> r < 256 ^ Z.of_nat 4 ->
  Forall (Forall (point_ok dim)) ls ->
  rd_levels la f dim r (concat (map enc_level (take_levels r ls)) ++ t) = Some (take_levels r ls, t).
Proof.
  intros Hdim. induction ls as [|l ls IH]; intros f r t Hf Hr Hlt Hok.
  - rewrite total_nil in Hr. rewrite Hr. destruct f; reflexivity.
  - rewrite total_cons in Hr. destruct (Z.leb_spec r 0) as [H0|H0].
    + rewrite take_levels_nonpos by exact H0.
      assert (E : r = 0) by lia. rewrite E.
      destruct f; reflexivity.
    + rewrite take_levels_pos in * by exact H0.
      destruct f as [|f]; [simpl in Hf; lia|]. cbn [rd_levels].
      destruct (Z.leb_spec r 0) as [|_]; [lia|].
      inversion Hok as [|? ? Hl Hls]. subst x l0. clear Hok.
      cbn [map concat]. unfold enc_level at 1. rewrite <- !app_assoc.
      set (rest := concat (map enc_level (take_levels (r - Z.of_nat (length l)) ls)) ++ t).
      rewrite (pbind_eq _ _ _ (Z.of_nat (length l)) (concat (map enc_point l) ++ rest)); [|apply rd_le; lia].
      rewrite (pbind_eq _ _ _ tt (concat (map enc_point l) ++ rest)).
      2:{ apply need_ok. rewrite app_length, Nat2Z.inj_add, (enc_points_length dim l Hl). lia. }
      rewrite Nat2Z.id.
      rewrite (pbind_eq _ _ _ l rest).
      2:{ apply rd_points_enc. now rewrite Z2Nat.id by lia. }
      rewrite (pbind_eq _ _ _ (take_levels (r - Z.of_nat (length l)) ls) t).
      * reflexivity.
      * apply IH; [simpl in Hf; lia|lia|lia|exact Hls].
Qed.

Lemma enc_levels_length ls : (length ls <= length (concat (map enc_level ls)))%nat.
Proof.
  induction ls as [|l ls IH]; cbn [map concat length]; [lia|].
  unfold enc_level at 1. rewrite !app_length, le_bytes_length. lia.
Qed.

(* the part of the image the reader needs, and the rest (size words of trailing empty levels) *)
Definition header24 (w : ds) : list Z := enc_header 6 0 w ++ le_bytes 4 (d_ret w) ++ le_bytes 8 (d_n w).
Definition ess (w : ds) : list Z :=
  if d_n w =? 0 then enc w else header24 w ++ concat (map enc_level (kept w)).
Definition padding (w : ds) : list Z :=
  if d_n w =? 0 then [] else concat (map enc_level (unread w)).

Lemma enc_split w : enc w = ess w ++ padding w.
Proof.
  unfold ess, padding, header24, enc. destruct (d_n w =? 0); [now rewrite app_nil_r|].
  rewrite <- !app_assoc. do 3 f_equal. rewrite <- concat_app, <- map_app. unfold unread, kept.
  now rewrite <- take_levels_split.
Qed.

Lemma dec_head_enc la pre flags w r :
  2 <= d_k w < 256 ^ Z.of_nat 2 -> 0 <= d_dim w < 256 ^ Z.of_nat 4 ->
  (pre = 3 /\ flags = 4) \/ (pre = 6 /\ flags = 0 /\ (12 <= length r)%nat) ->
  dec_head la (enc_header pre flags w ++ r) = Some ((d_k w, d_dim w, Z.testbit flags 2), r).
Proof.
  intros Hk Hd Hpf. unfold dec_head, enc_header. rewrite <- !app_assoc. cbn [app].
  erewrite pbind_eq
    by (apply need_ok; repeat (cbn [length]; rewrite ?app_length, ?le_bytes_length); lia).
  erewrite pbind_eq by apply rd1. erewrite pbind_eq by apply rd1.
  erewrite pbind_eq by apply rd1. erewrite pbind_eq by apply rd1.
  erewrite pbind_eq by (apply rd_le; lia).
  change (0 :: 0 :: le_bytes 4 (d_dim w) ++ r) with (le_bytes 2 0 ++ le_bytes 4 (d_dim w) ++ r).
  erewrite pbind_eq by (apply rd_le; cbn; lia).
  erewrite pbind_eq by (apply rd_le; exact Hd).
  assert (Hk2 : (2 <=? d_k w) = true) by (apply Z.leb_le; lia).
  unfold guard at 1. rewrite Hk2. unfold pbind at 1.
  unfold guard at 1. rewrite Z.eqb_refl. unfold pbind at 1.
  unfold guard at 1. rewrite Z.eqb_refl. unfold pbind at 1.
  destruct Hpf as [[-> ->]|(-> & -> & _)]; reflexivity.
Qed.

Lemma kept_bytes dim : 0 <= dim -> forall ls r, Forall (Forall (point_ok dim)) ls -> r = Z.of_nat (total ls) ->
  r * (8 * dim) <= Z.of_nat (length (concat (map enc_level (take_levels r ls)))).
Proof.
  intros Hdim. induction ls as [|l ls IH]; intros r Hok Hr.
  - rewrite total_nil in Hr. subst r. cbn. lia.
  - rewrite total_cons in Hr. destruct (Z.leb_spec r 0) as [H0|H0].
    + rewrite take_levels_nonpos by exact H0. cbn [map concat length]. nia.
    + rewrite take_levels_pos by exact H0. inversion Hok as [|? ? Hl Hls]. subst x l0.
      cbn [map concat]. unfold enc_level at 1. rewrite !app_length, !Nat2Z.inj_add, (enc_points_length dim l Hl).
      specialize (IH (r - Z.of_nat (length l)) Hls). nia.
Qed.

(* the reader on the needed part of the image followed by ANY bytes: the sketch as the round trip leaves it
   (DensityDefs.ds_roundtrip: trailing empty levels dropped, level 0 kept), and exactly those bytes left unread *)
Theorem dec_ess la w t : wfw w -> dec la (ess w ++ t) = Some (ds_roundtrip w, t).
Proof.
  intros (Hk & Hd & Hr & Hn & Hrt & Hne & Hok). unfold dec, dec_p, ess, ds_roundtrip.
  destruct (Z.eqb_spec (d_n w) 0) as [E|E].
  - unfold enc. rewrite E. cbn [Z.eqb].
    erewrite pbind_eq by (apply dec_head_enc; auto). reflexivity.
  - unfold header24. rewrite <- !app_assoc.
    erewrite pbind_eq by (apply dec_head_enc; [auto|auto|right; repeat split; rewrite !app_length, !le_bytes_length; lia]).
    cbn [Z.testbit Z.eqb]. unfold dec_body.
    erewrite pbind_eq by (apply need_ok; rewrite !app_length, !le_bytes_length; lia).
    erewrite pbind_eq by (apply rd_le; lia).
    erewrite pbind_eq by (apply rd_le; lia).
    erewrite pbind_eq.
    2:{ apply need_ok. rewrite app_length, Nat2Z.inj_add. unfold kept.
        pose proof (kept_bytes (d_dim w) (proj1 Hd) (d_levels w) (d_ret w) Hok Hrt). lia. }
    erewrite pbind_eq.
    2:{ unfold kept. apply rd_levels_kept; [lia| |exact Hrt|lia|exact Hok].
        rewrite !app_length. pose proof (enc_levels_length (take_levels (d_ret w) (d_levels w))). lia. }
    reflexivity.
Qed.

Theorem dec_enc la w t : wfw w -> dec la (enc w ++ t) = Some (ds_roundtrip w, padding w ++ t).
Proof. intros H. rewrite enc_split, <- app_assoc. now apply dec_ess. Qed.

(* an input that stops before the last needed byte is refused *)
Theorem dec_truncated_refused la w b t : wfw w -> ess w = b ++ t -> t <> [] -> dec la b = None.
Proof.
  intros Hw Hs Ht. destruct (dec la b) as [[v r]|] eqn:E; [|reflexivity]. exfalso.
  pose proof (dec_ext la b v r E t) as H1. rewrite <- Hs in H1.
  pose proof (dec_ess la w [] Hw) as H2. rewrite app_nil_r in H2. rewrite H2 in H1.
  inversion H1 as [[H3 H4]]. symmetry in H4. apply app_eq_nil in H4. tauto.
Qed.

(* every strict prefix of the image: refused, or - only when nothing but size words of trailing empty levels is
   missing - decoded to the very same sketch as the whole image *)
Theorem dec_strict_prefix la w b t : wfw w -> enc w = b ++ t -> t <> [] ->
  dec la b = None \/
  (exists r, dec la b = Some (ds_roundtrip w, r) /\ (length (ess w) <= length b)%nat /\ dec la (enc w) = Some (ds_roundtrip w, r ++ t)).
Proof.
  intros Hw Hs Ht.
  destruct (le_lt_dec (length (ess w)) (length b)) as [Hl|Hl].
  - right. rewrite enc_split in Hs.
    assert (Hb : b = ess w ++ skipn (length (ess w)) b).
    { rewrite <- (firstn_skipn (length (ess w)) b) at 1. f_equal.
      apply (f_equal (firstn (length (ess w)))) in Hs.
      rewrite firstn_app, Nat.sub_diag, firstn_O, app_nil_r, firstn_all in Hs.
      rewrite firstn_app in Hs. replace (length (ess w) - length b)%nat with 0%nat in Hs by lia.
      rewrite firstn_O, app_nil_r in Hs. now symmetry. }
    exists (skipn (length (ess w)) b). rewrite Hb at 1. rewrite (dec_ess la w _ Hw). repeat split; [exact Hl|].
    rewrite enc_split, Hs. rewrite Hb at 1. rewrite <- app_assoc. apply (dec_ess la w _ Hw).
  - left. rewrite enc_split in Hs.
    apply (dec_truncated_refused la w b (skipn (length b) (ess w)) Hw).
    + rewrite <- (firstn_skipn (length b) (ess w)) at 1. f_equal.
      apply (f_equal (firstn (length b))) in Hs.
      rewrite firstn_app in Hs. replace (length b - length (ess w))%nat with 0%nat in Hs by lia.
      rewrite firstn_O, app_nil_r in Hs. rewrite Hs.
      rewrite firstn_app, Nat.sub_diag, firstn_O, app_nil_r, firstn_all. reflexivity.
    + intros Hnil. apply (f_equal (@length Z)) in Hnil. rewrite skipn_length in Hnil. simpl in Hnil. lia.
Qed.

Lemma ds_eta (w : ds) : {| d_k := d_k w; d_dim := d_dim w; d_ret := d_ret w; d_n := d_n w; d_levels := d_levels w |} = w.
Proof. destruct w; reflexivity. Qed.

Theorem dec_enc_exact la w t : wfw w -> d_n w <> 0 -> kept w = d_levels w -> dec la (enc w ++ t) = Some (w, t).
Proof.
  intros Hw Hn Hk. rewrite (dec_enc la w t Hw). unfold ds_roundtrip, padding, unread.
  destruct (Z.eqb_spec (d_n w) 0) as [E|_]; [contradiction|].
  fold (kept w). rewrite Hk, skipn_all. cbn [map concat app].
  destruct Hw as (_ & _ & _ & _ & _ & Hne & _).
  destruct (d_levels w) as [|l ls] eqn:El; [congruence|]. cbn [ensure1]. rewrite <- El, ds_eta. reflexivity.
Qed.

Theorem dec_enc_empty la w t : wfw w -> d_n w = 0 -> dec la (enc w ++ t) = Some (ds_new (d_k w) (d_dim w), t).
Proof.
  intros Hw Hn. rewrite (dec_enc la w t Hw). unfold ds_roundtrip, padding. rewrite Hn. reflexivity.
Qed.

Theorem enc_hdr_split h w : 0 <= h ->
  firstn (Z.to_nat h) (enc_hdr h w) = repeat 0 (Z.to_nat h) /\ skipn (Z.to_nat h) (enc_hdr h w) = enc w.
Proof.
  intros _. unfold enc_hdr. set (n := Z.to_nat h).
  assert (Hl : length (repeat 0 n) = n) by apply repeat_length.
  split.
  - rewrite firstn_app, Hl, Nat.sub_diag, firstn_O, app_nil_r. rewrite <- Hl at 1. apply firstn_all.
  - rewrite skipn_app, Hl, Nat.sub_diag. rewrite <- Hl at 1. rewrite skipn_all. reflexivity.
Qed.

Theorem enc_roundtrip w : wfw w -> d_n w <> 0 -> kept w <> [] -> enc (ds_roundtrip w) = ess w.
Proof.
  intros _ Hn Hk. unfold ds_roundtrip, ess, enc, header24, enc_header.
  destruct (Z.eqb_spec (d_n w) 0) as [E|_]; [contradiction|]. cbn [d_k d_dim d_ret d_n d_levels].
  destruct (Z.eqb_spec (d_n w) 0) as [E|_]; [contradiction|].
  fold (kept w). destruct (kept w) as [|l ls]; [congruence|]. cbn [ensure1]. now rewrite <- !app_assoc.
Qed.

(* ---------------------------------------------------------------- *)
(* integer-valued doubles <-> IEEE-754 binary64 patterns              *)
(* ---------------------------------------------------------------- *)
Lemma dint_dbits z : Z.abs z < 2 ^ 53 -> dint (dbits z) = Some z /\ 0 <= dbits z < 2 ^ 64.
Proof.
  intros Hz. destruct (Z.eq_dec z 0) as [->|Hnz]; [vm_compute; repeat split; congruence|].
  set (a := Z.abs z). set (e := Z.log2 a).
  assert (Ha : 0 < a) by (unfold a; lia).
  destruct (Z.log2_spec a Ha) as [Hlo Hhi]. fold e in Hlo, Hhi.
  assert (He0 : 0 <= e) by apply Z.log2_nonneg.
  assert (He52 : e <= 52).
  { assert (e < 53); [|lia]. apply Z.log2_lt_pow2; [exact Ha|exact Hz]. }
  set (P := 2 ^ e) in *. set (Q := 2 ^ (52 - e)).
  assert (HPQ : P * Q = 2 ^ 52) by (unfold P, Q; rewrite <- Z.pow_add_r by lia; f_equal; lia).
  assert (HP : 0 < P) by (unfold P; apply Z.pow_pos_nonneg; lia).
  assert (HQ : 0 < Q) by (unfold Q; apply Z.pow_pos_nonneg; lia).
  replace (2 ^ Z.succ e) with (2 * P) in Hhi by (unfold P; rewrite Z.pow_succ_r by lia; reflexivity).
  set (m := (a - P) * Q).
  assert (Hm : 0 <= m < 2 ^ 52) by (unfold m; nia).
  set (s := if z <? 0 then 1 else 0).
  assert (Hs : s = 0 \/ s = 1) by (unfold s; destruct (z <? 0); auto).
  assert (HW : dbits z = s * 2 ^ 63 + (e + 1023) * 2 ^ 52 + m).
  { unfold dbits. destruct (Z.eqb_spec z 0) as [|_]; [contradiction|]. cbv zeta. fold a e P Q m.
    unfold s. destruct (z <? 0); lia. }
  assert (E63 : 2 ^ 63 = 2 ^ 52 * 2048) by reflexivity.
  assert (E64 : 2 ^ 64 = 2 ^ 52 * 4096) by reflexivity.
  assert (E52 : 0 < 2 ^ 52) by reflexivity.
  set (T := 2 ^ 52) in *.
  assert (HeT : 0 <= e * T <= 52 * T) by nia.
  split; [|rewrite HW, E64, E63; destruct Hs as [-> | ->]; lia].
  assert (H1 : dbits z / 2 ^ 63 = s).
  { symmetry. apply (Z.div_unique _ _ s ((e + 1023) * T + m)); [left; rewrite E63; lia|rewrite HW; lia]. }
  assert (H2 : dbits z / T = s * 2048 + e + 1023).
  { symmetry. apply (Z.div_unique _ _ _ m); [left; lia|rewrite HW, E63; lia]. }
  assert (H3 : dbits z mod T = m).
  { symmetry. apply (Z.mod_unique _ _ (s * 2048 + e + 1023)); [left; lia|rewrite HW, E63; lia]. }
  assert (H4 : (s * 2048 + e + 1023) mod 2048 = e + 1023).
  { symmetry. apply (Z.mod_unique _ _ s); [left; lia|lia]. }
  assert (H5 : m mod Q = 0) by (unfold m; apply Z.mod_mul; lia).
  assert (H6 : m / Q = a - P) by (unfold m; apply Z.div_mul; lia).
  assert (HWpos : 0 < dbits z) by (rewrite HW, E63; destruct Hs as [-> | ->]; lia).
  unfold dint. destruct (Z.eqb_spec (dbits z) 0) as [E0|_]; [lia|]. cbv zeta.
  fold T. rewrite H1, H2, H3, H4.
  replace (e + 1023 - 1023) with e by lia. fold Q. rewrite H5, H6. fold P.
  assert (C1 : (0 <=? e) = true) by (apply Z.leb_le; lia).
  assert (C2 : (e <=? 52) = true) by (apply Z.leb_le; lia).
  assert (C3 : (s <=? 1) = true) by (apply Z.leb_le; lia).
  assert (C4 : (0 <=? dbits z) = true) by (apply Z.leb_le; lia).
  rewrite C1, C2, C3, C4. cbn [Z.eqb andb]. f_equal.
  unfold s, a. destruct (Z.ltb_spec z 0).
  - change (1 =? 1) with true. cbv iota. lia.
  - change (0 =? 1) with false. cbv iota. lia.
Qed.

(* ---------------------------------------------------------------- *)
(* reachable sketches in wire form                                   *)
(* ---------------------------------------------------------------- *)
Definition small (c : Z) : Prop := Z.abs c < 2 ^ 53.

(* the counters and coordinates of the history fit the slots of the image *)
Definition fits (K : point -> point -> Z) (h : hist) : Prop :=
  d_k (eval K h) < 256 ^ Z.of_nat 2 /\ 0 <= d_dim (eval K h) < 256 ^ Z.of_nat 4 /\
  Z.of_nat (length (inputs K h)) < 256 ^ Z.of_nat 4 /\ Forall (Forall small) (inputs K h).

Lemma total_map_levels f ls : total (map_levels f ls) = total ls.
Proof.
  unfold map_levels. induction ls as [|l t IH]; [reflexivity|]. cbn [map]. rewrite !total_cons, map_length. now rewrite IH.
Qed.

Lemma take_levels_map f : forall ls r, take_levels r (map_levels f ls) = map_levels f (take_levels r ls).
Proof.
  unfold map_levels. induction ls as [|l t IH]; intros r.
  - cbn [map take_levels]. destruct (r <=? 0); reflexivity.
  - destruct (Z.leb_spec r 0) as [H|H].
    + cbn [map]. now rewrite !take_levels_nonpos by exact H.
    + cbn [map]. rewrite !take_levels_pos by exact H. cbn [map]. rewrite map_length. now rewrite IH.
Qed.

Lemma roundtrip_to_wire s : ds_roundtrip (to_wire s) = to_wire (ds_roundtrip s).
Proof.
  unfold ds_roundtrip, to_wire. cbn [d_k d_dim d_ret d_n d_levels].
  destruct (d_n s =? 0); [reflexivity|]. cbn [d_k d_dim d_ret d_n d_levels]. f_equal.
  rewrite take_levels_map. destruct (take_levels (d_ret s) (d_levels s)); reflexivity.
Qed.

Lemma opt_all_map {A B} (f : B -> option A) (g : A -> B) : forall l,
  (forall x, In x l -> f (g x) = Some x) -> opt_all f (map g l) = Some l.
Proof.
  induction l as [|x l IH]; intros H; cbn [map opt_all]; [reflexivity|].
  rewrite (H x (or_introl eq_refl)), IH; [reflexivity|]. intros y Hy. apply H. now right.
Qed.

Lemma of_to_wire s : Forall (Forall (Forall small)) (d_levels s) -> of_wire (to_wire s) = Some s.
Proof.
  intros H. unfold of_wire, to_wire, map_levels. cbn [d_k d_dim d_ret d_n d_levels].
  rewrite opt_all_map; [now rewrite ds_eta|].
  intros l Hl. apply opt_all_map. intros p Hp. apply opt_all_map. intros c Hc.
  rewrite Forall_forall in H. specialize (H l Hl). rewrite Forall_forall in H. specialize (H p Hp).
  rewrite Forall_forall in H. now apply dint_dbits, H.
Qed.

Lemma take_levels_incl : forall ls r l, In l (take_levels r ls) -> In l ls.
Proof.
  induction ls as [|l0 t IH]; intros r l.
  - cbn [take_levels]. destruct (r <=? 0); intros [].
  - destruct (Z.leb_spec r 0) as [H|H].
    + rewrite take_levels_nonpos by exact H. intros [].
    + rewrite take_levels_pos by exact H. cbn [In]. intros [->|Hin]; [now left|right; eauto].
Qed.

Section Reachable.
  Variable K : point -> point -> Z.

  Lemma levels_points h : valid h -> fits K h ->
    Forall (Forall (fun p => Z.of_nat (length p) = d_dim (eval K h) /\ Forall small p)) (d_levels (eval K h)).
  Proof.
    intros Hv (_ & _ & _ & Hs). pose proof (inputs_dimension K h Hv) as Hd.
    apply Forall_forall. intros l Hl. apply Forall_forall. intros p Hp.
    assert (Hin : In p (inputs K h)).
    { apply (retained_subset K h Hv). apply in_concat. exists l. split; assumption. }
    rewrite Forall_forall in Hd, Hs. split; [now apply Hd|now apply Hs].
  Qed.

  Lemma wfw_reachable h : valid h -> fits K h -> wfw (to_wire (eval K h)).
  Proof.
    intros Hv Hf. pose proof (levels_points h Hv Hf) as Hp.
    destruct Hf as (Hk & Hd & Hn & Hs).
    destruct (eval_inv K h Hv) as ((Hk2 & Hne & Hr) & _ & Hrn).
    pose proof (n_exact K h Hv) as Hnx.
    unfold wfw, to_wire. cbn [d_k d_dim d_ret d_n d_levels]. rewrite total_map_levels.
    assert (E : 256 ^ Z.of_nat 4 < 256 ^ Z.of_nat 8) by reflexivity.
    repeat split; try lia.
    - unfold map_levels. destruct (d_levels (eval K h)); [congruence|discriminate].
    - unfold map_levels. apply Forall_map. eapply Forall_impl; [|exact Hp].
      intros l Hl. apply Forall_map. eapply Forall_impl; [|exact Hl].
      intros p [Hlen Hsm]. split; [now rewrite map_length|].
      apply Forall_map. eapply Forall_impl; [|exact Hsm]. intros c Hc. apply (dint_dbits c Hc).
  Qed.

  (* serialize then deserialize (either reader, any trailing bytes) is ds_roundtrip, and the patterns convert back *)
  Theorem reachable_roundtrip h la t : valid h -> fits K h ->
    dec la (enc (to_wire (eval K h)) ++ t) = Some (to_wire (ds_roundtrip (eval K h)), padding (to_wire (eval K h)) ++ t) /\
    of_wire (to_wire (ds_roundtrip (eval K h))) = Some (ds_roundtrip (eval K h)).
  Proof.
    intros Hv Hf. split.
    - rewrite <- roundtrip_to_wire. apply dec_enc. now apply wfw_reachable.
    - apply of_to_wire. pose proof (levels_points h Hv Hf) as Hp.
      unfold ds_roundtrip. destruct (d_n (eval K h) =? 0); cbn [ds_new d_levels].
      + repeat constructor.
      + assert (Hq : Forall (Forall (Forall small)) (take_levels (d_ret (eval K h)) (d_levels (eval K h)))).
        { apply Forall_forall. intros l Hl. apply take_levels_incl in Hl.
          rewrite Forall_forall in Hp. specialize (Hp l Hl). eapply Forall_impl; [|exact Hp]. intros p [_ H]; exact H. }
        destruct (take_levels (d_ret (eval K h)) (d_levels (eval K h))); [repeat constructor|exact Hq].
  Qed.
End Reachable.
