(* EbppsEqualProofs.v — EBPPS over exact arithmetic: with equal weights and n <= k every item is kept (as a full item,
   in arrival order, without consuming a single random draw); streams as histories. *)
From Coq Require Import ZArith List Bool QArith Qround Lia Lqa Psatz.
From DS Require Import RunnerLib EbppsDefs EbppsProofs EbppsSketchProofs EbppsHistProofs.
Import ListNotations.
Local Open Scope Q_scope.

Section Equal.
  Variable Item : Type.
  Notation qsketch := (sketch QOps Item).
  Notation qsample := (sample QOps Item).
  Notation qcs := (cs QOps).

  (* the items of the accepted (positive-weight) updates, in order *)
  Fixpoint acc_items (ups : list (Item * Q)) : list Item :=
    match ups with [] => [] | (it, w) :: r => if accepted w then it :: acc_items r else acc_items r end.

  Lemma accepted_true w : accepted w = true -> 0 < w.
  Proof. unfold accepted. destruct (qleb_spec w 0); cbn [negb]; [discriminate|auto]. Qed.
  Lemma accepted_false w : accepted w = false -> w <= 0.
  Proof. unfold accepted. destruct (qleb_spec w 0); cbn [negb]; [auto|discriminate]. Qed.

  Lemma downsample_ge1 theta (sm : qsample) (s : qcs) : 1 <= theta -> downsample QOps Item theta sm s = (sm, s).
  Proof. intro H. unfold downsample. qs. destruct (qleb_spec 1 theta); [reflexivity|lra]. Qed.

  Lemma smerge_full_int (sm : qsample) it theta (s : qcs) :
    sc sm == fl (sc sm) -> theta == 1 ->
    smerge QOps Item sm (replace_content QOps Item it theta) s =
      (Build_sample QOps Item (sc sm + theta) (sdata sm ++ [it]) None, s).
  Proof.
    intros Hi Ht. unfold replace_content. qs.
    destruct (qeqb_spec theta 1) as [_|H]; [|contradiction].
    unfold smerge. cbn [sc sdata spart]. qs.
    assert (F : Qfloor theta = 1%Z) by (rewrite Ht; reflexivity).
    rewrite F. change (inject_Z 1) with 1.
    destruct (qeqb_spec (sc sm - inject_Z (Qfloor (sc sm))) 0) as [_|H]; [|exfalso; apply H; unfold fl in Hi; lra].
    destruct (qeqb_spec (theta - 1) 0) as [_|H]; [|exfalso; apply H; lra].
    reflexivity.
  Qed.

  Lemma is_min_eq r a b t : is_min r a b -> a == t -> t <= b -> r == t.
  Proof. intros (A & B & [E|E]) Ea Hb; lra. Qed.

  Definition EqInv (k : Z) (w0 : Q) (items : list Item) (sk : qsketch) : Prop :=
    let m := inject_Z (Z.of_nat (length items)) in
    sk_k sk = k /\ sk_n sk = Z.of_nat (length items) /\ sk_cw sk == m * w0 /\
    sk_wmax sk <= w0 /\ (items <> [] -> sk_wmax sk == w0 /\ sk_rho sk == 1 / w0) /\
    sc (sk_smp sk) == m /\ sdata (sk_smp sk) = items /\ spart (sk_smp sk) = None.

  Lemma injZ_succ_nat n : inject_Z (Z.of_nat (S n)) == inject_Z (Z.of_nat n) + 1.
  Proof. rewrite Nat2Z.inj_succ. unfold Z.succ. rewrite inject_Z_plus. reflexivity. Qed.

  Lemma update_equal k w0 items (sk : qsketch) it w (s : qcs) :
    (1 <= k)%Z -> 0 < w0 -> w == w0 -> (Z.of_nat (length items) + 1 <= k)%Z ->
    EqInv k w0 items sk ->
    exists sk', update QOps Item sk it w s = Some (sk', s) /\ EqInv k w0 (items ++ [it]) sk'.
  Proof.
    intros Hk Hw0 Hw Hlen (Ek & En & Ecw & Emx & Enz & Ec & Ed & Ep).
    set (m := inject_Z (Z.of_nat (length items))) in *.
    assert (Hm0 : 0 <= m) by (unfold m; change 0 with (inject_Z 0); rewrite <- Zle_Qle; lia).
    assert (Hmk : m + 1 <= inject_Z k).
    { unfold m. change 1 with (inject_Z 1). rewrite <- inject_Z_plus, <- Zle_Qle. lia. }
    unfold update. qs.
    destruct (qleb_spec 0 w) as [_|?]; [|lra]. cbn [negb orb].
    destruct (qeqb_spec w 0) as [?|_]; [lra|].
    pose proof (nmax_spec (sk_wmax sk) w) as (X1 & X2 & X3).
    set (wm := nmax QOps (sk_wmax sk) w) in *.
    assert (Wm : wm == w0) by (destruct X3 as [X3|X3]; rewrite X3 in *; lra).
    unfold feed. qs. rewrite Ek.
    set (nr := nmin QOps (1 / wm) (inject_Z k / (sk_cw sk + w))).
    assert (Hnr : nr == 1 / w0).
    { apply (is_min_eq _ _ _ _ (nmin_is_min _ _)).
      - rewrite Wm. reflexivity.
      - apply Qle_shift_div_l; [rewrite Ecw; nra|].
        assert (E : 1 / w0 * (sk_cw sk + w) == m + 1) by (rewrite Ecw, Hw; field; lra).
        rewrite E. exact Hmk. }
    (* no downsampling *)
    assert (DS : (if negb (Qle_bool (sk_cw sk) 0) then downsample QOps Item (nr / sk_rho sk) (sk_smp sk) s else (sk_smp sk, s))
                 = (sk_smp sk, s)).
    { destruct (qleb_spec (sk_cw sk) 0) as [_|Hpos]; cbn [negb]; [reflexivity|].
      apply downsample_ge1.
      assert (NE : items <> []).
      { intro H. unfold m in Ecw. rewrite H in Ecw. cbn [length Z.of_nat] in Ecw.
        change (inject_Z 0) with 0 in Ecw. lra. }
      destruct (Enz NE) as [_ Er]. rewrite Hnr, Er. apply Qle_shift_div_l.
      - apply qdiv_pos; lra.
      - lra. }
    rewrite DS.
    rewrite andb_negb_r. rewrite note_site_false.
    assert (Th : nr * w == 1) by (rewrite Hnr, Hw; field; lra).
    assert (Hint : sc (sk_smp sk) == fl (sc (sk_smp sk))).
    { unfold fl. rewrite Ec. unfold m. now rewrite Qfloor_Z. }
    rewrite (smerge_full_int _ it _ s Hint Th).
    set (sm2 := Build_sample QOps Item (sc (sk_smp sk) + nr * w) (sdata (sk_smp sk) ++ [it]) None).
    assert (C2 : sc sm2 == inject_Z (Z.of_nat (length (items ++ [it])))).
    { cbn [sc sm2]. rewrite app_length. cbn [length]. rewrite Nat.add_1_r, injZ_succ_nat. fold m. rewrite Ec, Th. reflexivity. }
    assert (Sh2 : Shape Item sm2).
    { unfold Shape. splits.
      - rewrite C2. change 0 with (inject_Z 0). rewrite <- Zle_Qle. lia.
      - rewrite C2, Qfloor_Z, Nat2Z.id. cbn [sdata sm2]. now rewrite Ed.
      - split; [intros _|reflexivity]. unfold fl. rewrite C2. now rewrite Qfloor_Z. }
    rewrite (shape_ok_true Item sm2 Sh2). cbn [negb]. rewrite andb_false_r, note_site_false.
    eexists; split; [reflexivity|].
    unfold EqInv; cbn [sk_k sk_n sk_cw sk_wmax sk_rho sk_smp]. fold sm2.
    splits; auto.
    all: try exact C2.
    all: try (intros _; split; [exact Wm|exact Hnr]).
    all: try (cbn [sdata sm2]; now rewrite Ed).
    all: try (rewrite En, app_length; cbn [length]; lia).
    all: try (rewrite app_length; cbn [length]; rewrite Nat.add_1_r, injZ_succ_nat; fold m; rewrite Ecw, Hw; ring).
    all: try lra.
  Qed.

  Lemma run_updates_equal k w0 : (1 <= k)%Z -> 0 < w0 ->
    forall ups pre (sk : qsketch) (s : qcs),
    Forall (fun u => accepted (snd u) = true -> snd u == w0) ups ->
    (Z.of_nat (length pre + length (acc_items ups)) <= k)%Z ->
    EqInv k w0 pre sk ->
    exists sk', run_updates QOps Item sk ups s = (sk', s) /\ EqInv k w0 (pre ++ acc_items ups) sk'.
  Proof.
    intros Hk Hw0. induction ups as [|[it w] ups IH]; intros pre sk s HF Hlen I; cbn [run_updates acc_items].
    - exists sk. rewrite app_nil_r. auto.
    - inversion HF as [|u l Hu HF']; subst. cbn [snd] in Hu.
      cbn [acc_items] in Hlen. revert Hlen Hu.
      destruct (accepted w) eqn:Ea; intros Hlen Hu.
      + assert (Hw : 0 < w) by (now apply accepted_true).
        cbn [length] in Hlen.
        destruct (update_equal k w0 pre sk it w s Hk Hw0 (Hu eq_refl)) as (sk1 & EU & I1); auto; [lia|].
        rewrite EU.
        destruct (IH (pre ++ [it]) sk1 s HF') as (sk' & ER & I'); auto.
        * rewrite app_length. cbn [length]. lia.
        * exists sk'. split; auto. now rewrite <- app_assoc in I'.
      + assert (Hw : w <= 0) by (now apply accepted_false).
        pose proof (update_nonpos Item sk it w s Hw) as EU.
        destruct (update QOps Item sk it w s) as [[sk1 s1]|]; [inversion EU; subst|]; apply IH; auto.
  Qed.

  Lemma EqInv_empty k w0 : 0 < w0 -> EqInv k w0 [] (sketch_empty QOps Item k).
  Proof.
    intro H. unfold EqInv, sketch_empty, sample_empty; cbn [sk_k sk_n sk_cw sk_wmax sk_rho sk_smp sc sdata spart length]; qs.
    splits; auto; try reflexivity; try lra.
    all: try (intro E; congruence).
    all: try (cbn [Z.of_nat]; change (inject_Z 0) with 0; rewrite Qmult_0_l; reflexivity).
  Qed.

  (* equal weights, n <= k: the sample is exactly the input, c = n, no partial item, and no random draw was used *)
  Theorem equal_weights_keep_all k w0 ups (s : qcs) :
    (1 <= k)%Z -> 0 < w0 ->
    Forall (fun u => accepted (snd u) = true -> snd u == w0) ups ->
    (Z.of_nat (length (acc_items ups)) <= k)%Z ->
    exists sk, run_updates QOps Item (sketch_empty QOps Item k) ups s = (sk, s) /\
      sdata (sk_smp sk) = acc_items ups /\ spart (sk_smp sk) = None /\
      sc (sk_smp sk) == inject_Z (Z.of_nat (length (acc_items ups))) /\
      sk_n sk = Z.of_nat (length (acc_items ups)) /\
      forall s1, fst (get_result QOps Item (sk_smp sk) s1) = acc_items ups.
  Proof.
    intros Hk Hw0 HF Hlen.
    destruct (run_updates_equal k w0 Hk Hw0 ups [] (sketch_empty QOps Item k) s HF) as (sk & ER & I); auto.
    { apply EqInv_empty; auto. }
    cbn [app] in I. destruct I as (Ek & En & Ecw & Emx & Enz & Ec & Ed & Ep).
    exists sk. splits; auto.
    intro s1. unfold get_result. destruct (draw_unit QOps s1) as [u s2].
    rewrite Ep. destruct (nltb QOps u _); cbn [fst]; exact Ed.
  Qed.

  (* a stream of updates is a history *)
  Definition hist_of (k : Z) (ups : list (Item * Q)) : hist Item :=
    fold_left (fun h u => HUpd Item h (fst u) (snd u)) ups (HNew Item k).

  Lemma eval_fold_upd ups : forall h (s : qcs),
    eval Item (fold_left (fun h u => HUpd Item h (fst u) (snd u)) ups h) s =
    (let (sk, s1) := eval Item h s in run_updates QOps Item sk ups s1).
  Proof.
    induction ups as [|[it w] ups IH]; intros h s; cbn [fold_left run_updates].
    - destruct (eval Item h s); reflexivity.
    - rewrite IH. cbn [eval fst snd]. destruct (eval Item h s) as [sk s1].
      destruct (update QOps Item sk it w s1) as [[sk' s']|]; reflexivity.
  Qed.

  Lemma eval_hist_of k ups (s : qcs) :
    eval Item (hist_of k ups) s = run_updates QOps Item (sketch_empty QOps Item k) ups s.
  Proof. unfold hist_of. rewrite eval_fold_upd. reflexivity. Qed.
End Equal.
