(* Regression_fi.v — the frequent-items defect that was repaired in the C++ (fixes/12_1_fi_merge_purged_empty.patch),
   kept as a theorem about the OLD code: merge() returned at once when the operand had no active counter, although a
   sketch whose counters were all removed by a purge still carries a total weight and an offset. *)
From Coq Require Import ZArith NArith List Bool Lia.
From DS Require Import Word Murmur3 RunnerLib FiDefs.
Import ListNotations.
Local Open Scope Z_scope.

(* the old merge: identical to FiDefs.sk_merge except for the early-return test *)
Definition sk_merge_old (kind : Z) (a b : sk) : sk :=
  if nact _ (sk_map _ b) =? 0 then a else
  let a' := sk_replay item item_eqb (fi_hash kind) a (entries item (sk_map _ b)) in
  {| sk_tot := sk_tot _ a + sk_tot _ b; sk_off := sk_off _ a' + sk_off _ b; sk_map := sk_map _ a' |}.

Definition feed_u64 (s : sk) (l : list (Z * Z)) : sk := fold_left (fun s xw => upd 0 s [fst xw] (snd xw)) l s.
Definition wsum (l : list (Z * Z)) : Z := fold_right (fun xw acc => snd xw + acc) 0 l.
Definition wof (l : list (Z * Z)) (x : Z) : Z := fold_right (fun xw acc => if fst xw =? x then snd xw + acc else acc) 0 l.
Definition ub_u64 (s : sk) (v : Z) := sk_ub item item_eqb (fi_hash 0) s [v].

(* the property clause: after a merge the total weight is the sum of all update weights and every upper bound is at least
   the true weight *)
Definition merge_ok (merge : sk -> sk -> sk) (la lb : list (Z * Z)) : Prop :=
  let m := merge (feed_u64 (sk_new item 3 3) la) (feed_u64 (sk_new item 3 3) lb) in
  sk_tot _ m = wsum la + wsum lb /\ forall x, In x (map fst (la ++ lb)) -> wof (la ++ lb) x <= ub_u64 m x.

Definition la0 : list (Z * Z) := [(100, 5)].
Definition lb0 : list (Z * Z) := [(0,1);(1,1);(2,1);(3,1);(4,1);(5,1);(6,1)].   (* the purge (median 1) wipes the map *)

(* old code: total 5 instead of 12 (and upper bound of item 0 is 0 < 1) *)
Theorem merge_purged_empty_refuted : exists la lb, ~ merge_ok (sk_merge_old 0) la lb.
Proof.
  exists la0, lb0. intros [H _]. vm_compute in H. discriminate.
Qed.

(* repaired code (the model in FiDefs.v) on the same history *)
Example merge_purged_empty_repaired : merge_ok (sk_merge item item_eqb (fi_hash 0)) la0 lb0.
Proof.
  split; [vm_compute; reflexivity|].
  intros x Hin. vm_compute in Hin.
  repeat (destruct Hin as [<-|Hin]; [vm_compute; discriminate|]). contradiction.
Qed.

Print Assumptions merge_purged_empty_refuted.
