(* Properties_C02_payload.v — the summaries held by the union of property C02's polymorphic model.  Proved once by the Tuple
   family (TupleUnionProofs.union_summary) and transported to ThetaSetDefs through the definitional bridge TupleBridge; this
   is the only C02 property file that depends on Tuple files (see ThetaSetUnionPayload.v). *)
From Coq Require Import ZArith NArith List Bool Lia Permutation Sorted.
From DS Require Import Word RunnerLib OpenAddr KSmallest Canon ThetaDefs ThetaFacts ThetaSetDefs ThetaSetWf ThetaSetUnion
  TupleDefs TupleUnionProofs ThetaSetUnionPayload.
Import ListNotations.
Local Open Scope N_scope.

(* for any payload type, any policy, any nth_element meeting its postcondition, any union configuration and any sequence of
   well-formed compact inputs: the summary of every key of the result is the policy folded, in presentation order, over the
   summaries the non-empty inputs hold for that key, the first one stored as it came *)
Theorem C02_union_summary : forall S (sel : nat -> list (N * S) -> list (N * S)),
  (forall k l, (k < length l)%nat -> nth_post fst k l (sel k l)) ->
  forall (comb : S -> S -> S) lgk r th0 sh, 5 <= lgk -> forall cs : list (compact S), Forall (cwf S) cs ->
  exists u, ThetaSetUnion.union_fold S sel comb (ThetaSetDefs.union_new S lgk r th0 sh) (map (input_of_compact S sh) cs) = Some u /\
    forall ordered h v, In (h, v) (in_entries (ThetaSetDefs.union_result S sel u ordered)) ->
      exists v1 vs, hsummaries S h cs = v1 :: vs /\ v = fold_left comb vs v1.
Proof. intros S sel sel_ok comb lgk r th0 sh Hk. exact (union_summary_spec S sel sel_ok comb lgk r th0 sh Hk). Qed.

Print Assumptions C02_union_summary.
