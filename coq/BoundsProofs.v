(* BoundsProofs.v — lemmas about the estimate / confidence-bound model (C06).
   Part 1: ordering facts of the clamp expressions for ANY comparison that is irreflexive and asymmetric
           (std::min/std::max/fmax/if-clamps), for any value of the inner approximations.
   Part 2: the IEEE-754 binary64 comparison of Coq's primitive floats is such a comparison — for ALL floats,
           NaN and infinities included (from the FloatAxioms specification FloatAxioms.ltb_spec / FloatAxioms.leb_spec / FloatAxioms.eqb_spec).
   Part 3: exact rational arithmetic: the relative-error divisions keep the order, widening in the number of std devs.
   Part 4: HIP accumulators dominate the number of non-zero registers / coupons (exact arithmetic, abstract register model). *)
From Coq Require Import ZArith NArith List Bool Floats Uint63 QArith Qround Qminmax Lia Lqa SpecFloat.
From DS Require Import RunnerLib FloatBits BoundsDefs.
Import ListNotations.
Local Open Scope Z_scope.

(* ------------------------------------------------------------------------------------------------ *)
(* Part 1: generic                                                                                     *)
(* ------------------------------------------------------------------------------------------------ *)
Section Order.
  Context {T : Type} (O : NumOps T).
  Hypothesis lt_irrefl : forall a, nltb O a a = false.
  Hypothesis lt_asym : forall a b, nltb O a b = true -> nltb O b a = false.
  Hypothesis le_not_lt : forall a b, nleb O a b = true -> nltb O b a = false.

  Lemma cmin_le_l a b : nltb O a (cmin O a b) = false.
  Proof. unfold cmin. destruct (nltb O b a) eqn:E; auto. Qed.
  Lemma cmin_le_r a b : nltb O b (cmin O a b) = false.
  Proof. unfold cmin. destruct (nltb O b a) eqn:E; auto. Qed.
  Lemma cmax_ge_l a b : nltb O (cmax O a b) a = false.
  Proof. unfold cmax. destruct (nltb O a b) eqn:E; auto. Qed.
  Lemma cmax_ge_r a b : nltb O (cmax O a b) b = false.
  Proof. unfold cmax. destruct (nltb O a b) eqn:E; auto. Qed.
  Lemma cmin_same a : cmin O a a = a.
  Proof. unfold cmin. destruct (nltb O a a); auto. Qed.
  Lemma cmax_same a : cmax O a a = a.
  Proof. unfold cmax. destruct (nltb O a a); auto. Qed.

  (* fmax(x, y) is never below y *)
  Lemma cfmax_ge_r x y : nltb O (cfmax O x y) y = false.
  Proof.
    unfold cfmax. destruct (nleb O y x) eqn:E1; [now apply le_not_lt|].
    destruct (nltb O x y) eqn:E2; [apply lt_irrefl|].
    destruct (nisnan O y); [exact E2 | apply lt_irrefl].
  Qed.

  (* binomial_bounds::get_lower_bound <= estimate <= get_upper_bound, whatever the inner approximations return *)
  Lemma bb_lb_le_est n theta inner : nltb O (bb_est O n theta) (bb_lb O n theta inner) = false.
  Proof. apply cmin_le_l. Qed.
  Lemma bb_est_le_ub n theta inner : nltb O (bb_ub O n theta inner) (bb_est O n theta) = false.
  Proof. apply cmax_ge_l. Qed.
  (* the upper bound is never below the inner approximation either *)
  Lemma bb_inner_le_ub n theta inner : nltb O (bb_ub O n theta inner) inner = false.
  Proof. apply cmax_ge_r. Qed.

  (* clamps of cpc_confidence and the ICON estimator: the result is never below the coupon count *)
  Lemma cpc_lb_ge_coupons c est eps : c <> 0 -> nltb O (cpc_lb O c est eps) (nofZ O c) = false.
  Proof.
    intros Hc. unfold cpc_lb. destruct (Z.eqb_spec c 0); [contradiction|].
    cbv zeta. destruct (nltb O (ndiv O est (nadd O (none O) eps)) (nofZ O c)) eqn:E; [apply lt_irrefl | exact E].
  Qed.
  Lemma icon_clamp_ge_coupons r c : nltb O (icon_clamp O r c) (nofZ O c) = false.
  Proof. unfold icon_clamp. destruct (nleb O (nofZ O c) r) eqn:E; [now apply le_not_lt | apply lt_irrefl]. Qed.

  (* CouponList and HllArray: estimate / lower bound never below the coupon count / number of non-zero registers *)
  Lemma coupon_est_ge_count cubic count : nltb O (coupon_est O cubic count) (nofZ O count) = false.
  Proof. apply cfmax_ge_r. Qed.
  Lemma coupon_lb_ge_count cubic r count : nltb O (coupon_lb O cubic r count) (nofZ O count) = false.
  Proof. apply cfmax_ge_r. Qed.
  Lemma coupon_ub_ge_count cubic r count : nltb O (coupon_ub O cubic r count) (nofZ O count) = false.
  Proof. apply cfmax_ge_r. Qed.
  Lemma hll_lb_ge_nonzeros est re nnz : nltb O (hll_lb O est re nnz) (nofZ O nnz) = false.
  Proof. apply cfmax_ge_r. Qed.
End Order.

(* ------------------------------------------------------------------------------------------------ *)
(* Part 2: binary64                                                                                    *)
(* ------------------------------------------------------------------------------------------------ *)
Lemma SFcompare_antisym x y : SFcompare y x = option_map CompOpp (SFcompare x y).
Proof.
  destruct x as [sx|sx| |sx mx ex], y as [sy|sy| |sy my ey]; simpl; try reflexivity;
    try (destruct sx; reflexivity); try (destruct sy; reflexivity);
    try (destruct sx, sy; reflexivity).
  destruct sx, sy; simpl; try reflexivity.
  - rewrite (Z.compare_antisym ex ey). destruct (ex ?= ey)%Z; simpl; try reflexivity.
    pose proof (Pos.compare_cont_antisym mx my Eq) as H; simpl in H. now rewrite <- H.
  - rewrite (Z.compare_antisym ex ey). destruct (ex ?= ey)%Z; simpl; try reflexivity.
    pose proof (Pos.compare_cont_antisym mx my Eq) as H; simpl in H. now rewrite <- H.
Qed.

Lemma fltb_irrefl (a : float) : PrimFloat.ltb a a = false.
Proof.
  rewrite FloatAxioms.ltb_spec. unfold SFltb. pose proof (SFcompare_antisym (Prim2SF a) (Prim2SF a)) as H.
  destruct (SFcompare (Prim2SF a) (Prim2SF a)) as [[]|]; simpl in H; try reflexivity; discriminate.
Qed.

Lemma fltb_asym (a b : float) : PrimFloat.ltb a b = true -> PrimFloat.ltb b a = false.
Proof.
  rewrite !FloatAxioms.ltb_spec. unfold SFltb. rewrite (SFcompare_antisym (Prim2SF a) (Prim2SF b)).
  destruct (SFcompare (Prim2SF a) (Prim2SF b)) as [[]|]; simpl; intros; try reflexivity; discriminate.
Qed.

Lemma fleb_not_ltb (a b : float) : PrimFloat.leb a b = true -> PrimFloat.ltb b a = false.
Proof.
  rewrite FloatAxioms.leb_spec, FloatAxioms.ltb_spec. unfold SFleb, SFltb. rewrite (SFcompare_antisym (Prim2SF a) (Prim2SF b)).
  destruct (SFcompare (Prim2SF a) (Prim2SF b)) as [[]|]; simpl; intros; try reflexivity; discriminate.
Qed.

(* for non-NaN operands "not less" is "greater or equal" *)
Lemma fisnan_false_compare (a b : float) :
  fisnan a = false -> fisnan b = false -> SFcompare (Prim2SF a) (Prim2SF b) <> None.
Proof.
  unfold fisnan. rewrite !negb_false_iff, !FloatAxioms.eqb_spec. unfold SFeqb.
  destruct (Prim2SF a) as [sa|sa| |sa ma ea], (Prim2SF b) as [sb|sb| |sb mb eb]; simpl; intros Ha Hb; try discriminate.
Qed.

Lemma fnot_ltb_leb (a b : float) :
  fisnan a = false -> fisnan b = false -> PrimFloat.ltb a b = false -> PrimFloat.leb b a = true.
Proof.
  intros Ha Hb. pose proof (fisnan_false_compare a b Ha Hb) as Hc.
  rewrite FloatAxioms.ltb_spec, FloatAxioms.leb_spec. unfold SFltb, SFleb. rewrite (SFcompare_antisym (Prim2SF a) (Prim2SF b)).
  destruct (SFcompare (Prim2SF a) (Prim2SF b)) as [[]|]; simpl; intros; try reflexivity; try discriminate; congruence.
Qed.

(* instances of Part 1 for every binary64 value *)
Definition f_bb_lb_le_est := bb_lb_le_est fops fltb_irrefl fltb_asym.
Definition f_bb_est_le_ub := bb_est_le_ub fops fltb_irrefl fltb_asym.
Definition f_cfmax_ge_r := cfmax_ge_r fops fltb_irrefl fleb_not_ltb.
Definition f_cpc_lb_ge_coupons := cpc_lb_ge_coupons fops fltb_irrefl.
Definition f_icon_clamp_ge_coupons := icon_clamp_ge_coupons fops fltb_irrefl fleb_not_ltb.

(* 0 / y = +0 for every y > 0 (finite or +inf): the estimate of a sketch with no retained entries *)
Lemma fdiv_zero_pos (y : float) : PrimFloat.ltb PrimFloat.zero y = true -> PrimFloat.div PrimFloat.zero y = PrimFloat.zero.
Proof.
  intros H. apply Prim2SF_inj. rewrite FloatAxioms.div_spec. rewrite FloatAxioms.ltb_spec in H.
  change (Prim2SF PrimFloat.zero) with (S754_zero false) in *.
  destruct (Prim2SF y) as [sy|sy| |sy my ey]; simpl in H; try discriminate; destruct sy; try discriminate; reflexivity.
Qed.

Lemma fofZ_0 : fofZ 0 = PrimFloat.zero.
Proof. reflexivity. Qed.

Lemma theta_frac_max : theta_frac max_theta = PrimFloat.one.
Proof. vm_compute. reflexivity. Qed.

(* ------------------------------------------------------------------------------------------------ *)
(* Part 3: exact rational arithmetic                                                                   *)
(* ------------------------------------------------------------------------------------------------ *)
Local Open Scope Q_scope.

Lemma Qle_bool_false_lt a b : Qle_bool a b = false -> b < a.
Proof.
  intros H. apply Qnot_le_lt. intros C. apply Qle_bool_iff in C. congruence.
Qed.

Lemma q_lt_irrefl (a : Q) : nltb qops a a = false.
Proof. cbn. unfold Qltb. apply negb_false_iff. apply Qle_bool_iff. apply Qle_refl. Qed.
Lemma q_lt_asym (a b : Q) : nltb qops a b = true -> nltb qops b a = false.
Proof.
  cbn. unfold Qltb. rewrite negb_true_iff, negb_false_iff. intros H. apply Qle_bool_false_lt in H.
  apply Qle_bool_iff. now apply Qlt_le_weak.
Qed.
Lemma q_le_not_lt (a b : Q) : nleb qops a b = true -> nltb qops b a = false.
Proof. cbn. unfold Qltb. intros H. now rewrite H. Qed.

Lemma q_ltb_false a b : nltb qops a b = false <-> b <= a.
Proof. cbn. unfold Qltb. rewrite negb_false_iff. apply Qle_bool_iff. Qed.
Lemma q_ltb_true a b : nltb qops a b = true <-> a < b.
Proof.
  cbn. unfold Qltb. rewrite negb_true_iff. split.
  - apply Qle_bool_false_lt.
  - intros H. destruct (Qle_bool b a) eqn:E; auto. apply Qle_bool_iff in E. exfalso. eapply Qlt_not_le; eauto.
Qed.

(* over Q, fmax is the maximum *)
Lemma q_cfmax x y : cfmax qops x y = if Qle_bool y x then x else y.
Proof.
  unfold cfmax. cbn. destruct (Qle_bool y x) eqn:E; auto. unfold Qltb. now rewrite E.
Qed.
Lemma q_cfmax_ge_l x y : x <= cfmax qops x y.
Proof. rewrite q_cfmax. destruct (Qle_bool y x) eqn:E; [apply Qle_refl|]. apply Qlt_le_weak. now apply Qle_bool_false_lt. Qed.
Lemma q_cfmax_ge_r x y : y <= cfmax qops x y.
Proof. rewrite q_cfmax. destruct (Qle_bool y x) eqn:E; [now apply Qle_bool_iff | apply Qle_refl]. Qed.
Lemma q_cfmax_lub x y z : x <= z -> y <= z -> cfmax qops x y <= z.
Proof. rewrite q_cfmax. destruct (Qle_bool y x); auto. Qed.
Lemma q_cfmax_mono x x' y : x <= x' -> cfmax qops x y <= cfmax qops x' y.
Proof.
  intros H. apply q_cfmax_lub; [eapply Qle_trans; [exact H | apply q_cfmax_ge_l] | apply q_cfmax_ge_r].
Qed.

(* division by a factor >= 1 shrinks a non-negative value, by a factor in (0,1] it grows *)
Lemma q_div_le_self e d : 0 <= e -> 1 <= d -> e / d <= e.
Proof. intros He Hd. apply Qle_shift_div_r; [lra | nra]. Qed.
Lemma q_div_ge_self e d : 0 <= e -> 0 < d -> d <= 1 -> e <= e / d.
Proof. intros He Hd Hd1. apply Qle_shift_div_l; [lra | nra]. Qed.
Lemma q_div_antitone e d1 d2 : 0 <= e -> 0 < d1 -> d1 <= d2 -> e / d2 <= e / d1.
Proof.
  intros He H1 H2. apply Qle_shift_div_r; [lra|].
  assert (H : e / d1 * d2 == e * (d2 / d1)) by (field; lra). rewrite H.
  assert (1 <= d2 / d1) by (apply Qle_shift_div_l; lra). nra.
Qed.
Lemma q_div_neg_le e d : e <= 0 -> 0 < d -> e / d <= 0.
Proof. intros. apply Qle_shift_div_r; lra. Qed.

Theorem q_hll_order est re_lo re_hi nnz :
  0 < re_lo -> -1 < re_hi -> re_hi < 0 -> inject_Z nnz <= est -> 0 <= est ->
  inject_Z nnz <= hll_lb qops est re_lo nnz /\ hll_lb qops est re_lo nnz <= est /\ est <= hll_ub qops est re_hi.
Proof.
  intros H1 H2 H3 H4 H5. unfold hll_lb, hll_ub. cbn [ndiv nadd none qops nofZ]. repeat split.
  - apply q_cfmax_ge_r.
  - apply q_cfmax_lub; auto. apply q_div_le_self; lra.
  - apply q_div_ge_self; lra.
Qed.
Theorem q_hll_widen est re1 re2 nnz : 0 <= est -> 0 < re1 -> re1 <= re2 ->
  hll_lb qops est re2 nnz <= hll_lb qops est re1 nnz.
Proof.
  intros. unfold hll_lb. cbn [ndiv nadd none qops nofZ]. apply q_cfmax_mono. apply q_div_antitone; lra.
Qed.
Theorem q_hll_widen_ub est re1 re2 : 0 <= est -> -1 < re2 -> re2 <= re1 ->
  hll_ub qops est re1 <= hll_ub qops est re2.
Proof. intros. unfold hll_ub. cbn [ndiv nadd none qops]. apply q_div_antitone; lra. Qed.

(* CouponList: lb <= estimate <= ub, all three never below the coupon count *)
Theorem q_coupon_order cubic r count : (0 <= count)%Z -> 0 <= r -> r < 1 ->
  inject_Z count <= coupon_lb qops cubic r count /\
  coupon_lb qops cubic r count <= coupon_est qops cubic count /\
  coupon_est qops cubic count <= coupon_ub qops cubic r count.
Proof.
  intros Hc H0 H1. assert (Hc' : 0 <= inject_Z count) by (change 0 with (inject_Z 0); now rewrite <- Zle_Qle).
  unfold coupon_lb, coupon_est, coupon_ub. cbn [ndiv nadd nsub none qops nofZ]. repeat split.
  - apply q_cfmax_ge_r.
  - apply q_cfmax_lub; [|apply q_cfmax_ge_r].
    destruct (Qlt_le_dec cubic 0) as [Hn|Hp].
    + eapply Qle_trans; [apply q_div_neg_le; lra|]. eapply Qle_trans; [exact Hc' | apply q_cfmax_ge_r].
    + eapply Qle_trans; [apply q_div_le_self; lra | apply q_cfmax_ge_l].
  - apply q_cfmax_lub; [|apply q_cfmax_ge_r].
    destruct (Qlt_le_dec cubic 0) as [Hn|Hp].
    + eapply Qle_trans; [|apply q_cfmax_ge_r]. lra.
    + eapply Qle_trans; [apply (q_div_ge_self cubic (1 - r)); lra | apply q_cfmax_ge_l].
Qed.
Theorem q_coupon_widen cubic r1 r2 count : 0 <= cubic -> 0 <= r1 -> r1 <= r2 -> r2 < 1 ->
  coupon_lb qops cubic r2 count <= coupon_lb qops cubic r1 count /\
  coupon_ub qops cubic r1 count <= coupon_ub qops cubic r2 count.
Proof.
  intros. unfold coupon_lb, coupon_ub. cbn [ndiv nadd nsub none qops nofZ].
  split; apply q_cfmax_mono; apply q_div_antitone; lra.
Qed.

Lemma Qceil_ge x : x <= Qceil x.
Proof.
  unfold Qceil. rewrite inject_Z_opp. pose proof (Qfloor_le (- x)). lra.
Qed.
Lemma Qceil_mono x y : x <= y -> Qceil x <= Qceil y.
Proof.
  intros H. unfold Qceil. rewrite <- Zle_Qle. apply Z.opp_le_mono. rewrite !Z.opp_involutive.
  apply Qfloor_resp_le. lra.
Qed.

(* cpc_confidence: coupons <= lb <= estimate <= ub *)
Theorem q_cpc_order c est eps_lo eps_hi : (0 < c)%Z -> inject_Z c <= est -> 0 < eps_lo -> 0 <= eps_hi -> eps_hi < 1 ->
  inject_Z c <= cpc_lb qops c est eps_lo /\ cpc_lb qops c est eps_lo <= est /\ est <= cpc_ub qops c est eps_hi.
Proof.
  intros Hc Hce H1 H2 H3.
  assert (Hc' : 0 < inject_Z c) by (change 0 with (inject_Z 0); now rewrite <- Zlt_Qlt).
  unfold cpc_lb, cpc_ub. destruct (Z.eqb_spec c 0); [lia|]. cbn [ndiv nadd nsub none qops nofZ nltb nceil].
  assert (Hd : est / (1 + eps_lo) <= est) by (apply q_div_le_self; lra).
  repeat split.
  - destruct (Qltb (est / (1 + eps_lo)) (inject_Z c)) eqn:E; [apply Qle_refl|]. now apply (q_ltb_false _ _).
  - destruct (Qltb (est / (1 + eps_lo)) (inject_Z c)) eqn:E; auto.
  - eapply Qle_trans; [apply (q_div_ge_self est (1 - eps_hi)); lra | apply Qceil_ge].
Qed.
Theorem q_cpc_zero est eps : cpc_lb qops 0 est eps = 0 /\ cpc_ub qops 0 est eps = 0.
Proof. split; reflexivity. Qed.
Theorem q_cpc_widen c est e1 e2 : 0 <= est -> 0 < e1 -> e1 <= e2 -> e2 < 1 ->
  cpc_lb qops c est e2 <= cpc_lb qops c est e1 /\ cpc_ub qops c est e1 <= cpc_ub qops c est e2.
Proof.
  intros He H1 H2 H3. unfold cpc_lb, cpc_ub. destruct (Z.eqb_spec c 0); [split; apply Qle_refl|].
  cbn [ndiv nadd nsub none qops nofZ nltb nceil].
  assert (Hd : est / (1 + e2) <= est / (1 + e1)) by (apply q_div_antitone; lra).
  split.
  - destruct (Qltb (est / (1 + e2)) (inject_Z c)) eqn:E2, (Qltb (est / (1 + e1)) (inject_Z c)) eqn:E1;
      try apply Qle_refl; auto.
    + now apply (q_ltb_false _ _).
    + apply (q_ltb_true _ _) in E1. apply (q_ltb_false _ _) in E2. lra.
  - apply Qceil_mono. apply q_div_antitone; lra.
Qed.

(* widening passes through the std::min / std::max clamps of binomial_bounds *)
Lemma q_cmin a b : cmin qops a b == Qmin a b.
Proof.
  unfold cmin. destruct (nltb qops b a) eqn:E.
  - apply (q_ltb_true _ _) in E. symmetry. apply Q.min_r. lra.
  - apply (q_ltb_false _ _) in E. symmetry. apply Q.min_l. lra.
Qed.
Lemma q_cmax a b : cmax qops a b == Qmax a b.
Proof.
  unfold cmax. destruct (nltb qops a b) eqn:E.
  - apply (q_ltb_true _ _) in E. symmetry. apply Q.max_r. lra.
  - apply (q_ltb_false _ _) in E. symmetry. apply Q.max_l. lra.
Qed.
Theorem q_bb_widen n theta i1 i2 j1 j2 : i2 <= i1 -> j1 <= j2 ->
  bb_lb qops n theta i2 <= bb_lb qops n theta i1 /\ bb_ub qops n theta j1 <= bb_ub qops n theta j2.
Proof.
  intros Hi Hj. unfold bb_lb, bb_ub. rewrite !q_cmin, !q_cmax. split.
  - apply Q.min_le_compat_l. apply Q.max_le_compat_l. exact Hi.
  - apply Q.max_le_compat_l. exact Hj.
Qed.
(* lower bound >= min(estimate, n); with theta <= 1 the estimate is >= n, so lb >= n *)
Theorem q_bb_lb_ge_n n theta inner : 0 < theta -> theta <= 1 -> (0 <= n)%Z -> inject_Z n <= bb_lb qops n theta inner.
Proof.
  intros H0 H1 Hn. assert (Hn' : 0 <= inject_Z n) by (change 0 with (inject_Z 0); now rewrite <- Zle_Qle).
  unfold bb_lb, bb_est. rewrite q_cmin, q_cmax. cbn [ndiv nofZ qops]. apply Q.min_glb.
  - apply q_div_ge_self; lra.
  - apply Q.le_max_l.
Qed.

(* ------------------------------------------------------------------------------------------------ *)
(* Part 4: HIP accumulators                                                                            *)
(* ------------------------------------------------------------------------------------------------ *)
(* every HIP increment k / kxq is >= 1 as long as 0 < kxq <= k, so the accumulator dominates the number of increments *)
Lemma hip_step_ge k acc x : 0 < x -> x <= k -> acc + 1 <= hip_step qops k acc x.
Proof.
  intros H0 H1. unfold hip_step. cbn [nadd ndiv qops].
  assert (1 <= k / x) by (apply Qle_shift_div_l; lra). lra.
Qed.

Theorem hip_accum_ge_count (k : Q) (xs : list Q) (acc0 : Q) :
  Forall (fun x => 0 < x /\ x <= k) xs ->
  acc0 + inject_Z (Z.of_nat (length xs)) <= fold_left (hip_step qops k) xs acc0.
Proof.
  revert acc0. induction xs as [|x t IH]; intros acc0 H; cbn [fold_left length].
  - change (inject_Z (Z.of_nat 0)) with 0. lra.
  - inversion H as [|? ? [Hx0 Hxk] Ht]; subst.
    eapply Qle_trans; [|apply IH; exact Ht].
    pose proof (hip_step_ge k acc0 x Hx0 Hxk).
    rewrite Nat2Z.inj_succ. unfold Z.succ. rewrite inject_Z_plus. change (inject_Z 1) with 1. lra.
Qed.

(* abstract register array with the HIP rule of HllArray::hipAndKxQIncrementalUpdate:
   a register-raising update first adds k / kxq(old registers) to the accumulator, kxq = sum over slots of 2^-value *)
Definition pow2inv (v : Z) : Q := 1 / inject_Z (2 ^ v).
Definition kxq (regs : list Z) : Q := fold_right (fun v acc => pow2inv v + acc) 0 regs.
Record hipst : Type := { h_regs : list Z; h_hip : Q }.
Definition hip_update (s : hipst) (u : nat * Z) : hipst :=
  let '(i, v) := u in
  if (nth i (h_regs s) 0 <? v)%Z && (i <? length (h_regs s))%nat then
    {| h_regs := upd_nth i (fun _ => v) (h_regs s);
       h_hip := hip_step qops (inject_Z (Z.of_nat (length (h_regs s)))) (h_hip s) (kxq (h_regs s)) |}
  else s.
Definition hip_init (k : nat) : hipst := {| h_regs := repeat 0%Z k; h_hip := 0 |}.
Definition hip_run (k : nat) (ups : list (nat * Z)) : hipst := fold_left hip_update ups (hip_init k).
Definition count_nonzero (regs : list Z) : Z := Z.of_nat (length (filter (fun v => (0 <? v)%Z) regs)).

Lemma pow2inv_range v : (0 <= v)%Z -> 0 < pow2inv v /\ pow2inv v <= 1.
Proof.
  intros Hv. unfold pow2inv. assert (H : (1 <= 2 ^ v)%Z) by (apply (Z.pow_le_mono_r 2 0 v); lia).
  assert (Hq : 1 <= inject_Z (2 ^ v)) by (change 1 with (inject_Z 1); now rewrite <- Zle_Qle).
  split.
  - apply Qlt_shift_div_l; lra.
  - apply Qle_shift_div_r; lra.
Qed.

Lemma kxq_range regs : Forall (fun v => (0 <= v)%Z) regs -> regs <> [] ->
  0 < kxq regs /\ kxq regs <= inject_Z (Z.of_nat (length regs)).
Proof.
  induction regs as [|v t IH]; intros H Hne; [congruence|].
  inversion H as [|? ? Hv Ht]; subst. simpl kxq. cbn [length].
  rewrite Nat2Z.inj_succ. unfold Z.succ. rewrite inject_Z_plus. change (inject_Z 1) with 1.
  destruct (pow2inv_range v Hv) as [P0 P1].
  destruct t as [|w t'].
  - simpl. change (inject_Z 0) with 0. lra.
  - destruct (IH Ht ltac:(discriminate)) as [K0 K1]. lra.
Qed.

Lemma count_nonzero_upd i v regs : (0 < v)%Z -> (i < length regs)%nat ->
  (count_nonzero (upd_nth i (fun _ => v) regs) <= count_nonzero regs + 1)%Z.
Proof.
  unfold count_nonzero. revert i. induction regs as [|x t IH]; intros [|i] Hv Hi; simpl in *; try lia.
  - destruct (Z.ltb_spec 0 v); try lia. destruct (0 <? x)%Z; simpl; lia.
  - specialize (IH i Hv ltac:(lia)). destruct (0 <? x)%Z; simpl; lia.
Qed.

Lemma Forall_upd_nth {A} (P : A -> Prop) i (f : A -> A) l : Forall P l -> (forall x, P x -> P (f x)) -> Forall P (upd_nth i f l).
Proof.
  revert i. induction l as [|x t IH]; intros [|i] H Hf; simpl; auto; inversion H; subst; constructor; auto.
Qed.

Definition hip_inv (k : nat) (s : hipst) : Prop :=
  length (h_regs s) = k /\ Forall (fun v => (0 <= v)%Z) (h_regs s) /\ inject_Z (count_nonzero (h_regs s)) <= h_hip s.

Lemma hip_update_inv k s u : hip_inv k s -> hip_inv k (hip_update s u).
Proof.
  intros (Hl & Hp & Hc). destruct u as [i v]. unfold hip_update.
  destruct ((nth i (h_regs s) 0 <? v)%Z && (i <? length (h_regs s))%nat) eqn:E; [|repeat split; auto].
  apply andb_true_iff in E. destruct E as [E1 E2]. apply Z.ltb_lt in E1. apply Nat.ltb_lt in E2.
  assert (Hold : (0 <= nth i (h_regs s) 0)%Z).
  { rewrite Forall_forall in Hp. apply Hp. now apply nth_In. }
  assert (Hv : (0 < v)%Z) by lia.
  repeat split; cbn [h_regs h_hip].
  - now rewrite upd_nth_length.
  - apply Forall_upd_nth; auto. intros; lia.
  - assert (Hne : h_regs s <> []) by (destruct (h_regs s); simpl in E2; [lia | discriminate]).
    destruct (kxq_range (h_regs s) Hp Hne) as [K0 K1].
    pose proof (hip_step_ge _ (h_hip s) _ K0 K1) as Hs.
    pose proof (count_nonzero_upd i v (h_regs s) Hv E2) as Hn.
    rewrite Zle_Qle in Hn. rewrite inject_Z_plus in Hn. change (inject_Z 1) with 1 in Hn. lra.
Qed.

Theorem hip_ge_nonzeros k ups : inject_Z (count_nonzero (h_regs (hip_run k ups))) <= h_hip (hip_run k ups).
Proof.
  assert (H : hip_inv k (hip_run k ups)).
  { unfold hip_run. assert (H0 : hip_inv k (hip_init k)).
    { repeat split; cbn [hip_init h_regs h_hip].
      - apply repeat_length.
      - apply Forall_forall. intros x Hx. apply repeat_spec in Hx. lia.
      - unfold count_nonzero. replace (filter _ (repeat 0%Z k)) with (@nil Z); [simpl; change (inject_Z 0) with 0; lra|].
        induction k; simpl; auto. }
    revert H0. generalize (hip_init k). induction ups as [|u t IH]; intros s Hs; simpl; auto.
    apply IH. now apply hip_update_inv. }
  apply H.
Qed.
