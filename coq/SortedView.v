(* SortedView.v — model of common/include/quantiles_sorted_view{,_impl}.hpp, generic over the item type [T]
   and its comparator [ltb] (the C++ template parameter C, a strict weak order).  Shared by the KLL, REQ and
   classic quantiles models.  First part: executable definitions (mirroring the code); second part: lemmas.

   Ranks are represented by their integer numerators (cumulative weights); the implementation returns
   numerator / total_weight as a double.  Quantile queries take the integer weight the implementation
   derives from the normalized rank ([weight_of_rank] gives it exactly for dyadic ranks j / 2^t). *)
From Coq Require Import ZArith List Bool Lia Permutation Sorted QArith.
Import ListNotations.
Local Open Scope Z_scope.

Section SV.
  Variable T : Type.
  Variable ltb : T -> T -> bool.

  Definition entry : Type := (T * Z)%type.

  (* std::merge(a, b, comp): an element of the second range is taken only if it is strictly smaller *)
  Fixpoint sv_merge (a : list entry) : list entry -> list entry :=
    fix inner (b : list entry) : list entry :=
      match a, b with
      | [], _ => b
      | _, [] => a
      | x :: a', y :: b' => if ltb (fst y) (fst x) then y :: inner b' else x :: sv_merge a' b
      end.

  (* quantiles_sorted_view::add(first, last, weight): push the new entries, then std::merge with what was
     there (when nothing was there the new entries are kept as they are: sv_merge [] b = b) *)
  Definition sv_add (es : list entry) (items : list T) (w : Z) : list entry :=
    sv_merge es (map (fun x => (x, w)) items).

  (* convert_to_cummulative: running sums; total_weight_ ends as the sum of all weights *)
  Fixpoint sv_cum (acc : Z) (es : list entry) : list entry :=
    match es with
    | [] => []
    | (x, w) :: r => (x, acc + w) :: sv_cum (acc + w) r
    end.

  Definition sv_total (es : list entry) : Z := fold_right (fun e a => snd e + a) 0 es.

  (* a finished view: cumulative entries and the total weight *)
  Record view := mkview { v_entries : list entry; v_total : Z }.

  Definition sv_finish (es : list entry) : view := {| v_entries := sv_cum 0 es; v_total := sv_total es |}.

  (* get_rank: std::upper_bound (inclusive) / std::lower_bound (exclusive) on the items, then the cumulative
     weight of the entry just before (0 at the beginning).  On a partitioned range the binary search
     returns the first position where the predicate holds; that is what the scan computes. *)
  Fixpoint rank_scan (p : T -> bool) (prev : Z) (es : list entry) : Z :=
    match es with
    | [] => prev
    | (x, c) :: r => if p x then prev else rank_scan p c r
    end.

  Definition rank_pred (x : T) (incl : bool) : T -> bool :=
    if incl then (fun y => ltb x y) else (fun y => negb (ltb y x)).

  Definition rank_num (v : view) (x : T) (incl : bool) : Z := rank_scan (rank_pred x incl) 0 (v_entries v).

  (* get_quantile: lower_bound (inclusive) / upper_bound (exclusive) on the cumulative weights; past the
     end -> the last entry *)
  Fixpoint quant_scan (p : Z -> bool) (x0 : T) (es : list entry) : T :=
    match es with
    | [] => x0
    | (x, c) :: r => if p c then x else quant_scan p x r
    end.

  Definition quant_pred (w : Z) (incl : bool) : Z -> bool :=
    if incl then (fun c => negb (c <? w)) else (fun c => w <? c).

  Definition quantile_w (v : view) (w : Z) (incl : bool) : option T :=
    match v_entries v with
    | [] => None                                       (* "operation is undefined for an empty sketch" *)
    | (x, _) :: _ => Some (quant_scan (quant_pred w incl) x (v_entries v))
    end.

  (* weight = (uint64) (inclusive ? ceil(rank * total) : rank * total) for the dyadic rank j / 2^t
     (exact in double arithmetic while j * total < 2^53) *)
  Definition weight_of_rank (j t total : Z) (incl : bool) : Z :=
    if incl then - ((- (j * total)) / 2 ^ t) else (j * total) / 2 ^ t.

  (* check_split_points: consecutive split points strictly increasing under the comparator *)
  Fixpoint splits_ok (l : list T) : bool :=
    match l with
    | x :: ((y :: _) as r) => ltb x y && splits_ok r
    | _ => true
    end.

  Definition cdf_num (v : view) (splits : list T) (incl : bool) : option (list Z) :=
    match v_entries v with
    | [] => None
    | _ => if splits_ok splits then Some (map (fun x => rank_num v x incl) splits ++ [v_total v]) else None
    end.

  Fixpoint diffs (prev : Z) (l : list Z) : list Z :=
    match l with
    | [] => []
    | c :: r => (c - prev) :: diffs c r
    end.

  Definition pmf_num (v : view) (splits : list T) (incl : bool) : option (list Z) :=
    match cdf_num v splits incl with
    | Some c => Some (diffs 0 c)
    | None => None
    end.

  (* canonical listing used by the correspondence: for every maximal run of equivalent items the item and
     the cumulative weight at the end of the run (independent of how ties are ordered) *)
  Fixpoint groups (es : list entry) : list entry :=
    match es with
    | [] => []
    | (x, c) :: r =>
        match r with
        | (y, _) :: _ => if ltb x y then (x, c) :: groups r else groups r
        | [] => [(x, c)]
        end
    end.
End SV.

Arguments mkview {T}.
Arguments v_entries {T}.
Arguments v_total {T}.

(* ===================================================================================================== *)
(* Lemmas.  The comparator is assumed to be a strict weak order.                                          *)
(* ===================================================================================================== *)
(* strict weak order: irreflexive, transitive, and "not greater" is transitive (incomparability is an equivalence).
   Every lemma below that needs the order takes one argument of this type. *)
Record strict_weak {T : Type} (ltb : T -> T -> bool) : Prop := mk_strict_weak {
  swo_irrefl : forall a, ltb a a = false;
  swo_trans : forall a b c, ltb a b = true -> ltb b c = true -> ltb a c = true;
  swo_le_trans : forall a b c, ltb b a = false -> ltb c b = false -> ltb c a = false
}.

Section SVFacts.
  Variable T : Type.
  Variable ltb : T -> T -> bool.
  Hypothesis SWO : strict_weak ltb.

  Lemma lt_irrefl : forall a, ltb a a = false.
  Proof. apply (swo_irrefl _ SWO). Qed.
  Lemma lt_trans : forall a b c, ltb a b = true -> ltb b c = true -> ltb a c = true.
  Proof. apply (swo_trans _ SWO). Qed.
  Lemma le_trans : forall a b c, ltb b a = false -> ltb c b = false -> ltb c a = false.
  Proof. apply (swo_le_trans _ SWO). Qed.

  Notation entry := (entry T).
  Notation sv_merge := (sv_merge T ltb).
  Notation sv_add := (sv_add T ltb).
  Notation sv_cum := (sv_cum T).
  Notation sv_total := (sv_total T).
  Notation rank_scan := (rank_scan T).
  Notation rank_pred := (rank_pred T ltb).
  Notation rank_num := (rank_num T ltb).
  Notation quant_scan := (quant_scan T).
  Notation quantile_w := (quantile_w T).
  Notation cdf_num := (cdf_num T ltb).
  Notation pmf_num := (pmf_num T ltb).
  Notation splits_ok := (splits_ok T ltb).

  Definition le (a b : T) : Prop := ltb b a = false.          (* a <= b *)
  Definition ele (a b : entry) : Prop := le (fst a) (fst b).

  Lemma lt_asym a b : ltb a b = true -> ltb b a = false.
  Proof.
    intro H. destruct (ltb b a) eqn:E; auto.
    pose proof (lt_trans _ _ _ H E) as X. rewrite lt_irrefl in X. discriminate.
  Qed.

  Lemma le_refl a : le a a.
  Proof. apply lt_irrefl. Qed.

  Lemma le_tr a b c : le a b -> le b c -> le a c.
  Proof. unfold le. intros. eapply le_trans; eauto. Qed.

  Lemma lt_le a b : ltb a b = true -> le a b.
  Proof. apply lt_asym. Qed.

  Lemma le_total a b : le a b \/ le b a.
  Proof. unfold le. destruct (ltb b a) eqn:E; auto. right. now apply lt_asym. Qed.

  Lemma lt_le_trans a b c : ltb a b = true -> le b c -> ltb a c = true.
  Proof.
    unfold le. intros H1 H2. destruct (ltb a c) eqn:E; auto.
    pose proof (le_trans _ _ _ H2 E) as X. congruence.
  Qed.

  Lemma le_lt_trans a b c : le a b -> ltb b c = true -> ltb a c = true.
  Proof.
    unfold le. intros H1 H2. destruct (ltb a c) eqn:E; auto.
    pose proof (le_trans _ _ _ E H1) as X. congruence.
  Qed.

  Definition sorted_e (es : list entry) : Prop := StronglySorted ele es.
  Definition sorted_t (l : list T) : Prop := StronglySorted le l.

  Definition wsum (p : T -> bool) (es : list entry) : Z :=
    fold_right (fun e a => (if p (fst e) then snd e else 0) + a) 0 es.

  Definition weights_nonneg (es : list entry) : Prop := Forall (fun e => 0 <= snd e) es.
  Definition weights_pos (es : list entry) : Prop := Forall (fun e => 0 < snd e) es.

  (* ---------- merge ---------- *)
  Lemma sv_merge_nil_r a : sv_merge a [] = a.
  Proof. destruct a; reflexivity. Qed.

  Lemma sv_merge_perm : forall a b, Permutation (sv_merge a b) (a ++ b).
  Proof.
    induction a as [|x a IHa]; intro b; [destruct b; reflexivity|].
    induction b as [|y b IHb]; [simpl; now rewrite app_nil_r|].
    simpl. destruct (ltb (fst y) (fst x)).
    - etransitivity; [apply perm_skip, IHb|]. apply (Permutation_middle (x :: a) b y).
    - simpl. apply perm_skip. apply IHa.
  Qed.

  Lemma sv_merge_sorted : forall a b, sorted_e a -> sorted_e b -> sorted_e (sv_merge a b).
  Proof.
    induction a as [|x a IHa]; intros b Ha Hb; [destruct b; exact Hb|].
    induction b as [|y b IHb]; [simpl; exact Ha|].
    simpl. inversion Ha as [|? ? Ha' Fa]; inversion Hb as [|? ? Hb' Fb]; subst.
    destruct (ltb (fst y) (fst x)) eqn:E.
    - constructor; [apply IHb; auto|].
      change ((fix inner (b0 : list entry) : list entry :=
                 match b0 with [] => x :: a | y0 :: b' => if ltb (fst y0) (fst x) then y0 :: inner b' else x :: sv_merge a b0 end) b)
        with (sv_merge (x :: a) b).
      eapply Permutation_Forall; [symmetry; apply sv_merge_perm|].
      apply Forall_app; split; auto.
      assert (Hyx : ele y x) by (apply lt_le; exact E).
      constructor; auto.
      eapply Forall_impl; [|exact Fa]. intros e He. eapply le_tr; eauto.
    - constructor; [apply IHa; auto|].
      eapply Permutation_Forall; [symmetry; apply sv_merge_perm|].
      apply Forall_app; split; auto.
      constructor; [exact E|].
      eapply Forall_impl; [|exact Fb]. intros e He. unfold ele in *. eapply le_tr; eauto.
  Qed.

  Lemma wsum_app p a b : wsum p (a ++ b) = wsum p a + wsum p b.
  Proof. induction a; simpl; lia. Qed.

  Lemma wsum_perm p a b : Permutation a b -> wsum p a = wsum p b.
  Proof. induction 1; simpl; lia. Qed.

  Lemma sv_total_wsum es : sv_total es = wsum (fun _ => true) es.
  Proof. unfold sv_total, wsum. induction es; simpl; auto. Qed.

  Lemma sv_total_perm a b : Permutation a b -> sv_total a = sv_total b.
  Proof. rewrite !sv_total_wsum. apply wsum_perm. Qed.

  Lemma sv_total_app a b : sv_total (a ++ b) = sv_total a + sv_total b.
  Proof. rewrite !sv_total_wsum. apply wsum_app. Qed.

  Lemma map_pair_sorted items w : sorted_t items -> sorted_e (map (fun x => (x, w)) items).
  Proof.
    induction 1; simpl; constructor; auto.
    rewrite Forall_map. eapply Forall_impl; [|eassumption]. intros; assumption.
  Qed.

  Lemma sv_add_sorted es items w : sorted_e es -> sorted_t items -> sorted_e (sv_add es items w).
  Proof. intros. apply sv_merge_sorted; auto. now apply map_pair_sorted. Qed.

  Lemma sv_add_perm es items w : Permutation (sv_add es items w) (es ++ map (fun x => (x, w)) items).
  Proof. apply sv_merge_perm. Qed.

  Lemma weights_pos_perm a b : Permutation a b -> weights_pos a -> weights_pos b.
  Proof. intros. eapply Permutation_Forall; eauto. Qed.

  (* ---------- cumulative weights ---------- *)
  Lemma sv_cum_items acc es : map fst (sv_cum acc es) = map fst es.
  Proof. revert acc; induction es as [|[x w] r IH]; intro acc; simpl; [|rewrite IH]; auto. Qed.

  Lemma sv_cum_length acc es : length (sv_cum acc es) = length es.
  Proof. revert acc; induction es as [|[x w] r IH]; intro acc; simpl; auto. Qed.

  Lemma sv_cum_last acc es d : es <> [] -> snd (last (sv_cum acc es) d) = acc + sv_total es.
  Proof.
    revert acc; induction es as [|[x w] r IH]; intros acc H; [congruence|].
    destruct r as [|[x' w'] r'].
    - simpl. unfold sv_total; simpl. lia.
    - specialize (IH (acc + w) ltac:(discriminate)).
      simpl in IH |- *. rewrite IH. unfold sv_total; simpl. lia.
  Qed.

  (* the scan for the first entry satisfying an upward-closed predicate returns the weight below it *)
  Lemma rank_scan_wsum (p : T -> bool) : forall es acc,
    sorted_e es -> (forall a b, p a = true -> le a b -> p b = true) ->
    rank_scan p acc (sv_cum acc es) = acc + wsum (fun y => negb (p y)) es.
  Proof.
    induction es as [|[x w] r IH]; intros acc Hs Hp; simpl; [lia|].
    inversion Hs as [|? ? Hs' Fr]; subst.
    destruct (p x) eqn:E; simpl.
    - (* everything after also satisfies p: contributes nothing *)
      assert (Z0 : wsum (fun y => negb (p y)) r = 0).
      { clear IH Hs Hs'. induction r as [|e r IHr]; simpl; auto.
        inversion Fr; subst. rewrite (Hp x (fst e) E) by assumption. simpl. rewrite IHr; auto. }
      lia.
    - rewrite IH; auto. lia.
  Qed.

  Lemma rank_pred_up x incl : forall a b, rank_pred x incl a = true -> le a b -> rank_pred x incl b = true.
  Proof.
    destruct incl; simpl; intros a b H L.
    - eapply lt_le_trans; eauto.
    - apply negb_true_iff in H. apply negb_true_iff. eapply le_tr; eauto.
  Qed.

  (* what get_rank computes: the total weight of the entries <= x (inclusive) resp. < x (exclusive) *)
  Definition below (x : T) (incl : bool) (y : T) : bool := if incl then negb (ltb x y) else ltb y x.

  Theorem rank_num_spec es x incl : sorted_e es ->
    rank_num (sv_finish T es) x incl = wsum (below x incl) es.
  Proof.
    intro Hs. unfold rank_num, sv_finish; simpl.
    rewrite rank_scan_wsum; [|assumption|apply rank_pred_up].
    rewrite Z.add_0_l. unfold wsum. clear Hs. induction es as [|e r IH]; simpl; auto.
    rewrite IH. destruct incl; simpl; auto. now rewrite negb_involutive.
  Qed.

  Lemma wsum_mono p q es : weights_nonneg es -> (forall y, p y = true -> q y = true) -> wsum p es <= wsum q es.
  Proof.
    intros Hw Hpq. induction Hw as [|e r He Hr IH]; simpl; [lia|].
    destruct (p (fst e)) eqn:E; [rewrite (Hpq _ E); lia|]. destruct (q (fst e)); lia.
  Qed.

  Lemma wsum_nonneg p es : weights_nonneg es -> 0 <= wsum p es.
  Proof. induction 1; simpl; [lia|]. destruct (p (fst x)); lia. Qed.

  Lemma wsum_le_total p es : weights_nonneg es -> wsum p es <= sv_total es.
  Proof. intro H. rewrite sv_total_wsum. apply wsum_mono; auto. Qed.

  Theorem rank_monotone es x y incl : sorted_e es -> weights_nonneg es -> le x y ->
    rank_num (sv_finish T es) x incl <= rank_num (sv_finish T es) y incl.
  Proof.
    intros Hs Hw L. rewrite !rank_num_spec by assumption. apply wsum_mono; auto.
    intro z. unfold below. destruct incl.
    - rewrite !negb_true_iff. intro H. eapply le_tr; [exact H|exact L].
    - intro H. eapply lt_le_trans; eauto.
  Qed.

  Theorem rank_incl_ge_excl es x : sorted_e es -> weights_nonneg es ->
    rank_num (sv_finish T es) x false <= rank_num (sv_finish T es) x true.
  Proof.
    intros Hs Hw. rewrite !rank_num_spec by assumption. apply wsum_mono; auto.
    intro z. unfold below. intro H. apply negb_true_iff. now apply lt_asym.
  Qed.

  (* strictly below x inclusive <= exclusive at a strictly larger point *)
  Theorem rank_incl_le_excl_later es x y : sorted_e es -> weights_nonneg es -> ltb x y = true ->
    rank_num (sv_finish T es) x true <= rank_num (sv_finish T es) y false.
  Proof.
    intros Hs Hw L. rewrite !rank_num_spec by assumption. apply wsum_mono; auto.
    intro z. unfold below. rewrite negb_true_iff. intro H. eapply le_lt_trans; eauto.
  Qed.

  Theorem rank_bounds es x incl : sorted_e es -> weights_nonneg es ->
    0 <= rank_num (sv_finish T es) x incl <= v_total (sv_finish T es).
  Proof.
    intros Hs Hw. rewrite rank_num_spec by assumption. simpl. split; [now apply wsum_nonneg|now apply wsum_le_total].
  Qed.

  (* ---------- quantiles ---------- *)
  Lemma quant_scan_in p x0 es : In (quant_scan p x0 es) (x0 :: map fst es).
  Proof.
    revert x0; induction es as [|[x c] r IH]; intro x0; simpl; auto.
    destruct (p c); auto. destruct (IH x) as [H|H]; auto.
  Qed.

  Theorem quantile_in_view v w incl q : quantile_w v w incl = Some q -> In q (map fst (v_entries v)).
  Proof.
    unfold quantile_w. destruct (v_entries v) as [|[x c] r] eqn:E; [discriminate|].
    intro H; inversion H; subst; clear H.
    simpl. destruct (quant_pred w incl c); auto.
    destruct (quant_scan_in (quant_pred w incl) x r) as [H|H]; auto.
  Qed.

  Theorem quantile_empty_rejected v w incl : v_entries v = [] -> quantile_w v w incl = None.
  Proof. unfold quantile_w. now intros ->. Qed.

  Theorem quantile_nonempty_answers v w incl : v_entries v <> [] -> exists q, quantile_w v w incl = Some q.
  Proof. unfold quantile_w. destruct (v_entries v) as [|[x c] r]; [congruence|]. eauto. Qed.

  Lemma quant_scan_mono (p1 p2 : Z -> bool) : (forall c, p2 c = true -> p1 c = true) ->
    forall es x0, sorted_t (x0 :: map fst es) -> le (quant_scan p1 x0 es) (quant_scan p2 x0 es).
  Proof.
    intros Hp. induction es as [|[x c] r IH]; intros x0 Hs; simpl; [apply le_refl|].
    inversion Hs as [|? ? Hs' F0]; subst. simpl in Hs'.
    destruct (p1 c) eqn:E1.
    - destruct (p2 c); [apply le_refl|].
      destruct (quant_scan_in p2 x r) as [H|H]; [rewrite <- H; apply le_refl|].
      inversion Hs' as [|? ? ? Fx]; subst. rewrite Forall_forall in Fx. now apply Fx.
    - destruct (p2 c) eqn:E2; [rewrite (Hp _ E2) in E1; discriminate|]. now apply IH.
  Qed.

  Lemma sorted_e_items es : sorted_e es -> sorted_t (map fst es).
  Proof.
    induction 1; simpl; constructor; auto. rewrite Forall_map. assumption.
  Qed.

  Lemma sorted_items_e es : sorted_t (map fst es) -> sorted_e es.
  Proof.
    induction es as [|e r IH]; intro H; [constructor|].
    simpl in H. inversion H as [|? ? H1 F]; subst. constructor; [now apply IH|].
    rewrite Forall_map in F. exact F.
  Qed.

  (* the cumulative entries keep the order of the items *)
  Lemma sv_cum_sorted acc es : sorted_e es -> sorted_e (sv_cum acc es).
  Proof. intro H. apply sorted_items_e. rewrite sv_cum_items. now apply sorted_e_items. Qed.

  (* a larger weight (normalized rank) never gives a smaller quantile *)
  Theorem quantile_monotone v w1 w2 incl q1 q2 : sorted_e (v_entries v) -> w1 <= w2 ->
    quantile_w v w1 incl = Some q1 -> quantile_w v w2 incl = Some q2 -> le q1 q2.
  Proof.
    unfold quantile_w. intros Hs Hw. destruct (v_entries v) as [|[x c] r] eqn:E; [discriminate|].
    intros [= <-] [= <-].
    apply (quant_scan_mono (quant_pred w1 incl) (quant_pred w2 incl)) with (es := (x, c) :: r) (x0 := x).
    - intro c0. unfold quant_pred. destruct incl; rewrite ?negb_true_iff, ?Z.ltb_lt, ?Z.ltb_ge; lia.
    - apply sorted_e_items in Hs. simpl in Hs. constructor; auto.
      constructor; [apply le_refl|]. inversion Hs; subst; assumption.
  Qed.

  (* inclusive quantile <= exclusive quantile for the same weight *)
  Theorem quantile_incl_le_excl v w q1 q2 : sorted_e (v_entries v) ->
    quantile_w v w true = Some q1 -> quantile_w v w false = Some q2 -> le q1 q2.
  Proof.
    unfold quantile_w. intros Hs. destruct (v_entries v) as [|[x c] r] eqn:E; [discriminate|].
    intros [= <-] [= <-].
    apply (quant_scan_mono (quant_pred w true) (quant_pred w false)) with (es := (x, c) :: r) (x0 := x).
    - intro c0. unfold quant_pred. rewrite ?negb_true_iff, ?Z.ltb_lt, ?Z.ltb_ge; lia.
    - apply sorted_e_items in Hs. simpl in Hs. constructor; auto.
      constructor; [apply le_refl|]. inversion Hs; subst; assumption.
  Qed.

  (* ---------- CDF / PMF ---------- *)
  Theorem cdf_empty_rejected v sp incl : v_entries v = [] -> cdf_num v sp incl = None.
  Proof. unfold cdf_num. now intros ->. Qed.

  Theorem cdf_bad_splits_rejected v sp incl : splits_ok sp = false -> cdf_num v sp incl = None.
  Proof. unfold cdf_num. intros ->. now destruct (v_entries v). Qed.

  Theorem pmf_bad_splits_rejected v sp incl : splits_ok sp = false -> pmf_num v sp incl = None.
  Proof. unfold pmf_num. intro H. now rewrite cdf_bad_splits_rejected. Qed.

  Theorem cdf_is_rank v sp incl c : cdf_num v sp incl = Some c ->
    c = map (fun x => rank_num v x incl) sp ++ [v_total v].
  Proof.
    unfold cdf_num. destruct (v_entries v); [discriminate|]. destruct (splits_ok sp); [|discriminate].
    now intros [= <-].
  Qed.

  Lemma last_cons_indep {A} : forall (l : list A) a d d', last (a :: l) d = last (a :: l) d'.
  Proof. induction l as [|b l IH]; intros a d d'; [reflexivity|]. exact (IH b d d'). Qed.

  Lemma diffs_sum : forall l prev, fold_right Z.add 0 (diffs prev l) = last l prev - prev.
  Proof.
    induction l as [|c r IH]; intros prev; [simpl; lia|].
    cbn [diffs fold_right]. rewrite (IH c). destruct r as [|z r']; [simpl; lia|].
    rewrite (last_cons_indep r' z c prev). change (last (c :: z :: r') prev) with (last (z :: r') prev). lia.
  Qed.

  (* the PMF masses sum to the total weight (i.e. to one after division by n) *)
  Theorem pmf_sums_to_total v sp incl p : pmf_num v sp incl = Some p ->
    fold_right Z.add 0 p = v_total v.
  Proof.
    unfold pmf_num. destruct (cdf_num v sp incl) as [c|] eqn:E; [|discriminate].
    intros [= <-]. rewrite (diffs_sum c 0). apply cdf_is_rank in E. subst c.
    rewrite last_last. lia.
  Qed.

  Lemma diffs_nonneg : forall l prev, StronglySorted Z.le (prev :: l) -> Forall (fun z => 0 <= z) (diffs prev l).
  Proof.
    induction l as [|c r IH]; intros prev H; simpl; constructor.
    - inversion H as [|? ? ? F]; subst. inversion F; subst. lia.
    - apply IH. inversion H; subst; assumption.
  Qed.

  Lemma splits_ok_sorted sp : splits_ok sp = true -> sorted_t sp.
  Proof.
    induction sp as [|x r IH]; intro H; [constructor|].
    destruct r as [|y r'].
    - constructor; constructor.
    - simpl in H. apply andb_true_iff in H as [H1 H2]. specialize (IH H2).
      constructor; auto. constructor; [now apply lt_le|].
      inversion IH as [|? ? ? F]; subst. eapply Forall_impl; [|exact F].
      intros a Ha. eapply le_tr; [apply lt_le; exact H1|exact Ha].
  Qed.

  (* the CDF is non-decreasing and every PMF mass is non-negative *)
  Theorem cdf_monotone es sp incl c : sorted_e es -> weights_nonneg es ->
    cdf_num (sv_finish T es) sp incl = Some c -> StronglySorted Z.le (0 :: c).
  Proof.
    intros Hs Hw H. pose proof H as H0. apply cdf_is_rank in H. subst c.
    unfold cdf_num in H0. destruct (v_entries (sv_finish T es)); [discriminate|].
    destruct (splits_ok sp) eqn:Hsp; [|discriminate]. clear H0.
    apply splits_ok_sorted in Hsp.
    constructor.
    - induction Hsp as [|x r Hr IH Fx]; simpl.
      + constructor; constructor.
      + constructor; auto.
        apply Forall_app; split.
        * rewrite Forall_map. eapply Forall_impl; [|exact Fx]. intros y Hy. now apply rank_monotone.
        * constructor; [|constructor]. apply rank_bounds; auto.
    - apply Forall_app; split.
      + rewrite Forall_map. apply Forall_forall. intros x _. apply rank_bounds; auto.
      + constructor; [|constructor]. simpl. rewrite sv_total_wsum. apply wsum_nonneg; auto.
  Qed.

  Theorem pmf_nonneg es sp incl p : sorted_e es -> weights_nonneg es ->
    pmf_num (sv_finish T es) sp incl = Some p -> Forall (fun z => 0 <= z) p.
  Proof.
    intros Hs Hw. unfold pmf_num. destruct (cdf_num (sv_finish T es) sp incl) as [c|] eqn:E; [|discriminate].
    intros [= <-]. apply diffs_nonneg. eapply cdf_monotone; eauto.
  Qed.

  (* over the rationals: the PMF sums to one *)
  Theorem pmf_sums_to_one v sp incl p : 0 < v_total v -> pmf_num v sp incl = Some p ->
    (fold_right Qplus 0 (map (fun z => inject_Z z / inject_Z (v_total v)) p) == 1)%Q.
  Proof.
    intros Hpos H. apply pmf_sums_to_total in H.
    assert (G : forall l, (fold_right Qplus 0 (map (fun z => inject_Z z / inject_Z (v_total v)) l)
                           == inject_Z (fold_right Z.add 0%Z l) / inject_Z (v_total v))%Q).
    { induction l as [|a l IH]; simpl.
      - unfold Qdiv. ring.
      - rewrite IH, inject_Z_plus. field. intro X. unfold Qeq in X. simpl in X. lia. }
    rewrite G, H. field. intro X. unfold Qeq in X. simpl in X. lia.
  Qed.

  (* ---------- total weight ---------- *)
  Theorem view_last_is_total es d : es <> [] -> snd (last (v_entries (sv_finish T es)) d) = v_total (sv_finish T es).
  Proof. intro H. simpl. rewrite sv_cum_last by assumption. lia. Qed.

  Theorem view_sorted es : sorted_e es -> sorted_t (map fst (v_entries (sv_finish T es))).
  Proof. intro H. simpl. rewrite sv_cum_items. now apply sorted_e_items. Qed.

  (* ---------- exactness when every weight is one (nothing compacted) ---------- *)
  Definition count (p : T -> bool) (l : list T) : Z := Z.of_nat (length (filter p l)).

  Lemma wsum_unit p items : wsum p (map (fun x => (x, 1)) items) = count p items.
  Proof.
    unfold count. induction items as [|x r IH]; simpl; auto.
    rewrite IH. destruct (p x); simpl length; lia.
  Qed.

  Theorem exact_rank items x incl : sorted_t items ->
    rank_num (sv_finish T (map (fun y => (y, 1)) items)) x incl = count (below x incl) items.
  Proof.
    intro Hs. rewrite rank_num_spec by now apply map_pair_sorted. apply wsum_unit.
  Qed.

  Lemma quant_scan_unit_incl : forall items acc x0 w, acc < w <= acc + Z.of_nat (length items) ->
    quant_scan (quant_pred w true) x0 (sv_cum acc (map (fun y => (y, 1)) items))
    = nth (Z.to_nat (w - acc - 1)) items x0.
  Proof.
    induction items as [|y r IH]; intros acc x0 w H; simpl in *; [lia|].
    destruct (Z.ltb_spec (acc + 1) w); simpl.
    - rewrite IH by lia. replace (Z.to_nat (w - acc - 1)) with (S (Z.to_nat (w - (acc + 1) - 1))) by lia.
      simpl. apply nth_indep. lia.
    - replace (w - acc - 1) with 0 by lia. reflexivity.
  Qed.

  Lemma quant_scan_unit_excl : forall items acc x0 w, acc <= w < acc + Z.of_nat (length items) ->
    quant_scan (quant_pred w false) x0 (sv_cum acc (map (fun y => (y, 1)) items))
    = nth (Z.to_nat (w - acc)) items x0.
  Proof.
    induction items as [|y r IH]; intros acc x0 w H; simpl in *; [lia|].
    destruct (Z.ltb_spec w (acc + 1)); simpl.
    - replace (w - acc) with 0 by lia. reflexivity.
    - rewrite IH by lia. replace (Z.to_nat (w - acc)) with (S (Z.to_nat (w - (acc + 1)))) by lia.
      simpl. apply nth_indep. lia.
  Qed.

  (* inclusive: the w-th smallest item (1-based); exclusive: the item at 0-based position w *)
  Theorem exact_quantile_incl items w d : 1 <= w <= Z.of_nat (length items) ->
    quantile_w (sv_finish T (map (fun y => (y, 1)) items)) w true = Some (nth (Z.to_nat (w - 1)) items d).
  Proof.
    intro H. unfold quantile_w, sv_finish; cbn [v_entries].
    destruct items as [|y r]; [simpl in H; lia|].
    change (sv_cum 0 (map (fun y0 => (y0, 1)) (y :: r))) with ((y, 0 + 1) :: sv_cum (0 + 1) (map (fun y0 => (y0, 1)) r)).
    cbv iota beta. f_equal.
    change ((y, 0 + 1) :: sv_cum (0 + 1) (map (fun y0 => (y0, 1)) r)) with (sv_cum 0 (map (fun y0 => (y0, 1)) (y :: r))).
    rewrite quant_scan_unit_incl by lia. replace (w - 0 - 1) with (w - 1) by lia. apply nth_indep. lia.
  Qed.

  Theorem exact_quantile_excl items w d : 0 <= w < Z.of_nat (length items) ->
    quantile_w (sv_finish T (map (fun y => (y, 1)) items)) w false = Some (nth (Z.to_nat w) items d).
  Proof.
    intro H. unfold quantile_w, sv_finish; cbn [v_entries].
    destruct items as [|y r]; [simpl in H; lia|].
    change (sv_cum 0 (map (fun y0 => (y0, 1)) (y :: r))) with ((y, 0 + 1) :: sv_cum (0 + 1) (map (fun y0 => (y0, 1)) r)).
    cbv iota beta. f_equal.
    change ((y, 0 + 1) :: sv_cum (0 + 1) (map (fun y0 => (y0, 1)) r)) with (sv_cum 0 (map (fun y0 => (y0, 1)) (y :: r))).
    rewrite quant_scan_unit_excl by lia. replace (w - 0) with w by lia. apply nth_indep. lia.
  Qed.
End SVFacts.
