(* SortedView.v — model of common/include/quantiles_sorted_view{,_impl}.hpp, generic over the item type [T]
   and its comparator [ltb] (the C++ template parameter C, a strict weak order).  Shared by the KLL, REQ and
   classic quantiles models.  First part: executable definitions (mirroring the code); second part: lemmas.

   Ranks are represented by their integer numerators (cumulative weights); the implementation returns
   numerator / total_weight as a double.  Quantile queries take the integer weight the implementation
   derives from the normalized rank ([weight_of_rank] gives it exactly for dyadic ranks j / 2^t). *)
From Coq Require Import ZArith List Bool Lia Permutation Sorted QArith.
Import ListNotations.
Local Open Scope Z_scope.

Section SV.
  Variable T : Type.
  Variable ltb : T -> T -> bool.

  Definition entry : Type := (T * Z)%type.

  (* std::merge(a, b, comp): an element of the second range is taken only if it is strictly smaller *)
  Fixpoint sv_merge (a : list entry) : list entry -> list entry :=
    fix inner (b : list entry) : list entry :=
      match a, b with
      | [], _ => b
      | _, [] => a
      | x :: a', y :: b' => if ltb (fst y) (fst x) then y :: inner b' else x :: sv_merge a' b
      end.

  (* quantiles_sorted_view::add(first, last, weight): push the new entries, then std::merge with what was
     there (when nothing was there the new entries are kept as they are: sv_merge [] b = b) *)
  Definition sv_add (es : list entry) (items : list T) (w : Z) : list entry :=
    sv_merge es (map (fun x => (x, w)) items).

  (* convert_to_cummulative: running sums; total_weight_ ends as the sum of all weights *)
  Fixpoint sv_cum (acc : Z) (es : list entry) : list entry :=
    match es with
    | [] => []
    | (x, w) :: r => (x, acc + w) :: sv_cum (acc + w) r
    end.

  Definition sv_total (es : list entry) : Z := fold_right (fun e a => snd e + a) 0 es.

  (* a finished view: cumulative entries and the total weight *)
  Record view := mkview { v_entries : list entry; v_total : Z }.

  Definition sv_finish (es : list entry) : view := {| v_entries := sv_cum 0 es; v_total := sv_total es |}.

  (* get_rank: std::upper_bound (inclusive) / std::lower_bound (exclusive) on the items, then the cumulative
     weight of the entry just before (0 at the beginning).  On a partitioned range the binary search
     returns the first position where the predicate holds; that is what the scan computes. *)
  Fixpoint rank_scan (p : T -> bool) (prev : Z) (es : list entry) : Z :=
    match es with
    | [] => prev
    | (x, c) :: r => if p x then prev else rank_scan p c r
    end.

  Definition rank_pred (x : T) (incl : bool) : T -> bool :=
    if incl then (fun y => ltb x y) else (fun y => negb (ltb y x)).

  Definition rank_num (v : view) (x : T) (incl : bool) : Z := rank_scan (rank_pred x incl) 0 (v_entries v).

  (* get_quantile: lower_bound (inclusive) / upper_bound (exclusive) on the cumulative weights; past the
     end -> the last entry *)
  Fixpoint quant_scan (p : Z -> bool) (x0 : T) (es : list entry) : T :=
    match es with
    | [] => x0
    | (x, c) :: r => if p c then x else quant_scan p x r
    end.

  Definition quant_pred (w : Z) (incl : bool) : Z -> bool :=
    if incl then (fun c => negb (c <? w)) else (fun c => w <? c).

  Definition quantile_w (v : view) (w : Z) (incl : bool) : option T :=
    match v_entries v with
    | [] => None                                       (* "operation is undefined for an empty sketch" *)
    | (x, _) :: _ => Some (quant_scan (quant_pred w incl) x (v_entries v))
    end.

  (* weight = (uint64) (inclusive ? ceil(rank * total) : rank * total) for the dyadic rank j / 2^t
     (exact in double arithmetic while j * total < 2^53) *)
  Definition weight_of_rank (j t total : Z) (incl : bool) : Z :=
    if incl then - ((- (j * total)) / 2 ^ t) else (j * total) / 2 ^ t.

  (* check_split_points: consecutive split points strictly increasing under the comparator *)
  Fixpoint splits_ok (l : list T) : bool :=
    match l with
    | x :: ((y :: _) as r) => ltb x y && splits_ok r
    | _ => true
    end.

  Definition cdf_num (v : view) (splits : list T) (incl : bool) : option (list Z) :=
    match v_entries v with
    | [] => None
    | _ => if splits_ok splits then Some (map (fun x => rank_num v x incl) splits ++ [v_total v]) else None
    end.

  Fixpoint diffs (prev : Z) (l : list Z) : list Z :=
    match l with
    | [] => []
    | c :: r => (c - prev) :: diffs c r
    end.

  Definition pmf_num (v : view) (splits : list T) (incl : bool) : option (list Z) :=
    match cdf_num v splits incl with
    | Some c => Some (diffs 0 c)
    | None => None
    end.

  (* canonical listing used by the correspondence: for every maximal run of equivalent items the item and
     the cumulative weight at the end of the run (independent of how ties are ordered) *)
  Fixpoint groups (es : list entry) : list entry :=
    match es with
    | [] => []
    | (x, c) :: r =>
        match r with
        | (y, _) :: _ => if ltb x y then (x, c) :: groups r else groups r
        | [] => [(x, c)]
        end
    end.
End SV.

Arguments mkview {T}.
Arguments v_entries {T}.
Arguments v_total {T}.
