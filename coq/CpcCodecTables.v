(* CpcCodecTables.v — the static coding tables of the CPC compressor (cpc/include/compression_data.hpp, translated on
   every run into gen/CpcTablesGen.v by translators/gen_cpctables.py) and the start-up code that derives the decoding
   tables from them (cpc/include/cpc_compressor_impl.hpp: make_inverse_permutation l.63-72, make_decoding_table
   l.78-93, validate_decoding_table l.96-109, make_decoding_tables l.112-130).

   Everything about the concrete tables rests on FINITE obligations: boolean checkers evaluated by the kernel on the
   translated tables (count at the end of the file).  The checkers are designed so that the TOTAL computation is small
   (about 4096 array operations per table and per kind), because coqchk re-evaluates them without the VM.  The
   Prop-level corollaries that a codec proof needs ([byte_decode_encode], [byte_validate], [byte_prefix_free],
   [byte_code_len_bounds], ... and the same for the unary table and the permutations) are DERIVED from the checkers by
   generic lemmas, never by computing over a quantified Prop.

   Encoding entry e (uint16_t): code length = e >> 12, code value = e & 0xfff; the codeword is the low [code_len e]
   bits of [code_val e], emitted least significant bit first.  Hence "codeword a is a prefix of codeword b" reads
   [code_len a <= code_len b /\ code_val b mod 2 ^ code_len a = code_val a].

   Modelling notes for make_decoding_table (the model is the literal double loop over an array):
   - the C++ array is [new uint16_t[4096]], i.e. UNINITIALISED.  The array is modelled as a finite map in which an
     unwritten slot is absent; the obligation [slots_ok] includes that all 4096 slots get written (so no
     uninitialised value can ever be read); [make_decoding_table] reads absent slots as 0.
   - [code_length] is a uint8_t holding e >> 12 <= 15 and [garbage_length = 12 - code_length] is a uint8_t: for a
     length above 12 the C++ value wraps (and [1 << garbage_length] is undefined behaviour) while [N] subtraction
     truncates to 0.  The two agree exactly when every length is <= 12, which is the obligation [*_lengths_ok].
   - the casts to uint16_t of [decoding_entry] ((len << 8) | byte, len <= 15, byte < 256) and of
     [extended_code_value] (followed by [& 0xfff]) never lose bits that are looked at; [N.land _ 65535] is kept in
     the model all the same.

   The kinds of finite check, per code table (22 byte tables with 256 symbols, 1 unary table with 65 symbols):
     lengths     every entry < 2^16 and 1 <= code length <= 12; the table has the expected number of symbols
     canonical   code_val e < 2 ^ code_len e (no bits above the code length)
     slots       every slot p < 4096 of the array built by the loop is written, and its content d = (l << 8 | b)
                 passes the test of validate_decoding_table: enc[b] has length l and value p mod 2^l (decode -> encode)
     extensions  for every symbol b and every g < 2^(12-len b), slot val b + g * 2^(len b) holds (len b << 8 | b), i.e.
                 no later symbol has overwritten it (encode -> decode)
   From these: [*_decode_encode] (extensions + arithmetic), [*_validate] (slots; also as "the C++ function
   validate_decoding_table returns normally"), [*_table_written], and prefix-freeness [*_prefix_free] (two symbols
   whose codewords are prefix-related would claim the same slot [val b]; no pairwise computation is needed). *)
From Coq Require Import NArith List Bool Lia Arith FMapPositive.
From DS.gen Require Import CpcTablesGen.
Import ListNotations.
Local Open Scope N_scope.

(** * Entries *)

Definition code_len (e : N) : N := N.shiftr e 12.
Definition code_val (e : N) : N := N.land e 4095.

(** * Indexed iteration (index carried as N; no [nth] in inner loops) *)

Fixpoint forallbi {A} (f : N -> A -> bool) (i : N) (l : list A) : bool :=
  match l with
  | [] => true
  | x :: r => f i x && forallbi f (N.succ i) r
  end.

Fixpoint nseq (s : N) (n : nat) : list N :=
  match n with O => [] | S k => s :: nseq (N.succ s) k end.

(* 4096 as a nat is always written [n4096] (a 4096-deep unary literal makes [lia] and conversion slow) *)
Definition n4096 : nat := N.to_nat 4096.
Notation idx4096 := (nseq 0 n4096).

(** * make_decoding_table: literal mirror of the C++ double loop *)

Definition slot (p : N) : positive := N.succ_pos p.

(* for (garbage_bits = g; [fuel] more iterations; garbage_bits++) decoding_table[(cv | (g << cl)) & 0xfff] = entry *)
Fixpoint garbage_loop (fuel : nat) (g cv cl entry : N) (arr : PositiveMap.t N) : PositiveMap.t N :=
  match fuel with
  | O => arr
  | S f =>
      let extended_code_value := N.land (N.lor cv (N.shiftl g cl)) 65535 in
      garbage_loop f (N.succ g) cv cl entry (PositiveMap.add (slot (N.land extended_code_value 4095)) entry arr)
  end.

(* for (byte_value = b; byte_value < b + length enc; byte_value++) *)
Fixpoint byte_loop (enc : list N) (b : N) (arr : PositiveMap.t N) : PositiveMap.t N :=
  match enc with
  | [] => arr
  | encoding_entry :: r =>
      let code_value := code_val encoding_entry in
      let code_length := code_len encoding_entry in
      let decoding_entry := N.land (N.lor (N.shiftl code_length 8) b) 65535 in
      let garbage_length := 12 - code_length in
      let num_copies := N.shiftl 1 garbage_length in
      byte_loop r (N.succ b) (garbage_loop (N.to_nat num_copies) 0 code_value code_length decoding_entry arr)
  end.

Definition make_decoding_array (enc : list N) : PositiveMap.t N := byte_loop enc 0 (PositiveMap.empty N).

Definition read_slot (arr : PositiveMap.t N) (p : N) : N :=
  match PositiveMap.find (slot p) arr with Some v => v | None => 0 end.

Definition make_decoding_table (enc : list N) : list N := map (read_slot (make_decoding_array enc)) idx4096.

(** * validate_decoding_table (true = no exception; an out-of-range read of the encoding table counts as failure) *)

(* body of the loop, parameterised by the way encoding_table[decoded_byte] is read *)
Definition validate_entry_with (lookup : N -> option N) (decode_this tmp_d : N) : bool :=
  let decoded_byte := N.land tmp_d 255 in
  let decoded_length := N.shiftr tmp_d 8 in
  match lookup decoded_byte with
  | None => false
  | Some tmp_e =>
      let encoded_bit_pattern := N.land tmp_e 4095 in
      let encoded_length := N.shiftr tmp_e 12 in
      (decoded_length =? encoded_length) &&
      (encoded_bit_pattern =? N.land decode_this (N.shiftl 1 decoded_length - 1))
  end.

Definition validate_entry (enc : list N) : N -> N -> bool :=
  validate_entry_with (fun b => nth_error enc (N.to_nat b)).

Definition validate_decoding_table (dec enc : list N) : bool :=
  (N.of_nat (length dec) =? 4096) && forallbi (validate_entry enc) 0 dec.

(** * The boolean checkers ([n] = number of byte values of the table) *)

Definition chk_lengths (n : nat) (enc : list N) : bool :=
  (length enc =? n)%nat &&
  forallb (fun e => (e <? 65536) && (1 <=? code_len e) && (code_len e <=? 12)) enc.

Definition chk_canonical (enc : list N) : bool :=
  forallb (fun e => code_val e <? 2 ^ code_len e) enc.

(* the encoding table as an array with logarithmic access (a list lookup per slot would cost 4096 x 128 steps) *)
Fixpoint fill (l : list N) (i : N) (m : PositiveMap.t N) : PositiveMap.t N :=
  match l with
  | [] => m
  | x :: r => fill r (N.succ i) (PositiveMap.add (slot i) x m)
  end.
Definition list_array (l : list N) : PositiveMap.t N := fill l 0 (PositiveMap.empty N).

(* slot p has been written and its content passes the test of validate_decoding_table *)
Definition slot_ok (ea arr : PositiveMap.t N) (p : N) : bool :=
  match PositiveMap.find (slot p) arr with
  | None => false
  | Some d => validate_entry_with (fun b => PositiveMap.find (slot b) ea) p d
  end.
Notation slots_ok := (fun ea arr : PositiveMap.t N => forallb (slot_ok ea arr) idx4096).

(* slots idx, idx + step, ..., idx + (fuel-1) * step all hold [expect] *)
Fixpoint ext_loop (fuel : nat) (idx step expect : N) (arr : PositiveMap.t N) : bool :=
  match fuel with
  | O => true
  | S f => match PositiveMap.find (slot idx) arr with Some v => v =? expect | None => false end
           && ext_loop f (idx + step) step expect arr
  end.

Definition extensions_ok (enc : list N) (arr : PositiveMap.t N) : bool :=
  forallbi (fun b e =>
    let cl := code_len e in
    ext_loop (N.to_nat (2 ^ (12 - cl))) (code_val e) (2 ^ cl) (cl * 256 + b) arr) 0 enc.

(* the two array-based kinds share one construction of the array.  A notation, not a constant: the derivations below
   then never need a delta-conversion in front of a closed 4096-entry computation (which the kernel might evaluate) *)
Notation chk_array := (fun enc : list N =>
  let arr := make_decoding_array enc in
  slots_ok (list_array enc) arr && extensions_ok enc arr).

(* pairwise prefix-freeness; only evaluated on the unary table and on small examples (for the byte tables it is
   derived, see [gen_prefix_free]) *)
Definition chk_prefix_free (enc : list N) : bool :=
  forallbi (fun a ea =>
    let la := code_len ea in let va := code_val ea in let mask := N.ones la in
    forallbi (fun b eb =>
      (a =? b) || negb ((la <=? code_len eb) && (N.land (code_val eb) mask =? va))) 0 enc) 0 enc.

(** * Column permutations *)

Fixpoint upd_nth (l : list N) (k : nat) (v : N) : list N :=
  match l, k with
  | [], _ => []
  | _ :: r, O => v :: r
  | x :: r, S k' => x :: upd_nth r k' v
  end.

(* first loop of make_inverse_permutation: inverse[permu[i]] = i (the uninitialised array is modelled by zeros; the
   checkers below show that every slot is written) *)
Fixpoint inverse_loop (permu : list N) (i : N) (inverse : list N) : list N :=
  match permu with
  | [] => inverse
  | x :: r => inverse_loop r (N.succ i) (upd_nth inverse (N.to_nat x) (N.land i 255))
  end.

Definition make_inverse_permutation (permu : list N) : list N :=
  inverse_loop permu 0 (repeat 0 (length permu)).

(* second loop of make_inverse_permutation (true = no exception) *)
Definition inverse_check (permu inverse : list N) : bool :=
  forallbi (fun i inv_i => match nth_error permu (N.to_nat inv_i) with Some x => x =? i | None => false end) 0 inverse.

Definition chk_perm_bijective (permu : list N) : bool :=
  (length permu =? 56)%nat && forallb (fun x => x <? 56) permu &&
  forallb (fun i => existsb (N.eqb i) permu) (nseq 0 56).

Definition chk_perm_inverse_check (permu : list N) : bool :=
  let inverse := make_inverse_permutation permu in
  (length inverse =? 56)%nat && forallb (fun x => x <? 56) inverse && inverse_check permu inverse.

Definition chk_perm_inverse_left (permu : list N) : bool :=
  let inverse := make_inverse_permutation permu in
  forallbi (fun i x => match nth_error inverse (N.to_nat x) with Some y => y =? i | None => false end) 0 permu.

(** * The tables built at start-up *)

Definition byte_decoding_tables : list (list N) := map make_decoding_table encoding_tables_for_high_entropy_byte.
Definition unary_decoding_table : list N := make_decoding_table length_limited_unary_encoding_table65.
Definition column_permutations_for_decoding : list (list N) :=
  map make_inverse_permutation column_permutations_for_encoding.

(** * Finite obligations on the translated tables *)

Lemma tables_shape :
  length encoding_tables_for_high_entropy_byte = 22%nat /\
  length length_limited_unary_encoding_table65 = 65%nat /\
  length column_permutations_for_encoding = 16%nat.
Proof. vm_compute. repeat split. Qed.

(* 22 byte tables *)
Lemma byte_tables_lengths_ok : forallb (chk_lengths 256) encoding_tables_for_high_entropy_byte = true.
Proof. vm_cast_no_check (eq_refl true). Qed.
Lemma byte_tables_canonical : forallb chk_canonical encoding_tables_for_high_entropy_byte = true.
Proof. vm_cast_no_check (eq_refl true). Qed.
Lemma byte_tables_array_ok : forallb chk_array encoding_tables_for_high_entropy_byte = true.
Proof. vm_cast_no_check (eq_refl true). Qed.

(* the unary table (65 symbols) *)
Lemma unary_table_lengths_ok : chk_lengths 65 length_limited_unary_encoding_table65 = true.
Proof. vm_cast_no_check (eq_refl true). Qed.
Lemma unary_table_canonical : chk_canonical length_limited_unary_encoding_table65 = true.
Proof. vm_cast_no_check (eq_refl true). Qed.
Lemma unary_table_array_ok : chk_array length_limited_unary_encoding_table65 = true.
Proof. vm_cast_no_check (eq_refl true). Qed.
Lemma unary_table_pairwise_prefix_free : chk_prefix_free length_limited_unary_encoding_table65 = true.
Proof. vm_cast_no_check (eq_refl true). Qed.

(* 16 column permutations *)
Lemma permutations_bijective : forallb chk_perm_bijective column_permutations_for_encoding = true.
Proof. vm_cast_no_check (eq_refl true). Qed.
Lemma permutations_inverse_check : forallb chk_perm_inverse_check column_permutations_for_encoding = true.
Proof. vm_cast_no_check (eq_refl true). Qed.
Lemma permutations_inverse : forallb chk_perm_inverse_left column_permutations_for_encoding = true.
Proof. vm_cast_no_check (eq_refl true). Qed.

(** * Generic lemmas: from a boolean checker to the quantified statement *)

Lemma forallbi_nth {A} (f : N -> A -> bool) : forall (l : list A) (i : N) (k : nat) (d : A),
  forallbi f i l = true -> (k < length l)%nat -> f (i + N.of_nat k) (nth k l d) = true.
Proof.
  induction l as [|x r IH]; intros i k d H Hk; cbn [length] in Hk; [lia|].
  cbn [forallbi] in H. apply andb_true_iff in H as [H1 H2].
  destruct k as [|k].
  - cbn [nth]. change (N.of_nat 0) with 0. rewrite N.add_0_r. exact H1.
  - cbn [nth]. replace (i + N.of_nat (S k)) with (N.succ i + N.of_nat k) by lia.
    apply IH; [exact H2|lia].
Qed.

Lemma forallbi_intro {A} (f : N -> A -> bool) (d : A) : forall (l : list A) (i : N),
  (forall k, (k < length l)%nat -> f (i + N.of_nat k) (nth k l d) = true) -> forallbi f i l = true.
Proof.
  induction l as [|x r IH]; intros i H; cbn [forallbi]; [reflexivity|].
  apply andb_true_iff. split.
  - specialize (H 0%nat ltac:(cbn [length]; lia)). cbn [nth] in H. change (N.of_nat 0) with 0 in H.
    rewrite N.add_0_r in H. exact H.
  - apply IH. intros k Hk. specialize (H (S k) ltac:(cbn [length]; lia)). cbn [nth] in H.
    replace (N.succ i + N.of_nat k) with (i + N.of_nat (S k)) by lia. exact H.
Qed.

Lemma forallb_nth {A} (f : A -> bool) (l : list A) (k : nat) (d : A) :
  forallb f l = true -> (k < length l)%nat -> f (nth k l d) = true.
Proof. intros H Hk. rewrite forallb_forall in H. apply H, nth_In, Hk. Qed.

Lemma nth_map_lt {A B} (f : A -> B) (l : list A) (k : nat) (da : A) (db : B) :
  (k < length l)%nat -> nth k (map f l) db = f (nth k l da).
Proof. intros Hk. rewrite (nth_indep _ db (f da)) by (rewrite map_length; exact Hk). apply map_nth. Qed.

Lemma nth_error_nth_some {A} (l : list A) (k : nat) (x d : A) : nth_error l k = Some x -> nth k l d = x.
Proof. intros H. apply nth_error_nth, H. Qed.

Lemma nseq_length : forall n s, length (nseq s n) = n.
Proof. induction n; intros s; cbn [nseq length]; [reflexivity|f_equal; apply IHn]. Qed.

Lemma nseq_nth : forall n s k d, (k < n)%nat -> nth k (nseq s n) d = s + N.of_nat k.
Proof.
  induction n; intros s k d Hk; [lia|]. destruct k as [|k]; cbn [nseq nth].
  - change (N.of_nat 0) with 0. lia.
  - rewrite IHn by lia. lia.
Qed.

Lemma forallb_nseq (f : N -> bool) : forall n s k,
  forallb f (nseq s n) = true -> (k < n)%nat -> f (s + N.of_nat k) = true.
Proof.
  intros n s k H Hk. rewrite <- (nseq_nth n s k 0 Hk). apply forallb_nth; [exact H|]. rewrite nseq_length. exact Hk.
Qed.

Lemma to_nat_lt_4096 p : p < 4096 -> (N.to_nat p < n4096)%nat.
Proof. intros H. unfold n4096. generalize dependent 4096. intros m H. lia. Qed.

Lemma forallb_idx4096 (f : N -> bool) p : forallb f idx4096 = true -> p < 4096 -> f p = true.
Proof.
  intros H Hp. pose proof (forallb_nseq f n4096 0 (N.to_nat p) H (to_nat_lt_4096 p Hp)) as H1.
  rewrite N.add_0_l, N2Nat.id in H1. exact H1.
Qed.

Lemma make_decoding_table_length enc : N.of_nat (length (make_decoding_table enc)) = 4096.
Proof. unfold make_decoding_table. rewrite map_length, nseq_length. unfold n4096. apply N2Nat.id. Qed.

Lemma make_decoding_table_nth enc p : p < 4096 ->
  nth (N.to_nat p) (make_decoding_table enc) 0 = read_slot (make_decoding_array enc) p.
Proof.
  intros Hp. pose proof (to_nat_lt_4096 p Hp) as Hn. unfold make_decoding_table.
  rewrite (nth_map_lt _ _ _ 0 0) by (rewrite nseq_length; exact Hn).
  rewrite nseq_nth by exact Hn. rewrite N.add_0_l, N2Nat.id. reflexivity.
Qed.

(** ** the encoding table as an array *)

Lemma slot_inj a b : slot a = slot b -> a = b.
Proof.
  unfold slot. intros H. apply N.succ_inj. rewrite <- !N.succ_pos_spec. rewrite H. reflexivity.
Qed.

Lemma fill_find : forall (l : list N) (i : N) (m : PositiveMap.t N) (j : N),
  (forall j', i <= j' -> PositiveMap.find (slot j') m = None) ->
  PositiveMap.find (slot j) (fill l i m) =
  if j <? i then PositiveMap.find (slot j) m else nth_error l (N.to_nat (j - i)).
Proof.
  induction l as [|x r IH]; intros i m j Hm; cbn [fill].
  - destruct (j <? i) eqn:E; [reflexivity|]. apply N.ltb_ge in E. rewrite (Hm j E).
    destruct (N.to_nat (j - i)); reflexivity.
  - rewrite IH.
    + destruct (j <? N.succ i) eqn:E1; destruct (j <? i) eqn:E2;
        try apply N.ltb_lt in E1; try apply N.ltb_ge in E1; try apply N.ltb_lt in E2; try apply N.ltb_ge in E2.
      * apply PositiveMap.gso. intros Heq. apply slot_inj in Heq. lia.
      * assert (j = i) by lia. subst j. rewrite PositiveMap.gss. rewrite N.sub_diag. reflexivity.
      * lia.
      * replace (N.to_nat (j - i)) with (S (N.to_nat (j - N.succ i))) by lia. reflexivity.
    + intros j' Hj'. rewrite PositiveMap.gso; [apply Hm; lia|]. intros Heq. apply slot_inj in Heq. lia.
Qed.

Lemma list_array_find (l : list N) (b : N) :
  PositiveMap.find (slot b) (list_array l) = nth_error l (N.to_nat b).
Proof.
  unfold list_array. rewrite fill_find by (intros; apply PositiveMap.gempty).
  replace (b <? 0) with false by (symmetry; apply N.ltb_ge; lia). rewrite N.sub_0_r. reflexivity.
Qed.

(** ** what the two array passes establish, for an arbitrary encoding table and an arbitrary array *)

(* slots pass: decode then encode *)
Lemma slots_ok_sound enc arr p : slots_ok (list_array enc) arr = true -> p < 4096 ->
  PositiveMap.find (slot p) arr <> None /\ validate_entry enc p (read_slot arr p) = true.
Proof.
  intros H Hp. cbv beta in H. pose proof (forallb_idx4096 _ p H Hp) as H1. cbv beta in H1.
  unfold slot_ok in H1. unfold read_slot. destruct (PositiveMap.find (slot p) arr) as [d|]; [|discriminate].
  split; [discriminate|].
  unfold validate_entry, validate_entry_with in *. cbv beta zeta in *.
  rewrite list_array_find in H1. exact H1.
Qed.

Lemma validate_entry_sound enc p d : validate_entry enc p d = true ->
  let b := N.land d 255 in
  let l := N.shiftr d 8 in
  (N.to_nat b < length enc)%nat /\
  let e := nth (N.to_nat b) enc 0 in code_len e = l /\ code_val e = p mod 2 ^ l.
Proof.
  intros H2 b l. unfold validate_entry, validate_entry_with in H2. cbv beta zeta in H2. fold b l in H2.
  destruct (nth_error enc (N.to_nat b)) as [e|] eqn:He; [|discriminate].
  assert (Hb : (N.to_nat b < length enc)%nat).
  { apply nth_error_Some. rewrite He. discriminate. }
  split; [exact Hb|]. cbv zeta. rewrite (nth_error_nth_some _ _ _ 0 He).
  apply andb_true_iff in H2 as [Ha Hb2]. apply N.eqb_eq in Ha, Hb2.
  unfold code_len, code_val. split; [symmetry; exact Ha|].
  rewrite Hb2. rewrite N.shiftl_1_l, N.sub_1_r, <- N.ones_equiv, N.land_ones. reflexivity.
Qed.

(* extensions pass: encode then decode *)
Lemma ext_loop_sound arr step expect : forall fuel idx k,
  ext_loop fuel idx step expect arr = true -> (k < fuel)%nat ->
  PositiveMap.find (slot (idx + N.of_nat k * step)) arr = Some expect.
Proof.
  induction fuel as [|f IH]; intros idx k H Hk; [lia|]. cbn [ext_loop] in H.
  apply andb_true_iff in H as [H1 H2]. destruct k as [|k].
  - change (N.of_nat 0) with 0. rewrite N.mul_0_l, N.add_0_r.
    destruct (PositiveMap.find (slot idx) arr) as [v|]; [|discriminate]. apply N.eqb_eq in H1. subst v. reflexivity.
  - replace (idx + N.of_nat (S k) * step) with (idx + step + N.of_nat k * step) by lia.
    apply IH; [exact H2|lia].
Qed.

Lemma extensions_ok_sound enc arr b p : extensions_ok enc arr = true -> (b < length enc)%nat -> p < 4096 ->
  let e := nth b enc 0 in
  code_len e <= 12 ->
  p mod 2 ^ code_len e = code_val e ->
  PositiveMap.find (slot p) arr = Some (code_len e * 256 + N.of_nat b).
Proof.
  intros H Hb Hp e Hl Hm. unfold extensions_ok in H.
  pose proof (forallbi_nth _ enc 0 b 0 H Hb) as H1. cbv beta zeta in H1. fold e in H1. rewrite N.add_0_l in H1.
  set (cl := code_len e) in *.
  assert (Hpow : 2 ^ cl * 2 ^ (12 - cl) = 4096).
  { rewrite <- N.pow_add_r. replace (cl + (12 - cl)) with 12 by lia. reflexivity. }
  assert (Hnz : 2 ^ cl <> 0) by (apply N.pow_nonzero; discriminate).
  assert (Hq : p / 2 ^ cl < 2 ^ (12 - cl)).
  { apply N.div_lt_upper_bound; [exact Hnz|]. rewrite Hpow. exact Hp. }
  pose proof (ext_loop_sound arr _ _ _ _ (N.to_nat (p / 2 ^ cl)) H1 ltac:(lia)) as H2.
  rewrite N2Nat.id in H2.
  replace (code_val e + p / 2 ^ cl * 2 ^ cl) with p in H2; [exact H2|].
  rewrite <- Hm. rewrite (N.div_mod p (2 ^ cl) Hnz) at 1. lia.
Qed.

(** ** Per-table statements, for an arbitrary encoding table that passes the checkers *)

Section Generic.
  Variable n : nat.
  Variable enc : list N.
  Hypothesis Hlen : chk_lengths n enc = true.

  Lemma gen_length : length enc = n.
  Proof. unfold chk_lengths in Hlen. apply andb_true_iff in Hlen as [H _]. apply Nat.eqb_eq, H. Qed.

  Lemma gen_code_len_bounds b : (b < n)%nat ->
    let e := nth b enc 0 in e < 65536 /\ 1 <= code_len e <= 12.
  Proof.
    intros Hb e. unfold chk_lengths in Hlen. apply andb_true_iff in Hlen as [Hl H].
    apply Nat.eqb_eq in Hl.
    pose proof (forallb_nth _ enc b 0 H ltac:(lia)) as Hb'. fold e in Hb'. cbv beta in Hb'.
    apply andb_true_iff in Hb' as [Hb' H3]. apply andb_true_iff in Hb' as [H1 H2].
    apply N.ltb_lt in H1. apply N.leb_le in H2, H3. auto.
  Qed.

  Lemma gen_canonical b : chk_canonical enc = true -> (b < n)%nat ->
    let e := nth b enc 0 in code_val e < 2 ^ code_len e.
  Proof.
    intros H Hb e. pose proof gen_length as Hl. unfold chk_canonical in H.
    pose proof (forallb_nth _ enc b 0 H ltac:(lia)) as Hb'. apply N.ltb_lt in Hb'. exact Hb'.
  Qed.

  Hypothesis Harr : chk_array enc = true.

  Lemma gen_slots : slots_ok (list_array enc) (make_decoding_array enc) = true.
  Proof. cbv beta zeta in Harr. apply andb_true_iff in Harr as [H _]. exact H. Qed.

  Lemma gen_extensions : extensions_ok enc (make_decoding_array enc) = true.
  Proof. cbv beta zeta in Harr. apply andb_true_iff in Harr as [_ H]. exact H. Qed.

  (* encode then decode: every 12-bit window p whose low [len] bits are the codeword of b decodes to (len, b) *)
  Lemma gen_decode_encode b p : (b < n)%nat -> p < 4096 ->
    let e := nth b enc 0 in
    p mod 2 ^ code_len e = code_val e ->
    nth (N.to_nat p) (make_decoding_table enc) 0 = code_len e * 256 + N.of_nat b.
  Proof.
    intros Hb Hp e Hm. rewrite (make_decoding_table_nth enc p Hp). unfold read_slot.
    rewrite (extensions_ok_sound enc _ b p gen_extensions ltac:(rewrite gen_length; exact Hb) Hp
               (proj2 (proj2 (gen_code_len_bounds b Hb))) Hm).
    reflexivity.
  Qed.

  (* no slot of the 4096-entry array is left uninitialised *)
  Lemma gen_complete p : p < 4096 -> PositiveMap.find (slot p) (make_decoding_array enc) <> None.
  Proof. intros Hp. exact (proj1 (slots_ok_sound enc _ p gen_slots Hp)). Qed.

  (* decode then encode: the entry found at any 12-bit window p names a byte value whose codeword is the low bits of p *)
  Lemma gen_validate p : p < 4096 ->
    let d := nth (N.to_nat p) (make_decoding_table enc) 0 in
    let b := N.land d 255 in
    let l := N.shiftr d 8 in
    (N.to_nat b < n)%nat /\
    let e := nth (N.to_nat b) enc 0 in code_len e = l /\ code_val e = p mod 2 ^ l.
  Proof.
    intros Hp. rewrite (make_decoding_table_nth enc p Hp). rewrite <- gen_length.
    apply validate_entry_sound. exact (proj2 (slots_ok_sound enc _ p gen_slots Hp)).
  Qed.

  (* the C++ function validate_decoding_table, run on the table built by make_decoding_table, does not throw *)
  Lemma gen_validate_decoding_table : validate_decoding_table (make_decoding_table enc) enc = true.
  Proof.
    unfold validate_decoding_table. apply andb_true_iff. split.
    - rewrite make_decoding_table_length. reflexivity.
    - apply (forallbi_intro _ 0). intros k Hk. rewrite N.add_0_l.
      assert (Hp : N.of_nat k < 4096) by (rewrite <- (make_decoding_table_length enc); lia).
      rewrite <- (Nat2N.id k) at 2. rewrite (make_decoding_table_nth enc _ Hp).
      exact (proj2 (slots_ok_sound enc _ _ gen_slots Hp)).
  Qed.

  (* no codeword is a prefix (LSB first) of the codeword of another byte value: otherwise both symbols would own
     the slot [code_val eb] *)
  Lemma gen_prefix_free a b : chk_canonical enc = true -> (n <= 256)%nat -> (a < n)%nat -> (b < n)%nat -> a <> b ->
    let ea := nth a enc 0 in let eb := nth b enc 0 in
    ~ (code_len ea <= code_len eb /\ code_val eb mod 2 ^ code_len ea = code_val ea).
  Proof.
    intros Hcan Hn Ha Hb Hab ea eb [H1 H2].
    pose proof (gen_canonical b Hcan Hb) as Hcb. fold eb in Hcb.
    pose proof (gen_code_len_bounds b Hb) as [_ [_ Hlb]]. fold eb in Hlb.
    assert (Hp : code_val eb < 4096).
    { eapply N.lt_le_trans; [exact Hcb|]. change 4096 with (2 ^ 12). apply N.pow_le_mono_r; [discriminate|exact Hlb]. }
    pose proof (gen_decode_encode b (code_val eb) Hb Hp (N.mod_small _ _ Hcb)) as Db.
    pose proof (gen_decode_encode a (code_val eb) Ha Hp H2) as Da.
    fold ea in Da. fold eb in Db. rewrite Db in Da. apply Hab. lia.
  Qed.
End Generic.

(** ** Permutations, for an arbitrary list that passes the checkers *)

Section GenericPerm.
  Variable permu : list N.
  Hypothesis Hbij : chk_perm_bijective permu = true.

  Lemma gperm_length : length permu = 56%nat.
  Proof.
    unfold chk_perm_bijective in Hbij. apply andb_true_iff in Hbij as [H _].
    apply andb_true_iff in H as [H _]. apply Nat.eqb_eq, H.
  Qed.

  Lemma gperm_range i : (i < 56)%nat -> nth i permu 0 < 56.
  Proof.
    intros Hi. pose proof gperm_length as Hl. unfold chk_perm_bijective in Hbij.
    apply andb_true_iff in Hbij as [H _]. apply andb_true_iff in H as [_ H].
    pose proof (forallb_nth _ permu i 0 H ltac:(lia)) as H1. apply N.ltb_lt, H1.
  Qed.

  Lemma gperm_surjective j : j < 56 -> exists i, (i < 56)%nat /\ nth i permu 0 = j.
  Proof.
    intros Hj. pose proof gperm_length as Hl. unfold chk_perm_bijective in Hbij.
    apply andb_true_iff in Hbij as [_ H].
    assert (Hjn : (N.to_nat j < 56)%nat) by (change 56%nat with (N.to_nat 56); lia).
    pose proof (forallb_nth _ (nseq 0 56) (N.to_nat j) 0 H ltac:(rewrite nseq_length; exact Hjn)) as H1.
    cbv beta in H1. rewrite nseq_nth in H1 by exact Hjn. rewrite N.add_0_l, N2Nat.id in H1.
    apply existsb_exists in H1 as [x [Hin Hx]]. apply N.eqb_eq in Hx. subst x.
    destruct (In_nth _ _ 0 Hin) as [i [Hi Hn]]. exists i. split; [lia|exact Hn].
  Qed.

  Lemma gperm_inverse_length : chk_perm_inverse_check permu = true ->
    length (make_inverse_permutation permu) = 56%nat.
  Proof.
    intros H. unfold chk_perm_inverse_check in H. cbv zeta in H.
    apply andb_true_iff in H as [H _]. apply andb_true_iff in H as [H _]. apply Nat.eqb_eq, H.
  Qed.

  Lemma gperm_inverse_range i : chk_perm_inverse_check permu = true -> (i < 56)%nat ->
    nth i (make_inverse_permutation permu) 0 < 56.
  Proof.
    intros H Hi. pose proof (gperm_inverse_length H) as Hl. unfold chk_perm_inverse_check in H. cbv zeta in H.
    apply andb_true_iff in H as [H _]. apply andb_true_iff in H as [_ H].
    pose proof (forallb_nth _ _ i 0 H ltac:(lia)) as H1. apply N.ltb_lt, H1.
  Qed.

  (* permu[inverse[i]] = i : the check loop of make_inverse_permutation does not throw *)
  Lemma gperm_inverse_right i : chk_perm_inverse_check permu = true -> (i < 56)%nat ->
    nth (N.to_nat (nth i (make_inverse_permutation permu) 0)) permu 0 = N.of_nat i.
  Proof.
    intros H Hi. pose proof (gperm_inverse_length H) as Hl. unfold chk_perm_inverse_check in H. cbv zeta in H.
    apply andb_true_iff in H as [_ H]. unfold inverse_check in H.
    pose proof (forallbi_nth _ _ 0 i 0 H ltac:(lia)) as H1. cbv beta in H1. rewrite N.add_0_l in H1.
    destruct (nth_error permu _) as [x|] eqn:Hx; [|discriminate].
    rewrite (nth_error_nth_some _ _ _ 0 Hx). apply N.eqb_eq, H1.
  Qed.

  (* inverse[permu[i]] = i *)
  Lemma gperm_inverse_left i : chk_perm_inverse_left permu = true -> (i < 56)%nat ->
    nth (N.to_nat (nth i permu 0)) (make_inverse_permutation permu) 0 = N.of_nat i.
  Proof.
    intros H Hi. pose proof gperm_length as Hl. unfold chk_perm_inverse_left in H. cbv zeta in H.
    pose proof (forallbi_nth _ _ 0 i 0 H ltac:(lia)) as H1. cbv beta in H1. rewrite N.add_0_l in H1.
    destruct (nth_error (make_inverse_permutation permu) _) as [x|] eqn:Hx; [|discriminate].
    rewrite (nth_error_nth_some _ _ _ 0 Hx). apply N.eqb_eq, H1.
  Qed.
End GenericPerm.

(** * Prop-level corollaries for the concrete tables (what a codec proof uses) *)

Lemma byte_tables_count : length encoding_tables_for_high_entropy_byte = 22%nat.
Proof. exact (proj1 tables_shape). Qed.
Lemma unary_table_count : length length_limited_unary_encoding_table65 = 65%nat.
Proof. exact (proj1 (proj2 tables_shape)). Qed.
Lemma permutations_count : length column_permutations_for_encoding = 16%nat.
Proof. exact (proj2 (proj2 tables_shape)). Qed.

Lemma byte_tables_nth_chk (chk : list N -> bool) ti :
  forallb chk encoding_tables_for_high_entropy_byte = true -> (ti < 22)%nat ->
  chk (nth ti encoding_tables_for_high_entropy_byte []) = true.
Proof. intros H Hti. apply forallb_nth; [exact H|rewrite byte_tables_count; exact Hti]. Qed.

Lemma permutations_nth_chk (chk : list N -> bool) pi :
  forallb chk column_permutations_for_encoding = true -> (pi < 16)%nat ->
  chk (nth pi column_permutations_for_encoding []) = true.
Proof. intros H Hpi. apply forallb_nth; [exact H|rewrite permutations_count; exact Hpi]. Qed.

Lemma byte_decoding_tables_nth ti : (ti < 22)%nat ->
  nth ti byte_decoding_tables [] = make_decoding_table (nth ti encoding_tables_for_high_entropy_byte []).
Proof. intros Hti. unfold byte_decoding_tables. apply nth_map_lt. rewrite byte_tables_count. exact Hti. Qed.

Lemma column_permutations_for_decoding_nth pi : (pi < 16)%nat ->
  nth pi column_permutations_for_decoding [] = make_inverse_permutation (nth pi column_permutations_for_encoding []).
Proof. intros Hpi. unfold column_permutations_for_decoding. apply nth_map_lt. rewrite permutations_count. exact Hpi. Qed.

(* the three computed facts about byte table ti *)
Lemma byte_table_lengths_ok ti : (ti < 22)%nat -> chk_lengths 256 (nth ti encoding_tables_for_high_entropy_byte []) = true.
Proof. exact (byte_tables_nth_chk _ ti byte_tables_lengths_ok). Qed.
Lemma byte_table_canonical ti : (ti < 22)%nat -> chk_canonical (nth ti encoding_tables_for_high_entropy_byte []) = true.
Proof. exact (byte_tables_nth_chk _ ti byte_tables_canonical). Qed.
Lemma byte_table_array_ok ti : (ti < 22)%nat -> chk_array (nth ti encoding_tables_for_high_entropy_byte []) = true.
Proof. exact (byte_tables_nth_chk _ ti byte_tables_array_ok). Qed.

(** ** the 22 byte tables *)

Lemma byte_code_len_bounds : forall ti b, (ti < 22)%nat -> (b < 256)%nat ->
  let e := nth b (nth ti encoding_tables_for_high_entropy_byte []) 0 in
  e < 65536 /\ 1 <= code_len e <= 12.
Proof. intros ti b Hti Hb. apply (gen_code_len_bounds 256); [exact (byte_table_lengths_ok ti Hti)|exact Hb]. Qed.

Lemma byte_code_val_canonical : forall ti b, (ti < 22)%nat -> (b < 256)%nat ->
  let e := nth b (nth ti encoding_tables_for_high_entropy_byte []) 0 in
  code_val e < 2 ^ code_len e.
Proof.
  intros ti b Hti Hb.
  apply (gen_canonical 256); [exact (byte_table_lengths_ok ti Hti)|exact (byte_table_canonical ti Hti)|exact Hb].
Qed.

(* encode then decode *)
Lemma byte_decode_encode : forall ti b p, (ti < 22)%nat -> (b < 256)%nat -> p < 4096 ->
  let e := nth b (nth ti encoding_tables_for_high_entropy_byte []) 0 in
  p mod 2 ^ code_len e = code_val e ->
  nth (N.to_nat p) (nth ti byte_decoding_tables []) 0 = code_len e * 256 + N.of_nat b.
Proof.
  intros ti b p Hti Hb Hp. rewrite (byte_decoding_tables_nth ti Hti).
  apply (gen_decode_encode 256); [exact (byte_table_lengths_ok ti Hti)|exact (byte_table_array_ok ti Hti)|exact Hb|exact Hp].
Qed.

(* decode then encode (what validate_decoding_table establishes at start-up) *)
Lemma byte_validate : forall ti p, (ti < 22)%nat -> p < 4096 ->
  let d := nth (N.to_nat p) (nth ti byte_decoding_tables []) 0 in
  let b := N.land d 255 in
  let l := N.shiftr d 8 in
  (N.to_nat b < 256)%nat /\
  let e := nth (N.to_nat b) (nth ti encoding_tables_for_high_entropy_byte []) 0 in
  code_len e = l /\ code_val e = p mod 2 ^ l.
Proof.
  intros ti p Hti Hp. rewrite (byte_decoding_tables_nth ti Hti).
  apply (gen_validate 256); [exact (byte_table_lengths_ok ti Hti)|exact (byte_table_array_ok ti Hti)|exact Hp].
Qed.

(* the start-up call validate_decoding_table(decoding_tables_for_high_entropy_byte[ti], encoding_tables...[ti]) returns *)
Lemma byte_validate_decoding_table : forall ti, (ti < 22)%nat ->
  validate_decoding_table (nth ti byte_decoding_tables []) (nth ti encoding_tables_for_high_entropy_byte []) = true.
Proof.
  intros ti Hti. rewrite (byte_decoding_tables_nth ti Hti).
  apply gen_validate_decoding_table. exact (byte_table_array_ok ti Hti).
Qed.

Lemma byte_prefix_free : forall ti a b, (ti < 22)%nat -> (a < 256)%nat -> (b < 256)%nat -> a <> b ->
  let ea := nth a (nth ti encoding_tables_for_high_entropy_byte []) 0 in
  let eb := nth b (nth ti encoding_tables_for_high_entropy_byte []) 0 in
  ~ (code_len ea <= code_len eb /\ code_val eb mod 2 ^ code_len ea = code_val ea).
Proof.
  intros ti a b Hti Ha Hb Hab.
  apply (gen_prefix_free 256); [exact (byte_table_lengths_ok ti Hti)|exact (byte_table_array_ok ti Hti)|
    exact (byte_table_canonical ti Hti)|apply Nat.le_refl|exact Ha|exact Hb|exact Hab].
Qed.

Lemma byte_table_written : forall ti p, (ti < 22)%nat -> p < 4096 ->
  PositiveMap.find (slot p) (make_decoding_array (nth ti encoding_tables_for_high_entropy_byte [])) <> None.
Proof.
  intros ti p Hti Hp.
  apply gen_complete; [exact (byte_table_array_ok ti Hti)|exact Hp].
Qed.

Lemma byte_decoding_table_length : forall ti, (ti < 22)%nat ->
  N.of_nat (length (nth ti byte_decoding_tables [])) = 4096.
Proof. intros ti Hti. rewrite (byte_decoding_tables_nth ti Hti). apply make_decoding_table_length. Qed.

(** ** the unary table *)

Lemma unary_code_len_bounds : forall b, (b < 65)%nat ->
  let e := nth b length_limited_unary_encoding_table65 0 in
  e < 65536 /\ 1 <= code_len e <= 12.
Proof. intros b Hb. apply (gen_code_len_bounds 65); [exact unary_table_lengths_ok|exact Hb]. Qed.

Lemma unary_code_val_canonical : forall b, (b < 65)%nat ->
  let e := nth b length_limited_unary_encoding_table65 0 in
  code_val e < 2 ^ code_len e.
Proof.
  intros b Hb. apply (gen_canonical 65); [exact unary_table_lengths_ok|exact unary_table_canonical|exact Hb].
Qed.

Lemma unary_decode_encode : forall b p, (b < 65)%nat -> p < 4096 ->
  let e := nth b length_limited_unary_encoding_table65 0 in
  p mod 2 ^ code_len e = code_val e ->
  nth (N.to_nat p) unary_decoding_table 0 = code_len e * 256 + N.of_nat b.
Proof.
  intros b p Hb Hp. unfold unary_decoding_table.
  apply (gen_decode_encode 65); [exact unary_table_lengths_ok|exact unary_table_array_ok|exact Hb|exact Hp].
Qed.

Lemma unary_validate : forall p, p < 4096 ->
  let d := nth (N.to_nat p) unary_decoding_table 0 in
  let b := N.land d 255 in
  let l := N.shiftr d 8 in
  (N.to_nat b < 65)%nat /\
  let e := nth (N.to_nat b) length_limited_unary_encoding_table65 0 in
  code_len e = l /\ code_val e = p mod 2 ^ l.
Proof.
  intros p Hp. unfold unary_decoding_table.
  apply (gen_validate 65); [exact unary_table_lengths_ok|exact unary_table_array_ok|exact Hp].
Qed.

Lemma unary_validate_decoding_table :
  validate_decoding_table unary_decoding_table length_limited_unary_encoding_table65 = true.
Proof.
  unfold unary_decoding_table.
  apply gen_validate_decoding_table. exact unary_table_array_ok.
Qed.

Lemma unary_prefix_free : forall a b, (a < 65)%nat -> (b < 65)%nat -> a <> b ->
  let ea := nth a length_limited_unary_encoding_table65 0 in
  let eb := nth b length_limited_unary_encoding_table65 0 in
  ~ (code_len ea <= code_len eb /\ code_val eb mod 2 ^ code_len ea = code_val ea).
Proof.
  intros a b Ha Hb Hab.
  apply (gen_prefix_free 65); [exact unary_table_lengths_ok|exact unary_table_array_ok|exact unary_table_canonical|
    |exact Ha|exact Hb|exact Hab].
  repeat constructor.
Qed.

Lemma unary_table_written : forall p, p < 4096 ->
  PositiveMap.find (slot p) (make_decoding_array length_limited_unary_encoding_table65) <> None.
Proof.
  intros p Hp. apply gen_complete; [exact unary_table_array_ok|exact Hp].
Qed.

Lemma unary_decoding_table_length : N.of_nat (length unary_decoding_table) = 4096.
Proof. unfold unary_decoding_table. apply make_decoding_table_length. Qed.

(** ** the 16 column permutations and their inverses *)

Lemma permutation_length : forall pi, (pi < 16)%nat ->
  length (nth pi column_permutations_for_encoding []) = 56%nat.
Proof. intros pi Hpi. apply gperm_length. apply (permutations_nth_chk _ pi permutations_bijective Hpi). Qed.

Lemma permutation_range : forall pi i, (pi < 16)%nat -> (i < 56)%nat ->
  nth i (nth pi column_permutations_for_encoding []) 0 < 56.
Proof. intros pi i Hpi Hi. apply gperm_range; [|exact Hi]. apply (permutations_nth_chk _ pi permutations_bijective Hpi). Qed.

Lemma permutation_surjective : forall pi j, (pi < 16)%nat -> j < 56 ->
  exists i, (i < 56)%nat /\ nth i (nth pi column_permutations_for_encoding []) 0 = j.
Proof.
  intros pi j Hpi Hj. apply gperm_surjective; [|exact Hj].
  apply (permutations_nth_chk _ pi permutations_bijective Hpi).
Qed.

Lemma inverse_permutation_length : forall pi, (pi < 16)%nat ->
  length (nth pi column_permutations_for_decoding []) = 56%nat.
Proof.
  intros pi Hpi. rewrite (column_permutations_for_decoding_nth pi Hpi). apply gperm_inverse_length.
  apply (permutations_nth_chk _ pi permutations_inverse_check Hpi).
Qed.

Lemma inverse_permutation_range : forall pi i, (pi < 16)%nat -> (i < 56)%nat ->
  nth i (nth pi column_permutations_for_decoding []) 0 < 56.
Proof.
  intros pi i Hpi Hi. rewrite (column_permutations_for_decoding_nth pi Hpi). apply gperm_inverse_range; [|exact Hi].
  apply (permutations_nth_chk _ pi permutations_inverse_check Hpi).
Qed.

(* inverse[permu[i]] = i *)
Lemma permutation_inverse_left : forall pi i, (pi < 16)%nat -> (i < 56)%nat ->
  nth (N.to_nat (nth i (nth pi column_permutations_for_encoding []) 0)) (nth pi column_permutations_for_decoding []) 0
  = N.of_nat i.
Proof.
  intros pi i Hpi Hi. rewrite (column_permutations_for_decoding_nth pi Hpi). apply gperm_inverse_left; [| |exact Hi].
  - apply (permutations_nth_chk _ pi permutations_bijective Hpi).
  - apply (permutations_nth_chk _ pi permutations_inverse Hpi).
Qed.

(* permu[inverse[i]] = i *)
Lemma permutation_inverse_right : forall pi i, (pi < 16)%nat -> (i < 56)%nat ->
  nth (N.to_nat (nth i (nth pi column_permutations_for_decoding []) 0)) (nth pi column_permutations_for_encoding []) 0
  = N.of_nat i.
Proof.
  intros pi i Hpi Hi. rewrite (column_permutations_for_decoding_nth pi Hpi). apply gperm_inverse_right; [|exact Hi].
  apply (permutations_nth_chk _ pi permutations_inverse_check Hpi).
Qed.

Lemma permutation_injective : forall pi i j, (pi < 16)%nat -> (i < 56)%nat -> (j < 56)%nat ->
  nth i (nth pi column_permutations_for_encoding []) 0 = nth j (nth pi column_permutations_for_encoding []) 0 -> i = j.
Proof.
  intros pi i j Hpi Hi Hj H. apply Nat2N.inj.
  rewrite <- (permutation_inverse_left pi i Hpi Hi), <- (permutation_inverse_left pi j Hpi Hj), H. reflexivity.
Qed.

(** * Non-vacuity: concrete entries, and the checkers do reject broken tables *)

(* table 0: byte 7 has the 2-bit codeword 00 (entry 0x2000), so every window ending in 00 decodes to (2, 7) *)
Example byte_table0_entry7 : nth 7 (nth 0 encoding_tables_for_high_entropy_byte []) 0 = 8192.
Proof. vm_compute. reflexivity. Qed.
Example byte_table0_decode_4092 : nth 4092 (nth 0 byte_decoding_tables []) 0 = 2 * 256 + 7.
Proof. vm_compute. reflexivity. Qed.
Example unary_decode_all_ones : nth 4095 unary_decoding_table 0 = 12 * 256 + 64.
Proof. vm_compute. reflexivity. Qed.
Example inverse_perm0 : nth 4 (nth 0 column_permutations_for_decoding []) 0 = 55
                        /\ nth 55 (nth 0 column_permutations_for_encoding []) 0 = 4.
Proof. vm_compute. split; reflexivity. Qed.

(* {0, 00} is not prefix free (symbol 1 overwrites half of the slots of symbol 0: the extensions pass fails);
   {0, 01} is prefix free but incomplete (windows ending in 11 are never written: the slots pass fails);
   {0, 01, 11} is a complete prefix code; a codeword with bits above its length is rejected by [chk_canonical], and
   its slots do not validate *)
Example reject_prefix : chk_prefix_free [4096; 8192] = false /\ chk_array [4096; 8192] = false
                        /\ extensions_ok [4096; 8192] (make_decoding_array [4096; 8192]) = false.
Proof. vm_compute. repeat split. Qed.
Example reject_incomplete :
  chk_prefix_free [4096; 8193] = true /\ chk_array [4096; 8193] = false /\
  slots_ok (list_array [4096; 8193]) (make_decoding_array [4096; 8193]) = false /\
  extensions_ok [4096; 8193] (make_decoding_array [4096; 8193]) = true.
Proof. vm_compute. repeat split. Qed.
Example accept_small_code :
  let enc := [4096; 8193; 8195] in
  chk_lengths 3 enc && chk_canonical enc && chk_array enc && chk_prefix_free enc = true.
Proof. vm_compute. reflexivity. Qed.
Example reject_noncanonical : chk_canonical [4098] = false /\ chk_array [4098] = false.
Proof. vm_compute. split; reflexivity. Qed.
Example reject_overwritten : chk_array [4096; 8192; 4097] = false.
Proof. vm_compute. reflexivity. Qed.
Example reject_non_permutation : chk_perm_bijective (repeat 0 56) = false.
Proof. vm_compute. reflexivity. Qed.

(** * Obligation count (computed by the kernel): 1 ([tables_shape])
      + 22 byte tables x 4 kinds (lengths, canonical, slots, extensions)
      + 1 unary table x 5 kinds (the same four + pairwise prefix-freeness)
      + 16 permutations x 3 kinds (bijective, inverse check loop, inverse[permu[i]] = i)
      = 1 + 88 + 5 + 48 = 142 finite obligations. *)

Print Assumptions tables_shape.
Print Assumptions byte_tables_lengths_ok.
Print Assumptions byte_tables_canonical.
Print Assumptions byte_tables_array_ok.
Print Assumptions unary_table_lengths_ok.
Print Assumptions unary_table_canonical.
Print Assumptions unary_table_array_ok.
Print Assumptions unary_table_pairwise_prefix_free.
Print Assumptions permutations_bijective.
Print Assumptions permutations_inverse_check.
Print Assumptions permutations_inverse.
Print Assumptions byte_code_len_bounds.
Print Assumptions byte_code_val_canonical.
Print Assumptions byte_decode_encode.
Print Assumptions byte_validate.
Print Assumptions byte_validate_decoding_table.
Print Assumptions byte_prefix_free.
Print Assumptions byte_table_written.
Print Assumptions byte_decoding_table_length.
Print Assumptions unary_code_len_bounds.
Print Assumptions unary_code_val_canonical.
Print Assumptions unary_decode_encode.
Print Assumptions unary_validate.
Print Assumptions unary_validate_decoding_table.
Print Assumptions unary_prefix_free.
Print Assumptions unary_table_written.
Print Assumptions unary_decoding_table_length.
Print Assumptions permutation_length.
Print Assumptions permutation_range.
Print Assumptions permutation_surjective.
Print Assumptions permutation_injective.
Print Assumptions inverse_permutation_length.
Print Assumptions inverse_permutation_range.
Print Assumptions permutation_inverse_left.
Print Assumptions permutation_inverse_right.
