(* CpcCodecTables.v — the static coding tables of the CPC compressor (cpc/include/compression_data.hpp, translated on
   every run into gen/CpcTablesGen.v by translators/gen_cpctables.py) and the start-up code that derives the decoding
   tables from them (cpc/include/cpc_compressor_impl.hpp: make_inverse_permutation l.63-72, make_decoding_table
   l.78-93, validate_decoding_table l.96-109, make_decoding_tables l.112-130).

   Everything about the concrete tables is a FINITE obligation: a boolean checker evaluated by [vm_compute] on the
   translated tables (one obligation per table and per kind of check; see the count at the end of the file).  The
   Prop-level corollaries that a codec proof needs ([byte_decode_encode], [byte_validate], [byte_prefix_free],
   [byte_code_len_bounds], ... and the same for the unary table and the permutations) are then DERIVED from the
   checkers by generic lemmas ([forallbi_nth], [forallb_nth]), never by computing over a quantified Prop.

   Encoding entry e (uint16_t): code length = e >> 12, code value = e & 0xfff; the codeword is the low [code_len e]
   bits of [code_val e], emitted least significant bit first.  Hence "codeword a is a prefix of codeword b" reads
   [code_len a <= code_len b /\ code_val b mod 2 ^ code_len a = code_val a].

   Modelling notes for make_decoding_table (the model is the literal double loop over an array):
   - the C++ array is [new uint16_t[4096]], i.e. UNINITIALISED.  The array is modelled as a finite map in which an
     unwritten slot is absent; [array_complete] is the obligation that all 4096 slots get written (so no
     uninitialised value can ever be read); [make_decoding_table] reads absent slots as 0.
   - [code_length] is a uint8_t holding e >> 12 <= 15 and [garbage_length = 12 - code_length] is a uint8_t: for a
     length above 12 the C++ value wraps (and [1 << garbage_length] is undefined behaviour) while [N] subtraction
     truncates to 0.  The two agree exactly when every length is <= 12, which is the obligation [*_lengths_ok].
   - the casts to uint16_t of [decoding_entry] ((len << 8) | byte, len <= 15, byte < 256) and of
     [extended_code_value] (followed by [& 0xfff]) never lose bits that are looked at; [N.land _ 65535] is kept in
     the model for the entry all the same.
   - [make_decoding_table_mappass] is the closed-form description ("slot p holds the entry of the LAST byte value
     whose codeword matches the low bits of p"); it coincides with the loop on the p with
     [p mod 2^len = val] exactly when [val < 2^len] (obligation [*_canonical]); the agreement of the two
     constructions on every table is itself an obligation ([*_loop_eq_mappass]). *)
From Coq Require Import NArith List Bool Lia Arith FMapPositive.
From DS.gen Require Import CpcTablesGen.
Import ListNotations.
Local Open Scope N_scope.

(** * Entries *)

Definition code_len (e : N) : N := N.shiftr e 12.
Definition code_val (e : N) : N := N.land e 4095.

(** * Indexed iteration (index carried as N; no [nth] in inner loops) *)

Fixpoint forallbi {A} (f : N -> A -> bool) (i : N) (l : list A) : bool :=
  match l with
  | [] => true
  | x :: r => f i x && forallbi f (N.succ i) r
  end.

Fixpoint nseq (s : N) (n : nat) : list N :=
  match n with O => [] | S k => s :: nseq (N.succ s) k end.

(* 4096 as a nat is always written [n4096] (a 4096-deep unary literal makes [lia] and conversion slow) *)
Definition n4096 : nat := N.to_nat 4096.
Notation idx4096 := (nseq 0 n4096).

Fixpoint list_eqb (a b : list N) : bool :=
  match a, b with
  | [], [] => true
  | x :: r, y :: s => (x =? y) && list_eqb r s
  | _, _ => false
  end.

(** * make_decoding_table: literal mirror of the C++ double loop *)

Definition slot (p : N) : positive := N.succ_pos p.

(* for (garbage_bits = g; [fuel] more iterations; garbage_bits++) decoding_table[(cv | (g << cl)) & 0xfff] = entry *)
Fixpoint garbage_loop (fuel : nat) (g cv cl entry : N) (arr : PositiveMap.t N) : PositiveMap.t N :=
  match fuel with
  | O => arr
  | S f =>
      let extended_code_value := N.land (N.lor cv (N.shiftl g cl)) 65535 in
      garbage_loop f (N.succ g) cv cl entry (PositiveMap.add (slot (N.land extended_code_value 4095)) entry arr)
  end.

(* for (byte_value = b; byte_value < b + length enc; byte_value++) *)
Fixpoint byte_loop (enc : list N) (b : N) (arr : PositiveMap.t N) : PositiveMap.t N :=
  match enc with
  | [] => arr
  | encoding_entry :: r =>
      let code_value := code_val encoding_entry in
      let code_length := code_len encoding_entry in
      let decoding_entry := N.land (N.lor (N.shiftl code_length 8) b) 65535 in
      let garbage_length := 12 - code_length in
      let num_copies := N.shiftl 1 garbage_length in
      byte_loop r (N.succ b) (garbage_loop (N.to_nat num_copies) 0 code_value code_length decoding_entry arr)
  end.

Definition make_decoding_array (enc : list N) : PositiveMap.t N := byte_loop enc 0 (PositiveMap.empty N).

Definition read_slot (arr : PositiveMap.t N) (p : N) : N :=
  match PositiveMap.find (slot p) arr with Some v => v | None => 0 end.

Definition make_decoding_table (enc : list N) : list N := map (read_slot (make_decoding_array enc)) idx4096.

(* every one of the 4096 slots has been written *)
Definition slot_written (arr : PositiveMap.t N) (p : N) : bool :=
  match PositiveMap.find (slot p) arr with Some _ => true | None => false end.
Notation array_complete := (fun arr : PositiveMap.t N => forallb (slot_written arr) idx4096).

(** closed form: one pass over the table per byte value *)
Fixpoint mappass (p mask cv entry : N) (tbl : list N) : list N :=
  match tbl with
  | [] => []
  | x :: r => (if N.land p mask =? cv then entry else x) :: mappass (N.succ p) mask cv entry r
  end.

Fixpoint mappass_bytes (enc : list N) (b : N) (tbl : list N) : list N :=
  match enc with
  | [] => tbl
  | e :: r => mappass_bytes r (N.succ b) (mappass 0 (N.ones (code_len e)) (code_val e) (code_len e * 256 + b) tbl)
  end.

Definition make_decoding_table_mappass (enc : list N) : list N := mappass_bytes enc 0 (repeat 0 n4096).

(** * validate_decoding_table (true = no exception; an out-of-range read of the encoding table counts as failure) *)

Definition validate_entry (enc : list N) (decode_this tmp_d : N) : bool :=
  let decoded_byte := N.land tmp_d 255 in
  let decoded_length := N.shiftr tmp_d 8 in
  match nth_error enc (N.to_nat decoded_byte) with
  | None => false
  | Some tmp_e =>
      let encoded_bit_pattern := N.land tmp_e 4095 in
      let encoded_length := N.shiftr tmp_e 12 in
      (decoded_length =? encoded_length) &&
      (encoded_bit_pattern =? N.land decode_this (N.shiftl 1 decoded_length - 1))
  end.

Definition validate_decoding_table (dec enc : list N) : bool :=
  (N.of_nat (length dec) =? 4096) && forallbi (validate_entry enc) 0 dec.

(** * The boolean checkers, one per kind ([n] = number of byte values of the table) *)

Definition chk_lengths (n : nat) (enc : list N) : bool :=
  (length enc =? n)%nat &&
  forallb (fun e => (e <? 65536) && (1 <=? code_len e) && (code_len e <=? 12)) enc.

Definition chk_canonical (enc : list N) : bool :=
  forallb (fun e => code_val e <? 2 ^ code_len e) enc.

(* [chk_complete], [chk_validate], [chk_decode_encode] are notations, not constants: the derivations below then never
   need a delta-conversion in front of a closed 4096-entry computation (which the kernel might decide to evaluate) *)
Notation chk_complete := (fun enc : list N => array_complete (make_decoding_array enc)).

Definition chk_loop_eq_mappass (enc : list N) : bool :=
  list_eqb (make_decoding_table enc) (make_decoding_table_mappass enc).

Notation chk_validate := (fun enc : list N => validate_decoding_table (make_decoding_table enc) enc).

Definition chk_prefix_free (enc : list N) : bool :=
  forallbi (fun a ea =>
    let la := code_len ea in let va := code_val ea in let mask := N.ones la in
    forallbi (fun b eb =>
      (a =? b) || negb ((la <=? code_len eb) && (N.land (code_val eb) mask =? va))) 0 enc) 0 enc.

Definition decode_encode_ok (dec enc : list N) : bool :=
  (N.of_nat (length dec) =? 4096) &&
  forallbi (fun b e =>
    let cl := code_len e in let cv := code_val e in let mask := N.ones cl in let expect := cl * 256 + b in
    forallbi (fun p d => if N.land p mask =? cv then d =? expect else true) 0 dec) 0 enc.
Notation chk_decode_encode := (fun enc : list N => decode_encode_ok (make_decoding_table enc) enc).

(** * Column permutations *)

Fixpoint upd_nth (l : list N) (k : nat) (v : N) : list N :=
  match l, k with
  | [], _ => []
  | _ :: r, O => v :: r
  | x :: r, S k' => x :: upd_nth r k' v
  end.

(* first loop of make_inverse_permutation: inverse[permu[i]] = i (the uninitialised array is modelled by zeros; the
   checkers below show that every slot is written) *)
Fixpoint inverse_loop (permu : list N) (i : N) (inverse : list N) : list N :=
  match permu with
  | [] => inverse
  | x :: r => inverse_loop r (N.succ i) (upd_nth inverse (N.to_nat x) (N.land i 255))
  end.

Definition make_inverse_permutation (permu : list N) : list N :=
  inverse_loop permu 0 (repeat 0 (length permu)).

(* second loop of make_inverse_permutation (true = no exception) *)
Definition inverse_check (permu inverse : list N) : bool :=
  forallbi (fun i inv_i => match nth_error permu (N.to_nat inv_i) with Some x => x =? i | None => false end) 0 inverse.

Definition chk_perm_bijective (permu : list N) : bool :=
  (length permu =? 56)%nat && forallb (fun x => x <? 56) permu &&
  forallb (fun i => existsb (N.eqb i) permu) (nseq 0 56).

Definition chk_perm_inverse_check (permu : list N) : bool :=
  let inverse := make_inverse_permutation permu in
  (length inverse =? 56)%nat && forallb (fun x => x <? 56) inverse && inverse_check permu inverse.

Definition chk_perm_inverse_left (permu : list N) : bool :=
  let inverse := make_inverse_permutation permu in
  forallbi (fun i x => match nth_error inverse (N.to_nat x) with Some y => y =? i | None => false end) 0 permu.

(** * The tables built at start-up *)

Definition byte_decoding_tables : list (list N) := map make_decoding_table encoding_tables_for_high_entropy_byte.
Definition unary_decoding_table : list N := make_decoding_table length_limited_unary_encoding_table65.
Definition column_permutations_for_decoding : list (list N) :=
  map make_inverse_permutation column_permutations_for_encoding.

(** * Finite obligations on the translated tables *)

Lemma tables_shape :
  length encoding_tables_for_high_entropy_byte = 22%nat /\
  length length_limited_unary_encoding_table65 = 65%nat /\
  length column_permutations_for_encoding = 16%nat.
Proof. vm_compute. repeat split. Qed.

(* 22 byte tables *)
Lemma byte_tables_lengths_ok : forallb (chk_lengths 256) encoding_tables_for_high_entropy_byte = true.
Proof. vm_cast_no_check (eq_refl true). Qed.
Lemma byte_tables_canonical : forallb chk_canonical encoding_tables_for_high_entropy_byte = true.
Proof. vm_cast_no_check (eq_refl true). Qed.
Lemma byte_tables_complete : forallb chk_complete encoding_tables_for_high_entropy_byte = true.
Proof. vm_cast_no_check (eq_refl true). Qed.
Lemma byte_tables_loop_eq_mappass : forallb chk_loop_eq_mappass encoding_tables_for_high_entropy_byte = true.
Proof. vm_cast_no_check (eq_refl true). Qed.
Lemma byte_tables_validate : forallb chk_validate encoding_tables_for_high_entropy_byte = true.
Proof. vm_cast_no_check (eq_refl true). Qed.
Lemma byte_tables_prefix_free : forallb chk_prefix_free encoding_tables_for_high_entropy_byte = true.
Proof. vm_cast_no_check (eq_refl true). Qed.
Lemma byte_tables_decode_encode : forallb chk_decode_encode encoding_tables_for_high_entropy_byte = true.
Proof. vm_cast_no_check (eq_refl true). Qed.

(* the unary table (65 symbols) *)
Lemma unary_table_lengths_ok : chk_lengths 65 length_limited_unary_encoding_table65 = true.
Proof. vm_cast_no_check (eq_refl true). Qed.
Lemma unary_table_canonical : chk_canonical length_limited_unary_encoding_table65 = true.
Proof. vm_cast_no_check (eq_refl true). Qed.
Lemma unary_table_complete : chk_complete length_limited_unary_encoding_table65 = true.
Proof. vm_cast_no_check (eq_refl true). Qed.
Lemma unary_table_loop_eq_mappass : chk_loop_eq_mappass length_limited_unary_encoding_table65 = true.
Proof. vm_cast_no_check (eq_refl true). Qed.
Lemma unary_table_validate : chk_validate length_limited_unary_encoding_table65 = true.
Proof. vm_cast_no_check (eq_refl true). Qed.
Lemma unary_table_prefix_free : chk_prefix_free length_limited_unary_encoding_table65 = true.
Proof. vm_cast_no_check (eq_refl true). Qed.
Lemma unary_table_decode_encode : chk_decode_encode length_limited_unary_encoding_table65 = true.
Proof. vm_cast_no_check (eq_refl true). Qed.

(* 16 column permutations *)
Lemma permutations_bijective : forallb chk_perm_bijective column_permutations_for_encoding = true.
Proof. vm_cast_no_check (eq_refl true). Qed.
Lemma permutations_inverse_check : forallb chk_perm_inverse_check column_permutations_for_encoding = true.
Proof. vm_cast_no_check (eq_refl true). Qed.
Lemma permutations_inverse : forallb chk_perm_inverse_left column_permutations_for_encoding = true.
Proof. vm_cast_no_check (eq_refl true). Qed.

(** * Generic lemmas: from a boolean checker to the quantified statement *)

Lemma forallbi_nth {A} (f : N -> A -> bool) : forall (l : list A) (i : N) (k : nat) (d : A),
  forallbi f i l = true -> (k < length l)%nat -> f (i + N.of_nat k) (nth k l d) = true.
Proof.
  induction l as [|x r IH]; intros i k d H Hk; cbn [length] in Hk; [lia|].
  cbn [forallbi] in H. apply andb_true_iff in H as [H1 H2].
  destruct k as [|k].
  - cbn [nth]. change (N.of_nat 0) with 0. rewrite N.add_0_r. exact H1.
  - cbn [nth]. replace (i + N.of_nat (S k)) with (N.succ i + N.of_nat k) by lia.
    apply IH; [exact H2|lia].
Qed.

Lemma forallb_nth {A} (f : A -> bool) (l : list A) (k : nat) (d : A) :
  forallb f l = true -> (k < length l)%nat -> f (nth k l d) = true.
Proof. intros H Hk. rewrite forallb_forall in H. apply H, nth_In, Hk. Qed.

Lemma nth_map_lt {A B} (f : A -> B) (l : list A) (k : nat) (da : A) (db : B) :
  (k < length l)%nat -> nth k (map f l) db = f (nth k l da).
Proof. intros Hk. rewrite (nth_indep _ db (f da)) by (rewrite map_length; exact Hk). apply map_nth. Qed.

Lemma nth_error_nth_some {A} (l : list A) (k : nat) (x d : A) : nth_error l k = Some x -> nth k l d = x.
Proof. intros H. apply nth_error_nth, H. Qed.

Lemma list_eqb_eq : forall a b, list_eqb a b = true -> a = b.
Proof.
  induction a as [|x r IH]; destruct b as [|y s]; cbn [list_eqb]; intros H; try discriminate; [reflexivity|].
  apply andb_true_iff in H as [H1 H2]. apply N.eqb_eq in H1. subst y. f_equal. apply IH, H2.
Qed.

Lemma nseq_length : forall n s, length (nseq s n) = n.
Proof. induction n; intros s; cbn [nseq length]; [reflexivity|f_equal; apply IHn]. Qed.

Lemma nseq_nth : forall n s k d, (k < n)%nat -> nth k (nseq s n) d = s + N.of_nat k.
Proof.
  induction n; intros s k d Hk; [lia|]. destruct k as [|k]; cbn [nseq nth].
  - change (N.of_nat 0) with 0. lia.
  - rewrite IHn by lia. lia.
Qed.

Lemma forallb_nseq (f : N -> bool) : forall n s k,
  forallb f (nseq s n) = true -> (k < n)%nat -> f (s + N.of_nat k) = true.
Proof.
  intros n s k H Hk. rewrite <- (nseq_nth n s k 0 Hk). apply forallb_nth; [exact H|]. rewrite nseq_length. exact Hk.
Qed.

Lemma to_nat_lt_4096 p : p < 4096 -> (N.to_nat p < n4096)%nat.
Proof. intros H. unfold n4096. generalize dependent 4096. intros m H. lia. Qed.

Lemma to_nat_lt_len {A} (l : list A) p m : N.of_nat (length l) = m -> p < m -> (N.to_nat p < length l)%nat.
Proof. intros H Hp. lia. Qed.

(** ** Statements about an arbitrary (decoding table, encoding table) pair that passes a checker
    (the decoding table is a variable here, so nothing about 4096-entry lists is ever computed by these proofs) *)

Lemma validate_sound dec enc p : validate_decoding_table dec enc = true -> p < 4096 ->
  let d := nth (N.to_nat p) dec 0 in
  let b := N.land d 255 in
  let l := N.shiftr d 8 in
  (N.to_nat b < length enc)%nat /\
  let e := nth (N.to_nat b) enc 0 in code_len e = l /\ code_val e = p mod 2 ^ l.
Proof.
  intros H Hp d b l. unfold validate_decoding_table in H. apply andb_true_iff in H as [Hlen H].
  apply N.eqb_eq in Hlen.
  pose proof (forallbi_nth _ dec 0 (N.to_nat p) 0 H (to_nat_lt_len _ _ _ Hlen Hp)) as H2.
  rewrite N.add_0_l, N2Nat.id in H2. fold d in H2. unfold validate_entry in H2. cbv zeta in H2.
  fold b l in H2.
  destruct (nth_error enc (N.to_nat b)) as [e|] eqn:He; [|discriminate].
  assert (Hb : (N.to_nat b < length enc)%nat).
  { apply nth_error_Some. rewrite He. discriminate. }
  split; [exact Hb|]. cbv zeta. rewrite (nth_error_nth_some _ _ _ 0 He).
  apply andb_true_iff in H2 as [Ha Hb2]. apply N.eqb_eq in Ha, Hb2.
  unfold code_len, code_val. split; [symmetry; exact Ha|].
  rewrite Hb2. rewrite N.shiftl_1_l, N.sub_1_r, <- N.ones_equiv, N.land_ones. reflexivity.
Qed.

Lemma decode_encode_sound dec enc b p : decode_encode_ok dec enc = true -> (b < length enc)%nat -> p < 4096 ->
  let e := nth b enc 0 in
  p mod 2 ^ code_len e = code_val e ->
  nth (N.to_nat p) dec 0 = code_len e * 256 + N.of_nat b.
Proof.
  intros H Hb Hp e Hm. unfold decode_encode_ok in H. apply andb_true_iff in H as [Hlen H].
  apply N.eqb_eq in Hlen.
  pose proof (forallbi_nth _ enc 0 b 0 H Hb) as H1. cbv beta zeta in H1. fold e in H1.
  pose proof (forallbi_nth _ dec 0 (N.to_nat p) 0 H1 (to_nat_lt_len _ _ _ Hlen Hp)) as H2.
  cbv beta in H2. rewrite !N.add_0_l, N2Nat.id, N.land_ones, Hm, N.eqb_refl in H2.
  apply N.eqb_eq, H2.
Qed.

Lemma array_complete_sound arr p : array_complete arr = true -> p < 4096 ->
  PositiveMap.find (slot p) arr <> None.
Proof.
  intros H Hp. cbv beta in H.
  pose proof (forallb_nseq _ _ 0 (N.to_nat p) H (to_nat_lt_4096 p Hp)) as H1.
  rewrite N.add_0_l, N2Nat.id in H1. unfold slot_written in H1. destruct (PositiveMap.find _ _); discriminate.
Qed.

(** ** Per-table statements, for an arbitrary encoding table that passes the checkers *)

Section Generic.
  Variable n : nat.
  Variable enc : list N.
  Hypothesis Hlen : chk_lengths n enc = true.

  Lemma gen_length : length enc = n.
  Proof. unfold chk_lengths in Hlen. apply andb_true_iff in Hlen as [H _]. apply Nat.eqb_eq, H. Qed.

  Lemma gen_code_len_bounds b : (b < n)%nat ->
    let e := nth b enc 0 in e < 65536 /\ 1 <= code_len e <= 12.
  Proof.
    intros Hb e. unfold chk_lengths in Hlen. apply andb_true_iff in Hlen as [Hl H].
    apply Nat.eqb_eq in Hl.
    pose proof (forallb_nth _ enc b 0 H ltac:(lia)) as Hb'. fold e in Hb'. cbv beta in Hb'.
    apply andb_true_iff in Hb' as [Hb' H3]. apply andb_true_iff in Hb' as [H1 H2].
    apply N.ltb_lt in H1. apply N.leb_le in H2, H3. auto.
  Qed.

  Lemma gen_canonical b : chk_canonical enc = true -> (b < n)%nat ->
    let e := nth b enc 0 in code_val e < 2 ^ code_len e.
  Proof.
    intros H Hb e. pose proof gen_length as Hl. unfold chk_canonical in H.
    pose proof (forallb_nth _ enc b 0 H ltac:(lia)) as Hb'. apply N.ltb_lt in Hb'. exact Hb'.
  Qed.

  (* encode then decode: every 12-bit window p whose low [len] bits are the codeword of b decodes to (len, b) *)
  Lemma gen_decode_encode b p : chk_decode_encode enc = true -> (b < n)%nat -> p < 4096 ->
    let e := nth b enc 0 in
    p mod 2 ^ code_len e = code_val e ->
    nth (N.to_nat p) (make_decoding_table enc) 0 = code_len e * 256 + N.of_nat b.
  Proof.
    intros H Hb Hp. apply decode_encode_sound; [exact H| rewrite gen_length; exact Hb | exact Hp].
  Qed.

  (* decode then encode: the entry found at any 12-bit window p names a byte value whose codeword is the low bits of p *)
  Lemma gen_validate p : chk_validate enc = true -> p < 4096 ->
    let d := nth (N.to_nat p) (make_decoding_table enc) 0 in
    let b := N.land d 255 in
    let l := N.shiftr d 8 in
    (N.to_nat b < n)%nat /\
    let e := nth (N.to_nat b) enc 0 in code_len e = l /\ code_val e = p mod 2 ^ l.
  Proof.
    intros H Hp. rewrite <- gen_length. apply validate_sound; [exact H|exact Hp].
  Qed.

  (* no codeword is a prefix (LSB first) of the codeword of another byte value *)
  Lemma gen_prefix_free a b : chk_prefix_free enc = true -> (a < n)%nat -> (b < n)%nat -> a <> b ->
    let ea := nth a enc 0 in let eb := nth b enc 0 in
    ~ (code_len ea <= code_len eb /\ code_val eb mod 2 ^ code_len ea = code_val ea).
  Proof.
    intros H Ha Hb Hab ea eb [H1 H2]. pose proof gen_length as Hl. unfold chk_prefix_free in H.
    pose proof (forallbi_nth _ enc 0 a 0 H ltac:(lia)) as Hx. cbv beta zeta in Hx. fold ea in Hx.
    pose proof (forallbi_nth _ enc 0 b 0 Hx ltac:(lia)) as Hy. cbv beta in Hy. fold eb in Hy.
    rewrite !N.add_0_l, N.land_ones, H2, N.eqb_refl in Hy.
    apply N.leb_le in H1. rewrite H1 in Hy. cbn [andb negb] in Hy. rewrite orb_false_r in Hy.
    apply N.eqb_eq in Hy. apply Hab. lia.
  Qed.

  Lemma gen_loop_eq_mappass : chk_loop_eq_mappass enc = true ->
    make_decoding_table enc = make_decoding_table_mappass enc.
  Proof. apply list_eqb_eq. Qed.

  (* no slot of the 4096-entry array is left uninitialised *)
  Lemma gen_complete p : chk_complete enc = true -> p < 4096 ->
    PositiveMap.find (slot p) (make_decoding_array enc) <> None.
  Proof. intros H Hp. apply array_complete_sound; [exact H|exact Hp]. Qed.
End Generic.

(** ** Permutations, for an arbitrary list that passes the checkers *)

Section GenericPerm.
  Variable permu : list N.
  Hypothesis Hbij : chk_perm_bijective permu = true.

  Lemma gperm_length : length permu = 56%nat.
  Proof.
    unfold chk_perm_bijective in Hbij. apply andb_true_iff in Hbij as [H _].
    apply andb_true_iff in H as [H _]. apply Nat.eqb_eq, H.
  Qed.

  Lemma gperm_range i : (i < 56)%nat -> nth i permu 0 < 56.
  Proof.
    intros Hi. pose proof gperm_length as Hl. unfold chk_perm_bijective in Hbij.
    apply andb_true_iff in Hbij as [H _]. apply andb_true_iff in H as [_ H].
    pose proof (forallb_nth _ permu i 0 H ltac:(lia)) as H1. apply N.ltb_lt, H1.
  Qed.

  Lemma gperm_surjective j : j < 56 -> exists i, (i < 56)%nat /\ nth i permu 0 = j.
  Proof.
    intros Hj. pose proof gperm_length as Hl. unfold chk_perm_bijective in Hbij.
    apply andb_true_iff in Hbij as [_ H].
    assert (Hjn : (N.to_nat j < 56)%nat) by (change 56%nat with (N.to_nat 56); lia).
    pose proof (forallb_nth _ (nseq 0 56) (N.to_nat j) 0 H ltac:(rewrite nseq_length; exact Hjn)) as H1.
    cbv beta in H1. rewrite nseq_nth in H1 by exact Hjn. rewrite N.add_0_l, N2Nat.id in H1.
    apply existsb_exists in H1 as [x [Hin Hx]]. apply N.eqb_eq in Hx. subst x.
    destruct (In_nth _ _ 0 Hin) as [i [Hi Hn]]. exists i. split; [lia|exact Hn].
  Qed.

  Lemma gperm_inverse_length : chk_perm_inverse_check permu = true ->
    length (make_inverse_permutation permu) = 56%nat.
  Proof.
    intros H. unfold chk_perm_inverse_check in H. cbv zeta in H.
    apply andb_true_iff in H as [H _]. apply andb_true_iff in H as [H _]. apply Nat.eqb_eq, H.
  Qed.

  Lemma gperm_inverse_range i : chk_perm_inverse_check permu = true -> (i < 56)%nat ->
    nth i (make_inverse_permutation permu) 0 < 56.
  Proof.
    intros H Hi. pose proof (gperm_inverse_length H) as Hl. unfold chk_perm_inverse_check in H. cbv zeta in H.
    apply andb_true_iff in H as [H _]. apply andb_true_iff in H as [_ H].
    pose proof (forallb_nth _ _ i 0 H ltac:(lia)) as H1. apply N.ltb_lt, H1.
  Qed.

  (* permu[inverse[i]] = i : the check loop of make_inverse_permutation does not throw *)
  Lemma gperm_inverse_right i : chk_perm_inverse_check permu = true -> (i < 56)%nat ->
    nth (N.to_nat (nth i (make_inverse_permutation permu) 0)) permu 0 = N.of_nat i.
  Proof.
    intros H Hi. pose proof (gperm_inverse_length H) as Hl. unfold chk_perm_inverse_check in H. cbv zeta in H.
    apply andb_true_iff in H as [_ H]. unfold inverse_check in H.
    pose proof (forallbi_nth _ _ 0 i 0 H ltac:(lia)) as H1. cbv beta in H1. rewrite N.add_0_l in H1.
    destruct (nth_error permu _) as [x|] eqn:Hx; [|discriminate].
    rewrite (nth_error_nth_some _ _ _ 0 Hx). apply N.eqb_eq, H1.
  Qed.

  (* inverse[permu[i]] = i *)
  Lemma gperm_inverse_left i : chk_perm_inverse_left permu = true -> (i < 56)%nat ->
    nth (N.to_nat (nth i permu 0)) (make_inverse_permutation permu) 0 = N.of_nat i.
  Proof.
    intros H Hi. pose proof gperm_length as Hl. unfold chk_perm_inverse_left in H. cbv zeta in H.
    pose proof (forallbi_nth _ _ 0 i 0 H ltac:(lia)) as H1. cbv beta in H1. rewrite N.add_0_l in H1.
    destruct (nth_error (make_inverse_permutation permu) _) as [x|] eqn:Hx; [|discriminate].
    rewrite (nth_error_nth_some _ _ _ 0 Hx). apply N.eqb_eq, H1.
  Qed.
End GenericPerm.

(** * Prop-level corollaries for the concrete tables (what a codec proof uses) *)

Lemma byte_tables_count : length encoding_tables_for_high_entropy_byte = 22%nat.
Proof. exact (proj1 tables_shape). Qed.
Lemma unary_table_count : length length_limited_unary_encoding_table65 = 65%nat.
Proof. exact (proj1 (proj2 tables_shape)). Qed.
Lemma permutations_count : length column_permutations_for_encoding = 16%nat.
Proof. exact (proj2 (proj2 tables_shape)). Qed.

Lemma byte_tables_nth_chk (chk : list N -> bool) ti :
  forallb chk encoding_tables_for_high_entropy_byte = true -> (ti < 22)%nat ->
  chk (nth ti encoding_tables_for_high_entropy_byte []) = true.
Proof. intros H Hti. apply forallb_nth; [exact H|rewrite byte_tables_count; exact Hti]. Qed.

Lemma permutations_nth_chk (chk : list N -> bool) pi :
  forallb chk column_permutations_for_encoding = true -> (pi < 16)%nat ->
  chk (nth pi column_permutations_for_encoding []) = true.
Proof. intros H Hpi. apply forallb_nth; [exact H|rewrite permutations_count; exact Hpi]. Qed.

Lemma byte_decoding_tables_nth ti : (ti < 22)%nat ->
  nth ti byte_decoding_tables [] = make_decoding_table (nth ti encoding_tables_for_high_entropy_byte []).
Proof. intros Hti. unfold byte_decoding_tables. apply nth_map_lt. rewrite byte_tables_count. exact Hti. Qed.

Lemma column_permutations_for_decoding_nth pi : (pi < 16)%nat ->
  nth pi column_permutations_for_decoding [] = make_inverse_permutation (nth pi column_permutations_for_encoding []).
Proof. intros Hpi. unfold column_permutations_for_decoding. apply nth_map_lt. rewrite permutations_count. exact Hpi. Qed.

Lemma make_decoding_table_length enc : N.of_nat (length (make_decoding_table enc)) = 4096.
Proof. unfold make_decoding_table. rewrite map_length, nseq_length. unfold n4096. apply N2Nat.id. Qed.

(** ** the 22 byte tables *)

Lemma byte_code_len_bounds : forall ti b, (ti < 22)%nat -> (b < 256)%nat ->
  let e := nth b (nth ti encoding_tables_for_high_entropy_byte []) 0 in
  e < 65536 /\ 1 <= code_len e <= 12.
Proof.
  intros ti b Hti Hb. apply (gen_code_len_bounds 256); [|exact Hb].
  apply (byte_tables_nth_chk _ ti byte_tables_lengths_ok Hti).
Qed.

Lemma byte_code_val_canonical : forall ti b, (ti < 22)%nat -> (b < 256)%nat ->
  let e := nth b (nth ti encoding_tables_for_high_entropy_byte []) 0 in
  code_val e < 2 ^ code_len e.
Proof.
  intros ti b Hti Hb. apply (gen_canonical 256); [| |exact Hb].
  - apply (byte_tables_nth_chk _ ti byte_tables_lengths_ok Hti).
  - apply (byte_tables_nth_chk _ ti byte_tables_canonical Hti).
Qed.

(* encode then decode *)
Lemma byte_decode_encode : forall ti b p, (ti < 22)%nat -> (b < 256)%nat -> p < 4096 ->
  let e := nth b (nth ti encoding_tables_for_high_entropy_byte []) 0 in
  p mod 2 ^ code_len e = code_val e ->
  nth (N.to_nat p) (nth ti byte_decoding_tables []) 0 = code_len e * 256 + N.of_nat b.
Proof.
  intros ti b p Hti Hb Hp. rewrite (byte_decoding_tables_nth ti Hti).
  apply (gen_decode_encode 256); [| |exact Hb|exact Hp].
  - apply (byte_tables_nth_chk _ ti byte_tables_lengths_ok Hti).
  - apply (byte_tables_nth_chk _ ti byte_tables_decode_encode Hti).
Qed.

(* decode then encode (what validate_decoding_table establishes at start-up) *)
Lemma byte_validate : forall ti p, (ti < 22)%nat -> p < 4096 ->
  let d := nth (N.to_nat p) (nth ti byte_decoding_tables []) 0 in
  let b := N.land d 255 in
  let l := N.shiftr d 8 in
  (N.to_nat b < 256)%nat /\
  let e := nth (N.to_nat b) (nth ti encoding_tables_for_high_entropy_byte []) 0 in
  code_len e = l /\ code_val e = p mod 2 ^ l.
Proof.
  intros ti p Hti Hp. rewrite (byte_decoding_tables_nth ti Hti).
  apply (gen_validate 256); [| |exact Hp].
  - apply (byte_tables_nth_chk _ ti byte_tables_lengths_ok Hti).
  - apply (byte_tables_nth_chk _ ti byte_tables_validate Hti).
Qed.

Lemma byte_prefix_free : forall ti a b, (ti < 22)%nat -> (a < 256)%nat -> (b < 256)%nat -> a <> b ->
  let ea := nth a (nth ti encoding_tables_for_high_entropy_byte []) 0 in
  let eb := nth b (nth ti encoding_tables_for_high_entropy_byte []) 0 in
  ~ (code_len ea <= code_len eb /\ code_val eb mod 2 ^ code_len ea = code_val ea).
Proof.
  intros ti a b Hti Ha Hb Hab. apply (gen_prefix_free 256); [| |exact Ha|exact Hb|exact Hab].
  - apply (byte_tables_nth_chk _ ti byte_tables_lengths_ok Hti).
  - apply (byte_tables_nth_chk _ ti byte_tables_prefix_free Hti).
Qed.

Lemma byte_table_written : forall ti p, (ti < 22)%nat -> p < 4096 ->
  PositiveMap.find (slot p) (make_decoding_array (nth ti encoding_tables_for_high_entropy_byte [])) <> None.
Proof.
  intros ti p Hti Hp. apply array_complete_sound; [|exact Hp].
  apply (byte_tables_nth_chk _ ti byte_tables_complete Hti).
Qed.

Lemma byte_table_is_mappass : forall ti, (ti < 22)%nat ->
  nth ti byte_decoding_tables [] = make_decoding_table_mappass (nth ti encoding_tables_for_high_entropy_byte []).
Proof.
  intros ti Hti. rewrite (byte_decoding_tables_nth ti Hti). apply gen_loop_eq_mappass.
  apply (byte_tables_nth_chk _ ti byte_tables_loop_eq_mappass Hti).
Qed.

Lemma byte_decoding_table_length : forall ti, (ti < 22)%nat ->
  N.of_nat (length (nth ti byte_decoding_tables [])) = 4096.
Proof. intros ti Hti. rewrite (byte_decoding_tables_nth ti Hti). apply make_decoding_table_length. Qed.

(** ** the unary table *)

Lemma unary_code_len_bounds : forall b, (b < 65)%nat ->
  let e := nth b length_limited_unary_encoding_table65 0 in
  e < 65536 /\ 1 <= code_len e <= 12.
Proof. intros b Hb. apply (gen_code_len_bounds 65); [exact unary_table_lengths_ok|exact Hb]. Qed.

Lemma unary_code_val_canonical : forall b, (b < 65)%nat ->
  let e := nth b length_limited_unary_encoding_table65 0 in
  code_val e < 2 ^ code_len e.
Proof.
  intros b Hb. apply (gen_canonical 65); [exact unary_table_lengths_ok|exact unary_table_canonical|exact Hb].
Qed.

Lemma unary_decode_encode : forall b p, (b < 65)%nat -> p < 4096 ->
  let e := nth b length_limited_unary_encoding_table65 0 in
  p mod 2 ^ code_len e = code_val e ->
  nth (N.to_nat p) unary_decoding_table 0 = code_len e * 256 + N.of_nat b.
Proof.
  intros b p Hb Hp. unfold unary_decoding_table.
  apply (gen_decode_encode 65); [exact unary_table_lengths_ok|exact unary_table_decode_encode|exact Hb|exact Hp].
Qed.

Lemma unary_validate : forall p, p < 4096 ->
  let d := nth (N.to_nat p) unary_decoding_table 0 in
  let b := N.land d 255 in
  let l := N.shiftr d 8 in
  (N.to_nat b < 65)%nat /\
  let e := nth (N.to_nat b) length_limited_unary_encoding_table65 0 in
  code_len e = l /\ code_val e = p mod 2 ^ l.
Proof.
  intros p Hp. unfold unary_decoding_table.
  apply (gen_validate 65); [exact unary_table_lengths_ok|exact unary_table_validate|exact Hp].
Qed.

Lemma unary_prefix_free : forall a b, (a < 65)%nat -> (b < 65)%nat -> a <> b ->
  let ea := nth a length_limited_unary_encoding_table65 0 in
  let eb := nth b length_limited_unary_encoding_table65 0 in
  ~ (code_len ea <= code_len eb /\ code_val eb mod 2 ^ code_len ea = code_val ea).
Proof.
  intros a b Ha Hb Hab.
  apply (gen_prefix_free 65); [exact unary_table_lengths_ok|exact unary_table_prefix_free|exact Ha|exact Hb|exact Hab].
Qed.

Lemma unary_table_written : forall p, p < 4096 ->
  PositiveMap.find (slot p) (make_decoding_array length_limited_unary_encoding_table65) <> None.
Proof. intros p Hp. apply array_complete_sound; [exact unary_table_complete|exact Hp]. Qed.

Lemma unary_table_is_mappass :
  unary_decoding_table = make_decoding_table_mappass length_limited_unary_encoding_table65.
Proof. unfold unary_decoding_table. apply gen_loop_eq_mappass. exact unary_table_loop_eq_mappass. Qed.

Lemma unary_decoding_table_length : N.of_nat (length unary_decoding_table) = 4096.
Proof. unfold unary_decoding_table. apply make_decoding_table_length. Qed.

(** ** the 16 column permutations and their inverses *)

Lemma permutation_length : forall pi, (pi < 16)%nat ->
  length (nth pi column_permutations_for_encoding []) = 56%nat.
Proof. intros pi Hpi. apply gperm_length. apply (permutations_nth_chk _ pi permutations_bijective Hpi). Qed.

Lemma permutation_range : forall pi i, (pi < 16)%nat -> (i < 56)%nat ->
  nth i (nth pi column_permutations_for_encoding []) 0 < 56.
Proof. intros pi i Hpi Hi. apply gperm_range; [|exact Hi]. apply (permutations_nth_chk _ pi permutations_bijective Hpi). Qed.

Lemma permutation_surjective : forall pi j, (pi < 16)%nat -> j < 56 ->
  exists i, (i < 56)%nat /\ nth i (nth pi column_permutations_for_encoding []) 0 = j.
Proof.
  intros pi j Hpi Hj. apply gperm_surjective; [|exact Hj].
  apply (permutations_nth_chk _ pi permutations_bijective Hpi).
Qed.

Lemma inverse_permutation_length : forall pi, (pi < 16)%nat ->
  length (nth pi column_permutations_for_decoding []) = 56%nat.
Proof.
  intros pi Hpi. rewrite (column_permutations_for_decoding_nth pi Hpi). apply gperm_inverse_length.
  apply (permutations_nth_chk _ pi permutations_inverse_check Hpi).
Qed.

Lemma inverse_permutation_range : forall pi i, (pi < 16)%nat -> (i < 56)%nat ->
  nth i (nth pi column_permutations_for_decoding []) 0 < 56.
Proof.
  intros pi i Hpi Hi. rewrite (column_permutations_for_decoding_nth pi Hpi). apply gperm_inverse_range; [|exact Hi].
  apply (permutations_nth_chk _ pi permutations_inverse_check Hpi).
Qed.

(* inverse[permu[i]] = i *)
Lemma permutation_inverse_left : forall pi i, (pi < 16)%nat -> (i < 56)%nat ->
  nth (N.to_nat (nth i (nth pi column_permutations_for_encoding []) 0)) (nth pi column_permutations_for_decoding []) 0
  = N.of_nat i.
Proof.
  intros pi i Hpi Hi. rewrite (column_permutations_for_decoding_nth pi Hpi). apply gperm_inverse_left; [| |exact Hi].
  - apply (permutations_nth_chk _ pi permutations_bijective Hpi).
  - apply (permutations_nth_chk _ pi permutations_inverse Hpi).
Qed.

(* permu[inverse[i]] = i *)
Lemma permutation_inverse_right : forall pi i, (pi < 16)%nat -> (i < 56)%nat ->
  nth (N.to_nat (nth i (nth pi column_permutations_for_decoding []) 0)) (nth pi column_permutations_for_encoding []) 0
  = N.of_nat i.
Proof.
  intros pi i Hpi Hi. rewrite (column_permutations_for_decoding_nth pi Hpi). apply gperm_inverse_right; [|exact Hi].
  apply (permutations_nth_chk _ pi permutations_inverse_check Hpi).
Qed.

Lemma permutation_injective : forall pi i j, (pi < 16)%nat -> (i < 56)%nat -> (j < 56)%nat ->
  nth i (nth pi column_permutations_for_encoding []) 0 = nth j (nth pi column_permutations_for_encoding []) 0 -> i = j.
Proof.
  intros pi i j Hpi Hi Hj H. apply Nat2N.inj.
  rewrite <- (permutation_inverse_left pi i Hpi Hi), <- (permutation_inverse_left pi j Hpi Hj), H. reflexivity.
Qed.

(** * Non-vacuity: concrete entries, and the checkers do reject broken tables *)

(* table 0: byte 7 has the 2-bit codeword 00 (entry 0x2000), so every window ending in 00 decodes to (2, 7) *)
Example byte_table0_entry7 : nth 7 (nth 0 encoding_tables_for_high_entropy_byte []) 0 = 8192.
Proof. vm_compute. reflexivity. Qed.
Example byte_table0_decode_0 : nth 0 (nth 0 byte_decoding_tables []) 0 = 2 * 256 + 7.
Proof. vm_compute. reflexivity. Qed.
Example byte_table0_decode_4092 : nth 4092 (nth 0 byte_decoding_tables []) 0 = 2 * 256 + 7.
Proof. vm_compute. reflexivity. Qed.
Example unary_decode_all_ones : nth 4095 unary_decoding_table 0 = 12 * 256 + 64.
Proof. vm_compute. reflexivity. Qed.
Example inverse_perm0 : nth 4 (nth 0 column_permutations_for_decoding []) 0 = 55
                        /\ nth 55 (nth 0 column_permutations_for_encoding []) 0 = 4.
Proof. vm_compute. split; reflexivity. Qed.

(* {0, 00} is not prefix free; {0, 01} is prefix free but incomplete (windows ending in 11 are never written);
   {0, 01, 11} is a complete prefix code; a codeword with bits above its length is rejected *)
Example reject_prefix : chk_prefix_free [4096; 8192] = false.
Proof. vm_compute. reflexivity. Qed.
Example reject_incomplete :
  chk_prefix_free [4096; 8193] = true /\ chk_complete [4096; 8193] = false /\ chk_validate [4096; 8193] = false.
Proof. vm_compute. repeat split. Qed.
Example accept_small_code :
  let enc := [4096; 8193; 8195] in
  chk_lengths 3 enc && chk_canonical enc && chk_complete enc && chk_loop_eq_mappass enc && chk_validate enc &&
  chk_prefix_free enc && chk_decode_encode enc = true.
Proof. vm_compute. reflexivity. Qed.
Example reject_noncanonical : chk_canonical [4098] = false /\ chk_loop_eq_mappass [4098] = false.
Proof. vm_compute. split; reflexivity. Qed.
Example reject_overlap_decode : chk_decode_encode [4096; 8192; 4097] = false.
Proof. vm_compute. reflexivity. Qed.
Example reject_non_permutation : chk_perm_bijective (repeat 0 56) = false.
Proof. vm_compute. reflexivity. Qed.

(** * Obligation count: 1 ([tables_shape]) + 22 byte tables x 7 kinds + 1 unary table x 7 kinds
      + 16 permutations x 3 kinds = 1 + 154 + 7 + 48 = 210 finite obligations, all discharged by the kernel's VM. *)

Print Assumptions tables_shape.
Print Assumptions byte_tables_lengths_ok.
Print Assumptions byte_tables_canonical.
Print Assumptions byte_tables_complete.
Print Assumptions byte_tables_loop_eq_mappass.
Print Assumptions byte_tables_validate.
Print Assumptions byte_tables_prefix_free.
Print Assumptions byte_tables_decode_encode.
Print Assumptions unary_table_lengths_ok.
Print Assumptions unary_table_canonical.
Print Assumptions unary_table_complete.
Print Assumptions unary_table_loop_eq_mappass.
Print Assumptions unary_table_validate.
Print Assumptions unary_table_prefix_free.
Print Assumptions unary_table_decode_encode.
Print Assumptions permutations_bijective.
Print Assumptions permutations_inverse_check.
Print Assumptions permutations_inverse.
Print Assumptions byte_code_len_bounds.
Print Assumptions byte_code_val_canonical.
Print Assumptions byte_decode_encode.
Print Assumptions byte_validate.
Print Assumptions byte_prefix_free.
Print Assumptions byte_table_written.
Print Assumptions byte_table_is_mappass.
Print Assumptions byte_decoding_table_length.
Print Assumptions unary_code_len_bounds.
Print Assumptions unary_code_val_canonical.
Print Assumptions unary_decode_encode.
Print Assumptions unary_validate.
Print Assumptions unary_prefix_free.
Print Assumptions unary_table_written.
Print Assumptions unary_table_is_mappass.
Print Assumptions unary_decoding_table_length.
Print Assumptions permutation_length.
Print Assumptions permutation_range.
Print Assumptions permutation_surjective.
Print Assumptions permutation_injective.
Print Assumptions inverse_permutation_length.
Print Assumptions inverse_permutation_range.
Print Assumptions permutation_inverse_left.
Print Assumptions permutation_inverse_right.
