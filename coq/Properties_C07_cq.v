(* Properties_C07_cq.v — C07 for the classic quantiles sketch: weight conservation, exact extremes, coherent answers.
   "reach s log": s is ANY state produced by a sequence of updates and merges of reachable sketches (any valid k on
   either side: standard merge, downsampling merge in both directions, result built on a copy of the source; any
   merge tree or DAG; queries interleaved) under ANY outcome of the internal random choices (coin of zip_buffer, offset
   of zip_buffer_with_stride), and log is the list of all items it has been given.
   Statements only; proofs in CqProofs.v, CqView.v, SortedView.v. *)
From Coq Require Import ZArith List Bool Lia Permutation Sorted QArith.
From DS Require Import RunnerLib SortedView CqDefs CqProofs CqView CqUnbiased CqDraws Regression_cq.
Import ListNotations.
Local Open Scope Z_scope.

(* base buffer items weigh 1, level i items weigh 2^(i+1): the weights sum to n *)
Theorem C07_cq_weight_conserved : forall s log, reach s log -> len (cbb s) + wlv 2 (clv s) = cn s.
Proof. intros s log R. exact (Inv_weight s (r_inv s log (reach_Rel s log R))). Qed.

(* n = number of accepted items *)
Theorem C07_cq_n_counts_accepted : forall s log, reach s log -> cn s = len log.
Proof. intros s log R. exact (r_n s log (reach_Rel s log R)). Qed.

(* min_item_ / max_item_ are exactly the stream's extremes *)
Theorem C07_cq_min_max_exact : forall s log, reach s log -> log <> [] -> is_min (cmin s) log /\ is_max (cmax s) log.
Proof. intros s log R H. destruct (reach_Rel s log R) as [_ _ A B _]. split; auto. Qed.

(* k stays a power of two in [2, 2^15]; bit_pattern = n / 2k; the base buffer holds n mod 2k items *)
Theorem C07_cq_bit_pattern : forall s log, reach s log ->
  valid_k (ck s) /\ cbp s = cn s / (2 * ck s) /\ len (cbb s) = cn s mod (2 * ck s).
Proof.
  intros s log R. pose proof (r_inv s log (reach_Rel s log R)) as I. destruct (Inv_div s I) as [A B].
  split; [apply (i_k s I)|auto].
Qed.

(* check_k accepts exactly the powers of two 2^1 .. 2^15; any other k is refused by the constructor *)
Theorem C07_cq_check_k : forall k, check_k k = true <-> valid_k k.
Proof. intro k. split; [apply check_k_valid|apply valid_k_check]. Qed.

Theorem C07_cq_bad_k_refused : forall st r kind k e, check_k k = false -> step st [1; r; kind; k] e = (st, (refused, [])).
Proof. intros st r kind k e H. unfold step. rewrite H. reflexivity. Qed.

(* levels_.size() = number of significant bits of bit_pattern; level i holds k sorted items if bit i is set and is
   empty otherwise *)
Theorem C07_cq_levels : forall s log, reach s log ->
  length (clv s) = bitlen (cbp s) /\
  forall i, if Z.testbit (cbp s) (Z.of_nat i) then len (nth i (clv s) []) = ck s /\ StronglySorted Z.le (nth i (clv s) [])
            else nth i (clv s) [] = [].
Proof. exact P_levels. Qed.

(* the space the sketch states (get_num_retained = compute_retained_items(k, n)) is exactly what it holds *)
Theorem C07_cq_retained : forall s log, reach s log -> retained s = compute_retained_items (ck s) (cn s).
Proof. intros s log R. exact (Inv_retained s (r_inv s log (reach_Rel s log R))). Qed.

(* the retained items are a sub-multiset of the inputs: under every predicate (in particular "= y") no more
   retained items satisfy it than input items *)
Theorem C07_cq_retained_sub_inputs : forall s log, reach s log -> forall p, cnt p (items s) <= cnt p log.
Proof. intros s log R. exact (r_sub s log (reach_Rel s log R)). Qed.

(* the iterator AS CODED (begin/end/operator++ driven by n / 2k and n mod 2k) yields the base buffer with weight 1
   followed by level i with weight 2^(i+1): get_num_retained entries whose weights sum to n *)
Theorem C07_cq_iterator_spec : forall s log, reach s log ->
  iterate s = iter_spec s /\ len (iterate s) = compute_retained_items (ck s) (cn s) /\ sum_weights (iterate s) = cn s /\
  (forall x w, In (x, w) (iterate s) <->
     (In x (cbb s) /\ w = 1) \/ exists i, In x (nth i (clv s) []) /\ w = 2 ^ (Z.of_nat i + 1)).
Proof. exact P_iterator. Qed.

(* sorted view: ordered, total cumulative weight n, a rearrangement of the retained items *)
Theorem C07_cq_sorted_view_spec : forall s log, reach s log -> forall d,
  zsorted_t (map fst (v_entries (qview s))) /\ v_total (qview s) = cn s /\
  (0 < cn s -> snd (last (v_entries (qview s)) d) = cn s) /\
  Permutation (map fst (v_entries (qview s))) (items s).
Proof. exact P_view_spec. Qed.

Theorem C07_cq_rank_monotone : forall s log, reach s log -> forall x y incl, x <= y ->
  rank_num Z Z.ltb (qview s) x incl <= rank_num Z Z.ltb (qview s) y incl.
Proof. exact P_rank_monotone. Qed.

Theorem C07_cq_rank_incl_ge_excl : forall s log, reach s log -> forall x,
  rank_num Z Z.ltb (qview s) x false <= rank_num Z Z.ltb (qview s) x true.
Proof. exact P_rank_incl_ge_excl. Qed.

Theorem C07_cq_rank_within_0_n : forall s log, reach s log -> forall x incl,
  0 <= rank_num Z Z.ltb (qview s) x incl <= cn s.
Proof. exact P_rank_bounds. Qed.

(* what get_rank returns (numerator) is the weighted count of the retained items below x *)
Theorem C07_cq_rank_is_estimator : forall s log, reach s log -> forall x incl,
  rank_num Z Z.ltb (qview s) x incl = Rest (below Z Z.ltb x incl) s.
Proof. exact P_rank_is_estimator. Qed.

(* quantiles: monotone in the rank (weight), inclusive <= exclusive, always a retained item, always answered on a
   non-empty sketch *)
Theorem C07_cq_quantile_monotone : forall s log, reach s log -> forall w1 w2 incl q1 q2, w1 <= w2 ->
  quantile_w Z (qview s) w1 incl = Some q1 -> quantile_w Z (qview s) w2 incl = Some q2 -> q1 <= q2.
Proof. exact P_quantile_monotone. Qed.

Theorem C07_cq_quantile_incl_le_excl : forall s log, reach s log -> forall w q1 q2,
  quantile_w Z (qview s) w true = Some q1 -> quantile_w Z (qview s) w false = Some q2 -> q1 <= q2.
Proof. exact P_quantile_incl_le_excl. Qed.

Theorem C07_cq_quantile_in_retained : forall s log, reach s log -> forall w incl q,
  quantile_w Z (qview s) w incl = Some q -> In q (items s).
Proof. exact P_quantile_in_retained. Qed.

Theorem C07_cq_quantile_answers : forall s log, reach s log -> forall w incl, 0 < cn s ->
  exists q, quantile_w Z (qview s) w incl = Some q.
Proof. exact P_quantile_answers. Qed.

(* CDF = ranks at the split points followed by n, non-decreasing; PMF masses non-negative and summing to one *)
Theorem C07_cq_cdf_is_rank : forall s log, reach s log -> forall sp incl c,
  cdf_num Z Z.ltb (qview s) sp incl = Some c ->
  c = map (fun x => rank_num Z Z.ltb (qview s) x incl) sp ++ [cn s] /\ StronglySorted Z.le (0 :: c).
Proof. exact P_cdf. Qed.

Theorem C07_cq_pmf_sums_to_one : forall s log, reach s log -> forall sp incl p, 0 < cn s ->
  pmf_num Z Z.ltb (qview s) sp incl = Some p ->
  Forall (fun z => 0 <= z) p /\
  (fold_right Qplus (inject_Z 0) (map (fun z => inject_Z z / inject_Z (cn s)) p) == inject_Z 1)%Q.
Proof. exact P_pmf. Qed.

(* invalid queries are refused: empty sketch, rank outside [0, 1], split points not strictly increasing, NaN *)
Theorem C07_cq_empty_sketch_refuses : forall st r g e, reg_get st r = Some g -> cn (r_sk g) = 0 ->
  (forall x, step st [6; r; x] e = (st, (refused, []))) /\
  (forall j t, step st [7; r; j; t] e = (st, (refused, []))) /\
  (forall sp, step st (8 :: r :: sp) e = (st, (refused, []))).
Proof.
  intros st r g e H N. unfold step. rewrite H, N. simpl. repeat split; intros; reflexivity.
Qed.

Theorem C07_cq_bad_rank_refused : forall st r g j t e, reg_get st r = Some g -> j < 0 \/ 2 ^ t < j ->
  step st [7; r; j; t] e = (st, (refused, [])).
Proof.
  intros st r g j t e H B. unfold step. rewrite H.
  replace ((cn (r_sk g) =? 0) || (j <? 0) || (2 ^ t <? j)) with true; [reflexivity|].
  symmetry. rewrite !orb_true_iff, !Z.ltb_lt. tauto.
Qed.

Theorem C07_cq_bad_splits_refused : forall st r g sp e, reg_get st r = Some g ->
  splits_ok Z Z.ltb sp = false -> fst (snd (step st (8 :: r :: sp) e)) = refused.
Proof.
  intros st r g sp e H B. unfold step. rewrite H. destruct (cn (r_sk g) =? 0); [reflexivity|].
  rewrite (cdf_bad_splits_rejected Z Z.ltb _ sp true B). reflexivity.
Qed.

Theorem C07_cq_nan_refused_or_ignored : forall st r g e, reg_get st r = Some g ->
  (forall rest, fst (snd (step st (9 :: r :: rest) e)) = refused) /\        (* NaN split point *)
  step st [3; r] e = (st, (ok, [])).                                        (* NaN update: state unchanged *)
Proof.
  intros st r g e H. unfold step. rewrite H. split; [|reflexivity].
  intro rest. destruct (cn (r_sk g) =? 0); reflexivity.
Qed.

(* while nothing has been compacted (bit_pattern = 0, i.e. n < 2k: only the base buffer is used) every rank and
   quantile is the true value of the input multiset *)
Theorem C07_cq_exact_rank : forall s log, reach s log -> cbp s = 0 -> forall x incl,
  rank_num Z Z.ltb (qview s) x incl = cnt (below Z Z.ltb x incl) log.
Proof. exact P_exact_rank. Qed.

Theorem C07_cq_exact_quantile : forall s log, reach s log -> cbp s = 0 -> forall d,
  (forall w, 1 <= w <= len log -> quantile_w Z (qview s) w true = Some (nth (Z.to_nat (w - 1)) (isort log) d)) /\
  (forall w, 0 <= w < len log -> quantile_w Z (qview s) w false = Some (nth (Z.to_nat w) (isort log) d)).
Proof. intros s log R S d. split; intros w H; [now apply P_exact_quantile_incl|now apply P_exact_quantile_excl]. Qed.

(* the split point check of the sorted view BEFORE fixes/07_cq_split_points_comparator.patch used Comparator() instead of
   the stored comparator instance: under an instance that orders the other way valid split points were refused and
   reversed ones answered *)
Theorem C07_cq_split_check_default_comparator_refuted :
  exists sp, splits_ok Z Z.ltb sp = true /\ splits_ok_default_cmp sp = false /\
             splits_ok Z Z.ltb (rev sp) = false /\ splits_ok_default_cmp (rev sp) = true.
Proof. exact cq_split_check_default_comparator_refuted. Qed.

(* every state the runner reaches by replaying reported outcomes of a history is covered by the theorems above *)
Theorem C07_cq_replayed_states_reachable : forall q cs s rest, wf q -> replay (exec q) cs = Some (s, rest) ->
  reach s (inputs q).
Proof. intros q cs s rest W H. apply exec_reach; [exact W|]. eapply replay_leaf; eauto. Qed.

(* non-vacuity: concrete reachable estimating sketches (a downsampling merge with stride 4 into a copy of the source;
   a sketch with an empty base buffer and empty lower levels) *)
Example C07_cq_nonvacuous :
  (exists ar s, replay_ar (exec W1) (repeat 0 11) = Some (ar, s) /\ reach s (inputs W1) /\ ck s = 2 /\ cn s = 50 /\
     cbp s = 12 /\ clv s = [[]; []; [32; 100]; [0; 16]] /\ sum_weights (iterate s) = 50) /\
  (exists ar s, replay_ar (exec W2) (repeat 1 7) = Some (ar, s) /\ reach s (inputs W2) /\ cbb s = [] /\ cbp s = 4 /\
     iterate s = [(7, 8); (15, 8)]).
Proof.
  split.
  - destruct witness1_values as (ar & s & H & P & _ & A & B & C & _ & D & _ & E & _).
    exists ar, s. split; [exact H|]. split; [|repeat split; assumption].
    apply exec_reach; [exact W1_wf|]. exact (path_leaf _ _ _ P).
  - destruct witness2_values as (ar & s & H & P & _ & A & B & _ & C).
    exists ar, s. split; [exact H|]. split; [|repeat split; assumption].
    apply exec_reach; [exact W2_wf|]. exact (path_leaf _ _ _ P).
Qed.

Print Assumptions C07_cq_weight_conserved.
Print Assumptions C07_cq_n_counts_accepted.
Print Assumptions C07_cq_min_max_exact.
Print Assumptions C07_cq_bit_pattern.
Print Assumptions C07_cq_check_k.
Print Assumptions C07_cq_bad_k_refused.
Print Assumptions C07_cq_levels.
Print Assumptions C07_cq_retained.
Print Assumptions C07_cq_retained_sub_inputs.
Print Assumptions C07_cq_iterator_spec.
Print Assumptions C07_cq_sorted_view_spec.
Print Assumptions C07_cq_rank_monotone.
Print Assumptions C07_cq_rank_incl_ge_excl.
Print Assumptions C07_cq_rank_within_0_n.
Print Assumptions C07_cq_rank_is_estimator.
Print Assumptions C07_cq_quantile_monotone.
Print Assumptions C07_cq_quantile_incl_le_excl.
Print Assumptions C07_cq_quantile_in_retained.
Print Assumptions C07_cq_quantile_answers.
Print Assumptions C07_cq_cdf_is_rank.
Print Assumptions C07_cq_pmf_sums_to_one.
Print Assumptions C07_cq_empty_sketch_refuses.
Print Assumptions C07_cq_bad_rank_refused.
Print Assumptions C07_cq_bad_splits_refused.
Print Assumptions C07_cq_nan_refused_or_ignored.
Print Assumptions C07_cq_exact_rank.
Print Assumptions C07_cq_exact_quantile.
Print Assumptions C07_cq_replayed_states_reachable.
Print Assumptions C07_cq_split_check_default_comparator_refuted.
