(* KllProofs.v — lemmas about the KLL model (KllDefs.v): choice monad, sorted runs, one compaction,
   invariants of update and merge for every outcome of the coins, reachable states. *)
From Coq Require Import ZArith List Bool Lia Permutation Sorted.
From DS Require Import RunnerLib SortedView KllDefs.
Import ListNotations.
Local Open Scope Z_scope.

(* ===================== lists ===================== *)
Notation ssorted := (StronglySorted Z.le).

Definition cnt (p : Z -> bool) (l : list Z) : Z := count_if p l.

Lemma len_nil {A} : len (@nil A) = 0. Proof. reflexivity. Qed.
Lemma len_cons {A} (x : A) l : len (x :: l) = 1 + len l.
Proof. unfold len. simpl length. lia. Qed.
Lemma len_app {A} (a b : list A) : len (a ++ b) = len a + len b.
Proof. unfold len. rewrite app_length. lia. Qed.
Lemma len_nonneg {A} (l : list A) : 0 <= len l. Proof. unfold len; lia. Qed.

Lemma cnt_nil p : cnt p [] = 0. Proof. reflexivity. Qed.
Lemma cnt_cons p x l : cnt p (x :: l) = (if p x then 1 else 0) + cnt p l.
Proof. unfold cnt, count_if. simpl. destruct (p x); [rewrite len_cons|]; lia. Qed.
Lemma cnt_app p a b : cnt p (a ++ b) = cnt p a + cnt p b.
Proof. induction a as [|x a IH]; [rewrite cnt_nil; simpl; lia|]. simpl app. rewrite !cnt_cons, IH. lia. Qed.
Lemma cnt_perm p a b : Permutation a b -> cnt p a = cnt p b.
Proof. induction 1; rewrite ?cnt_cons; lia. Qed.
Lemma cnt_nonneg p l : 0 <= cnt p l.
Proof. unfold cnt, count_if. apply len_nonneg. Qed.
Lemma cnt_true l : cnt (fun _ => true) l = len l.
Proof. induction l as [|x l IH]; [reflexivity|]. rewrite cnt_cons, len_cons, IH. lia. Qed.
Lemma cnt_le_len p l : cnt p l <= len l.
Proof. induction l as [|x l IH]; [reflexivity|]. rewrite cnt_cons, len_cons. destruct (p x); lia. Qed.

Lemma evens_cons x r : evens (x :: r) = x :: odds r.
Proof. destruct r; reflexivity. Qed.
Lemma odds_cons x r : odds (x :: r) = evens r.
Proof. reflexivity. Qed.

Lemma evens_odds_perm : forall l, Permutation l (evens l ++ odds l).
Proof.
  induction l as [|x r IH]; [constructor|].
  rewrite evens_cons, odds_cons. simpl. apply perm_skip.
  etransitivity; [exact IH|]. apply Permutation_app_comm.
Qed.

Lemma cnt_evens_odds p l : cnt p (evens l) + cnt p (odds l) = cnt p l.
Proof. rewrite <- cnt_app. symmetry. apply cnt_perm, evens_odds_perm. Qed.

Lemma length_evens_odds : forall l,
  length (evens l) = Nat.div2 (S (length l)) /\ length (odds l) = Nat.div2 (length l).
Proof.
  induction l as [|x r [IH1 IH2]]; [split; reflexivity|].
  rewrite evens_cons, odds_cons. simpl length. split.
  - rewrite IH2. reflexivity.
  - rewrite IH1. reflexivity.
Qed.

Lemma Forall_evens_odds (P : Z -> Prop) : forall l, Forall P l -> Forall P (evens l) /\ Forall P (odds l).
Proof.
  induction l as [|x r IH]; intro H; [split; constructor|].
  inversion H; subst. destruct (IH H3). rewrite evens_cons, odds_cons. split; auto.
Qed.

Lemma sorted_evens_odds : forall l, ssorted l -> ssorted (evens l) /\ ssorted (odds l).
Proof.
  induction l as [|x r IH]; intro H; [split; constructor|].
  inversion H; subst. destruct (IH H2) as [He Ho]. rewrite evens_cons, odds_cons. split; auto.
  constructor; auto. now apply Forall_evens_odds.
Qed.

Lemma sorted_tl l : ssorted l -> ssorted (tl l).
Proof. destruct 1; simpl; auto. constructor. Qed.

(* insertion sort *)
Lemma insert_perm x : forall l, Permutation (insert x l) (x :: l).
Proof.
  induction l as [|y r IH]; simpl; auto.
  destruct (x <? y); auto. etransitivity; [apply perm_skip, IH|]. apply perm_swap.
Qed.

Lemma isort_perm : forall l, Permutation (isort l) l.
Proof.
  induction l as [|x r IH]; simpl; auto.
  etransitivity; [apply insert_perm|]. now apply perm_skip.
Qed.

Lemma insert_sorted x : forall l, ssorted l -> ssorted (insert x l).
Proof.
  induction l as [|y r IH]; intro H; simpl.
  - constructor; constructor.
  - inversion H; subst. destruct (Z.ltb_spec x y).
    + constructor; auto. constructor; [lia|]. eapply Forall_impl; [|eassumption]. simpl; intros; lia.
    + constructor; auto. eapply Permutation_Forall; [symmetry; apply insert_perm|]. constructor; auto.
Qed.

Lemma isort_sorted : forall l, ssorted (isort l).
Proof. induction l; simpl; [constructor|]. now apply insert_sorted. Qed.

(* the merge of the code *)
Lemma merge_sorted_nil_l b : merge_sorted [] b = b.
Proof. destruct b; reflexivity. Qed.
Lemma merge_sorted_nil_r a : merge_sorted a [] = a.
Proof. destruct a; reflexivity. Qed.

Lemma merge_sorted_perm : forall a b, Permutation (merge_sorted a b) (a ++ b).
Proof.
  induction a as [|x a IHa]; intro b; [rewrite merge_sorted_nil_l; reflexivity|].
  induction b as [|y b IHb]; [simpl; now rewrite app_nil_r|].
  simpl. destruct (x <? y).
  - simpl. apply perm_skip. apply IHa.
  - etransitivity; [apply perm_skip, IHb|]. apply (Permutation_middle (x :: a) b y).
Qed.

Lemma merge_sorted_sorted : forall a b, ssorted a -> ssorted b -> ssorted (merge_sorted a b).
Proof.
  induction a as [|x a IHa]; intros b Ha Hb; [now rewrite merge_sorted_nil_l|].
  induction b as [|y b IHb]; [simpl; exact Ha|].
  simpl. inversion Ha as [|? ? Ha' Fa]; inversion Hb as [|? ? Hb' Fb]; subst.
  destruct (Z.ltb_spec x y).
  - constructor; [apply IHa; auto|].
    eapply Permutation_Forall; [symmetry; apply merge_sorted_perm|].
    apply Forall_app; split; auto.
    constructor; [lia|]. eapply Forall_impl; [|exact Fb]. simpl; intros; lia.
  - constructor; [apply IHb; auto|].
    change ((fix inner (b0 : list Z) : list Z :=
               match b0 with [] => x :: a | y0 :: b' => if x <? y0 then x :: merge_sorted a b0 else y0 :: inner b' end) b)
      with (merge_sorted (x :: a) b).
    eapply Permutation_Forall; [symmetry; apply merge_sorted_perm|].
    apply Forall_app; split; auto.
    constructor; [lia|]. eapply Forall_impl; [|exact Fa]. simpl; intros; lia.
Qed.

Lemma merge_sorted_length a b : length (merge_sorted a b) = (length a + length b)%nat.
Proof. rewrite (Permutation_length (merge_sorted_perm a b)). apply app_length. Qed.

Lemma cnt_merge p a b : cnt p (merge_sorted a b) = cnt p a + cnt p b.
Proof. rewrite (cnt_perm p _ _ (merge_sorted_perm a b)). apply cnt_app. Qed.

(* ===================== one compaction ===================== *)
(* the even-length run that is halved *)
Definition adj_of (sort0 : bool) (raw : list Z) : list Z :=
  let a := if Nat.odd (length raw) then tl raw else raw in if sort0 then isort a else a.
Definition leftover_of (raw : list Z) : list Z := if Nat.odd (length raw) then firstn 1 raw else [].
Definition up_of (adj above : list Z) (c : bool) : list Z :=
  match above with [] => halve_up c adj | _ => merge_sorted (halve_down c adj) above end.

Lemma compact_level_eq sort0 raw above c :
  compact_level sort0 raw above c = (leftover_of raw, up_of (adj_of sort0 raw) above c).
Proof. reflexivity. Qed.

Lemma leftover_adj_perm sort0 raw : Permutation raw (leftover_of raw ++ adj_of sort0 raw).
Proof.
  unfold leftover_of, adj_of. destruct (Nat.odd (length raw)) eqn:E.
  - destruct raw as [|x r]; [discriminate|]. simpl. apply perm_skip.
    destruct sort0; [symmetry; apply isort_perm|reflexivity].
  - simpl. destruct sort0; [symmetry; apply isort_perm|reflexivity].
Qed.

Lemma adj_even sort0 raw : Nat.even (length (adj_of sort0 raw)) = true.
Proof.
  unfold adj_of.
  assert (H : Nat.even (length (if Nat.odd (length raw) then tl raw else raw)) = true).
  { destruct (Nat.odd (length raw)) eqn:E.
    - destruct raw as [|x r]; [discriminate|]. simpl in *. rewrite Nat.odd_succ in E. exact E.
    - unfold Nat.odd in E. now apply negb_false_iff in E. }
  destruct sort0; auto. now rewrite (Permutation_length (isort_perm _)).
Qed.

Lemma length_leftover raw : length (leftover_of raw) = Nat.b2n (Nat.odd (length raw)).
Proof. unfold leftover_of. destruct (Nat.odd (length raw)) eqn:E; auto. destruct raw; [discriminate|reflexivity]. Qed.

Lemma length_adj sort0 raw : length (adj_of sort0 raw) = (length raw - Nat.b2n (Nat.odd (length raw)))%nat.
Proof.
  pose proof (Permutation_length (leftover_adj_perm sort0 raw)) as H.
  rewrite app_length, length_leftover in H. lia.
Qed.

Lemma div2_even n : Nat.even n = true -> Nat.div2 (S n) = Nat.div2 n.
Proof.
  intro H. apply Nat.even_spec in H as [m ->].
  rewrite Nat.div2_succ_double, Nat.div2_double. reflexivity.
Qed.

Lemma length_halves c adj : Nat.even (length adj) = true ->
  length (halve_up c adj) = Nat.div2 (length adj) /\ length (halve_down c adj) = Nat.div2 (length adj).
Proof.
  intro H. destruct (length_evens_odds adj) as [H1 H2]. rewrite (div2_even _ H) in H1.
  unfold halve_up, halve_down. destruct c; auto.
Qed.

Lemma length_up adj above c : Nat.even (length adj) = true ->
  length (up_of adj above c) = (Nat.div2 (length adj) + length above)%nat.
Proof.
  intro H. destruct (length_halves c adj H) as [H1 H2]. unfold up_of.
  destruct above as [|a r]; [simpl; lia|]. rewrite merge_sorted_length. lia.
Qed.

(* population arithmetic of a compaction, in Z *)
Lemma b2n_odd_div2 n : (Nat.b2n (Nat.odd n) + 2 * Nat.div2 n = n)%nat.
Proof. rewrite Nat.add_comm. symmetry. apply Nat.div2_odd. Qed.

Lemma div2_sub_odd n : Nat.div2 (n - Nat.b2n (Nat.odd n)) = Nat.div2 n.
Proof.
  pose proof (b2n_odd_div2 n) as H.
  replace (n - Nat.b2n (Nat.odd n))%nat with (2 * Nat.div2 n)%nat by lia. apply Nat.div2_double.
Qed.

Lemma len_div2 {A} (l : list A) : Z.of_nat (Nat.div2 (length l)) = len l / 2.
Proof. unfold len. rewrite Nat.div2_div, Nat2Z.inj_div. reflexivity. Qed.

Lemma compact_lengths sort0 raw above c :
  let '(lo, up) := compact_level sort0 raw above c in
  length lo = Nat.b2n (Nat.odd (length raw)) /\ length up = (Nat.div2 (length raw) + length above)%nat.
Proof.
  rewrite compact_level_eq. split; [apply length_leftover|].
  rewrite length_up by apply adj_even. rewrite length_adj, div2_sub_odd. reflexivity.
Qed.

Lemma compact_len sort0 raw above c :
  let '(lo, up) := compact_level sort0 raw above c in
  len lo + 2 * len up = len raw + 2 * len above /\ len lo + len up = len raw + len above - len raw / 2 /\ len lo <= 1.
Proof.
  pose proof (compact_lengths sort0 raw above c) as H. destruct (compact_level sort0 raw above c) as [lo up].
  destruct H as [H1 H2]. pose proof (b2n_odd_div2 (length raw)) as H3.
  rewrite <- len_div2. unfold len. rewrite H1, H2.
  destruct (Nat.odd (length raw)); simpl Nat.b2n in *; lia.
Qed.

(* counting under any predicate: nothing is invented ... *)
Lemma cnt_halve_le p c adj : cnt p (halve_up c adj) <= cnt p adj /\ cnt p (halve_down c adj) <= cnt p adj.
Proof.
  pose proof (cnt_evens_odds p adj). pose proof (cnt_nonneg p (evens adj)). pose proof (cnt_nonneg p (odds adj)).
  unfold halve_up, halve_down. destruct c; lia.
Qed.

Lemma cnt_up p adj above c : cnt p (up_of adj above c) = cnt p (if c then evens adj else odds adj) + cnt p above
                             \/ cnt p (up_of adj above c) = cnt p (if c then odds adj else evens adj) + cnt p above.
Proof.
  unfold up_of. destruct above as [|a r].
  - left. rewrite cnt_nil. unfold halve_up. destruct c; lia.
  - right. rewrite cnt_merge. unfold halve_down. destruct c; lia.
Qed.

Lemma compact_cnt_le p sort0 raw above c :
  let '(lo, up) := compact_level sort0 raw above c in
  cnt p lo + cnt p up <= cnt p raw + cnt p above.
Proof.
  rewrite compact_level_eq.
  pose proof (cnt_perm p _ _ (leftover_adj_perm sort0 raw)) as H. rewrite cnt_app in H.
  pose proof (cnt_evens_odds p (adj_of sort0 raw)). pose proof (cnt_nonneg p (evens (adj_of sort0 raw))).
  pose proof (cnt_nonneg p (odds (adj_of sort0 raw))).
  destruct (cnt_up p (adj_of sort0 raw) above c) as [E|E]; rewrite E; destruct c; lia.
Qed.

(* ... and the two outcomes of the coin together count every item of the halved run exactly once
   (halve_pair: the estimator summed over the two outcomes is twice its value before) *)
Lemma halve_pair p sort0 raw above :
  let '(lo0, up0) := compact_level sort0 raw above false in
  let '(lo1, up1) := compact_level sort0 raw above true in
  (cnt p lo0 + 2 * cnt p up0) + (cnt p lo1 + 2 * cnt p up1) = 2 * (cnt p raw + 2 * cnt p above).
Proof.
  rewrite !compact_level_eq.
  pose proof (cnt_perm p _ _ (leftover_adj_perm sort0 raw)) as H. rewrite cnt_app in H.
  pose proof (cnt_evens_odds p (adj_of sort0 raw)).
  unfold up_of. destruct above as [|a r].
  - rewrite cnt_nil. unfold halve_up. lia.
  - rewrite !cnt_merge. unfold halve_down. lia.
Qed.

Lemma sorted_leftover raw : ssorted (leftover_of raw).
Proof.
  unfold leftover_of. destruct (Nat.odd (length raw)); [|constructor].
  destruct raw; simpl; constructor; constructor.
Qed.

Lemma sorted_adj sort0 raw : sort0 = true \/ ssorted raw -> ssorted (adj_of sort0 raw).
Proof.
  unfold adj_of. intros [->|H]; [apply isort_sorted|].
  assert (ssorted (if Nat.odd (length raw) then tl raw else raw)) by (destruct (Nat.odd (length raw)); auto using sorted_tl).
  destruct sort0; auto. apply isort_sorted.
Qed.

Lemma sorted_up adj above c : ssorted adj -> ssorted above -> ssorted (up_of adj above c).
Proof.
  intros Ha Hb. destruct (sorted_evens_odds adj Ha) as [He Ho]. unfold up_of.
  destruct above as [|a r].
  - unfold halve_up. destruct c; auto.
  - apply merge_sorted_sorted; auto. unfold halve_down. destruct c; auto.
Qed.

Lemma compact_sorted sort0 raw above c : sort0 = true \/ ssorted raw -> ssorted above ->
  let '(lo, up) := compact_level sort0 raw above c in ssorted lo /\ ssorted up.
Proof.
  intros H1 H2. rewrite compact_level_eq. split; [apply sorted_leftover|].
  apply sorted_up; auto. now apply sorted_adj.
Qed.

(* ===================== levels ===================== *)
Arguments compact_level : simpl never.
Arguments level_capacity : simpl never.
Arguments cap_depth : simpl never.
Arguments Z.mul : simpl never.
Arguments Z.add : simpl never.

(* the rank estimator of a stack of levels whose first level has weight w:
   sum over levels h of w * 2^h * #{y in level h | p y}; with p = (fun _ => true) it is the total weight *)
Fixpoint Rlv (p : Z -> bool) (w : Z) (lv : list (list Z)) : Z :=
  match lv with
  | [] => 0
  | l :: r => w * cnt p l + Rlv p (2 * w) r
  end.

Definition wsum (w : Z) (lv : list (list Z)) : Z := Rlv (fun _ => true) w lv.

Lemma Rlv_scale p w : forall lv, Rlv p (2 * w) lv = 2 * Rlv p w lv.
Proof. intro lv; revert w; induction lv as [|l r IH]; intro w; cbn [Rlv]; [lia|]. rewrite (IH (2 * w)). lia. Qed.

Lemma retained_cons l r : retained (l :: r) = len l + retained r.
Proof. reflexivity. Qed.

Lemma retained_nonneg lv : 0 <= retained lv.
Proof. induction lv as [|l r IH]; [simpl; lia|]. rewrite retained_cons. pose proof (len_nonneg l). lia. Qed.

Lemma retained_concat lv : retained lv = len (concat lv).
Proof. induction lv as [|l r IH]; [reflexivity|]. simpl concat. rewrite retained_cons, len_app, IH. lia. Qed.

(* all levels sorted / all levels above the first sorted, the first one if flagged *)
Definition all_sorted (lv : list (list Z)) : Prop := Forall (fun l => ssorted l) lv.
Definition lv_ok (b : bool) (lv : list (list Z)) : Prop :=
  (b = true -> ssorted (hd [] lv)) /\ all_sorted (tl lv).

Lemma compact_at_0 sort0 c raw rest :
  compact_at 0 sort0 c (raw :: rest) = fst (compact_level sort0 raw (hd [] rest) c) :: snd (compact_level sort0 raw (hd [] rest) c) :: tl rest.
Proof. cbn [compact_at]. now destruct (compact_level sort0 raw (hd [] rest) c). Qed.
Lemma compact_at_S h sort0 c raw rest : compact_at (S h) sort0 c (raw :: rest) = raw :: compact_at h sort0 c rest.
Proof. reflexivity. Qed.
Lemma compact_at_nil h sort0 c : compact_at h sort0 c [] = [].
Proof. destruct h; reflexivity. Qed.

Lemma compact_at_length h sort0 c : forall lv, (h < length lv)%nat ->
  length (compact_at h sort0 c lv) = if (S h =? length lv)%nat then S (length lv) else length lv.
Proof.
  induction h as [|h IH]; intros [|raw rest] H; simpl in H; try lia.
  - rewrite compact_at_0. destruct rest; reflexivity.
  - rewrite compact_at_S. simpl length. rewrite IH by lia. change (S (S h) =? S (length rest))%nat with (S h =? length rest)%nat.
    destruct (S h =? length rest)%nat; reflexivity.
Qed.

Lemma compact_at_nonempty h sort0 c lv : lv <> [] -> compact_at h sort0 c lv <> [].
Proof. destruct lv as [|raw rest]; [congruence|]. intros _. destruct h; [rewrite compact_at_0|rewrite compact_at_S]; discriminate. Qed.

(* weight is conserved by a compaction, whatever the coin *)
Lemma compact_at_wsum h sort0 c : forall lv w, (h < length lv)%nat ->
  wsum w (compact_at h sort0 c lv) = wsum w lv.
Proof.
  unfold wsum. induction h as [|h IH]; intros [|raw rest] w H; simpl in H; try lia.
  - rewrite compact_at_0. pose proof (compact_len sort0 raw (hd [] rest) c) as L.
    destruct (compact_level sort0 raw (hd [] rest) c) as [lo up]. destruct L as (L1 & _ & _).
    apply (f_equal (Z.mul w)) in L1.
    destruct rest as [|above r]; cbn [Rlv fst snd hd tl] in *; rewrite ?cnt_true in *; change (len (@nil Z)) with 0 in *; lia.
  - rewrite compact_at_S. cbn [Rlv]. rewrite IH by lia. reflexivity.
Qed.

(* halve_pair lifted to the stack of levels *)
Lemma compact_at_pair p h sort0 : forall lv w, (h < length lv)%nat ->
  Rlv p w (compact_at h sort0 false lv) + Rlv p w (compact_at h sort0 true lv) = 2 * Rlv p w lv.
Proof.
  induction h as [|h IH]; intros [|raw rest] w H; simpl in H; try lia.
  - rewrite !compact_at_0. pose proof (halve_pair p sort0 raw (hd [] rest)) as L.
    destruct (compact_level sort0 raw (hd [] rest) false) as [lo0 up0].
    destruct (compact_level sort0 raw (hd [] rest) true) as [lo1 up1].
    destruct rest as [|above r]; cbn [Rlv fst snd hd tl] in *; rewrite ?cnt_nil in *; nia.
  - rewrite !compact_at_S. cbn [Rlv]. specialize (IH rest (2 * w) ltac:(lia)). lia.
Qed.

Lemma compact_at_retained h sort0 c : forall lv, (h < length lv)%nat ->
  retained (compact_at h sort0 c lv) = retained lv - len (nth h lv []) / 2.
Proof.
  induction h as [|h IH]; intros [|raw rest] H; simpl in H; try lia.
  - rewrite compact_at_0. pose proof (compact_len sort0 raw (hd [] rest) c) as L.
    destruct (compact_level sort0 raw (hd [] rest) c) as [lo up]. destruct L as (_ & L2 & _).
    destruct rest as [|above r]; cbn [nth hd tl fst snd] in *; rewrite ?retained_cons, ?len_nil in *; cbn [retained fold_right]; lia.
  - rewrite compact_at_S. rewrite !retained_cons, IH by lia. cbn [nth]. lia.
Qed.

Lemma compact_at_cnt_le p h sort0 c : forall lv,
  cnt p (concat (compact_at h sort0 c lv)) <= cnt p (concat lv).
Proof.
  induction h as [|h IH]; intros [|raw rest]; rewrite ?compact_at_nil; try lia.
  - rewrite compact_at_0. pose proof (compact_cnt_le p sort0 raw (hd [] rest) c) as L.
    destruct (compact_level sort0 raw (hd [] rest) c) as [lo up].
    destruct rest as [|above r]; cbn [concat hd tl fst snd] in *; rewrite ?cnt_app, ?cnt_nil in *; lia.
  - rewrite compact_at_S. cbn [concat]. rewrite !cnt_app. specialize (IH rest). lia.
Qed.

Lemma all_sorted_hd lv : all_sorted lv -> ssorted (hd [] lv).
Proof. destruct 1; simpl; auto. constructor. Qed.
Lemma all_sorted_tl lv : all_sorted lv -> all_sorted (tl lv).
Proof. destruct 1; simpl; auto. constructor. Qed.

Lemma compact_at_all_sorted h sort0 c : forall lv, all_sorted lv -> all_sorted (compact_at h sort0 c lv).
Proof.
  induction h as [|h IH]; intros [|raw rest] H; rewrite ?compact_at_nil; auto.
  - rewrite compact_at_0. inversion H; subst. pose proof (compact_sorted sort0 raw (hd [] rest) c) as L.
    destruct (compact_level sort0 raw (hd [] rest) c) as [lo up].
    destruct L as [L1 L2]; auto using all_sorted_hd.
    constructor; auto. constructor; auto. now apply all_sorted_tl.
  - rewrite compact_at_S. inversion H; subst. constructor; auto. now apply IH.
Qed.

Lemma compact_at_lv_ok h b c lv : lv_ok b lv -> lv_ok b (compact_at h ((h =? 0)%nat && negb b) c lv).
Proof.
  intros [H1 H2]. destruct lv as [|raw rest]; [rewrite compact_at_nil; split; simpl; auto; constructor|].
  simpl in H1, H2. destruct h as [|h].
  - rewrite compact_at_0. pose proof (compact_sorted (negb b) raw (hd [] rest) c) as L.
    simpl andb. destruct (compact_level (negb b) raw (hd [] rest) c) as [lo up].
    destruct L as [L1 L2].
    { destruct b; auto. }
    { now apply all_sorted_hd. }
    split; simpl; auto. constructor; auto. now apply all_sorted_tl.
  - rewrite compact_at_S. split; simpl; auto. now apply compact_at_all_sorted.
Qed.

(* ===================== capacities ===================== *)
Lemma cap_depth_ge k d : 8 <= cap_depth k d.
Proof. unfold cap_depth. lia. Qed.

Lemma level_capacity_ge k nl h : 8 <= level_capacity k nl h.
Proof. apply cap_depth_ge. Qed.

Lemma total_capacity_S k n : total_capacity k (S n) = total_capacity k n + cap_depth k n.
Proof. reflexivity. Qed.

Lemma level_capacity_bottom k nl : level_capacity k (S nl) 0 = cap_depth k nl.
Proof. unfold level_capacity. f_equal. lia. Qed.

(* sum of the capacities of levels h0, h0+1, ..., h0+j-1 of a sketch with nl levels *)
Fixpoint sumcaps (k : Z) (nl h0 j : nat) : Z :=
  match j with
  | O => 0
  | S j' => level_capacity k nl h0 + sumcaps k nl (S h0) j'
  end.

Lemma sumcaps_total k nl : forall j, (j <= nl)%nat -> sumcaps k nl (nl - j) j = total_capacity k j.
Proof.
  induction j as [|j IH]; intro H; [reflexivity|].
  simpl sumcaps. replace (S (nl - S j)) with (nl - j)%nat by lia. rewrite IH by lia.
  rewrite total_capacity_S. unfold level_capacity. replace (nl - (nl - S j) - 1)%nat with j by lia. lia.
Qed.

Lemma find_level_some k nl : forall ls h0 h, find_level k nl h0 ls = Some h ->
  (h0 <= h < h0 + length ls)%nat /\ level_capacity k nl h <= len (nth (h - h0) ls []).
Proof.
  induction ls as [|l r IH]; intros h0 h H; simpl in H; [discriminate|].
  destruct (Z.leb_spec (level_capacity k nl h0) (len l)).
  - inversion H; subst. rewrite Nat.sub_diag. simpl. split; [lia|assumption].
  - apply IH in H as [H1 H2]. simpl length. split; [lia|].
    replace (h - h0)%nat with (S (h - S h0)) by lia. exact H2.
Qed.

(* "capacity calculation error" cannot happen on a full sketch *)
Lemma find_level_none k nl : forall ls h0, find_level k nl h0 ls = None ->
  ls = [] \/ retained ls < sumcaps k nl h0 (length ls).
Proof.
  induction ls as [|l r IH]; intros h0 H; [now left|]. right.
  simpl in H. destruct (Z.leb_spec (level_capacity k nl h0) (len l)); [discriminate|].
  rewrite retained_cons. simpl sumcaps. destruct (IH _ H) as [->|H2]; simpl in *; lia.
Qed.

(* ===================== invariants of a sketch ===================== *)
Record Inv (s : kll) : Prop := mkInv {
  i_k : 8 <= kk s;
  i_ne : levels s <> [];
  i_w : wsum 1 (levels s) = nn s;                                   (* weight conservation *)
  i_cap : cap s = total_capacity (kk s) (length (levels s));         (* items_size_ = compute_total_capacity *)
  i_sorted : lv_ok (l0s s) (levels s)                                (* levels >= 1 sorted, level 0 when flagged *)
}.

Definition Space (s : kll) : Prop := num_retained s <= cap s.        (* levels_[0] >= 0 *)

Definition same_meta (s s' : kll) : Prop :=
  kk s' = kk s /\ min_k s' = min_k s /\ mn s' = mn s /\ mx s' = mx s.

Lemma same_meta_refl s : same_meta s s.
Proof. repeat split. Qed.
Lemma same_meta_trans a b c : same_meta a b -> same_meta b c -> same_meta a c.
Proof. unfold same_meta. intuition congruence. Qed.

Lemma Inv_new k : 8 <= k -> Inv (kll_new k).
Proof.
  intro H. constructor; simpl; auto; try discriminate.
  - unfold cap_depth, int_cap_aux, int_cap_aux_aux. simpl Nat.leb. cbv iota.
    change (2 ^ Z.of_nat 0) with 1. change (3 ^ Z.of_nat 0) with 1.
    rewrite Z.mul_1_r, Z.div_1_r. replace ((2 * k + 1) / 2) with k; [lia|].
    apply Z.div_unique with 1; lia.
  - split; simpl; [discriminate|constructor].
Qed.

Lemma Space_new k : Space (kll_new k) \/ k < 0.
Proof. unfold Space, num_retained. simpl. change (len (@nil Z)) with 0. lia. Qed.

Lemma Inv_upd_minmax s lo hi : Inv s -> Inv (upd_minmax s lo hi).
Proof. intros [? ? ? ? ?]. unfold upd_minmax. destruct (nn s =? 0); constructor; simpl; auto. Qed.

Lemma levels_upd_minmax s lo hi : levels (upd_minmax s lo hi) = levels s /\ nn (upd_minmax s lo hi) = nn s /\
  cap (upd_minmax s lo hi) = cap s /\ kk (upd_minmax s lo hi) = kk s /\ l0s (upd_minmax s lo hi) = l0s s /\
  min_k (upd_minmax s lo hi) = min_k s.
Proof. unfold upd_minmax. destruct (nn s =? 0); simpl; auto 10. Qed.

(* the full sketch always has a level at capacity *)
Lemma find_level_full s : Inv s -> free s = 0 -> exists h, find_level (kk s) (length (levels s)) 0 (levels s) = Some h.
Proof.
  intros I F. destruct (find_level (kk s) (length (levels s)) 0 (levels s)) eqn:E; eauto.
  apply find_level_none in E as [E|E]; [now destruct (i_ne s I)|].
  pose proof (sumcaps_total (kk s) (length (levels s)) (length (levels s)) (le_n _)) as T.
  rewrite Nat.sub_diag in T. rewrite T, <- (i_cap s I) in E. unfold free, num_retained in F. lia.
Qed.

Lemma compress_upd_spec s s' : Inv s -> leaf (compress_upd s) s' ->
  Inv s' /\ same_meta s s' /\ nn s' = nn s /\ l0s s' = l0s s /\
  (forall p, cnt p (concat (levels s')) <= cnt p (concat (levels s))) /\
  (free s = 0 -> 4 <= free s').
Proof.
  intros I L. unfold compress_upd in L.
  destruct (find_level (kk s) (length (levels s)) 0 (levels s)) as [h|] eqn:E.
  - apply leaf_flip_inv in L as [c L]. apply leaf_ret_inv in L. subst s'.
    apply find_level_some in E as [Hh Hc]. rewrite Nat.sub_0_r in Hc. simpl in Hh.
    assert (Hlt : (h < length (levels s))%nat) by lia.
    split; [|split; [|split; [|split; [|split]]]]; try reflexivity.
    + constructor; unfold set_levels; cbn [kk cap levels nn l0s mn mx min_k].
      * apply (i_k s I).
      * apply compact_at_nonempty, (i_ne s I).
      * rewrite compact_at_wsum by assumption. apply (i_w s I).
      * rewrite compact_at_length by assumption. rewrite (i_cap s I).
        destruct (S h =? length (levels s))%nat; [|reflexivity].
        rewrite level_capacity_bottom, total_capacity_S. reflexivity.
      * apply compact_at_lv_ok, (i_sorted s I).
    + repeat split.
    + intro p. simpl. apply compact_at_cnt_le.
    + intro F. unfold free, num_retained, set_levels in *. cbn [kk cap levels nn l0s mn mx min_k].
      rewrite compact_at_retained by assumption.
      pose proof (level_capacity_ge (kk s) (length (levels s)) h).
      assert (4 <= len (nth h (levels s) []) / 2) by (apply Z.div_le_lower_bound; lia).
      pose proof (level_capacity_ge (kk s) (S (length (levels s))) 0).
      destruct (S h =? length (levels s))%nat; lia.
  - apply leaf_ret_inv in L. subst s'.
    split; [assumption|]. split; [apply same_meta_refl|]. repeat split; auto; try lia.
    intro F. destruct (find_level_full s I F) as [h Hh]. congruence.
Qed.

Lemma push0_spec s x : Inv s ->
  Inv (push0 s x) /\ same_meta s (push0 s x) /\ nn (push0 s x) = nn s + 1 /\
  (forall p, cnt p (concat (levels (push0 s x))) = (if p x then 1 else 0) + cnt p (concat (levels s))) /\
  free (push0 s x) = free s - 1 /\ hd [] (levels (push0 s x)) <> [].
Proof.
  intros I. pose proof (i_ne s I) as NE. pose proof (i_w s I) as W. pose proof (i_cap s I) as C.
  pose proof (i_sorted s I) as [S1 S2]. pose proof (i_k s I).
  unfold push0, free, num_retained. destruct (levels s) as [|l0 r] eqn:E; [congruence|]. simpl.
  split; [|split; [|split; [|split; [|split]]]]; try reflexivity; try discriminate.
  - constructor; simpl; auto; try discriminate.
    + unfold wsum in *. cbn [Rlv] in *. rewrite !cnt_true in *. rewrite len_cons. lia.
    + split; simpl; [discriminate|assumption].
  - repeat split.
  - intro p. rewrite cnt_cons. reflexivity.
  - rewrite len_cons. lia.
Qed.

Lemma internal_update_spec s x s' : Inv s -> leaf (internal_update s x) s' ->
  Inv s' /\ same_meta s s' /\ nn s' = nn s + 1 /\
  (forall p, cnt p (concat (levels s')) <= (if p x then 1 else 0) + cnt p (concat (levels s))) /\
  (Space s -> Space s') /\ hd [] (levels s') <> [].
Proof.
  intros I L. unfold internal_update in L. apply leaf_bind in L as (s1 & L1 & L2).
  apply leaf_ret_inv in L2. subst s'.
  assert (X : Inv s1 /\ same_meta s s1 /\ nn s1 = nn s /\
              (forall p, cnt p (concat (levels s1)) <= cnt p (concat (levels s))) /\ (Space s -> 1 <= free s1)).
  { destruct (Z.eqb_spec (free s) 0) as [F|F].
    - destruct (compress_upd_spec s s1 I L1) as (A & B & C & D & G & K).
      split; [exact A|]. split; [exact B|]. split; [exact C|]. split; [exact G|]. intros _. specialize (K F). lia.
    - apply leaf_ret_inv in L1. subst s1. split; [exact I|]. split; [apply same_meta_refl|]. split; [reflexivity|].
      split; [intro; lia|]. unfold Space, free in *. lia. }
  destruct X as (I1 & M1 & N1 & C1 & F1).
  destruct (push0_spec s1 x I1) as (A & B & C & D & G & K).
  split; auto. split; [eapply same_meta_trans; eauto|]. split; [lia|]. split; [|split; auto].
  - intro p. rewrite D. specialize (C1 p). lia.
  - intro Sp. specialize (F1 Sp). unfold Space, free in *. lia.
Qed.

(* ===================== merge ===================== *)
Lemma add_l0_spec : forall items s s', Inv s -> leaf (add_l0 s items) s' ->
  Inv s' /\ same_meta s s' /\ nn s' = nn s + len items /\
  (forall p, cnt p (concat (levels s')) <= cnt p items + cnt p (concat (levels s))) /\
  (Space s -> Space s') /\ (items <> [] -> l0s s' = false).
Proof.
  induction items as [|x r IH]; intros s s' I L; simpl in L.
  - apply leaf_ret_inv in L. subst s'. split; auto. split; [apply same_meta_refl|].
    rewrite len_nil. repeat split; auto; try lia; try congruence. intro p. rewrite cnt_nil. lia.
  - apply leaf_bind in L as (s1 & L1 & L2).
    destruct (internal_update_spec s x s1 I L1) as (I1 & M1 & N1 & C1 & S1 & _).
    destruct (IH s1 s' I1 L2) as (I2 & M2 & N2 & C2 & S2 & F2).
    split; auto. split; [eapply same_meta_trans; eauto|]. rewrite len_cons.
    split; [lia|]. split; [|split; auto].
    + intro p. rewrite cnt_cons. specialize (C1 p). specialize (C2 p). lia.
    + intros _. destruct r as [|y r'].
      * simpl in L2. apply leaf_ret_inv in L2. subst s'.
        unfold internal_update in L1. apply leaf_bind in L1 as (s0 & _ & L1). apply leaf_ret_inv in L1. now subst s1.
      * apply F2. discriminate.
Qed.

Lemma zip_levels_wsum : forall a b w, wsum w (zip_levels a b) = wsum w a + wsum w b.
Proof.
  unfold wsum. induction a as [|x a IH]; intros [|y b] w; cbn [zip_levels Rlv]; try lia.
  rewrite IH, cnt_merge. lia.
Qed.

Lemma zip_levels_Rlv p : forall a b w, Rlv p w (zip_levels a b) = Rlv p w a + Rlv p w b.
Proof.
  induction a as [|x a IH]; intros [|y b] w; cbn [zip_levels Rlv]; try lia.
  rewrite IH, cnt_merge. lia.
Qed.

Lemma zip_levels_cnt p : forall a b, cnt p (concat (zip_levels a b)) = cnt p (concat a) + cnt p (concat b).
Proof.
  induction a as [|x a IH]; intros [|y b]; cbn [zip_levels concat]; rewrite ?cnt_nil; try lia.
  rewrite !cnt_app, IH, cnt_merge. lia.
Qed.

Lemma zip_levels_sorted : forall a b, all_sorted a -> all_sorted b -> all_sorted (zip_levels a b).
Proof.
  induction a as [|x a IH]; intros [|y b] Ha Hb; cbn [zip_levels]; auto.
  inversion Ha; inversion Hb; subst. constructor; [now apply merge_sorted_sorted|now apply IH].
Qed.

Lemma zip_levels_length : forall a b, length (zip_levels a b) = Nat.max (length a) (length b).
Proof. induction a as [|x a IH]; intros [|y b]; cbn [zip_levels length]; auto. now rewrite IH. Qed.

(* sortedness condition threaded through general_compress: at level 0 the first level need only be sorted if flagged *)
Definition okc (cur : nat) (s0 : bool) (lv : list (list Z)) : Prop :=
  match cur with O => lv_ok s0 lv | S _ => all_sorted lv end.

Lemma okc_tl cur s0 lv : okc cur s0 lv -> all_sorted (tl lv).
Proof. destruct cur; simpl; [now intros [_ H]|apply all_sorted_tl]. Qed.

Lemma gc_spec k s0 : forall fuel cur nl cn tgt ins r,
  leaf (gc fuel k s0 cur nl cn tgt ins) r ->
  (ins <> [] -> fst r <> []) /\
  (forall w, wsum w (fst r) = wsum w ins) /\
  (forall p, cnt p (concat (fst r)) <= cnt p (concat ins)) /\
  (okc cur s0 ins -> okc cur s0 (fst r)) /\
  (nl = (cur + length ins)%nat -> tgt = total_capacity k nl -> snd r = total_capacity k (cur + length (fst r))).
Proof.
  induction fuel as [|f IH]; intros cur nl cnt0 tgt ins r L; cbn [gc] in L.
  { apply leaf_ret_inv in L. subst r. simpl. repeat split; auto; try lia. intros; subst; auto. }
  destruct ins as [|raw rest].
  { apply leaf_ret_inv in L. subst r. simpl. repeat split; auto; try lia. intros; subst; auto. }
  destruct ((cnt0 <? tgt) || (len raw <? level_capacity k nl cur)).
  - destruct (Nat.eqb_spec (S cur) nl) as [En|En].
    + apply leaf_ret_inv in L. subst r. simpl. repeat split; auto; try lia; try discriminate. intros; subst; auto.
    + apply leaf_bind in L as (r' & L1 & L2). apply leaf_ret_inv in L2. subst r.
      destruct (IH _ _ _ _ _ _ L1) as (A & B & C & D & E). unfold cons_fst. cbn [fst snd].
      split; [discriminate|]. split; [|split; [|split]].
      * intro w. unfold wsum in *. cbn [Rlv]. rewrite B. reflexivity.
      * intro p. cbn [concat]. rewrite !cnt_app. specialize (C p). lia.
      * intro O. pose proof (okc_tl _ _ _ O) as T. cbn [tl] in T. specialize (D T).
        destruct cur; simpl in *; [destruct O; split; auto|inversion O; constructor; auto].
      * intros Hn Ht. cbn [length] in *. rewrite E; auto; [f_equal; lia|lia].
  - apply leaf_flip_inv in L as [c L]. apply leaf_bind in L as (r' & L1 & L2). apply leaf_ret_inv in L2. subst r.
    destruct (IH _ _ _ _ _ _ L1) as (A & B & C & D & E). unfold cons_fst. cbn [fst snd]. clear IH L1.
    pose proof (compact_len ((cur =? 0)%nat && negb s0) raw (hd [] rest) c) as CL.
    pose proof (compact_cnt_le) as CC.
    pose proof (compact_sorted ((cur =? 0)%nat && negb s0) raw (hd [] rest) c) as CS.
    pose proof (compact_lengths ((cur =? 0)%nat && negb s0) raw (hd [] rest) c) as CLn.
    specialize (fun p => CC p ((cur =? 0)%nat && negb s0) raw (hd [] rest) c).
    destruct (compact_level ((cur =? 0)%nat && negb s0) raw (hd [] rest) c) as [lo up]. cbn [fst snd] in *.
    destruct CL as (CL1 & _ & _).
    split; [discriminate|]. split; [|split; [|split]].
    * intro w. unfold wsum in *. cbn [Rlv]. rewrite B. cbn [Rlv]. rewrite !cnt_true.
      apply (f_equal (Z.mul w)) in CL1.
      destruct rest as [|above rr]; cbn [hd tl Rlv] in *; rewrite ?cnt_true; change (len (@nil Z)) with 0 in *; lia.
    * intro p. cbn [concat]. rewrite !cnt_app. specialize (C p). specialize (CC p). cbn [concat] in C. rewrite cnt_app in C.
      destruct rest as [|above rr]; cbn [hd tl concat] in *; rewrite ?cnt_app, ?cnt_nil in *; lia.
    * intro O. pose proof (okc_tl _ _ _ O) as T. cbn [tl] in T.
      destruct CS as [CS1 CS2].
      { destruct cur; simpl in O |- *; [destruct O as [O1 _]; destruct s0; auto|inversion O; auto]. }
      { now apply all_sorted_hd. }
      assert (D' : all_sorted (fst r')) by (apply D; constructor; [assumption|now apply all_sorted_tl]).
      destruct cur; simpl; [split; auto|constructor; auto].
    * intros Hn Ht. cbn [length] in *. rewrite E.
      -- f_equal. lia.
      -- cbn [length]. destruct (Nat.eqb_spec (S cur) nl); destruct rest; cbn [length tl] in *; lia.
      -- destruct (Nat.eqb_spec (S cur) nl); [|assumption]. subst tgt.
         rewrite level_capacity_bottom, total_capacity_S. reflexivity.
Qed.

Lemma merge_higher_spec s o s' : Inv s -> Inv o -> leaf (merge_higher s o) s' ->
  Inv (mkkll (kk s') (min_k s') (nn s + wsum 2 (tl (levels o))) (cap s') (levels s') (l0s s') (mn s') (mx s')) /\
  same_meta s s' /\ nn s' = nn s /\ l0s s' = l0s s /\
  (forall p, cnt p (concat (levels s')) <= cnt p (concat (levels s)) + cnt p (concat (tl (levels o)))).
Proof.
  intros I Io L. unfold merge_higher in L. apply leaf_bind in L as (r & L1 & L2). apply leaf_ret_inv in L2. subst s'.
  pose proof (i_ne s I) as NE. pose proof (i_ne o Io) as NEo. pose proof (i_sorted s I) as [S1 S2].
  pose proof (i_sorted o Io) as [_ So].
  destruct (levels s) as [|l0 rs] eqn:Es; [congruence|]. destruct (levels o) as [|o0 ro] eqn:Eo; [congruence|].
  cbn [hd tl] in *.
  apply gc_spec in L1 as (A & B & C & D & E).
  unfold set_levels. cbn [kk min_k cap levels l0s mn mx nn].
  split; [|split; [repeat split|split; [reflexivity|split; [reflexivity|]]]].
  - constructor; cbn [kk min_k cap levels l0s mn mx nn].
    + apply (i_k s I).
    + apply A. discriminate.
    + rewrite B. unfold wsum. cbn [Rlv]. rewrite (zip_levels_Rlv _ rs ro).
      pose proof (i_w s I) as W. rewrite Es in W. unfold wsum in W. cbn [Rlv] in W. change (2 * 1) with 2 in *. lia.
    + rewrite E; [reflexivity| |reflexivity].
      cbn [length]. rewrite zip_levels_length. lia.
    + apply (D (conj S1 (zip_levels_sorted _ _ S2 So))).
  - intro p. specialize (C p). cbn [concat] in C. rewrite cnt_app, zip_levels_cnt in C. cbn [concat]. rewrite cnt_app. lia.
Qed.

(* ===================== the sketch against the stream it has seen ===================== *)
Definition is_min (m : Z) (log : list Z) : Prop := In m log /\ forall y, In y log -> m <= y.
Definition is_max (m : Z) (log : list Z) : Prop := In m log /\ forall y, In y log -> y <= m.

Record Rel (s : kll) (log : list Z) : Prop := mkRel {
  r_inv : Inv s;
  r_n : nn s = len log;                                           (* n = number of accepted items *)
  r_min : log <> [] -> is_min (mn s) log;
  r_max : log <> [] -> is_max (mx s) log;
  r_sub : forall p, cnt p (concat (levels s)) <= cnt p log        (* retained multiset within the inputs *)
}.

Lemma len_zero_nil {A} (l : list A) : len l = 0 -> l = [].
Proof. destruct l; [reflexivity|rewrite len_cons; pose proof (len_nonneg l); lia]. Qed.

Lemma Rel_new k : 8 <= k -> Rel (kll_new k) [].
Proof. intro H. constructor; auto using Inv_new; try congruence; try reflexivity. Qed.

Lemma is_min_app_single m log x : (log <> [] -> is_min m log) ->
  is_min (if len log =? 0 then x else if x <? m then x else m) (log ++ [x]).
Proof.
  intro H. destruct (Z.eqb_spec (len log) 0) as [E|E].
  - apply len_zero_nil in E. subst log. simpl. split; [now left|]. intros y [<-|[]]. lia.
  - assert (NE : log <> []) by (intro; subst; now apply E). destruct (H NE) as [H1 H2].
    destruct (Z.ltb_spec x m); split.
    + apply in_or_app. right. now left.
    + intros y Hy. apply in_app_or in Hy as [Hy|[<-|[]]]; [specialize (H2 y Hy)|]; lia.
    + apply in_or_app. now left.
    + intros y Hy. apply in_app_or in Hy as [Hy|[<-|[]]]; [specialize (H2 y Hy)|]; lia.
Qed.

Lemma is_max_app_single m log x : (log <> [] -> is_max m log) ->
  is_max (if len log =? 0 then x else if m <? x then x else m) (log ++ [x]).
Proof.
  intro H. destruct (Z.eqb_spec (len log) 0) as [E|E].
  - apply len_zero_nil in E. subst log. simpl. split; [now left|]. intros y [<-|[]]. lia.
  - assert (NE : log <> []) by (intro; subst; now apply E). destruct (H NE) as [H1 H2].
    destruct (Z.ltb_spec m x); split.
    + apply in_or_app. right. now left.
    + intros y Hy. apply in_app_or in Hy as [Hy|[<-|[]]]; [specialize (H2 y Hy)|]; lia.
    + apply in_or_app. now left.
    + intros y Hy. apply in_app_or in Hy as [Hy|[<-|[]]]; [specialize (H2 y Hy)|]; lia.
Qed.

Theorem update_Rel s log x s' : Rel s log -> leaf (update s x) s' -> Rel s' (log ++ [x]).
Proof.
  intros [I N Mi Ma Su] L. unfold update in L.
  pose proof (Inv_upd_minmax s x x I) as I1.
  destruct (levels_upd_minmax s x x) as (E1 & E2 & E3 & E4 & E5 & E6).
  destruct (internal_update_spec _ _ _ I1 L) as (I2 & (M1 & M2 & M3 & M4) & N2 & C2 & _).
  constructor; auto.
  - rewrite len_app, len_cons, len_nil. lia.
  - intros _. rewrite M3. pose proof (is_min_app_single (mn s) log x Mi) as H. rewrite <- N in H.
    unfold upd_minmax. destruct (nn s =? 0); exact H.
  - intros _. rewrite M4. pose proof (is_max_app_single (mx s) log x Ma) as H. rewrite <- N in H.
    unfold upd_minmax. destruct (nn s =? 0); exact H.
  - intro p. specialize (C2 p). rewrite E1 in C2. specialize (Su p). rewrite cnt_app, cnt_cons, cnt_nil. lia.
Qed.

Lemma is_min_app m1 l1 m2 l2 : l2 <> [] -> (l1 <> [] -> is_min m1 l1) -> is_min m2 l2 ->
  is_min (if len l1 =? 0 then m2 else if m2 <? m1 then m2 else m1) (l1 ++ l2).
Proof.
  intros NE2 H1 [A2 B2]. destruct (Z.eqb_spec (len l1) 0) as [E|E].
  - apply len_zero_nil in E. subst l1. simpl. split; auto.
  - assert (NE : l1 <> []) by (intro; subst; now apply E). destruct (H1 NE) as [A1 B1].
    destruct (Z.ltb_spec m2 m1); split.
    + apply in_or_app. now right.
    + intros y Hy. apply in_app_or in Hy as [Hy|Hy]; [specialize (B1 y Hy)|specialize (B2 y Hy)]; lia.
    + apply in_or_app. now left.
    + intros y Hy. apply in_app_or in Hy as [Hy|Hy]; [specialize (B1 y Hy)|specialize (B2 y Hy)]; lia.
Qed.

Lemma is_max_app m1 l1 m2 l2 : l2 <> [] -> (l1 <> [] -> is_max m1 l1) -> is_max m2 l2 ->
  is_max (if len l1 =? 0 then m2 else if m1 <? m2 then m2 else m1) (l1 ++ l2).
Proof.
  intros NE2 H1 [A2 B2]. destruct (Z.eqb_spec (len l1) 0) as [E|E].
  - apply len_zero_nil in E. subst l1. simpl. split; auto.
  - assert (NE : l1 <> []) by (intro; subst; now apply E). destruct (H1 NE) as [A1 B1].
    destruct (Z.ltb_spec m1 m2); split.
    + apply in_or_app. now right.
    + intros y Hy. apply in_app_or in Hy as [Hy|Hy]; [specialize (B1 y Hy)|specialize (B2 y Hy)]; lia.
    + apply in_or_app. now left.
    + intros y Hy. apply in_app_or in Hy as [Hy|Hy]; [specialize (B1 y Hy)|specialize (B2 y Hy)]; lia.
Qed.

Theorem merge_Rel s l1 o l2 s' : Rel s l1 -> Rel o l2 -> leaf (merge s o) s' -> Rel s' (l1 ++ l2).
Proof.
  intros [I N Mi Ma Su] [Io No Mio Mao Suo] L. unfold merge in L.
  destruct (Z.eqb_spec (nn o) 0) as [Z0|Z0].
  { apply leaf_ret_inv in L. subst s'. rewrite Z0 in No. symmetry in No. apply len_zero_nil in No. subst l2.
    rewrite app_nil_r. constructor; auto. }
  assert (NE2 : l2 <> []) by (intro; subst; apply Z0; rewrite No; reflexivity).
  apply leaf_bind in L as (s2 & L1 & L). apply leaf_bind in L as (s3 & L2 & L3). apply leaf_ret_inv in L3.
  pose proof (Inv_upd_minmax s (mn o) (mx o) I) as I1.
  destruct (levels_upd_minmax s (mn o) (mx o)) as (E1 & E2 & E3 & E4 & E5 & E6).
  destruct (add_l0_spec _ _ _ I1 L1) as (I2 & (M1 & M2 & M3 & M4) & N2 & C2 & _).
  pose proof (i_ne o Io) as NEo. pose proof (i_w o Io) as Wo.
  destruct (levels o) as [|o0 ro] eqn:Eo; [congruence|]. cbn [hd] in *.
  unfold wsum in Wo. cbn [Rlv] in Wo. rewrite cnt_true in Wo. change (2 * 1) with 2 in Wo.
  assert (MIN : is_min (mn s2) (l1 ++ l2)).
  { rewrite M3. pose proof (is_min_app (mn s) l1 (mn o) l2 NE2 Mi (Mio NE2)) as H. rewrite <- N in H.
    unfold upd_minmax. destruct (nn s =? 0); exact H. }
  assert (MAX : is_max (mx s2) (l1 ++ l2)).
  { rewrite M4. pose proof (is_max_app (mx s) l1 (mx o) l2 NE2 Ma (Mao NE2)) as H. rewrite <- N in H.
    unfold upd_minmax. destruct (nn s =? 0); exact H. }
  assert (SUBo : forall p, cnt p o0 + cnt p (concat ro) <= cnt p l2).
  { intro p. specialize (Suo p). cbn [concat] in Suo. rewrite cnt_app in Suo. exact Suo. }
  cbn [length] in L2, L3.
  destruct ro as [|o1 ro'].
  - (* the other sketch has a single level *)
    cbn [length Nat.leb] in L2, L3. apply leaf_ret_inv in L2. subst s3 s'.
    cbn [Rlv] in Wo.
    constructor; cbn [kk min_k cap levels l0s mn mx nn]; auto.
    + destruct I2 as [a b c d e]. constructor; cbn [kk min_k cap levels l0s mn mx nn]; auto. lia.
    + rewrite len_app. lia.
    + intro p. specialize (C2 p). rewrite E1 in C2. specialize (Su p). specialize (SUBo p). rewrite cnt_app.
      cbn [concat] in SUBo. rewrite cnt_nil in SUBo. lia.
  - cbn [length Nat.leb] in L2, L3.
    assert (Io' : Inv o) by assumption.
    destruct (merge_higher_spec s2 o s3 I2 Io L2) as (I3 & (K1 & K2 & K3 & K4) & N3 & F3 & C3).
    rewrite Eo in I3, C3. cbn [tl] in I3, C3. subst s'.
    constructor; cbn [kk min_k cap levels l0s mn mx nn]; auto.
    + destruct I3 as [a b c d e]. cbn [kk min_k cap levels l0s mn mx nn] in *.
      constructor; cbn [kk min_k cap levels l0s mn mx nn]; auto. unfold wsum in c at 2. lia.
    + rewrite len_app. lia.
    + congruence.
    + congruence.
    + intro p. specialize (C2 p). rewrite E1 in C2. specialize (Su p). specialize (SUBo p). specialize (C3 p).
      rewrite cnt_app. lia.
Qed.

(* ===================== reachable states ===================== *)
(* every state that some sequence of updates and merges (of reachable sketches, any k) can produce under
   some outcome of the coin flips, together with the multiset of items it has been given *)
Inductive reach : kll -> list Z -> Prop :=
| reach_new k : 8 <= k <= 65535 -> reach (kll_new k) []
| reach_update s log x s' : reach s log -> leaf (update s x) s' -> reach s' (log ++ [x])
| reach_merge s l1 o l2 s' : reach s l1 -> reach o l2 -> leaf (merge s o) s' -> reach s' (l1 ++ l2)
| reach_sort s log : reach s log -> reach (sort_level_zero s) log.      (* side effect of a query *)

Lemma sort_level_zero_Rel s log : Rel s log -> Rel (sort_level_zero s) log.
Proof.
  intros [I N Mi Ma Su]. unfold sort_level_zero. destruct (l0s s) eqn:E; [constructor; auto|].
  destruct I as [a b c d [e1 e2]].
  destruct (levels s) as [|l0 r] eqn:El; [congruence|].
  constructor; cbn [kk min_k cap levels l0s mn mx nn]; auto.
  - constructor; cbn [kk min_k cap levels l0s mn mx nn]; auto; try discriminate.
    + unfold wsum in *. cbn [Rlv] in *. rewrite (cnt_perm _ _ _ (isort_perm l0)). exact c.
    + split; [intros _; apply isort_sorted|exact e2].
  - intro p. specialize (Su p). cbn [concat] in *. rewrite cnt_app in *. rewrite (cnt_perm _ _ _ (isort_perm l0)). exact Su.
Qed.

Theorem reach_Rel s log : reach s log -> Rel s log.
Proof.
  induction 1.
  - apply Rel_new; lia.
  - eapply update_Rel; eauto.
  - eapply merge_Rel; eauto.
  - now apply sort_level_zero_Rel.
Qed.
