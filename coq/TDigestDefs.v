(* TDigestDefs.v — executable model of tdigest<double> (tdigest/include/tdigest.hpp, tdigest_impl.hpp). No proofs here.
   The model is written once over an abstract number structure [numops] and instantiated twice:
     fops ln  : Coq primitive binary64 floats (extracted, replayed bit for bit against the C++; [ln] is supplied by the
                runner: the natural logarithm of the C library the C++ process uses too);
     qops ... : exact rationals (theorems in TDigestProofs.v / Properties_C17.v).
   The model follows the code statement by statement, including the branches that are dead for states reachable through
   the public API (tail formulas of get_rank / get_quantile) and the quirks (second guard of the greedy loop that is
   always true, the final fall-through of get_quantile that averages a WEIGHT with max_).
   Three defects found by this check are modelled AS REPAIRED (patches in /verif/fixes/17_*.patch): the swapped interpolation
   weights in get_quantile, the missing clamp in weighted_average, get_CDF/get_PMF answering on an empty digest.  The
   behaviour of the code as found is kept as variant definitions with `_refuted` theorems in Regression_tdigest.v.
   Modelling choices: std::stable_sort on the mean = stable insertion sort with the same `<` (any stable sort gives the same
   result when `<` is a strict weak order, i.e. no NaN mean); std::lower_bound / std::upper_bound = the usual halving
   binary search; uint64 weights are unbounded Z (no wrap-around). *)
From Coq Require Import ZArith List Bool QArith Floats Uint63.
From DS Require Import RunnerLib FloatBits.
Import ListNotations.
Local Open Scope Z_scope.

Record numops := {
  num : Type;
  nofZ : Z -> num;                      (* conversion of an unsigned integer (uint64_t / int) to the number type *)
  nadd : num -> num -> num; nsub : num -> num -> num; nmul : num -> num -> num; ndiv : num -> num -> num;
  nltb : num -> num -> bool; nleb : num -> num -> bool; neqb : num -> num -> bool;
  nisnan : num -> bool;
  nln : num -> num;                     (* std::log *)
  npinf : num; nninf : num              (* +infinity, -infinity (initial min_, max_) *)
}.

Section Model.
  Variable Ops : numops.
  Let T : Type := num Ops.
  Let ofZ := nofZ Ops.
  Let add := nadd Ops. Let sub := nsub Ops. Let mul := nmul Ops. Let div := ndiv Ops.
  Let ltb := nltb Ops. Let leb := nleb Ops. Let eqb := neqb Ops.

  Record centroid := { c_mean : T; c_w : Z }.

  Record td := {
    t_k : Z;                  (* k_ *)
    t_rev : bool;             (* reverse_merge_ *)
    t_min : T; t_max : T;     (* min_, max_ *)
    t_cents : list centroid;  (* centroids_ *)
    t_cw : Z;                 (* centroids_weight_ *)
    t_buf : list T            (* buffer_ (insertion order) *)
  }.

  Definition n0 : T := ofZ 0.
  Definition n1 : T := ofZ 1.
  Definition n2 : T := ofZ 2.
  Definition nhalf : T := div n1 n2.          (* 0.5 *)

  Definition nmin (a b : T) : T := if ltb b a then b else a.    (* std::min(a, b) *)
  Definition nmax (a b : T) : T := if ltb a b then b else a.    (* std::max(a, b) *)

  (* constructor: k < 10 refused; centroids_capacity_ = 2k + (k < 30 ? 30 : 10) *)
  Definition capacity (k : Z) : Z := 2 * k + (if k <? 30 then 30 else 10).
  Definition buf_cap (k : Z) : Z := capacity k * 4.

  Definition td_make (rev : bool) (k : Z) (mn mx : T) (cs : list centroid) (w : Z) (buf : list T) : option td :=
    if k <? 10 then None
    else Some {| t_k := k; t_rev := rev; t_min := mn; t_max := mx; t_cents := cs; t_cw := w; t_buf := buf |}.

  Definition td_new (k : Z) : option td := td_make false k (npinf Ops) (nninf Ops) [] 0 [].

  Definition blen (s : td) : Z := Z.of_nat (length (t_buf s)).
  Definition td_is_empty (s : td) : bool :=
    match t_cents s, t_buf s with [], [] => true | _, _ => false end.
  Definition td_total (s : td) : Z := t_cw s + blen s.

  (* centroid::add *)
  Definition c_add (a b : centroid) : centroid :=
    let w := c_w a + c_w b in
    {| c_mean := add (c_mean a) (div (mul (sub (c_mean b) (c_mean a)) (ofZ (c_w b))) (ofZ w)); c_w := w |}.

  Definition single (v : T) : centroid := {| c_mean := v; c_w := 1 |}.

  (* stable sort by mean *)
  Fixpoint ins (x : centroid) (l : list centroid) : list centroid :=
    match l with
    | [] => [x]
    | y :: t => if ltb (c_mean y) (c_mean x) then y :: ins x t else x :: y :: t
    end.
  Definition ssort (l : list centroid) : list centroid := fold_right ins [] l.

  (* scale_function *)
  Definition sf_z (compression n : T) : T := add (mul (ofZ 4) (nln Ops (div n compression))) (ofZ 24).
  Definition sf_normalizer (compression n : T) : T := div compression (sf_z compression n).
  Definition sf_max (q normalizer : T) : T := div (mul q (sub n1 q)) normalizer.

  (* the greedy loop of merge(buffer, weight): [cur] = centroids_.back(), [done] = the centroids before it, reversed *)
  Fixpoint greedy (k cw : Z) (rest : list centroid) (second : bool) (cur : centroid) (done : list centroid)
           (wsf : T) : list centroid :=
    match rest with
    | [] => rev (cur :: done)
    | it :: r =>
        let proposed := ofZ (c_w cur + c_w it) in
        let add_this :=
          if second then false      (* std::distance(buffer.begin(), it) != 1; the other conjunct is always true *)
          else
            let cwn := ofZ cw in
            let q0 := div wsf cwn in
            let q2 := div (add wsf proposed) cwn in
            let normalizer := sf_normalizer (ofZ (2 * k)) cwn in
            leb proposed (mul cwn (nmin (sf_max q0 normalizer) (sf_max q2 normalizer))) in
        if add_this then greedy k cw r false (c_add cur it) done wsf
        else greedy k cw r false it (cur :: done) (add wsf (ofZ (c_w cur)))
    end.

  Definition hd_mean (d : T) (l : list centroid) : T := match l with [] => d | c :: _ => c_mean c end.
  Definition last_c (l : list centroid) (d : centroid) : centroid := last l d.

  (* private merge(vector_centroid& buffer, W weight) *)
  Definition merge_into (s : td) (tmp : list centroid) (weight : Z) : td :=
    let sorted := ssort (tmp ++ t_cents s) in
    let b := if t_rev s then rev sorted else sorted in
    let cw := t_cw s + weight in
    match b with
    | [] => s                                  (* not reachable: callers pass a non-empty buffer *)
    | c0 :: rest =>
        let res := greedy (t_k s) cw rest true c0 [] n0 in
        let cs := if t_rev s then rev res else res in
        {| t_k := t_k s; t_rev := negb (t_rev s);
           t_min := nmin (t_min s) (hd_mean (t_min s) cs);
           t_max := nmax (t_max s) (c_mean (last_c cs (single (t_max s))));
           t_cents := cs; t_cw := cw; t_buf := [] |}
    end.

  Definition td_compress (s : td) : td :=
    match t_buf s with
    | [] => s
    | _ => merge_into s (map single (t_buf s)) (blen s)
    end.

  Definition td_update (s : td) (v : T) : td :=
    if nisnan Ops v then s else
    let s1 := if blen s =? buf_cap (t_k s) then td_compress s else s in
    {| t_k := t_k s1; t_rev := t_rev s1; t_min := nmin (t_min s1) v; t_max := nmax (t_max s1) v;
       t_cents := t_cents s1; t_cw := t_cw s1; t_buf := t_buf s1 ++ [v] |}.

  Definition td_merge (s o : td) : td :=
    if td_is_empty o then s
    else merge_into s (map single (t_buf s) ++ map single (t_buf o) ++ t_cents o) (blen s + td_total o).

  (* std::lower_bound / std::upper_bound over centroids_[first, first+len) *)
  Definition dflt : centroid := single n0.
  Definition cnth (l : list centroid) (i : nat) : centroid := nth i l dflt.

  Fixpoint lower_bound (fuel : nat) (l : list centroid) (v : T) (first len : nat) : nat :=
    match fuel with
    | 0%nat => first
    | S f =>
        match len with
        | 0%nat => first
        | _ => let half := Nat.div2 len in
               let mid := (first + half)%nat in
               if ltb (c_mean (cnth l mid)) v then lower_bound f l v (S mid) (len - half - 1)%nat
               else lower_bound f l v first half
        end
    end.
  Fixpoint upper_bound (fuel : nat) (l : list centroid) (v : T) (first len : nat) : nat :=
    match fuel with
    | 0%nat => first
    | S f =>
        match len with
        | 0%nat => first
        | _ => let half := Nat.div2 len in
               let mid := (first + half)%nat in
               if ltb v (c_mean (cnth l mid)) then upper_bound f l v first half
               else upper_bound f l v (S mid) (len - half - 1)%nat
        end
    end.

  Definition wsum (l : list centroid) (acc : T) : T := fold_left (fun a c => add a (ofZ (c_w c))) l acc.

  (* the part of get_rank after compress(); None = an exception is thrown *)
  Definition rank_core (mn mx : T) (cs : list centroid) (cw : Z) (v : T) : option T :=
    let cwn := ofZ cw in
    let first := cnth cs 0 in
    let first_mean := c_mean first in
    if ltb v first_mean then
      (if ltb n0 (sub first_mean mn) then
         (if eqb v mn then Some (div nhalf cwn)
          else Some (add n1 (mul (div (sub v mn) (sub first_mean mn)) (sub (div (ofZ (c_w first)) n2) n1))))
       else Some n0)
    else
    let lastc := last_c cs dflt in
    let last_mean := c_mean lastc in
    if ltb last_mean v then
      (if ltb n0 (sub mx last_mean) then
         (if eqb v mx then Some (sub n1 (div nhalf cwn))
          else Some (sub n1 (div (add n1 (mul (div (sub mx v) (sub mx last_mean)) (sub (div (ofZ (c_w lastc)) n2) n1))) cwn)))
       else Some n1)
    else
    let n := length cs in
    let lower := lower_bound n cs v 0 n in
    if Nat.eqb lower n then None else
    let upper := upper_bound n cs v lower (n - lower) in
    if Nat.eqb upper 0 then None else
    let lower := if ltb v (c_mean (cnth cs lower)) then (lower - 1)%nat else lower in
    let upper := if Nat.eqb upper n || negb (ltb (c_mean (cnth cs (upper - 1))) v) then (upper - 1)%nat else upper in
    let lo := cnth cs lower in
    let up := cnth cs upper in
    let weight_below := add (wsum (firstn lower cs) n0) (div (ofZ (c_w lo)) n2) in
    let weight_delta := wsum (firstn (upper - lower) (skipn lower cs)) n0 in
    let weight_delta := sub weight_delta (div (ofZ (c_w lo)) n2) in
    let weight_delta := add weight_delta (div (ofZ (c_w up)) n2) in
    let dm := sub (c_mean up) (c_mean lo) in
    if ltb n0 dm then
      Some (div (add weight_below (div (mul weight_delta (sub v (c_mean lo))) dm)) cwn)
    else Some (div (add weight_below (div weight_delta n2)) cwn).

  Definition td_rank (s : td) (v : T) : td * option T :=
    if td_is_empty s then (s, None) else
    if nisnan Ops v then (s, None) else
    if ltb v (t_min s) then (s, Some n0) else
    if ltb (t_max s) v then (s, Some n1) else
    if (length (t_cents s) + length (t_buf s) =? 1)%nat then (s, Some nhalf) else
    let s' := td_compress s in
    (s', rank_core (t_min s') (t_max s') (t_cents s') (t_cw s') v).

  (* weighted_average, as REPAIRED by fixes/17_weighted_average_clamp.patch: the result is clamped to
     [min(x1,x2), max(x1,x2)] as in the reference implementation (the unclamped form is kept in Regression_tdigest.v) *)
  Definition weighted_average (x1 w1 x2 w2 : T) : T :=
    let x := div (add (mul x1 w1) (mul x2 w2)) (add w1 w2) in
    let lo := nmin x1 x2 in
    let hi := nmax x1 x2 in
    if ltb x lo then lo else if ltb hi x then hi else x.

  (* the interpolation loop of get_quantile over consecutive centroids; None = fell through *)
  Fixpoint q_loop (cs : list centroid) (weight wsf : T) : option T :=
    match cs with
    | ci :: ((cj :: _) as t) =>
        let dw := div (ofZ (c_w ci + c_w cj)) n2 in
        if ltb weight (add wsf dw) then
          let l1 := (c_w ci =? 1) in
          let r1 := (c_w cj =? 1) in
          if l1 && ltb (sub weight wsf) nhalf then Some (c_mean ci) else
          let left_weight := if l1 then nhalf else n0 in
          if r1 && leb (sub (add wsf dw) weight) nhalf then Some (c_mean cj) else
          let right_weight := if r1 then nhalf else n0 in
          let w1 := sub (sub weight wsf) left_weight in
          let w2 := sub (sub (add wsf dw) weight) right_weight in
          (* REPAIRED by fixes/17_quantile_weights.patch: centroid i gets the distance to centroid i+1 and vice versa
             (the code as found passed w1, w2 the other way round; kept in Regression_tdigest.v) *)
          Some (weighted_average (c_mean ci) w2 (c_mean cj) w1)
        else q_loop t weight (add wsf dw)
    | _ => None
    end.

  (* the part of get_quantile after compress() *)
  Definition quantile_core (mn mx : T) (cs : list centroid) (cw : Z) (rank : T) : T :=
    let first := cnth cs 0 in
    if (length cs =? 1)%nat then c_mean first else
    let cwn := ofZ cw in
    let weight := mul rank cwn in
    if ltb weight n1 then mn else
    if ltb (sub cwn n1) weight then mx else
    let first_weight := ofZ (c_w first) in
    if ltb n1 first_weight && ltb weight (div first_weight n2) then
      add mn (mul (div (sub weight n1) (sub (div first_weight n2) n1)) (sub (c_mean first) mn))
    else
    let lastc := last_c cs dflt in
    let last_weight := ofZ (c_w lastc) in
    if ltb n1 last_weight && leb (sub cwn weight) (div last_weight n2) then
      add mx (mul (div (sub (sub cwn weight) n1) (sub (div last_weight n2) n1)) (sub mx (c_mean lastc)))
    else
    match q_loop cs weight (div first_weight n2) with
    | Some r => r
    | None =>
        let w1 := sub (sub weight cwn) (div (ofZ (c_w lastc)) n2) in
        let w2 := sub (div (ofZ (c_w lastc)) n2) w1 in
        weighted_average (ofZ (c_w lastc)) w1 mx w2
    end.

  Definition td_quantile (s : td) (rank : T) : td * option T :=
    if td_is_empty s then (s, None) else
    if ltb rank n0 || ltb n1 rank then (s, None) else
    let s' := td_compress s in
    (s', Some (quantile_core (t_min s') (t_max s') (t_cents s') (t_cw s') rank)).

  (* check_split_points: NaN or not strictly increasing -> throws *)
  Fixpoint split_ok (l : list T) : bool :=
    match l with
    | [] => true
    | x :: t => negb (nisnan Ops x) && match t with [] => true | y :: _ => ltb x y end && split_ok t
    end.

  Fixpoint ranks (s : td) (l : list T) : td * option (list T) :=
    match l with
    | [] => (s, Some [])
    | x :: t => match td_rank s x with
                | (s', None) => (s', None)
                | (s', Some r) => match ranks s' t with
                                  | (s'', None) => (s'', None)
                                  | (s'', Some rs) => (s'', Some (r :: rs))
                                  end
                end
    end.

  (* REPAIRED by fixes/17_empty_cdf.patch: an empty digest is refused up front (as found, the emptiness test lived only in
     get_rank, so zero split points on an empty digest returned {1}) *)
  Definition td_cdf (s : td) (l : list T) : td * option (list T) :=
    if td_is_empty s then (s, None) else
    if split_ok l then
      match ranks s l with
      | (s', Some rs) => (s', Some (rs ++ [n1]))
      | r => r
      end
    else (s, None).

  (* buckets[i] -= buckets[i-1] for i = size .. 1 *)
  Fixpoint diffs (prev : T) (l : list T) : list T :=
    match l with
    | [] => []
    | x :: t => sub x prev :: diffs x t
    end.
  Definition td_pmf (s : td) (l : list T) : td * option (list T) :=
    match td_cdf s l with
    | (s', Some (c0 :: t)) => (s', Some (c0 :: diffs c0 t))
    | r => r
    end.

  (* serialize (with or without the buffer) followed by deserialize: what the new object holds; the source object is
     compressed first when with_buffer = false *)
  Definition td_ser_src (s : td) (with_buffer : bool) : td := if with_buffer then s else td_compress s.
  Definition sum_w (l : list centroid) : Z := fold_left (fun a c => a + c_w c) l 0.
  Definition td_deser (s : td) : option td :=
    if td_is_empty s then td_new (t_k s)
    else if td_total s =? 1 then
      td_make (t_rev s) (t_k s) (t_min s) (t_min s) [single (t_min s)] 1 []
    else td_make (t_rev s) (t_k s) (t_min s) (t_max s) (t_cents s) (sum_w (t_cents s)) (t_buf s).

  (* ---------- line protocol ---------- *)
  Variable ofbits : Z -> T.
  Variable tobits : T -> Z.

  (* L0 ghost state beside each register: number of accepted values and their extremes, computed from the values alone *)
  Record full := { f_td : td; f_n : Z; f_min : T; f_max : T }.

  Definition upd_ghost (f : full) (v : T) (s' : td) : full :=
    if nisnan Ops v then {| f_td := s'; f_n := f_n f; f_min := f_min f; f_max := f_max f |}
    else {| f_td := s'; f_n := f_n f + 1; f_min := nmin (f_min f) v; f_max := nmax (f_max f) v |}.

  Definition with_td (f : full) (s' : td) : full := {| f_td := s'; f_n := f_n f; f_min := f_min f; f_max := f_max f |}.

  Definition dump (s : td) : line :=
    if td_is_empty s then [0; 0]
    else if td_total s =? 1 then
      [1; tobits (t_min s); 1; 0]              (* single value: the wire form does not say where it is held *)
    else
      nz (length (t_cents s)) :: flat_map (fun c => [tobits (c_mean c); c_w c]) (t_cents s)
      ++ nz (length (t_buf s)) :: map tobits (t_buf s).

  Definition out_opt (s : list (Z * full)) (r : Z) (f : full) (p : td * option (list T)) : list (Z * full) * outline :=
    let '(s', res) := p in
    (reg_set s r (with_td f s'), (match res with Some l => map tobits l | None => refused end, [])).

  Definition step (s : list (Z * full)) (o e : line) : list (Z * full) * outline :=
    match o with
    | 1 :: r :: k :: _ =>                                    (* new tdigest(k) *)
        match td_new k with
        | Some t => (reg_set s r {| f_td := t; f_n := 0; f_min := npinf Ops; f_max := nninf Ops |}, (ok, []))
        | None => (s, (refused, []))
        end
    | 2 :: r :: vals =>                                      (* update with each value *)
        match reg_get s r with
        | Some f =>
            let f' := fold_left (fun f b => let v := ofbits b in upd_ghost f v (td_update (f_td f) v)) vals f in
            (reg_set s r f', (ok, []))
        | None => (s, (refused, []))
        end
    | 4 :: r :: r2 :: _ =>                                   (* merge r2 into r *)
        match reg_get s r, reg_get s r2 with
        | Some f, Some g =>
            (reg_set s r {| f_td := td_merge (f_td f) (f_td g); f_n := f_n f + f_n g;
                            f_min := nmin (f_min f) (f_min g); f_max := nmax (f_max f) (f_max g) |}, (ok, []))
        | _, _ => (s, (refused, []))
        end
    | 5 :: r :: _ =>                                         (* is_empty, total weight, min, max *)
        match reg_get s r with
        | Some f =>
            let t := f_td f in
            if td_is_empty t then (s, ([1; td_total t; 1; 1], [f_n f]))   (* get_min_value / get_max_value refused *)
            else (s, ([0; td_total t; tobits (t_min t); tobits (t_max t)], [f_n f; tobits (f_min f); tobits (f_max f)]))
        | None => (s, (refused, []))
        end
    | 6 :: r :: b :: _ =>                                    (* get_rank *)
        match reg_get s r with
        | Some f => let '(t', res) := td_rank (f_td f) (ofbits b) in
                    out_opt s r f (t', option_map (fun x => [x]) res)
        | None => (s, (refused, []))
        end
    | 7 :: r :: b :: _ =>                                    (* get_quantile *)
        match reg_get s r with
        | Some f => let '(t', res) := td_quantile (f_td f) (ofbits b) in
                    out_opt s r f (t', option_map (fun x => [x]) res)
        | None => (s, (refused, []))
        end
    | 8 :: r :: pts =>                                       (* get_CDF *)
        match reg_get s r with
        | Some f => out_opt s r f (td_cdf (f_td f) (map ofbits pts))
        | None => (s, (refused, []))
        end
    | 9 :: r :: pts =>                                       (* get_PMF *)
        match reg_get s r with
        | Some f => out_opt s r f (td_pmf (f_td f) (map ofbits pts))
        | None => (s, (refused, []))
        end
    | 10 :: r :: _ =>                                        (* compress *)
        match reg_get s r with
        | Some f => (reg_set s r (with_td f (td_compress (f_td f))), (ok, []))
        | None => (s, (refused, []))
        end
    | 11 :: r :: _ =>                                        (* centroids and buffer as serialized (with buffer) *)
        match reg_get s r with
        | Some f => (s, (dump (f_td f), []))
        | None => (s, (refused, []))
        end
    | 12 :: r :: r2 :: wb :: _ =>                            (* r2 := deserialize(serialize(r, with_buffer = wb)) *)
        match reg_get s r with
        | Some f =>
            let src := td_ser_src (f_td f) (negb (wb =? 0)) in
            let s1 := reg_set s r (with_td f src) in
            match td_deser src with
            | Some t => (reg_set s1 r2 (with_td f t), (ok, []))
            | None => (s1, (refused, []))
            end
        | None => (s, (refused, []))
        end
    | _ => (s, ([-2], []))
    end.

  Definition run_gen (ops : list opline) : list outline := run_case step [] ops.
End Model.

(* ---------- instance 1: binary64 ---------- *)
Definition fops (ln : PrimFloat.float -> PrimFloat.float) : numops := {|
  num := PrimFloat.float;
  nofZ := fun z => PrimFloat.of_uint63 (Uint63.of_Z z);
  nadd := PrimFloat.add; nsub := PrimFloat.sub; nmul := PrimFloat.mul; ndiv := PrimFloat.div;
  nltb := PrimFloat.ltb; nleb := PrimFloat.leb; neqb := PrimFloat.eqb;
  nisnan := PrimFloat.is_nan;
  nln := ln;
  npinf := PrimFloat.infinity; nninf := PrimFloat.neg_infinity |}.

(* the runner supplies the logarithm *)
Definition run (ln : PrimFloat.float -> PrimFloat.float) (ops : list opline) : list outline :=
  run_gen (fops ln) bits_to_float float_to_bits ops.

(* ---------- instance 2: exact rationals ----------
   [ln] is an arbitrary function (the theorems hold for every normaliser); pinf / ninf stand for the infinities that
   initialise min_ / max_: the theorems assume every streamed value lies in [ninf, pinf]. *)
Definition qops (ln : Q -> Q) (pinf ninf : Q) : numops := {|
  num := Q;
  nofZ := inject_Z;
  nadd := Qplus; nsub := Qminus; nmul := Qmult; ndiv := Qdiv;
  nltb := fun a b => negb (Qle_bool b a); nleb := Qle_bool; neqb := Qeq_bool;
  nisnan := fun _ => false;
  nln := ln;
  npinf := pinf; nninf := ninf |}.
