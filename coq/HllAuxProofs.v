(* HllAuxProofs.v — AuxHashMap seen as a finite map slot -> value.
   [arep lgk ax f]: the (optional) aux map [ax] holds exactly the pairs (s, v) with f s = Some v.
   mustFindValueFor / mustReplace / mustAdd (with growth) are total on the states the invariant allows
   and implement lookup / overwrite / extension of f. *)
From Coq Require Import ZArith NArith List Bool Lia Permutation.
From DS Require Import Word RunnerLib HllDefs HllProofs HllOpenAddr.
Import ListNotations.
Local Open Scope N_scope.

Definition akey (lgk e : N) : N := N.land e (N.ones lgk).
Definition aiskey (lgk k e : N) : bool := N.land e (N.ones lgk) =? k.
Definition ahome (lg s : N) : N := N.land s (N.ones lg).

Lemma aiskey_spec lgk k e : aiskey lgk k e = true <-> akey lgk e = k.
Proof. unfold aiskey, akey. apply N.eqb_eq. Qed.

Lemma aux_stride_odd lg s : N.odd (aux_stride lg s) = true.
Proof. unfold aux_stride. rewrite <- N.bit0_odd, N.lor_spec. apply orb_true_r. Qed.

Lemma ahome_lt lg s : ahome lg s < 2 ^ lg.
Proof. unfold ahome. rewrite N.land_ones. apply N.mod_lt, N.pow_nonzero. discriminate. Qed.

Definition afind (lg lgk : N) := find lg (aiskey lgk) (ahome lg) (aux_stride lg).

Lemma aux_find_in_eq ent lg lgk s : aux_find_in ent lg lgk s = afind lg lgk s ent.
Proof. reflexivity. Qed.

Definition atinv (lg lgk : N) := tinv lg (akey lgk) (ahome lg) (aux_stride lg).

(* ---------- pairs ---------- *)
Lemma pair_sv_val s v : c_val (pair_sv s v) = v.
Proof.
  unfold c_val, pair_sv. rewrite N.shiftr_lor, N.shiftr_shiftl_l by lia. rewrite N.sub_diag, N.shiftl_0_r.
  replace (N.shiftr (N.land s mask26) 26) with 0; [apply N.lor_0_r|].
  symmetry. rewrite N.shiftr_div_pow2. apply N.div_small.
  change mask26 with (N.ones 26). rewrite N.land_ones. apply N.mod_lt. discriminate.
Qed.

Lemma pair_sv_key lgk s v : lgk <= 26 -> s < 2 ^ lgk -> akey lgk (pair_sv s v) = s.
Proof.
  intros Hl Hs. unfold akey, pair_sv. rewrite N.land_lor_distr_l.
  replace (N.land (N.shiftl v 26) (N.ones lgk)) with 0.
  2:{ symmetry. apply N.bits_inj. intros t. rewrite N.land_spec, N.bits_0, ones_testbit.
      destruct (N.ltb_spec t lgk); [|apply andb_false_r]. rewrite N.shiftl_spec_low by lia. reflexivity. }
  rewrite N.lor_0_l. change mask26 with (N.ones 26). rewrite !N.land_ones.
  assert (s < 2 ^ 26) by (eapply N.lt_le_trans; [exact Hs|apply N.pow_le_mono_r; lia]).
  rewrite (N.mod_small s (2 ^ 26)) by assumption. now apply N.mod_small.
Qed.

Lemma pair_sv_slot lgk s v : lgk <= 26 -> s < 2 ^ lgk -> N.land (c_low26 (pair_sv s v)) (N.ones lgk) = s.
Proof.
  intros Hl Hs. unfold c_low26. change mask26 with (N.ones 26).
  rewrite <- N.land_assoc. replace (N.land (N.ones 26) (N.ones lgk)) with (N.ones lgk).
  - now apply pair_sv_key.
  - apply N.bits_inj. intros t. rewrite N.land_spec, !ones_testbit.
    destruct (N.ltb_spec t lgk), (N.ltb_spec t 26); auto; lia.
Qed.

Lemma pair_sv_nz s v : 0 < v -> pair_sv s v <> 0.
Proof. intros Hv E. pose proof (pair_sv_val s v) as H. rewrite E in H. unfold c_val in H. simpl in H. lia. Qed.

(* ---------- well-formed aux maps ---------- *)
Definition wf_entry (lgk e : N) : Prop := exists s v, e = pair_sv s v /\ s < 2 ^ lgk /\ 15 <= v /\ v < 64.

Record auxinv (lgk : N) (a : auxmap) : Prop := {
  ai_lgk : lgk <= 26;
  ai_lg : 1 <= a_lg a;
  ai_tinv : atinv (a_lg a) lgk (a_ent a);
  ai_cnt : a_cnt a = lenN (nonzero (a_ent a));
  ai_load : 4 * a_cnt a <= 3 * 2 ^ a_lg a;
  ai_nodup : NoDup (map (akey lgk) (nonzero (a_ent a)));
  ai_wf : Forall (wf_entry lgk) (nonzero (a_ent a));
  ai_small : a_lg a <= lgk + 1
}.

Definition aents (ax : option auxmap) : list N :=
  match ax with Some a => nonzero (a_ent a) | None => [] end.

Definition arep (lgk : N) (ax : option auxmap) (f : N -> option N) : Prop :=
  match ax with Some a => auxinv lgk a | None => True end /\
  forall s v, f s = Some v <-> (s < 2 ^ lgk /\ 15 <= v /\ v < 64 /\ In (pair_sv s v) (aents ax)).

Lemma arep_ext lgk ax f g : arep lgk ax f -> (forall s, f s = g s) -> arep lgk ax g.
Proof. intros [Hi Hf] E. split; auto. intros s v. rewrite <- E. apply Hf. Qed.

Lemma arep_none lgk : arep lgk None (fun _ => None).
Proof. split; auto. intros s v. simpl. split; [discriminate|tauto]. Qed.

Lemma wf_entry_facts lgk e : lgk <= 26 -> wf_entry lgk e ->
  e <> 0 /\ akey lgk e < 2 ^ lgk /\ 15 <= c_val e /\ c_val e < 64 /\ e = pair_sv (akey lgk e) (c_val e).
Proof.
  intros Hl (s & v & -> & Hs & Hv1 & Hv2). rewrite pair_sv_val, pair_sv_key by auto.
  repeat split; auto. apply pair_sv_nz. lia.
Qed.

Lemma lg_aux_ge lgk : 4 <= lgk -> lgk <= 21 -> 2 <= lg_aux_arr_ints lgk.
Proof.
  intros H1 H2. unfold lg_aux_arr_ints.
  assert (Hn : (4 <= N.to_nat lgk <= 21)%nat) by lia. revert Hn. generalize (N.to_nat lgk). intros n Hn.
  do 22 (destruct n as [|n]; [simpl; lia|]). lia.
Qed.

Lemma lg_aux_le lgk : 4 <= lgk -> lgk <= 21 -> lg_aux_arr_ints lgk <= lgk + 1.
Proof.
  intros H1 H2. unfold lg_aux_arr_ints.
  assert (Hn : (4 <= N.to_nat lgk <= 21)%nat) by lia.
  replace lgk with (N.of_nat (N.to_nat lgk)) at 2 by lia. revert Hn. generalize (N.to_nat lgk). intros n Hn.
  do 22 (destruct n as [|n]; [simpl; lia|]). lia.
Qed.

(* distinct keys below 2^lgk: at most 2^lgk of them *)
Lemma keys_count_le lgk (es : list N) : lgk <= 26 -> NoDup (map (akey lgk) es) -> Forall (wf_entry lgk) es -> lenN es <= 2 ^ lgk.
Proof.
  intros Hk Hnd Hwf.
  assert (Hl : (length (map (akey lgk) es) <= length (seqN (2 ^ lgk)))%nat).
  { apply NoDup_incl_length; [exact Hnd|]. intros x Hx. apply in_map_iff in Hx. destruct Hx as (e & <- & He).
    rewrite Forall_forall in Hwf. apply in_seqN. apply (wf_entry_facts lgk e Hk (Hwf e He)). }
  rewrite map_length in Hl. pose proof (seqN_length (2 ^ lgk)) as Hs. unfold lenN in *. lia.
Qed.

Section WithLgk.
  Variable lgk : N.
  Hypothesis lgk_lo : 4 <= lgk.
  Hypothesis lgk_hi : lgk <= 21.

  Lemma auxinv_new : auxinv lgk (aux_new lgk).
  Proof.
    pose proof (lg_aux_ge lgk lgk_lo lgk_hi) as Hlg.
    constructor; unfold aux_new; cbn [a_lg a_cnt a_ent]; try rewrite nonzero_zeros; try (simpl; lia).
    - apply tinv_zeros.
    - reflexivity.
    - constructor.
    - constructor.
    - now apply lg_aux_le.
  Qed.

  Lemma arep_new : arep lgk (Some (aux_new lgk)) (fun _ => None).
  Proof.
    split; [apply auxinv_new|]. intros s v. unfold aents, aux_new. cbn [a_ent]. rewrite nonzero_zeros.
    simpl. split; [discriminate|tauto].
  Qed.

  (* an entry with key s in a well-formed table is the pair (s, its value) *)
  Lemma entry_of_key a e s : auxinv lgk a -> In e (nonzero (a_ent a)) -> akey lgk e = s ->
    e = pair_sv s (c_val e) /\ s < 2 ^ lgk /\ 15 <= c_val e /\ c_val e < 64.
  Proof.
    intros Hi He Hk. pose proof (ai_wf _ _ Hi) as Hw. rewrite Forall_forall in Hw.
    destruct (wf_entry_facts lgk e ltac:(lia) (Hw e He)) as (_ & H1 & H2 & H3 & H4). subst s. auto.
  Qed.

  Lemma rep_lookup a f s v : arep lgk (Some a) f -> f s = Some v ->
    exists i, i < 2 ^ a_lg a /\ getN (a_ent a) i = pair_sv s v /\ afind (a_lg a) lgk s (a_ent a) = Found i.
  Proof.
    intros [Hi Hf] Hs. apply Hf in Hs. destruct Hs as (Hsk & Hv1 & Hv2 & Hin). cbn [aents] in Hin.
    apply nonzero_In in Hin. destruct Hin as [Hin Hnz].
    destruct (In_getN _ _ Hin) as (i & Hil & Hg).
    pose proof (ai_tinv _ _ Hi) as Ht. pose proof Ht as (Hl & _).
    exists i. split; [lia|]. split; [exact Hg|].
    apply (find_found (a_lg a) (akey lgk) (aiskey lgk) (aiskey_spec lgk) (ahome (a_lg a)) (aux_stride (a_lg a))
             (aux_stride_odd (a_lg a)) (ahome_lt (a_lg a)));
      [exact Ht|lia|now rewrite Hg|rewrite Hg; apply pair_sv_key; lia].
  Qed.

  Lemma must_find_ok a f s v : arep lgk (Some a) f -> f s = Some v -> aux_must_find a lgk s = Some v.
  Proof.
    intros Hr Hs. destruct (rep_lookup a f s v Hr Hs) as (i & _ & Hg & Hf).
    unfold aux_must_find, aux_find. rewrite aux_find_in_eq, Hf, Hg. now rewrite pair_sv_val.
  Qed.

  (* keys are unique: the entries with key s *)
  Lemma key_unique_in l e1 e2 : NoDup (map (akey lgk) l) -> In e1 l -> In e2 l -> akey lgk e1 = akey lgk e2 -> e1 = e2.
  Proof.
    induction l as [|x t IH]; intros Hnd H1 H2 Hk; [contradiction|].
    inversion Hnd as [|? ? Hnin Hnd']; subst.
    destruct H1 as [<-|H1], H2 as [<-|H2]; auto.
    - exfalso. apply Hnin. rewrite Hk. now apply in_map.
    - exfalso. apply Hnin. rewrite <- Hk. now apply in_map.
  Qed.

  Lemma must_replace_ok a f s v v' : arep lgk (Some a) f -> f s = Some v -> 15 <= v' -> v' < 64 ->
    exists a', aux_must_replace a lgk s v' = Some a' /\
               arep lgk (Some a') (fun t => if t =? s then Some v' else f t).
  Proof.
    intros Hr Hs Hv1 Hv2. destruct (rep_lookup a f s v Hr Hs) as (i & Hi & Hg & Hf).
    destruct Hr as [Hinv Hrep]. pose proof (proj1 (Hrep s v) Hs) as (Hsk & Hvo1 & Hvo2 & _).
    unfold aux_must_replace, aux_find. rewrite aux_find_in_eq, Hf. eexists. split; [reflexivity|].
    pose proof (ai_tinv _ _ Hinv) as Ht. pose proof Ht as (Hl & _).
    assert (Hnz' : pair_sv s v' <> 0) by (apply pair_sv_nz; lia).
    assert (Hgnz : getN (a_ent a) i <> 0) by (rewrite Hg; apply pair_sv_nz; lia).
    destruct (nonzero_replace (a_ent a) i (pair_sv s v') ltac:(lia) Hgnz Hnz') as (l1 & l2 & E1 & E2).
    rewrite Hg in E1.
    assert (Hkeys : map (akey lgk) (l1 ++ pair_sv s v' :: l2) = map (akey lgk) (l1 ++ pair_sv s v :: l2)).
    { rewrite !map_app. cbn [map]. rewrite !pair_sv_key by lia. reflexivity. }
    split.
    - constructor; cbn [a_lg a_cnt a_ent].
      + apply (ai_lgk _ _ Hinv).
      + apply (ai_lg _ _ Hinv).
      + apply (replace_tinv (a_lg a) (akey lgk) (ahome (a_lg a)) (aux_stride (a_lg a))); auto.
        rewrite Hg, !pair_sv_key by lia. reflexivity.
      + rewrite (ai_cnt _ _ Hinv), E1, E2. unfold lenN. rewrite !app_length. reflexivity.
      + apply (ai_load _ _ Hinv).
      + rewrite E2, Hkeys, <- E1. apply (ai_nodup _ _ Hinv).
      + pose proof (ai_wf _ _ Hinv) as Hw. rewrite E1 in Hw. rewrite E2.
        apply Forall_app in Hw. destruct Hw as [W1 W2]. inversion W2; subst.
        apply Forall_app. split; auto. constructor; auto. exists s, v'. auto.
      + apply (ai_small _ _ Hinv).
    - intros t w. cbn [aents a_ent]. rewrite E2.
      pose proof (ai_nodup _ _ Hinv) as Hnd. rewrite E1 in Hnd.
      destruct (N.eqb_spec t s) as [->|Hne].
      + split.
        * intros E. inversion E; subst. repeat split; auto. apply in_or_app. right. left. reflexivity.
        * intros (_ & _ & _ & Hin). f_equal.
          assert (Hin' : In (pair_sv s w) (l1 ++ pair_sv s v' :: l2)) by exact Hin.
          assert (pair_sv s v' = pair_sv s w).
          { apply (key_unique_in (l1 ++ pair_sv s v' :: l2)); auto.
            - rewrite Hkeys. exact Hnd.
            - apply in_or_app. right. left. reflexivity.
            - rewrite !pair_sv_key by lia. reflexivity. }
          rewrite <- (pair_sv_val s v'), H. apply pair_sv_val.
      + rewrite Hrep. cbn [aents]. rewrite E1.
        assert (Hd : forall x, pair_sv t w <> pair_sv s x \/ ~ t < 2 ^ lgk).
        { intros x. destruct (N.lt_ge_cases t (2 ^ lgk)); [left|right; lia].
          intros C. apply Hne. rewrite <- (pair_sv_key lgk t w), C by lia. apply pair_sv_key; lia. }
        split; intros (A & B & C & D); repeat split; auto; apply in_app_or in D; apply in_or_app;
          (destruct D as [D|[D|D]]; [now left| |right; now right]); exfalso;
          (destruct (Hd v) as [X|X]; destruct (Hd v') as [Y|Y]; try (now apply X); try (now apply Y); congruence).
  Qed.

  Lemma absent_of_none a f s : arep lgk (Some a) f -> f s = None -> s < 2 ^ lgk ->
    forall x, In x (nonzero (a_ent a)) -> akey lgk x <> s.
  Proof.
    intros [Hinv Hrep] Hn Hs x Hx Hk.
    destruct (entry_of_key a x s Hinv Hx Hk) as (E & _ & V1 & V2).
    assert (f s = Some (c_val x)) by (apply Hrep; repeat split; auto; cbn [aents]; now rewrite <- E).
    congruence.
  Qed.

  Lemma rep_after_insert (ents ents' : list N) f s v :
    (forall x, In x ents' <-> x = pair_sv s v \/ In x ents) ->
    s < 2 ^ lgk -> 15 <= v -> v < 64 -> f s = None ->
    (forall t w, f t = Some w <-> t < 2 ^ lgk /\ 15 <= w /\ w < 64 /\ In (pair_sv t w) ents) ->
    forall t w, (if t =? s then Some v else f t) = Some w <-> t < 2 ^ lgk /\ 15 <= w /\ w < 64 /\ In (pair_sv t w) ents'.
  Proof.
    intros Hin Hs Hv1 Hv2 Hn Hrep t w. rewrite Hin.
    destruct (N.eqb_spec t s) as [->|Hne].
    - split.
      + intros E. inversion E; subst. repeat split; auto.
      + intros (_ & W1 & W2 & [E|Hold]).
        * f_equal. rewrite <- (pair_sv_val s v), <- E. apply pair_sv_val.
        * exfalso. assert (f s = Some w) by (apply Hrep; auto). congruence.
    - rewrite Hrep. split; intros (A & B & C & D); repeat split; auto.
      destruct D as [E|D]; auto. exfalso. apply Hne.
      rewrite <- (pair_sv_key lgk t w), E by lia. apply pair_sv_key; lia.
  Qed.

  Lemma must_add_ok ax f s v : arep lgk ax f -> f s = None -> s < 2 ^ lgk -> 15 <= v -> v < 64 ->
    exists a', aux_must_add (aux_or_new ax lgk) lgk s v = Some a' /\
               arep lgk (Some a') (fun t => if t =? s then Some v else f t).
  Proof.
    intros Hr Hn Hs Hv1 Hv2.
    assert (Hr' : arep lgk (Some (aux_or_new ax lgk)) f).
    { destruct ax as [a|]; [exact Hr|]. cbn [aux_or_new].
      apply arep_ext with (f := fun _ => None); [apply arep_new|].
      intros t. destruct (f t) as [w|] eqn:E; auto. apply (proj2 Hr) in E. cbn [aents] in E. destruct E as (_ & _ & _ & []). }
    clear Hr. set (a := aux_or_new ax lgk) in *. destruct Hr' as [Hinv Hrep].
    pose proof (absent_of_none a f s (conj Hinv Hrep) Hn Hs) as Habs.
    pose proof (ai_tinv _ _ Hinv) as Ht. pose proof Ht as (Hl & _).
    pose proof (ai_cnt _ _ Hinv) as Hc. pose proof (ai_load _ _ Hinv) as Hld. pose proof (ai_lg _ _ Hinv) as Hlg.
    assert (HM : 2 <= 2 ^ a_lg a).
    { change 2 with (2 ^ 1) at 1. apply N.pow_le_mono_r; lia. }
    destruct (find_absent (a_lg a) (akey lgk) (aiskey lgk) (aiskey_spec lgk) (ahome (a_lg a)) (aux_stride (a_lg a))
                (aux_stride_odd (a_lg a)) (ahome_lt (a_lg a)) (a_ent a) s Ht) as (i & j0 & Hf & Hi & Hz & _).
    { apply keys_absent. exact Habs. }
    { destruct (exists_empty (a_ent a) ltac:(lia)) as (ie & Hie & Hze). exists ie. split; [lia|auto]. }
    assert (Hnz : pair_sv s v <> 0) by (apply pair_sv_nz; lia).
    assert (Hkey : akey lgk (pair_sv s v) = s) by (apply pair_sv_key; lia).
    assert (Hf' : find (a_lg a) (aiskey lgk) (ahome (a_lg a)) (aux_stride (a_lg a)) (akey lgk (pair_sv s v)) (a_ent a) = Empty i)
      by (rewrite Hkey; exact Hf).
    pose proof (insert_tinv (a_lg a) (akey lgk) (aiskey lgk) (aiskey_spec lgk) (ahome (a_lg a)) (aux_stride (a_lg a))
                  (aux_stride_odd (a_lg a)) (ahome_lt (a_lg a)) (a_ent a) (pair_sv s v) i Ht Hnz Hf') as Ht'.
    destruct (nonzero_fill (a_ent a) i (pair_sv s v) ltac:(lia) Hz Hnz) as (l1 & l2 & E1 & E2).
    set (ent' := setN (a_ent a) i (pair_sv s v)) in *.
    assert (Hin' : forall x, In x (nonzero ent') <-> x = pair_sv s v \/ In x (nonzero (a_ent a))).
    { intros x. rewrite E1, E2, !in_app_iff. cbn [In]. intuition. }
    assert (Hnd' : NoDup (map (akey lgk) (nonzero ent'))).
    { rewrite E2, map_app. cbn [map].
      apply (proj2 (NoDup_Add (Add_app (akey lgk (pair_sv s v)) (map (akey lgk) l1) (map (akey lgk) l2)))).
      rewrite <- map_app, <- E1. split; [apply (ai_nodup _ _ Hinv)|].
      rewrite Hkey. intros C. apply in_map_iff in C. destruct C as (x & Hx & Hin). now apply (Habs x Hin). }
    assert (Hwf' : Forall (wf_entry lgk) (nonzero ent')).
    { apply Forall_forall. intros x Hx. apply Hin' in Hx. destruct Hx as [->|Hx].
      - exists s, v. auto.
      - pose proof (ai_wf _ _ Hinv) as Hw. rewrite Forall_forall in Hw. now apply Hw. }
    assert (Hlen' : lenN (nonzero ent') = a_cnt a + 1).
    { rewrite Hc, E1, E2. unfold lenN. rewrite !app_length. cbn [length]. lia. }
    unfold aux_must_add.
    change (aux_find a lgk s) with (find (a_lg a) (aiskey lgk) (ahome (a_lg a)) (aux_stride (a_lg a)) s (a_ent a)).
    rewrite Hf. fold ent'.
    destruct (N.ltb_spec (3 * 2 ^ a_lg a) (4 * (a_cnt a + 1))) as [Hgrow|Hstay].
    - (* grow: re-hash into a table of twice the size *)
      destruct (rehash_ok (a_lg a + 1) (akey lgk) (aiskey lgk) (aiskey_spec lgk) (ahome (a_lg a + 1)) (aux_stride (a_lg a + 1))
                  (aux_stride_odd (a_lg a + 1)) (ahome_lt (a_lg a + 1)) (nonzero ent') (zerosN (2 ^ (a_lg a + 1))))
        as (ne & Hfold & Htn & Hperm).
      + apply tinv_zeros.
      + intros e He. apply nonzero_In in He. tauto.
      + exact Hnd'.
      + intros e x _ Hx. rewrite nonzero_zeros in Hx. contradiction.
      + rewrite nonzero_zeros, Hlen'. change (lenN []) with 0. rewrite N.pow_add_r. change (2 ^ 1) with 2. lia.
      + unfold aux_regrow. unfold rehash_step in Hfold. unfold find in Hfold.
        unfold aux_find_in, aiskey, ahome, akey in *. rewrite Hfold. eexists. split; [reflexivity|].
        rewrite nonzero_zeros, app_nil_r in Hperm.
        split.
        * constructor; cbn [a_lg a_cnt a_ent].
          -- apply (ai_lgk _ _ Hinv).
          -- lia.
          -- exact Htn.
          -- rewrite <- Hlen'. unfold lenN. f_equal. symmetry. apply Permutation_length. exact Hperm.
          -- rewrite N.pow_add_r. change (2 ^ 1) with 2. lia.
          -- eapply Permutation_NoDup; [|exact Hnd']. apply Permutation_map. now apply Permutation_sym.
          -- eapply Permutation_Forall; [|exact Hwf']. now apply Permutation_sym.
          -- pose proof (keys_count_le lgk (nonzero ent') ltac:(lia) Hnd' Hwf') as Hkc. rewrite Hlen' in Hkc.
             destruct (N.le_gt_cases (a_lg a) lgk) as [|Hgt]; [lia|]. exfalso.
             assert (Hp : 2 ^ (lgk + 1) <= 2 ^ a_lg a) by (apply N.pow_le_mono_r; lia).
             rewrite N.pow_add_r in Hp. change (2 ^ 1) with 2 in Hp. lia.
        * cbn [aents a_ent]. apply (rep_after_insert (nonzero (a_ent a)) (nonzero ne)); auto.
          intros x. rewrite <- Hin'. split; intros Hx.
          -- eapply Permutation_in; [exact Hperm|exact Hx].
          -- eapply Permutation_in; [apply Permutation_sym; exact Hperm|exact Hx].
    - eexists. split; [reflexivity|]. split.
      + constructor; cbn [a_lg a_cnt a_ent]; auto;
          try (apply (ai_lgk _ _ Hinv)); try (now symmetry); try lia; try (apply (ai_small _ _ Hinv)).
      + cbn [aents a_ent]. apply (rep_after_insert (nonzero (a_ent a)) (nonzero ent')); auto.
  Qed.
End WithLgk.
