(* CpcFlavorProofs.v — the per-flavor compressor of the CPC sketch (CpcFlavorDefs.v: compress_sketch / uncompress_sketch,
   the model of cpc_compressor_impl.hpp l.144-366) round-trips on every sketch that satisfies the sketch invariant
   [SInv] of CpcSketchInv.v: the window comes back identical and the rebuilt surprising-value table is a valid u32_table
   holding exactly the same set of pairs, for each of the five flavors EMPTY / SPARSE / HYBRID / PINNED / SLIDING.
   Assembled from the low-level theorems of CpcCodecProofs.v (surprising_values_rt, sliding_window_rt,
   sliding_phase_lt16), CpcCodecTables.v (permutation_inverse_left, permutation_range) and CpcTableProofs.v
   (make_from_pairs_spec).  New here: the insertion sort [sortN] sorts; [make_from_pairs] never fails on a duplicate-free
   list of valid pairs that fits the addressable table size (linear probing always finds an empty slot);
   tricky_get_pairs_from_window / uncompress_hybrid_flavor ([window_pairs] / [split_hybrid]) are inverse to each other.

   Main statements (end of file): flavor_codec_rt (+ _nonsliding), flavor_codec_partial, codec_roundtrip_state, compress_total,
   codec_roundtrip_total; also make_from_pairs_total and SInv_table_ext.

   Side conditions that are NOT consequences of [SInv] (both only matter for the SLIDING flavor; for the other flavors
   they are derived, lemma [small_table]):
   - [4 * t_num (table s) <= 3 * 2^(6+lg_k)]: u32_table::make_from_pairs sizes the new table at load <= 3/4; with more
     pairs than that lg_size exceeds num_valid_bits = 6 + lg_k and the shift in lookup() is undefined (None in the model).
     Needed for "uncompress succeeds", not for the partial-correctness statements.
   - [t_num (table s) <= 2^31]: side condition of surprising_values_rt (CpcCodecProofs.v).  It follows from the pairs being
     distinct numbers < 2^(6+lg_k) when lg_k <= 25, so it is only an extra hypothesis for lg_k = 26. *)
From Coq Require Import ZArith NArith List Bool Lia Sorted Permutation.
From DS.gen Require Import CpcTablesGen.
From DS Require Import Word Murmur3 RunnerLib CpcDefs CpcTableProofs CpcBits CpcSketchInv CpcProofs CpcUnionProofs
  CpcCodecTables CpcCodecDefs CpcCodecProofs CpcFlavorDefs.
Import ListNotations.
Local Open Scope N_scope.


(* ------------------------------------------------------------------------------------------ *)
(** * sortN (insertion sort) *)

Lemma insert_sorted_perm x l : Permutation (insert_sorted x l) (x :: l).
Proof.
  induction l as [|y r IH]; cbn [insert_sorted]; auto.
  destruct (x <=? y); auto.
  eapply perm_trans; [apply perm_skip, IH|apply perm_swap].
Qed.

Lemma sortN_perm l : Permutation (sortN l) l.
Proof.
  induction l as [|x r IH]; cbn [sortN fold_right]; auto.
  eapply perm_trans; [apply insert_sorted_perm|]. apply perm_skip. exact IH.
Qed.

Lemma sortN_In l y : In y (sortN l) <-> In y l.
Proof.
  split; apply Permutation_in; [apply sortN_perm|apply Permutation_sym, sortN_perm].
Qed.

Lemma sortN_length l : length (sortN l) = length l.
Proof. apply Permutation_length, sortN_perm. Qed.

Lemma sortN_NoDup l : NoDup l -> NoDup (sortN l).
Proof. apply Permutation_NoDup, Permutation_sym, sortN_perm. Qed.

Lemma insert_sorted_sorted x l : StronglySorted N.le l -> StronglySorted N.le (insert_sorted x l).
Proof.
  induction l as [|y r IH]; intros Hs; cbn [insert_sorted].
  - constructor; constructor.
  - inversion Hs as [|? ? Hr Hy]; subst. destruct (N.leb_spec x y) as [Hle|Hlt].
    + constructor; auto. constructor; auto.
      rewrite Forall_forall in Hy |- *. intros z Hz. specialize (Hy z Hz). lia.
    + constructor; auto. rewrite Forall_forall in Hy |- *. intros z Hz.
      apply (Permutation_in _ (insert_sorted_perm x r)) in Hz. destruct Hz as [<-|Hz]; [lia|auto].
Qed.

Lemma sortN_sorted l : StronglySorted N.le (sortN l).
Proof.
  induction l as [|x r IH]; cbn [sortN fold_right]; [constructor|]. apply insert_sorted_sorted. exact IH.
Qed.

Lemma sorted_le_lt l : StronglySorted N.le l -> NoDup l -> StronglySorted N.lt l.
Proof.
  induction 1 as [|x r Hs IH Hx]; intros Hnd; constructor.
  - apply IH. now inversion Hnd.
  - inversion Hnd as [|? ? Hnin _]; subst. rewrite Forall_forall in Hx |- *. intros z Hz.
    specialize (Hx z Hz). assert (z <> x) by (intros ->; contradiction). lia.
Qed.

Lemma sortN_strict l : NoDup l -> StronglySorted N.lt (sortN l).
Proof. intros H. apply sorted_le_lt; [apply sortN_sorted|now apply sortN_NoDup]. Qed.

Lemma sortN_nil l : sortN l = [] -> l = [].
Proof. intros H. apply (f_equal (@length N)) in H. rewrite sortN_length in H. destruct l; [auto|discriminate]. Qed.

(* ------------------------------------------------------------------------------------------ *)
(** * make_from_pairs never fails on a duplicate-free list of valid pairs that fits (4 n <= 3 * 2^(6+lgk)) *)

Local Notation fE := (filter (fun v => negb (v =? EMPTY))).

Lemma exists_empty_slot sl : (length (fE sl) < length sl)%nat ->
  exists i, (i < length sl)%nat /\ nth i sl EMPTY = EMPTY.
Proof.
  induction sl as [|a sl IH]; cbn [filter length]; [lia|]. intros H.
  destruct (N.eqb_spec a EMPTY) as [->|Hne]; cbn [negb] in H.
  - exists 0%nat. split; [lia|reflexivity].
  - cbn [length] in H. destruct IH as (i & Hi & E); [lia|]. exists (S i). split; [lia|exact E].
Qed.

Lemma lookup_from_some lg sl x : forall fuel p d, p < 2 ^ lg -> (N.to_nat d < fuel)%nat ->
  nthN sl ((p + d) mod 2 ^ lg) EMPTY = EMPTY ->
  exists q, lookup_from sl (2 ^ lg - 1) x p fuel = Some q.
Proof.
  induction fuel as [|fuel IH]; intros p d Hp Hd He; [lia|]. cbn [lookup_from].
  destruct ((nthN sl p EMPTY =? x) || (nthN sl p EMPTY =? EMPTY)) eqn:E; [eauto|].
  apply orb_false_iff in E. destruct E as [_ E2]. apply N.eqb_neq in E2.
  assert (Hd0 : d <> 0).
  { intros ->. rewrite N.add_0_r, N.mod_small in He by auto. contradiction. }
  rewrite (land_mask lg). apply (IH _ (d - 1)).
  - apply mod_lt.
  - lia.
  - rewrite mod_succ_add. replace (d - 1 + 1) with d by lia. exact He.
Qed.

Lemma shiftr_home_lt x lg nvb : lg <= nvb -> x < 2 ^ nvb -> N.shiftr x (nvb - lg) < 2 ^ lg.
Proof.
  intros Hl Hx. rewrite N.shiftr_div_pow2. apply N.div_lt_upper_bound; [apply N.pow_nonzero; lia|].
  rewrite <- N.pow_add_r. replace (nvb - lg + lg) with nvb by lia. exact Hx.
Qed.

Lemma must_insert_total lg nvb num sl v : lg <= nvb -> v < 2 ^ nvb -> v <> EMPTY ->
  length sl = N.to_nat (2 ^ lg) -> allreach lg nvb sl -> ~ In v (fE sl) -> (length (fE sl) < length sl)%nat ->
  exists q, found lg nvb sl v q /\ nthN sl q EMPTY = EMPTY /\
            must_insert (mkT lg nvb num sl) v = Some (mkT lg nvb num (setN sl q v)).
Proof.
  intros Hl Hv Hne Hlen Hall Hnin Hcnt.
  pose proof (shiftr_home_lt v lg nvb Hl Hv) as Hh.
  assert (Hpos : 0 < 2 ^ lg) by (apply N.neq_0_lt_0, N.pow_nonzero; lia).
  destruct (exists_empty_slot sl Hcnt) as (i & Hi & Ei).
  set (p := N.shiftr v (nvb - lg)) in *.
  assert (Hlk : exists q, lookup (mkT lg nvb num sl) v = Some q).
  { unfold lookup. cbn [t_lg t_nvb t_slots]. cbv zeta.
    destruct (N.ltb_spec nvb lg); [lia|]. fold p.
    destruct (N.ltb_spec (2 ^ lg - 1) p); [lia|].
    apply (lookup_from_some lg sl v _ p ((N.of_nat i + 2 ^ lg - p) mod 2 ^ lg)); auto.
    - assert ((N.of_nat i + 2 ^ lg - p) mod 2 ^ lg < 2 ^ lg) by (apply N.mod_lt; lia). lia.
    - rewrite N.add_mod_idemp_r by lia.
      replace (p + (N.of_nat i + 2 ^ lg - p)) with (N.of_nat i + 1 * 2 ^ lg) by lia.
      rewrite N.mod_add by lia. rewrite N.mod_small by lia.
      unfold nthN. rewrite Nat2N.id. exact Ei. }
  destruct Hlk as (q & Hq). pose proof Hq as Hq'. apply lookup_spec in Hq'. destruct Hq' as [Hf Hv2].
  exists q. destruct Hv2 as [Hv2|Hv2].
  - exfalso. apply Hnin. apply (present_items lg sl v q); auto. apply Hf.
  - split; auto. split; auto. unfold must_insert. rewrite Hq. cbn [t_lg t_nvb t_num t_slots]. cbv zeta.
    rewrite Hv2. destruct (N.eqb_spec EMPTY v); [congruence|]. rewrite N.eqb_refl. reflexivity.
Qed.

Lemma mfp_fold_total lg nvb : lg <= nvb -> forall pairs num sl,
  length sl = N.to_nat (2 ^ lg) -> allreach lg nvb sl -> NoDup pairs ->
  (forall x, In x pairs -> x <> EMPTY /\ x < 2 ^ nvb /\ ~ In x (fE sl)) ->
  (length (fE sl) + length pairs <= N.to_nat (2 ^ lg))%nat ->
  exists t, fold_left (fun acc v => do a <- acc; must_insert a v) pairs (Some (mkT lg nvb num sl)) = Some t.
Proof.
  intros Hl. induction pairs as [|v pairs IH]; intros num sl Hlen Hall Hnd Hp Hcnt; cbn [fold_left]; [eauto|].
  destruct (Hp v (or_introl eq_refl)) as (Hne & Hlt & Hnin).
  destruct (must_insert_total lg nvb num sl v) as (q & Hf & Hq & ->); auto.
  { cbn [length] in Hcnt. lia. }
  pose proof Hf as (Hqlt & _).
  assert (HP : Permutation (fE (setN sl q v)) (v :: fE sl)) by (apply filt_set_emptyN; auto; lia).
  inversion Hnd as [|? ? Hvn Hnd']; subst.
  apply IH; auto.
  - rewrite setN_length. exact Hlen.
  - apply allreach_insert; auto.
  - intros x Hx. destruct (Hp x (or_intror Hx)) as (A & B & C). split; auto. split; auto.
    intros Hin. apply (Permutation_in _ HP) in Hin. destruct Hin as [<-|Hin]; auto.
  - rewrite (Permutation_length HP). cbn [length] in Hcnt |- *. lia.
Qed.

Lemma mfp_lg_spec n : forall fuel lg0 B, lg0 <= B -> 4 * n <= 3 * 2 ^ B -> (N.to_nat (B - lg0) <= fuel)%nat ->
  mfp_lg n lg0 fuel <= B /\ 4 * n <= 3 * 2 ^ mfp_lg n lg0 fuel.
Proof.
  induction fuel as [|fuel IH]; intros lg0 B H0 Hn Hf; cbn [mfp_lg].
  - assert (lg0 = B) by lia. subst. split; [lia|exact Hn].
  - destruct (N.ltb_spec (3 * 2 ^ lg0) (4 * n)) as [Hlt|Hge].
    + assert (lg0 <> B) by (intros ->; lia). apply IH; auto; lia.
    + split; [lia|exact Hge].
Qed.

Theorem make_from_pairs_total pairs l : l <= 30 -> NoDup pairs ->
  (forall x, In x pairs -> x <> EMPTY /\ x < 2 ^ (6 + l)) ->
  4 * N.of_nat (length pairs) <= 3 * 2 ^ (6 + l) ->
  exists t, make_from_pairs pairs l = Some t /\ TInv t /\ t_nvb t = 6 + l /\ (forall y, In y (t_items t) <-> In y pairs).
Proof.
  intros Hl Hnd Hp Hn.
  assert (E : exists t, make_from_pairs pairs l = Some t).
  { unfold make_from_pairs. cbv zeta.
    destruct (mfp_lg_spec (N.of_nat (length pairs)) 40 2 (6 + l)) as [Hlg Hfit]; auto; try lia.
    set (lg := mfp_lg (N.of_nat (length pairs)) 2 40) in *. unfold t_new.
    destruct (mfp_fold_total lg (6 + l) Hlg pairs 0 (repeat EMPTY (N.to_nat (2 ^ lg)))) as (t & ->); eauto.
    - apply repeat_length.
    - apply allreach_empty.
    - intros x Hx. destruct (Hp x Hx). rewrite filt_repeat. auto.
    - rewrite filt_repeat. cbn [length]. lia. }
  destruct E as (t & E). exists t. split; auto. apply make_from_pairs_spec; auto. intros x Hx. apply Hp, Hx.
Qed.


(* ------------------------------------------------------------------------------------------ *)
(** * the low-level codecs on an empty word buffer *)

Lemma uncompress_sv_nil n l : n <> 0 -> uncompress_surprising_values [] n l = None.
Proof.
  intros Hn. unfold uncompress_surprising_values. destruct (surprising_values_base_bits n l); auto.
  unfold uncompress_pairs. destruct (N.to_nat n) eqn:E; [lia|]. cbn [uncompress_pairs_loop].
  change (maybe_fill_bitbuf [] rstate0 12) with (@None rstate). reflexivity.
Qed.

Lemma compress_sv_nil l : compress_surprising_values [] l = None.
Proof.
  unfold compress_surprising_values, surprising_values_base_bits, golomb_choose_number_of_base_bits.
  cbn [length]. change (w32 (N.of_nat 0)) with 0.
  destruct (_ <? 1); auto.
Qed.

Lemma uncompress_window_nil l c win : uncompress_sliding_window [] l c = Some win -> win = [].
Proof.
  unfold uncompress_sliding_window. destruct (determine_pseudo_phase_opt l c); [|discriminate].
  unfold uncompress_bytes. destruct (N.to_nat (w32 (N.shiftl 1 l))) eqn:E; cbn [uncompress_bytes_loop].
  - unfold rstate0. cbn [length]. destruct (_ <? _); [discriminate|]. intros H; inversion H; reflexivity.
  - change (maybe_fill_bitbuf [] rstate0 12) with (@None rstate). discriminate.
Qed.

(* the surprising-value codec on the sorted version of a duplicate-free list *)
Lemma sv_rt L l w : l <= 26 -> NoDup L -> (forall x, In x L -> x < 2 ^ 32) -> N.of_nat (length L) <= 2 ^ 31 ->
  compress_surprising_values (sortN L) l = Some w ->
  L <> [] /\ w <> [] /\ uncompress_surprising_values w (N.of_nat (length (sortN L))) l = Some (sortN L).
Proof.
  intros Hl Hnd Hlt Hn Hc.
  assert (HL : L <> []).
  { intros ->. cbn [sortN fold_right] in Hc. rewrite compress_sv_nil in Hc. discriminate. }
  assert (Hrt : uncompress_surprising_values w (N.of_nat (length (sortN L))) l = Some (sortN L)).
  { apply surprising_values_rt; auto; try lia.
    - now apply sortN_strict.
    - apply Forall_forall. intros x Hx. apply Hlt. now apply sortN_In.
    - now rewrite sortN_length. }
  split; auto. split; auto. intros ->. rewrite uncompress_sv_nil in Hrt; [discriminate|].
  rewrite sortN_length. destruct L; [congruence|]. cbn [length]. lia.
Qed.

(* ------------------------------------------------------------------------------------------ *)
(** * facts from the sketch invariant *)

Lemma byte_lt256 b : is_byte b -> b < 256.
Proof. intros H. change 256 with (2 ^ 8). apply bits_lt_pow2. exact H. Qed.

Lemma window_rt l s hist : SInv l s hist -> 4 <= l <= 26 -> window s <> [] ->
  compress_sliding_window (window s) l (ncoup s) <> [] /\
  uncompress_sliding_window (compress_sliding_window (window s) l (ncoup s)) l (ncoup s) = Some (window s).
Proof.
  intros [C Cn] Hl Hw.
  assert (Hrt : uncompress_sliding_window (compress_sliding_window (window s) l (ncoup s)) l (ncoup s) = Some (window s)).
  { apply sliding_window_rt; [lia| |].
    - destruct (c_win _ _ _ C) as [[E _]|E]; [contradiction|]. rewrite E. apply N2Nat.id.
    - apply Forall_forall. intros b Hb. apply byte_lt256.
      destruct (In_nth _ _ 0 Hb) as (i & Hi & <-).
      pose proof (c_bytes _ _ _ C (N.of_nat i)) as H. unfold nthN in H. rewrite Nat2N.id in H. exact H. }
  split; auto. intros E. rewrite E in Hrt. apply uncompress_window_nil in Hrt. auto.
Qed.

Lemma items_facts l s hist : SInv l s hist -> l <= 26 ->
  NoDup (t_items (table s)) /\
  forall x, In x (t_items (table s)) ->
    x <> EMPTY /\ x < 2 ^ (6 + l) /\ x < 2 ^ 32 /\ in_win s (N.land x 63) = false.
Proof.
  intros [C Cn] Hl. split; [apply (c_tinv _ _ _ C)|]. intros x Hx.
  destruct (c_items _ _ _ C x Hx) as [H1 H2]. split; [eapply t_items_not_empty; eauto|]. split; auto. split; auto.
  apply N.lt_le_trans with (2 ^ (6 + l)); auto. apply N.pow_le_mono_r; lia.
Qed.

(* with the window at offset 0 every table item is a coupon of the history *)
Lemma items_sub_hist l s hist : SInv l s hist -> woff s = 0 ->
  forall x, In x (t_items (table s)) -> In x hist.
Proof.
  intros [C Cn] Ho x Hx. destruct (c_items _ _ _ C x Hx) as [Hlt Hin].
  destruct (rc_parts l x Hlt) as (Hdec & Hrow & Hcol).
  apply mem_In. rewrite <- has_rc. rewrite (c_bits _ _ _ C) by auto. unfold bitF. rewrite Hin, Ho.
  destruct (N.ltb_spec (N.land x 63) 0); [lia|]. rewrite xorb_false_l. rewrite <- Hdec. now apply mem_In.
Qed.

Lemma items_count_le l s hist : SInv l s hist -> woff s = 0 ->
  N.of_nat (length (t_items (table s))) <= ncoup s.
Proof.
  intros Hinv Ho. pose proof Hinv as [C Cn]. rewrite (n_count _ _ _ Cn).
  assert (length (t_items (table s)) <= length (distinct hist))%nat; [|lia].
  apply NoDup_incl_length; [apply (c_tinv _ _ _ C)|].
  intros x Hx. apply distinct_In. eapply items_sub_hist; eauto.
Qed.

Lemma tnum_items l s hist : SInv l s hist -> t_num (table s) = N.of_nat (length (t_items (table s))).
Proof. intros [C _]. apply (c_tinv _ _ _ C). Qed.

(* ------------------------------------------------------------------------------------------ *)
(** * row/column arithmetic *)

Lemma col_mod p : N.land p 63 = p mod 64.
Proof. change 63 with (N.ones 6). apply N.land_ones. Qed.

Lemma row_div p : N.shiftr p 6 = p / 64.
Proof. apply N.shiftr_div_pow2. Qed.

(* PINNED: columns are shifted down by 8 *)
Lemma sub8_col p : 8 <= N.land p 63 -> N.land (p - 8) 63 = N.land p 63 - 8 /\ p - 8 + 8 = p.
Proof.
  rewrite !col_mod. intros H. pose proof (N.div_mod p 64 ltac:(lia)) as E.
  pose proof (N.mod_lt p 64 ltac:(lia)) as Hm. split; [|lia].
  replace (p - 8) with (p mod 64 - 8 + p / 64 * 64) by lia.
  rewrite N.mod_add by lia. apply N.mod_small. lia.
Qed.

(* SLIDING: columns are rotated so that the window comes last, then permuted *)
Lemma sliding_col_rt c off : c < 64 -> off <= 56 -> ~ (off <= c < off + 8) ->
  (c + 56 - off) mod 64 < 56 /\ ((c + 56 - off) mod 64 + (off + 8)) mod 64 = c.
Proof.
  intros Hc Ho Hn. destruct (N.lt_ge_cases c off) as [Hlt|Hge].
  - rewrite (N.mod_small (c + 56 - off)) by lia. split; [lia|].
    replace (c + 56 - off + (off + 8)) with (c + 1 * 64) by lia. rewrite N.mod_add by lia. apply N.mod_small. lia.
  - assert (off + 8 <= c) by lia.
    replace (c + 56 - off) with (c - off - 8 + 1 * 64) by lia. rewrite N.mod_add by lia.
    rewrite (N.mod_small (c - off - 8)) by lia. split; [lia|].
    replace (c - off - 8 + (off + 8)) with c by lia. apply N.mod_small. lia.
Qed.

Lemma sliding_tr_rt pi off l p : (pi < 16)%nat -> off <= 56 -> p < 2 ^ (6 + l) ->
  ~ (off <= N.land p 63 < off + 8) ->
  let perm := nth pi column_permutations_for_encoding [] in
  let dperm := nth pi column_permutations_for_decoding [] in
  let q := N.lor (N.shiftl (N.shiftr p 6) 6) (nth (N.to_nat (N.land (N.land p 63 + 56 - off) 63)) perm 0) in
  q < 2 ^ (6 + l) /\
  N.lor (N.shiftl (N.shiftr q 6) 6) (N.land (nth (N.to_nat (N.land q 63)) dperm 0 + (off + 8)) 63) = p.
Proof.
  intros Hpi Ho Hp Hn perm dperm q.
  pose proof (land63_lt p) as Hc.
  destruct (sliding_col_rt (N.land p 63) off Hc Ho Hn) as [Hx Hback].
  rewrite <- (col_mod (N.land p 63 + 56 - off)) in Hx, Hback. rewrite <- col_mod in Hback.
  set (x := N.land (N.land p 63 + 56 - off) 63) in *.
  assert (Hxn : (N.to_nat x < 56)%nat) by lia.
  pose proof (permutation_range pi (N.to_nat x) Hpi Hxn) as Hr. fold perm in Hr.
  pose proof (permutation_inverse_left pi (N.to_nat x) Hpi Hxn) as Hinv. fold perm dperm in Hinv.
  rewrite N2Nat.id in Hinv.
  change q with (rcp (N.shiftr p 6) (nth (N.to_nat x) perm 0)).
  assert (Hr64 : nth (N.to_nat x) perm 0 < 64) by lia.
  split; [apply rcp_lt; auto; now apply row_lt|].
  rewrite rcp_row, rcp_col by auto. rewrite Hinv, Hback. symmetry. apply rcp_decode.
Qed.

(* a map with a left inverse *)
Lemma map_inv_perm {A} (f g : A -> A) l : (forall x, In x l -> g (f x) = x) -> map g (map f l) = l.
Proof.
  intros H. rewrite map_map. rewrite <- (map_id l) at 2. apply map_ext_in. exact H.
Qed.

Lemma NoDup_map_linv (f g : N -> N) l : NoDup l -> (forall x, In x l -> g (f x) = x) -> NoDup (map f l).
Proof.
  intros Hnd Hg. induction Hnd as [|x r Hnin Hnd IH]; cbn [map]; constructor.
  - intros Hin. apply in_map_iff in Hin. destruct Hin as (y & E & Hy).
    assert (y = x). { rewrite <- (Hg y), <- (Hg x), E; cbn; auto. } subst. contradiction.
  - apply IH. intros y Hy. apply Hg. now right.
Qed.

(* the table part of the PINNED / SLIDING flavors: transform, sort, compress, uncompress, transform back, rebuild *)
Lemma table_codec_rt (f g : N -> N) items l w :
  l <= 26 -> NoDup items -> (forall x, In x items -> x <> EMPTY /\ x < 2 ^ (6 + l)) ->
  (forall x, In x items -> g (f x) = x /\ f x < 2 ^ 32) ->
  N.of_nat (length items) <= 2 ^ 31 ->
  compress_surprising_values (sortN (map f items)) l = Some w ->
  items <> [] /\ w <> [] /\
  uncompress_surprising_values w (N.of_nat (length (sortN (map f items)))) l = Some (sortN (map f items)) /\
  (forall q, In q (sortN (map f items)) -> exists x, In x items /\ q = f x) /\
  Permutation (map g (sortN (map f items))) items.
Proof.
  intros Hl Hnd Hit Hfg Hn1 Hc.
  assert (Hndf : NoDup (map f items)) by (apply (NoDup_map_linv f g); auto; intros x Hx; apply Hfg, Hx).
  destruct (sv_rt (map f items) l w) as (A & B & C); auto.
  { intros y Hy. apply in_map_iff in Hy. destruct Hy as (x & <- & Hx). apply Hfg, Hx. }
  { now rewrite map_length. }
  assert (HP : Permutation (map g (sortN (map f items))) items).
  { rewrite <- (map_inv_perm f g items) at 2 by (intros x Hx; apply Hfg, Hx).
    apply Permutation_map, sortN_perm. }
  split; [intros ->; apply A; reflexivity|]. split; auto. split; auto. split; auto.
  intros q Hq. apply (proj1 (sortN_In _ _)) in Hq. apply in_map_iff in Hq. destruct Hq as (x & <- & Hx). eauto.
Qed.


(* ------------------------------------------------------------------------------------------ *)
(** * unfolding compress_sketch / uncompress_sketch for a known flavor *)

Lemma match_nonnil {A B} (l : list A) (x y : B) : l <> [] -> match l with [] => x | _ :: _ => y end = y.
Proof. destruct l; [congruence|reflexivity]. Qed.

Lemma compress_empty s : determine_flavor (lgk s) (ncoup s) = FL_EMPTY ->
  compress_sketch s = Some {| c_num_entries := 0; c_table := []; c_window := [] |}.
Proof. intros H. unfold compress_sketch. rewrite H. reflexivity. Qed.

Lemma compress_sparse s : determine_flavor (lgk s) (ncoup s) = FL_SPARSE ->
  compress_sketch s =
  match window s with _ :: _ => None | [] =>
    do w <- compress_surprising_values (sortN (t_items (table s))) (lgk s);
    Some {| c_num_entries := N.of_nat (length (sortN (t_items (table s)))); c_table := w; c_window := [] |} end.
Proof. intros H. unfold compress_sketch. rewrite H. reflexivity. Qed.

Lemma compress_hybrid s : determine_flavor (lgk s) (ncoup s) = FL_HYBRID ->
  compress_sketch s =
  match window s with [] => None | _ =>
    if negb (woff s =? 0) then None else
    if negb (N.of_nat (length (sortN (t_items (table s) ++ window_pairs (window s) 0))) =? ncoup s) then None else
    do w <- compress_surprising_values (sortN (t_items (table s) ++ window_pairs (window s) 0)) (lgk s);
    Some {| c_num_entries := N.of_nat (length (sortN (t_items (table s) ++ window_pairs (window s) 0)));
            c_table := w; c_window := [] |} end.
Proof. intros H. unfold compress_sketch. rewrite H. reflexivity. Qed.

Lemma compress_dense_nil s :
  determine_flavor (lgk s) (ncoup s) = FL_PINNED \/ determine_flavor (lgk s) (ncoup s) = FL_SLIDING ->
  t_items (table s) = [] ->
  compress_sketch s = Some {| c_num_entries := 0; c_table := [];
                              c_window := compress_sliding_window (window s) (lgk s) (ncoup s) |}.
Proof. intros [H|H] E; unfold compress_sketch; rewrite H, E; reflexivity. Qed.

Lemma compress_pinned s : determine_flavor (lgk s) (ncoup s) = FL_PINNED -> t_items (table s) <> [] ->
  compress_sketch s =
  if existsb (fun p => N.land p 63 <? 8) (t_items (table s)) then None else
  do w <- compress_surprising_values (sortN (map (fun p => p - 8) (t_items (table s)))) (lgk s);
  Some {| c_num_entries := N.of_nat (length (sortN (map (fun p => p - 8) (t_items (table s)))));
          c_table := w; c_window := compress_sliding_window (window s) (lgk s) (ncoup s) |}.
Proof.
  intros H E. unfold compress_sketch. rewrite H. destruct (t_items (table s)); [congruence|reflexivity].
Qed.

Definition sl_enc (phase off p : N) : N :=
  N.lor (N.shiftl (N.shiftr p 6) 6)
        (nth (N.to_nat (N.land (N.land p 63 + 56 - off) 63)) (nth (N.to_nat phase) column_permutations_for_encoding []) 0).
Definition sl_dec (phase off p : N) : N :=
  N.lor (N.shiftl (N.shiftr p 6) 6)
        (N.land (nth (N.to_nat (N.land p 63)) (nth (N.to_nat phase) column_permutations_for_decoding []) 0 + (off + 8)) 63).

Lemma compress_sliding s : determine_flavor (lgk s) (ncoup s) = FL_SLIDING -> t_items (table s) <> [] ->
  compress_sketch s =
  let phase := determine_pseudo_phase (lgk s) (ncoup s) in
  if 16 <=? phase then None else
  if 56 <? woff s then None else
  if existsb (fun p => 56 <=? N.land (N.land p 63 + 56 - woff s) 63) (t_items (table s)) then None else
  do w <- compress_surprising_values (sortN (map (sl_enc phase (woff s)) (t_items (table s)))) (lgk s);
  Some {| c_num_entries := N.of_nat (length (sortN (map (sl_enc phase (woff s)) (t_items (table s)))));
          c_table := w; c_window := compress_sliding_window (window s) (lgk s) (ncoup s) |}.
Proof.
  intros H E. unfold compress_sketch. rewrite H. destruct (t_items (table s)); [congruence|reflexivity].
Qed.

Lemma uncompress_empty c l nc : determine_flavor l nc = FL_EMPTY -> uncompress_sketch c l nc = Some (empty_table l, []).
Proof. intros H. unfold uncompress_sketch. rewrite H. reflexivity. Qed.

Lemma uncompress_sparse c l nc : determine_flavor l nc = FL_SPARSE ->
  uncompress_sketch c l nc =
  match c_window c with _ :: _ => None | [] =>
  match c_table c with [] => None | _ =>
  do pairs <- uncompress_surprising_values (c_table c) (c_num_entries c) l;
  do t <- make_from_pairs pairs l; Some (t, []) end end.
Proof. intros H. unfold uncompress_sketch. rewrite H. reflexivity. Qed.

Lemma uncompress_hybrid c l nc : determine_flavor l nc = FL_HYBRID ->
  uncompress_sketch c l nc =
  match c_window c with _ :: _ => None | [] =>
  match c_table c with [] => None | _ =>
  do pairs <- uncompress_surprising_values (c_table c) (c_num_entries c) l;
  do (win, tp) <- split_hybrid pairs (repeat 0 (N.to_nat (2 ^ l))) [];
  do t <- make_from_pairs tp l; Some (t, win) end end.
Proof. intros H. unfold uncompress_sketch. rewrite H. reflexivity. Qed.

Lemma uncompress_pinned c l nc : determine_flavor l nc = FL_PINNED ->
  uncompress_sketch c l nc =
  match c_window c with [] => None | _ =>
  do win <- uncompress_sliding_window (c_window c) l nc;
  if c_num_entries c =? 0 then Some (empty_table l, win) else
  match c_table c with [] => None | _ =>
  do pairs <- uncompress_surprising_values (c_table c) (c_num_entries c) l;
  if existsb (fun p => 56 <=? N.land p 63) pairs then None else
  do t <- make_from_pairs (map (fun p => p + 8) pairs) l; Some (t, win) end end.
Proof. intros H. unfold uncompress_sketch. rewrite H. reflexivity. Qed.

Lemma uncompress_sliding c l nc : determine_flavor l nc = FL_SLIDING ->
  uncompress_sketch c l nc =
  match c_window c with [] => None | _ =>
  do win <- uncompress_sliding_window (c_window c) l nc;
  if c_num_entries c =? 0 then Some (empty_table l, win) else
  match c_table c with [] => None | _ =>
  do pairs <- uncompress_surprising_values (c_table c) (c_num_entries c) l;
  if 16 <=? determine_pseudo_phase l nc then None else
  if 56 <? determine_correct_offset l nc then None else
  do t <- make_from_pairs (map (sl_dec (determine_pseudo_phase l nc) (determine_correct_offset l nc)) pairs) l;
  Some (t, win) end end.
Proof. intros H. unfold uncompress_sketch. rewrite H. reflexivity. Qed.

(* ------------------------------------------------------------------------------------------ *)
(** * numeric facts *)

Lemma pow_bounds l : 4 <= l <= 26 -> 16 <= 2 ^ l <= 67108864 /\ 2 ^ (6 + l) = 64 * 2 ^ l.
Proof.
  intros H. split; [split|].
  - change 16 with (2 ^ 4). apply N.pow_le_mono_r; lia.
  - change 67108864 with (2 ^ 26). apply N.pow_le_mono_r; lia.
  - rewrite N.pow_add_r. reflexivity.
Qed.

(* the rebuilt table is a valid u32_table with the same set of pairs *)
Definition tab_ok (l : N) (s : sketch) (t' : u32t) : Prop :=
  TInv t' /\ t_nvb t' = 6 + l /\ (forall y, In y (t_items t') <-> In y (t_items (table s))).

(* what is shown for every flavor: whatever uncompress returns is right, and it returns something when the pairs fit *)
Definition goal_rt (l : N) (s : sketch) (c : cstate) : Prop :=
  (forall t' w', uncompress_sketch c l (ncoup s) = Some (t', w') -> w' = window s /\ tab_ok l s t') /\
  (4 * t_num (table s) <= 3 * 2 ^ (6 + l) -> exists t', uncompress_sketch c l (ncoup s) = Some (t', window s)).

Lemma empty_table_ok l : TInv (empty_table l) /\ t_nvb (empty_table l) = 6 + l /\ t_items (empty_table l) = [].
Proof. unfold empty_table. split; [apply TInv_new|]. split; [reflexivity|apply t_items_new]. Qed.

Lemma finish_empty l s c : uncompress_sketch c l (ncoup s) = Some (empty_table l, window s) ->
  t_items (table s) = [] -> goal_rt l s c.
Proof.
  intros E Hi. destruct (empty_table_ok l) as (T1 & T2 & T3). split.
  - intros t' w' H. rewrite E in H. inversion H; subst. split; auto. split; auto. split; auto.
    intros y. rewrite T3, Hi. tauto.
  - intros _. eauto.
Qed.

Lemma finish_rt l s hist c P : SInv l s hist -> l <= 26 ->
  uncompress_sketch c l (ncoup s) = (do t <- make_from_pairs P l; Some (t, window s)) ->
  Permutation P (t_items (table s)) -> goal_rt l s c.
Proof.
  intros Hinv Hl E HP. destruct (items_facts l s hist Hinv Hl) as [Hnd Hit].
  assert (HndP : NoDup P) by (eapply Permutation_NoDup; [apply Permutation_sym, HP|exact Hnd]).
  assert (Hv : forall x, In x P -> x <> EMPTY /\ x < 2 ^ (6 + l)).
  { intros x Hx. apply (Permutation_in _ HP) in Hx. destruct (Hit x Hx) as (? & ? & _). auto. }
  split.
  - intros t' w' H. rewrite E in H. destruct (make_from_pairs P l) as [t|] eqn:Em; [|discriminate].
    inversion H; subst. split; auto.
    destruct (make_from_pairs_spec P l t' HndP) as (T1 & T2 & T3); auto.
    { intros x Hx. apply Hv, Hx. }
    split; auto. split; auto. intros y. rewrite T3. split; apply Permutation_in; auto. now apply Permutation_sym.
  - intros Hfit. rewrite E. destruct (make_from_pairs_total P l) as (t & Em & _); auto; try lia.
    + rewrite (Permutation_length HP). rewrite <- (tnum_items l s hist Hinv). exact Hfit.
    + rewrite Em. eauto.
Qed.

(* the table is small whenever the window sits at offset 0 (every flavor but SLIDING) *)
Lemma small_table l s hist : SInv l s hist -> 4 <= l <= 26 -> woff s = 0 -> 8 * ncoup s < 27 * 2 ^ l ->
  N.of_nat (length (t_items (table s))) <= 2 ^ 31 /\ 4 * N.of_nat (length (t_items (table s))) <= 3 * 2 ^ (6 + l).
Proof.
  intros Hinv Hl Ho Hc. pose proof (items_count_le l s hist Hinv Ho) as Hle.
  destruct (pow_bounds l Hl) as [Hk ->]. change (2 ^ 31) with 2147483648. lia.
Qed.

(* ------------------------------------------------------------------------------------------ *)
(** * EMPTY *)

Lemma rt_empty l s hist c : SInv l s hist -> determine_flavor l (ncoup s) = FL_EMPTY ->
  compress_sketch s = Some c -> goal_rt l s c.
Proof.
  intros Hinv Hf _. pose proof Hinv as [C Cn].
  assert (Hn : ncoup s = 0) by (now apply (flavor_empty_iff l)).
  assert (Hw : window s = []).
  { destruct (window s) eqn:E; auto. assert (Hd : window s <> []) by congruence.
    apply (n_dense _ _ _ Cn) in Hd. pose proof (pow2_pos l). lia. }
  assert (Hh : hist = []) by (eapply count_zero_hist; eauto).
  assert (Hi : t_items (table s) = []).
  { destruct (t_items (table s)) as [|v r] eqn:E; auto. exfalso.
    assert (Hv : In v (t_items (table s))) by (rewrite E; left; reflexivity).
    destruct (c_items _ _ _ C v Hv) as [Hlt _]. destruct (rc_parts l v Hlt) as (Hdec & Hrow & Hcol).
    pose proof (c_bits _ _ _ C _ _ Hrow Hcol) as Hb. rewrite (bitF_sparse l s hist) in Hb by auto.
    rewrite <- Hdec in Hb. subst hist. unfold has in Hb. cbn [mem existsb] in Hb.
    symmetry in Hb. apply mem_false in Hb. contradiction. }
  apply finish_empty; auto. rewrite uncompress_empty by auto. now rewrite Hw.
Qed.

(* ------------------------------------------------------------------------------------------ *)
(** * SPARSE *)

Lemma rt_sparse l s hist c : SInv l s hist -> 4 <= l <= 26 -> determine_flavor l (ncoup s) = FL_SPARSE ->
  compress_sketch s = Some c -> goal_rt l s c.
Proof.
  intros Hinv Hl Hf Hc. pose proof Hinv as [C Cn].
  pose proof (c_lgk _ _ _ C) as Hlg.
  pose proof (flavor_sparse_window l s hist Hinv Hf) as Hw.
  pose proof (sparse_woff _ _ _ C Hw) as Ho.
  destruct (items_facts l s hist Hinv ltac:(lia)) as [Hnd Hit].
  destruct (small_table l s hist Hinv Hl Ho) as [Hn1 Hn2].
  { pose proof (n_sparse _ _ _ Cn Hw). lia. }
  rewrite compress_sparse in Hc by (rewrite Hlg; exact Hf). rewrite Hw, Hlg in Hc.
  destruct (compress_surprising_values _ l) as [w|] eqn:Ew; [|discriminate]. inversion Hc; subst c; clear Hc.
  destruct (sv_rt _ l w ltac:(lia) Hnd) as (A & B & Hrt); auto.
  { intros x Hx. apply Hit, Hx. }
  apply (finish_rt l s hist _ (sortN (t_items (table s)))); auto; try lia; [|apply sortN_perm].
  rewrite uncompress_sparse by auto. cbn [c_window c_table c_num_entries].
  rewrite (match_nonnil w) by auto. rewrite Hrt, Hw. reflexivity.
Qed.

(* ------------------------------------------------------------------------------------------ *)
(** * PINNED *)

Lemma rt_pinned l s hist c : SInv l s hist -> 4 <= l <= 26 -> determine_flavor l (ncoup s) = FL_PINNED ->
  compress_sketch s = Some c -> goal_rt l s c.
Proof.
  intros Hinv Hl Hf Hc. pose proof Hinv as [C Cn].
  pose proof (c_lgk _ _ _ C) as Hlg.
  assert (Hw : window s <> []).
  { apply (flavor_dense_window l s hist Hinv). rewrite Hf. reflexivity. }
  pose proof (flavor_mid_offset l s hist Hinv (or_intror Hf)) as Ho.
  destruct (items_facts l s hist Hinv ltac:(lia)) as [Hnd Hit].
  destruct (window_rt l s hist Hinv Hl Hw) as [Hww Hwrt].
  assert (Hc27 : 8 * ncoup s < 27 * 2 ^ l).
  { unfold determine_flavor in Hf. destruct (ncoup s =? 0); [discriminate|].
    destruct (_ <? _); [discriminate|]. destruct (_ <? _); [discriminate|].
    destruct (N.ltb_spec (8 * ncoup s) (27 * 2 ^ l)); [auto|discriminate]. }
  destruct (small_table l s hist Hinv Hl Ho Hc27) as [Hn1 Hn2].
  destruct (t_items (table s)) as [|i0 ir] eqn:Ei.
  - rewrite compress_dense_nil in Hc by (auto; left; rewrite Hlg; exact Hf). rewrite Hlg in Hc.
    inversion Hc; subst c; clear Hc. apply finish_empty; auto.
    rewrite uncompress_pinned by auto. cbn [c_window c_table c_num_entries].
    rewrite (match_nonnil _ _ _ Hww). rewrite Hwrt. rewrite N.eqb_refl. reflexivity.
  - rewrite <- Ei in *. assert (Hne : t_items (table s) <> []) by (rewrite Ei; discriminate). clear Ei i0 ir.
    rewrite compress_pinned in Hc by (auto; rewrite Hlg; exact Hf). rewrite Hlg in Hc.
    destruct (existsb _ (t_items (table s))) eqn:Eex; [discriminate|].
    assert (Hcol : forall x, In x (t_items (table s)) -> 8 <= N.land x 63).
    { intros x Hx. destruct (N.ltb_spec (N.land x 63) 8) as [Hlt|]; auto.
      assert (existsb (fun p => N.land p 63 <? 8) (t_items (table s)) = true); [|congruence].
      apply existsb_exists. exists x. split; auto. now apply N.ltb_lt. }
    destruct (compress_surprising_values _ l) as [w|] eqn:Ew; [|discriminate]. inversion Hc; subst c; clear Hc.
    destruct (table_codec_rt (fun p => p - 8) (fun p => p + 8) (t_items (table s)) l w)
      as (_ & B & Hrt & Hq & HP); auto; try lia.
    { intros x Hx. destruct (Hit x Hx) as (? & ? & _). auto. }
    { intros x Hx. destruct (sub8_col x (Hcol x Hx)) as [_ E]. split; auto.
      destruct (Hit x Hx) as (_ & _ & H32 & _). lia. }
    apply (finish_rt l s hist _ (map (fun p => p + 8) (sortN (map (fun p => p - 8) (t_items (table s))))) Hinv ltac:(lia));
      [|exact HP].
    rewrite uncompress_pinned by auto.
    cbn [c_window c_table c_num_entries]. rewrite (match_nonnil _ _ _ Hww). rewrite Hwrt.
    destruct (N.eqb_spec (N.of_nat (length (sortN (map (fun p => p - 8) (t_items (table s)))))) 0) as [E0|_].
    { exfalso. rewrite sortN_length, map_length in E0. destruct (t_items (table s)); [congruence|cbn [length] in E0; lia]. }
    rewrite (match_nonnil w) by auto. rewrite Hrt.
    assert (Eg : existsb (fun p => 56 <=? N.land p 63) (sortN (map (fun p => p - 8) (t_items (table s)))) = false).
    { apply not_true_is_false. intros Eg. apply existsb_exists in Eg. destruct Eg as (q & Hin & Hq56).
      apply N.leb_le in Hq56. destruct (Hq q Hin) as (x & Hx & ->).
      destruct (sub8_col x (Hcol x Hx)) as [E8 _]. pose proof (land63_lt x). lia. }
    rewrite Eg. reflexivity.
Qed.


(* ------------------------------------------------------------------------------------------ *)
(** * SLIDING *)

Lemma sl_enc_dec phase off l p : phase < 16 -> off <= 56 -> p < 2 ^ (6 + l) ->
  ~ (off <= N.land p 63 < off + 8) ->
  sl_enc phase off p < 2 ^ (6 + l) /\ sl_dec phase off (sl_enc phase off p) = p.
Proof.
  intros Hph Ho Hp Hn. assert (Hpi : (N.to_nat phase < 16)%nat) by lia.
  exact (sliding_tr_rt (N.to_nat phase) off l p Hpi Ho Hp Hn).
Qed.

Lemma rt_sliding l s hist c : SInv l s hist -> 4 <= l <= 26 -> determine_flavor l (ncoup s) = FL_SLIDING ->
  N.of_nat (length (t_items (table s))) <= 2 ^ 31 ->
  compress_sketch s = Some c -> goal_rt l s c.
Proof.
  intros Hinv Hl Hf Hn1 Hc. pose proof Hinv as [C Cn].
  pose proof (c_lgk _ _ _ C) as Hlg.
  assert (Hw : window s <> []).
  { apply (flavor_dense_window l s hist Hinv). rewrite Hf. reflexivity. }
  pose proof (c_off56 _ _ _ C) as Ho. pose proof (n_off _ _ _ Cn) as Hoff.
  destruct (items_facts l s hist Hinv ltac:(lia)) as [Hnd Hit].
  destruct (window_rt l s hist Hinv Hl Hw) as [Hww Hwrt].
  assert (Hc27 : 27 * 2 ^ l <= 8 * ncoup s).
  { unfold determine_flavor in Hf. destruct (ncoup s =? 0); [discriminate|].
    destruct (_ <? _); [discriminate|]. destruct (_ <? _); [discriminate|].
    destruct (N.ltb_spec (8 * ncoup s) (27 * 2 ^ l)); [discriminate|auto]. }
  pose proof (sliding_phase_lt16 l (ncoup s) ltac:(lia) Hc27) as Hph.
  destruct (t_items (table s)) as [|i0 ir] eqn:Ei.
  - rewrite compress_dense_nil in Hc by (auto; right; rewrite Hlg; exact Hf). rewrite Hlg in Hc.
    inversion Hc; subst c; clear Hc. apply finish_empty; auto.
    rewrite uncompress_sliding by auto. cbn [c_window c_table c_num_entries].
    rewrite (match_nonnil _ _ _ Hww). rewrite Hwrt. rewrite N.eqb_refl. reflexivity.
  - rewrite <- Ei in *. assert (Hne : t_items (table s) <> []) by (rewrite Ei; discriminate). clear Ei i0 ir.
    rewrite compress_sliding in Hc by (auto; rewrite Hlg; exact Hf). rewrite Hlg in Hc. cbv zeta in Hc.
    set (phase := determine_pseudo_phase l (ncoup s)) in *.
    destruct (N.leb_spec 16 phase); [lia|]. destruct (N.ltb_spec 56 (woff s)); [lia|].
    destruct (existsb _ (t_items (table s))); [discriminate|].
    destruct (compress_surprising_values _ l) as [w|] eqn:Ew; [|discriminate]. inversion Hc; subst c; clear Hc.
    assert (Hed : forall x, In x (t_items (table s)) ->
              sl_enc phase (woff s) x < 2 ^ (6 + l) /\ sl_dec phase (woff s) (sl_enc phase (woff s) x) = x).
    { intros x Hx. destruct (Hit x Hx) as (_ & Hlt & _ & Hin). apply sl_enc_dec; auto.
      rewrite in_win_dense in Hin by auto. intros [H1 H2].
      destruct (N.leb_spec (woff s) (N.land x 63)); [|lia].
      destruct (N.ltb_spec (N.land x 63) (woff s + 8)); [discriminate|lia]. }
    destruct (table_codec_rt (sl_enc phase (woff s)) (sl_dec phase (woff s)) (t_items (table s)) l w)
      as (_ & B & Hrt & Hq & HP); auto; try lia.
    { intros x Hx. destruct (Hit x Hx) as (? & ? & _). auto. }
    { intros x Hx. destruct (Hed x Hx) as [H1 H2]. split; auto.
      apply N.lt_le_trans with (2 ^ (6 + l)); auto. apply N.pow_le_mono_r; lia. }
    apply (finish_rt l s hist _ (map (sl_dec phase (woff s)) (sortN (map (sl_enc phase (woff s)) (t_items (table s)))))
             Hinv ltac:(lia)); [|exact HP].
    rewrite uncompress_sliding by auto. rewrite <- Hoff. fold phase.
    cbn [c_window c_table c_num_entries]. rewrite (match_nonnil _ _ _ Hww). rewrite Hwrt.
    destruct (N.eqb_spec (N.of_nat (length (sortN (map (sl_enc phase (woff s)) (t_items (table s)))))) 0) as [E0|_].
    { exfalso. rewrite sortN_length, map_length in E0. destruct (t_items (table s)); [congruence|cbn [length] in E0; lia]. }
    rewrite (match_nonnil w) by auto. rewrite Hrt.
    destruct (N.leb_spec 16 phase); [lia|]. destruct (N.ltb_spec 56 (woff s)); [lia|]. reflexivity.
Qed.


(* ------------------------------------------------------------------------------------------ *)
(** * HYBRID *)

Lemma in_cols8 c : In c [0; 1; 2; 3; 4; 5; 6; 7] <-> c < 8.
Proof. cbn [In]. lia. Qed.

Lemma window_pairs_In win : forall row p, In p (window_pairs win row) <->
  exists i c, (i < length win)%nat /\ c < 8 /\ N.testbit (nth i win 0) c = true /\ p = rcp (row + N.of_nat i) c.
Proof.
  induction win as [|b r IH]; intros row p; cbn [window_pairs].
  - split; [intros []|intros (i & c & Hi & _)]. cbn [length] in Hi. lia.
  - rewrite in_app_iff, in_map_iff, IH. split.
    + intros [(c & <- & Hc)|(i & c & Hi & Hc & Hb & ->)].
      * apply filter_In in Hc. destruct Hc as [Hc Hb]. apply in_cols8 in Hc.
        exists 0%nat, c. cbn [length nth]. rewrite N.add_0_r. repeat split; auto. lia.
      * exists (S i), c. cbn [length nth]. repeat split; auto; [lia|]. f_equal. lia.
    + intros (i & c & Hi & Hc & Hb & ->). destruct i as [|i].
      * left. exists c. cbn [nth] in Hb. rewrite N.add_0_r. split; auto. apply filter_In. split; auto. now apply in_cols8.
      * right. exists i, c. cbn [length nth] in Hi, Hb. repeat split; auto; [lia|]. f_equal. lia.
Qed.

Lemma nodup_app {A} (a b : list A) : NoDup a -> NoDup b -> (forall x, In x a -> ~ In x b) -> NoDup (a ++ b).
Proof.
  intros Ha Hb Hd. induction Ha as [|x r Hnin Hr IH]; cbn [app]; auto. constructor.
  - rewrite in_app_iff. intros [H|H]; [contradiction|]. apply (Hd x); [left; reflexivity|exact H].
  - apply IH. intros y Hy. apply Hd. now right.
Qed.

Lemma window_pairs_NoDup win : forall row, NoDup (window_pairs win row).
Proof.
  induction win as [|b r IH]; intros row; cbn [window_pairs]; [constructor|].
  apply nodup_app; auto.
  - apply (NoDup_map_linv _ (fun p => N.land p 63)).
    + apply NoDup_filter. repeat constructor; cbn [In]; lia.
    + intros x Hx. apply filter_In in Hx. destruct Hx as [Hx _]. apply in_cols8 in Hx.
      apply (rcp_col row x). lia.
  - intros x Hx Hin. apply in_map_iff in Hx. destruct Hx as (c & <- & Hc).
    apply filter_In in Hc. destruct Hc as [Hc _]. apply in_cols8 in Hc.
    apply window_pairs_In in Hin. destruct Hin as (i & c' & _ & Hc' & _ & E).
    apply (rcp_inj row c (row + 1 + N.of_nat i) c') in E; lia.
Qed.

Lemma split_hybrid_spec : forall pairs win acc, (forall p, In p pairs -> p <> EMPTY) ->
  split_hybrid pairs win acc =
  Some (fold_left set_coupon (filter (fun p => N.land p 63 <? 8) pairs) win,
        rev acc ++ filter (fun p => negb (N.land p 63 <? 8)) pairs).
Proof.
  induction pairs as [|p r IH]; intros win acc Hne; cbn [split_hybrid filter fold_left].
  - now rewrite app_nil_r.
  - destruct (N.eqb_spec p EMPTY) as [E|_]; [exfalso; apply (Hne p); [left; reflexivity|exact E]|].
    assert (Hr : forall q, In q r -> q <> EMPTY) by (intros q Hq; apply Hne; now right).
    destruct (N.land p 63 <? 8); cbn [negb fold_left].
    + rewrite IH by auto. reflexivity.
    + rewrite IH by auto. cbn [rev]. rewrite <- app_assoc. reflexivity.
Qed.

Lemma filter_len_le {A} (f : A -> bool) l : (length (filter f l) <= length l)%nat.
Proof. induction l as [|a l IH]; cbn [filter length]; auto. destruct (f a); cbn [length]; lia. Qed.

Lemma zero_bit n r c : bit (repeat 0 n) r c = false.
Proof.
  unfold bit. destruct (Nat.lt_ge_cases (N.to_nat r) n).
  - rewrite nthN_repeat by auto. apply N.bits_0.
  - rewrite nthN_oob by (rewrite repeat_length; lia). apply N.bits_0.
Qed.

Lemma empty_col : N.land EMPTY 63 = 63.
Proof. reflexivity. Qed.

Lemma hybrid_facts l s hist : SInv l s hist -> 4 <= l <= 26 -> window s <> [] -> woff s = 0 ->
  let wp := window_pairs (window s) 0 in
  let L := t_items (table s) ++ wp in
  (forall x, In x (t_items (table s)) -> 8 <= N.land x 63) /\
  (forall p, In p wp <-> exists r c, r < 2 ^ l /\ c < 8 /\ N.testbit (nthN (window s) r 0) c = true /\ p = rcp r c) /\
  (forall p, In p wp -> N.land p 63 < 8 /\ p < 2 ^ (6 + l) /\ p <> EMPTY) /\
  NoDup L /\ (forall x, In x L -> x <> EMPTY /\ x < 2 ^ (6 + l)) /\
  (forall x, In x L <-> In x hist).
Proof.
  intros Hinv Hl Hw Ho wp L. pose proof Hinv as [C Cn].
  destruct (items_facts l s hist Hinv ltac:(lia)) as [Hnd Hit].
  assert (Hlen : length (window s) = N.to_nat (2 ^ l)).
  { destruct (c_win _ _ _ C) as [[E _]|E]; [contradiction|exact E]. }
  assert (Hicol : forall x, In x (t_items (table s)) -> 8 <= N.land x 63).
  { intros x Hx. destruct (Hit x Hx) as (_ & _ & _ & Hin). rewrite in_win_dense in Hin by auto. rewrite Ho in Hin.
    destruct (N.leb_spec 0 (N.land x 63)); [|lia]. destruct (N.ltb_spec (N.land x 63) (0 + 8)); [discriminate|lia]. }
  assert (Hwp : forall p, In p wp <-> exists r c, r < 2 ^ l /\ c < 8 /\ N.testbit (nthN (window s) r 0) c = true /\ p = rcp r c).
  { intros p. unfold wp. rewrite window_pairs_In. split.
    - intros (i & c' & Hi & Hc' & Hb & ->). exists (N.of_nat i), c'. unfold nthN. rewrite Nat2N.id.
      repeat split; auto. lia.
    - intros (r & c' & Hr & Hc' & Hb & ->). exists (N.to_nat r), c'. rewrite N2Nat.id. repeat split; auto. lia. }
  assert (Hwcol : forall p, In p wp -> N.land p 63 < 8 /\ p < 2 ^ (6 + l) /\ p <> EMPTY).
  { intros p Hp. apply Hwp in Hp. destruct Hp as (r & c' & Hr & Hc' & _ & ->).
    assert (Ecol : N.land (rcp r c') 63 = c') by (apply rcp_col; lia).
    split; [lia|]. split; [apply rcp_lt; auto; lia|].
    intros E. rewrite E, empty_col in Ecol. lia. }
  assert (HLnd : NoDup L).
  { apply nodup_app; auto; [apply window_pairs_NoDup|].
    intros x Hx Hx2. specialize (Hicol x Hx). destruct (Hwcol x Hx2). lia. }
  assert (HLv : forall x, In x L -> x <> EMPTY /\ x < 2 ^ (6 + l)).
  { intros x Hx. apply in_app_iff in Hx. destruct Hx as [Hx|Hx].
    - destruct (Hit x Hx) as (? & ? & _). auto.
    - destruct (Hwcol x Hx) as (_ & ? & ?). auto. }
  assert (HLh : forall x, In x L <-> In x hist).
  { intros x. unfold L. rewrite in_app_iff. split.
    - intros [Hx|Hx]; [eapply items_sub_hist; eauto|].
      apply Hwp in Hx. destruct Hx as (r & c' & Hr & Hc' & Hb & ->).
      apply mem_In. change (has hist r c' = true). rewrite (c_bits _ _ _ C) by (auto; lia).
      unfold bitF. rewrite in_win_dense by auto. rewrite Ho.
      destruct (N.leb_spec 0 c'); [|lia]. destruct (N.ltb_spec c' (0 + 8)); [|lia]. cbn [andb].
      rewrite N.sub_0_r. exact Hb.
    - intros Hx. destruct (c_valid _ _ _ C x Hx) as [Hlt _]. destruct (rc_parts l x Hlt) as (Hdec & Hrow & Hcol).
      apply mem_In in Hx. rewrite <- has_rc in Hx. rewrite (c_bits _ _ _ C) in Hx by auto.
      unfold bitF in Hx. rewrite in_win_dense in Hx by auto. rewrite Ho in Hx.
      destruct (N.leb_spec 0 (N.land x 63)); [|lia]. cbn [andb] in Hx.
      destruct (N.ltb_spec (N.land x 63) (0 + 8)).
      + right. apply Hwp. exists (N.shiftr x 6), (N.land x 63). rewrite N.sub_0_r in Hx. repeat split; auto.
      + left. destruct (N.ltb_spec (N.land x 63) 0); [lia|]. rewrite xorb_false_l in Hx.
        rewrite <- Hdec in Hx. now apply mem_In. }
  split; [exact Hicol|]. split; [exact Hwp|]. split; [exact Hwcol|]. split; [exact HLnd|]. split; [exact HLv|exact HLh].
Qed.

Lemma rt_hybrid l s hist c : SInv l s hist -> 4 <= l <= 26 -> determine_flavor l (ncoup s) = FL_HYBRID ->
  compress_sketch s = Some c -> goal_rt l s c.
Proof.
  intros Hinv Hl Hf Hc. pose proof Hinv as [C Cn].
  pose proof (c_lgk _ _ _ C) as Hlg.
  assert (Hw : window s <> []).
  { apply (flavor_dense_window l s hist Hinv). rewrite Hf. reflexivity. }
  pose proof (flavor_mid_offset l s hist Hinv (or_introl Hf)) as Ho.
  destruct (items_facts l s hist Hinv ltac:(lia)) as [Hnd Hit].
  destruct (pow_bounds l Hl) as [Hk Hk6].
  assert (Hlen : length (window s) = N.to_nat (2 ^ l)).
  { destruct (c_win _ _ _ C) as [[E _]|E]; [contradiction|exact E]. }
  assert (Hc2 : 2 * ncoup s < 2 ^ l).
  { unfold determine_flavor in Hf. destruct (ncoup s =? 0); [discriminate|].
    destruct (_ <? _); [discriminate|]. destruct (N.ltb_spec (2 * ncoup s) (2 ^ l)); [auto|].
    destruct (_ <? _); discriminate. }
  destruct (hybrid_facts l s hist Hinv Hl Hw Ho) as (Hicol & Hwp & Hwcol & HLnd & HLv & _).
  set (wp := window_pairs (window s) 0) in *. set (L := t_items (table s) ++ wp) in *.
  (* compress *)
  rewrite compress_hybrid in Hc by (rewrite Hlg; exact Hf). rewrite (match_nonnil _ _ _ Hw) in Hc.
  rewrite Ho, Hlg in Hc. cbn [N.eqb negb] in Hc. fold wp in Hc. fold L in Hc.
  destruct (N.eqb_spec (N.of_nat (length (sortN L))) (ncoup s)) as [Hcnt|]; [|discriminate]. cbn [negb] in Hc.
  destruct (compress_surprising_values _ l) as [w|] eqn:Ew; [|discriminate]. inversion Hc; subst c; clear Hc.
  rewrite sortN_length in Hcnt.
  destruct (sv_rt L l w ltac:(lia) HLnd) as (A & B & Hrt); auto.
  { intros x Hx. destruct (HLv x Hx) as [_ H]. apply N.lt_le_trans with (2 ^ (6 + l)); auto. apply N.pow_le_mono_r; lia. }
  { rewrite Hcnt. change (2 ^ 31) with 2147483648. lia. }
  (* uncompress *)
  assert (Eun : uncompress_sketch {| c_num_entries := N.of_nat (length (sortN L)); c_table := w; c_window := [] |} l (ncoup s) =
                (do t <- make_from_pairs (filter (fun p => negb (N.land p 63 <? 8)) (sortN L)) l;
                 Some (t, fold_left set_coupon (filter (fun p => N.land p 63 <? 8) (sortN L)) (repeat 0 (N.to_nat (2 ^ l)))))).
  { rewrite uncompress_hybrid by auto. cbn [c_window c_table c_num_entries].
    rewrite (match_nonnil w) by auto. rewrite Hrt.
    rewrite split_hybrid_spec by (intros p Hp; apply (proj1 (sortN_In _ _)) in Hp; apply HLv, Hp).
    reflexivity. }
  revert Eun.
  set (lo := filter (fun p => N.land p 63 <? 8) (sortN L)).
  set (hi := filter (fun p => negb (N.land p 63 <? 8)) (sortN L)).
  assert (Hlo : forall p, In p lo <-> In p wp).
  { intros p. unfold lo. rewrite filter_In, sortN_In. unfold L. rewrite in_app_iff. split.
    - intros [[Hp|Hp] Hcol]; auto. apply N.ltb_lt in Hcol. specialize (Hicol p Hp). lia.
    - intros Hp. split; auto. apply N.ltb_lt. apply Hwcol, Hp. }
  assert (Hhi : forall p, In p hi <-> In p (t_items (table s))).
  { intros p. unfold hi. rewrite filter_In, sortN_In. unfold L. rewrite in_app_iff. split.
    - intros [[Hp|Hp] Hcol]; auto. destruct (Hwcol p Hp) as [Hlt _]. apply N.ltb_lt in Hlt. rewrite Hlt in Hcol. discriminate.
    - intros Hp. split; auto. specialize (Hicol p Hp). destruct (N.ltb_spec (N.land p 63) 8); [lia|reflexivity]. }
  (* the rebuilt window *)
  assert (Hwin : fold_left set_coupon lo (repeat 0 (N.to_nat (2 ^ l))) = window s).
  { destruct (fold_set_coupon l lo (repeat 0 (N.to_nat (2 ^ l)))) as (W1 & W2 & W3).
    { apply repeat_length. }
    { intros x Hx. apply Hlo in Hx. destruct (Hwcol x Hx) as (_ & ? & ?). auto. }
    apply (nth_ext _ _ 0 0); [rewrite W1, Hlen; reflexivity|].
    intros n Hn. rewrite W1 in Hn. apply N.bits_inj. intros j.
    set (r := N.of_nat n). assert (Hr : r < 2 ^ l) by (unfold r; lia).
    assert (Ewn : nth n (window s) 0 = nthN (window s) r 0) by (unfold nthN, r; now rewrite Nat2N.id).
    assert (Egoal : bit (fold_left set_coupon lo (repeat 0 (N.to_nat (2 ^ l)))) r j = N.testbit (nthN (window s) r 0) j).
    { pose proof (c_bytes _ _ _ C r) as Hbyte.
      destruct (N.lt_ge_cases j 64) as [Hj|Hj].
      - rewrite W2 by auto. rewrite zero_bit, orb_false_r.
        destruct (N.lt_ge_cases j 8) as [Hj8|Hj8].
        + apply bool_eq_iff. rewrite mem_In, Hlo, Hwp. split.
          * intros (r' & c' & Hr' & Hc' & Hb & E). apply rcp_inj in E; [|lia|lia]. destruct E as [-> ->]. exact Hb.
          * intros Hb. exists r, j. auto.
        + rewrite (Hbyte j Hj8). apply mem_false. intros Hin. apply Hlo in Hin. destruct (Hwcol _ Hin) as [Hcol _].
          rewrite rcp_col in Hcol by auto. lia.
      - rewrite W3 by auto. rewrite zero_bit. symmetry. apply Hbyte. lia. }
    rewrite Ewn, <- Egoal. unfold bit, nthN, r. rewrite Nat2N.id. reflexivity. }
  rewrite Hwin. intros Eun.
  apply (finish_rt l s hist _ hi Hinv ltac:(lia) Eun).
  apply NoDup_Permutation; auto. apply NoDup_filter. now apply sortN_NoDup.
Qed.

(* ------------------------------------------------------------------------------------------ *)
(** * all flavors *)

Lemma items_le_2_31 l s hist : SInv l s hist -> 4 <= l <= 26 ->
  (l = 26 -> determine_flavor l (ncoup s) = FL_SLIDING -> t_num (table s) <= 2 ^ 31) ->
  determine_flavor l (ncoup s) = FL_SLIDING -> N.of_nat (length (t_items (table s))) <= 2 ^ 31.
Proof.
  intros Hinv Hl H31 Hf. destruct (N.eq_dec l 26) as [E|E].
  - rewrite <- (tnum_items l s hist Hinv). auto.
  - destruct (items_facts l s hist Hinv ltac:(lia)) as [Hnd Hit].
    apply N.le_trans with (2 ^ (6 + l)); [|apply N.pow_le_mono_r; lia].
    apply nodup_bound; auto. intros x Hx. apply Hit, Hx.
Qed.

Lemma flavor_goal l s hist c : SInv l s hist -> 4 <= l <= 26 ->
  (l = 26 -> determine_flavor l (ncoup s) = FL_SLIDING -> t_num (table s) <= 2 ^ 31) ->
  compress_sketch s = Some c -> goal_rt l s c.
Proof.
  intros Hinv Hl H31 Hc. pose proof (flavor_cases l (ncoup s)) as Hfc. cbv zeta in Hfc.
  destruct Hfc as [Hf|[Hf|[Hf|[Hf|Hf]]]].
  - eapply rt_empty; eauto.
  - eapply rt_sparse; eauto.
  - eapply rt_hybrid; eauto.
  - eapply rt_pinned; eauto.
  - eapply rt_sliding; eauto. eapply items_le_2_31; eauto.
Qed.

(* outside the SLIDING flavor the table always fits *)
Lemma fits_nonsliding l s hist : SInv l s hist -> 4 <= l <= 26 -> determine_flavor l (ncoup s) <> FL_SLIDING ->
  4 * t_num (table s) <= 3 * 2 ^ (6 + l) /\ t_num (table s) <= 2 ^ 31.
Proof.
  intros Hinv Hl Hf. pose proof Hinv as [C Cn].
  assert (Hc27 : 8 * ncoup s < 27 * 2 ^ l).
  { unfold determine_flavor in Hf. pose proof (pow2_pos l).
    destruct (N.eqb_spec (ncoup s) 0); [lia|].
    destruct (N.ltb_spec (32 * ncoup s) (3 * 2 ^ l)); [lia|].
    destruct (N.ltb_spec (2 * ncoup s) (2 ^ l)); [lia|].
    destruct (N.ltb_spec (8 * ncoup s) (27 * 2 ^ l)); [lia|congruence]. }
  assert (Ho : woff s = 0) by (rewrite (n_off _ _ _ Cn); now apply dco_lt27).
  rewrite (tnum_items l s hist Hinv).
  destruct (small_table l s hist Hinv Hl Ho Hc27). auto.
Qed.

(* The two side conditions (see the header), only required of a SLIDING sketch. *)
Definition table_fits (l : N) (s : sketch) : Prop :=
  determine_flavor l (ncoup s) = FL_SLIDING ->
  4 * t_num (table s) <= 3 * 2 ^ (6 + l) /\ t_num (table s) <= 2 ^ 31.

Lemma table_fits_nonsliding l s : determine_flavor l (ncoup s) <> FL_SLIDING -> table_fits l s.
Proof. intros H E. contradiction. Qed.

Lemma fits_all l s hist : SInv l s hist -> 4 <= l <= 26 -> table_fits l s ->
  4 * t_num (table s) <= 3 * 2 ^ (6 + l) /\ t_num (table s) <= 2 ^ 31.
Proof.
  intros Hinv Hl Hfit. destruct (N.eq_dec (determine_flavor l (ncoup s)) FL_SLIDING) as [E|E]; auto.
  eapply fits_nonsliding; eauto.
Qed.

(** ** MAIN THEOREM: uncompress (compress s) succeeds, returns the window of s and a valid table with the pairs of s *)
Theorem flavor_codec_rt : forall l s hist c,
  SInv l s hist -> 4 <= l <= 26 -> table_fits l s ->
  compress_sketch s = Some c ->
  exists t', uncompress_sketch c l (ncoup s) = Some (t', window s) /\
             TInv t' /\ t_nvb t' = 6 + l /\
             (forall y, In y (t_items t') <-> In y (t_items (table s))).
Proof.
  intros l s hist c Hinv Hl Hfit Hc. destruct (fits_all l s hist Hinv Hl Hfit) as [F1 F2].
  destruct (flavor_goal l s hist c Hinv Hl) as [G1 G2]; auto.
  destruct (G2 F1) as (t' & E). exists t'. split; auto. destruct (G1 _ _ E) as [_ H]. exact H.
Qed.

(* no side condition outside the SLIDING flavor *)
Corollary flavor_codec_rt_nonsliding : forall l s hist c,
  SInv l s hist -> 4 <= l <= 26 -> determine_flavor l (ncoup s) <> FL_SLIDING ->
  compress_sketch s = Some c ->
  exists t', uncompress_sketch c l (ncoup s) = Some (t', window s) /\
             TInv t' /\ t_nvb t' = 6 + l /\
             (forall y, In y (t_items t') <-> In y (t_items (table s))).
Proof. intros l s hist c Hinv Hl Hf. apply (flavor_codec_rt l s hist c Hinv Hl). now apply table_fits_nonsliding. Qed.

(** ** partial correctness: whatever uncompress returns is right (no table-size condition; for lg_k <= 25 no side condition) *)
Theorem flavor_codec_partial : forall l s hist c t' w',
  SInv l s hist -> 4 <= l <= 26 ->
  (l = 26 -> determine_flavor l (ncoup s) = FL_SLIDING -> t_num (table s) <= 2 ^ 31) ->
  compress_sketch s = Some c -> uncompress_sketch c l (ncoup s) = Some (t', w') ->
  w' = window s /\ TInv t' /\ t_nvb t' = 6 + l /\ (forall y, In y (t_items t') <-> In y (t_items (table s))).
Proof.
  intros l s hist c t' w' Hinv Hl H31 Hc Hu. destruct (flavor_goal l s hist c Hinv Hl H31 Hc) as [G1 _].
  exact (G1 _ _ Hu).
Qed.

(** ** the invariant only looks at the set of pairs in the table *)
Lemma SInv_table_ext l s hist t' : SInv l s hist -> TInv t' ->
  (forall y, In y (t_items t') <-> In y (t_items (table s))) ->
  SInv l (mkS (lgk s) (seed s) (merged s) (ncoup s) t' (window s) (woff s) (fic s)) hist.
Proof.
  intros [C Cn] Ht Hin. split; constructor; cbn [lgk ncoup table window woff fic]; try apply C; try apply Cn; auto.
  - intros v Hv. apply Hin in Hv. destruct (c_items _ _ _ C v Hv) as [H1 H2]. split; auto.
  - intros r c Hr Hc. rewrite (c_bits _ _ _ C) by auto. unfold bitF, in_win. cbn [window woff table].
    rewrite (mem_ext (rcp r c) (t_items t') (t_items (table s))) by exact Hin. reflexivity.
Qed.

(** ** the sketch after deserialize(serialize s) *)
Theorem codec_roundtrip_state : forall l s hist s',
  SInv l s hist -> 4 <= l <= 26 ->
  (l = 26 -> determine_flavor l (ncoup s) = FL_SLIDING -> t_num (table s) <= 2 ^ 31) ->
  codec_roundtrip s = Some s' ->
  lgk s' = lgk s /\ seed s' = seed s /\ merged s' = merged s /\ ncoup s' = ncoup s /\ window s' = window s /\
  woff s' = woff s /\ fic s' = fic s /\ (forall y, In y (t_items (table s')) <-> In y (t_items (table s))) /\
  SInv l s' hist.
Proof.
  intros l s hist s' Hinv Hl H31 H. pose proof Hinv as [C Cn]. pose proof (c_lgk _ _ _ C) as Hlg.
  unfold codec_roundtrip in H. destruct (compress_sketch s) as [c|] eqn:Ec; [|discriminate].
  rewrite Hlg in H. destruct (uncompress_sketch c l (ncoup s)) as [[t w]|] eqn:Eu; [|discriminate].
  destruct (flavor_codec_partial l s hist c t w Hinv Hl H31 Ec Eu) as (-> & T1 & T2 & T3).
  rewrite <- (n_off _ _ _ Cn) in H. inversion H; subst s'; clear H. cbn [lgk seed merged ncoup window woff fic table].
  split; [now rewrite Hlg|]. repeat (split; [reflexivity|]). split; [exact T3|].
  pose proof (SInv_table_ext l s hist t Hinv T1 T3) as HS. rewrite Hlg in HS. exact HS.
Qed.

(* ------------------------------------------------------------------------------------------ *)
(** * totality: compress_sketch never fails on a sketch satisfying the invariant (table of at most 2^26 pairs, the side
      condition of surprising_values_total), hence deserialize(serialize s) is defined *)

Lemma dense_cols l s hist : SInv l s hist -> window s <> [] ->
  forall x, In x (t_items (table s)) -> ~ (woff s <= N.land x 63 < woff s + 8).
Proof.
  intros [C _] Hw x Hx. destruct (c_items _ _ _ C x Hx) as [_ Hin]. rewrite in_win_dense in Hin by auto.
  intros [H1 H2]. destruct (N.leb_spec (woff s) (N.land x 63)); [|lia].
  destruct (N.ltb_spec (N.land x 63) (woff s + 8)); [discriminate|lia].
Qed.

Lemma sv_total L l : l <= 26 -> L <> [] -> NoDup L -> (forall x, In x L -> x < 2 ^ 32) ->
  N.of_nat (length L) <= 2 ^ 26 -> exists w, compress_surprising_values (sortN L) l = Some w.
Proof.
  intros Hl Hne Hnd Hlt Hn. apply surprising_values_total; try lia.
  - intros E. apply sortN_nil in E. contradiction.
  - now apply sortN_strict.
  - apply Forall_forall. intros x Hx. apply Hlt. now apply sortN_In.
  - now rewrite sortN_length.
Qed.

Theorem compress_total : forall l s hist, SInv l s hist -> 4 <= l <= 26 -> t_num (table s) <= 2 ^ 26 ->
  exists c, compress_sketch s = Some c.
Proof.
  intros l s hist Hinv Hl Hn. pose proof Hinv as [C Cn]. pose proof (c_lgk _ _ _ C) as Hlg.
  destruct (items_facts l s hist Hinv ltac:(lia)) as [Hnd Hit].
  rewrite (tnum_items l s hist Hinv) in Hn.
  assert (H32 : forall x, In x (t_items (table s)) -> x < 2 ^ 32) by (intros x Hx; apply Hit, Hx).
  destruct (pow_bounds l Hl) as [Hk Hk6].
  pose proof (flavor_cases l (ncoup s)) as Hfc. cbv zeta in Hfc.
  destruct Hfc as [Hf|[Hf|[Hf|[Hf|Hf]]]].
  - rewrite compress_empty by (rewrite Hlg; exact Hf). eauto.
  - pose proof (flavor_sparse_window l s hist Hinv Hf) as Hw.
    rewrite compress_sparse by (rewrite Hlg; exact Hf). rewrite Hw, Hlg.
    destruct (sv_total (t_items (table s)) l) as (w & ->); eauto; try lia.
    assert (Hc0 : ncoup s <> 0).
    { intros E. apply (flavor_empty_iff l) in E. rewrite E in Hf. discriminate. }
    destruct hist as [|x h]; [exfalso; apply Hc0; eapply hist_nil_count; eauto|].
    assert (Hx : In x (t_items (table s))) by (apply (sparse_items_hist l s (x :: h) Hinv Hw); left; reflexivity).
    intros E. rewrite E in Hx. destruct Hx.
  - assert (Hw : window s <> []).
    { apply (flavor_dense_window l s hist Hinv). rewrite Hf. reflexivity. }
    pose proof (flavor_mid_offset l s hist Hinv (or_introl Hf)) as Ho.
    destruct (hybrid_facts l s hist Hinv Hl Hw Ho) as (Hicol & Hwp & Hwcol & HLnd & HLv & HLh).
    set (L := t_items (table s) ++ window_pairs (window s) 0) in *.
    assert (Hcnt : N.of_nat (length L) = ncoup s).
    { rewrite (n_count _ _ _ Cn). f_equal. apply Permutation_length. apply NoDup_Permutation; auto.
      - apply distinct_NoDup.
      - intros x. rewrite distinct_In. apply HLh. }
    assert (Hc2 : ncoup s <> 0 /\ 2 * ncoup s < 2 ^ l).
    { unfold determine_flavor in Hf. destruct (N.eqb_spec (ncoup s) 0); [discriminate|].
      destruct (_ <? _); [discriminate|]. destruct (N.ltb_spec (2 * ncoup s) (2 ^ l)); [auto|].
      destruct (_ <? _); discriminate. }
    rewrite compress_hybrid by (rewrite Hlg; exact Hf). rewrite (match_nonnil _ _ _ Hw).
    rewrite Ho, Hlg. cbn [N.eqb negb]. fold L. rewrite sortN_length, Hcnt, N.eqb_refl. cbn [negb].
    destruct (sv_total L l) as (w & ->); eauto; try lia.
    + intros E. rewrite E in Hcnt. cbn [length] in Hcnt. lia.
    + intros x Hx. destruct (HLv x Hx) as [_ H]. apply N.lt_le_trans with (2 ^ (6 + l)); auto.
      apply N.pow_le_mono_r; lia.
  - assert (Hw : window s <> []).
    { apply (flavor_dense_window l s hist Hinv). rewrite Hf. reflexivity. }
    pose proof (flavor_mid_offset l s hist Hinv (or_intror Hf)) as Ho.
    pose proof (dense_cols l s hist Hinv Hw) as Hcols. rewrite Ho in Hcols.
    destruct (t_items (table s)) as [|i0 ir] eqn:Ei.
    + rewrite compress_dense_nil by (auto; left; rewrite Hlg; exact Hf). eauto.
    + rewrite <- Ei in *. assert (Hne : t_items (table s) <> []) by (rewrite Ei; discriminate). clear Ei i0 ir.
      rewrite compress_pinned by (auto; rewrite Hlg; exact Hf). rewrite Hlg.
      assert (Hcol : forall x, In x (t_items (table s)) -> 8 <= N.land x 63).
      { intros x Hx. specialize (Hcols x Hx). lia. }
      replace (existsb _ (t_items (table s))) with false.
      2:{ symmetry. apply not_true_is_false. intros E. apply existsb_exists in E. destruct E as (x & Hx & E).
          apply N.ltb_lt in E. specialize (Hcol x Hx). lia. }
      destruct (sv_total (map (fun p => p - 8) (t_items (table s))) l) as (w & ->); eauto; try lia.
      * intros E. apply map_eq_nil in E. contradiction.
      * apply (NoDup_map_linv _ (fun p => p + 8)); auto. intros x Hx. apply (sub8_col x (Hcol x Hx)).
      * intros y Hy. apply in_map_iff in Hy. destruct Hy as (x & <- & Hx). specialize (H32 x Hx). lia.
      * now rewrite map_length.
  - assert (Hw : window s <> []).
    { apply (flavor_dense_window l s hist Hinv). rewrite Hf. reflexivity. }
    pose proof (dense_cols l s hist Hinv Hw) as Hcols. pose proof (c_off56 _ _ _ C) as Ho.
    assert (Hc27 : 27 * 2 ^ l <= 8 * ncoup s).
    { unfold determine_flavor in Hf. destruct (ncoup s =? 0); [discriminate|].
      destruct (_ <? _); [discriminate|]. destruct (_ <? _); [discriminate|].
      destruct (N.ltb_spec (8 * ncoup s) (27 * 2 ^ l)); [discriminate|auto]. }
    pose proof (sliding_phase_lt16 l (ncoup s) ltac:(lia) Hc27) as Hph.
    destruct (t_items (table s)) as [|i0 ir] eqn:Ei.
    + rewrite compress_dense_nil by (auto; right; rewrite Hlg; exact Hf). eauto.
    + rewrite <- Ei in *. assert (Hne : t_items (table s) <> []) by (rewrite Ei; discriminate). clear Ei i0 ir.
      rewrite compress_sliding by (auto; rewrite Hlg; exact Hf). rewrite Hlg. cbv zeta.
      set (phase := determine_pseudo_phase l (ncoup s)) in *.
      destruct (N.leb_spec 16 phase); [lia|]. destruct (N.ltb_spec 56 (woff s)); [lia|].
      replace (existsb _ (t_items (table s))) with false.
      2:{ symmetry. apply not_true_is_false. intros E. apply existsb_exists in E. destruct E as (x & Hx & E).
          apply N.leb_le in E. rewrite col_mod in E.
          destruct (sliding_col_rt (N.land x 63) (woff s) (land63_lt x) Ho (Hcols x Hx)) as [Hlt _]. lia. }
      assert (Hed : forall x, In x (t_items (table s)) ->
                sl_enc phase (woff s) x < 2 ^ (6 + l) /\ sl_dec phase (woff s) (sl_enc phase (woff s) x) = x).
      { intros x Hx. destruct (Hit x Hx) as (_ & Hlt & _). apply sl_enc_dec; auto. }
      destruct (sv_total (map (sl_enc phase (woff s)) (t_items (table s))) l) as (w & ->); eauto; try lia.
      * intros E. apply map_eq_nil in E. contradiction.
      * apply (NoDup_map_linv _ (sl_dec phase (woff s))); auto. intros x Hx. apply Hed, Hx.
      * intros y Hy. apply in_map_iff in Hy. destruct Hy as (x & <- & Hx). destruct (Hed x Hx) as [H1 _].
        apply N.lt_le_trans with (2 ^ (6 + l)); auto. apply N.pow_le_mono_r; lia.
      * now rewrite map_length.
Qed.

Theorem codec_roundtrip_total : forall l s hist, SInv l s hist -> 4 <= l <= 26 ->
  t_num (table s) <= 2 ^ 26 -> table_fits l s ->
  exists s', codec_roundtrip s = Some s'.
Proof.
  intros l s hist Hinv Hl Hn Hfit. pose proof Hinv as [C Cn]. pose proof (c_lgk _ _ _ C) as Hlg.
  destruct (compress_total l s hist Hinv Hl Hn) as (c & Ec).
  destruct (flavor_codec_rt l s hist c Hinv Hl Hfit Ec) as (t' & Eu & _).
  unfold codec_roundtrip. rewrite Ec, Hlg, Eu. eauto.
Qed.

Print Assumptions make_from_pairs_total.
Print Assumptions flavor_codec_rt.
Print Assumptions flavor_codec_rt_nonsliding.
Print Assumptions flavor_codec_partial.
Print Assumptions codec_roundtrip_state.
Print Assumptions compress_total.
Print Assumptions codec_roundtrip_total.
