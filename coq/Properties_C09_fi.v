(* Properties_C09_fi.v — the frequent-items sketch image round-trips (both readers, with anything after the image), the restored
   sketch is observationally the original and re-serializes to the same image up to the order of the counters; image size =
   get_serialized_size_bytes; header form.  Only statements; proofs in FiCodecProofs.v / FiSerProofs.v.  Model: FiCodecDefs.v
   (readers) over FiDefs.v (sketch and writer).  The one state that does NOT round-trip is the recorded finding: a sketch with no
   active counter but non-zero total weight / offset (all counters purged) is written as the empty image
   (C09_fi_purged_empty_refuted). *)
From Coq Require Import ZArith NArith List Bool Lia Permutation.
From DS Require Import Word Murmur3 RunnerLib FiDefs FiProofs FiMapProofs FiDelProofs FiIterProofs FiRefine FiSerProofs FiCodecDefs FiCodecProofs.
Import ListNotations.
Local Open Scope Z_scope.

(* dec (enc s ++ rest) = the semantic round trip (fresh sketch of the same sizes, counters re-inserted in image order, total and
   offset restored), consuming exactly the image; the bytes reader and the stream reader are the two projections of fi_dec *)
Theorem C09_fi_roundtrip : forall kind (s : sk) rest, SerOk2 kind s ->
  fi_dec_stream kind (fi_enc kind s ++ rest) = Some (sk_roundtrip item item_eqb (fi_hash kind) s, length (fi_enc kind s)) /\
  fi_dec_bytes kind (fi_enc kind s ++ rest) = Some (sk_roundtrip item item_eqb (fi_hash kind) s).
Proof.
  intros kind s rest Ok. unfold fi_dec_stream, fi_dec_bytes. rewrite (fi_dec_enc kind s rest Ok). split; reflexivity.
Qed.

(* for every reachable sketch (any history of new / update / merge / round trip, C12's SReach) that is not purged-empty: the
   restored sketch has the same configuration, total weight, maximum error, number of counters, the same counters (as a set) and
   the same lower bound, estimate and upper bound for EVERY item *)
Theorem C09_fi_observational : forall kind (s : sk) t T, SReach item item_eqb (fi_hash kind) s t T -> not_purged_empty s ->
  let s' := sk_roundtrip item item_eqb (fi_hash kind) s in
  lgm _ (sk_map _ s') = lgm _ (sk_map _ s) /\ length (tab _ (sk_map _ s')) = length (tab _ (sk_map _ s)) /\
  sk_tot _ s' = sk_tot _ s /\ sk_off _ s' = sk_off _ s /\ nact _ (sk_map _ s') = nact _ (sk_map _ s) /\
  Permutation (abs_ents item (tab _ (sk_map _ s'))) (abs_ents item (tab _ (sk_map _ s))) /\
  (forall x, sk_lb item item_eqb (fi_hash kind) s' x = sk_lb item item_eqb (fi_hash kind) s x /\
             sk_ub item item_eqb (fi_hash kind) s' x = sk_ub item item_eqb (fi_hash kind) s x /\
             sk_est item item_eqb (fi_hash kind) s' x = sk_est item item_eqb (fi_hash kind) s x).
Proof.
  intros kind s t T R Hne s'.
  pose proof (k_wf _ _ _ _ _ _ (SReach_SkInv item item_eqb item_eqb_spec (fi_hash kind) s t T R)) as W.
  destruct (roundtrip_obs kind s W Hne) as (_ & A & B & C & D & E & F & G). fold s' in A, B, C, D, E, F, G.
  repeat (split; [assumption|]). intros x. unfold sk_ub, sk_est. fold (sk_lb item item_eqb (fi_hash kind) s' x).
  fold (sk_lb item item_eqb (fi_hash kind) s x). rewrite (G x), D. auto.
Qed.

(* and it stays a reachable sketch for the same stream: every guarantee of C12 continues to hold after further updates/merges *)
Theorem C09_fi_restored_reachable : forall kind (s : sk) t T rest, SReach item item_eqb (fi_hash kind) s t T -> SerOk2 kind s ->
  nact _ (sk_map _ s) <> 0 \/ T = 0 ->
  exists s', fi_dec_bytes kind (fi_enc kind s ++ rest) = Some s' /\ SReach item item_eqb (fi_hash kind) s' t T.
Proof.
  intros kind s t T rest R Ok Hne. exists (sk_roundtrip item item_eqb (fi_hash kind) s).
  split; [exact (proj2 (C09_fi_roundtrip kind s rest Ok))|now apply SR_roundtrip].
Qed.

(* re-serialization: the 32 preamble bytes are identical and the counters are the same set (the table order is unspecified) *)
Theorem C09_fi_reserialize : forall kind (s : sk) t T, SReach item item_eqb (fi_hash kind) s t T -> not_purged_empty s ->
  let s' := sk_roundtrip item item_eqb (fi_hash kind) s in
  firstn 32 (fi_enc kind s') = firstn 32 (fi_enc kind s) /\
  Permutation (map (fun c => (ck _ c, cv _ c)) (entries item (sk_map _ s')))
              (map (fun c => (ck _ c, cv _ c)) (entries item (sk_map _ s))).
Proof.
  intros kind s t T R Hne.
  exact (fi_reserialize kind s (k_wf _ _ _ _ _ _ (SReach_SkInv item item_eqb item_eqb_spec (fi_hash kind) s t T R)) Hne).
Qed.

(* |enc s| = get_serialized_size_bytes(); serialize(h) = h zero bytes followed by the image *)
Theorem C09_fi_size : forall kind (s : sk), SerOk kind s -> Z.of_nat (length (fi_enc kind s)) = fi_size kind s.
Proof. exact fi_enc_size. Qed.

Theorem C09_fi_header_form : forall h kind (s : sk),
  fi_enc_hdr h kind s = repeat 0 h ++ fi_enc kind s /\ skipn h (fi_enc_hdr h kind s) = fi_enc kind s.
Proof.
  intros h kind s. split; [reflexivity|]. unfold fi_enc_hdr. apply skipn_app_len. apply repeat_length.
Qed.

(* ---- non-vacuity: a string sketch with two counters, an integer sketch in estimation mode, the empty sketch ---- *)
Definition ex_str : sk := upd 2 (upd 2 (sk_new item 4 3) [97; 98] 7) [99] 2.
Definition ex_est : sk := fold_left (fun s xw => upd 0 s [fst xw] (snd xw)) [(9,10);(1,1);(2,2);(3,1);(4,3);(5,1);(6,1);(9,5);(1,1)] (sk_new item 3 3).

Example C09_ex_str_ok : SerOk2 2 ex_str.
Proof. apply ser_ok_b_sound. vm_compute. reflexivity. Qed.

Example C09_ex_str_roundtrip :
  fi_enc 2 ex_str = [4;1;10;4;3;0;0;0; 2;0;0;0; 0;0;0;0; 9;0;0;0;0;0;0;0; 0;0;0;0;0;0;0;0;
                     7;0;0;0;0;0;0;0; 2;0;0;0;0;0;0;0; 2;0;0;0;97;98; 1;0;0;0;99] /\
  fi_size 2 ex_str = 59 /\
  (exists s', fi_dec_stream 2 (fi_enc 2 ex_str ++ [165; 165]) = Some (s', 59%nat) /\ fi_enc 2 s' = fi_enc 2 ex_str).
Proof.
  split; [vm_compute; reflexivity|]. split; [vm_compute; reflexivity|].
  eexists. split; vm_compute; reflexivity.
Qed.

Example C09_ex_est_ok : SerOk2 0 ex_est.
Proof. apply ser_ok_b_sound. vm_compute. reflexivity. Qed.

Example C09_ex_est_roundtrip :
  sk_off _ ex_est = 1 /\ not_purged_empty ex_est /\
  exists s', fi_dec_bytes 0 (fi_enc 0 ex_est) = Some s' /\ sk_off _ s' = 1 /\ sk_tot _ s' = 25 /\
             sk_lb item item_eqb (fi_hash 0) s' [9] = 14.
Proof.
  split; [vm_compute; reflexivity|]. split; [left; vm_compute; discriminate|].
  eexists. split; [vm_compute; reflexivity|]. vm_compute. repeat split; reflexivity.
Qed.

Example C09_ex_empty : fi_enc 0 (sk_new item 5 3) = [1; 1; 10; 5; 3; 5; 0; 0] /\
  fi_dec_stream 0 [1; 1; 10; 5; 3; 5; 0; 0] = Some (sk_new item 5 3, 8%nat).
Proof. split; vm_compute; reflexivity. Qed.

(* the recorded finding: seven items of weight 1 in a map of capacity 6 are all purged (total 7, offset 1); the image is the
   empty form and the restored sketch has total 0 and offset 0 *)
Example C09_fi_purged_empty_refuted :
  let s := fold_left (fun s x => upd 0 s [x] 1) [0;1;2;3;4;5;6] (sk_new item 3 3) in
  sk_tot _ s = 7 /\ sk_off _ s = 1 /\ ~ not_purged_empty s /\ fi_enc 0 s = [1; 1; 10; 3; 3; 5; 0; 0] /\
  exists s', fi_dec_bytes 0 (fi_enc 0 s) = Some s' /\ sk_tot _ s' = 0 /\ sk_off _ s' = 0.
Proof.
  split; [vm_compute; reflexivity|]. split; [vm_compute; reflexivity|]. split.
  - intros [H|[H _]]; vm_compute in H; [apply H; reflexivity|discriminate].
  - split; [vm_compute; reflexivity|]. eexists. split; [vm_compute; reflexivity|]. split; vm_compute; reflexivity.
Qed.

Print Assumptions C09_fi_roundtrip.
Print Assumptions C09_fi_observational.
Print Assumptions C09_fi_restored_reachable.
Print Assumptions C09_fi_reserialize.
Print Assumptions C09_fi_size.
Print Assumptions C09_fi_header_form.
