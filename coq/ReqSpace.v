(* ReqSpace.v — statements of ReqProofs/ReqView packaged for reachable states; space accounting. *)
From Coq Require Import ZArith List Bool Lia Permutation Sorted.
From DS Require Import RunnerLib SortedView ReqDefs ReqProofs ReqView.
Import ListNotations.
Local Open Scope Z_scope.

Theorem P_compactors_sorted : forall ic s log, reach ic s log ->
  lgw_from 0 (comps s) /\
  (forall h, (1 <= h < length (comps s))%nat -> ssorted (items (nth h (comps s) dummy))) /\
  (srt (nth 0 (comps s) dummy) = true -> ssorted (items (nth 0 (comps s) dummy))).
Proof.
  intros ic s log R. destruct (reach_Rel ic s log R) as [[_ NE LG _ _ _ S0 S1 _] _ _ _ _ _ _].
  destruct (comps s) as [|c r]; [congruence|]. cbn [tl nth length] in *. inversion S0 as [|? ? Sc Sr]; subst.
  splits; auto.
  intros h H. destruct h as [|h]; [lia|]. cbn [nth].
  assert (L : (h < length r)%nat) by lia.
  apply (Forall_nth_in comp_sorted r h dummy Sr L). apply (Forall_nth_in (fun c => srt c = true) r h dummy S1 L).
Qed.

Theorem P_iterator : forall ic s log, reach ic s log ->
  exists l, iterate s = Some l /\ len l = nret s /\ sum_weights l = rn s /\ map fst l = all_items (comps s) /\
  (forall x w, In (x, w) l <-> exists c, In c (comps s) /\ In x (items c) /\ w = 2 ^ lgw c).
Proof.
  intros ic s log R. pose proof (reach_Rel ic s log R) as Q. exists (iter_all (comps s)).
  pose proof (r_inv s log Q) as I. splits.
  - eapply iterate_spec; eauto.
  - rewrite iter_all_len. symmetry. apply (i_ret s I).
  - rewrite iter_all_sum. apply (i_w s I).
  - apply iter_all_items.
  - intros x w. apply iter_all_in.
Qed.

Theorem P_space_accounting : forall ic s log, reach ic s log ->
  nret s = sum_items (comps s) /\ maxnom s = sum_nom (comps s).
Proof. intros ic s log R. pose proof (r_inv s log (reach_Rel ic s log R)) as I. split; [apply (i_ret s I)|apply (i_nom s I)]. Qed.

(* ===================== the space bound: num_retained < max_nom_size after every operation ===================== *)
Definition under (c : comp) : Prop := nitems c < nom_cap c.
Definition done_upto (h : nat) (s : req) : Prop :=
  forall i, (i < h)%nat -> (i < length (comps s))%nat -> under (nth i (comps s) dummy).
Definition pot (h : nat) (s : req) : Z := Z.of_nat (length (comps s) - h) + sum_items (skipn h (comps s)).

Lemma skipn_pre {A} (pre l : list A) : skipn (length pre) (pre ++ l) = l.
Proof. induction pre; simpl; auto. Qed.
Lemma skipn_pre1 {A} (pre : list A) x l : skipn (S (length pre)) (pre ++ x :: l) = l.
Proof. induction pre; simpl; auto. Qed.

Lemma sum_items_skipn_le n cs : sum_items (skipn n cs) <= sum_items cs.
Proof.
  rewrite <- (firstn_skipn n cs) at 2. rewrite sum_items_app. pose proof (sum_items_nonneg (firstn n cs)). lia.
Qed.

Lemma sum_items_skipn_S h cs : (h < length cs)%nat ->
  sum_items (skipn h cs) = nitems (nth h cs dummy) + sum_items (skipn (S h) cs).
Proof.
  intro H. destruct (nth_split1 cs h dummy H) as (pre & post & E & L).
  rewrite E at 1 3. rewrite <- L. rewrite skipn_pre, skipn_pre1. reflexivity.
Qed.

Lemma compact_step_space s2 h r : Inv s2 -> (S h < length (comps s2))%nat ->
  nom_cap (getc s2 h) <= nitems (getc s2 h) -> srt (getc s2 h) = true ->
  leaf (compact (hra s2) (getc s2 h) (getc s2 (S h))) r ->
  let cs := upd_nth (S h) (fun _ => snd (fst r)) (upd_nth h (fun _ => fst (fst r)) (comps s2)) in
  under (nth h cs dummy) /\ (forall i, (i < h)%nat -> nth i cs dummy = nth i (comps s2) dummy) /\
  sum_items (skipn (S h) cs) < sum_items (skipn h (comps s2)).
Proof.
  intros [K NE LG RT NM W S0 S1 PA] HL CAP SRT L. cbv zeta.
  apply compact_leaf in L as [cn ->]. unfold getc in *.
  destruct (nth_split2 (comps s2) h dummy HL) as (pre & post & E & LP).
  set (c := nth h (comps s2) dummy) in *. set (nx := nth (S h) (comps s2) dummy) in *.
  rewrite E in S0, PA.
  apply Forall_app in S0 as (_ & S0b). inversion S0b as [|? ? Sc S0c]; subst. inversion S0c as [|? ? Sn _]; subst.
  apply Forall_app in PA as (_ & PAb). inversion PAb as [|? ? Pc _]; subst.
  assert (SRTn : srt nx = true).
  { rewrite E in S1. destruct pre as [|x pre]; cbn [app tl] in S1.
    - inversion S1; subst; auto.
    - apply Forall_app in S1 as (_ & S1). inversion S1 as [|? ? _ S1']; subst. inversion S1'; subst; auto. }
  pose proof (compact_with_spec (hra s2) c nx cn Pc CAP (Sc SRT) (Sn SRTn)) as CP.
  set (r := compact_with (hra s2) c nx cn) in *.
  destruct CP as [_ _ _ (G9 & G10 & G11) _ _ (G15 & G16 & G18) _].
  set (c' := fst (fst r)) in *. set (nx' := snd (fst r)) in *.
  assert (EC : upd_nth (S (length pre)) (fun _ => nx') (upd_nth (length pre) (fun _ => c') (comps s2)) = pre ++ c' :: nx' :: post).
  { rewrite E at 1. apply (upd_nth_at2 pre c nx post (fun _ => c') (fun _ => nx')). }
  rewrite EC. splits.
  - rewrite app_nth2 by lia. rewrite Nat.sub_diag. exact G18.
  - intros i Hi. rewrite E. rewrite !app_nth1 by lia. reflexivity.
  - rewrite skipn_pre1. rewrite E, skipn_pre. rewrite !sum_items_cons. lia.
Qed.

Lemma sort0_sum s : Inv s -> sum_items (comps (setc s 0%nat (csort (getc s 0%nat)))) = sum_items (comps s).
Proof.
  intros [_ NE _ _ _ _ _ _ _]. unfold setc, set_comps, getc; cbn [comps].
  destruct (comps s) as [|c r]; [congruence|]. cbn [upd_nth nth]. rewrite !sum_items_cons.
  destruct (csort_spec c) as (_ & _ & _ & _ & _ & _ & _ & _ & _ & F10). lia.
Qed.

Lemma pot_nonneg h s : 0 <= pot h s.
Proof. unfold pot. pose proof (sum_items_nonneg (skipn h (comps s))). lia. Qed.

Lemma compress_loop_done ic : forall fuel h s s', Inv s -> (h <= length (comps s))%nat -> pot h s < Z.of_nat fuel ->
  done_upto h s -> leaf (compress_loop ic fuel h s) s' -> Forall under (comps s').
Proof.
  induction fuel as [|f IH]; intros h s s' I HLE POT DONE L.
  { pose proof (pot_nonneg h s). lia. }
  cbn [compress_loop] in L.
  destruct (Nat.ltb_spec h (length (comps s))) as [HL|HL].
  2:{ apply leaf_ret_inv in L. subst. apply Forall_forall. intros c Hc. apply In_nth with (d := dummy) in Hc as (i & Hi & <-).
      apply DONE; lia. }
  pose proof (sum_items_skipn_S h (comps s) HL) as SK.
  destruct (Z.leb_spec (nom_cap (getc s h)) (nitems (getc s h))) as [CAP|CAP].
  2:{ eapply (IH (S h) s s'); eauto.
      - unfold pot in *. pose proof (nitems_nonneg (nth h (comps s) dummy)). lia.
      - intros i Hi Hl. destruct (Nat.eq_dec i h) as [->|N]; [exact CAP|apply DONE; lia]. }
  set (s1 := if (h =? 0)%nat then setc s 0%nat (csort (getc s 0%nat)) else s) in *.
  assert (H1 : Inv s1 /\ length (comps s1) = length (comps s) /\ srt (getc s1 h) = true /\
               nom_cap (getc s1 h) = nom_cap (getc s h) /\ nitems (getc s1 h) = nitems (getc s h) /\
               sum_items (skipn h (comps s1)) = sum_items (skipn h (comps s)) /\
               (forall i, (i < h)%nat -> nth i (comps s1) dummy = nth i (comps s) dummy)).
  { unfold s1. destruct h as [|h]; cbn [Nat.eqb].
    - destruct (sort0_spec s I) as (A & _ & B & C & D & E & _). splits; auto; [|intros i Hi; lia].
      cbn [skipn]. now apply sort0_sum.
    - splits; auto.
      destruct I as [_ NE _ _ _ _ _ S1 _]. unfold getc.
      destruct (comps s) as [|c0 r]; [congruence|]. cbn [tl nth length] in *.
      apply (Forall_nth_in (fun c => srt c = true) r h dummy S1). lia. }
  destruct H1 as (I1 & LEN1 & SRT1 & NC1 & NI1 & SUM1 & PRE1).
  apply leaf_bind in L as (s2 & L2 & L). apply leaf_bind in L as (r & L3 & L).
  assert (H2 : Inv s2 /\ (S h < length (comps s2))%nat /\ (length (comps s2) <= S (length (comps s1)))%nat /\
               getc s2 h = getc s1 h /\ sum_items (skipn h (comps s2)) = sum_items (skipn h (comps s1)) /\
               (forall i, (i < h)%nat -> nth i (comps s2) dummy = nth i (comps s1) dummy)).
  { destruct (Nat.leb_spec (length (comps s1)) (h + 1)) as [TOP|TOP].
    - apply grow_leaf in L2 as [c0 ->]. destruct (grow_with_spec s1 c0 I1) as (I2 & K2 & E2 & A2).
      splits; auto.
      + rewrite E2, app_length. simpl. lia.
      + rewrite E2, app_length. simpl. lia.
      + unfold getc. rewrite E2, app_nth1 by lia. reflexivity.
      + rewrite E2, skipn_app. replace (h - length (comps s1))%nat with 0%nat by lia. cbn [skipn].
        rewrite sum_items_app. cbn [sum_items fold_right]. unfold nitems; cbn [items new_comp]. change (len (@nil Z)) with 0. lia.
      + intros i Hi. rewrite E2, app_nth1 by lia. reflexivity.
    - apply leaf_ret_inv in L2. subst s2. splits; auto; lia. }
  destruct H2 as (I2 & LEN2 & LEN2' & G2 & SUM2 & PRE2).
  assert (CAP2 : nom_cap (getc s2 h) <= nitems (getc s2 h)) by (rewrite G2, NC1, NI1; exact CAP).
  assert (SRT2 : srt (getc s2 h) = true) by (rewrite G2; exact SRT1).
  destruct (compact_step s2 h r I2 LEN2 CAP2 SRT2 L3) as (I3 & _ & LEN3 & _).
  destruct (compact_step_space s2 h r I2 LEN2 CAP2 SRT2 L3) as (U3 & PRE3 & SUM3).
  eapply IH; [exact I3| | | |exact L].
  - cbn [comps] in *. lia.
  - unfold pot in *. cbn [comps] in *. rewrite LEN3. lia.
  - intros i Hi Hl. cbn [comps] in *. destruct (Nat.eq_dec i h) as [->|N]; [exact U3|].
    rewrite PRE3, PRE2, PRE1 by lia. apply DONE; lia.
Qed.

Lemma compress_done ic s s' : Inv s -> leaf (compress ic s) s' -> Forall under (comps s').
Proof.
  intros I L. unfold compress in L. eapply (compress_loop_done ic _ 0%nat s s'); [exact I|lia| | |exact L].
  - unfold pot. cbn [skipn]. pose proof (sum_items_nonneg (comps s)). lia.
  - intros i Hi. lia.
Qed.

Lemma under_sum cs : cs <> [] -> Forall under cs -> sum_items cs < sum_nom cs.
Proof.
  intros NE F. induction F as [|c r Hc Hr IH]; [congruence|]. rewrite sum_items_cons, sum_nom_cons. unfold under in Hc.
  destruct r as [|c1 r]; [cbn; lia|]. specialize (IH ltac:(discriminate)). lia.
Qed.

Lemma compress_space ic s s' : Inv s -> leaf (compress ic s) s' -> nret s' < maxnom s'.
Proof.
  intros I L. destruct (compress_spec ic s s' I L) as (I' & _ & _).
  rewrite (i_ret s' I'), (i_nom s' I'). apply under_sum; [apply (i_ne s' I')|]. exact (compress_done ic s s' I L).
Qed.

(* the space bound as an invariant of the reachable states *)
Theorem P_space : forall ic s log, reach ic s log ->
  nret s = sum_items (comps s) /\ maxnom s = sum_nom (comps s) /\ nret s < maxnom s.
Proof.
  intros ic s log R. destruct (P_space_accounting ic s log R) as (A & B). splits; auto. clear A B.
  induction R as [k h s HK L|s log x s' R IH L|s l1 o l2 s' R1 IH1 R2 IH2 HH L|s log R IH].
  - unfold req_new in L. apply grow_leaf in L as [c0 ->]. unfold grow_with; cbn [nret maxnom comps app].
    cbn [sum_nom fold_right]. unfold nom_cap; cbn [nsec ssz new_comp rk]. pose proof (eff_k_ge k). lia.
  - pose proof (reach_Rel ic s log R) as Q. unfold update in L.
    destruct (upd_minmax_fields s x x) as (E1 & E2 & E3 & E4 & E5 & E6).
    set (s1 := upd_minmax s x x) in *.
    set (s2 := mkreq (rk s1) (hra s1) (maxnom s1) (nret s1 + 1) (rn s1 + 1)
                     (upd_nth 0 (fun c => append (hra s1) c x) (comps s1)) (rmin s1) (rmax s1)) in *.
    destruct (Z.eqb_spec (nret s2) (maxnom s2)) as [EQ|NEQ].
    + (* s2 satisfies Inv: it is the state update_full builds; recover it from the leaf of compress *)
      assert (I2 : Inv s2).
      { destruct Q as [I N Mi Ma Su NEs ONE]. destruct I as [K NE LG RT NM W S0 S1 PA].
        destruct (comps s) as [|c0 r] eqn:EC; [congruence|].
        destruct (append_spec (hra s1) c0 x) as (A1 & A2 & A3 & A4 & A5 & A6 & A7 & A8 & A9).
        inversion S0 as [|? ? Sc Sr]; subst. inversion PA as [|? ? Pc Pr]; subst.
        cbn [lgw_from tl] in *. destruct LG as (LG0 & LG1).
        assert (EC2 : comps s2 = append (hra s1) c0 x :: r) by (unfold s2; cbn [comps]; rewrite E1; reflexivity).
        constructor; rewrite ?EC2; unfold s2; cbn [rk nret maxnom rn tl]; auto.
        - rewrite E3. exact K.
        - discriminate.
        - cbn [lgw_from]. rewrite A3. auto.
        - rewrite E5, RT, !sum_items_cons, A2. lia.
        - rewrite E6, NM, !sum_nom_cons. unfold nom_cap. rewrite A4, A5. reflexivity.
        - rewrite E2, <- W, !Rs_cons. unfold Rc. rewrite !cnt_true, A3, LG0.
          fold (nitems (append (hra s1) c0 x)) (nitems c0). rewrite A2. change (2 ^ 0) with 1. lia. }
      eapply compress_space; eauto.
    + apply leaf_ret_inv in L. subst s'. unfold s2 in *; cbn [nret maxnom] in *. rewrite E5, E6 in *. lia.
  - pose proof (reach_Rel ic s l1 R1) as Q1. pose proof (reach_Rel ic o l2 R2) as Q2.
    destruct (merge_full ic s l1 o l2 s' Q1 Q2 L) as (Q' & _ & _).
    unfold merge in L. destruct (rn o =? 0).
    + apply leaf_ret_inv in L. subst. exact IH1.
    + apply leaf_bind in L as (s2 & L2 & L).
      set (cs := merge_comps (hra s2) (comps s2) (comps o)) in *.
      set (s3 := mkreq (rk s2) (hra s2) (sum_nom cs) (sum_items cs) (rn s2 + rn o) cs (rmin s2) (rmax s2)) in *.
      destruct (Z.leb_spec (maxnom s3) (nret s3)) as [GE|LT].
      * (* Inv s3 as in merge_full *)
        assert (I3 : Inv s3).
        { destruct (upd_minmax_fields s (rmin o) (rmax o)) as (E1 & E2 & E3 & E4 & E5 & E6).
          assert (I1 : Inv (upd_minmax s (rmin o) (rmax o))) by (apply (Inv_fields s _); auto; apply Q1).
          destruct (grow_to_spec ic _ _ _ _ I1 (Nat.le_add_l _ _) L2) as (I2 & KK & LEN2 & _ & _).
          destruct I2 as [Kk NEc LG RT NM W S0 S1 PA]. destruct (r_inv o l2 Q2) as [Kko NEco LGo RTo NMo Wo S0o S1o PAo].
          destruct (merge_comps_spec (hra s2) (comps s2) (comps o) 0 PA S0 PAo S0o LG LGo) as (R1' & R2' & R3' & R4' & R5' & R6' & R7' & R8' & R9').
          fold cs in R1', R2', R3', R4', R5', R6', R7', R8', R9'.
          assert (LE : (length (comps o) <= length (comps s2))%nat) by lia.
          rewrite (firstn_all2 (comps o) LE) in R5'.
          assert (NEcs : cs <> []) by (intro X; rewrite X in R1'; destruct (comps s2); [congruence|discriminate]).
          constructor; unfold s3; cbn [rk nret maxnom rn comps]; auto.
          - rewrite R5', W, Wo. reflexivity.
          - destruct cs as [|m r] eqn:Ecs; [congruence|]. cbn [tl].
            destruct (comps s2) as [|c2 r2] eqn:E2c; [congruence|]. cbn [tl] in S1.
            destruct (comps o) as [|o0 ro] eqn:Eoc; [congruence|].
            unfold cs in Ecs. change (merge_comps (hra s2) (c2 :: r2) (o0 :: ro)) with (comp_merge (hra s2) c2 o0 :: merge_comps (hra s2) r2 ro) in Ecs.
            inversion Ecs; subst.
            destruct (merge_comps_spec (hra s2) r2 ro 1) as (_ & _ & _ & _ & _ & _ & Q & _); auto.
            + now inversion PA. + now inversion S0. + now inversion PAo. + now inversion S0o.
            + cbn [lgw_from] in LG. tauto. + cbn [lgw_from] in LGo. tauto. }
        eapply compress_space; eauto.
      * apply leaf_ret_inv in L. subst s'. exact LT.
  - unfold sort_level_zero, set_comps; cbn [nret maxnom]. exact IH.
Qed.
