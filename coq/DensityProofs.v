(* DensityProofs.v — lemmas about the density sketch model (DensityDefs.v). *)
From Coq Require Import ZArith NArith List Bool Lia.
From DS Require Import RunnerLib DensityDefs.
Import ListNotations.
Local Open Scope Z_scope.

(* ---------------------------------------------------------------- *)
(* generic facts about the fuelled loops                             *)
(* ---------------------------------------------------------------- *)
Section WhileFacts.
  Variable S : Type.
  Variable cond : S -> bool.
  Variable body : S -> S.
  Notation wf_ := (while_fuel S cond body).
  Notation wp_ := (while_pow S cond body).

  Lemma while_fuel_done : forall f s, cond s = false -> wf_ f s = s.
  Proof. intros [|f] s H; simpl; [reflexivity|now rewrite H]. Qed.

  Lemma while_fuel_add : forall a b s, wf_ (a + b) s = wf_ b (wf_ a s).
  Proof.
    induction a as [|a IH]; intros b s; simpl; [reflexivity|].
    destruct (cond s) eqn:E; [apply IH|].
    symmetry; now apply while_fuel_done.
  Qed.

  Lemma while_pow_fuel : forall n s, wp_ n s = wf_ (2 ^ n) s.
  Proof.
    induction n as [|n IH]; intros s.
    - reflexivity.
    - cbn [while_pow]. replace (2 ^ Datatypes.S n)%nat with (2 ^ n + 2 ^ n)%nat by (cbn [Nat.pow]; lia).
      rewrite while_fuel_add. rewrite <- (IH s). cbv zeta.
      destruct (cond (wp_ n s)) eqn:E; [apply IH|].
      symmetry; now apply while_fuel_done.
  Qed.

  Lemma while_fuel_inv (P : S -> Prop) :
    (forall s, P s -> cond s = true -> P (body s)) ->
    forall f s, P s -> P (wf_ f s).
  Proof.
    intros H; induction f as [|f IH]; intros s Hs; simpl; [exact Hs|].
    destruct (cond s) eqn:E; [apply IH, H; assumption|exact Hs].
  Qed.

  Lemma while_fuel_terminates (P : S -> Prop) (mu : S -> Z) :
    (forall s, P s -> cond s = true -> P (body s) /\ mu (body s) < mu s) ->
    (forall s, P s -> cond s = true -> 0 <= mu s) ->
    forall f s, P s -> mu s < Z.of_nat f -> cond (wf_ f s) = false.
  Proof.
    intros H1 H2; induction f as [|f IH]; intros s Hs Hm; simpl.
    - destruct (cond s) eqn:E; [|reflexivity]. specialize (H2 s Hs E). simpl in Hm. lia.
    - destruct (cond s) eqn:E; [|exact E].
      destruct (H1 s Hs E) as [Hb Hd]. apply IH; [exact Hb|lia].
  Qed.

  (* once the condition is false, more fuel changes nothing *)
  Lemma while_fuel_stable : forall f g s, cond (wf_ f s) = false -> wf_ (f + g) s = wf_ f s.
  Proof. intros f g s H. rewrite while_fuel_add. now apply while_fuel_done. Qed.
End WhileFacts.

(* ---------------------------------------------------------------- *)
(* list facts                                                        *)
(* ---------------------------------------------------------------- *)
Lemma filter_split_length {A} (f : A -> bool) (l : list A) :
  (length (filter f l) + length (filter (fun x => negb (f x)) l) = length l)%nat.
Proof. induction l as [|a l IH]; simpl; [reflexivity|]. destruct (f a); simpl; lia. Qed.

Lemma total_nil : total [] = 0%nat.
Proof. reflexivity. Qed.
Lemma total_cons l t : total (l :: t) = (length l + total t)%nat.
Proof. unfold total; simpl. now rewrite app_length. Qed.

Lemma swap_length l i j : length (swap l i j) = length l.
Proof. unfold swap. now rewrite !upd_nth_length. Qed.

Lemma fy_SS i l e :
  fy (Datatypes.S (Datatypes.S i)) l e =
  let (v, e') := draw e in
  fy (Datatypes.S i) (swap l (Datatypes.S i) (Z.to_nat (v mod Z.of_nat (Datatypes.S (Datatypes.S i))))) e'.
Proof. reflexivity. Qed.

Lemma fy_length : forall i l e, length (fst (fy i l e)) = length l.
Proof.
  induction i as [|i IH]; intros l e; [reflexivity|].
  destruct i as [|i']; [reflexivity|].
  rewrite fy_SS. destruct (draw e) as [v e']. rewrite IH. apply swap_length.
Qed.

Section Abstract.
  Variable K : point -> point -> Z.

  Lemma signs_length : forall rest done, length (signs K done rest) = (length done + length rest)%nat.
  Proof.
    induction rest as [|p t IH]; intros done; simpl; [lia|].
    rewrite IH, app_length; simpl; lia.
  Qed.

  Lemma signs_prefix : forall rest done, exists x, signs K done rest = done ++ x.
  Proof.
    induction rest as [|p t IH]; intros done; simpl.
    - exists []. now rewrite app_nil_r.
    - destruct (IH (done ++ [(p, delta K p done <? 0)])) as [x Hx].
      rewrite Hx, <- app_assoc. eexists; reflexivity.
  Qed.

  Lemma assign_length b l : length (assign K b l) = length l.
  Proof. destruct l as [|p t]; simpl; [reflexivity|]. rewrite signs_length. reflexivity. Qed.

  (* promoted + dropped = size of the level *)
  Lemma compact_one_count l e prom dr e' :
    compact_one K l e = (prom, dr, e') ->
    Z.of_nat (length prom) + dr = Z.of_nat (length l) /\ 0 <= dr.
  Proof.
    unfold compact_one. destruct (draw e) as [b e1].
    destruct (fy (length l) l e1) as [sh e2] eqn:Ef.
    assert (Hl : length sh = length l) by (change sh with (fst (sh, e2)); rewrite <- Ef; apply fy_length).
    intros H; inversion H; subst; clear H.
    rewrite map_length.
    pose proof (filter_split_length (fun x : point * bool => snd x) (assign K (Z.odd b) sh)) as Hs.
    rewrite assign_length in Hs.
    lia.
  Qed.

  (* ---- compact_ls: accounting, number of levels ---- *)
  Lemma compact_ls_spec k : forall ls e ls' dr e',
    compact_ls K k ls e = (ls', dr, e') ->
    0 <= dr /\ Z.of_nat (total ls') = Z.of_nat (total ls) - dr /\
    (length ls <= length ls' <= Datatypes.S (length ls))%nat /\ (ls <> [] -> ls' <> []).
  Proof.
    induction ls as [|l t IH]; intros e ls' dr e' H; cbn [compact_ls] in H.
    - inversion H; subst. repeat split; try lia; auto.
    - destruct (k <=? Z.of_nat (length l)).
      + destruct (compact_one K l e) as [[prom d] e1] eqn:Ec.
        apply compact_one_count in Ec. destruct Ec as [Hc Hd].
        destruct t as [|l1 t'].
        * inversion H; subst. rewrite !total_cons, total_nil. simpl length.
          repeat split; try lia; discriminate.
        * inversion H; subst. rewrite !total_cons, app_length. simpl length.
          repeat split; try lia; discriminate.
      + destruct (compact_ls K k t e) as [[t' d] e1] eqn:Ec.
        inversion H; subst. destruct (IH _ _ _ _ Ec) as (H0 & H1 & H2 & H3).
        rewrite !total_cons. simpl length. repeat split; try lia; discriminate.
  Qed.

  (* ---- termination measure ---- *)
  Fixpoint mu (B : Z) (ls : list (list point)) : Z :=
    match ls with
    | [] => 0
    | l :: t => Z.of_nat (length l) * B + mu (B - 1) t
    end.

  Lemma mu_nonneg : forall ls B, Z.of_nat (length ls) <= B -> 0 <= mu B ls.
  Proof.
    induction ls as [|l t IH]; intros B H; simpl in *; [lia|].
    specialize (IH (B - 1)). nia.
  Qed.

  Lemma mu_bound : forall ls B, Z.of_nat (length ls) <= B -> mu B ls <= Z.of_nat (total ls) * B.
  Proof.
    induction ls as [|l t IH]; intros B H; [simpl; lia|].
    rewrite total_cons. cbn [mu]. simpl length in H.
    specialize (IH (B - 1)). nia.
  Qed.

  Lemma compact_ls_mu k : 0 < k -> forall ls e ls' dr e' B,
    compact_ls K k ls e = (ls', dr, e') -> ls <> [] ->
    k * Z.of_nat (length ls) <= Z.of_nat (total ls) ->
    Z.of_nat (length ls) <= B ->
    mu B ls' < mu B ls.
  Proof.
    intros Hk. induction ls as [|l t IH]; intros e ls' dr e' B H Hne Hfull HB; [congruence|].
    cbn [compact_ls] in H.
    destruct (k <=? Z.of_nat (length l)) eqn:Ek.
    - apply Z.leb_le in Ek.
      destruct (compact_one K l e) as [[prom d] e1] eqn:Ec.
      apply compact_one_count in Ec. destruct Ec as [Hc Hd].
      destruct t as [|l1 t'].
      + inversion H; subst. cbn [mu]. simpl length in *. nia.
      + inversion H; subst. cbn [mu]. rewrite app_length. simpl length in *. nia.
    - apply Z.leb_gt in Ek.
      destruct (compact_ls K k t e) as [[t' d] e1] eqn:Ec.
      inversion H; subst. cbn [mu].
      rewrite total_cons in Hfull. simpl length in Hfull, HB.
      assert (Ht : t <> []).
      { intros ->. rewrite total_nil in Hfull. simpl in Hfull. lia. }
      enough (mu (B - 1) t' < mu (B - 1) t) by lia.
      eapply IH; eauto; lia.
  Qed.

  (* ---- well-formedness: the accounting invariant of the code ---- *)
  Definition wf (s : ds) : Prop :=
    2 <= d_k s /\ d_levels s <> [] /\ d_ret s = Z.of_nat (total (d_levels s)).

  Definition nlev (s : ds) : nat := length (d_levels s).

  Lemma compact_props s e s' e' :
    compact K (s, e) = (s', e') -> wf s ->
    wf s' /\ d_k s' = d_k s /\ d_dim s' = d_dim s /\ d_n s' = d_n s /\ d_ret s' <= d_ret s /\
    (nlev s <= nlev s')%nat.
  Proof.
    unfold compact, wf, nlev. destruct (compact_ls K (d_k s) (d_levels s) e) as [[ls dr] e1] eqn:E.
    intros H (Hk & Hne & Hr); inversion H; subst; clear H; cbn [d_k d_dim d_n d_ret d_levels].
    apply compact_ls_spec in E. destruct E as (H0 & H1 & H2 & H3).
    repeat split; auto; lia.
  Qed.

  Lemma depth_bound s : 0 <= d_ret s -> d_ret s * d_ret s < Z.of_nat (2 ^ depth s).
  Proof.
    intros H. unfold depth. rewrite Nat2Z.inj_pow. change (Z.of_nat 2) with 2.
    pose proof (Z.log2_up_nonneg (d_ret s + 1)) as Hc.
    rewrite Z2Nat.id by lia.
    assert (Hp : d_ret s + 1 <= 2 ^ Z.log2_up (d_ret s + 1)).
    { apply Z.log2_up_le_pow2; lia. }
    replace (2 * Z.log2_up (d_ret s + 1)) with (Z.log2_up (d_ret s + 1) * 2) by lia.
    rewrite Z.pow_mul_r by lia. rewrite Z.pow_2_r.
    nia.
  Qed.

  Lemma over_true s e : over (s, e) = true <-> d_k s * Z.of_nat (nlev s) <= d_ret s.
  Proof. unfold over, nlev; cbn [fst]. apply Z.leb_le. Qed.
  Lemma over_false s e : over (s, e) = false <-> d_ret s < d_k s * Z.of_nat (nlev s).
  Proof. unfold over, nlev; cbn [fst]. apply Z.leb_gt. Qed.

  (* one compaction strictly decreases the measure while the loop condition holds *)
  Lemma compact_decreases B s e :
    wf s -> d_ret s <= B -> over (s, e) = true ->
    mu B (d_levels (fst (compact K (s, e)))) < mu B (d_levels s) /\ 0 <= mu B (d_levels s).
  Proof.
    intros (Hk & Hne & Hr) HB Ho. apply over_true in Ho. unfold nlev in Ho.
    assert (HL : Z.of_nat (length (d_levels s)) <= B) by nia.
    split; [|now apply mu_nonneg].
    unfold compact. destruct (compact_ls K (d_k s) (d_levels s) e) as [[ls dr] e1] eqn:E.
    cbn [fst d_levels]. eapply compact_ls_mu; eauto; lia.
  Qed.

  Theorem run_compactions_spec s e :
    wf s ->
    let r := run_compactions K s e in
    over r = false /\ wf (fst r) /\ d_k (fst r) = d_k s /\ d_dim (fst r) = d_dim s /\ d_n (fst r) = d_n s /\
    d_ret (fst r) <= d_ret s /\ (nlev s <= nlev (fst r))%nat.
  Proof.
    intros Hwf r. subst r. unfold run_compactions. rewrite while_pow_fuel.
    set (f := (2 ^ depth s)%nat).
    set (Inv := fun se : ds * env => wf (fst se) /\ d_k (fst se) = d_k s /\ d_dim (fst se) = d_dim s /\
                                     d_n (fst se) = d_n s /\ d_ret (fst se) <= d_ret s /\ (nlev s <= nlev (fst se))%nat).
    assert (Hstep : forall se, Inv se -> over se = true -> Inv (compact K se)).
    { intros [s1 e1] (H1 & H2 & H3 & H4 & H5 & H6) _. cbn [fst] in *.
      destruct (compact K (s1, e1)) as [s2 e2] eqn:E.
      destruct (compact_props _ _ _ _ E H1) as (G1 & G2 & G3 & G4 & G5 & G6).
      unfold Inv; cbn [fst]. repeat split; try congruence; try lia; apply G1. }
    assert (Hinv : Inv (while_fuel _ over (compact K) f (s, e))).
    { apply while_fuel_inv; [exact Hstep|]. unfold Inv; cbn [fst]. repeat split; try lia; apply Hwf. }
    split; [|exact Hinv].
    destruct (over (s, e)) eqn:E0; [|now rewrite while_fuel_done].
    apply (while_fuel_terminates _ over (compact K) Inv (fun se => mu (d_ret s) (d_levels (fst se)))).
    - intros [s1 e1] HI Ho. split; [now apply Hstep|].
      destruct HI as (H1 & _ & _ & _ & H5 & _). cbn [fst] in *.
      now apply compact_decreases.
    - intros [s1 e1] HI Ho. destruct HI as (H1 & _ & _ & _ & H5 & _). cbn [fst] in *.
      now apply (compact_decreases (d_ret s) s1 e1).
    - unfold Inv; cbn [fst]. repeat split; try lia; apply Hwf.
    - cbn [fst]. destruct Hwf as (Hk & Hne & Hr). apply over_true in E0. unfold nlev in E0.
      assert (HL : Z.of_nat (length (d_levels s)) <= d_ret s) by nia.
      pose proof (mu_bound (d_levels s) (d_ret s) HL) as Hm. rewrite <- Hr in Hm.
      assert (0 <= d_ret s) by lia.
      pose proof (depth_bound s H). subst f. lia.
  Qed.

  (* the fuel is never the reason to stop: any larger fuel gives the same result *)
  Corollary run_compactions_fuel_irrelevant s e g :
    wf s -> while_fuel _ over (compact K) (2 ^ depth s + g) (s, e) = run_compactions K s e.
  Proof.
    intros Hwf. pose proof (run_compactions_spec s e Hwf) as [Ho _].
    unfold run_compactions in *. rewrite while_pow_fuel in *.
    now apply while_fuel_stable.
  Qed.

End Abstract.
