(* DensityProofs.v — lemmas about the density sketch model (DensityDefs.v). *)
From Coq Require Import ZArith NArith List Bool Lia.
From DS Require Import RunnerLib DensityDefs.
Import ListNotations.
Local Open Scope Z_scope.

(* ---------------------------------------------------------------- *)
(* generic facts about the fuelled loops                             *)
(* ---------------------------------------------------------------- *)
Section WhileFacts.
  Variable S : Type.
  Variable cond : S -> bool.
  Variable body : S -> S.
  Notation wf_ := (while_fuel S cond body).
  Notation wp_ := (while_pow S cond body).

  Lemma while_fuel_done : forall f s, cond s = false -> wf_ f s = s.
  Proof. intros [|f] s H; simpl; [reflexivity|now rewrite H]. Qed.

  Lemma while_fuel_add : forall a b s, wf_ (a + b) s = wf_ b (wf_ a s).
  Proof.
    induction a as [|a IH]; intros b s; simpl; [reflexivity|].
    destruct (cond s) eqn:E; [apply IH|].
    symmetry; now apply while_fuel_done.
  Qed.

  Lemma while_pow_fuel : forall n s, wp_ n s = wf_ (2 ^ n) s.
  Proof.
    induction n as [|n IH]; intros s.
    - reflexivity.
    - cbn [while_pow]. replace (2 ^ Datatypes.S n)%nat with (2 ^ n + 2 ^ n)%nat by (cbn [Nat.pow]; lia).
      rewrite while_fuel_add. rewrite <- (IH s). cbv zeta.
      destruct (cond (wp_ n s)) eqn:E; [apply IH|].
      symmetry; now apply while_fuel_done.
  Qed.

  Lemma while_fuel_inv (P : S -> Prop) :
    (forall s, P s -> cond s = true -> P (body s)) ->
    forall f s, P s -> P (wf_ f s).
  Proof.
    intros H; induction f as [|f IH]; intros s Hs; simpl; [exact Hs|].
    destruct (cond s) eqn:E; [apply IH, H; assumption|exact Hs].
  Qed.

  Lemma while_fuel_terminates (P : S -> Prop) (mu : S -> Z) :
    (forall s, P s -> cond s = true -> P (body s) /\ mu (body s) < mu s) ->
    (forall s, P s -> cond s = true -> 0 <= mu s) ->
    forall f s, P s -> mu s < Z.of_nat f -> cond (wf_ f s) = false.
  Proof.
    intros H1 H2; induction f as [|f IH]; intros s Hs Hm; simpl.
    - destruct (cond s) eqn:E; [|reflexivity]. specialize (H2 s Hs E). simpl in Hm. lia.
    - destruct (cond s) eqn:E; [|exact E].
      destruct (H1 s Hs E) as [Hb Hd]. apply IH; [exact Hb|lia].
  Qed.

  (* once the condition is false, more fuel changes nothing *)
  Lemma while_fuel_stable : forall f g s, cond (wf_ f s) = false -> wf_ (f + g) s = wf_ f s.
  Proof. intros f g s H. rewrite while_fuel_add. now apply while_fuel_done. Qed.
End WhileFacts.

(* ---------------------------------------------------------------- *)
(* list facts                                                        *)
(* ---------------------------------------------------------------- *)
Lemma filter_split_length {A} (f : A -> bool) (l : list A) :
  (length (filter f l) + length (filter (fun x => negb (f x)) l) = length l)%nat.
Proof. induction l as [|a l IH]; simpl; [reflexivity|]. destruct (f a); simpl; lia. Qed.

Lemma total_nil : total [] = 0%nat.
Proof. reflexivity. Qed.
Lemma total_cons l t : total (l :: t) = (length l + total t)%nat.
Proof. unfold total; simpl. now rewrite app_length. Qed.

Lemma swap_length l i j : length (swap l i j) = length l.
Proof. unfold swap. now rewrite !upd_nth_length. Qed.

Lemma fy_SS i l e :
  fy (Datatypes.S (Datatypes.S i)) l e =
  let (v, e') := draw e in
  fy (Datatypes.S i) (swap l (Datatypes.S i) (Z.to_nat (v mod Z.of_nat (Datatypes.S (Datatypes.S i))))) e'.
Proof. reflexivity. Qed.

Lemma fy_length : forall i l e, length (fst (fy i l e)) = length l.
Proof.
  induction i as [|i IH]; intros l e; [reflexivity|].
  destruct i as [|i']; [reflexivity|].
  rewrite fy_SS. destruct (draw e) as [v e']. rewrite IH. apply swap_length.
Qed.

Section Abstract.
  Variable K : point -> point -> Z.

  Lemma signs_length : forall rest done, length (signs K done rest) = (length done + length rest)%nat.
  Proof.
    induction rest as [|p t IH]; intros done; simpl; [lia|].
    rewrite IH, app_length; simpl; lia.
  Qed.

  Lemma signs_prefix : forall rest done, exists x, signs K done rest = done ++ x.
  Proof.
    induction rest as [|p t IH]; intros done; simpl.
    - exists []. now rewrite app_nil_r.
    - destruct (IH (done ++ [(p, delta K p done <? 0)])) as [x Hx].
      rewrite Hx, <- app_assoc. eexists; reflexivity.
  Qed.

  Lemma assign_length b l : length (assign K b l) = length l.
  Proof. destruct l as [|p t]; simpl; [reflexivity|]. rewrite signs_length. reflexivity. Qed.

  (* promoted + dropped = size of the level *)
  Lemma compact_one_count l e prom dr e' :
    compact_one K l e = (prom, dr, e') ->
    Z.of_nat (length prom) + dr = Z.of_nat (length l) /\ 0 <= dr.
  Proof.
    unfold compact_one. destruct (draw e) as [b e1].
    destruct (fy (length l) l e1) as [sh e2] eqn:Ef.
    assert (Hl : length sh = length l) by (change sh with (fst (sh, e2)); rewrite <- Ef; apply fy_length).
    intros H; inversion H; subst; clear H.
    rewrite map_length.
    pose proof (filter_split_length (fun x : point * bool => snd x) (assign K (Z.odd b) sh)) as Hs.
    rewrite assign_length in Hs.
    lia.
  Qed.

  (* ---- compact_ls: accounting, number of levels ---- *)
  Lemma compact_ls_spec k : forall ls e ls' dr e',
    compact_ls K k ls e = (ls', dr, e') ->
    0 <= dr /\ Z.of_nat (total ls') = Z.of_nat (total ls) - dr /\
    (length ls <= length ls' <= Datatypes.S (length ls))%nat /\ (ls <> [] -> ls' <> []).
  Proof.
    induction ls as [|l t IH]; intros e ls' dr e' H; cbn [compact_ls] in H.
    - inversion H; subst. repeat split; try lia; auto.
    - destruct (k <=? Z.of_nat (length l)).
      + destruct (compact_one K l e) as [[prom d] e1] eqn:Ec.
        apply compact_one_count in Ec. destruct Ec as [Hc Hd].
        destruct t as [|l1 t'].
        * inversion H; subst. rewrite !total_cons, total_nil. simpl length.
          repeat split; try lia; discriminate.
        * inversion H; subst. rewrite !total_cons, app_length. simpl length.
          repeat split; try lia; discriminate.
      + destruct (compact_ls K k t e) as [[t' d] e1] eqn:Ec.
        inversion H; subst. destruct (IH _ _ _ _ Ec) as (H0 & H1 & H2 & H3).
        rewrite !total_cons. simpl length. repeat split; try lia; discriminate.
  Qed.

  (* ---- termination measure ---- *)
  Fixpoint mu (B : Z) (ls : list (list point)) : Z :=
    match ls with
    | [] => 0
    | l :: t => Z.of_nat (length l) * B + mu (B - 1) t
    end.

  Lemma mu_nonneg : forall ls B, Z.of_nat (length ls) <= B -> 0 <= mu B ls.
  Proof.
    induction ls as [|l t IH]; intros B H; simpl in *; [lia|].
    specialize (IH (B - 1)). nia.
  Qed.

  Lemma mu_bound : forall ls B, Z.of_nat (length ls) <= B -> mu B ls <= Z.of_nat (total ls) * B.
  Proof.
    induction ls as [|l t IH]; intros B H; [simpl; lia|].
    rewrite total_cons. cbn [mu]. simpl length in H.
    specialize (IH (B - 1)). nia.
  Qed.

  Lemma compact_ls_mu k : 0 < k -> forall ls e ls' dr e' B,
    compact_ls K k ls e = (ls', dr, e') -> ls <> [] ->
    k * Z.of_nat (length ls) <= Z.of_nat (total ls) ->
    Z.of_nat (length ls) <= B ->
    mu B ls' < mu B ls.
  Proof.
    intros Hk. induction ls as [|l t IH]; intros e ls' dr e' B H Hne Hfull HB; [congruence|].
    cbn [compact_ls] in H.
    destruct (k <=? Z.of_nat (length l)) eqn:Ek.
    - apply Z.leb_le in Ek.
      destruct (compact_one K l e) as [[prom d] e1] eqn:Ec.
      apply compact_one_count in Ec. destruct Ec as [Hc Hd].
      destruct t as [|l1 t'].
      + inversion H; subst. cbn [mu]. simpl length in *. nia.
      + inversion H; subst. cbn [mu]. rewrite app_length. simpl length in *. nia.
    - apply Z.leb_gt in Ek.
      destruct (compact_ls K k t e) as [[t' d] e1] eqn:Ec.
      inversion H; subst. cbn [mu].
      rewrite total_cons in Hfull. simpl length in Hfull, HB.
      assert (Ht : t <> []).
      { intros ->. rewrite total_nil in Hfull. simpl in Hfull. lia. }
      enough (mu (B - 1) t' < mu (B - 1) t) by lia.
      eapply IH; eauto; lia.
  Qed.

  (* ---- well-formedness: the accounting invariant of the code ---- *)
  Definition wf (s : ds) : Prop :=
    2 <= d_k s /\ d_levels s <> [] /\ d_ret s = Z.of_nat (total (d_levels s)).

  Definition nlev (s : ds) : nat := length (d_levels s).

  Lemma compact_props s e s' e' :
    compact K (s, e) = (s', e') -> wf s ->
    wf s' /\ d_k s' = d_k s /\ d_dim s' = d_dim s /\ d_n s' = d_n s /\ d_ret s' <= d_ret s /\
    (nlev s <= nlev s')%nat.
  Proof.
    unfold compact, wf, nlev. destruct (compact_ls K (d_k s) (d_levels s) e) as [[ls dr] e1] eqn:E.
    intros H (Hk & Hne & Hr); inversion H; subst; clear H; cbn [d_k d_dim d_n d_ret d_levels].
    apply compact_ls_spec in E. destruct E as (H0 & H1 & H2 & H3).
    repeat split; auto; lia.
  Qed.

  Lemma depth_bound s : 0 <= d_ret s -> d_ret s * d_ret s < Z.of_nat (2 ^ depth s).
  Proof.
    intros H. unfold depth. rewrite Nat2Z.inj_pow. change (Z.of_nat 2) with 2.
    pose proof (Z.log2_up_nonneg (d_ret s + 1)) as Hc.
    rewrite Z2Nat.id by lia.
    assert (Hp : d_ret s + 1 <= 2 ^ Z.log2_up (d_ret s + 1)).
    { apply Z.log2_up_le_pow2; lia. }
    replace (2 * Z.log2_up (d_ret s + 1)) with (Z.log2_up (d_ret s + 1) * 2) by lia.
    rewrite Z.pow_mul_r by lia. rewrite Z.pow_2_r.
    nia.
  Qed.

  Lemma over_true s e : over (s, e) = true <-> d_k s * Z.of_nat (nlev s) <= d_ret s.
  Proof. unfold over, nlev; cbn [fst]. apply Z.leb_le. Qed.
  Lemma over_false s e : over (s, e) = false <-> d_ret s < d_k s * Z.of_nat (nlev s).
  Proof. unfold over, nlev; cbn [fst]. apply Z.leb_gt. Qed.

  (* one compaction strictly decreases the measure while the loop condition holds *)
  Lemma compact_decreases B s e :
    wf s -> d_ret s <= B -> over (s, e) = true ->
    mu B (d_levels (fst (compact K (s, e)))) < mu B (d_levels s) /\ 0 <= mu B (d_levels s).
  Proof.
    intros (Hk & Hne & Hr) HB Ho. apply over_true in Ho. unfold nlev in Ho.
    assert (HL : Z.of_nat (length (d_levels s)) <= B) by nia.
    split; [|now apply mu_nonneg].
    unfold compact. destruct (compact_ls K (d_k s) (d_levels s) e) as [[ls dr] e1] eqn:E.
    cbn [fst d_levels]. eapply compact_ls_mu; eauto; lia.
  Qed.

  Theorem run_compactions_spec s e :
    wf s ->
    let r := run_compactions K s e in
    over r = false /\ wf (fst r) /\ d_k (fst r) = d_k s /\ d_dim (fst r) = d_dim s /\ d_n (fst r) = d_n s /\
    d_ret (fst r) <= d_ret s /\ (nlev s <= nlev (fst r))%nat.
  Proof.
    intros Hwf r. subst r. unfold run_compactions. rewrite while_pow_fuel.
    set (f := (2 ^ depth s)%nat).
    set (Inv := fun se : ds * env => wf (fst se) /\ d_k (fst se) = d_k s /\ d_dim (fst se) = d_dim s /\
                                     d_n (fst se) = d_n s /\ d_ret (fst se) <= d_ret s /\ (nlev s <= nlev (fst se))%nat).
    assert (Hstep : forall se, Inv se -> over se = true -> Inv (compact K se)).
    { intros [s1 e1] (H1 & H2 & H3 & H4 & H5 & H6) _. cbn [fst] in *.
      destruct (compact K (s1, e1)) as [s2 e2] eqn:E.
      destruct (compact_props _ _ _ _ E H1) as (G1 & G2 & G3 & G4 & G5 & G6).
      unfold Inv; cbn [fst]. repeat split; try congruence; try lia; apply G1. }
    assert (Hinv : Inv (while_fuel _ over (compact K) f (s, e))).
    { apply while_fuel_inv; [exact Hstep|]. unfold Inv; cbn [fst]. repeat split; try lia; apply Hwf. }
    split; [|exact Hinv].
    destruct (over (s, e)) eqn:E0; [|now rewrite while_fuel_done].
    apply (while_fuel_terminates _ over (compact K) Inv (fun se => mu (d_ret s) (d_levels (fst se)))).
    - intros [s1 e1] HI Ho. split; [now apply Hstep|].
      destruct HI as (H1 & _ & _ & _ & H5 & _). cbn [fst] in *.
      now apply compact_decreases.
    - intros [s1 e1] HI Ho. destruct HI as (H1 & _ & _ & _ & H5 & _). cbn [fst] in *.
      now apply (compact_decreases (d_ret s) s1 e1).
    - unfold Inv; cbn [fst]. repeat split; try lia; apply Hwf.
    - cbn [fst]. destruct Hwf as (Hk & Hne & Hr). apply over_true in E0. unfold nlev in E0.
      assert (HL : Z.of_nat (length (d_levels s)) <= d_ret s) by nia.
      pose proof (mu_bound (d_levels s) (d_ret s) HL) as Hm. rewrite <- Hr in Hm.
      assert (0 <= d_ret s) by lia.
      pose proof (depth_bound s H). subst f. lia.
  Qed.

  (* the fuel is never the reason to stop: any larger fuel gives the same result *)
  Corollary run_compactions_fuel_irrelevant s e g :
    wf s -> while_fuel _ over (compact K) (2 ^ depth s + g) (s, e) = run_compactions K s e.
  Proof.
    intros Hwf. pose proof (run_compactions_spec s e Hwf) as [Ho _].
    unfold run_compactions in *. rewrite while_pow_fuel in *.
    now apply while_fuel_stable.
  Qed.

  (* ---- operations ---- *)
  (* at rest: accounting invariant and the bound retained <= k * levels *)
  Definition inv (s : ds) : Prop := wf s /\ d_ret s <= d_k s * Z.of_nat (nlev s) /\ d_ret s <= d_n s.

  Lemma ds_new_inv k dim : 2 <= k -> inv (ds_new k dim).
  Proof. intros H. unfold inv, wf, nlev, ds_new; simpl. repeat split; try lia. discriminate. Qed.

  Lemma push0_total p ls : ls <> [] -> total (push0 p ls) = Datatypes.S (total ls).
  Proof. destruct ls as [|l t]; [congruence|]. intros _. simpl. rewrite !total_cons, app_length. simpl. lia. Qed.
  Lemma push0_length p ls : length (push0 p ls) = length ls.
  Proof. destruct ls; reflexivity. Qed.
  Lemma push0_ne p ls : ls <> [] -> push0 p ls <> [].
  Proof. destruct ls; [congruence|discriminate]. Qed.

  Lemma ds_update_spec s p e s' e' :
    inv s -> ds_update K s p e = Some (s', e') ->
    Z.of_nat (length p) = d_dim s /\ inv s' /\ d_n s' = d_n s + 1 /\ d_k s' = d_k s /\ d_dim s' = d_dim s /\
    (nlev s <= nlev s')%nat /\ 0 < d_ret s'.
  Proof.
    intros (Hwf & _ & Hrn). unfold ds_update. destruct (Z.of_nat (length p) =? d_dim s) eqn:Ed; [|discriminate].
    apply Z.eqb_eq in Ed.
    pose proof (run_compactions_spec s e Hwf) as Hr. cbv zeta in Hr.
    destruct (run_compactions K s e) as [s1 e1]. cbn [fst] in Hr.
    destruct Hr as (Ho & (Hk & Hne & Hret) & Hk' & Hd & Hn & Hle & Hlev).
    apply over_false in Ho.
    intros H; inversion H; subst; clear H.
    unfold inv, wf, nlev in *; cbn [d_k d_dim d_n d_ret d_levels].
    rewrite push0_total, push0_length by assumption.
    repeat split; auto using push0_ne; lia.
  Qed.

  Lemma ds_update_refused s p e : ds_update K s p e = None <-> Z.of_nat (length p) <> d_dim s.
  Proof.
    unfold ds_update. destruct (Z.eqb_spec (Z.of_nat (length p)) (d_dim s)) as [E|E].
    - destruct (run_compactions K s e). split; [discriminate|congruence].
    - split; auto.
  Qed.

  Lemma zip_app_total : forall a b, total (zip_app a b) = (total a + total b)%nat.
  Proof.
    induction a as [|la ta IH]; intros [|lb tb]; cbn [zip_app]; rewrite ?total_nil, ?total_cons; try lia.
    rewrite IH, app_length. lia.
  Qed.
  Lemma zip_app_length : forall a b, length (zip_app a b) = Nat.max (length a) (length b).
  Proof.
    induction a as [|la ta IH]; intros [|lb tb]; cbn [zip_app]; simpl length; try lia.
    rewrite IH. lia.
  Qed.
  Lemma zip_app_ne a b : a <> [] -> zip_app a b <> [].
  Proof. destruct a, b; simpl; congruence. Qed.

  Lemma ds_merge_spec s o e s' e' :
    inv s -> inv o -> ds_merge K s o e = Some (s', e') ->
    inv s' /\ d_k s' = d_k s /\ d_dim s' = d_dim s /\ (nlev s <= nlev s')%nat /\
    d_n s' = d_n s + d_n o /\
    (d_n o = 0 -> s' = s) /\
    (d_n o <> 0 -> d_dim o = d_dim s).
  Proof.
    intros Hs Ho. unfold ds_merge.
    destruct (Z.eqb_spec (d_n o) 0) as [E0|E0].
    - intros H; inversion H; subst. split; [exact Hs|]. repeat split; auto; try lia; intros; contradiction.
    - destruct (Z.eqb_spec (d_dim o) (d_dim s)) as [Ed|Ed]; [|discriminate]. cbn [negb].
      set (m := {| d_k := d_k s; d_dim := d_dim s; d_ret := d_ret s + d_ret o; d_n := d_n s + d_n o;
                   d_levels := zip_app (d_levels s) (d_levels o) |}).
      destruct Hs as ((Hk & Hne & Hr) & _ & Hsn). destruct Ho as ((Hk2 & Hne2 & Hr2) & _ & Hon).
      assert (Hm : wf m).
      { unfold wf, m; cbn [d_k d_ret d_levels]. rewrite zip_app_total. repeat split; auto using zip_app_ne; lia. }
      pose proof (run_compactions_spec m e Hm) as Hrc. cbv zeta in Hrc.
      destruct (run_compactions K m e) as [s1 e1]. cbn [fst] in Hrc.
      destruct Hrc as (Hov & Hwf1 & Hk' & Hd & Hn & Hle & Hlev).
      apply over_false in Hov.
      intros H; inversion H; subst; clear H.
      assert (nlev s <= nlev m)%nat by (unfold nlev, m; cbn [d_levels]; rewrite zip_app_length; lia).
      unfold m in Hk', Hd, Hn, Hle; cbn [d_k d_dim d_n d_ret] in Hk', Hd, Hn, Hle.
      unfold inv. split; [split; [exact Hwf1|lia]|]. repeat split; auto; try lia; try contradiction.
  Qed.

  Lemma ds_merge_refused s o e : ds_merge K s o e = None <-> d_n o <> 0 /\ d_dim o <> d_dim s.
  Proof.
    unfold ds_merge. destruct (Z.eqb_spec (d_n o) 0) as [E0|E0].
    - split; [discriminate|tauto].
    - destruct (Z.eqb_spec (d_dim o) (d_dim s)) as [Ed|Ed]; cbn [negb].
      + split; [discriminate|tauto].
      + split; auto.
  Qed.

  (* ---- histories ---- *)
  Fixpoint valid (h : hist) : Prop :=
    match h with
    | HNew k _ => 2 <= k                       (* check_k in the constructor *)
    | HUpd h _ _ => valid h
    | HMerge h1 h2 _ => valid h1 /\ valid h2
    end.

  Theorem eval_inv : forall h, valid h -> inv (eval K h).
  Proof.
    induction h as [k dim|h IH p e|h1 IH1 h2 IH2 e]; cbn [valid eval].
    - apply ds_new_inv.
    - intros Hv. specialize (IH Hv).
      destruct (ds_update K (eval K h) p e) as [[s' e']|] eqn:E; [|exact IH].
      apply ds_update_spec in E; [tauto|apply IH].
    - intros [Hv1 Hv2]. specialize (IH1 Hv1). specialize (IH2 Hv2).
      destruct (ds_merge K (eval K h1) (eval K h2) e) as [[s' e']|] eqn:E; [|exact IH1].
      apply ds_merge_spec in E; [tauto|exact IH1|apply IH2].
  Qed.

  (* n is exact for EVERY merge tree (is_empty() <=> n_ == 0: a source whose compactions dropped every point still adds its n) *)
  Theorem n_exact : forall h, valid h ->
    d_n (eval K h) = Z.of_nat (length (inputs K h)).
  Proof.
    induction h as [k dim|h IH p e|h1 IH1 h2 IH2 e]; cbn [valid eval inputs].
    - reflexivity.
    - intros Hv. specialize (IH Hv).
      destruct (ds_update K (eval K h) p e) as [[s' e']|] eqn:E; [|exact IH].
      apply ds_update_spec in E; [|apply eval_inv, Hv].
      rewrite app_length; simpl. lia.
    - intros [Hv1 Hv2]. specialize (IH1 Hv1). specialize (IH2 Hv2).
      destruct (ds_merge K (eval K h1) (eval K h2) e) as [[s' e']|] eqn:E; [|exact IH1].
      apply ds_merge_spec in E; [|apply eval_inv, Hv1|apply eval_inv, Hv2].
      destruct E as (_ & _ & _ & _ & Hn & _).
      rewrite app_length. lia.
  Qed.

  (* ---- iteration ---- *)
  Lemma iter_levels_length : forall ls w, length (iter_levels w ls) = total ls.
  Proof.
    induction ls as [|l t IH]; intros w; [reflexivity|].
    cbn [iter_levels]. now rewrite total_cons, app_length, map_length, IH.
  Qed.

  Lemma iter_levels_In : forall ls w p x,
    In (p, x) (iter_levels w ls) <->
    exists h, (h < length ls)%nat /\ x = w * 2 ^ Z.of_nat h /\ In p (nth h ls []).
  Proof.
    induction ls as [|l t IH]; intros w p x; cbn [iter_levels].
    - split; [intros []|intros (h & H & _); simpl in H; lia].
    - rewrite in_app_iff, in_map_iff, IH. split.
      + intros [(p' & E & Hin)|(h & Hh & Hx & Hin)].
        * inversion E; subst. exists 0%nat. simpl. repeat split; auto; lia.
        * exists (Datatypes.S h). simpl length. split; [lia|]. split; [|exact Hin].
          rewrite Nat2Z.inj_succ, Z.pow_succ_r by lia. lia.
      + intros ([|h] & Hh & Hx & Hin).
        * left. exists p. simpl in Hx, Hin. split; [f_equal; lia|exact Hin].
        * right. exists h. simpl in Hh, Hin. split; [lia|]. split; [|exact Hin].
          rewrite Nat2Z.inj_succ, Z.pow_succ_r in Hx by lia. lia.
  Qed.

  (* ---- estimates ---- *)
  Definition ksum (q : point) (l : list point) : Z := fold_right Z.add 0 (map (fun x => K x q) l).

  Lemma level_sum_acc q w : forall l acc,
    fold_left (fun acc p => acc + w * K p q) l acc = acc + w * ksum q l.
  Proof.
    induction l as [|a l IH]; intros acc; cbn [fold_left ksum map fold_right]; [lia|].
    rewrite IH. unfold ksum. lia.
  Qed.

  Lemma level_sum_ksum q w l : level_sum K q w l = w * ksum q l.
  Proof. unfold level_sum. rewrite level_sum_acc. lia. Qed.

  Lemma ksum_nonneg q l : (forall a b, 0 <= K a b) -> 0 <= ksum q l.
  Proof. intros H. induction l as [|a l IH]; cbn; [lia|]. specialize (H a q). unfold ksum in IH. lia. Qed.

  Lemma est_levels_nonneg : (forall a b, 0 <= K a b) ->
    forall ls q w, 0 <= w -> 0 <= est_levels K q w ls.
  Proof.
    intros H. induction ls as [|l t IH]; intros q w Hw; cbn [est_levels]; [lia|].
    rewrite level_sum_ksum. pose proof (ksum_nonneg q l H). specialize (IH q (2 * w)). nia.
  Qed.

  (* ---- before the first compaction ---- *)
  Lemma compact_grows s e :
    wf s -> over (s, e) = true -> (2 <= nlev (fst (compact K (s, e))))%nat.
  Proof.
    intros (Hk & Hne & Hr) Ho. apply over_true in Ho. unfold nlev in *. unfold compact.
    destruct (d_levels s) as [|l [|l1 t]] eqn:El.
    - congruence.
    - rewrite total_cons, total_nil in Hr. simpl length in Ho. cbn [compact_ls].
      assert (Hf : (d_k s <=? Z.of_nat (length l)) = true) by (apply Z.leb_le; lia).
      rewrite Hf. destruct (compact_one K l e) as [[prom d] e1]. cbn. lia.
    - destruct (compact_ls K (d_k s) (l :: l1 :: t) e) as [[ls dr] e1] eqn:E.
      apply compact_ls_spec in E. cbn [fst d_levels]. simpl length in E. lia.
  Qed.

  Lemma no_compaction s e :
    wf s -> nlev (fst (run_compactions K s e)) = 1%nat -> run_compactions K s e = (s, e).
  Proof.
    intros Hwf H1. unfold run_compactions in *. rewrite while_pow_fuel in *.
    destruct (over (s, e)) eqn:E0; [|now rewrite while_fuel_done].
    exfalso.
    destruct (2 ^ depth s)%nat as [|f] eqn:Ef; [apply Nat.pow_nonzero in Ef; [contradiction|lia]|].
    cbn [while_fuel] in H1. rewrite E0 in H1.
    assert (HI : (fun se => wf (fst se) /\ (2 <= nlev (fst se))%nat)
                   (while_fuel _ over (compact K) f (compact K (s, e)))).
    { apply while_fuel_inv.
      - intros [s1 e1] [G1 G2] _. cbn [fst] in *.
        destruct (compact K (s1, e1)) as [s2 e2] eqn:E.
        destruct (compact_props _ _ _ _ E G1) as (F1 & _ & _ & _ & _ & F6). cbn [fst]. split; [exact F1|lia].
      - split; [|now apply compact_grows].
        destruct (compact K (s, e)) as [s2 e2] eqn:E.
        now destruct (compact_props _ _ _ _ E Hwf) as (F1 & _). }
    cbv beta in HI. lia.
  Qed.

  Fixpoint exact_mode (h : hist) : Prop :=
    nlev (eval K h) = 1%nat /\
    match h with
    | HNew _ _ => True
    | HUpd h _ _ => exact_mode h
    | HMerge h1 h2 _ => exact_mode h1 /\ exact_mode h2
    end.

  Theorem exact_levels : forall h, valid h -> exact_mode h ->
    d_levels (eval K h) = [inputs K h] /\ d_n (eval K h) = Z.of_nat (length (inputs K h)).
  Proof.
    induction h as [k dim|h IH p e|h1 IH1 h2 IH2 e]; cbn [valid exact_mode].
    - intros _ _. split; reflexivity.
    - intros Hv [H1 Hx]. destruct (IH Hv Hx) as [IHl IHn]. cbn [eval inputs] in *.
      pose proof (eval_inv h Hv) as [Hwf _].
      destruct (ds_update K (eval K h) p e) as [[s' e']|] eqn:E; [|split; assumption].
      unfold ds_update in E. destruct (Z.of_nat (length p) =? d_dim (eval K h)); [|discriminate].
      destruct (run_compactions K (eval K h) e) as [s1 e1] eqn:Er.
      inversion E; subst s' e'; clear E.
      unfold nlev in H1; cbn [d_levels] in H1. rewrite push0_length in H1.
      assert (Hnc : run_compactions K (eval K h) e = (eval K h, e)).
      { apply no_compaction; [exact Hwf|]. rewrite Er. exact H1. }
      rewrite Hnc in Er. inversion Er; subst s1 e1.
      cbn [d_levels d_n]. rewrite IHl. cbn [push0]. rewrite app_length. simpl length. split; [reflexivity|lia].
    - intros [Hv1 Hv2] (H1 & Hx1 & Hx2).
      destruct (IH1 Hv1 Hx1) as [IHl1 IHn1]. destruct (IH2 Hv2 Hx2) as [IHl2 IHn2].
      cbn [eval inputs] in *.
      pose proof (eval_inv h1 Hv1) as Hi1. pose proof (eval_inv h2 Hv2) as [Hwf2 _].
      destruct (ds_merge K (eval K h1) (eval K h2) e) as [[s' e']|] eqn:E; [|split; assumption].
      unfold ds_merge in E.
      destruct (Z.eqb_spec (d_n (eval K h2)) 0) as [E0|E0].
      + inversion E; subst s' e'; clear E.
        assert (Hnil : inputs K h2 = []) by (apply length_zero_iff_nil; lia).
        rewrite Hnil, app_nil_r. split; assumption.
      + destruct (Z.eqb_spec (d_dim (eval K h2)) (d_dim (eval K h1))) as [Ed|Ed]; [|discriminate].
        cbn [negb] in E.
        set (m := {| d_k := d_k (eval K h1); d_dim := d_dim (eval K h1);
                     d_ret := d_ret (eval K h1) + d_ret (eval K h2); d_n := d_n (eval K h1) + d_n (eval K h2);
                     d_levels := zip_app (d_levels (eval K h1)) (d_levels (eval K h2)) |}) in *.
        assert (Hm : wf m).
        { destruct Hi1 as [(Hk & Hne & Hr) _]. destruct Hwf2 as (Hk2 & Hne2 & Hr2).
          unfold wf, m; cbn [d_k d_ret d_levels]. rewrite zip_app_total. repeat split; auto using zip_app_ne; lia. }
        assert (Hnc : run_compactions K m e = (m, e)).
        { apply no_compaction; [exact Hm|]. inversion E as [E']. rewrite E'. exact H1. }
        rewrite Hnc in E. inversion E; subst s' e'.
        unfold m; cbn [d_levels d_n]. rewrite IHl1, IHl2. cbn [zip_app]. rewrite app_length. split; [reflexivity|lia].
  Qed.

  Corollary exact_mean : forall h q, valid h -> exact_mode h ->
    est_num K (eval K h) q = ksum q (inputs K h) /\ d_n (eval K h) = Z.of_nat (length (inputs K h)).
  Proof.
    intros h q Hv Hx. destruct (exact_levels h Hv Hx) as [Hl Hn]. split; [|exact Hn].
    unfold est_num. rewrite Hl. cbn [est_levels]. rewrite level_sum_ksum. lia.
  Qed.

  (* the number of levels never decreases *)
  Lemma levels_monotone_update h p e : valid h -> (nlev (eval K h) <= nlev (eval K (HUpd h p e)))%nat.
  Proof.
    intros Hv. cbn [eval]. destruct (ds_update K (eval K h) p e) as [[s' e']|] eqn:E; [|lia].
    apply ds_update_spec in E; [tauto|apply eval_inv, Hv].
  Qed.
  Lemma levels_monotone_merge h1 h2 e : valid h1 -> valid h2 ->
    (nlev (eval K h1) <= nlev (eval K (HMerge h1 h2 e)))%nat.
  Proof.
    intros Hv1 Hv2. cbn [eval]. destruct (ds_merge K (eval K h1) (eval K h2) e) as [[s' e']|] eqn:E; [|lia].
    apply ds_merge_spec in E; [tauto|apply eval_inv, Hv1|apply eval_inv, Hv2].
  Qed.

  (* ---- strictly positive kernel: a compaction never drops every point, so n is exact for every history ---- *)
  Section Positive.
    Hypothesis Kpos : forall a b, 0 < K a b.

    Lemma assign_some_promoted b l :
      (2 <= length l)%nat -> filter (fun x : point * bool => snd x) (assign K b l) <> [].
    Proof.
      destruct l as [|p0 [|p1 t]]; simpl length; try lia. intros _. cbn [assign signs].
      destruct (signs_prefix t ([(p0, b)] ++ [(p1, delta K p1 [(p0, b)] <? 0)])) as [x Hx].
      rewrite Hx, filter_app. cbn [app filter snd].
      destruct b; [discriminate|].
      assert (Hd : (delta K p1 [(p0, false)] <? 0) = true).
      { apply Z.ltb_lt. unfold delta; cbn [fold_left sgn fst snd]. specialize (Kpos p1 p0). lia. }
      rewrite Hd. discriminate.
    Qed.

    Lemma compact_one_pos l e prom dr e' :
      (2 <= length l)%nat -> compact_one K l e = (prom, dr, e') -> prom <> [].
    Proof.
      intros Hl. unfold compact_one. destruct (draw e) as [b e1].
      destruct (fy (length l) l e1) as [sh e2] eqn:Ef.
      assert (Hs : length sh = length l) by (change sh with (fst (sh, e2)); rewrite <- Ef; apply fy_length).
      intros H; inversion H; subst; clear H.
      pose proof (assign_some_promoted (Z.odd b) sh) as Hp. rewrite Hs in Hp. specialize (Hp Hl).
      destruct (filter (fun x : point * bool => snd x) (assign K (Z.odd b) sh)); [congruence|discriminate].
    Qed.

    Lemma compact_ls_pos k : 2 <= k -> forall ls e ls' dr e',
      compact_ls K k ls e = (ls', dr, e') -> (0 < total ls)%nat -> (0 < total ls')%nat.
    Proof.
      intros Hk. induction ls as [|l t IH]; intros e ls' dr e' H Ht; cbn [compact_ls] in H.
      - inversion H; subst. exact Ht.
      - destruct (k <=? Z.of_nat (length l)) eqn:Ek.
        + apply Z.leb_le in Ek.
          destruct (compact_one K l e) as [[prom d] e1] eqn:Ec.
          apply compact_one_pos in Ec; [|lia].
          assert (0 < length prom)%nat by (destruct prom; [congruence|simpl; lia]).
          destruct t as [|l1 t']; inversion H; subst; rewrite !total_cons, ?app_length; lia.
        + destruct (compact_ls K k t e) as [[t' d] e1] eqn:Ec.
          inversion H; subst. rewrite total_cons in *.
          destruct (length l) as [|n]; [|lia]. specialize (IH _ _ _ _ Ec). lia.
    Qed.

    Lemma run_compactions_pos s e :
      wf s -> 0 < d_ret s -> 0 < d_ret (fst (run_compactions K s e)).
    Proof.
      intros Hwf Hr. unfold run_compactions. rewrite while_pow_fuel.
      apply (while_fuel_inv _ over (compact K) (fun se => wf (fst se) /\ 0 < d_ret (fst se))); [|split; assumption].
      intros [s1 e1] [G1 G2] _. cbn [fst] in *.
      destruct (compact K (s1, e1)) as [s2 e2] eqn:E.
      destruct (compact_props _ _ _ _ E G1) as (F1 & _). cbn [fst]. split; [exact F1|].
      unfold compact in E. destruct (compact_ls K (d_k s1) (d_levels s1) e1) as [[ls dr] e3] eqn:Ec.
      inversion E; subst; clear E.
      destruct G1 as (Hk & _ & Hret). destruct F1 as (_ & _ & Hret2). cbn [d_ret d_levels] in *.
      apply (compact_ls_pos _ Hk) in Ec; lia.
    Qed.

    Lemma ds_merge_pos s o e s' e' :
      inv s -> inv o -> ds_merge K s o e = Some (s', e') -> (0 < d_ret s \/ d_ret o <> 0) -> 0 < d_ret s'.
    Proof.
      intros [Hs _] [Ho [_ Hon]]. unfold ds_merge.
      destruct (Z.eqb_spec (d_n o) 0) as [E0|E0].
      - intros H; inversion H; subst. intros [G|G]; [exact G|].
        destruct Ho as (_ & _ & Hr2). lia.
      - destruct (Z.eqb_spec (d_dim o) (d_dim s)) as [Ed|Ed]; [|discriminate]. cbn [negb].
        set (m := {| d_k := d_k s; d_dim := d_dim s; d_ret := d_ret s + d_ret o; d_n := d_n s + d_n o;
                     d_levels := zip_app (d_levels s) (d_levels o) |}).
        destruct Hs as (Hk & Hne & Hr). destruct Ho as (Hk2 & Hne2 & Hr2).
        assert (Hm : wf m).
        { unfold wf, m; cbn [d_k d_ret d_levels]. rewrite zip_app_total. repeat split; auto using zip_app_ne; lia. }
        intros H G. inversion H as [H'].
        change s' with (fst (s', e')). rewrite <- H'. apply run_compactions_pos; [exact Hm|].
        unfold m; cbn [d_ret]. lia.
    Qed.

    Theorem pos_retained : forall h, valid h -> inputs K h <> [] -> 0 < d_ret (eval K h).
    Proof.
      induction h as [k dim|h IH p e|h1 IH1 h2 IH2 e]; cbn [valid eval inputs].
      - congruence.
      - intros Hv Hi.
        destruct (ds_update K (eval K h) p e) as [[s' e']|] eqn:E; [|now apply IH].
        apply ds_update_spec in E; [tauto|apply eval_inv, Hv].
      - intros [Hv1 Hv2] Hi.
        destruct (ds_merge K (eval K h1) (eval K h2) e) as [[s' e']|] eqn:E; [|now apply IH1].
        eapply ds_merge_pos; [apply eval_inv, Hv1|apply eval_inv, Hv2|exact E|].
        destruct (inputs K h1) as [|x t] eqn:E1.
        + right. simpl in Hi. specialize (IH2 Hv2 Hi). lia.
        + left. apply IH1; [exact Hv1|discriminate].
    Qed.

  End Positive.

End Abstract.

(* ---- statements used verbatim by Properties_C20.v ---- *)
Section PropertyLevel.
  Variable K : point -> point -> Z.

  Lemma retained_accounting : forall h, valid h ->
    d_ret (eval K h) = Z.of_nat (total (d_levels (eval K h))) /\
    length (ds_iterate (eval K h)) = total (d_levels (eval K h)).
  Proof.
    intros h Hv. destruct (eval_inv K h Hv) as ((_ & _ & Hr) & _). split; [exact Hr|apply iter_levels_length].
  Qed.

  Lemma iteration_weights : forall s p w,
    In (p, w) (ds_iterate s) <->
    exists level, (level < length (d_levels s))%nat /\ w = 2 ^ Z.of_nat level /\ In p (nth level (d_levels s) []).
  Proof.
    intros s p w. unfold ds_iterate. rewrite iter_levels_In.
    split; intros (h & H1 & H2 & H3); exists h; repeat split; auto; lia.
  Qed.

  (* get_estimate is refused exactly on an empty sketch (n = 0) or for a query point of the wrong dimension *)
  Lemma estimate_refused : forall s q,
    ds_estimate K s q = None <-> d_n s = 0 \/ Z.of_nat (length q) <> d_dim s.
  Proof.
    intros s q. unfold ds_estimate.
    destruct (Z.eqb_spec (d_n s) 0) as [E|E]; [tauto|].
    destruct (Z.eqb_spec (Z.of_nat (length q)) (d_dim s)) as [D|D]; cbn [negb].
    - split; [discriminate|tauto].
    - tauto.
  Qed.

  (* ... hence defined, with denominator n = number of inputs, for every history with at least one input *)
  Lemma estimate_defined : forall h q, valid h -> inputs K h <> [] -> Z.of_nat (length q) = d_dim (eval K h) ->
    ds_estimate K (eval K h) q = Some (est_num K (eval K h) q, Z.of_nat (length (inputs K h))).
  Proof.
    intros h q Hv Hne Hd. pose proof (n_exact K h Hv) as Hn. unfold ds_estimate.
    destruct (Z.eqb_spec (d_n (eval K h)) 0) as [E|E].
    - destruct (inputs K h); [congruence|simpl in Hn; lia].
    - rewrite Hd, Z.eqb_refl. cbn [negb]. now rewrite Hn.
  Qed.

  Lemma exact_before_compaction : forall h q, valid h -> exact_mode K h -> inputs K h <> [] ->
    Z.of_nat (length q) = d_dim (eval K h) ->
    ds_estimate K (eval K h) q = Some (ksum K q (inputs K h), Z.of_nat (length (inputs K h))) /\
    d_levels (eval K h) = [inputs K h].
  Proof.
    intros h q Hv Hx Hne Hd. destruct (exact_levels K h Hv Hx) as [Hl Hn].
    destruct (exact_mean K h q Hv Hx) as [He _]. split; [|exact Hl].
    rewrite (estimate_defined h q Hv Hne Hd). now rewrite He.
  Qed.

  Lemma estimate_nonneg : (forall a b, 0 <= K a b) ->
    forall h q num den, valid h -> ds_estimate K (eval K h) q = Some (num, den) -> 0 <= num /\ 0 < den.
  Proof.
    intros HK h q num den Hv. unfold ds_estimate.
    destruct (eval_inv K h Hv) as ((_ & _ & Hr) & _ & Hn).
    destruct (Z.eqb_spec (d_n (eval K h)) 0) as [E|E]; [discriminate|].
    destruct (negb (Z.of_nat (length q) =? d_dim (eval K h))); [discriminate|].
    intros H; inversion H; subst; clear H.
    assert (H0 : 0 <= est_num K (eval K h) q) by (apply est_levels_nonneg; [exact HK|lia]).
    split; [exact H0|lia].
  Qed.

  (* the estimate numerator is the weighted kernel sum over the retained points exactly as the iterator reports them
     (point, weight 2^level): for EVERY state, hence after any number of compactions and merges *)
  Definition wksum (q : point) (it : list (point * Z)) : Z :=
    fold_right (fun pw acc => snd pw * K (fst pw) q + acc) 0 it.

  Lemma wksum_cons q x a : wksum q (x :: a) = snd x * K (fst x) q + wksum q a.
  Proof. reflexivity. Qed.
  Lemma wksum_app q a b : wksum q (a ++ b) = wksum q a + wksum q b.
  Proof.
    induction a as [|x a IH]; [reflexivity|].
    change ((x :: a) ++ b) with (x :: (a ++ b)). rewrite !wksum_cons, IH. lia.
  Qed.

  Lemma wksum_level q w l : wksum q (map (fun p => (p, w)) l) = w * ksum K q l.
  Proof.
    induction l as [|p l IHl]; [cbn; lia|].
    change (map (fun p0 => (p0, w)) (p :: l)) with ((p, w) :: map (fun p0 => (p0, w)) l).
    rewrite wksum_cons, IHl. cbn [fst snd]. unfold ksum. cbn [map fold_right]. lia.
  Qed.

  Lemma est_levels_wksum : forall ls q w, est_levels K q w ls = wksum q (iter_levels w ls).
  Proof.
    induction ls as [|l t IH]; intros q w; cbn [est_levels iter_levels]; [reflexivity|].
    rewrite wksum_app, IH, level_sum_ksum, wksum_level. reflexivity.
  Qed.

  Lemma estimate_weighted_sum : forall s q, est_num K s q = wksum q (ds_iterate s).
  Proof. intros. apply est_levels_wksum. Qed.

  (* total weight reported by the iterator *)
  Definition wtotal (it : list (point * Z)) : Z := fold_right (fun pw acc => snd pw + acc) 0 it.
End PropertyLevel.

(* ---------------------------------------------------------------- *)
(* the retained points are input points (compaction only moves or drops points); all of them have the configured dimension *)
(* ---------------------------------------------------------------- *)
Section Subset.
  Variable K : point -> point -> Z.

  Lemma In_upd_nth_const {A} (v : A) : forall l n x, In x (upd_nth n (fun _ => v) l) -> In x l \/ x = v.
  Proof.
    induction l as [|y l IH]; intros [|n] x; cbn [upd_nth In]; try tauto.
    - intros [H|H]; auto.
    - intros [H|H]; auto. destruct (IH n x H); auto.
  Qed.

  Lemma In_swap l i j x : (i < length l)%nat -> (j < length l)%nat -> In x (swap l i j) -> In x l.
  Proof.
    intros Hi Hj H. unfold swap in H.
    apply In_upd_nth_const in H. destruct H as [H| ->]; [|now apply nth_In].
    apply In_upd_nth_const in H. destruct H as [H| ->]; [exact H|now apply nth_In].
  Qed.

  Lemma fy_In x : forall i l e, (i <= length l)%nat -> In x (fst (fy i l e)) -> In x l.
  Proof.
    induction i as [|i IH]; intros l e Hi H; [exact H|].
    destruct i as [|i']; [exact H|].
    rewrite fy_SS in H. destruct (draw e) as [v e'].
    set (j := Z.to_nat (v mod Z.of_nat (Datatypes.S (Datatypes.S i')))) in *.
    assert (Hj : (j < Datatypes.S (Datatypes.S i'))%nat).
    { unfold j. pose proof (Z.mod_pos_bound v (Z.of_nat (Datatypes.S (Datatypes.S i'))) ltac:(lia)). lia. }
    apply IH in H; [|rewrite swap_length; lia].
    apply In_swap in H; [exact H|lia|lia].
  Qed.

  Lemma signs_fst : forall rest done, map fst (signs K done rest) = map fst done ++ rest.
  Proof.
    induction rest as [|p t IH]; intros done; cbn [signs]; [now rewrite app_nil_r|].
    rewrite IH, map_app, <- app_assoc. reflexivity.
  Qed.

  Lemma assign_fst b l : map fst (assign K b l) = l.
  Proof. destruct l as [|p t]; [reflexivity|]. cbn [assign]. now rewrite signs_fst. Qed.

  Lemma compact_one_In l e prom dr e' x : compact_one K l e = (prom, dr, e') -> In x prom -> In x l.
  Proof.
    unfold compact_one. destruct (draw e) as [b e1]. destruct (fy (length l) l e1) as [sh e2] eqn:Ef.
    intros H; inversion H; subst; clear H. intros Hin.
    apply in_map_iff in Hin. destruct Hin as ([p b'] & <- & Hf). apply filter_In in Hf. destruct Hf as [Hf _].
    apply (in_map fst) in Hf. rewrite assign_fst in Hf. cbn [fst] in *.
    apply (fy_In p (length l) l e1); [lia|]. now rewrite Ef.
  Qed.

  Lemma compact_ls_In k x : forall ls e ls' dr e',
    compact_ls K k ls e = (ls', dr, e') -> In x (concat ls') -> In x (concat ls).
  Proof.
    induction ls as [|l t IH]; intros e ls' dr e' H Hin; cbn [compact_ls] in H.
    - inversion H; subst. exact Hin.
    - destruct (k <=? Z.of_nat (length l)).
      + destruct (compact_one K l e) as [[prom d] e1] eqn:Ec.
        destruct t as [|l1 t']; inversion H; subst; clear H; cbn [concat app] in *;
          rewrite ?app_nil_r, ?in_app_iff in *.
        * eapply compact_one_In; eauto.
        * destruct Hin as [[Hin|Hin]|Hin]; auto. left. eapply compact_one_In; eauto.
      + destruct (compact_ls K k t e) as [[t' d] e1] eqn:Ec. inversion H; subst; clear H.
        cbn [concat] in *. rewrite in_app_iff in *. destruct Hin as [Hin|Hin]; [auto|right; eapply IH; eauto].
  Qed.

  Lemma run_compactions_In s e x :
    In x (concat (d_levels (fst (run_compactions K s e)))) -> In x (concat (d_levels s)).
  Proof.
    unfold run_compactions. rewrite while_pow_fuel.
    apply (while_fuel_inv _ over (compact K)
             (fun se => In x (concat (d_levels (fst se))) -> In x (concat (d_levels s)))); [|cbn [fst]; auto].
    intros [s1 e1] H _ Hin. apply H. cbn [fst] in *. unfold compact in Hin.
    destruct (compact_ls K (d_k s1) (d_levels s1) e1) as [[ls dr] e2] eqn:E. cbn [fst d_levels] in Hin.
    eapply compact_ls_In; eauto.
  Qed.

  Lemma push0_In p ls x : In x (concat (push0 p ls)) -> In x (concat ls) \/ x = p.
  Proof.
    destruct ls as [|l t]; cbn [push0 concat]; [simpl; tauto|]. rewrite !in_app_iff. cbn [In].
    intros [[H|[H|[]]]|H]; auto.
  Qed.

  Lemma zip_app_In x : forall a b, In x (concat (zip_app a b)) -> In x (concat a) \/ In x (concat b).
  Proof.
    induction a as [|la ta IH]; intros [|lb tb]; cbn [zip_app concat]; rewrite ?in_app_iff; try tauto.
    intros [[H|H]|H]; auto. destruct (IH tb H); auto.
  Qed.

  Theorem retained_subset : forall h, valid h -> forall x, In x (concat (d_levels (eval K h))) -> In x (inputs K h).
  Proof.
    induction h as [k dim|h IH p e|h1 IH1 h2 IH2 e]; cbn [valid eval inputs].
    - intros _ x H. exact H.
    - intros Hv x Hin. specialize (IH Hv).
      unfold ds_update in *. destruct (Z.of_nat (length p) =? d_dim (eval K h)); [|auto].
      pose proof (run_compactions_In (eval K h) e x) as Hrc.
      destruct (run_compactions K (eval K h) e) as [s1 e1]. cbn [fst d_levels] in *.
      apply push0_In in Hin. rewrite in_app_iff. cbn [In]. destruct Hin as [Hin| ->]; auto.
    - intros [Hv1 Hv2] x Hin. specialize (IH1 Hv1). specialize (IH2 Hv2).
      unfold ds_merge in *. destruct (d_n (eval K h2) =? 0).
      + rewrite in_app_iff. auto.
      + destruct (negb (d_dim (eval K h2) =? d_dim (eval K h1))); [auto|].
        match type of Hin with context [run_compactions K ?m e] =>
          pose proof (run_compactions_In m e x) as Hrc; destruct (run_compactions K m e) as [s1 e1] end.
        cbn [fst d_levels] in *. apply Hrc in Hin. apply zip_app_In in Hin. rewrite in_app_iff.
        destruct Hin as [Hin|Hin]; [left; now apply IH1|right; now apply IH2].
  Qed.

  Theorem inputs_dimension : forall h, valid h ->
    Forall (fun p => Z.of_nat (length p) = d_dim (eval K h)) (inputs K h).
  Proof.
    induction h as [k dim|h IH p e|h1 IH1 h2 IH2 e]; cbn [valid eval inputs].
    - constructor.
    - intros Hv. specialize (IH Hv).
      destruct (ds_update K (eval K h) p e) as [[s' e']|] eqn:E; [|exact IH].
      apply ds_update_spec in E; [|apply eval_inv, Hv]. destruct E as (Hp & _ & _ & _ & Hd & _).
      rewrite Hd. apply Forall_app. split; [exact IH|]. constructor; [exact Hp|constructor].
    - intros [Hv1 Hv2]. specialize (IH1 Hv1). specialize (IH2 Hv2).
      pose proof (n_exact K h2 Hv2) as Hn2.
      destruct (ds_merge K (eval K h1) (eval K h2) e) as [[s' e']|] eqn:E; [|exact IH1].
      apply ds_merge_spec in E; [|apply eval_inv, Hv1|apply eval_inv, Hv2].
      destruct E as (_ & _ & Hd & _ & _ & Hz & Hnz). rewrite Hd.
      apply Forall_app. split; [exact IH1|].
      destruct (Z.eq_dec (d_n (eval K h2)) 0) as [E0|E0].
      + destruct (inputs K h2); [constructor|simpl in Hn2; lia].
      + rewrite <- (Hnz E0). exact IH2.
  Qed.
End Subset.

Lemma retained_points_are_inputs (K : point -> point -> Z) : forall h, valid h ->
  forall p w, In (p, w) (ds_iterate (eval K h)) -> In p (inputs K h) /\ Z.of_nat (length p) = d_dim (eval K h).
Proof.
  intros h Hv p w Hin. apply iteration_weights in Hin. destruct Hin as (lv & Hlt & _ & Hp).
  assert (Hi : In p (inputs K h)).
  { apply (retained_subset K h Hv). apply in_concat. exists (nth lv (d_levels (eval K h)) []). split; [now apply nth_In|exact Hp]. }
  split; [exact Hi|]. pose proof (inputs_dimension K h Hv) as Hd. rewrite Forall_forall in Hd. now apply Hd.
Qed.
