(* Regression_hllunion.v — the union AS SHIPPED (variant [shipped] of HllUnionDefs: no check_rebuild_kxq_cur_min in
   copy_or_downsample, reset() keeps the gadget's reduced lg_k) violates the C04 theorem proved for the repaired code.
   F1  [union_refuted]: hll_union(4); update with an HLL-mode lg_k = 5 sketch A, then with an HLL-mode lg_k = 4 sketch B:
       the down-sampled gadget has cur_min = 0, num_at_cur_min = k with the rebuild flag set, isEmpty() says empty, and the
       second input REPLACES the gadget: every register of A is lost.
   F10 [reset_refuted]: hll_union(5); update with an HLL-mode lg_k = 4 sketch; reset(); one raw item: lg_k of the result
       is 4, not 5.  [value_category_refuted]: after that reset a list-mode lg_k = 5 HLL_8 input gives lg_k 4 by const&
       and lg_k 5 by && (the rvalue shortcut restores lg_max_k). *)
From Coq Require Import ZArith NArith List Bool Lia.
From DS Require Import Word RunnerLib HllDefs HllProofs HllUnionDefs HllUnionBase HllUnionCoupon HllUnionProofs HllUnionCorollaries.
Import ListNotations.
Local Open Scope N_scope.

(* coupons with address a and value v *)
Definition cp (a v : N) : N := pair_sv a v.

Definition CA : list N := map (fun a => cp a 3) [16; 17; 18; 19; 20; 21; 22; 23].     (* lg_k 5: slots 16..23; lg_k 4: slots 0..7 *)
Definition CB : list N := map (fun a => cp a 2) [8; 9; 10; 11; 12; 13; 14; 15].
Definition CL : list N := [cp 100 1; cp 200 5].

Lemma cok_cp a v : a < 67108864 -> 0 < v -> v < 64 -> cok (cp a v).
Proof.
  intros Ha Hv Hv'. split; [|unfold cp; now rewrite pair_val].
  unfold cp, pair_sv. apply lt_pow2_of_bits with (n := 32). intros t Ht.
  rewrite N.lor_spec, N.shiftl_spec_high' by lia. rewrite N.land_spec.
  rewrite (small_testbit_high v 6 (t - 26)) by (try lia; exact Hv').
  rewrite (small_testbit_high a 26 t) by (try lia; exact Ha). reflexivity.
Qed.

Lemma CA_ok : Forall cok CA.
Proof. repeat constructor; apply cok_cp; reflexivity. Qed.
Lemma CB_ok : Forall cok CB.
Proof. repeat constructor; apply cok_cp; reflexivity. Qed.
Lemma CL_ok : Forall cok CL.
Proof. repeat constructor; apply cok_cp; reflexivity. Qed.

(* F1 *)
Theorem union_refuted :
  exists lgmax ops, 4 <= lgmax /\ lgmax <= 21 /\ Forall hop_ok ops /\
    exists u, u_run shipped (u_new lgmax) (map op_of ops) = Some u /\
      ~ result_ok (lg_star lgmax (since_reset ops)) (offered (since_reset ops)) (u_gadget u).
Proof.
  destruct (built8_src_ok 5 CA ltac:(lia) ltac:(lia) CA_ok) as (A & EA & HA).
  destruct (built8_src_ok 4 CB ltac:(lia) ltac:(lia) CB_ok) as (B & EB & HB).
  vm_compute in EA. injection EA as <-. vm_compute in EB. injection EB as <-.
  eexists 4, [HSk false _ CA; HSk false _ CB]. split; [lia|]. split; [lia|].
  split; [apply Forall_cons; [exact HA|apply Forall_cons; [exact HB|apply Forall_nil]]|].
  eexists. split; [vm_compute; reflexivity|].
  intros [_ G _ _]. vm_compute in G. discriminate.
Qed.

(* the registers the shipped code ends with are exactly those of B alone: all of A is gone *)
Example union_refuted_detail :
  match sk_updates (sk_new 5 T8 false) CA, sk_updates (sk_new 4 T8 false) CB with
  | Some A, Some B =>
      match u_run shipped (u_new 4) [USketch false A; USketch false B], u_run repaired (u_new 4) [USketch false A; USketch false B] with
      | Some us, Some ur => sk_regs (u_gadget us) = Some (spec_regs 4 CB) /\ sk_regs (u_gadget ur) = Some (spec_regs 4 (CA ++ CB))
      | _, _ => False
      end
  | _, _ => False
  end.
Proof. vm_compute. split; reflexivity. Qed.

(* F10 *)
Theorem reset_refuted :
  exists lgmax ops, 4 <= lgmax /\ lgmax <= 21 /\ Forall hop_ok ops /\
    exists u, u_run shipped (u_new lgmax) (map op_of ops) = Some u /\
      ~ result_ok (lg_star lgmax (since_reset ops)) (offered (since_reset ops)) (u_gadget u).
Proof.
  destruct (built8_src_ok 4 CB ltac:(lia) ltac:(lia) CB_ok) as (B & EB & HB).
  vm_compute in EB. injection EB as <-.
  eexists 5, [HSk false _ CB; HReset; HCp (cp 100 1)]. split; [lia|]. split; [lia|].
  split; [apply Forall_cons; [exact HB|apply Forall_cons; [exact I|apply Forall_cons; [apply cok_cp; reflexivity|apply Forall_nil]]]|].
  eexists. split; [vm_compute; reflexivity|].
  intros [K _ _ _]. vm_compute in K. discriminate.
Qed.

Theorem value_category_refuted :
  exists lgmax ops1 ops2 u1 u2, Forall hop_ok ops1 /\ Forall hop_ok ops2 /\ plain ops1 = plain ops2 /\
    u_run shipped (u_new lgmax) (map op_of ops1) = Some u1 /\
    u_run shipped (u_new lgmax) (map op_of ops2) = Some u2 /\
    sk_lgk (u_gadget u1) <> sk_lgk (u_gadget u2).
Proof.
  destruct (built8_src_ok 4 CB ltac:(lia) ltac:(lia) CB_ok) as (B & EB & HB).
  destruct (built8_src_ok 5 CL ltac:(lia) ltac:(lia) CL_ok) as (L & EL & HL).
  vm_compute in EB. injection EB as <-. vm_compute in EL. injection EL as <-.
  eexists 5, [HSk false _ CB; HReset; HSk false _ CL], [HSk false _ CB; HReset; HSk true _ CL], _, _.
  split; [apply Forall_cons; [exact HB|apply Forall_cons; [exact I|apply Forall_cons; [exact HL|apply Forall_nil]]]|].
  split; [apply Forall_cons; [exact HB|apply Forall_cons; [exact I|apply Forall_cons; [exact HL|apply Forall_nil]]]|].
  split; [reflexivity|]. split; [vm_compute; reflexivity|]. split; [vm_compute; reflexivity|].
  vm_compute. discriminate.
Qed.
