(* Properties_C10_cpc.v — the serialized image of cpc_sketch keeps the documented little-endian layout. Only
   statements; proofs live in CpcImageProofs.v / CpcImageProofs2.v. The model is CpcImageDefs.v (extracted through
   CpcImageRun.v and compared byte for byte with cpc_sketch::serialize of the C++ on every run; in addition the check
   re-assembles every image in Python from the documented layout).
   [slice off len img] = the len bytes at offset off; u16 / u32 / u64 = little-endian fields; ihh / iht / ihw = the
   HAS_HIP / HAS_TABLE / HAS_WINDOW bits of the flags byte. *)
From Coq Require Import NArith List Bool Lia Arith.
From DS Require Import Word Murmur3 RunnerLib CpcDefs CpcCodecDefs CpcFlavorDefs CpcTableProofs CpcSketchInv.
From DS Require Import CpcImageDefs CpcImageProofs CpcImageProofs2.
Import ListNotations.
Local Open Scope N_scope.

(* bytes 0..7 of EVERY image: preamble_ints, serial_version, family, lg_k, first_interesting_column, flags, seed hash *)
Theorem C10_cpc_header : forall i,
  firstn 8 (enc_image i) = [i_pre i; i_ser i; i_fam i; i_lgk i; i_fic i; i_flags i] ++ u16 (i_sh i).
Proof. exact layout_header. Qed.

(* an empty sketch is those 8 bytes *)
Theorem C10_cpc_empty : forall i, i_nc i = 0 -> enc_image i = enc_header8 i.
Proof. exact layout_empty. Qed.

(* every non-empty image: num_coupons at 8..11 *)
Theorem C10_cpc_num_coupons : forall i, i_nc i <> 0 -> slice 8 4 (enc_image i) = u32 (i_nc i).
Proof. exact layout_num_coupons. Qed.

(* SPARSE / HYBRID (table only): num_coupons, table_data_words, [kxp, hip], table words *)
Theorem C10_cpc_table_only : forall i, i_nc i <> 0 -> iht i = true -> ihw i = false ->
  enc_image i = enc_header8 i ++ u32 (i_nc i) ++ u32 (lenN (i_tab i)) ++ opt (ihh i) (u64 (i_kxp i) ++ u64 (i_hip i)) ++
                flat_map u32 (i_tab i).
Proof. exact layout_table_only. Qed.

Theorem C10_cpc_table_only_hip_offsets : forall i, i_nc i <> 0 -> iht i = true -> ihw i = false -> ihh i = true ->
  slice 12 4 (enc_image i) = u32 (lenN (i_tab i)) /\ slice 16 8 (enc_image i) = u64 (i_kxp i) /\
  slice 24 8 (enc_image i) = u64 (i_hip i) /\ skipn 32 (enc_image i) = flat_map u32 (i_tab i).
Proof. exact layout_table_only_hip_offsets. Qed.

Theorem C10_cpc_table_only_nohip_offsets : forall i, i_nc i <> 0 -> iht i = true -> ihw i = false -> ihh i = false ->
  slice 12 4 (enc_image i) = u32 (lenN (i_tab i)) /\ skipn 16 (enc_image i) = flat_map u32 (i_tab i).
Proof. exact layout_table_only_nohip_offsets. Qed.

(* PINNED / SLIDING without surprising values (window only): num_coupons, window_data_words, [kxp, hip], window words *)
Theorem C10_cpc_window_only : forall i, i_nc i <> 0 -> iht i = false -> ihw i = true ->
  enc_image i = enc_header8 i ++ u32 (i_nc i) ++ u32 (lenN (i_win i)) ++ opt (ihh i) (u64 (i_kxp i) ++ u64 (i_hip i)) ++
                flat_map u32 (i_win i).
Proof. exact layout_window_only. Qed.

Theorem C10_cpc_window_only_offsets : forall i, i_nc i <> 0 -> iht i = false -> ihw i = true ->
  slice 12 4 (enc_image i) = u32 (lenN (i_win i)) /\
  (ihh i = true -> slice 16 8 (enc_image i) = u64 (i_kxp i) /\ slice 24 8 (enc_image i) = u64 (i_hip i) /\
                   skipn 32 (enc_image i) = flat_map u32 (i_win i)) /\
  (ihh i = false -> skipn 16 (enc_image i) = flat_map u32 (i_win i)).
Proof. exact layout_window_only_offsets. Qed.

(* PINNED / SLIDING with surprising values: num_coupons, table_num_entries, [kxp, hip] BEFORE the two word counts,
   table_data_words, window_data_words, window words, table words *)
Theorem C10_cpc_both : forall i, i_nc i <> 0 -> iht i = true -> ihw i = true ->
  enc_image i = enc_header8 i ++ u32 (i_nc i) ++ u32 (i_tne i) ++ opt (ihh i) (u64 (i_kxp i) ++ u64 (i_hip i)) ++
                u32 (lenN (i_tab i)) ++ u32 (lenN (i_win i)) ++ flat_map u32 (i_win i) ++ flat_map u32 (i_tab i).
Proof. exact layout_both. Qed.

Theorem C10_cpc_both_hip_offsets : forall i, i_nc i <> 0 -> iht i = true -> ihw i = true -> ihh i = true ->
  slice 12 4 (enc_image i) = u32 (i_tne i) /\ slice 16 8 (enc_image i) = u64 (i_kxp i) /\
  slice 24 8 (enc_image i) = u64 (i_hip i) /\ slice 32 4 (enc_image i) = u32 (lenN (i_tab i)) /\
  slice 36 4 (enc_image i) = u32 (lenN (i_win i)) /\
  skipn 40 (enc_image i) = flat_map u32 (i_win i) ++ flat_map u32 (i_tab i).
Proof. exact layout_both_hip_offsets. Qed.

Theorem C10_cpc_both_nohip_offsets : forall i, i_nc i <> 0 -> iht i = true -> ihw i = true -> ihh i = false ->
  slice 12 4 (enc_image i) = u32 (i_tne i) /\ slice 16 4 (enc_image i) = u32 (lenN (i_tab i)) /\
  slice 20 4 (enc_image i) = u32 (lenN (i_win i)) /\
  skipn 24 (enc_image i) = flat_map u32 (i_win i) ++ flat_map u32 (i_tab i).
Proof. exact layout_both_nohip_offsets. Qed.

(* the flags byte: bit 0 IS_BIG_ENDIAN clear, bit 1 IS_COMPRESSED set, bit 2 HAS_HIP, bit 3 HAS_TABLE, bit 4 HAS_WINDOW *)
Theorem C10_cpc_flag_bits : forall hh ht hw,
  has_hip (flags_byte hh ht hw) = hh /\ has_table (flags_byte hh ht hw) = ht /\ has_window (flags_byte hh ht hw) = hw /\
  N.testbit (flags_byte hh ht hw) 1 = true /\ N.testbit (flags_byte hh ht hw) 0 = false /\ flags_byte hh ht hw < 32.
Proof. exact flags_byte_bits. Qed.

(* get_preamble_ints: 2 for an empty sketch; 4 / 8 (merged / with HIP) with one of table, window; 6 / 10 with both *)
Theorem C10_cpc_preamble_ints :
  (forall hh ht hw, preamble_ints 0 hh ht hw = 2) /\
  (forall nc, nc <> 0 ->
     preamble_ints nc false true false = 4 /\ preamble_ints nc true true false = 8 /\
     preamble_ints nc false false true = 4 /\ preamble_ints nc true false true = 8 /\
     preamble_ints nc false true true = 6 /\ preamble_ints nc true true true = 10).
Proof. exact preamble_ints_table. Qed.

(* the image of a reachable sketch: the header values, and which class it is, by flavor *)
Theorem C10_cpc_sketch_fields : forall l s hist kxp hip i, SInv l s hist -> 4 <= l <= 26 ->
  image_of_sketch s kxp hip = Some i ->
  i_pre i = preamble_ints (ncoup s) (negb (merged s)) (sketch_has_table s) (sketch_has_window s) /\
  i_ser i = 1 /\ i_fam i = 16 /\ i_lgk i = l /\ i_fic i = fic s /\
  i_flags i = flags_byte (negb (merged s)) (sketch_has_table s) (sketch_has_window s) /\
  i_sh i = compute_seed_hash (seed s) /\ i_nc i = ncoup s /\
  ihh i = negb (merged s) /\ iht i = sketch_has_table s /\ ihw i = sketch_has_window s.
Proof. exact sketch_image_fields. Qed.

Theorem C10_cpc_sketch_class : forall s,
  let fl := determine_flavor (lgk s) (ncoup s) in
  (fl = FL_EMPTY -> sketch_has_table s = false /\ sketch_has_window s = false) /\
  (fl = FL_SPARSE \/ fl = FL_HYBRID -> sketch_has_table s = true /\ sketch_has_window s = false) /\
  (fl = FL_PINNED \/ fl = FL_SLIDING ->
     sketch_has_window s = true /\ (sketch_has_table s = true <-> t_items (table s) <> [])).
Proof. exact sketch_class. Qed.

(* non-vacuity: a SPARSE image with HIP registers, a window-only image without, field by field *)
Definition C10_ex : image :=
  mkI 8 1 16 10 0 14 37836 1 1 4652218415073722368 4607182418800017408 [] [2].
Definition C10_ex2 : image := mkI 4 1 16 4 0 18 37836 9 0 (kxp_empty 4) 0 [7; 8] [].
Example C10_ex_fields :
  let img := enc_image C10_ex in
  length img = 36%nat /\ firstn 8 img = [8; 1; 16; 10; 0; 14; 204; 147] /\
  slice 8 4 img = [1; 0; 0; 0] /\ slice 12 4 img = [1; 0; 0; 0] /\
  slice 16 8 img = [0; 0; 0; 0; 0; 0; 144; 64] /\ slice 24 8 img = [0; 0; 0; 0; 0; 0; 240; 63] /\
  skipn 32 img = [2; 0; 0; 0] /\
  iht C10_ex = true /\ ihw C10_ex = false /\ ihh C10_ex = true /\
  enc_image C10_ex2 = [4; 1; 16; 4; 0; 18; 204; 147;  9; 0; 0; 0;  2; 0; 0; 0;  7; 0; 0; 0;  8; 0; 0; 0] /\
  iht C10_ex2 = false /\ ihw C10_ex2 = true /\ ihh C10_ex2 = false.
Proof. vm_compute. repeat split. Qed.

Print Assumptions C10_cpc_header.
Print Assumptions C10_cpc_empty.
Print Assumptions C10_cpc_num_coupons.
Print Assumptions C10_cpc_table_only.
Print Assumptions C10_cpc_table_only_hip_offsets.
Print Assumptions C10_cpc_table_only_nohip_offsets.
Print Assumptions C10_cpc_window_only.
Print Assumptions C10_cpc_window_only_offsets.
Print Assumptions C10_cpc_both.
Print Assumptions C10_cpc_both_hip_offsets.
Print Assumptions C10_cpc_both_nohip_offsets.
Print Assumptions C10_cpc_flag_bits.
Print Assumptions C10_cpc_preamble_ints.
Print Assumptions C10_cpc_sketch_fields.
Print Assumptions C10_cpc_sketch_class.
