(* HllUnionResult.v — the bridge between the C03 development (HllSketchProofs: [skinv], [hinv]) and the union:
   (1) every hll_sketch reachable by updates — any target type, any mode, start_full_size or not — is an admissible union
       input ([skinv_src_ok], [built_src_ok]);
   (2) get_result(type) for EVERY target type is defined on every reachable union, has lg_k = lg*, decodes to the per-slot
       max of the coupons offered, is empty iff nothing was offered, and is itself an admissible input of another union
       ([union_result_any]). *)
From Coq Require Import ZArith NArith List Bool Lia Permutation.
From DS Require Import Word RunnerLib HllDefs HllProofs HllOpenAddr HllRegsProofs HllSetProofs Hll4Proofs HllSketchProofs.
From DS Require Import HllUnionDefs HllUnionBase HllUnionCoupon HllUnionProofs HllUnionCorollaries.
Import ListNotations.
Local Open Scope N_scope.

Lemma cok_all_nonzero C : Forall cok C -> forall x, In x (nonzero C) <-> In x C.
Proof.
  intros HC x. rewrite nonzero_In. split; [tauto|]. intros Hx. split; [exact Hx|].
  apply cok_nz. rewrite Forall_forall in HC. now apply HC.
Qed.

Lemma cok_cvalid_all C : Forall cok C -> Forall cvalid C.
Proof. intros H. rewrite Forall_forall in *. intros x Hx. apply cok_valid. now apply H. Qed.

Lemma spec_regs_nil lgk : spec_regs lgk [] = zerosN (2 ^ lgk).
Proof. pose proof (fold_reg_max_spec lgk []) as E. cbn [fold_left] in E. now rewrite E. Qed.

(* emptiness of an array that satisfies the C03 invariant *)
Lemma hinv_empty_zeros h : hinv h (zerosN (2 ^ h_lgk h)) -> sk_is_empty (IHll h) = true.
Proof.
  intros (Hlo & Hhi & H64 & Hm). cbn [sk_is_empty].
  assert (Hc : h_curmin h = 0 /\ h_numat h = 2 ^ h_lgk h).
  { destruct (h_ty h).
    - destruct Hm as [[Hn Hna] _].
      assert (Hcm : h_curmin h = 0).
      { destruct (i4_ge _ _ Hn 0) as [Hle _]; [apply N.neq_0_lt_0, N.pow_nonzero; discriminate|].
        rewrite getN_zerosN in Hle. lia. }
      split; [exact Hcm|]. rewrite Hna, Hcm. apply count_eq_zeros.
    - destruct Hm as (_ & _ & _ & (_ & _ & Hcm & Hna & _)). split; [exact Hcm|]. rewrite Hna. apply count_eq_zeros.
    - destruct Hm as (_ & (_ & _ & Hcm & Hna & _)). split; [exact Hcm|]. rewrite Hna. apply count_eq_zeros. }
  destruct Hc as [-> ->]. now rewrite !N.eqb_refl.
Qed.

Lemma hinv_not_empty h regs : hinv h regs -> (exists x, In x regs /\ x <> 0) -> sk_is_empty (IHll h) = false.
Proof.
  intros Hi (x & Hx & Hnz). pose proof (hinv_len _ _ Hi) as Hlen. destruct Hi as (Hlo & Hhi & H64 & Hm). cbn [sk_is_empty].
  pose proof (count_zero_lt regs x Hx Hnz) as Hlt. rewrite Hlen in Hlt.
  destruct (N.eqb_spec (h_curmin h) 0) as [Hcm|]; [|reflexivity]. cbn [andb].
  apply N.eqb_neq.
  destruct (h_ty h).
  - destruct Hm as [[_ Hna] _]. rewrite Hna, Hcm. lia.
  - destruct Hm as (_ & _ & _ & (_ & _ & _ & Hna & _)). rewrite Hna. lia.
  - destruct Hm as (_ & (_ & _ & _ & Hna & _)). rewrite Hna. lia.
Qed.

(* an array with the C03 invariant for the registers of C is an admissible HLL-mode input *)
Lemma hinv_in_ok C h : Forall cok C -> hinv h (spec_regs (h_lgk h) C) -> hll_in_ok C h.
Proof.
  intros HC Hi. pose proof Hi as (Hlo & Hhi & H64 & Hm). split; auto.
  - now apply hinv_regs.
  - intros He ->. rewrite spec_regs_nil in Hi. rewrite (hinv_empty_zeros h Hi) in He. discriminate.
  - intros Ht. rewrite Ht in Hm. destruct Hm as (Hb & (Hl & _ & _ & Hna & _)). rewrite Hb. split; [exact Hl|].
    rewrite Hna, <- Hl. unfold count_eq, lenN. pose proof (filter_len_le (N.eqb 0) (spec_regs (h_lgk h) C)). lia.
Qed.

(* (1) every sketch that satisfies the C03 sketch invariant is an admissible input *)
Theorem skinv_src_ok lgk ty full i C : Forall cok C -> skinv lgk ty full i C -> src_ok C i.
Proof.
  intros HC Hs. split; [exact HC|]. pose proof (cok_all_nonzero C HC) as Hnz.
  destruct i as [l|s|h]; cbn [skinv] in Hs.
  - destruct Hs as (_ & Hk & _ & (E & Ea & Hlen & Hc & Hnd & Hne & HS)). split; [reflexivity|].
    exists E. split.
    { rewrite Ea. unfold zerosN, lenN. do 2 f_equal. lia. }
    split; [unfold lenN in Hlen; lia|]. split; [exact Hnd|]. split; [|exact Hc].
    intros x. rewrite (HS x). apply Hnz.
  - destruct Hs as (_ & Hk & _ & H8 & _ & Hlg & [S1 S2 S3 S4 S5 S6]). split; auto; try lia.
    intros x. rewrite (S6 x). apply Hnz.
  - destruct Hs as (Hk & _ & _ & Hi & _). apply hinv_in_ok; [exact HC|]. now rewrite Hk.
Qed.

Theorem built_src_ok lgk ty full cs : 4 <= lgk -> lgk <= 21 -> Forall cok cs ->
  exists i, sk_updates (sk_new lgk ty full) cs = Some i /\ src_ok cs i.
Proof.
  intros Hlo Hhi Hcs. destruct (sk_run_spec lgk ty full cs Hlo Hhi (cok_cvalid_all cs Hcs)) as (i & E & Hs).
  exists i. split; [exact E|]. now apply skinv_src_ok with lgk ty full.
Qed.

(* (2) get_result(type) *)
Lemma hll_convert_ext ty h1 h2 : hll_regs h1 = hll_regs h2 -> h_lgk h1 = h_lgk h2 -> h_full h1 = h_full h2 -> h_ooo h1 = h_ooo h2 ->
  hll_convert ty h1 = hll_convert ty h2.
Proof. intros E1 E2 E3 E4. unfold hll_convert, hll_coupons. now rewrite E1, E2, E3, E4. Qed.

(* a canonical array with the C03 invariant that decodes like the (possibly stale) HLL_8 gadget *)
Lemma canonical_of_gadget lg C h : 4 <= lg -> lg <= 21 -> Forall cok C -> ghll lg C h ->
  exists h2, hinv h2 (spec_regs lg C) /\ h_lgk h2 = lg /\ h_full h2 = h_full h /\ h_ooo h2 = h_ooo h /\ hll_regs h2 = hll_regs h.
Proof.
  intros Hlo Hhi HC Hg.
  set (h0 := h_set_flags (hll_new lg T8 (h_full h)) (h_ooo h) false).
  assert (Hi0 : hinv h0 (zerosN (2 ^ lg))) by (apply hinv_flags, hinv_new; auto).
  destruct (hinv_fold C h0 _ Hi0 (cok_cvalid_all C HC)) as (h2 & _ & Hi2 & E1 & E2 & E3 & E4 & E5).
  change (h_lgk h0) with lg in *. rewrite fold_reg_max_spec in Hi2.
  exists h2. split; [exact Hi2|]. split; [exact E1|]. split; [exact E3|]. split; [exact E4|].
  rewrite (hinv_regs _ _ Hi2), (hll_regs_8 _ (gh_8 _ _ _ Hg)). f_equal. symmetry. apply (gh_regs _ _ _ Hg).
Qed.

Lemma result_any_ok lgmax lg C g ty : ginv lgmax lg C g ->
  exists r, sk_copy_as ty g = Some r /\ sk_lgk r = lg /\ sk_ty r = ty /\ sk_regs r = Some (spec_regs lg C) /\
            (sk_is_empty r = true <-> C = []) /\ src_ok C r.
Proof.
  intros Hg. pose proof (ginv_result _ _ _ _ Hg) as [Rk Rr Re Rc]. pose proof Hg as (HC & H4 & Hle & H21 & Hok & Hm & Hnn).
  destruct g as [l|s|h]; cbn [sk_copy_as].
  - eexists. split; [reflexivity|]. split; [exact Rk|]. split; [reflexivity|]. split; [exact Rr|]. split; [exact Re|].
    split; [exact HC|]. cbn [cmode_ok sk_lgk] in *. destruct Hok as [[Hk Ha] _]. split; [reflexivity|exact Ha].
  - eexists. split; [reflexivity|]. split; [exact Rk|]. split; [reflexivity|]. split; [exact Rr|]. split; [exact Re|].
    split; [exact HC|]. cbn [cmode_ok sk_lgk s_lgk] in *. destruct Hok as [[S1 S2 S3 S4 S5 S6 S7 S8] _]. split; auto. cbn [s_lg s_lgk]. lia.
  - cbn [cmode_ok] in Hok. specialize (Hnn eq_refl).
    assert (Hnzr : exists x, In x (spec_regs lg C) /\ x <> 0).
    { destruct C as [|c0 C0]; [congruence|]. pose proof (Forall_inv HC) as Hc0. apply (nonzero_reg lg (c0 :: C0) c0 Hc0). now left. }
    unfold hll_copy_as. destruct (tgt_eqb ty (h_ty h) && negb (h_rebuild h)) eqn:Econd.
    + (* direct copy of the HLL_8 gadget *)
      apply andb_true_iff in Econd. destruct Econd as [Et _]. apply tgt_eqb_eq in Et.
      eexists. split; [reflexivity|]. cbn [sk_lgk sk_ty sk_regs]. split; [apply (gh_lgk _ _ _ Hok)|]. split; [now symmetry|].
      split; [exact Rr|]. split; [exact Re|].
      apply (ginv_src_ok lg). destruct Hg as (A & B & _ & D & E & _ & G). repeat (split; [assumption|]).
      split; [lia|]. split; [lia|]. split; [exact E|]. split; [discriminate|exact G].
    + destruct (canonical_of_gadget lg C h H4 ltac:(lia) HC Hok) as (h2 & Hi2 & K2 & F2 & O2 & R2).
      rewrite (hll_convert_ext ty h h2) by (auto; rewrite K2; apply (gh_lgk _ _ _ Hok)).
      destruct (hll_convert_spec ty h2 _ Hi2) as (h' & Ec & Hi' & K' & T' & _).
      rewrite Ec. eexists. split; [reflexivity|]. cbn [sk_lgk sk_ty sk_regs].
      split; [congruence|]. split; [exact T'|]. split; [now apply hinv_regs|]. split.
      * rewrite (hinv_not_empty _ _ Hi' Hnzr). split; [discriminate|]. intros E. now apply Hnn in E.
      * split; [exact HC|]. apply hinv_in_ok; [exact HC|]. now rewrite K', K2.
Qed.

Theorem union_result_any lgmax ops ty : 4 <= lgmax -> lgmax <= 21 -> Forall hop_ok ops ->
  exists u r, u_run repaired (u_new lgmax) (map op_of ops) = Some u /\ u_result u ty = Some r /\
    sk_lgk r = lg_star lgmax (since_reset ops) /\ sk_ty r = ty /\
    sk_regs r = Some (spec_regs (lg_star lgmax (since_reset ops)) (offered (since_reset ops))) /\
    (sk_is_empty r = true <-> offered (since_reset ops) = []) /\
    src_ok (offered (since_reset ops)) r.
Proof.
  intros H4 H21 Hops.
  destruct (run_ok lgmax ops lgmax [] (u_gadget (u_new lgmax)) (ginv_new lgmax H4 H21) Hops) as (g' & E & Hg').
  change (eff_from lgmax ([], lgmax) ops) with (eff lgmax ops) in Hg'. rewrite eff_spelled in Hg'. cbn [fst snd] in Hg'.
  destruct (result_any_ok _ _ _ _ ty Hg') as (r & Er & Hr).
  eexists _, r. split; [exact E|]. split; [exact Er|exact Hr].
Qed.
