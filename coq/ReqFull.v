(* ReqFull.v — exact unbiasedness of the REQ rank estimator over whole histories (merge trees), with the reused
   (negated) coin: the sum over ALL outcomes of the coins of the estimate of any predicate = (number of outcomes) *
   true count, and every outcome draws the same number of coins.

   Route: (1) an instrumented semantics carries, per level h, the accumulated signed error g h of the compactions at
   level h (in units of 2^h); per outcome, estimate = true count + sum_h 2^h * g h.  (2) For a fixed level h, negating
   every coin of level h (the initial coin of each level-h compactor and each fresh coin of a level-h compaction) is a
   bijection on the outcomes under which all compactors below level h are unchanged, the level-h compactors keep their
   items and have their stored coin negated, higher levels keep their sizes only, and g h changes sign: so the sum of
   g h over all outcomes is 0.  The negated (reused) coin of an odd compaction is covered because the STORED coin is
   negated along with the fresh ones. *)
From Coq Require Import ZArith List Bool Lia Permutation Sorted.
From DS Require Import RunnerLib SortedView ReqDefs ReqProofs ReqView ReqSpace ReqFlips ReqUnbiased Regression_req.
Import ListNotations.
Local Open Scope Z_scope.

(* ---------- sums over choice trees ---------- *)
Lemma msum_add {A} (f g : A -> Z) m : msum (fun a => f a + g a) m = msum f m + msum g m.
Proof. induction m as [a|k IH]; cbn [msum]; [lia|]. rewrite !IH. lia. Qed.
Lemma msum_scale {A} (c : Z) (f : A -> Z) m : msum (fun a => c * f a) m = c * msum f m.
Proof. induction m as [a|k IH]; cbn [msum]; [lia|]. rewrite !IH. lia. Qed.
Lemma msum_ext {A} (f g : A -> Z) m : (forall a, leaf m a -> f a = g a) -> msum f m = msum g m.
Proof.
  induction m as [a|k IH]; cbn [msum]; intro H; [apply H; constructor|].
  rewrite (IH false), (IH true); auto; intros a L; apply H; econstructor; eauto.
Qed.
Lemma msum_const {A} (c : Z) (m : M A) : msum (fun _ => c) m = c * msum (fun _ => 1) m.
Proof. rewrite <- msum_scale. apply msum_ext. intros; lia. Qed.

(* same tree, leaves related (erasure of ghost state) *)
Inductive teq {A B} (R : A -> B -> Prop) : M A -> M B -> Prop :=
| teq_ret a b : R a b -> teq R (Ret a) (Ret b)
| teq_flip k1 k2 : (forall c, teq R (k1 c) (k2 c)) -> teq R (Flip k1) (Flip k2).

Lemma teq_bind {A B A' B'} (R : A -> B -> Prop) (R' : A' -> B' -> Prop) m1 m2 f1 f2 :
  teq R m1 m2 -> (forall a b, R a b -> teq R' (f1 a) (f2 b)) -> teq R' (bind m1 f1) (bind m2 f2).
Proof. intros H F. induction H; cbn [bind]; [auto|]. constructor. auto. Qed.

Lemma teq_msum {A B} (R : A -> B -> Prop) f g m1 m2 : teq R m1 m2 -> (forall a b, R a b -> f a = g b) -> msum f m1 = msum g m2.
Proof. intros H F. induction H as [a b H|k1 k2 H IH]; cbn [msum]; [auto|]. now rewrite !IH. Qed.

Lemma teq_leaf {A B} (R : A -> B -> Prop) m1 m2 : teq R m1 m2 -> forall a, leaf m1 a -> exists b, leaf m2 b /\ R a b.
Proof.
  induction 1 as [a0 b0 H|k1 k2 H IH]; intros a L.
  - apply leaf_ret_inv in L. subst. exists b0. split; [constructor|assumption].
  - apply leaf_flip_inv in L as [c L]. destruct (IH c a L) as (b & Lb & Rb). exists b. split; [econstructor; eauto|assumption].
Qed.

(* two trees matched by a bijection of the coin at every node *)
Inductive xsim {A B} (R : A -> B -> Prop) : M A -> M B -> Prop :=
| xs_ret a b : R a b -> xsim R (Ret a) (Ret b)
| xs_flip k1 k2 (neg : bool) : (forall c, xsim R (k1 c) (k2 (xorb neg c))) -> xsim R (Flip k1) (Flip k2).

Lemma xsim_msum {A B} (R : A -> B -> Prop) f g m1 m2 : xsim R m1 m2 -> (forall a b, R a b -> f a = g b) -> msum f m1 = msum g m2.
Proof.
  intros H F. induction H as [a b H|k1 k2 neg H IH]; cbn [msum]; [auto|].
  rewrite (IH false), (IH true). destruct neg; cbn [xorb negb]; lia.
Qed.

Lemma xsim_bind_leaf {A B A' B'} (R : A -> B -> Prop) (R' : A' -> B' -> Prop) m1 m2 f1 f2 :
  xsim R m1 m2 -> (forall a b, leaf m1 a -> leaf m2 b -> R a b -> xsim R' (f1 a) (f2 b)) -> xsim R' (bind m1 f1) (bind m2 f2).
Proof.
  intros H. revert f1 f2. induction H as [a b Hab|k1 k2 neg Hk IH]; intros f1 f2 F; cbn [bind].
  - apply F; auto; constructor.
  - apply (xs_flip R' _ _ neg). intros c. apply IH. intros a b La Lb. apply F; econstructor; eauto.
Qed.

(* ---------- negating the stored coin of a compactor ---------- *)
Definition cneg (c : comp) : comp := mkcomp (lgw c) (negb (coin c)) (srt c) (ssr c) (ssz c) (nsec c) (cstate c) (items c).

Lemma cneg_CS c : CS c (cneg c).
Proof. reflexivity. Qed.

Lemma append_cneg hr c x : append hr (cneg c) x = cneg (append hr c x).
Proof. reflexivity. Qed.
Lemma csort_cneg c : csort (cneg c) = cneg (csort c).
Proof. unfold csort. cbn [srt cneg]. destruct (srt c); reflexivity. Qed.
Lemma ensure_sections_cneg c : ensure_sections (cneg c) = (cneg (fst (ensure_sections c)), snd (ensure_sections c)).
Proof.
  unfold ensure_sections. cbn [nsec cstate ssr cneg].
  destruct ((2 ^ (nsec c - 1) <=? cstate c) && (4 <=? nearest_even (f32_div (ssr c) sqrt2f))); reflexivity.
Qed.
Lemma ensure_loop_cneg : forall fuel c, ensure_loop fuel (cneg c) = cneg (ensure_loop fuel c).
Proof.
  induction fuel as [|f IH]; intro c; cbn [ensure_loop]; [reflexivity|].
  rewrite ensure_sections_cneg. destruct (ensure_sections c) as [c1 g]. cbn [fst snd]. destruct g; [apply IH|reflexivity].
Qed.
Lemma comp_merge_cneg hr c o : comp_merge hr (cneg c) (cneg o) = cneg (comp_merge hr c o).
Proof.
  unfold comp_merge. cbn [lgw coin srt ssr ssz nsec cstate items cneg].
  change (mkcomp (lgw c) (negb (coin c)) (srt c) (ssr c) (ssz c) (nsec c) (Z.lor (cstate c) (cstate o)) (items c))
    with (cneg (mkcomp (lgw c) (coin c) (srt c) (ssr c) (ssz c) (nsec c) (Z.lor (cstate c) (cstate o)) (items c))).
  rewrite ensure_loop_cneg, csort_cneg. reflexivity.
Qed.

(* compact_with reads the stored coin of neither compactor; it stores cn in the compacted one *)
Lemma compact_with_cneg_nx hr c nx cn :
  compact_with hr c (cneg nx) cn =
  let r := compact_with hr c nx cn in ((fst (fst r), cneg (snd (fst r))), snd r).
Proof. reflexivity. Qed.

Lemma compact_with_coin hr c nx cn :
  let r := compact_with hr (cneg c) nx (negb cn) in
  let r' := compact_with hr c nx cn in
  fst (fst r) = cneg (fst (fst r')) /\ items (snd (fst r)) = items (snd (fst (compact_with hr c nx (negb cn)))) /\
  snd r = snd r'.
Proof.
  rewrite !compact_with_eq. cbv zeta. cbn [fst snd].
  change (ckept hr (cneg c)) with (ckept hr c). change (crange hr (cneg c)) with (crange hr c).
  cbn [lgw srt ssr ssz nsec cstate cneg]. change (nom_cap (cneg c)) with (nom_cap c).
  set (c1 := mkcomp (lgw c) cn (srt c) (ssr c) (ssz c) (nsec c) (cstate c + 1) (ckept hr c)).
  change (mkcomp (lgw c) (negb cn) (srt c) (ssr c) (ssz c) (nsec c) (cstate c + 1) (ckept hr c)) with (cneg c1).
  rewrite ensure_sections_cneg. cbn [fst]. splits; auto.
Qed.

(* ---------- the relation "all coins of level h negated" on compactor lists ---------- *)
Definition XC (h i : nat) (a b : comp) : Prop :=
  if (i <? h)%nat then a = b else if (i =? h)%nat then b = cneg a else CS a b.

Lemma XC_CS h i a b : XC h i a b -> CS a b.
Proof. unfold XC. destruct (i <? h)%nat; [intros ->; reflexivity|]. destruct (i =? h)%nat; [intros ->; apply cneg_CS|auto]. Qed.

Fixpoint XL (h i : nat) (a b : list comp) : Prop :=
  match a, b with
  | [], [] => True
  | x :: a', y :: b' => XC h i x y /\ XL h (S i) a' b'
  | _, _ => False
  end.

Lemma XL_shapes h : forall a b i, XL h i a b -> map cshape a = map cshape b.
Proof.
  induction a as [|x a IH]; intros [|y b] i H; cbn [XL] in H; try tauto; try reflexivity. destruct H as (H1 & H2).
  cbn [map]. f_equal; [apply (XC_CS h i); auto|eapply IH; eauto].
Qed.

Lemma XL_length h a b i : XL h i a b -> length a = length b.
Proof. intro H. apply shapes_length. eapply XL_shapes; eauto. Qed.

Lemma XL_nth h : forall a b i n, XL h i a b -> (n < length a)%nat -> XC h (i + n) (nth n a dummy) (nth n b dummy).
Proof.
  induction a as [|x a IH]; intros [|y b] i n H L; cbn [XL length] in *; try tauto; try lia. destruct H as (H1 & H2).
  destruct n as [|n]; cbn [nth]; [now rewrite Nat.add_0_r|]. replace (i + S n)%nat with (S i + n)%nat by lia. apply IH; auto. lia.
Qed.

Lemma XL_upd h x y : forall a b i n, XL h i a b -> XC h (i + n) x y ->
  XL h i (upd_nth n (fun _ => x) a) (upd_nth n (fun _ => y) b).
Proof.
  induction a as [|u a IH]; intros [|v b] i n H C; cbn [XL upd_nth] in *; try tauto; try (destruct n; simpl; tauto). destruct H as (H1 & H2).
  destruct n as [|n]; cbn [upd_nth XL]; [rewrite Nat.add_0_r in C; auto|]. split; auto. apply IH; auto.
  replace (S i + n)%nat with (i + S n)%nat by lia. exact C.
Qed.

Lemma XL_app h : forall a b i a' b', XL h i a b -> XL h (i + length a) a' b' -> XL h i (a ++ a') (b ++ b').
Proof.
  induction a as [|x a IH]; intros [|y b] i a' b' H H'; cbn [XL app length] in *; try tauto.
  - now rewrite Nat.add_0_r in H'.
  - destruct H as (H1 & H2). split; auto. apply IH; auto. replace (S i + length a)%nat with (i + S (length a))%nat by lia. exact H'.
Qed.

(* ---------- ghost state: the signed error accumulated by the compactions of each level ---------- *)
Definition G : Type := nat -> Z.
Definition g0 : G := fun _ => 0.
Definition gadd (g : G) (h : nat) (d : Z) : G := fun i => if (i =? h)%nat then g i + d else g i.
Definition gplus (a b : G) : G := fun i => a i + b i.

Section Ghost.
  Variable p : Z -> bool.
  Variable ic : bool.

  Definition lest (c nx : comp) : Z := cnt p (items c) + 2 * cnt p (items nx).

  (* compress_loop with the ghost *)
  Fixpoint cl_g (fuel : nat) (h : nat) (sg : req * G) : M (req * G) :=
    match fuel with
    | O => Ret sg
    | S f =>
        let s := fst sg in
        if (h <? length (comps s))%nat then
          if nom_cap (getc s h) <=? nitems (getc s h) then
            let s1 := if (h =? 0)%nat then setc s 0%nat (csort (getc s 0%nat)) else s in
            bind (if (length (comps s1) <=? h + 1)%nat then grow ic s1 else Ret s1) (fun s2 =>
            bind (compact (hra s2) (getc s2 h) (getc s2 (S h))) (fun r =>
              let cs := upd_nth (S h) (fun _ => snd (fst r)) (upd_nth h (fun _ => fst (fst r)) (comps s2)) in
              cl_g f (S h)
                (mkreq (rk s2) (hra s2) (maxnom s2 + snd (snd r)) (nret s2 - fst (snd r)) (rn s2) cs (rmin s2) (rmax s2),
                 gadd (snd sg) h (lest (fst (fst r)) (snd (fst r)) - lest (getc s2 h) (getc s2 (S h))))))
          else cl_g f (S h) sg
        else Ret sg
    end.

  Definition compress_g (sg : req * G) : M (req * G) :=
    cl_g (length (comps (fst sg)) + Z.to_nat (sum_items (comps (fst sg))) + 2) 0 sg.

  Definition update_g (sg : req * G) (x : Z) : M (req * G) :=
    let s2 := upd_state (fst sg) x in
    if nret s2 =? maxnom s2 then compress_g (s2, snd sg) else Ret (s2, snd sg).

  Definition merge_g (sg og : req * G) : M (req * G) :=
    let s := fst sg in let o := fst og in
    if rn o =? 0 then Ret sg else
    bind (grow_to ic (length (comps o)) (upd_minmax s (rmin o) (rmax o)) (length (comps o))) (fun s2 =>
    let s3 := merged_state s2 o in
    let g3 := gplus (snd sg) (snd og) in
    if maxnom s3 <=? nret s3 then compress_g (s3, g3) else Ret (s3, g3)).

  Definition new_g (k : Z) (hr : bool) : M (req * G) := bind (req_new ic k hr) (fun s => Ret (s, g0)).

  (* erasure *)
  Definition ER (a : req * G) (b : req) : Prop := fst a = b.

  Lemma teq_refl {A} (m : M A) : teq eq m m.
  Proof. induction m; constructor; auto. Qed.

  Lemma cl_g_erase : forall fuel h s g, teq ER (cl_g fuel h (s, g)) (compress_loop ic fuel h s).
  Proof.
    induction fuel as [|f IH]; intros h s g; cbn [cl_g compress_loop fst snd]; [constructor; reflexivity|].
    destruct (h <? length (comps s))%nat; [|constructor; reflexivity].
    destruct (nom_cap (getc s h) <=? nitems (getc s h)); [|apply IH].
    eapply teq_bind; [apply teq_refl|]. intros s2 ? <-.
    eapply teq_bind; [apply teq_refl|]. intros r ? <-. apply IH.
  Qed.

  Lemma update_g_erase s g x : teq ER (update_g (s, g) x) (update ic s x).
  Proof.
    rewrite update_eq. unfold update_g. cbn [fst snd]. destruct (nret (upd_state s x) =? maxnom (upd_state s x)).
    - apply cl_g_erase.
    - constructor. reflexivity.
  Qed.

  Lemma merge_g_erase s g o go : teq ER (merge_g (s, g) (o, go)) (merge ic s o).
  Proof.
    unfold merge_g, merge. cbn [fst snd]. destruct (rn o =? 0); [constructor; reflexivity|].
    eapply teq_bind; [apply teq_refl|]. intros s2 ? <-. fold (merged_state s2 o).
    destruct (maxnom (merged_state s2 o) <=? nret (merged_state s2 o)); [apply cl_g_erase|constructor; reflexivity].
  Qed.
End Ghost.

(* ---------- lifting compactor operations through XC ---------- *)
Lemma XC_lift h i (F F' : comp -> comp) a b :
  (forall c, F' (cneg c) = cneg (F c)) -> (forall c, F' c = F c) -> (forall x y, CS x y -> CS (F x) (F y)) ->
  XC h i a b -> XC h i (F a) (F' b).
Proof.
  intros N E C. unfold XC. destruct (i <? h)%nat; [intros ->; now rewrite E|].
  destruct (i =? h)%nat; [intros ->; apply N|]. intro H. rewrite E. now apply C.
Qed.

Lemma csort_CS2 x y : CS x y -> CS (csort x) (csort y).
Proof. intro H. eapply CS_trans; [apply csort_CS|]. eapply CS_trans; [exact H|apply CS_sym, csort_CS]. Qed.

Lemma append_CS hr hr' x y v w : CS x y -> CS (append hr x v) (append hr' y w).
Proof.
  intro H. destruct (CS_fields x y H) as (E1 & E2 & E3 & E4 & E5 & E6).
  destruct (append_spec hr x v) as (_ & P2 & P3 & P4 & P5 & P6 & _ & P8 & _).
  destruct (append_spec hr' y w) as (_ & Q2 & Q3 & Q4 & Q5 & Q6 & _ & Q8 & _).
  apply CS_intro; congruence.
Qed.

(* the change of the level-local estimate by one compaction: twice the promoted half minus the range *)
Lemma lest_change p hr c nx cn : par_ok c -> nom_cap c <= nitems c ->
  let r := compact_with hr c nx cn in
  lest p (fst (fst r)) (snd (fst r)) - lest p c nx = 2 * cnt p (promoted cn (crange hr c)) - cnt p (crange hr c).
Proof.
  intros P N. rewrite compact_with_eq. cbv zeta. cbn [fst snd]. unfold lest.
  set (c1 := mkcomp (lgw c) cn (srt c) (ssr c) (ssz c) (nsec c) (cstate c + 1) (ckept hr c)).
  assert (P1 : par_ok c1) by (destruct P as (X & Y & Z0 & G0); unfold par_ok, c1; cbn [ssz nsec cstate ssr]; splits; auto; lia).
  destruct (ensure_sections_spec c1 P1) as (E1 & _). rewrite E1. cbn [items c1]. unfold set_items; cbn [items].
  destruct (range_lists hr c P N) as (L1 & _).
  assert (CL : cnt p (items c) = cnt p (ckept hr c) + cnt p (crange hr c)).
  { rewrite L1 at 1. destruct hr; rewrite cnt_app; lia. }
  destruct hr; rewrite cnt_smerge; lia.
Qed.

Lemma promoted_sum p cn l : cnt p (promoted cn l) + cnt p (promoted (negb cn) l) = cnt p l.
Proof. pose proof (cnt_evens_odds p l). unfold promoted. destruct cn; cbn [negb]; lia. Qed.

(* relation between the results of the compaction of level lv in the two runs *)
Definition RX (p : Z -> bool) (h lv : nat) (a na b nb : comp) (r1 r2 : (comp * comp) * (Z * Z)) : Prop :=
  XC h lv (fst (fst r1)) (fst (fst r2)) /\ XC h (S lv) (snd (fst r1)) (snd (fst r2)) /\ snd r1 = snd r2 /\
  (lv = h -> lest p (fst (fst r1)) (snd (fst r1)) - lest p a na = - (lest p (fst (fst r2)) (snd (fst r2)) - lest p b nb)).

Lemma compact_xsim p h lv hr a b na nb : XC h lv a b -> XC h (S lv) na nb ->
  par_ok a -> par_ok b -> nom_cap a <= nitems a -> nom_cap b <= nitems b ->
  ssorted (items a) -> ssorted (items b) -> ssorted (items na) -> ssorted (items nb) ->
  xsim (RX p h lv a na b nb) (compact hr a na) (compact hr b nb).
Proof.
  intros Xa Xn Pa Pb Ca Cb Sa Sb Sna Snb.
  pose proof (XC_CS _ _ _ _ Xa) as CSa. pose proof (XC_CS _ _ _ _ Xn) as CSn.
  destruct (CS_fields a b CSa) as (_ & ST & _).
  unfold compact. rewrite ST.
  (* the pair of coins used in the two runs: equal below level h, negated at level h, unrelated above *)
  assert (KEY : forall cn cn', ((lv < h)%nat -> cn' = cn) -> (lv = h -> cn' = negb cn) ->
                 RX p h lv a na b nb (compact_with hr a na cn) (compact_with hr b nb cn')).
  { intros cn cn' Hlt Heq. unfold RX.
    pose proof (compact_with_RR hr hr a b na nb cn cn' Pa Pb Ca Cb Sa Sb Sna Snb CSa CSn) as (R1 & R2 & R3).
    unfold XC in Xa, Xn |- *.
    destruct (Nat.ltb_spec lv h) as [LT|GE].
    - (* below level h: the compacted compactor is the same in both runs *)
      subst b. rewrite (Hlt LT) in *.
      destruct (Nat.ltb_spec (S lv) h) as [LT2|GE2].
      + subst nb. splits; auto. intro; lia.
      + replace (S lv =? h)%nat with true in * by (symmetry; apply Nat.eqb_eq; lia). subst nb.
        rewrite compact_with_cneg_nx. cbv zeta. cbn [fst snd]. splits; auto. intro; lia.
    - destruct (Nat.eqb_spec lv h) as [EQ|NE].
      + (* level h: stored coin negated, the other half is promoted *)
        subst b. rewrite (Heq EQ) in *.
        replace (S lv <? h)%nat with false in * by (symmetry; apply Nat.ltb_ge; lia).
        replace (S lv =? h)%nat with false in * by (symmetry; apply Nat.eqb_neq; lia).
        destruct (compact_with_coin hr a nb cn) as (K1 & _ & _).
        assert (CI : fst (fst (compact_with hr a nb cn)) = fst (fst (compact_with hr a na cn))) by reflexivity.
        split; [rewrite K1, CI; reflexivity|]. split; [exact R2|]. split; [exact R3|].
        intros _. rewrite (lest_change p hr a na cn Pa Ca), (lest_change p hr (cneg a) nb (negb cn) Pb Cb).
        change (crange hr (cneg a)) with (crange hr a). pose proof (promoted_sum p cn (crange hr a)). lia.
      + replace (S lv <? h)%nat with false in * by (symmetry; apply Nat.ltb_ge; lia).
        replace (S lv =? h)%nat with false in * by (symmetry; apply Nat.eqb_neq; lia).
        splits; auto. intro; lia. }
  destruct (Z.odd (cstate b)) eqn:OD.
  - (* the stored coin is reused, negated *)
    constructor. apply KEY; unfold XC in Xa.
    + intro LT. replace (lv <? h)%nat with true in Xa by (symmetry; apply Nat.ltb_lt; lia). now subst b.
    + intro EQ. replace (lv <? h)%nat with false in Xa by (symmetry; apply Nat.ltb_ge; lia).
      replace (lv =? h)%nat with true in Xa by (symmetry; apply Nat.eqb_eq; lia). now subst b.
  - apply (xs_flip _ _ _ (lv =? h)%nat). intro cn. constructor. apply KEY.
    + intro LT. replace (lv =? h)%nat with false by (symmetry; apply Nat.eqb_neq; lia). apply Bool.xorb_false_l.
    + intro EQ. replace (lv =? h)%nat with true by (symmetry; apply Nat.eqb_eq; lia). apply Bool.xorb_true_l.
Qed.

(* ---------- the relation on instrumented sketches and its preservation (ic = true) ---------- *)
Record XS (h : nat) (a b : req * G) : Prop := mkXS {
  x_l : XL h 0 (comps (fst a)) (comps (fst b));
  x_ret : nret (fst a) = nret (fst b);
  x_nom : maxnom (fst a) = maxnom (fst b);
  x_n : rn (fst a) = rn (fst b);
  x_k : rk (fst a) = rk (fst b);
  x_h : hra (fst a) = hra (fst b);
  x_g : snd a h = - snd b h;
  x_ia : Inv (fst a);
  x_ib : Inv (fst b)
}.

Notation XQ h := (fun a' b' : req =>
  XL h 0 (comps a') (comps b') /\ rk a' = rk b' /\ nret a' = nret b' /\ rn a' = rn b' /\ hra a' = hra b' /\
  maxnom a' = maxnom b' /\ Inv a' /\ Inv b').

Lemma grow_xsim h a b : XL h 0 (comps a) (comps b) -> rk a = rk b -> nret a = nret b -> rn a = rn b -> hra a = hra b ->
  Inv a -> Inv b ->
  xsim (XQ h) (grow true a) (grow true b).
Proof.
  intros X K N R H Ia Ib. unfold grow.
  pose proof (XL_length _ _ _ _ X) as EL.
  apply (xs_flip _ _ _ (length (comps a) =? h)%nat). intro c. constructor.
  destruct (grow_with_spec a c Ia) as (Ia' & _ & Ea & _).
  destruct (grow_with_spec b (xorb (length (comps a) =? h)%nat c) Ib) as (Ib' & _ & Eb & _).
  assert (X' : XL h 0 (comps (grow_with a c)) (comps (grow_with b (xorb (length (comps a) =? h)%nat c)))).
  { rewrite Ea, Eb. apply XL_app; auto. cbn [XL Nat.add]. split; auto. unfold len. rewrite <- EL, K. unfold XC.
    destruct (Nat.ltb_spec (length (comps a)) h) as [LT|GE].
    - replace (length (comps a) =? h)%nat with false by (symmetry; apply Nat.eqb_neq; lia). now rewrite Bool.xorb_false_l.
    - destruct (Nat.eqb_spec (length (comps a)) h); [rewrite Bool.xorb_true_l|]; reflexivity. }
  splits; auto.
  unfold grow_with; cbn [maxnom]. apply shapes_sum_nom. fold (comps (grow_with a c)).
  change (comps a ++ [new_comp (len (comps a)) (rk a) c]) with (comps (grow_with a c)).
  change (comps b ++ [new_comp (len (comps b)) (rk b) (xorb (length (comps a) =? h)%nat c)]) with (comps (grow_with b (xorb (length (comps a) =? h)%nat c))).
  eapply XL_shapes; eauto.
Qed.

Lemma cl_g_xsim p h : forall fuel lv a b, XS h a b -> xsim (XS h) (cl_g p true fuel lv a) (cl_g p true fuel lv b).
Proof.
  induction fuel as [|f IH]; intros lv [a ga] [b gb] X; cbn [cl_g fst snd]; [now constructor|].
  destruct X as [XLs XR XN Xn XK XH XG Ia Ib]. cbn [fst snd] in *.
  pose proof (XL_shapes _ _ _ _ XLs) as E1. pose proof (shapes_length _ _ E1) as EL. rewrite <- EL.
  destruct (Nat.ltb_spec lv (length (comps a))) as [HL|HL]; [|constructor; constructor; auto].
  assert (Ch : CS (getc a lv) (getc b lv)) by (apply shapes_nth; auto).
  rewrite <- (CS_nom _ _ Ch). destruct (CS_fields _ _ Ch) as (N1 & _). rewrite <- N1.
  destruct (Z.leb_spec (nom_cap (getc a lv)) (nitems (getc a lv))) as [CAP|CAP]; [|apply IH; constructor; auto].
  set (a1 := if (lv =? 0)%nat then setc a 0%nat (csort (getc a 0%nat)) else a).
  set (b1 := if (lv =? 0)%nat then setc b 0%nat (csort (getc b 0%nat)) else b).
  assert (H1 : Inv a1 /\ Inv b1 /\ XL h 0 (comps a1) (comps b1) /\ length (comps a1) = length (comps a) /\
               srt (getc a1 lv) = true /\ srt (getc b1 lv) = true /\ CS (getc a1 lv) (getc a lv) /\
               rk a1 = rk a /\ rk b1 = rk b /\ nret a1 = nret a /\ nret b1 = nret b /\ rn a1 = rn a /\ rn b1 = rn b /\
               hra a1 = hra a /\ hra b1 = hra b /\ maxnom a1 = maxnom a /\ maxnom b1 = maxnom b).
  { unfold a1, b1. destruct lv as [|lv]; cbn [Nat.eqb].
    - destruct (sort0_spec a Ia) as (A1 & _ & A3 & A4 & _). destruct (sort0_spec b Ib) as (B1 & _ & B3 & B4 & _).
      assert (XL0 : XL h 0 (comps (setc a 0%nat (csort (getc a 0%nat)))) (comps (setc b 0%nat (csort (getc b 0%nat))))).
      { unfold setc, set_comps; cbn [comps]. apply XL_upd; auto. cbn [Nat.add].
        apply (XC_lift h 0 csort csort); auto using csort_cneg, csort_CS2.
        apply (XL_nth h _ _ 0 0 XLs). lia. }
      splits; auto.
      pose proof (XL_shapes _ _ _ _ XL0) as ES.
      assert (X0 : map cshape (comps (setc a 0%nat (csort (getc a 0%nat)))) = map cshape (comps a)).
      { destruct Ia as [_ NE _ _ _ _ _ _ _]. unfold setc, set_comps, getc; cbn [comps]. destruct (comps a) as [|c r]; [congruence|].
        cbn [upd_nth nth map]. f_equal. apply csort_CS. }
      apply (shapes_nth _ _ 0%nat X0). rewrite A3. exact HL.
    - splits; auto; try reflexivity; apply srt_above; auto; lia. }
  destruct H1 as (Ia1 & Ib1 & XL1 & LEN1 & SRTa & SRTb & CSa & K1a & K1b & R1a & R1b & N1a & N1b & H1a & H1b & M1a & M1b).
  pose proof (XL_length _ _ _ _ XL1) as FL. rewrite <- FL.
  apply xsim_bind_leaf with (R := fun a' b' => XL h 0 (comps a') (comps b') /\ rk a' = rk b' /\ nret a' = nret b' /\ rn a' = rn b' /\
                                               hra a' = hra b' /\ maxnom a' = maxnom b' /\ Inv a' /\ Inv b').
  { destruct (length (comps a1) <=? lv + 1)%nat.
    - apply grow_xsim; auto; congruence.
    - constructor. splits; auto; congruence. }
  intros a2 b2 La2 Lb2 (XL2 & K2 & R2 & N2 & H2 & M2 & Ia2 & Ib2).
  assert (K : (S lv < length (comps a2))%nat /\ getc a2 lv = getc a1 lv).
  { destruct (Nat.leb_spec (length (comps a1)) (lv + 1)) as [TOP|TOP].
    - apply grow_leaf in La2 as [ca ->]. destruct (grow_with_spec a1 ca Ia1) as (_ & _ & Ea & _).
      split; [rewrite Ea, app_length; simpl; lia|]. unfold getc. rewrite Ea, app_nth1 by lia. reflexivity.
    - apply leaf_ret_inv in La2. subst. split; [lia|reflexivity]. }
  destruct K as (LEN2 & Ga).
  pose proof (XL_length _ _ _ _ XL2) as GL.
  pose proof (XL_nth h _ _ 0 lv XL2 ltac:(lia)) as Xc. pose proof (XL_nth h _ _ 0 (S lv) XL2 LEN2) as Xn'.
  cbn [Nat.add] in Xc, Xn'. fold (getc a2 lv) (getc b2 lv) in Xc. fold (getc a2 (S lv)) (getc b2 (S lv)) in Xn'.
  pose proof (XC_CS _ _ _ _ Xc) as C2h.
  assert (CAPa : nom_cap (getc a2 lv) <= nitems (getc a2 lv)).
  { rewrite Ga. rewrite (CS_nom _ _ CSa). destruct (CS_fields _ _ CSa) as (Y & _). rewrite Y. exact CAP. }
  assert (CAPb : nom_cap (getc b2 lv) <= nitems (getc b2 lv)).
  { rewrite <- (CS_nom _ _ C2h). destruct (CS_fields _ _ C2h) as (Y & _). rewrite <- Y. exact CAPa. }
  assert (SRa : srt (getc a2 lv) = true) by (rewrite Ga; exact SRTa).
  assert (SRb : srt (getc b2 lv) = true).
  { destruct lv as [|lv'].
    - (* level 0 of b was sorted as well; growing does not touch it *)
      destruct (Nat.leb_spec (length (comps b1)) (0 + 1)) as [TOP|TOP].
      + rewrite <- FL in TOP. replace (length (comps a1) <=? 0 + 1)%nat with true in Lb2 by (symmetry; apply Nat.leb_le; lia).
        apply grow_leaf in Lb2 as [cb ->]. destruct (grow_with_spec b1 cb Ib1) as (_ & _ & Eb & _).
        unfold getc. rewrite Eb, app_nth1 by lia. exact SRTb.
      + rewrite <- FL in TOP. replace (length (comps a1) <=? 0 + 1)%nat with false in Lb2 by (symmetry; apply Nat.leb_gt; lia).
        apply leaf_ret_inv in Lb2. subst. exact SRTb.
    - apply srt_above; auto. lia. }
  rewrite H2.
  apply xsim_bind_leaf with (R := RX p h lv (getc a2 lv) (getc a2 (S lv)) (getc b2 lv) (getc b2 (S lv))).
  { apply compact_xsim; auto.
    - apply (Forall_nth_in par_ok (comps a2) lv dummy (i_par a2 Ia2)). lia.
    - apply (Forall_nth_in par_ok (comps b2) lv dummy (i_par b2 Ib2)). lia.
    - apply sorted_at; auto. lia.
    - apply sorted_at; auto. lia.
    - apply sorted_at; auto. apply srt_above; auto. lia.
    - apply sorted_at; auto; [lia|]. apply srt_above; auto. lia. }
  intros ra rb Lra Lrb (X1 & X2 & X3 & X4).
  rewrite <- H2 in Lra.
  destruct (compact_step a2 lv ra Ia2 LEN2 CAPa SRa Lra) as (Ia3 & _).
  destruct (compact_step b2 lv rb Ib2 ltac:(lia) CAPb SRb Lrb) as (Ib3 & _).
  apply IH. constructor; cbn [fst snd comps nret maxnom rn rk hra]; auto; try congruence.
  - apply XL_upd; [apply XL_upd; auto|]; cbn [Nat.add]; auto.
  - unfold gadd. destruct (Nat.eqb_spec h lv) as [E|NE].
    + subst lv. specialize (X4 eq_refl). lia.
    + exact XG.
Qed.

Lemma compress_g_xsim p h a b : XS h a b -> xsim (XS h) (compress_g p true a) (compress_g p true b).
Proof.
  intro X. unfold compress_g. pose proof (XL_shapes _ _ _ _ (x_l h a b X)) as E.
  rewrite (shapes_length _ _ E), (shapes_sum_items _ _ E). now apply cl_g_xsim.
Qed.

Lemma update_g_xsim p h a b x : XS h a b -> xsim (XS h) (update_g p true a x) (update_g p true b x).
Proof.
  intros [XLs XR XN Xn XK XH XG Ia Ib]. destruct a as [a ga]. destruct b as [b gb]. cbn [fst snd] in *. unfold update_g. cbn [fst snd].
  assert (X2 : XS h (upd_state a x, ga) (upd_state b x, gb)).
  { destruct (upd_minmax_fields a x x) as (A1 & A2 & A3 & A4 & A5 & A6).
    destruct (upd_minmax_fields b x x) as (B1 & B2 & B3 & B4 & B5 & B6).
    constructor; cbn [fst snd]; auto using upd_state_Inv; unfold upd_state; cbv zeta; cbn [comps nret maxnom rn rk hra]; try congruence.
    rewrite A1, B1, A4, B4, XH.
    destruct (comps a) as [|ca ra]; destruct (comps b) as [|cb rb]; cbn [XL] in XLs; try tauto. destruct XLs as (X0 & Xr).
    cbn [upd_nth XL]. split; auto.
    apply (XC_lift h 0 (fun c => append (hra b) c x) (fun c => append (hra b) c x)); auto.
    intros u v. apply append_CS. }
  pose proof (x_ret _ _ _ X2) as E1. pose proof (x_nom _ _ _ X2) as E2. cbn [fst] in E1, E2. rewrite <- E1, <- E2.
  destruct (nret (upd_state a x) =? maxnom (upd_state a x)); [now apply compress_g_xsim|now constructor].
Qed.

Lemma grow_to_xsim h : forall fuel a b n, XL h 0 (comps a) (comps b) -> rk a = rk b -> nret a = nret b -> rn a = rn b -> hra a = hra b ->
  maxnom a = maxnom b -> Inv a -> Inv b ->
  xsim (XQ h) (grow_to true fuel a n) (grow_to true fuel b n).
Proof.
  induction fuel as [|f IH]; intros a b n X K R N H M Ia Ib; cbn [grow_to]; [constructor; splits; auto|].
  rewrite (XL_length _ _ _ _ X). destruct (length (comps b) <? n)%nat; [|constructor; splits; auto].
  apply xsim_bind_leaf with (R := XQ h); [apply grow_xsim; auto|].
  intros a' b' _ _ (X' & K' & R' & N' & H' & M' & Ia' & Ib'). now apply IH.
Qed.

Lemma XC_merge h i hr a b oa ob : XC h i a b -> XC h i oa ob -> par_ok a -> par_ok b -> par_ok oa -> par_ok ob ->
  comp_sorted a -> comp_sorted b -> comp_sorted oa -> comp_sorted ob ->
  XC h i (comp_merge hr a oa) (comp_merge hr b ob).
Proof.
  intros X Xo Pa Pb Poa Pob Sa Sb Soa Sob. unfold XC in *.
  destruct (i <? h)%nat; [now subst|]. destruct (i =? h)%nat; [subst; apply comp_merge_cneg|].
  apply comp_merge_CS; auto; [exact (proj1 (proj2 (proj2 Poa)))|exact (proj1 (proj2 (proj2 Pob)))].
Qed.

Lemma XL_merge h hr : forall a b oa ob i, XL h i a b -> XL h i oa ob ->
  Forall par_ok a -> Forall par_ok b -> Forall par_ok oa -> Forall par_ok ob ->
  Forall comp_sorted a -> Forall comp_sorted b -> Forall comp_sorted oa -> Forall comp_sorted ob ->
  XL h i (merge_comps hr a oa) (merge_comps hr b ob).
Proof.
  induction a as [|x a IH]; intros [|y b] oa ob i X Xo Pa Pb Poa Pob Sa Sb Soa Sob; cbn [XL] in X; try tauto.
  destruct oa as [|u oa]; destruct ob as [|v ob]; cbn [XL] in Xo; try tauto.
  - change (merge_comps hr (x :: a) []) with (x :: a). change (merge_comps hr (y :: b) []) with (y :: b). exact X.
  - change (merge_comps hr (x :: a) (u :: oa)) with (comp_merge hr x u :: merge_comps hr a oa).
    change (merge_comps hr (y :: b) (v :: ob)) with (comp_merge hr y v :: merge_comps hr b ob).
    destruct X as (X1 & X2). destruct Xo as (Y1 & Y2).
    pose proof (Forall_inv Pa); pose proof (Forall_inv Pb); pose proof (Forall_inv Poa); pose proof (Forall_inv Pob).
    pose proof (Forall_inv Sa); pose proof (Forall_inv Sb); pose proof (Forall_inv Soa); pose proof (Forall_inv Sob).
    pose proof (Forall_inv_tail Pa); pose proof (Forall_inv_tail Pb); pose proof (Forall_inv_tail Poa); pose proof (Forall_inv_tail Pob).
    pose proof (Forall_inv_tail Sa); pose proof (Forall_inv_tail Sb); pose proof (Forall_inv_tail Soa); pose proof (Forall_inv_tail Sob).
    cbn [XL]. split; [apply XC_merge; auto|apply IH; auto].
Qed.

Lemma merge_g_xsim p h a b oa ob : XS h a b -> XS h oa ob ->
  xsim (XS h) (merge_g p true a oa) (merge_g p true b ob).
Proof.
  intros [XLs XR XN Xn XK XH XG Ia Ib] [YLs YR YN Yn YK YH YG Ioa Iob].
  destruct a as [a ga]. destruct b as [b gb]. destruct oa as [oa goa]. destruct ob as [ob gob]. cbn [fst snd] in *.
  unfold merge_g. cbn [fst snd]. rewrite Yn.
  destruct (rn ob =? 0); [constructor; constructor; auto|].
  rewrite (XL_length _ _ _ _ YLs).
  destruct (upd_minmax_fields a (rmin oa) (rmax oa)) as (A1 & A2 & A3 & A4 & A5 & A6).
  destruct (upd_minmax_fields b (rmin ob) (rmax ob)) as (B1 & B2 & B3 & B4 & B5 & B6).
  assert (Ia1 : Inv (upd_minmax a (rmin oa) (rmax oa))) by (apply (Inv_fields a _); auto).
  assert (Ib1 : Inv (upd_minmax b (rmin ob) (rmax ob))) by (apply (Inv_fields b _); auto).
  apply xsim_bind_leaf with (R := XQ h).
  { apply grow_to_xsim; auto; try congruence; try (rewrite A1, B1; exact XLs). }
  intros a2 b2 La Lb (X2 & K2 & R2 & N2 & H2 & M2 & Ia2 & Ib2).
  destruct (grow_to_spec true _ _ _ _ Ia1 (Nat.le_add_l _ _) La) as (_ & _ & LENa & _).
  destruct (grow_to_spec true _ _ _ _ Ib1 (Nat.le_add_l _ _) Lb) as (_ & _ & LENb & _).
  assert (LEa : (length (comps oa) <= length (comps a2))%nat) by (rewrite LENa, (XL_length _ _ _ _ YLs); lia).
  assert (LEb : (length (comps ob) <= length (comps b2))%nat) by lia.
  assert (X3 : XS h (merged_state a2 oa, gplus ga goa) (merged_state b2 ob, gplus gb gob)).
  { assert (XM : XL h 0 (merge_comps (hra a2) (comps a2) (comps oa)) (merge_comps (hra b2) (comps b2) (comps ob))).
    { rewrite H2. apply XL_merge; auto; try apply (i_par _ Ia2); try apply (i_par _ Ib2); try apply (i_par _ Ioa); try apply (i_par _ Iob);
        try apply (i_srt0 _ Ia2); try apply (i_srt0 _ Ib2); try apply (i_srt0 _ Ioa); try apply (i_srt0 _ Iob). }
    pose proof (XL_shapes _ _ _ _ XM) as ES.
    constructor; cbn [fst snd]; auto using merged_state_Inv; unfold merged_state; cbv zeta; cbn [comps nret maxnom rn rk hra]; auto; try congruence.
    - now apply shapes_sum_items.
    - now apply shapes_sum_nom.
    - unfold gplus. lia. }
  pose proof (x_ret _ _ _ X3) as E1. pose proof (x_nom _ _ _ X3) as E2. cbn [fst] in E1, E2. rewrite <- E1, <- E2.
  destruct (maxnom (merged_state a2 oa) <=? nret (merged_state a2 oa)); [now apply compress_g_xsim|now constructor].
Qed.

Lemma new_g_xsim h k hr : xsim (XS h) (new_g true k hr) (new_g true k hr).
Proof.
  unfold new_g, req_new, grow. cbn [bind].
  apply (xs_flip _ _ _ (0 =? h)%nat). intro c. constructor.
  set (e := mkreq (eff_k k) hr 0 0 0 [] 0 0).
  assert (Ia : Inv (grow_with e c)).
  { assert (L : leaf (req_new true k hr) (grow_with e c)) by (unfold req_new, grow; apply (leaf_flip _ c); constructor).
    apply (r_inv _ [] (Rel_new true k hr _ L)). }
  assert (Ib : Inv (grow_with e (xorb (0 =? h)%nat c))).
  { assert (L : leaf (req_new true k hr) (grow_with e (xorb (0 =? h)%nat c))) by (unfold req_new, grow; apply (leaf_flip _ (xorb (0 =? h)%nat c)); constructor).
    apply (r_inv _ [] (Rel_new true k hr _ L)). }
  constructor; cbn [fst snd]; auto; try reflexivity.
  unfold grow_with, e; cbn [comps app XL]. split; auto. unfold XC.
  destruct h as [|h]; cbn [Nat.ltb Nat.leb Nat.eqb]; [rewrite Bool.xorb_true_l|rewrite Bool.xorb_false_l]; reflexivity.
Qed.

(* ---------- per outcome: estimate = true count + sum over the levels of 2^level * accumulated error ---------- *)
Fixpoint wsum (g : G) (n : nat) : Z :=
  match n with
  | O => 0
  | S n' => wsum g n' + 2 ^ Z.of_nat n' * g n'
  end.

Lemma wsum_zero g : forall n m, (n <= m)%nat -> (forall i, (n <= i)%nat -> g i = 0) -> wsum g m = wsum g n.
Proof.
  intros n m L Z0. induction m as [|m IH]; [replace n with 0%nat by lia; reflexivity|].
  destruct (Nat.eq_dec n (S m)) as [->|NE]; [reflexivity|]. cbn [wsum]. rewrite IH by lia. rewrite (Z0 m) by lia. lia.
Qed.

Lemma wsum_ext g g' : forall n, (forall i, (i < n)%nat -> g i = g' i) -> wsum g n = wsum g' n.
Proof. induction n as [|n IH]; intro H; [reflexivity|]. cbn [wsum]. rewrite IH, (H n) by (auto; intros; apply H; lia). reflexivity. Qed.

Lemma wsum_gadd g lv d : forall n, (lv < n)%nat -> wsum (gadd g lv d) n = wsum g n + 2 ^ Z.of_nat lv * d.
Proof.
  induction n as [|n IH]; intro L; [lia|]. cbn [wsum].
  destruct (Nat.eq_dec n lv) as [->|NE].
  - rewrite (wsum_ext (gadd g lv d) g lv).
    + unfold gadd. rewrite Nat.eqb_refl. lia.
    + intros i Hi. unfold gadd. replace (i =? lv)%nat with false by (symmetry; apply Nat.eqb_neq; lia). reflexivity.
  - rewrite IH by lia. unfold gadd at 1. replace (n =? lv)%nat with false by (symmetry; apply Nat.eqb_neq; lia). lia.
Qed.

Lemma wsum_gplus a b : forall n, wsum (gplus a b) n = wsum a n + wsum b n.
Proof. induction n as [|n IH]; [reflexivity|]. cbn [wsum]. rewrite IH. unfold gplus. lia. Qed.

Definition GI (p : Z -> bool) (T : Z) (sg : req * G) : Prop :=
  Rs p (comps (fst sg)) = T + wsum (snd sg) (length (comps (fst sg))) /\
  (forall i, (length (comps (fst sg)) <= i)%nat -> snd sg i = 0).

Lemma Rs_upd2 p s lv c' nx' : Inv s -> (S lv < length (comps s))%nat ->
  lgw c' = lgw (getc s lv) -> lgw nx' = lgw (getc s (S lv)) ->
  Rs p (upd_nth (S lv) (fun _ => nx') (upd_nth lv (fun _ => c') (comps s))) =
  Rs p (comps s) + 2 ^ Z.of_nat lv * (lest p c' nx' - lest p (getc s lv) (getc s (S lv))).
Proof.
  intros [K NE LG RT NM W S0 S1 PA] HL E1 E2. unfold getc in *.
  destruct (nth_split2 (comps s) lv dummy HL) as (pre & post & E & LP).
  set (c := nth lv (comps s) dummy) in *. set (nx := nth (S lv) (comps s) dummy) in *.
  rewrite E in LG. apply lgw_from_app in LG as (_ & LG2). cbn [lgw_from] in LG2. destruct LG2 as (LGc & LGn & _).
  assert (LV : len pre = Z.of_nat lv) by (unfold len; now rewrite LP).
  rewrite LV in *.
  assert (PW : 2 ^ (0 + Z.of_nat lv + 1) = 2 * 2 ^ Z.of_nat lv).
  { replace (0 + Z.of_nat lv + 1) with (Z.succ (Z.of_nat lv)) by lia. rewrite Z.pow_succ_r; lia. }
  rewrite E at 1 2. rewrite <- LP at 1 2. rewrite (upd_nth_at2 pre c nx post), !Rs_app, !Rs_cons. unfold Rc, lest.
  rewrite E1, E2, LGc, LGn, PW. replace (0 + Z.of_nat lv) with (Z.of_nat lv) by lia. nia.
Qed.

Lemma sort0_Rs p s : Inv s -> Rs p (comps (setc s 0%nat (csort (getc s 0%nat)))) = Rs p (comps s).
Proof.
  intros [_ NE _ _ _ _ _ _ _]. unfold setc, set_comps, getc; cbn [comps].
  destruct (comps s) as [|c r]; [congruence|]. cbn [upd_nth nth]. rewrite !Rs_cons. f_equal.
  destruct (csort_spec c) as (F1 & _ & _ & F4 & _). unfold Rc. now rewrite F4, (cnt_perm _ _ _ F1).
Qed.

Lemma cl_g_GI p ic T : forall fuel lv sg sg', Inv (fst sg) -> GI p T sg -> leaf (cl_g p ic fuel lv sg) sg' -> GI p T sg' /\ Inv (fst sg').
Proof.
  induction fuel as [|f IH]; intros lv [s g] sg' I GIs L; cbn [cl_g fst snd] in *.
  { apply leaf_ret_inv in L. subst. auto. }
  destruct (Nat.ltb_spec lv (length (comps s))) as [HL|HL]; [|apply leaf_ret_inv in L; subst; auto].
  destruct (Z.leb_spec (nom_cap (getc s lv)) (nitems (getc s lv))) as [CAP|CAP]; [|exact (IH (S lv) (s, g) sg' I GIs L)].
  set (s1 := if (lv =? 0)%nat then setc s 0%nat (csort (getc s 0%nat)) else s) in *.
  assert (H1 : Inv s1 /\ length (comps s1) = length (comps s) /\ srt (getc s1 lv) = true /\
               nom_cap (getc s1 lv) = nom_cap (getc s lv) /\ nitems (getc s1 lv) = nitems (getc s lv) /\
               Rs p (comps s1) = Rs p (comps s)).
  { unfold s1. destruct lv as [|lv]; cbn [Nat.eqb].
    - destruct (sort0_spec s I) as (A & _ & B & C & D & E & _). splits; auto. now apply sort0_Rs.
    - splits; auto. apply srt_above; auto. lia. }
  destruct H1 as (I1 & LEN1 & SRT1 & NC1 & NI1 & RS1).
  apply leaf_bind in L as (s2 & L2 & L). apply leaf_bind in L as (r & L3 & L).
  destruct GIs as (GE & GZ). cbn [fst snd] in GE, GZ.
  assert (H2 : Inv s2 /\ (S lv < length (comps s2))%nat /\ getc s2 lv = getc s1 lv /\
               Rs p (comps s2) = T + wsum g (length (comps s2)) /\ (forall i, (length (comps s2) <= i)%nat -> g i = 0)).
  { destruct (Nat.leb_spec (length (comps s1)) (lv + 1)) as [TOP|TOP].
    - apply grow_leaf in L2 as [c0 ->]. destruct (grow_with_spec s1 c0 I1) as (I2 & _ & E2 & _).
      splits; auto.
      + rewrite E2, app_length. simpl. lia.
      + unfold getc. rewrite E2, app_nth1 by lia. reflexivity.
      + pose proof (grow_est p s1 c0 I1) as GE2. unfold est in GE2. rewrite GE2, RS1, GE.
        rewrite E2, app_length. cbn [length]. rewrite Nat.add_1_r. cbn [wsum]. rewrite LEN1, (GZ (length (comps s))) by lia. lia.
      + intros i Hi. apply GZ. rewrite E2, app_length in Hi. simpl in Hi. lia.
    - apply leaf_ret_inv in L2. subst s2. splits; auto; try lia.
      + rewrite RS1, GE, LEN1. reflexivity.
      + intros i Hi. apply GZ. lia. }
  destruct H2 as (I2 & LEN2 & G2 & GE2 & GZ2).
  assert (CAP2 : nom_cap (getc s2 lv) <= nitems (getc s2 lv)) by (rewrite G2, NC1, NI1; exact CAP).
  assert (SRT2 : srt (getc s2 lv) = true) by (rewrite G2; exact SRT1).
  destruct (compact_step s2 lv r I2 LEN2 CAP2 SRT2 L3) as (I3 & _ & LEN3 & _).
  pose proof L3 as L3'. apply compact_leaf in L3' as [cn ->].
  assert (P0 : par_ok (getc s2 lv)) by (apply (Forall_nth_in par_ok (comps s2) lv dummy (i_par s2 I2)); lia).
  destruct (compact_with_lgw (hra s2) (getc s2 lv) (getc s2 (S lv)) cn P0) as (LG1 & LG2).
  refine (IH _ (_, _) _ _ _ L); [exact I3|]. split; cbn [fst snd comps].
  - rewrite (Rs_upd2 p s2 lv _ _ I2 LEN2 LG1 LG2). cbn [comps] in LEN3. rewrite LEN3, wsum_gadd by lia. rewrite GE2. lia.
  - intros i Hi. cbn [comps] in LEN3. rewrite LEN3 in Hi. unfold gadd.
    replace (i =? lv)%nat with false by (symmetry; apply Nat.eqb_neq; lia). apply GZ2. exact Hi.
Qed.

Lemma compress_g_GI p ic T sg sg' : Inv (fst sg) -> GI p T sg -> leaf (compress_g p ic sg) sg' -> GI p T sg' /\ Inv (fst sg').
Proof. apply cl_g_GI. Qed.

Lemma update_g_GI p ic T s g x sg' : Inv s -> GI p T (s, g) -> leaf (update_g p ic (s, g) x) sg' ->
  GI p (T + (if p x then 1 else 0)) sg'.
Proof.
  intros I (GE & GZ) L. cbn [fst snd] in *. unfold update_g in L. cbn [fst snd] in L.
  assert (G2 : GI p (T + (if p x then 1 else 0)) (upd_state s x, g)).
  { destruct (upd_minmax_fields s x x) as (E1 & E2 & E3 & E4 & E5 & E6).
    destruct I as [K NE LG RT NM W S0 S1 PA]. unfold GI, upd_state. cbv zeta. cbn [fst snd comps]. rewrite E1.
    destruct (comps s) as [|c0 r] eqn:EC; [congruence|]. cbn [upd_nth length] in *.
    cbn [lgw_from] in LG. destruct LG as (LG0 & _).
    pose proof (append_est (hra (upd_minmax s x x)) p c0 x r LG0) as AE. unfold est in AE. rewrite AE, GE. split; [lia|exact GZ]. }
  destruct (nret (upd_state s x) =? maxnom (upd_state s x)).
  - apply (compress_g_GI p ic _ (upd_state s x, g) sg'); auto. now apply upd_state_Inv.
  - apply leaf_ret_inv in L. now subst.
Qed.

Lemma all_items_nil_Rs p : forall cs, all_items cs = [] -> Rs p cs = 0.
Proof.
  induction cs as [|c r IH]; intro H; [reflexivity|]. rewrite all_items_cons in H. apply app_eq_nil in H as (H1 & H2).
  rewrite Rs_cons, IH by assumption. unfold Rc. rewrite H1, cnt_nil. lia.
Qed.

Lemma merge_g_GI p ic Ta Tb s g o go sg' l2 : Inv s -> Rel o l2 -> Tb = cnt p l2 ->
  GI p Ta (s, g) -> GI p Tb (o, go) -> leaf (merge_g p ic (s, g) (o, go)) sg' -> GI p (Ta + Tb) sg'.
Proof.
  intros I Ro ETb (GE & GZ) (GEo & GZo) L. cbn [fst snd] in *. pose proof (r_inv o l2 Ro) as Io.
  unfold merge_g in L. cbn [fst snd] in L.
  destruct (Z.eqb_spec (rn o) 0) as [Z0|Z0].
  { apply leaf_ret_inv in L. subst sg'. pose proof (r_n o l2 Ro) as No. rewrite Z0 in No. symmetry in No.
    apply len_zero_nil in No. subst l2. rewrite ETb, cnt_nil, Z.add_0_r. split; assumption. }
  destruct (upd_minmax_fields s (rmin o) (rmax o)) as (E1 & E2 & E3 & E4 & E5 & E6).
  assert (I1 : Inv (upd_minmax s (rmin o) (rmax o))) by (apply (Inv_fields s _); auto).
  apply leaf_bind in L as (s2 & L2 & L).
  destruct (grow_to_spec ic _ _ _ _ I1 (Nat.le_add_l _ _) L2) as (I2 & _ & LEN2 & AI2 & (ext & EXT)).
  assert (LE : (length (comps o) <= length (comps s2))%nat) by lia.
  assert (G3 : GI p (Ta + Tb) (merged_state s2 o, gplus g go)).
  { assert (RX0 : Rs p ext = 0).
    { apply all_items_nil_Rs. rewrite EXT, all_items_app in AI2. rewrite <- (app_nil_r (all_items (comps (upd_minmax s (rmin o) (rmax o))))) in AI2 at 2.
      now apply app_inv_head in AI2. }
    unfold GI, merged_state. cbv zeta. cbn [fst snd comps].
    destruct (merge_comps_spec (hra s2) (comps s2) (comps o) 0 (i_par s2 I2) (i_srt0 s2 I2) (i_par o Io) (i_srt0 o Io) (i_lg s2 I2) (i_lg o Io)) as (R1 & _).
    rewrite R1.
    pose proof (merge_comps_est (hra s2) p (comps s2) (comps o) (i_par s2 I2) (i_srt0 s2 I2) (i_par o Io) (i_srt0 o Io) (i_lg s2 I2) (i_lg o Io) LE) as ME.
    unfold est in ME. rewrite ME. rewrite EXT at 1. rewrite Rs_app, RX0, E1, GE, GEo, wsum_gplus.
    assert (LS : (length (comps s) <= length (comps s2))%nat) by (rewrite LEN2, E1; lia).
    rewrite (wsum_zero g (length (comps s)) (length (comps s2)) LS GZ), (wsum_zero go (length (comps o)) (length (comps s2)) LE GZo).
    split; [lia|]. intros i Hi. unfold gplus. rewrite GZ, GZo by lia. reflexivity. }
  pose proof (merged_state_Inv s2 o I2 Io LE) as I3.
  fold (merged_state s2 o) in L.
  destruct (maxnom (merged_state s2 o) <=? nret (merged_state s2 o)).
  - apply (compress_g_GI p ic _ (merged_state s2 o, gplus g go) sg'); auto.
  - apply leaf_ret_inv in L. now subst.
Qed.

(* ---------- histories: merge trees of updates ---------- *)
Inductive htree : Type := HNew (k : Z) | HUpd (t : htree) (x : Z) | HMerge (a b : htree).

Fixpoint hlog (t : htree) : list Z :=
  match t with HNew _ => [] | HUpd t x => hlog t ++ [x] | HMerge a b => hlog a ++ hlog b end.
Fixpoint hwf (t : htree) : Prop :=
  match t with HNew k => 0 <= k <= 65535 | HUpd t _ => hwf t | HMerge a b => hwf a /\ hwf b end.

(* the sketch computed by a history (all sketches in mode hr) *)
Fixpoint run (ic hr : bool) (t : htree) : M req :=
  match t with
  | HNew k => req_new ic k hr
  | HUpd t x => bind (run ic hr t) (fun s => update ic s x)
  | HMerge a b => bind (run ic hr a) (fun sa => bind (run ic hr b) (fun sb => merge ic sa sb))
  end.

Fixpoint run_g (p : Z -> bool) (hr : bool) (t : htree) : M (req * G) :=
  match t with
  | HNew k => new_g true k hr
  | HUpd t x => bind (run_g p hr t) (fun sg => update_g p true sg x)
  | HMerge a b => bind (run_g p hr a) (fun sa => bind (run_g p hr b) (fun sb => merge_g p true sa sb))
  end.

Lemma run_reach ic hr : forall t s, hwf t -> leaf (run ic hr t) s -> reach ic s (hlog t) /\ hra s = hr.
Proof.
  induction t as [k|t IH x|a IHa b IHb]; intros s W L; cbn [run hlog hwf] in *.
  - split; [eapply reach_new; eauto|eapply req_new_hra; eauto].
  - apply leaf_bind in L as (s0 & L0 & L). destruct (IH s0 W L0) as (R0 & H0). split; [eapply reach_update; eauto|].
    destruct (update_full ic s0 (hlog t) x s (reach_Rel ic _ _ R0) L) as (_ & H & _). congruence.
  - destruct W as (Wa & Wb). apply leaf_bind in L as (sa & La & L). apply leaf_bind in L as (sb & Lb & L).
    destruct (IHa sa Wa La) as (Ra & Ha). destruct (IHb sb Wb Lb) as (Rb & Hb).
    split; [eapply reach_merge; eauto; congruence|].
    destruct (merge_full ic sa (hlog a) sb (hlog b) s (reach_Rel ic _ _ Ra) (reach_Rel ic _ _ Rb) L) as (_ & H & _). congruence.
Qed.

Lemma new_g_erase k hr : teq ER (new_g true k hr) (req_new true k hr).
Proof.
  unfold new_g. generalize (req_new true k hr). induction m as [a|kk IH]; cbn [bind]; constructor; [reflexivity|auto].
Qed.

Lemma run_g_erase p hr : forall t, teq ER (run_g p hr t) (run true hr t).
Proof.
  induction t as [k|t IH x|a IHa b IHb]; cbn [run run_g].
  - apply new_g_erase.
  - eapply teq_bind; [exact IH|]. intros [s g] s' E. unfold ER in E. cbn [fst] in E. subst s'. apply update_g_erase.
  - eapply teq_bind; [exact IHa|]. intros [sa ga] sa' E. unfold ER in E. cbn [fst] in E. subst sa'.
    eapply teq_bind; [exact IHb|]. intros [sb gb] sb' E. unfold ER in E. cbn [fst] in E. subst sb'. apply merge_g_erase.
Qed.

Lemma run_g_leaf p hr t sg : hwf t -> leaf (run_g p hr t) sg -> reach true (fst sg) (hlog t) /\ hra (fst sg) = hr.
Proof.
  intros W L. destruct (teq_leaf ER _ _ (run_g_erase p hr t) sg L) as (s & Ls & E). unfold ER in E. subst s.
  now apply run_reach.
Qed.

(* (1) per outcome *)
Lemma run_g_GI p hr : forall t sg, hwf t -> leaf (run_g p hr t) sg -> GI p (cnt p (hlog t)) sg.
Proof.
  induction t as [k|t IH x|a IHa b IHb]; intros sg W L; cbn [run_g hlog hwf] in *.
  - unfold new_g in L. apply leaf_bind in L as (s & Ls & L). apply leaf_ret_inv in L. subst sg.
    unfold req_new in Ls. apply grow_leaf in Ls as [c0 ->]. unfold GI, grow_with; cbn [fst snd comps app length wsum Rs fold_right].
    unfold Rc; cbn [items new_comp]. rewrite !cnt_nil. split; [unfold g0; lia|reflexivity].
  - apply leaf_bind in L as ([s0 g0'] & L0 & L). pose proof (IH _ W L0) as G0.
    destruct (run_g_leaf p hr t _ W L0) as (R0 & _). cbn [fst] in R0.
    rewrite cnt_app, cnt_cons, cnt_nil, Z.add_0_r.
    eapply update_g_GI; eauto. exact (r_inv _ _ (reach_Rel true _ _ R0)).
  - destruct W as (Wa & Wb). apply leaf_bind in L as ([sa ga] & La & L). apply leaf_bind in L as ([sb gb] & Lb & L).
    destruct (run_g_leaf p hr a _ Wa La) as (Ra & _). destruct (run_g_leaf p hr b _ Wb Lb) as (Rb & _). cbn [fst] in Ra, Rb.
    rewrite cnt_app. eapply (merge_g_GI p true _ _ sa ga sb gb sg (hlog b)); eauto.
    + exact (r_inv _ _ (reach_Rel true _ _ Ra)).
    + exact (reach_Rel true _ _ Rb).
Qed.

(* (2) the coins of one level negated *)
Lemma run_g_xsim p hr h : forall t, xsim (XS h) (run_g p hr t) (run_g p hr t).
Proof.
  induction t as [k|t IH x|a IHa b IHb]; cbn [run_g].
  - apply new_g_xsim.
  - eapply xsim_bind_leaf; [exact IH|]. intros sa sb _ _ X. now apply update_g_xsim.
  - eapply xsim_bind_leaf; [exact IHa|]. intros sa sa' _ _ Xa.
    eapply xsim_bind_leaf; [exact IHb|]. intros sb sb' _ _ Xb. now apply merge_g_xsim.
Qed.

Lemma level_error_sums_to_zero p hr t h : msum (fun sg : req * G => snd sg h) (run_g p hr t) = 0.
Proof.
  pose proof (xsim_msum (XS h) (fun sg : req * G => snd sg h) (fun sg : req * G => - snd sg h) _ _ (run_g_xsim p hr h t)) as H.
  assert (E : msum (fun sg : req * G => - snd sg h) (run_g p hr t) = - msum (fun sg : req * G => snd sg h) (run_g p hr t)).
  { rewrite <- (msum_scale (-1)). apply msum_ext. intros; lia. }
  rewrite E in H. specialize (H (fun a b X => x_g h a b X)). lia.
Qed.

Fixpoint mmax {A} (f : A -> nat) (m : M A) : nat :=
  match m with Ret a => f a | Flip k => Nat.max (mmax f (k false)) (mmax f (k true)) end.
Lemma mmax_leaf {A} (f : A -> nat) m a : leaf m a -> (f a <= mmax f m)%nat.
Proof. induction 1 as [a|k c a L IH]; cbn [mmax]; [lia|]. destruct c; lia. Qed.

(* ---------- the theorem ---------- *)
Theorem unbiased p hr t : hwf t ->
  msum (fun s => Rs p (comps s)) (run true hr t) = msum (fun _ => 1) (run true hr t) * cnt p (hlog t).
Proof.
  intro W. set (T := cnt p (hlog t)).
  rewrite <- (teq_msum ER (fun sg : req * G => Rs p (comps (fst sg))) (fun s => Rs p (comps s)) _ _ (run_g_erase p hr t))
    by (intros a b E; unfold ER in E; now subst).
  rewrite <- (teq_msum ER (fun _ : req * G => 1) (fun _ => 1) _ _ (run_g_erase p hr t)) by reflexivity.
  set (N := mmax (fun sg : req * G => length (comps (fst sg))) (run_g p hr t)).
  rewrite (msum_ext _ (fun sg : req * G => T + wsum (snd sg) N)).
  - rewrite msum_add, msum_const.
    assert (Z0 : forall n, msum (fun sg : req * G => wsum (snd sg) n) (run_g p hr t) = 0).
    { induction n as [|n IH]; cbn [wsum]; [rewrite msum_const; lia|].
      rewrite msum_add, IH, msum_scale, level_error_sums_to_zero. lia. }
    rewrite Z0. lia.
  - intros sg L. destruct (run_g_GI p hr t sg W L) as (GE & GZ). rewrite GE. f_equal. symmetry. apply wsum_zero; auto.
    apply (mmax_leaf (fun sg : req * G => length (comps (fst sg)))). exact L.
Qed.

(* ---------- the number of outcomes: every outcome draws the same number m of coins, so there are 2^m ---------- *)
Lemma tsim_count {A B} (R : A -> B -> Prop) m1 m2 : tsim R m1 m2 ->
  msum (fun _ => 1) m1 = 2 ^ Z.of_nat (mdepth m1) /\ mdepth m1 = mdepth m2.
Proof.
  induction 1 as [a b H|k1 k2 H IH]; cbn [msum mdepth]; [split; reflexivity|].
  destruct (IH false false) as (A1 & A2). destruct (IH true false) as (B1 & B2).
  split; [|congruence]. rewrite A1, B1, B2, <- A2. rewrite Nat2Z.inj_succ, Z.pow_succ_r by lia. lia.
Qed.

Lemma run_tsim hr : forall t, hwf t -> tsim SS (run true hr t) (run true hr t).
Proof.
  induction t as [k|t IH x|a IHa b IHb]; intro W; cbn [run hwf] in *.
  - apply req_new_tsim.
  - apply tsim_bind_leaf with (R := SS); [auto|]. intros s1 s2 L1 L2 H.
    destruct (run_reach true hr t s1 W L1) as (R1 & _). destruct (run_reach true hr t s2 W L2) as (R2 & _).
    apply update_tsim; auto; [exact (r_inv _ _ (reach_Rel true _ _ R1))|exact (r_inv _ _ (reach_Rel true _ _ R2))].
  - destruct W as (Wa & Wb). apply tsim_bind_leaf with (R := SS); [auto|]. intros a1 a2 La1 La2 Ha.
    apply tsim_bind_leaf with (R := SS); [auto|]. intros b1 b2 Lb1 Lb2 Hb.
    destruct (run_reach true hr a a1 Wa La1) as (Ra1 & _). destruct (run_reach true hr a a2 Wa La2) as (Ra2 & _).
    destruct (run_reach true hr b b1 Wb Lb1) as (Rb1 & _). destruct (run_reach true hr b b2 Wb Lb2) as (Rb2 & _).
    apply merge_tsim; auto; eapply r_inv; eapply reach_Rel; eauto.
Qed.

(* every outcome consumes exactly mdepth coins: replaying any coin list reaches a leaf after mdepth coins *)
Lemma tsim_replay {A} (R : A -> A -> Prop) (m : M A) : tsim R m m ->
  forall cs a r, replay m cs = Some (a, r) -> (length cs = mdepth m + length r)%nat.
Proof.
  intros T cs a r H.
  assert (G : forall (m1 m2 : M A), tsim R m1 m2 -> forall cs a r, replay m1 cs = Some (a, r) -> (length cs = mdepth m1 + length r)%nat).
  { clear. induction 1 as [a0 b0 H0|k1 k2 Hk IH]; intros cs a r H; cbn [replay mdepth] in *.
    - inversion H; subst. reflexivity.
    - destruct cs as [|c cs]; [discriminate|]. cbn [length].
      pose proof (IH _ false _ _ _ H) as E.
      destruct (tsim_count R _ _ (Hk (negb (c =? 0)) false)) as (_ & D1). destruct (tsim_count R _ _ (Hk false false)) as (_ & D2).
      rewrite D1, <- D2 in E. lia. }
  eapply G; eauto.
Qed.

(* the rank estimator: for every merge tree of updates, both modes, every query point and both criteria, the sum over
   all outcomes of the coins of get_rank * n equals 2^m * the true rank, m = the number of coins every outcome draws *)
Theorem rank_unbiased hr t x incl : hwf t ->
  let T := run true hr t in
  msum (fun s => qrank s x incl) T = 2 ^ Z.of_nat (mdepth T) * cnt (below x incl) (hlog t) /\
  (forall cs s r, replay T cs = Some (s, r) -> (length cs = mdepth T + length r)%nat).
Proof.
  intros W T. split.
  - rewrite (msum_ext _ (fun s => Rs (below x incl) (comps s))).
    + unfold T. rewrite (unbiased (below x incl) hr t W). destruct (tsim_count SS _ _ (run_tsim hr t W)) as (C & _). now rewrite C.
    + intros s L. destruct (run_reach true hr t s W L) as (R & _). apply (P_rank_is_estimator s (hlog t)). now apply (reach_Rel true).
  - apply (tsim_replay SS). now apply run_tsim.
Qed.
