(* VarOptMarks.v — the gadget's marks (exact-arithmetic instance): num_marks_in_h_ counts the marked H slots through every
   operation, H slots are only moved (never altered), hence the H samples of a union result are unmarked slots that came
   from H samples of the input sketches: input (item, weight) pairs with their exact weights. *)
From Coq Require Import ZArith List Bool QArith Lia Lra Psatz Permutation.
From DS Require Import RunnerLib VarOptDefs VarOptProofs VarOptTheorems VarOptUnion.
Import ListNotations.

Section QM.
  Variable Item : Type.
  Variable ditem : Item.
  Variable cu : Z -> Q.

  Notation vo := (vo Item Q).
  Notation vu := (vu Item Q).
  Notation slot := (slot Item Q).
  Notation pairs_of := (pairs_of Item).
  Notation Inv := (Inv Item ditem).
  Notation UInv := (UInv Item ditem).
  Notation pop_min := (pop_min Item ditem Q 0 Qltb Qle_bool).
  Notation push := (push Item ditem Q 0 Qltb).
  Notation grow_loop := (grow_loop Item ditem Q 0 Qplus Qmult Qltb Qle_bool inject_Z).
  Notation downsample_candidate_set := (downsample_candidate_set Item ditem Q 0 1 (-(1)) Qplus Qmult Qltb Qeq_bool inject_Z cu).
  Notation grow_candidate_set := (grow_candidate_set Item ditem Q 0 1 (-(1)) Qplus Qmult Qltb Qle_bool Qeq_bool inject_Z cu).
  Notation transition_from_warmup := (transition_from_warmup Item ditem Q 0 1 (-(1)) Qplus Qmult Qltb Qle_bool Qeq_bool inject_Z cu).
  Notation update_body := (update_body Item ditem Q 0 1 (-(1)) Qplus Qmult Qdiv Qltb Qle_bool Qeq_bool inject_Z cu).

  Definition cntm (H : list slot) : nat := length (filter (@s_mark Item Q) H).
  (* the counter is right (only meaningful for a gadget) *)
  Definition mk_ok (s : vo) : Prop := vgad s = true -> vmarks s = cntm (vH s).

  Lemma cntm_perm l l' : Permutation l l' -> cntm l = cntm l'.
  Proof. intros P. unfold cntm. induction P; cbn; try destruct (s_mark x); try destruct (s_mark y); cbn; congruence. Qed.
  Lemma cntm_app l l' : cntm (l ++ l') = (cntm l + cntm l')%nat.
  Proof. unfold cntm. now rewrite filter_app, app_length. Qed.
  Lemma cntm_cons x l : cntm (x :: l) = ((if s_mark x then 1 else 0) + cntm l)%nat.
  Proof. unfold cntm. cbn. destruct (s_mark x); reflexivity. Qed.

  (* [step s s']: H slots of s' are H slots of s, the counter stays right, the gadget flag is kept *)
  Definition keeps (s s' : vo) : Prop :=
    incl (vH s') (vH s) /\ (mk_ok s -> mk_ok s') /\ vgad s' = vgad s.
  Lemma keeps_refl s : keeps s s.
  Proof. split; [apply incl_refl|split; [auto|reflexivity]]. Qed.
  Lemma keeps_trans a b c : keeps a b -> keeps b c -> keeps a c.
  Proof. intros (I1 & M1 & G1) (I2 & M2 & G2). split; [eapply incl_tran; eassumption|split; [auto|congruence]]. Qed.

  Ltac guards H :=
    repeat match type of H with
           | (if ?b then _ else _) = Some _ => destruct b eqn:?; try discriminate H
           | match ?x with Some _ => _ | None => _ end = Some _ => destruct x as [?|] eqn:?; try discriminate H
           end.

  Lemma pop_min_keeps (s s' : vo) : pop_min s = Some s' -> keeps s s' /\ vR s' = vR s.
  Proof.
    unfold VarOptDefs.pop_min. intros E.
    destruct ((hh s =? 0)%nat || negb (hh s + mm s + rr s =? vk s + 1)%nat)%bool; [discriminate|].
    destruct (vH s) as [|root t] eqn:EH; [discriminate|]. injection E as <-.
    set (H' := if (hh s =? 1)%nat then [] else _).
    assert (P : Permutation (root :: t) (root :: H')).
    { subst H'. unfold hh. rewrite EH. destruct (Nat.eqb_spec (length (root :: t)) 1) as [E1|E1].
      - destruct t; [reflexivity|cbn in E1; lia].
      - assert (L2 : (2 <= length (root :: t))%nat) by (cbn in *; lia).
        exact (Hpop_perm Item ditem (root :: t) L2). }
    assert (P' : Permutation t H') by (now apply Permutation_cons_inv in P).
    assert (K : forall sx : vo, vH sx = H' -> vgad sx = vgad s ->
                 vmarks sx = (if is_marked Item Q s root then Nat.pred (vmarks s) else vmarks s) -> keeps s sx).
    { intros sx EHx EGx EMx. split; [|split; [|exact EGx]].
      - rewrite EHx, EH. intros y Hy. right. eapply Permutation_in; [apply Permutation_sym, P'|exact Hy].
      - intros Hok Hg. rewrite EGx in Hg. specialize (Hok Hg). rewrite EMx, EHx, <- (cntm_perm _ _ P'). rewrite EH, cntm_cons in Hok.
        unfold is_marked. rewrite Hg. cbn [andb]. destruct (s_mark root); lia. }
    split.
    - destruct (is_marked Item Q s root) eqn:Em; apply K; try reflexivity; rewrite Em; reflexivity.
    - destruct (is_marked Item Q s root); reflexivity.
  Qed.

  Lemma grow_loop_keeps fuel : forall (s : vo) wc nc s' wc' nc',
    grow_loop fuel s wc nc = Some (s', wc', nc') -> keeps s s' /\ vR s' = vR s.
  Proof.
    induction fuel as [|f IH]; intros s wc nc s' wc' nc' E; cbn [VarOptDefs.grow_loop] in E.
    - injection E as <- <- <-. split; [apply keeps_refl|reflexivity].
    - destruct (vH s) as [|root t] eqn:EH; [injection E as <- <- <-; split; [apply keeps_refl|reflexivity]|].
      destruct (Qltb _ _); [|injection E as <- <- <-; split; [apply keeps_refl|reflexivity]].
      destruct (pop_min s) as [s1|] eqn:E1; [|discriminate].
      destruct (pop_min_keeps s s1 E1) as [K1 R1]. destruct (IH _ _ _ _ _ _ E) as [K2 R2].
      split; [eapply keeps_trans; eassumption|congruence].
  Qed.

  Lemma downsample_keeps (s : vo) wc nc c s' c' : downsample_candidate_set s wc nc c = Some (s', c') -> keeps s s'.
  Proof.
    unfold VarOptDefs.downsample_candidate_set. intros E.
    destruct ((nc <? 2)%nat || negb (hh s + nc =? vk s + 1)%nat)%bool; [discriminate|].
    destruct (VarOptDefs.choose_delete_slot _ _ _ _ _ _ _ _ _ _ _ _ _ _ _ _) as [[d c1]|]; [|discriminate].
    destruct (vk s - hh s <? d)%nat; [discriminate|].
    destruct (map s_item (vM s) ++ vR s); [discriminate|]. injection E as <- <-.
    split; [apply incl_refl|split; [intros Hok Hg; exact (Hok Hg)|reflexivity]].
  Qed.

  Lemma grow_candidate_keeps (s : vo) wc nc c s' c' : grow_candidate_set s wc nc c = Some (s', c') -> keeps s s'.
  Proof.
    unfold VarOptDefs.grow_candidate_set. intros E.
    destruct (negb _ || _ || _ || _)%bool; [discriminate|].
    destruct (grow_loop (hh s) s wc nc) as [[[s1 wc1] nc1]|] eqn:E1; [|discriminate].
    destruct (grow_loop_keeps _ _ _ _ _ _ _ E1) as [K1 _].
    eapply keeps_trans; [exact K1|eapply downsample_keeps; exact E].
  Qed.

  (* a sketch whose H region is that of s plus one new slot *)
  Definition adds (s s' : vo) (y : slot) : Prop :=
    incl (vH s') (y :: vH s) /\ (mk_ok s -> mk_ok s') /\ vgad s' = vgad s.

  Lemma keeps_adds s s1 s' y : adds s s1 y -> keeps s1 s' -> adds s s' y.
  Proof. intros (I1 & M1 & G1) (I2 & M2 & G2). split; [eapply incl_tran; eassumption|split; [auto|congruence]]. Qed.

  Lemma push_adds (s : vo) x w mk : adds s (push s x w mk) (mkslot x w mk).
  Proof.
    destruct (push_spec Item ditem s x w mk) as (P & _ & _ & _ & _ & _ & _ & _ & _ & Eg).
    assert (Em : vmarks (push s x w mk) = (if (vgad s && mk)%bool then S (vmarks s) else vmarks s)).
    { unfold VarOptDefs.push. destruct (vgad s && mk)%bool; reflexivity. }
    split; [|split; [|exact Eg]].
    - intros y Hy. eapply Permutation_in in Hy; [|apply Permutation_sym, P]. apply in_app_or in Hy.
      destruct Hy as [Hy|[<-|[]]]; [now right|now left].
    - intros Hok Hg. rewrite Eg in Hg. specialize (Hok Hg). rewrite Em, <- (cntm_perm _ _ P), cntm_app, Hg.
      unfold cntm at 2. cbn. destruct mk; cbn; lia.
  Qed.

  Lemma transition_keeps (s : vo) c s' c' : transition_from_warmup s c = Some (s', c') -> keeps s s'.
  Proof.
    unfold VarOptDefs.transition_from_warmup. intros E.
    set (s0 := set_H Item Q s _) in E.
    assert (K0 : keeps s s0).
    { pose proof (Hconv_perm Item ditem (vH s)) as P. split; [|split; [|reflexivity]].
      - intros y Hy. eapply Permutation_in; [apply Permutation_sym, P|exact Hy].
      - intros Hok Hg. change (vgad s0) with (vgad s) in Hg. specialize (Hok Hg).
        change (vmarks s0) with (vmarks s). change (vH s0) with (VarOptDefs.convert_to_heap Item ditem Q 0 Qltb Qle_bool (vH s)).
        now rewrite <- (cntm_perm _ _ P). }
    destruct (pop_min s0) as [s1|] eqn:E1; [|discriminate].
    destruct (pop_min s1) as [s2|] eqn:E2; [|discriminate].
    destruct (pop_min_keeps _ _ E1) as [K1 _]. destruct (pop_min_keeps _ _ E2) as [K2 _].
    destruct (vM s2) as [|a [|b [|? ?]]]; try discriminate. destruct (vR s2); [|discriminate].
    destruct (negb _ || negb _)%bool; [discriminate|].
    apply grow_candidate_keeps in E.
    eapply keeps_trans; [exact K0|]. eapply keeps_trans; [exact K1|]. eapply keeps_trans; [exact K2|].
    eapply keeps_trans; [|exact E]. split; [apply incl_refl|split; [intros Hok Hg; exact (Hok Hg)|reflexivity]].
  Qed.

  Lemma update_body_adds (s : vo) x w mk c s' c' : vM s = [] ->
    update_body s x w mk c = Some (s', c') -> adds s s' (mkslot x w mk).
  Proof.
    intros HM E. unfold VarOptDefs.update_body in E.
    set (s1 := set_n Item Q s (vn s + 1)) in E.
    assert (A1 : forall sx y, adds s1 sx y -> adds s sx y) by (intros sx y A; exact A).
    apply A1. clear A1.
    destruct (rr s1 =? 0)%nat.
    - (* warm-up *)
      unfold VarOptDefs.update_warmup_phase in E.
      destruct ((0 <? rr s1)%nat || negb (mm s1 =? 0)%nat || (vk s1 <? hh s1)%nat)%bool; [discriminate|].
      set (s2 := set_marks Item Q (set_H Item Q s1 (vH s1 ++ [mkslot x w mk])) _) in E.
      assert (A2 : adds s1 s2 (mkslot x w mk)).
      { split; [|split; [|reflexivity]].
        - intros y Hy. change (vH s2) with (vH s1 ++ [mkslot x w mk]) in Hy. apply in_app_or in Hy.
          destruct Hy as [Hy|[<-|[]]]; [now right|now left].
        - intros Hok Hg. change (vgad s2) with (vgad s1) in Hg. specialize (Hok Hg).
          change (vmarks s2) with (vmarks s1 + (if mk then 1 else 0))%nat. change (vH s2) with (vH s1 ++ [mkslot x w mk]).
          rewrite cntm_app, Hok. unfold cntm at 2. cbn. destruct mk; reflexivity. }
      destruct (vk s2 <? hh s2)%nat.
      + apply transition_keeps in E. eapply keeps_adds; eassumption.
      + injection E as <- <-. exact A2.
    - destruct (negb (hh s1 =? 0)%nat && Qltb _ _)%bool; [discriminate|].
      destruct (((hh s1 =? 0)%nat || Qle_bool w _) && Qltb w _)%bool.
      + (* light *)
        unfold VarOptDefs.update_light in E.
        destruct ((rr s1 =? 0)%nat || negb (rr s1 + hh s1 =? vk s1)%nat)%bool; [discriminate|].
        apply grow_candidate_keeps in E. destruct E as (I & M & G).
        split; [intros y Hy; right; now apply I|split; [exact M|exact G]].
      + destruct (rr s1 =? 1)%nat.
        * unfold VarOptDefs.update_heavy_r_eq1 in E.
          destruct (negb _ || negb _ || negb _)%bool; [discriminate|].
          destruct (pop_min (push s1 x w mk)) as [s2|] eqn:E2; [|discriminate].
          destruct (vM s2); [discriminate|].
          apply grow_candidate_keeps in E. destruct (pop_min_keeps _ _ E2) as [K2 _].
          eapply keeps_adds; [apply push_adds|]. eapply keeps_trans; eassumption.
        * unfold VarOptDefs.update_heavy_general in E.
          destruct ((rr s1 <? 2)%nat || negb _ || negb _)%bool; [discriminate|].
          apply grow_candidate_keeps in E. eapply keeps_adds; [apply push_adds|exact E].
  Qed.

  (* ---------------- decrease_k_by_1, the migrate loop ---------------- *)
  Notation G := (G Item ditem).
  Notation Qdecrease_k := (Qdecrease_k Item ditem cu).
  Notation Qdec_loop := (Qdec_loop Item ditem cu).
  Notation Qmigrate := (Qmigrate Item ditem cu).

  Lemma slot_eta (p : slot) : mkslot (s_item p) (s_wt p) (s_mark p) = p.
  Proof. destruct p; reflexivity. Qed.

  Lemma cntm_removelast (H : list slot) d : H <> [] ->
    cntm H = (cntm (removelast H) + (if s_mark (last H d) then 1 else 0))%nat.
  Proof.
    intros Hne. rewrite (app_removelast_last d Hne) at 1. rewrite cntm_app. unfold cntm at 2. cbn.
    destruct (s_mark (last H d)); reflexivity.
  Qed.

  Lemma dec_keeps (s : vo) c s' c' : vM s = [] -> Qdecrease_k s c = Some (s', c') -> keeps s s'.
  Proof.
    intros HM E. unfold VarOptUnion.Qdecrease_k, decrease_k_by_1 in E.
    destruct (vk s <=? 1)%nat; [discriminate|].
    destruct ((hh s =? 0)%nat && (rr s =? 0)%nat)%bool.
    { injection E as <- <-. split; [apply incl_refl|split; [intros Hok Hg; exact (Hok Hg)|reflexivity]]. }
    destruct ((0 <? hh s)%nat && (rr s =? 0)%nat)%bool.
    { set (s1 := set_k Item Q s (vk s - 1)) in E.
      assert (K1 : keeps s s1) by (split; [apply incl_refl|split; [intros Hok Hg; exact (Hok Hg)|reflexivity]]).
      destruct (vk s1 <? hh s1)%nat.
      - apply transition_keeps in E. eapply keeps_trans; eassumption.
      - injection E as <- <-. exact K1. }
    destruct ((0 <? hh s)%nat && (0 <? rr s)%nat)%bool eqn:B3.
    { destruct (negb _); [discriminate|].
      apply andb_true_iff in B3. destruct B3 as [Bh _]. apply Nat.ltb_lt in Bh.
      assert (HneH : vH s <> []) by (unfold hh in Bh; destruct (vH s); [cbn in Bh; lia|congruence]).
      set (pulled := last (vH s) (dslot Item ditem Q 0)) in *.
      set (s1 := mkvo Item Q (vk s - 1) (vn s - 1) (removelast (vH s)) (vM s) (vmb s) _ (vtot s) (vgad s) _) in E.
      assert (Hpin : In pulled (vH s)).
      { subst pulled. rewrite (app_removelast_last (dslot Item ditem Q 0) HneH) at 2. apply in_or_app. right. now left. }
      assert (K1 : keeps s s1).
      { split; [intros y Hy; now apply in_removelast|split; [|reflexivity]].
        intros Hok Hg. change (vgad s1) with (vgad s) in Hg. specialize (Hok Hg).
        change (vH s1) with (removelast (vH s)).
        change (vmarks s1) with (if s_mark pulled then Nat.pred (vmarks s) else vmarks s).
        rewrite (cntm_removelast (vH s) (dslot Item ditem Q 0) HneH) in Hok. fold pulled in Hok.
        destruct (s_mark pulled); lia. }
      unfold update_inner in E. destruct (Qbad (s_wt pulled)); [discriminate|].
      destruct (Qeq_bool (s_wt pulled) 0).
      - injection E as <- <-. exact K1.
      - apply update_body_adds in E; [|exact HM]. rewrite slot_eta in E. destruct E as (I & M & Gd).
        destruct K1 as (I1 & M1 & G1). split; [|split; [auto|congruence]].
        intros y Hy. apply I in Hy. destruct Hy as [<-|Hy]; [exact Hpin|now apply I1]. }
    destruct (rr s <? 2)%nat; [discriminate|].
    destruct (draw_index (rr s) c) as [j cj]. injection E as <- <-.
    split; [apply incl_refl|split; [intros Hok Hg; exact (Hok Hg)|reflexivity]].
  Qed.

  Lemma dec_loop_keeps : forall fuel (s : vo) c s' c', G s -> Qdec_loop fuel s c = Some (s', c') ->
    keeps s s' /\ vmarks s' = 0%nat.
  Proof.
    induction fuel as [|f IH]; intros s c s' c' HG E; unfold VarOptUnion.Qdec_loop in E; cbn [dec_loop] in E.
    - destruct (Nat.eqb_spec (vmarks s) 0); [|discriminate]. injection E as <- <-. split; [apply keeps_refl|assumption].
    - destruct (Nat.eqb_spec (vmarks s) 0); [injection E as <- <-; split; [apply keeps_refl|assumption]|].
      fold (VarOptUnion.Qdecrease_k Item ditem cu) in E. destruct (Qdecrease_k s c) as [[s1 c1]|] eqn:E1; [|discriminate].
      destruct (dec_spec Item ditem cu s c s1 c1 HG E1) as (HG1 & _).
      pose proof (dec_keeps s c s1 c1 ltac:(apply HG) E1) as K1.
      destruct (IH s1 c1 s' c' HG1 E) as [K2 Z]. split; [eapply keeps_trans; eassumption|exact Z].
  Qed.

  Lemma cntm_zero (H : list slot) : cntm H = 0%nat -> forall y, In y H -> s_mark y = false.
  Proof.
    unfold cntm. intros E y Hy. destruct (s_mark y) eqn:Em; [|reflexivity].
    assert (Hf : In y (filter (@s_mark Item Q) H)) by (apply filter_In; split; assumption).
    destruct (filter (@s_mark Item Q) H); [destruct Hf|cbn in E; lia].
  Qed.

  Lemma migrate_keeps (g0 : vo) c res c' : G g0 -> Qmigrate g0 c = Some (res, c') ->
    incl (vH res) (vH g0) /\ (mk_ok g0 -> vgad g0 = true -> forall y, In y (vH res) -> s_mark y = false).
  Proof.
    intros HG E. pose proof HG as (HM0 & _).
    unfold VarOptUnion.Qmigrate, migrate in E.
    destruct (vmarks g0 =? 0)%nat; [discriminate|].
    destruct (negb (rr g0 =? 0)%nat && negb (hh g0 + rr g0 =? vk g0)%nat)%bool eqn:B; [discriminate|].
    set (g1 := if ((rr g0 =? 0)%nat && (hh g0 <? vk g0)%nat)%bool then set_k Item Q g0 (hh g0) else g0) in *.
    assert (K1 : keeps g0 g1 /\ vM g1 = []).
    { subst g1. destruct ((rr g0 =? 0)%nat && (hh g0 <? vk g0)%nat)%bool; (split; [|exact HM0]);
        (split; [apply incl_refl|split; [intros Hok Hg; exact (Hok Hg)|reflexivity]]). }
    destruct K1 as [K1 HM1].
    fold (VarOptUnion.Qdecrease_k Item ditem cu) in E. destruct (Qdecrease_k g1 c) as [[g2 c2]|] eqn:E2; [|discriminate].
    (* G g1, as in migrate_spec *)
    assert (HG1 : G g1).
    { subst g1. destruct (Nat.eqb_spec (rr g0) 0) as [Er|Er]; cbn [andb]; [|exact HG].
      destruct (Nat.ltb_spec (hh g0) (vk g0)) as [Hlt|Hge]; [|exact HG].
      destruct HG as (HM & Hmb & Hpos & Hmode). unfold set_k.
      split; [exact HM|]. split; [exact Hmb|]. split; [exact Hpos|]. left.
      destruct Hmode as [(HR0 & Ht & Hh & Hn)|(Hr & _)]; [|lia].
      unfold hh. cbn [vR vtot vH vk vn]. unfold hh in Hn. repeat split; try assumption; lia. }
    destruct (dec_spec Item ditem cu g1 c g2 c2 HG1 E2) as (HG2 & _).
    pose proof (dec_keeps g1 c g2 c2 HM1 E2) as K2.
    destruct ((0 <? rr g2)%nat && Qeq_bool _ 0)%bool; [discriminate|].
    fold (VarOptUnion.Qdec_loop Item ditem cu) in E. destruct (Qdec_loop (vk g2) g2 c2) as [[g3 c3]|] eqn:E3; [|discriminate].
    injection E as <- <-.
    destruct (dec_loop_keeps (vk g2) g2 c2 g3 c3 HG2 E3) as [K3 Z3].
    pose proof (keeps_trans _ _ _ K1 (keeps_trans _ _ _ K2 K3)) as (I & M & Gd).
    unfold strip_marks. cbn [vH]. split; [exact I|].
    intros Hok Hg. apply cntm_zero. rewrite <- Z3. symmetry. apply (M Hok). congruence.
  Qed.

  (* ---------------- the union: unmarked gadget H slots are input pairs ---------------- *)
  Notation Qupd_all := (Qupd_all Item ditem cu).
  Notation Qunion_update := (Qunion_update Item ditem cu).
  Notation Qresult_gen := (Qresult_gen Item ditem cu).

  Definition UM (u : vu) (inputs : list (Item * Q)) : Prop :=
    mk_ok (ugad u) /\ forall y, In y (vH (ugad u)) -> s_mark y = false -> In (s_item y, s_wt y) inputs.

  Lemma upd_all_keeps : forall l (g : vo) c gk W, GInv Item ditem g gk W -> spos Item l ->
    (mk_ok g -> mk_ok (fst (fst (Qupd_all g l c)))) /\
    forall y, In y (vH (fst (fst (Qupd_all g l c)))) ->
      In y (vH g) \/ exists x w mk, In (x, w, mk) l /\ y = mkslot x w mk.
  Proof.
    induction l as [|[[x w] mk] t IH]; intros g c gk W HG Hpos.
    - cbn. split; [auto|]. intros y Hy. now left.
    - apply Forall_cons_iff in Hpos. destruct Hpos as [Hw Ht]. cbn [fst snd] in Hw.
      destruct HG as (HR & Ek & Hsum).
      destruct (provR_trivial Item ditem g HR) as (inp & HP & _).
      destruct (update_body_spec Item ditem cu g x w mk c inp HR HP Hw) as (s1 & c1 & E & HR1 & _ & Hs1 & _ & Ek1 & _).
      assert (EU : update Item ditem Q 0 1 (-(1)) Qplus Qmult Qdiv Qltb Qle_bool Qeq_bool inject_Z Qbad cu g x w mk c = UOk Item Q s1 c1).
      { unfold update, Qbad. rewrite (Qltb_ge w 0) by lra.
        destruct (Qeq_bool w 0) eqn:E0; [apply Qeq_bool_iff in E0; lra|]. now rewrite E. }
      unfold VarOptUnion.Qupd_all in *. cbn [upd_all]. rewrite EU.
      pose proof (update_body_adds g x w mk c s1 c1 ltac:(apply HR) E) as (I1 & M1 & _).
      destruct (IH s1 c1 gk (W + w) ltac:(split; [exact HR1|split; [congruence|rewrite Hs1, Hsum; lra]]) Ht) as [M2 I2].
      split; [auto|]. intros y Hy. apply I2 in Hy. destruct Hy as [Hy|(x' & w' & mk' & Hin & ->)].
      + apply I1 in Hy. destruct Hy as [<-|Hy]; [right; exists x, w, mk; split; [now left|reflexivity]|now left].
      + right. exists x', w', mk'. split; [now right|reflexivity].
  Qed.

  Lemma r_samples_marked : forall (R : list Item) tau tot cum x w mk,
    In (x, w, mk) (r_samples Item Q Qplus Qminus R tau tot cum) -> mk = true.
  Proof.
    induction R as [|a t IH]; intros tau tot cum x w mk Hin; [destruct Hin|].
    destruct t as [|b t'].
    - cbn in Hin. destruct Hin as [E|[]]. now inversion E.
    - change (r_samples Item Q Qplus Qminus (a :: b :: t') tau tot cum)
        with ((a, tau, true) :: r_samples Item Q Qplus Qminus (b :: t') tau tot (cum + tau)) in Hin.
      destruct Hin as [E|Hin]; [now inversion E|]. eapply IH; exact Hin.
  Qed.

  Lemma union_update_UM (u : vu) n W (S : vo) k A c inputs :
    UInv u n W -> Inv k S A -> UM u inputs -> UM (fst (fst (Qunion_update u S c))) (inputs ++ A).
  Proof.
    intros HU HI (Hok & Hun).
    destruct (union_samples_spec Item ditem S k A HI) as (Hpos & _).
    destruct (inv_samples_from_input Item ditem k S A HI) as [HHA _].
    destruct HU as (HG & _).
    unfold VarOptUnion.Qunion_update, union_update, merge_items.
    destruct (vn S =? 0)%Z.
    - cbn [fst]. fold (Qresolve_tau Item u S). destruct (resolve_tau_fields Item u S) as (Eg & _). unfold UM. rewrite Eg.
      split; [exact Hok|]. intros y Hy Hm. apply in_or_app. left. now apply Hun.
    - destruct (upd_all_keeps (Qunion_samples Item S) (ugad u) c (umaxk u) W HG Hpos) as [M I].
      unfold VarOptUnion.Qupd_all, Qunion_samples in *.
      destruct (upd_all Item ditem Q 0 1 (- (1)) Qplus Qmult Qdiv Qltb Qle_bool Qeq_bool inject_Z Qbad cu (ugad u)
                  (union_samples Item Q 0 Qplus Qminus Qdiv inject_Z S) c) as [[g' c'] okb] eqn:E.
      cbn [fst] in M, I.
      assert (Hres : forall u1 : vu, ugad u1 = g' -> UM u1 (inputs ++ A)).
      { intros u1 E1. rewrite <- E1 in *. split; [now apply M|].
        intros y Hy Hm. apply in_or_app. apply I in Hy. destruct Hy as [Hy|(x & w & mk & Hin & ->)]; [left; now apply Hun|].
        right. cbn [s_mark s_item s_wt] in *. subst mk. unfold union_samples in Hin. apply in_app_or in Hin.
        destruct Hin as [Hin|Hin].
        - apply in_map_iff in Hin. destruct Hin as (z & Ez & Hz). inversion Ez; subst. apply HHA.
          unfold VarOptProofs.pairs_of. apply in_map_iff. exists z. split; [reflexivity|exact Hz].
        - apply r_samples_marked in Hin. discriminate. }
      destruct okb; cbn [fst].
      + match goal with |- UM (resolve_tau _ _ _ _ _ _ _ _ ?uu S) _ => set (u1 := uu) end.
        fold (Qresolve_tau Item u1 S). destruct (resolve_tau_fields Item u1 S) as (Eg & _).
        apply Hres. rewrite Eg. reflexivity.
      + apply Hres. reflexivity.
  Qed.

  Lemma urun_UM : forall ops (u : vu) n W c acc, UInv u n W -> valid_uops Item ditem ops -> UM u acc ->
    UM (fst (fst (urun Item ditem cu u ops c))) (uinputs Item acc ops).
  Proof.
    induction ops as [|o t IH]; intros u n W c acc HU Hv HM; [exact HM|].
    apply Forall_cons_iff in Hv. destruct Hv as [Ho Hv]. cbn [urun uinputs]. destruct o as [sk A| |]; cbn [ustep].
    - destruct Ho as (k & HI).
      pose proof (union_update_UM u n W sk k A c acc HU HI HM) as HM1.
      destruct (union_update_spec Item ditem cu u n W sk k A c HU HI) as (u1 & c1 & E1 & HU1 & _).
      rewrite E1 in *. cbn [fst] in HM1. apply (IH u1 _ _ c1 (acc ++ A) HU1 Hv HM1).
    - destruct (union_serde_spec Item ditem u n W HU) as (u1 & E1 & HU1 & _). rewrite E1.
      apply (IH u1 _ _ c acc HU1 Hv).
      (* the round trip keeps H and recomputes the counter *)
      unfold Quserde, union_serde in E1. destruct HM as (Hok & Hun).
      destruct (un u =? 0)%Z.
      + injection E1 as <-. split; [intros _; reflexivity|intros y []].
      + destruct (serde_roundtrip Item Q 0 Qltb (ugad u)) as [g'|] eqn:Eg; [|discriminate]. injection E1 as <-.
        cbn [ugad]. unfold serde_roundtrip, serde_roundtrip_gen in Eg.
        destruct ((hh (ugad u) =? 0)%nat && (rr (ugad u) =? 0)%nat)%bool.
        * injection Eg as <-. split; [intros _; reflexivity|intros y []].
        * destruct (vn (ugad u) <=? Z.of_nat (vk (ugad u)))%Z.
          -- destruct ((0 <? rr (ugad u))%nat || _)%bool; [discriminate|]. injection Eg as <-.
             unfold UM, mk_ok. cbn [ugad vgad vmarks vH]. split; [intros Hg; rewrite Hg; reflexivity|exact Hun].
          -- destruct ((rr (ugad u) =? 0)%nat || _ || _)%bool; [discriminate|]. injection Eg as <-.
             unfold UM, mk_ok. cbn [ugad vgad vmarks vH]. split; [intros Hg; rewrite Hg; reflexivity|exact Hun].
    - assert (HU1 : UInv (union_reset Item Q 0 u) 0 0).
      { destruct HU as ((HR & Ek & _) & Hgad & _). destruct HR as (_ & _ & _ & Hk1 & _).
        unfold union_reset, reset. rewrite Hgad, Ek. apply uempty_UInv. now rewrite <- Ek. }
      apply (IH _ _ _ c [] HU1 Hv). split; [intros _; reflexivity|intros y []].
  Qed.

  (* every H sample of whatever get_result returns is an input (item, weight) pair with its exact weight *)
  Lemma get_result_H a4 (u : vu) n W c res c' inputs :
    UInv u n W -> UM u inputs -> Qresult_gen a4 u c = Some (res, c') ->
    forall p, In p (pairs_of (vH res)) -> In p inputs.
  Proof.
    intros HU (Hok & Hun) E p Hp. pose proof HU as ((HR & Ek & Hsum) & Hgad & En & Hgn).
    unfold VarOptUnion.Qresult_gen, get_result_gen, get_result_gen2 in E. set (g := ugad u) in *.
    pose proof HR as (HM & Hmb & Hpos & Hk1 & Hmode).
    assert (Hpairs : forall H' : list slot, incl H' (vH g) -> (forall y, In y H' -> s_mark y = false) ->
                                           In p (pairs_of H') -> In p inputs).
    { intros H' I U Hin. apply in_map_iff in Hin. destruct Hin as (y & <- & Hy). apply Hun; [now apply I|now apply U]. }
    destruct (Nat.eqb_spec (vmarks g) 0) as [Ez|Ez].
    - injection E as <- <-. unfold copy_as in Hp. cbn [vH] in Hp.
      apply (Hpairs (vH g) (incl_refl _)); [|exact Hp]. apply cntm_zero. rewrite <- (Hok Hgad). exact Ez.
    - destruct (_ && _ && _ && _)%bool.
      + unfold mark_moving_gen in E. fold g in E.
        destruct (Qltb Qeps10 _ || Qltb _ (- (1) * Qeps10))%bool; [discriminate|]. injection E as <- <-.
        cbn [vH] in Hp. unfold VarOptProofs.pairs_of in Hp.
        apply in_map_iff in Hp. destruct Hp as (z & <- & Hz).
        apply (Permutation_in z (Permutation_sym (Hconv_perm Item ditem _))) in Hz.
        apply in_map_iff in Hz. destruct Hz as (y & <- & Hy). cbn [s_item s_wt].
        apply filter_In in Hy. destruct Hy as [Hy Hm].
        apply Hun; [exact Hy|]. now apply negb_true_iff in Hm.
      + fold (VarOptUnion.Qmigrate Item ditem cu) in E.
        assert (HGc : G (copy_as Item Q g false (un u))).
        { unfold copy_as. split; [exact HM|]. split; [exact Hmb|]. split; [exact Hpos|].
          destruct Hmode as [(HR0 & Hh & Hn & Ht)|(Hr & Hhr & Htot & Hhp & HH & Hn)].
          - left. unfold hh in *. cbn [vR vtot vH vk vn]. repeat split; try assumption. lia.
          - right. unfold VarOptProofs.Est, hh, rr in *. cbn [vR vtot vH vk vn]. repeat split; try assumption. lia. }
        destruct (migrate_keeps _ c res c' HGc E) as [I U].
        apply (Hpairs (vH res)); [exact I| |exact Hp].
        apply U; [intros Hg; exact (Hok Hgad)|exact Hgad].
  Qed.

  (* every union history: the H samples of the result are accepted input pairs of the sketches given since the last reset *)
  Lemma union_history_H max_k ops c c2 a4 res c3 : (1 <= max_k)%nat -> valid_uops Item ditem ops ->
    Qresult_gen a4 (fst (fst (urun Item ditem cu (Quempty Item max_k) ops c))) c2 = Some (res, c3) ->
    forall p, In p (pairs_of (vH res)) -> In p (uinputs Item [] ops).
  Proof.
    intros Hk Hv Er.
    destruct (urun_spec Item ditem cu ops (Quempty Item max_k) 0 0 c (uempty_UInv Item ditem max_k Hk) Hv) as (u & c1 & E & HU & _).
    pose proof (urun_UM ops (Quempty Item max_k) 0 0 c [] (uempty_UInv Item ditem max_k Hk) Hv
                  ltac:(split; [intros _; reflexivity|intros y []])) as HM.
    rewrite E in Er, HM. cbn [fst] in Er, HM.
    exact (get_result_H a4 u _ _ c2 res c3 _ HU HM Er).
  Qed.
End QM.
