(* Properties_C07_kll.v — C07 for the KLL sketch: weight conservation, exact extremes, coherent answers.
   "reach s log": s is ANY state produced by a sequence of updates and merges of reachable sketches (any k in
   [8, 65535], any merge tree or DAG, queries interleaved) under ANY outcome of the internal coin flips, and log is
   the list of all items it has been given.  Statements only; proofs in KllProofs.v, KllSpace.v, KllView.v, SortedView.v. *)
From Coq Require Import ZArith List Bool Lia Permutation Sorted QArith.
From DS Require Import RunnerLib SortedView KllDefs KllProofs KllSpace KllView Regression_C07_kll.
Import ListNotations.
Local Open Scope Z_scope.

(* sum over levels h of 2^h * |level h| = n *)
Theorem C07_kll_weight_conserved : forall s log, reach s log -> wsum 1 (levels s) = nn s.
Proof. intros s log R. exact (i_w s (r_inv s log (reach_Rel s log R))). Qed.

(* n = number of accepted items *)
Theorem C07_kll_n_counts_accepted : forall s log, reach s log -> nn s = len log.
Proof. intros s log R. exact (r_n s log (reach_Rel s log R)). Qed.

(* min_item_ / max_item_ are exactly the stream's extremes *)
Theorem C07_kll_min_max_exact : forall s log, reach s log -> log <> [] -> is_min (mn s) log /\ is_max (mx s) log.
Proof. intros s log R H. destruct (reach_Rel s log R) as [_ _ A B _]. split; auto. Qed.

(* every level above 0 is sorted, level 0 when flagged *)
Theorem C07_kll_levels_sorted : forall s log, reach s log ->
  (forall h, (1 <= h)%nat -> ssorted (nth h (levels s) [])) /\ (l0s s = true -> ssorted (nth 0 (levels s) [])).
Proof. exact P_levels_sorted. Qed.

(* the retained items are a sub-multiset of the inputs: under every predicate (in particular "= y") no more
   retained items satisfy it than input items *)
Theorem C07_kll_retained_sub_inputs : forall s log, reach s log ->
  forall p, cnt p (concat (levels s)) <= cnt p log.
Proof. intros s log R. exact (r_sub s log (reach_Rel s log R)). Qed.

(* space bound: items_size_ = compute_total_capacity(k, m, num_levels) and the retained items fit into it *)
Theorem C07_kll_space_bound : forall s log, reach s log ->
  cap s = total_capacity (kk s) (length (levels s)) /\ num_retained s <= total_capacity (kk s) (length (levels s)).
Proof. exact P_space. Qed.

(* a full sketch always finds a level to compact ("capacity calculation error" is unreachable) *)
Theorem C07_kll_full_sketch_compacts : forall s log, reach s log -> free s = 0 ->
  exists h, find_level (kk s) (length (levels s)) 0 (levels s) = Some h.
Proof. intros s log R. exact (find_level_full s (r_inv s log (reach_Rel s log R))). Qed.

(* the iterator of the code (kll_sketch::const_iterator with the repaired constructor, fixes/07_kll_iterator.patch):
   exactly the retained items, num_retained entries, weight 2^level, weights summing to n.
   The constructor as coded before the repair is refuted in Regression_C07_kll.C07_kll_iterator_as_coded_refuted. *)
Theorem C07_kll_iterator_spec : forall s log, reach s log ->
  iterate s = iter_spec 1 (levels s) /\
  len (iterate s) = num_retained s /\ sum_weights (iterate s) = nn s /\
  (forall x w, In (x, w) (iterate s) <-> exists h, In x (nth h (levels s) []) /\ w = 2 ^ Z.of_nat h).
Proof. exact P_iterator. Qed.

(* sorted view: ordered, total cumulative weight n, a rearrangement of the retained items *)
Theorem C07_kll_sorted_view_spec : forall s log, reach s log -> forall d,
  zsorted_t (map fst (v_entries (qview s))) /\ v_total (qview s) = nn s /\
  (0 < nn s -> snd (last (v_entries (qview s)) d) = nn s) /\
  Permutation (map fst (v_entries (qview s))) (concat (levels s)).
Proof. exact P_view_spec. Qed.

Theorem C07_kll_rank_monotone : forall s log, reach s log -> forall x y incl, x <= y ->
  rank_num Z Z.ltb (qview s) x incl <= rank_num Z Z.ltb (qview s) y incl.
Proof. exact P_rank_monotone. Qed.

Theorem C07_kll_rank_incl_ge_excl : forall s log, reach s log -> forall x,
  rank_num Z Z.ltb (qview s) x false <= rank_num Z Z.ltb (qview s) x true.
Proof. exact P_rank_incl_ge_excl. Qed.

Theorem C07_kll_rank_within_0_n : forall s log, reach s log -> forall x incl,
  0 <= rank_num Z Z.ltb (qview s) x incl <= nn s.
Proof. exact P_rank_bounds. Qed.

(* what get_rank returns (numerator) is the level-weighted count of retained items below x *)
Theorem C07_kll_rank_is_estimator : forall s log, reach s log -> forall x incl,
  rank_num Z Z.ltb (qview s) x incl = Rlv (below Z Z.ltb x incl) 1 (levels s).
Proof. exact P_rank_is_estimator. Qed.

(* quantiles: monotone in the rank (weight), always a retained item, always answered on a non-empty sketch *)
Theorem C07_kll_quantile_monotone : forall s log, reach s log -> forall w1 w2 incl q1 q2, w1 <= w2 ->
  quantile_w Z (qview s) w1 incl = Some q1 -> quantile_w Z (qview s) w2 incl = Some q2 -> q1 <= q2.
Proof. exact P_quantile_monotone. Qed.

Theorem C07_kll_quantile_in_retained : forall s log, reach s log -> forall w incl q,
  quantile_w Z (qview s) w incl = Some q -> In q (concat (levels s)).
Proof. exact P_quantile_in_retained. Qed.

Theorem C07_kll_quantile_answers : forall s log, reach s log -> forall w incl, 0 < nn s ->
  exists q, quantile_w Z (qview s) w incl = Some q.
Proof. exact P_quantile_answers. Qed.

(* CDF = ranks at the split points followed by n, non-decreasing; PMF masses non-negative and summing to one *)
Theorem C07_kll_cdf_is_rank : forall s log, reach s log -> forall sp incl c,
  cdf_num Z Z.ltb (qview s) sp incl = Some c ->
  c = map (fun x => rank_num Z Z.ltb (qview s) x incl) sp ++ [nn s] /\ StronglySorted Z.le (0 :: c).
Proof. exact P_cdf. Qed.

Theorem C07_kll_pmf_sums_to_one : forall s log, reach s log -> forall sp incl p, 0 < nn s ->
  pmf_num Z Z.ltb (qview s) sp incl = Some p ->
  Forall (fun z => 0 <= z) p /\
  (fold_right Qplus (inject_Z 0) (map (fun z => inject_Z z / inject_Z (nn s)) p) == inject_Z 1)%Q.
Proof. exact P_pmf. Qed.

(* invalid queries are refused: empty sketch, rank outside [0, 1], split points not strictly increasing, NaN.
   [mstep st o = Ret r]: the operation draws no coin and answers r (the runner: step st o [] = r) *)
Theorem C07_kll_empty_sketch_refuses : forall st r g, reg_get st r = Some g -> nn (r_sk g) = 0 ->
  (forall x, mstep st [6; r; x] = Ret (st, (refused, []))) /\
  (forall j t, mstep st [7; r; j; t] = Ret (st, (refused, []))) /\
  (forall sp, mstep st (8 :: r :: sp) = Ret (st, (refused, []))).
Proof.
  intros st r g H N. unfold mstep, parse, mstep_op, pstep. rewrite H, N. simpl. repeat split; intros; reflexivity.
Qed.

Theorem C07_kll_bad_rank_refused : forall st r g j t, reg_get st r = Some g -> j < 0 \/ 2 ^ t < j ->
  mstep st [7; r; j; t] = Ret (st, (refused, [])).
Proof.
  intros st r g j t H B. unfold mstep, parse, mstep_op, pstep. rewrite H.
  replace ((nn (r_sk g) =? 0) || (j <? 0) || (2 ^ t <? j)) with true; [reflexivity|].
  symmetry. rewrite !orb_true_iff, !Z.ltb_lt. tauto.
Qed.

Theorem C07_kll_bad_splits_refused : forall st r g sp, reg_get st r = Some g ->
  splits_ok Z Z.ltb sp = false -> exists st', mstep st (8 :: r :: sp) = Ret (st', (refused, [])).
Proof.
  intros st r g sp H B. unfold mstep, parse, mstep_op, pstep. rewrite H. destruct (nn (r_sk g) =? 0); [eexists; reflexivity|].
  rewrite (cdf_bad_splits_rejected Z Z.ltb _ sp true B). eexists; reflexivity.
Qed.

Theorem C07_kll_nan_refused_or_ignored : forall st r g, reg_get st r = Some g ->
  (forall rest, exists st', mstep st (9 :: r :: rest) = Ret (st', (refused, []))) /\   (* NaN split point *)
  mstep st [3; r] = Ret (st, (ok, [])).                                            (* NaN update: state unchanged *)
Proof.
  intros st r g H. unfold mstep, parse, mstep_op, pstep. rewrite H. split; [|reflexivity].
  intro rest. destruct (nn (r_sk g) =? 0); eexists; reflexivity.
Qed.

(* the runner answers exactly what a coin-free operation answers *)
Theorem C07_kll_step_of_mstep : forall st o r, mstep st o = Ret r -> step st o [] = r.
Proof. intros st o r H. unfold step. rewrite H. reflexivity. Qed.

(* while nothing has been compacted (a single level) every rank and quantile is the true value of the input multiset *)
Theorem C07_kll_exact_rank : forall s log, reach s log -> length (levels s) = 1%nat -> forall x incl,
  rank_num Z Z.ltb (qview s) x incl = cnt (below Z Z.ltb x incl) log.
Proof. exact P_exact_rank. Qed.

Theorem C07_kll_exact_quantile : forall s log, reach s log -> length (levels s) = 1%nat -> forall d,
  (forall w, 1 <= w <= len log -> quantile_w Z (qview s) w true = Some (nth (Z.to_nat (w - 1)) (isort log) d)) /\
  (forall w, 0 <= w < len log -> quantile_w Z (qview s) w false = Some (nth (Z.to_nat w) (isort log) d)).
Proof. intros s log R S d. split; intros w H; [now apply P_exact_quantile_incl|now apply P_exact_quantile_excl]. Qed.

(* non-vacuity: a concrete reachable estimating sketch (37 + 91 updates, one merge, all coins 0) *)
Example C07_kll_nonvacuous : exists s, witness = Some s /\ nn s = 128 /\ num_retained s = 26 /\
  sum_weights (iterate_as_coded s) = 26 /\ hd [1] (levels s) = [] /\ sum_weights (iterate s) = 128.
Proof. exact witness_values. Qed.

Print Assumptions C07_kll_weight_conserved.
Print Assumptions C07_kll_n_counts_accepted.
Print Assumptions C07_kll_min_max_exact.
Print Assumptions C07_kll_levels_sorted.
Print Assumptions C07_kll_retained_sub_inputs.
Print Assumptions C07_kll_space_bound.
Print Assumptions C07_kll_full_sketch_compacts.
Print Assumptions C07_kll_iterator_spec.
Print Assumptions C07_kll_sorted_view_spec.
Print Assumptions C07_kll_rank_monotone.
Print Assumptions C07_kll_rank_incl_ge_excl.
Print Assumptions C07_kll_rank_within_0_n.
Print Assumptions C07_kll_rank_is_estimator.
Print Assumptions C07_kll_quantile_monotone.
Print Assumptions C07_kll_quantile_in_retained.
Print Assumptions C07_kll_quantile_answers.
Print Assumptions C07_kll_cdf_is_rank.
Print Assumptions C07_kll_pmf_sums_to_one.
Print Assumptions C07_kll_empty_sketch_refuses.
Print Assumptions C07_kll_bad_rank_refused.
Print Assumptions C07_kll_bad_splits_refused.
Print Assumptions C07_kll_nan_refused_or_ignored.
Print Assumptions C07_kll_step_of_mstep.
Print Assumptions C07_kll_exact_rank.
Print Assumptions C07_kll_exact_quantile.
