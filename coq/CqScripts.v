(* CqScripts.v — C08 for flat operation scripts over registers (what the runner executes): updates, merges between
   arbitrary registers (so the same sketch may flow into several others, or twice into the same one: merge DAGs,
   copies, rvalue merges), queries.  The rank estimate of every register stays unbiased. *)
From Coq Require Import ZArith List Bool Lia Permutation Sorted QArith.
From DS Require Import RunnerLib SortedView CqDefs CqProofs CqView CqUnbiased CqDraws.
Import ListNotations.
Local Open Scope Z_scope.

(* ---------- registers ---------- *)
Lemma reg_get_del {A} (rs : list (Z * A)) r r' : reg_get (reg_del rs r) r' = if r =? r' then None else reg_get rs r'.
Proof.
  induction rs as [|[k v] t IH]; simpl; [destruct (r =? r'); reflexivity|].
  destruct (Z.eqb_spec k r) as [->|N].
  - rewrite IH. destruct (Z.eqb_spec r r'); reflexivity.
  - simpl. rewrite IH. destruct (Z.eqb_spec k r') as [->|N']; [|reflexivity].
    destruct (Z.eqb_spec r r'); [congruence|reflexivity].
Qed.

Lemma reg_get_set {A} (rs : list (Z * A)) r v r' : reg_get (reg_set rs r v) r' = if r =? r' then Some v else reg_get rs r'.
Proof.
  unfold reg_set. simpl. rewrite reg_get_del. destruct (Z.eqb_spec r r'); reflexivity.
Qed.

Inductive fop : Type :=
| FNew (r k : Z) | FUpd (r x : Z) | FMerge (r r2 : Z) | FMergeMove (r r2 : Z) | FCopy (r r2 : Z) | FQuery (r : Z).

Definition regs := list (Z * cq).
Definition logs := list (Z * list Z).

(* what the runner does with the sketches (CqDefs.step without the item kinds and the ghost log) *)
Definition fstep (st : regs) (o : fop) : M regs :=
  match o with
  | FNew r k => Ret (if check_k k then reg_set st r (cq_new k) else st)
  | FUpd r x => match reg_get st r with
                | Some s => bind (update s x) (fun s' => Ret (reg_set st r s'))
                | None => Ret st
                end
  | FMerge r r2 => if r =? r2 then Ret st else
                   match reg_get st r, reg_get st r2 with
                   | Some s, Some o => bind (merge s o) (fun s' => Ret (reg_set st r s'))
                   | _, _ => Ret st
                   end
  | FMergeMove r r2 => if r =? r2 then Ret st else
                   match reg_get st r, reg_get st r2 with
                   | Some s, Some o => bind (merge s o) (fun s' => Ret (reg_del (reg_set st r s') r2))
                   | _, _ => Ret st
                   end
  | FCopy r r2 => match reg_get st r2 with Some o => Ret (reg_set st r o) | None => Ret st end
  | FQuery r => match reg_get st r with Some s => Ret (reg_set st r (sort_bb s)) | None => Ret st end
  end.

Fixpoint frun (ops : list fop) (st : regs) : M regs :=
  match ops with
  | [] => Ret st
  | o :: r => bind (fstep st o) (frun r)
  end.

(* the items every register has been given: deterministic *)
Definition lstep (lg : logs) (o : fop) : logs :=
  match o with
  | FNew r k => if check_k k then reg_set lg r [] else lg
  | FUpd r x => match reg_get lg r with Some l => reg_set lg r (l ++ [x]) | None => lg end
  | FMerge r r2 => if r =? r2 then lg else
                   match reg_get lg r, reg_get lg r2 with
                   | Some a, Some b => reg_set lg r (a ++ b)
                   | _, _ => lg
                   end
  | FMergeMove r r2 => if r =? r2 then lg else
                   match reg_get lg r, reg_get lg r2 with
                   | Some a, Some b => reg_del (reg_set lg r (a ++ b)) r2
                   | _, _ => lg
                   end
  | FCopy r r2 => match reg_get lg r2 with Some b => reg_set lg r b | None => lg end
  | FQuery r => lg
  end.

Fixpoint lrun (ops : list fop) (lg : logs) : logs :=
  match ops with
  | [] => lg
  | o :: r => lrun r (lstep lg o)
  end.

(* coupling: same registers exist, and every sketch is related to its log *)
Definition J (st : regs) (lg : logs) : Prop :=
  forall r, match reg_get st r, reg_get lg r with
            | Some s, Some l => reach s l
            | None, None => True
            | _, _ => False
            end.

Lemma J_nil : J [] [].
Proof. intro r. exact I. Qed.

Lemma J_some st lg r s : J st lg -> reg_get st r = Some s -> exists l, reg_get lg r = Some l /\ reach s l.
Proof. intros H E. specialize (H r). rewrite E in H. destruct (reg_get lg r); [eauto|contradiction]. Qed.

Lemma J_none st lg r : J st lg -> reg_get st r = None -> reg_get lg r = None.
Proof. intros H E. specialize (H r). rewrite E in H. destruct (reg_get lg r); [contradiction|reflexivity]. Qed.

Lemma J_set st lg r s l : J st lg -> reach s l -> J (reg_set st r s) (reg_set lg r l).
Proof. intros H R r'. rewrite !reg_get_set. destruct (r =? r'); [exact R|apply H]. Qed.

Lemma J_del st lg r : J st lg -> J (reg_del st r) (reg_del lg r).
Proof. intros H r'. rewrite !reg_get_del. destruct (r =? r'); [exact I|apply H]. Qed.

Lemma J_step st lg o st' : J st lg -> leaf (fstep st o) st' -> J st' (lstep lg o).
Proof.
  intros H L. destruct o as [r k|r x|r r2|r r2|r r2|r]; cbn [fstep lstep] in *.
  - apply leaf_ret_inv in L. subst. destruct (check_k k) eqn:E; [|exact H]. apply J_set; auto. now apply reach_new.
  - destruct (reg_get st r) as [s|] eqn:E.
    + destruct (J_some _ _ _ _ H E) as (l & El & R). rewrite El.
      apply leaf_bind in L as (s' & L1 & L2). apply leaf_ret_inv in L2. subst.
      apply J_set; auto. apply (reach_update _ _ _ _ R L1).
    + rewrite (J_none _ _ _ H E). apply leaf_ret_inv in L. now subst.
  - destruct (r =? r2); [apply leaf_ret_inv in L; now subst|].
    destruct (reg_get st r) as [s|] eqn:E; [|rewrite (J_none _ _ _ H E); apply leaf_ret_inv in L; now subst].
    destruct (J_some _ _ _ _ H E) as (l & El & R). rewrite El.
    destruct (reg_get st r2) as [o|] eqn:E2; [|rewrite (J_none _ _ _ H E2); apply leaf_ret_inv in L; now subst].
    destruct (J_some _ _ _ _ H E2) as (l2 & El2 & R2). rewrite El2.
    apply leaf_bind in L as (s' & L1 & L2). apply leaf_ret_inv in L2. subst.
    apply J_set; auto. apply (reach_merge _ _ _ _ _ R R2 L1).
  - destruct (r =? r2); [apply leaf_ret_inv in L; now subst|].
    destruct (reg_get st r) as [s|] eqn:E; [|rewrite (J_none _ _ _ H E); apply leaf_ret_inv in L; now subst].
    destruct (J_some _ _ _ _ H E) as (l & El & R). rewrite El.
    destruct (reg_get st r2) as [o|] eqn:E2; [|rewrite (J_none _ _ _ H E2); apply leaf_ret_inv in L; now subst].
    destruct (J_some _ _ _ _ H E2) as (l2 & El2 & R2). rewrite El2.
    apply leaf_bind in L as (s' & L1 & L2). apply leaf_ret_inv in L2. subst.
    apply J_del. apply J_set; auto. apply (reach_merge _ _ _ _ _ R R2 L1).
  - destruct (reg_get st r2) as [o|] eqn:E2; [|rewrite (J_none _ _ _ H E2); apply leaf_ret_inv in L; now subst].
    destruct (J_some _ _ _ _ H E2) as (l2 & El2 & R2). rewrite El2.
    apply leaf_ret_inv in L. subst. now apply J_set.
  - destruct (reg_get st r) as [s|] eqn:E; apply leaf_ret_inv in L; [|now subst].
    destruct (J_some _ _ _ _ H E) as (l & El & R). subst. intro r'. rewrite reg_get_set.
    destruct (Z.eqb_spec r r') as [<-|N]; [rewrite El; now apply reach_sort|apply H].
Qed.

Lemma J_run : forall ops st lg st', J st lg -> leaf (frun ops st) st' -> J st' (lrun ops lg).
Proof.
  induction ops as [|o r IH]; intros st lg st' H L; cbn [frun lrun] in *.
  - apply leaf_ret_inv in L. now subst.
  - apply leaf_bind in L as (st1 & L1 & L2). eapply IH; [|exact L2]. eapply J_step; eauto.
Qed.

(* every register of every state a script can reach is a reachable sketch (all C07 statements apply to it), and the
   list of items it is related to is the deterministic ghost log *)
Theorem script_states_reachable ops st' r s : leaf (frun ops []) st' -> reg_get st' r = Some s ->
  exists l, reg_get (lrun ops []) r = Some l /\ reach s l.
Proof. intros L E. eapply J_some; [|exact E]. eapply J_run; [apply J_nil|exact L]. Qed.

(* ===================== expectation of the estimates of all registers ===================== *)
Section Vectors.
  Variable p : Z -> bool.

  Definition vec (st : regs) : Z -> Z := fun r => match reg_get st r with Some s => Rest p s | None => 0 end.
  Definition lvec (lg : logs) : Z -> Z := fun r => match reg_get lg r with Some l => cnt p l | None => 0 end.
  Definition upd (v : Z -> Z) (r t : Z) : Z -> Z := fun j => if r =? j then t else v j.

  Fixpoint gsum (v : Z -> Z) (rs : list Z) : Z :=
    match rs with
    | [] => 0
    | j :: t => v j + gsum v t
    end.
  (* an affine functional of the vector of estimates: a constant plus the sum over a list of registers *)
  Definition ev (phi : list Z * Z) (v : Z -> Z) : Z := snd phi + gsum v (fst phi).

  Definition cntr (r : Z) (rs : list Z) : Z := len (filter (Z.eqb r) rs).
  Definition has (lg : logs) (r : Z) : bool := match reg_get lg r with Some _ => true | None => false end.
  Definition skipped (lg : logs) (r r2 : Z) : bool := (r =? r2) || negb (has lg r && has lg r2).

  (* the step on exact counts / on expectations *)
  Definition astep (lg : logs) (o : fop) (v : Z -> Z) : Z -> Z :=
    match o with
    | FNew r k => if check_k k then upd v r 0 else v
    | FUpd r x => if has lg r then upd v r (v r + (if p x then 1 else 0)) else v
    | FMerge r r2 => if skipped lg r r2 then v else upd v r (v r + v r2)
    | FMergeMove r r2 => if skipped lg r r2 then v else upd (upd v r (v r + v r2)) r2 0
    | FCopy r r2 => if has lg r2 then upd v r (v r2) else v
    | FQuery r => v
    end.

  (* the same step pulled back to the functional *)
  Definition pb (lg : logs) (o : fop) (phi : list Z * Z) : list Z * Z :=
    match o with
    | FNew r k => if check_k k then (filter (fun j => negb (r =? j)) (fst phi), snd phi) else phi
    | FUpd r x => if has lg r then (fst phi, snd phi + cntr r (fst phi) * (if p x then 1 else 0)) else phi
    | FMerge r r2 => if skipped lg r r2 then phi
                     else (flat_map (fun j => if r =? j then [r; r2] else [j]) (fst phi), snd phi)
    | FMergeMove r r2 => if skipped lg r r2 then phi
                     else (flat_map (fun j => if r =? j then [r; r2] else if r2 =? j then [] else [j]) (fst phi), snd phi)
    | FCopy r r2 => if has lg r2 then (map (fun j => if r =? j then r2 else j) (fst phi), snd phi) else phi
    | FQuery r => phi
    end.

  Lemma gsum_ext v w rs : (forall j, v j = w j) -> gsum v rs = gsum w rs.
  Proof. intro H. induction rs as [|j t IH]; simpl; [reflexivity|]. rewrite H, IH. reflexivity. Qed.

  Lemma gsum_app v a b : gsum v (a ++ b) = gsum v a + gsum v b.
  Proof. induction a as [|j t IH]; simpl; [reflexivity|]. rewrite IH. ring. Qed.

  Lemma cntr_cons r j rs : cntr r (j :: rs) = (if r =? j then 1 else 0) + cntr r rs.
  Proof. unfold cntr. cbn [filter]. destruct (r =? j); [rewrite len_cons|]; lia. Qed.

  Lemma upd_same v r t : upd v r t r = t.
  Proof. unfold upd. now rewrite Z.eqb_refl. Qed.
  Lemma upd_other v r t j : r <> j -> upd v r t j = v j.
  Proof. unfold upd. intro N. destruct (Z.eqb_spec r j); [contradiction|reflexivity]. Qed.

  (* the functional is affine in every coordinate *)
  Lemma gsum_upd v r t rs : gsum (upd v r t) rs = cntr r rs * t + gsum (upd v r 0) rs.
  Proof.
    induction rs as [|j rs IH]; [reflexivity|]. cbn [gsum]. rewrite cntr_cons, IH.
    destruct (Z.eqb_spec r j) as [<-|N]; [rewrite !upd_same|rewrite !(upd_other _ _ _ _ N)]; ring.
  Qed.

  Lemma pb_ev lg o phi v : ev (pb lg o phi) v = ev phi (astep lg o v).
  Proof.
    destruct phi as [rs b]. unfold ev.
    destruct o as [r k|r x|r r2|r r2|r r2|r]; cbn [pb astep fst snd].
    - destruct (check_k k); [|reflexivity]. cbn [fst snd]. f_equal.
      induction rs as [|j rs IH]; [reflexivity|]. cbn [filter gsum].
      destruct (Z.eqb_spec r j) as [<-|N]; cbn [negb gsum]; rewrite IH; [rewrite upd_same|rewrite (upd_other _ _ _ _ N)]; ring.
    - destruct (has lg r); [|reflexivity]. cbn [fst snd].
      induction rs as [|j rs IH]; [cbn [gsum]; unfold cntr, len; cbn [filter length Z.of_nat]; ring|].
      cbn [gsum]. rewrite cntr_cons.
      destruct (Z.eqb_spec r j) as [<-|N]; [rewrite upd_same|rewrite (upd_other _ _ _ _ N)]; lia.
    - destruct (skipped lg r r2) eqn:Sk; [reflexivity|]. cbn [fst snd]. f_equal.
      induction rs as [|j rs IH]; [reflexivity|]. cbn [flat_map gsum]. rewrite gsum_app, IH.
      destruct (Z.eqb_spec r j) as [<-|N]; [rewrite upd_same|rewrite (upd_other _ _ _ _ N)]; cbn [gsum]; ring.
    - destruct (skipped lg r r2) eqn:Sk; [reflexivity|]. cbn [fst snd]. f_equal.
      unfold skipped in Sk. apply orb_false_iff in Sk as [Ne _]. apply Z.eqb_neq in Ne.
      induction rs as [|j rs IH]; [reflexivity|]. cbn [flat_map gsum]. rewrite gsum_app, IH.
      destruct (Z.eqb_spec r2 j) as [<-|N2].
      + rewrite upd_same. destruct (Z.eqb_spec r r2); [congruence|]. cbn [gsum]. ring.
      + rewrite (upd_other _ _ _ _ N2).
        destruct (Z.eqb_spec r j) as [<-|N]; [rewrite upd_same|rewrite (upd_other _ _ _ _ N)]; cbn [gsum]; ring.
    - destruct (has lg r2); [|reflexivity]. cbn [fst snd]. f_equal.
      induction rs as [|j rs IH]; [reflexivity|]. cbn [map gsum]. rewrite IH.
      destruct (Z.eqb_spec r j) as [<-|N]; [rewrite upd_same|rewrite (upd_other _ _ _ _ N)]; ring.
    - reflexivity.
  Qed.

  Lemma vec_set st r s j : vec (reg_set st r s) j = upd (vec st) r (Rest p s) j.
  Proof. unfold vec, upd. rewrite reg_get_set. destruct (r =? j); reflexivity. Qed.

  Lemma vec_del st r j : vec (reg_del st r) j = upd (vec st) r 0 j.
  Proof. unfold vec, upd. rewrite reg_get_del. destruct (r =? j); reflexivity. Qed.

  Lemma ev_ext phi v w : (forall j, v j = w j) -> ev phi v = ev phi w.
  Proof. intro H. unfold ev. f_equal. now apply gsum_ext. Qed.

  (* one coordinate replaced by a random sketch whose estimate has mean m *)
  Lemma Mart_coord phi (v : Z -> Z) r (m : M cq) mean :
    Mart (Rest p) m mean -> Mart (fun s' => ev phi (upd v r (Rest p s'))) m (ev phi (upd v r mean)).
  Proof.
    intro H. unfold ev. eapply Mart_ext.
    2:{ replace (snd phi + gsum (upd v r mean) (fst phi))
          with ((snd phi + gsum (upd v r 0) (fst phi)) + cntr r (fst phi) * mean) by (rewrite (gsum_upd v r mean); ring).
        apply Mart_affine. exact H. }
    intros a _. cbv beta. rewrite (gsum_upd v r (Rest p a)). ring.
  Qed.

  Lemma has_J st lg r : J st lg -> has lg r = match reg_get st r with Some _ => true | None => false end.
  Proof.
    intro H. unfold has. specialize (H r). destruct (reg_get st r), (reg_get lg r); auto; contradiction.
  Qed.

  (* one operation of the script *)
  Lemma fstep_Mart st lg o phi : J st lg ->
    Mart (fun st' => ev phi (vec st')) (fstep st o) (ev phi (astep lg o (vec st))).
  Proof.
    intro H. destruct o as [r k|r x|r r2|r r2|r r2|r]; cbn [fstep astep].
    - apply Mart_ret'. destruct (check_k k); [|reflexivity]. apply ev_ext. intro j. symmetry. apply vec_set.
    - rewrite (has_J _ _ r H). destruct (reg_get st r) as [s|] eqn:E; [|apply Mart_ret'; reflexivity].
      destruct (J_some _ _ _ _ H E) as (l & El & R).
      apply (Mart_bind _ (fun s' => ev phi (upd (vec st) r (Rest p s')))).
      + replace (vec st r) with (Rest p s) by (unfold vec; now rewrite E).
        apply Mart_coord. apply update_Mart. apply (r_inv _ _ (reach_Rel _ _ R)).
      + intros s' _. apply Mart_ret'. apply ev_ext. intro j. symmetry. apply vec_set.
    - unfold skipped. rewrite (has_J _ _ r H), (has_J _ _ r2 H). destruct (r =? r2); [apply Mart_ret'; reflexivity|].
      destruct (reg_get st r) as [s|] eqn:E; [|apply Mart_ret'; reflexivity].
      destruct (reg_get st r2) as [o|] eqn:E2; [|apply Mart_ret'; reflexivity]. cbn [orb andb negb].
      destruct (J_some _ _ _ _ H E) as (l & El & R). destruct (J_some _ _ _ _ H E2) as (l2 & El2 & R2).
      apply (Mart_bind _ (fun s' => ev phi (upd (vec st) r (Rest p s')))).
      + replace (vec st r) with (Rest p s) by (unfold vec; now rewrite E).
        replace (vec st r2) with (Rest p o) by (unfold vec; now rewrite E2).
        apply Mart_coord. apply (merge_Mart p s l o l2 (reach_Rel _ _ R) (reach_Rel _ _ R2)).
      + intros s' _. apply Mart_ret'. apply ev_ext. intro j. symmetry. apply vec_set.
    - unfold skipped. rewrite (has_J _ _ r H), (has_J _ _ r2 H). destruct (Z.eqb_spec r r2) as [|Ne]; [apply Mart_ret'; reflexivity|].
      destruct (reg_get st r) as [s|] eqn:E; [|apply Mart_ret'; reflexivity].
      destruct (reg_get st r2) as [o|] eqn:E2; [|apply Mart_ret'; reflexivity]. cbn [orb andb negb].
      destruct (J_some _ _ _ _ H E) as (l & El & R). destruct (J_some _ _ _ _ H E2) as (l2 & El2 & R2).
      apply (Mart_bind _ (fun s' => ev phi (upd (upd (vec st) r2 0) r (Rest p s')))).
      + replace (vec st r) with (Rest p s) by (unfold vec; now rewrite E).
        replace (vec st r2) with (Rest p o) by (unfold vec; now rewrite E2).
        erewrite (ev_ext phi (upd (upd (vec st) r (Rest p s + Rest p o)) r2 0)).
        * apply Mart_coord. apply (merge_Mart p s l o l2 (reach_Rel _ _ R) (reach_Rel _ _ R2)).
        * intro j. destruct (Z.eqb_spec r2 j) as [<-|N2].
          -- rewrite upd_same, (upd_other _ r _ r2 Ne), upd_same. reflexivity.
          -- rewrite (upd_other _ r2 _ j N2).
             destruct (Z.eqb_spec r j) as [<-|N]; [now rewrite !upd_same|].
             now rewrite !(upd_other _ r _ j N), (upd_other _ r2 _ j N2).
      + intros s' _. apply Mart_ret'. apply ev_ext. intro j. rewrite vec_del.
        destruct (Z.eqb_spec r2 j) as [<-|N2].
        * rewrite upd_same, (upd_other _ r _ r2 Ne), upd_same. reflexivity.
        * rewrite (upd_other _ r2 _ j N2), vec_set.
          destruct (Z.eqb_spec r j) as [<-|N]; [now rewrite !upd_same|].
          now rewrite !(upd_other _ r _ j N), (upd_other _ r2 _ j N2).
    - rewrite (has_J _ _ r2 H). destruct (reg_get st r2) as [o|] eqn:E2; [|apply Mart_ret'; reflexivity].
      apply Mart_ret'. apply ev_ext. intro j. rewrite vec_set. unfold upd. destruct (r =? j); [|reflexivity].
      unfold vec. now rewrite E2.
    - destruct (reg_get st r) as [s|] eqn:E; [|apply Mart_ret'; reflexivity].
      apply Mart_ret'. apply ev_ext. intro j. rewrite vec_set. unfold upd. destruct (Z.eqb_spec r j) as [<-|]; [|reflexivity].
      unfold vec. rewrite E. symmetry. apply Rest_sort_bb.
  Qed.

  (* whole scripts *)
  Fixpoint aruns (lg : logs) (ops : list fop) (v : Z -> Z) : Z -> Z :=
    match ops with
    | [] => v
    | o :: r => aruns (lstep lg o) r (astep lg o v)
    end.
  Fixpoint pbs (lg : logs) (ops : list fop) (phi : list Z * Z) : list Z * Z :=
    match ops with
    | [] => phi
    | o :: r => pb lg o (pbs (lstep lg o) r phi)
    end.

  Lemma pbs_ev : forall ops lg phi v, ev (pbs lg ops phi) v = ev phi (aruns lg ops v).
  Proof.
    induction ops as [|o r IH]; intros lg phi v; cbn [pbs aruns]; [reflexivity|].
    rewrite pb_ev, IH. reflexivity.
  Qed.

  Lemma frun_Mart : forall ops st lg phi, J st lg ->
    Mart (fun st' => ev phi (vec st')) (frun ops st) (ev phi (aruns lg ops (vec st))).
  Proof.
    induction ops as [|o r IH]; intros st lg phi H; cbn [frun aruns].
    - apply Mart_ret'. reflexivity.
    - apply (Mart_bind _ (fun st1 => ev (pbs (lstep lg o) r phi) (vec st1))).
      + rewrite <- pbs_ev. now apply fstep_Mart.
      + intros st1 L1. rewrite pbs_ev. apply IH. eapply J_step; eauto.
  Qed.

  (* the abstract run on the exact counts is the ghost log *)
  Lemma upd_ext v w r t : (forall j, v j = w j) -> forall j, upd v r t j = upd w r t j.
  Proof. intros H j. unfold upd. destruct (r =? j); auto. Qed.

  Lemma astep_ext lg o v w : (forall j, v j = w j) -> forall j, astep lg o v j = astep lg o w j.
  Proof.
    intros H j. destruct o as [r k|r x|r r2|r r2|r r2|r]; cbn [astep].
    - destruct (check_k k); auto. now apply upd_ext.
    - destruct (has lg r); auto. rewrite (H r). now apply upd_ext.
    - destruct (skipped lg r r2); auto. rewrite (H r), (H r2). now apply upd_ext.
    - destruct (skipped lg r r2); auto. rewrite (H r), (H r2). apply upd_ext. now apply upd_ext.
    - destruct (has lg r2); auto. rewrite (H r2). now apply upd_ext.
    - auto.
  Qed.

  Lemma aruns_ext : forall ops lg v w, (forall j, v j = w j) -> forall j, aruns lg ops v j = aruns lg ops w j.
  Proof.
    induction ops as [|o r IH]; intros lg v w H j; cbn [aruns]; auto. apply IH. now apply astep_ext.
  Qed.

  Lemma lvec_set lg r l j : lvec (reg_set lg r l) j = upd (lvec lg) r (cnt p l) j.
  Proof. unfold lvec, upd. rewrite reg_get_set. destruct (r =? j); reflexivity. Qed.

  Lemma lvec_del lg r j : lvec (reg_del lg r) j = upd (lvec lg) r 0 j.
  Proof. unfold lvec, upd. rewrite reg_get_del. destruct (r =? j); reflexivity. Qed.

  Lemma lstep_lvec lg o j : lvec (lstep lg o) j = astep lg o (lvec lg) j.
  Proof.
    destruct o as [r k|r x|r r2|r r2|r r2|r]; cbn [lstep astep].
    - destruct (check_k k); [|reflexivity]. now rewrite lvec_set.
    - unfold has. destruct (reg_get lg r) as [l|] eqn:E; [|reflexivity].
      rewrite lvec_set. unfold upd. destruct (r =? j); [|reflexivity].
      unfold lvec. rewrite E, cnt_app, cnt_cons, cnt_nil. ring.
    - unfold skipped, has. destruct (r =? r2); [reflexivity|].
      destruct (reg_get lg r) as [a|] eqn:E; [|reflexivity]. destruct (reg_get lg r2) as [b|] eqn:E2; [|reflexivity].
      cbn [orb andb negb]. rewrite lvec_set. unfold upd. destruct (r =? j); [|reflexivity].
      unfold lvec. rewrite E, E2, cnt_app. reflexivity.
    - unfold skipped, has. destruct (r =? r2); [reflexivity|].
      destruct (reg_get lg r) as [a|] eqn:E; [|reflexivity]. destruct (reg_get lg r2) as [b|] eqn:E2; [|reflexivity].
      cbn [orb andb negb]. rewrite lvec_del.
      destruct (Z.eqb_spec r2 j) as [<-|N2]; [now rewrite !upd_same|].
      rewrite !(upd_other _ r2 _ j N2), lvec_set.
      destruct (Z.eqb_spec r j) as [<-|N]; [|now rewrite !(upd_other _ r _ j N)].
      rewrite !upd_same. unfold lvec. rewrite E, E2, cnt_app. reflexivity.
    - unfold has. destruct (reg_get lg r2) as [b|] eqn:E2; [|reflexivity].
      rewrite lvec_set. unfold upd. destruct (r =? j); [|reflexivity]. unfold lvec. now rewrite E2.
    - reflexivity.
  Qed.

  Lemma aruns_lvec : forall ops lg j, aruns lg ops (lvec lg) j = lvec (lrun ops lg) j.
  Proof.
    induction ops as [|o r IH]; intros lg j; cbn [aruns lrun]; [reflexivity|].
    rewrite <- IH. apply aruns_ext. intro i. symmetry. apply lstep_lvec.
  Qed.

  (* every script, every register: the weighted count of retained items satisfying p has mean = the number of items
     satisfying p that flowed into the register (0 if the register does not exist at the end) *)
  Theorem script_unbiased ops r : Mart (fun st' => vec st' r) (frun ops []) (lvec (lrun ops []) r).
  Proof.
    pose proof (frun_Mart ops [] [] ([r], 0) J_nil) as H.
    rewrite <- aruns_lvec.
    replace (aruns [] ops (lvec []) r) with (ev ([r], 0) (aruns [] ops (vec []))).
    - eapply Mart_ext; [|exact H]. intros a _. unfold ev. cbn [fst snd gsum]. ring.
    - unfold ev. cbn [fst snd gsum]. rewrite (aruns_ext ops [] (vec []) (lvec [])) by reflexivity. ring.
  Qed.
End Vectors.

(* the rank numerator get_rank computes for register r at the end of the script (0 if the register does not exist) *)
Definition rank_reg (x : Z) (incl : bool) (r : Z) (st : regs) : Z :=
  match reg_get st r with Some s => rank_of x incl s | None => 0 end.

Theorem script_rank_unbiased x incl ops r :
  (Ex (fmap (rank_reg x incl r) (frun ops [])) ==
   inject_Z (match reg_get (lrun ops []) r with Some l => cnt (below Z Z.ltb x incl) l | None => 0 end))%Q.
Proof.
  apply Mart_Ex. eapply Mart_ext; [|apply (script_unbiased (below Z Z.ltb x incl) ops r)].
  intros st' L. unfold vec, rank_reg. destruct (reg_get st' r) as [s|] eqn:E; [|reflexivity].
  destruct (script_states_reachable ops st' r s L E) as (l & _ & R).
  unfold rank_of. symmetry. eapply P_rank_is_estimator; eauto.
Qed.

(* ===================== the draws of a script do not depend on their outcomes ===================== *)
Definition Rsim (st1 st2 : regs) : Prop :=
  forall r, match reg_get st1 r, reg_get st2 r with
            | Some a, Some b => Csim a b
            | None, None => True
            | _, _ => False
            end.

Lemma Rsim_set st1 st2 r a b : Rsim st1 st2 -> Csim a b -> Rsim (reg_set st1 r a) (reg_set st2 r b).
Proof. intros H C r'. rewrite !reg_get_set. destruct (r =? r'); [exact C|apply H]. Qed.

Lemma Rsim_del st1 st2 r : Rsim st1 st2 -> Rsim (reg_del st1 r) (reg_del st2 r).
Proof. intros H r'. rewrite !reg_get_del. destruct (r =? r'); [exact I|apply H]. Qed.

(* two operations of the same shape: same registers and k, any item *)
Definition same_op (o1 o2 : fop) : Prop :=
  match o1, o2 with
  | FNew r k, FNew r' k' => r = r' /\ k = k'
  | FUpd r _, FUpd r' _ => r = r'
  | FMerge r a, FMerge r' a' => r = r' /\ a = a'
  | FMergeMove r a, FMergeMove r' a' => r = r' /\ a = a'
  | FCopy r a, FCopy r' a' => r = r' /\ a = a'
  | FQuery r, FQuery r' => r = r'
  | _, _ => False
  end.

Lemma fstep_det st1 st2 o1 o2 : Rsim st1 st2 -> same_op o1 o2 -> DetR Rsim (fstep st1 o1) (fstep st2 o2).
Proof.
  intros H S. destruct o1 as [r k|r x|r a|r a|r a|r], o2 as [r' k'|r' x'|r' a'|r' a'|r' a'|r']; try contradiction;
    cbn [same_op] in S; cbn [fstep].
  - destruct S as [<- <-]. apply DetR_ret. destruct (check_k k); [|exact H]. apply Rsim_set; [exact H|reflexivity].
  - subst r'. pose proof (H r) as Hr. destruct (reg_get st1 r) as [s1|], (reg_get st2 r) as [s2|]; try contradiction.
    + eapply DetR_bind; [apply update_det; exact Hr|]. intros u1 u2 Hu. apply DetR_ret. now apply Rsim_set.
    + now apply DetR_ret.
  - destruct S as [<- <-]. destruct (r =? a); [now apply DetR_ret|].
    pose proof (H r) as Hr. pose proof (H a) as Ha.
    destruct (reg_get st1 r) as [s1|], (reg_get st2 r) as [s2|]; try contradiction; [|now apply DetR_ret].
    destruct (reg_get st1 a) as [o1|], (reg_get st2 a) as [o2|]; try contradiction; [|now apply DetR_ret].
    eapply DetR_bind; [apply merge_det; [exact Hr|exact Ha]|]. intros u1 u2 Hu. apply DetR_ret. now apply Rsim_set.
  - destruct S as [<- <-]. destruct (r =? a); [now apply DetR_ret|].
    pose proof (H r) as Hr. pose proof (H a) as Ha.
    destruct (reg_get st1 r) as [s1|], (reg_get st2 r) as [s2|]; try contradiction; [|now apply DetR_ret].
    destruct (reg_get st1 a) as [o1|], (reg_get st2 a) as [o2|]; try contradiction; [|now apply DetR_ret].
    eapply DetR_bind; [apply merge_det; [exact Hr|exact Ha]|]. intros u1 u2 Hu. apply DetR_ret.
    apply Rsim_del. now apply Rsim_set.
  - destruct S as [<- <-]. pose proof (H a) as Ha.
    destruct (reg_get st1 a) as [o1|], (reg_get st2 a) as [o2|]; try contradiction; apply DetR_ret; [|exact H].
    now apply Rsim_set.
  - subst r'. pose proof (H r) as Hr.
    destruct (reg_get st1 r) as [s1|], (reg_get st2 r) as [s2|]; try contradiction; apply DetR_ret; [|exact H].
    apply Rsim_set; [exact H|]. now apply sort_bb_det.
Qed.

Lemma frun_det : forall ops1 ops2 st1 st2, Forall2 same_op ops1 ops2 -> Rsim st1 st2 ->
  DetR Rsim (frun ops1 st1) (frun ops2 st2).
Proof.
  induction ops1 as [|o1 r1 IH]; intros ops2 st1 st2 F H; inversion F; subst; cbn [frun].
  - now apply DetR_ret.
  - eapply DetR_bind; [apply fstep_det; eassumption|]. intros u1 u2 Hu. now apply IH.
Qed.

Lemma same_op_refl o : same_op o o.
Proof. destruct o; simpl; auto. Qed.

(* any two outcome sequences of the same script make the same draws (number and arities) *)
Theorem script_draws_independent ops ar1 st1 ar2 st2 :
  path (frun ops []) ar1 st1 -> path (frun ops []) ar2 st2 -> ar1 = ar2.
Proof.
  intros P1 P2.
  assert (F : Forall2 same_op ops ops).
  { clear. induction ops as [|o r IH]; constructor; auto using same_op_refl. }
  assert (R0 : Rsim [] []) by (intro r; exact I).
  exact (proj1 (frun_det ops ops [] [] F R0 _ _ _ _ P1 P2)).
Qed.
