(* HllSketchProofs.v — the whole hll_sketch: one invariant for the three register widths ([hinv]), the
   list -> set -> HLL promotions ([skinv], [sk_run_spec]), type conversion ([sk_copy_as_spec]), estimator inputs. *)
From Coq Require Import ZArith NArith List Bool Lia Permutation.
From DS Require Import Word RunnerLib HllDefs HllProofs HllOpenAddr HllAuxProofs HllRegsProofs HllSetProofs Hll4Proofs.
Import ListNotations.
Local Open Scope N_scope.

(* ---------- one invariant for HLL_4 / HLL_6 / HLL_8 ---------- *)
Definition hinv (h : hllarr) (regs : list N) : Prop :=
  4 <= h_lgk h /\ h_lgk h <= 21 /\ (forall s, getN regs s < 64) /\
  match h_ty h with
  | T8 => h_bytes h = regs /\ inv68 h regs
  | T6 => bytes_ok (h_bytes h) /\ len6_ok (h_lgk h) (h_bytes h) /\ abs6 (h_lgk h) (h_bytes h) = regs /\ inv68 h regs
  | T4 => inv4 h regs /\ 0 < h_numat h
  end.

Lemma get6_zeros n s : get6 (zerosN n) s = 0.
Proof. unfold get6. rewrite !getN_zerosN. change (N.lor (N.shiftl 0 8) 0) with 0. rewrite N.shiftr_0_l. reflexivity. Qed.

Lemma abs6_zeros lgk n : abs6 lgk (zerosN n) = zerosN (2 ^ lgk).
Proof.
  apply list_ext_getN.
  - pose proof (abs6_length lgk (zerosN n)) as H1. pose proof (zerosN_length (2 ^ lgk)) as H2. unfold lenN in *. lia.
  - intros i Hi. rewrite abs6_length in Hi. rewrite getN_abs6 by exact Hi. now rewrite get6_zeros, getN_zerosN.
Qed.

Lemma inv68_new lgk ty full : inv68 (hll_new lgk ty full) (zerosN (2 ^ lgk)).
Proof.
  unfold inv68, est_ok. cbn [hll_new h_lgk h_curmin h_numat h_aux h_kxq0 h_kxq1].
  rewrite zerosN_length, kxq0_of_zeros, kxq1_of_zeros, count_eq_zeros. repeat split.
Qed.

Lemma hinv_new lgk ty full : 4 <= lgk -> lgk <= 21 -> hinv (hll_new lgk ty full) (zerosN (2 ^ lgk)).
Proof.
  intros Hlo Hhi. unfold hinv. cbn [hll_new h_lgk h_ty h_bytes h_numat].
  split; [exact Hlo|]. split; [exact Hhi|]. split; [intros s; rewrite getN_zerosN; lia|].
  destruct ty.
  - split; [now apply inv4_new|apply pow2_pos].
  - split; [apply bytes_ok_zeros|]. split; [split; [lia|apply zerosN_length]|].
    split; [apply abs6_zeros|apply inv68_new].
  - split; [reflexivity|apply inv68_new].
Qed.

Lemma reg_max_upd_lt64 lgk regs c : cvalid c -> (forall s, getN regs s < 64) -> forall s, getN (reg_max_upd lgk regs c) s < 64.
Proof.
  intros Hc H s. unfold reg_max_upd. destruct (_ <? _); [|apply H].
  destruct (N.lt_ge_cases (c_slot lgk c) (lenN regs)) as [Hl|Hl].
  - rewrite getN_setN by exact Hl. destruct (_ =? _); [now apply c_val_lt|apply H].
  - rewrite setN_overflow by exact Hl. apply H.
Qed.

Lemma hinv_update h regs c : hinv h regs -> cvalid c ->
  exists h', hll_update h c = Some h' /\ hinv h' (reg_max_upd (h_lgk h) regs c) /\ same_cfg h h'.
Proof.
  intros (Hlo & Hhi & H64 & Hm) Hc. unfold hll_update. pose proof (reg_max_upd_lt64 (h_lgk h) regs c Hc H64) as H64'.
  destruct (h_ty h) eqn:Ety.
  - destruct Hm as [Hinv Hpos]. destruct (hll4_update_step h regs c Hinv Hc) as (h' & Hu & Hinv' & Hcfg & Hpos').
    exists h'. split; [exact Hu|]. split; [|exact Hcfg]. destruct Hcfg as (E1 & E2 & _).
    unfold hinv. rewrite E1, E2, Ety. split; [exact Hlo|]. split; [exact Hhi|]. split; [exact H64'|].
    split; [exact Hinv'|auto].
  - destruct Hm as (Hb & Hl & Ha & Hi). subst regs.
    destruct (hll6_update_step h c Hc (conj Hb (conj Hl Hi))) as (Ha' & (Hb' & Hl' & Hi') & Hcfg).
    eexists. split; [reflexivity|]. split; [|exact Hcfg]. pose proof Hcfg as (E1 & E2 & _).
    rewrite E1 in Hl', Hi'.
    unfold hinv. rewrite E1, E2, Ety. split; [exact Hlo|]. split; [exact Hhi|]. split; [exact H64'|].
    split; [exact Hb'|]. split; [exact Hl'|]. split; [exact Ha'|]. rewrite <- Ha'. exact Hi'.
  - destruct Hm as (Hb & Hi). subst regs.
    destruct (hll8_update_step h c Hi) as (Hb' & Hi' & Hcfg).
    eexists. split; [reflexivity|]. split; [|exact Hcfg]. pose proof Hcfg as (E1 & E2 & _).
    unfold hinv. rewrite E1, E2, Ety. split; [exact Hlo|]. split; [exact Hhi|]. split; [exact H64'|].
    split; [exact Hb'|]. rewrite <- Hb'. exact Hi'.
Qed.

Lemma hinv_fold : forall cs h regs, hinv h regs -> Forall cvalid cs ->
  exists h', ofold hll_update cs h = Some h' /\ hinv h' (fold_left (reg_max_upd (h_lgk h)) cs regs) /\ same_cfg h h'.
Proof.
  induction cs as [|c t IH]; intros h regs Hi Hc; cbn [ofold fold_left].
  - exists h. split; [reflexivity|]. split; [exact Hi|apply same_cfg_refl].
  - inversion Hc as [|? ? Hc1 Hc2]; subst.
    destruct (hinv_update h regs c Hi Hc1) as (h1 & Hu & Hi1 & Hcfg1). rewrite Hu.
    destruct (IH h1 _ Hi1 Hc2) as (h' & Hf & Hi' & Hcfg'). exists h'. split; [exact Hf|].
    rewrite (proj1 Hcfg1) in Hi'. split; [exact Hi'|]. eapply same_cfg_trans; eauto.
Qed.

Lemma hinv_regs h regs : hinv h regs -> hll_regs h = Some regs.
Proof.
  intros (Hlo & Hhi & H64 & Hm). destruct (h_ty h) eqn:Ety.
  - destruct Hm as [[Hi _] _]. now apply inv4_regs.
  - destruct Hm as (Hb & [Hk Hl] & Ha & _). rewrite <- Ha. apply hll_regs_T6; auto.
  - destruct Hm as (Hb & Hl & _). rewrite <- Hb in *. apply hll_regs_T8; auto.
Qed.

Lemma hinv_len h regs : hinv h regs -> lenN regs = 2 ^ h_lgk h.
Proof.
  intros (Hlo & Hhi & H64 & Hm). destruct (h_ty h).
  - destruct Hm as [[Hi _] _]. apply (i4_len _ _ Hi).
  - destruct Hm as (_ & _ & _ & Hl & _). exact Hl.
  - destruct Hm as (_ & Hl & _). exact Hl.
Qed.

Lemma inv4_flags h regs o r : inv4 h regs -> inv4 (h_set_flags h o r) regs.
Proof. intros [[Hlo Hhi Hlen Hbl Hb Hge Hnib Haux Hest] Hn]. split; [constructor|]; auto. Qed.

Lemma hinv_flags h regs o r : hinv h regs -> hinv (h_set_flags h o r) regs.
Proof.
  unfold hinv. cbn [h_set_flags h_lgk h_ty h_bytes h_numat]. intros (Hlo & Hhi & H64 & Hm).
  repeat (split; [assumption|]). destruct (h_ty h).
  - destruct Hm as [Hi Hp]. split; [now apply inv4_flags|exact Hp].
  - exact Hm.
  - exact Hm.
Qed.

(* ---------- estimator inputs are functions of the registers, whatever the register width ---------- *)
Definition est_zeros (h : hllarr) : N := if h_curmin h =? 0 then h_numat h else 0.

Lemma count_eq_none x regs : (forall s, s < lenN regs -> getN regs s <> x) -> count_eq x regs = 0.
Proof.
  intros H. unfold count_eq. rewrite filter_none; [reflexivity|]. intros y Hy.
  destruct (In_getN _ _ Hy) as (i & Hi & E). apply N.eqb_neq. intros C. apply (H i Hi). congruence.
Qed.

Lemma hinv_est h regs : hinv h regs ->
  h_kxq0 h = kxq0_of regs /\ h_kxq1 h = kxq1_of regs /\ est_zeros h = count_eq 0 regs.
Proof.
  intros (Hlo & Hhi & H64 & Hm). unfold est_zeros. destruct (h_ty h).
  - destruct Hm as [[Hi Hn] Hp]. destruct (i4_est _ _ Hi) as [E0 E1]. repeat split; auto.
    destruct (N.eqb_spec (h_curmin h) 0) as [E|E]; [now rewrite Hn, E|].
    symmetry. apply count_eq_none. intros s Hs. rewrite (i4_len _ _ Hi) in Hs.
    destruct (i4_ge _ _ Hi s Hs). lia.
  - destruct Hm as (_ & _ & _ & _ & [E0 E1] & Ec & En & _). rewrite Ec. repeat split; auto.
  - destruct Hm as (_ & _ & [E0 E1] & Ec & En & _). rewrite Ec. repeat split; auto.
Qed.

(* HLL_4: cur_min is the smallest register and num_at_cur_min counts the registers holding it *)
Lemma hinv_curmin4 h regs : hinv h regs -> h_ty h = T4 ->
  (forall s, s < 2 ^ h_lgk h -> h_curmin h <= getN regs s) /\ (exists s, s < 2 ^ h_lgk h /\ getN regs s = h_curmin h) /\
  h_numat h = count_eq (h_curmin h) regs.
Proof.
  intros (_ & _ & _ & Hm) Ety. rewrite Ety in Hm. destruct Hm as [Hi Hp].
  destruct (inv4_min h regs Hi Hp) as [A B]. repeat split; auto. apply Hi.
Qed.

Lemma hinv_curmin68 h regs : hinv h regs -> h_ty h <> T4 -> h_curmin h = 0 /\ h_numat h = count_eq 0 regs /\ h_aux h = None.
Proof.
  intros (_ & _ & _ & Hm) Ety. destruct (h_ty h); [congruence| |].
  - destruct Hm as (_ & _ & _ & _ & _ & Ec & En & Ea). auto.
  - destruct Hm as (_ & _ & _ & Ec & En & Ea). auto.
Qed.

(* ---------- zero coupons are ignored by the specification too ---------- *)
Lemma c_val_0 : c_val 0 = 0.
Proof. reflexivity. Qed.

Lemma slot_max_nonzero lgk C s : slot_max lgk (nonzero C) s = slot_max lgk C s.
Proof.
  induction C as [|x t IH]; [reflexivity|]. cbn [nonzero filter]. fold (nonzero t).
  destruct (N.eqb_spec x 0) as [->|Hx]; cbn [negb].
  - rewrite slot_max_cons, c_val_0, IH. destruct (_ =? _); lia.
  - rewrite !slot_max_cons, IH. reflexivity.
Qed.

Lemma spec_regs_nonzero lgk C : spec_regs lgk (nonzero C) = spec_regs lgk C.
Proof. unfold spec_regs. apply map_ext. intros s. apply slot_max_nonzero. Qed.

Lemma spec_regs_set lgk A B : same_set (nonzero A) (nonzero B) -> spec_regs lgk A = spec_regs lgk B.
Proof. intros H. rewrite <- (spec_regs_nonzero lgk A), <- (spec_regs_nonzero lgk B). now apply spec_regs_same_set. Qed.

Lemma spec_regs_lt64 lgk C : Forall cvalid C -> forall s, getN (spec_regs lgk C) s < 64.
Proof. intros H s. now apply spec_regs_bound. Qed.

Lemma nonzero_snoc C c : nonzero (C ++ [c]) = if c =? 0 then nonzero C else nonzero C ++ [c].
Proof.
  rewrite nonzero_app. cbn [nonzero filter]. destruct (c =? 0); cbn [negb]; [apply app_nil_r|reflexivity].
Qed.

(* ---------- the sketch ---------- *)
Definition mode_of (lgk : N) (full : bool) (n : N) : N :=
  if full then 2 else if n <? 8 then 0 else if lgk <? 8 then 2 else if n <=? 3 * 2 ^ (lgk - 5) then 1 else 2.

Definition sk_mode (i : impl) : N := match i with IList _ => 0 | ISet _ => 1 | IHll _ => 2 end.
Definition ndistinct (C : list N) : N := lenN (sort_distinct (nonzero C)).

Definition skinv (lgk : N) (ty : tgt) (full : bool) (i : impl) (C : list N) : Prop :=
  match i with
  | IList l => full = false /\ l_lgk l = lgk /\ l_ty l = ty /\ listinv l (nonzero C)
  | ISet s => full = false /\ s_lgk s = lgk /\ s_ty s = ty /\ 8 <= lgk /\ 8 <= s_cnt s /\ s_lg s <= lgk - 3 /\ setinv s (nonzero C)
  | IHll h => h_lgk h = lgk /\ h_ty h = ty /\ h_full h = full /\ hinv h (spec_regs lgk C) /\
              (full = true \/ mode_of lgk false (ndistinct C) = 2)
  end.

Lemma ndistinct_of_NoDup D C : NoDup D -> (forall x, In x D <-> In x (nonzero C)) -> ndistinct C = lenN D.
Proof. intros Hn H. unfold ndistinct. symmetry. now apply sort_distinct_length_NoDup. Qed.

Lemma pow2_split lgk : 8 <= lgk -> 2 ^ (lgk - 3) = 4 * 2 ^ (lgk - 5).
Proof. intros H. replace (lgk - 3) with (2 + (lgk - 5)) by lia. now rewrite N.pow_add_r. Qed.

Lemma skinv_mode lgk ty full i C : skinv lgk ty full i C -> sk_mode i = mode_of lgk full (ndistinct C).
Proof.
  destruct i as [l|s|h]; cbn [skinv sk_mode].
  - intros (-> & _ & _ & Hl). destruct (listinv_nonzero _ _ Hl) as (Hnd & Hset & Hc & Hlt).
    rewrite (ndistinct_of_NoDup _ C Hnd Hset), <- Hc. unfold mode_of.
    replace (l_cnt l <? 8) with true by (symmetry; apply N.ltb_lt; lia). reflexivity.
  - intros (-> & _ & _ & Hk & H8 & Hlg & Hs).
    rewrite (ndistinct_of_NoDup _ C (si_nodup _ _ Hs) (si_set _ _ Hs)), <- (si_cnt _ _ Hs). unfold mode_of.
    replace (s_cnt s <? 8) with false by (symmetry; apply N.ltb_ge; lia).
    replace (lgk <? 8) with false by (symmetry; apply N.ltb_ge; lia).
    pose proof (si_load _ _ Hs) as Hld.
    assert (2 ^ s_lg s <= 2 ^ (lgk - 3)) by (apply N.pow_le_mono_r; lia).
    rewrite (pow2_split lgk Hk) in *.
    replace (s_cnt s <=? 3 * 2 ^ (lgk - 5)) with true by (symmetry; apply N.leb_le; lia). reflexivity.
  - intros (_ & _ & <- & _ & [->|Hm]); [reflexivity|]. destruct (h_full h); [reflexivity|now rewrite Hm].
Qed.

Lemma mode_of_mono lgk n n' : n <= n' -> mode_of lgk false n = 2 -> mode_of lgk false n' = 2.
Proof.
  unfold mode_of. intros Hle.
  destruct (N.ltb_spec n 8), (N.ltb_spec n' 8), (N.ltb_spec lgk 8),
    (N.leb_spec n (3 * 2 ^ (lgk - 5))), (N.leb_spec n' (3 * 2 ^ (lgk - 5))); try discriminate; auto; lia.
Qed.

Lemma ndistinct_mono C c : ndistinct C <= ndistinct (C ++ [c]).
Proof.
  unfold ndistinct. apply sort_distinct_length_mono. rewrite nonzero_app. intros x Hx. apply in_or_app. now left.
Qed.

Lemma skinv_new lgk ty full : 4 <= lgk -> lgk <= 21 -> skinv lgk ty full (sk_new lgk ty full) [].
Proof.
  intros Hlo Hhi. unfold sk_new. destruct full; cbn [skinv].
  - cbn [hll_new h_lgk h_ty h_full]. do 3 (split; [reflexivity|]). split; [|now left].
    replace (spec_regs lgk []) with (zerosN (2 ^ lgk)) by (rewrite <- fold_reg_max_spec; reflexivity).
    now apply hinv_new.
  - cbn [list_new l_lgk l_ty]. do 3 (split; [reflexivity|]). apply listinv_new.
Qed.

(* promotion by replaying the coupons into a fresh array *)
Lemma promote_to_hll_spec lgk ty D C : 4 <= lgk -> lgk <= 21 -> Forall cvalid D ->
  (forall x, In x D <-> In x (nonzero C)) -> mode_of lgk false (ndistinct C) = 2 ->
  exists h, promote_to_hll lgk ty D = Some (IHll h) /\ skinv lgk ty false (IHll h) C.
Proof.
  intros Hlo Hhi Hv Hset Hmode. unfold promote_to_hll.
  destruct (hinv_fold D (hll_new lgk ty false) _ (hinv_new lgk ty false Hlo Hhi) Hv) as (h & Hf & Hi & Hcfg).
  rewrite Hf. eexists. split; [reflexivity|]. cbn [skinv h_set_flags h_lgk h_ty h_full].
  destruct Hcfg as (E1 & E2 & E3 & _). cbn [hll_new h_lgk h_ty h_full] in *.
  split; [exact E1|]. split; [exact E2|]. split; [exact E3|]. split; [|now right].
  apply hinv_flags. rewrite fold_reg_max_spec in Hi.
  replace (spec_regs lgk C) with (spec_regs lgk D); [exact Hi|].
  rewrite <- (spec_regs_nonzero lgk C). apply spec_regs_same_set. exact Hset.
Qed.

Lemma set_fill lgk ty : forall D s D0, setinv s D0 -> s_lgk s = lgk -> s_ty s = ty -> 8 <= lgk -> s_lg s <= lgk - 3 ->
  NoDup D -> (forall x, In x D -> x <> 0 /\ ~ In x D0) -> 4 * (s_cnt s + lenN D) <= 96 ->
  exists s', ofold (fun s c => match set_insert s c with Some (s', _) => Some s' | None => None end) D s = Some s' /\
    setinv s' (rev D ++ D0) /\ s_cnt s' = s_cnt s + lenN D /\ s_lgk s' = lgk /\ s_ty s' = ty /\ s_lg s' <= lgk - 3.
Proof.
  induction D as [|c t IH]; intros s D0 Hs Ek Et Hk Hlg Hnd HD Hcnt; cbn [ofold].
  - exists s. cbn [rev app]. change (lenN []) with 0. rewrite N.add_0_r.
    split; [reflexivity|]. split; [exact Hs|]. auto.
  - inversion Hnd as [|? ? Hnin Hnd']; subst.
    destruct (HD c ltac:(simpl; auto)) as [Hc0 Hcn].
    assert (Hl : lenN (c :: t) = lenN t + 1) by (unfold lenN; cbn [length]; lia). rewrite Hl in *.
    destruct (set_insert_new s D0 c Hs Hc0 Hcn Hlg) as (s1 & b & Hins & E1 & E2 & E3 & E4 & _ & _ & Hb & Hf).
    rewrite Hins. pose proof (pow2_ge32 _ (si_lg _ _ Hs)) as H32.
    destruct b.
    + exfalso. destruct (proj1 Hb eq_refl) as [_ C]. lia.
    + destruct (Hf eq_refl) as [Hs1 Hlg1].
      destruct (IH s1 (c :: D0) Hs1 E1 E2 Hk Hlg1 Hnd') as (s' & Hfold & Hs' & Hc' & Ek' & Et' & Hlg'); [|lia|].
      { intros x Hx. destruct (HD x ltac:(simpl; auto)) as [A B]. split; [exact A|].
        intros [<-|C]; [contradiction|contradiction]. }
      exists s'. split; [exact Hfold|]. cbn [rev]. rewrite <- app_assoc. cbn [app].
      split; [exact Hs'|]. split; [lia|]. auto.
Qed.

Lemma promote_to_set_spec lgk ty D C : 8 <= lgk -> NoDup D -> lenN D = 8 -> (forall x, In x D -> x <> 0) ->
  (forall x, In x D <-> In x (nonzero C)) ->
  exists s, promote_to_set lgk ty D = Some (ISet s) /\ skinv lgk ty false (ISet s) C.
Proof.
  intros Hk Hnd H8 Hnz Hset. unfold promote_to_set.
  destruct (set_fill lgk ty D (set_new lgk ty) [] (setinv_new lgk ty)) as (s & Hf & Hs & Hc & Ek & Et & Hlg); auto.
  { cbn [set_new s_lg]. lia. }
  { cbn [set_new s_cnt]. lia. }
  rewrite Hf. eexists. split; [reflexivity|]. cbn [skinv]. cbn [set_new s_cnt] in Hc.
  split; [reflexivity|]. split; [exact Ek|]. split; [exact Et|]. split; [exact Hk|]. split; [lia|]. split; [exact Hlg|].
  apply (setinv_ext _ _ _ Hs). intros x. rewrite app_nil_r, <- in_rev. apply Hset.
Qed.

Lemma skinv_ext_coupons lgk ty full i C C' : skinv lgk ty full i C -> nonzero C' = nonzero C -> skinv lgk ty full i C'.
Proof.
  intros H E. destruct i as [l|s|h]; cbn [skinv] in *.
  - now rewrite E.
  - now rewrite E.
  - unfold ndistinct in *. rewrite E. rewrite <- (spec_regs_nonzero lgk C'), E, spec_regs_nonzero. exact H.
Qed.

Lemma in_snoc_cons (A B : list N) c : (forall x, In x A <-> In x (c :: B)) -> forall x, In x A <-> In x (B ++ [c]).
Proof. intros H x. rewrite H, in_app_iff. simpl. tauto. Qed.

Lemma Forall_cvalid_sub D C : Forall cvalid C -> (forall x, In x D -> In x C) -> Forall cvalid D.
Proof. intros H Hs. rewrite Forall_forall in *. auto. Qed.

Lemma nonzero_incl C x : In x (nonzero C) -> In x C.
Proof. intros H. apply nonzero_In in H. tauto. Qed.

Lemma sk_update_spec lgk ty full i C c : 4 <= lgk -> lgk <= 21 -> Forall cvalid C -> cvalid c ->
  skinv lgk ty full i C -> exists i', sk_update i c = Some i' /\ skinv lgk ty full i' (C ++ [c]).
Proof.
  intros Hlo Hhi HvC Hvc Hi. unfold sk_update.
  pose proof (nonzero_snoc C c) as Hsn.
  destruct (N.eqb_spec c 0) as [Hc0|Hc0].
  { exists i. split; [reflexivity|]. eapply skinv_ext_coupons; eauto. }
  assert (HvC' : Forall cvalid (C ++ [c])) by (apply Forall_app; auto).
  destruct i as [l|s|h]; cbn [skinv] in Hi.
  - (* LIST *)
    destruct Hi as (-> & Ek & Et & Hl). unfold list_update.
    destruct (in_dec N.eq_dec c (nonzero C)) as [Hin|Hnin].
    + rewrite (list_scan_dup l _ c Hl Hc0 Hin). eexists. split; [reflexivity|]. cbn [skinv].
      split; [reflexivity|]. split; [exact Ek|]. split; [exact Et|]. apply (listinv_ext _ _ _ Hl). intros x. rewrite Hsn, in_app_iff. simpl. intuition. now subst.
    + destruct (list_scan_new l _ c Hl Hc0 Hnin) as (arr' & Hsc & Hla & Hsmall & Hfull). rewrite Hsc, Hla.
      destruct (listinv_nonzero _ _ Hl) as (_ & _ & _ & Hlt).
      destruct (N.eqb_spec (l_cnt l + 1) 8) as [E8|N8].
      * destruct (Hfull E8) as (Hnd & Hlen & Hset).
        assert (Hset' : forall x, In x (nonzero arr') <-> In x (nonzero (C ++ [c]))).
        { rewrite Hsn. now apply in_snoc_cons. }
        assert (Hn8 : ndistinct (C ++ [c]) = 8) by (rewrite (ndistinct_of_NoDup _ _ Hnd Hset'); exact Hlen).
        rewrite Ek. destruct (N.ltb_spec lgk 8) as [Hk|Hk].
        -- destruct (promote_to_hll_spec lgk (l_ty l) (nonzero arr') (C ++ [c])) as (h & Hp & Hs); auto.
           { apply (Forall_cvalid_sub _ _ HvC'). intros x Hx. apply nonzero_incl. now apply Hset'. }
           { rewrite Hn8. unfold mode_of. change (8 <? 8) with false.
             replace (lgk <? 8) with true by (symmetry; apply N.ltb_lt; lia). reflexivity. }
           exists (IHll h). split; [exact Hp|]. now rewrite <- Et.
        -- destruct (promote_to_set_spec lgk (l_ty l) (nonzero arr') (C ++ [c])) as (s & Hp & Hs); auto.
           { intros x Hx. apply nonzero_In in Hx. tauto. }
           exists (ISet s). split; [exact Hp|]. now rewrite <- Et.
      * eexists. split; [reflexivity|]. cbn [skinv l_lgk l_ty].
        split; [reflexivity|]. split; [exact Ek|]. split; [exact Et|].
        apply (listinv_ext _ _ _ (Hsmall ltac:(lia))). intros x. rewrite Hsn, in_app_iff. simpl. tauto.
  - (* SET *)
    destruct Hi as (-> & Ek & Et & Hk & H8 & Hlg & Hs). unfold set_update.
    destruct (in_dec N.eq_dec c (nonzero C)) as [Hin|Hnin].
    + rewrite (set_insert_dup s _ c Hs Hc0 Hin). eexists. split; [reflexivity|]. cbn [skinv].
      split; [reflexivity|]. split; [exact Ek|]. split; [exact Et|]. split; [exact Hk|]. split; [exact H8|]. split; [exact Hlg|].
      apply (setinv_ext _ _ _ Hs). intros x. rewrite Hsn, in_app_iff. simpl. intuition. now subst.
    + destruct (set_insert_new s _ c Hs Hc0 Hnin ltac:(lia)) as (s1 & b & Hins & E1 & E2 & E3 & E4 & Hnd & Hset & Hb & Hf).
      rewrite Hins.
      assert (Hset' : forall x, In x (nonzero (s_arr s1)) <-> In x (nonzero (C ++ [c]))).
      { rewrite Hsn. now apply in_snoc_cons. }
      destruct b.
      * destruct (proj1 Hb eq_refl) as [Elg Hover].
        assert (Hn : ndistinct (C ++ [c]) = s_cnt s + 1).
        { rewrite (ndistinct_of_NoDup _ _ Hnd Hset').
          pose proof (si_cnt _ _ Hs) as Hc. pose proof (si_nodup _ _ Hs) as Hnd0. pose proof (si_set _ _ Hs) as Hset0.
          assert (Hp : Permutation (nonzero (s_arr s1)) (c :: nonzero (s_arr s))).
          { apply NoDup_Permutation; auto.
            - constructor; auto. intros C0. apply Hnin. now apply Hset0.
            - intros x. rewrite Hset. simpl. now rewrite Hset0. }
          rewrite Hc. unfold lenN. rewrite (Permutation_length Hp). cbn [length]. lia. }
        destruct (promote_to_hll_spec lgk (s_ty s1) (nonzero (s_arr s1)) (C ++ [c])) as (h & Hp & Hsk); auto.
        { apply (Forall_cvalid_sub _ _ HvC'). intros x Hx. apply nonzero_incl. now apply Hset'. }
        { rewrite Hn. unfold mode_of. rewrite Elg, Ek, (pow2_split lgk Hk) in Hover.
          replace (s_cnt s + 1 <? 8) with false by (symmetry; apply N.ltb_ge; lia).
          replace (lgk <? 8) with false by (symmetry; apply N.ltb_ge; lia).
          replace (s_cnt s + 1 <=? 3 * 2 ^ (lgk - 5)) with false by (symmetry; apply N.leb_gt; lia). reflexivity. }
        rewrite E1, Ek. exists (IHll h). split; [exact Hp|]. now rewrite <- Et, <- E2.
      * destruct (Hf eq_refl) as [Hs1 Hlg1]. eexists. split; [reflexivity|]. cbn [skinv].
        split; [reflexivity|]. split; [congruence|]. split; [congruence|]. split; [exact Hk|]. split; [lia|].
        split; [rewrite <- Ek; exact Hlg1|].
        apply (setinv_ext _ _ _ Hs1). intros x. rewrite Hsn, in_app_iff. simpl. tauto.
  - (* HLL *)
    destruct Hi as (Ek & Et & Ef & Hh & Hm).
    destruct (hinv_update h _ c Hh Hvc) as (h' & Hu & Hh' & E1 & E2 & E3 & _). rewrite Hu.
    eexists. split; [reflexivity|]. cbn [skinv]. rewrite Ek in Hh'. rewrite spec_regs_snoc in Hh'.
    split; [congruence|]. split; [congruence|]. split; [congruence|]. split; [exact Hh'|].
    destruct Hm as [Hm|Hm]; [now left|right]. eapply mode_of_mono; [apply ndistinct_mono|exact Hm].
Qed.

Lemma sk_updates_spec lgk ty full : 4 <= lgk -> lgk <= 21 -> forall cs i C, Forall cvalid C -> Forall cvalid cs ->
  skinv lgk ty full i C -> exists i', sk_updates i cs = Some i' /\ skinv lgk ty full i' (C ++ cs).
Proof.
  intros Hlo Hhi. unfold sk_updates. induction cs as [|c t IH]; intros i C HC Hcs Hi; cbn [ofold].
  - exists i. rewrite app_nil_r. auto.
  - inversion Hcs as [|? ? Hc Ht]; subst.
    destruct (sk_update_spec lgk ty full i C c Hlo Hhi HC Hc Hi) as (i1 & Hu & Hi1). rewrite Hu.
    destruct (IH i1 (C ++ [c])) as (i' & Hf & Hi'); auto.
    { apply Forall_app; auto. }
    exists i'. split; [exact Hf|]. now rewrite <- app_assoc in Hi'.
Qed.

(* the run of a fresh sketch over any coupon sequence *)
Theorem sk_run_spec lgk ty full cs : 4 <= lgk -> lgk <= 21 -> Forall cvalid cs ->
  exists i, sk_updates (sk_new lgk ty full) cs = Some i /\ skinv lgk ty full i cs.
Proof.
  intros Hlo Hhi Hcs. apply (sk_updates_spec lgk ty full Hlo Hhi cs (sk_new lgk ty full) []); auto.
  now apply skinv_new.
Qed.

(* ---------- logical content ---------- *)
Definition content_spec (lgk : N) (full : bool) (C : list N) : content :=
  if mode_of lgk full (ndistinct C) =? 2 then CRegs (spec_regs lgk C) else CCoupons (sort_distinct (nonzero C)).

Lemma skinv_content lgk ty full i C : skinv lgk ty full i C -> sk_content i = content_spec lgk full C.
Proof.
  intros H. pose proof (skinv_mode _ _ _ _ _ H) as Hm. unfold content_spec. rewrite <- Hm.
  destruct i as [l|s|h]; cbn [skinv sk_content sk_mode] in *.
  - destruct H as (_ & _ & _ & Hl). destruct (listinv_nonzero _ _ Hl) as (_ & Hset & _).
    change (0 =? 2) with false. cbv iota. f_equal. apply sort_distinct_same_set. exact Hset.
  - destruct H as (_ & _ & _ & _ & _ & _ & Hs).
    change (1 =? 2) with false. cbv iota. f_equal. apply sort_distinct_same_set. exact (si_set _ _ Hs).
  - destruct H as (_ & _ & _ & Hh & _). now rewrite (hinv_regs _ _ Hh).
Qed.

Lemma content_spec_set lgk full A B : same_set (nonzero A) (nonzero B) -> content_spec lgk full A = content_spec lgk full B.
Proof.
  intros H. unfold content_spec, ndistinct.
  rewrite (sort_distinct_same_set _ _ H), (spec_regs_set lgk A B H). reflexivity.
Qed.

(* ---------- type conversion ---------- *)
Lemma inv68_set_numat h regs n : inv68 h regs -> n = count_eq 0 regs -> inv68 (h_set_numat h n) regs.
Proof. intros (A & B & C & D & E) ->. repeat split; auto; apply B. Qed.

Lemma hll_convert_spec ty' h regs : hinv h regs ->
  exists h', hll_convert ty' h = Some h' /\ hinv h' regs /\ h_lgk h' = h_lgk h /\ h_ty h' = ty' /\ h_full h' = h_full h /\
             h_ooo h' = h_ooo h /\ h_rebuild h' = false.
Proof.
  intros Hi. pose proof Hi as (Hlo & Hhi & H64 & _). pose proof (hinv_len _ _ Hi) as Hlen.
  unfold hll_convert, hll_coupons. rewrite (hinv_regs _ _ Hi).
  set (cs := coupons_from 0 regs).
  set (h0 := h_set_flags (hll_new (h_lgk h) ty' (h_full h)) (h_ooo h) false).
  assert (Hi0 : hinv h0 (zerosN (2 ^ h_lgk h))) by (apply hinv_flags, hinv_new; auto).
  destruct (hinv_fold cs h0 _ Hi0 (coupons_from_cvalid regs 0 H64)) as (h1 & Hf & Hi1 & E1 & E2 & E3 & E4 & E5).
  rewrite Hf. change (h_lgk h0) with (h_lgk h) in *. change (h_ty h0) with ty' in *.
  change (h_full h0) with (h_full h) in *. change (h_ooo h0) with (h_ooo h) in *. change (h_rebuild h0) with false in *.
  rewrite fold_reg_max_spec in Hi1. subst cs. rewrite coupons_from_spec in Hi1 by (auto; lia).
  pose proof (coupons_from_length regs) as Hcl.
  destruct ty'.
  - exists h1. split; [reflexivity|]. split; [exact Hi1|]. repeat split; assumption.
  - eexists. split; [reflexivity|]. cbn [h_set_numat h_with_data h_lgk h_ty h_full h_ooo h_rebuild].
    split; [|repeat split; assumption].
    destruct Hi1 as (A & B & C & D). unfold hinv. cbn [h_set_numat h_with_data h_lgk h_ty h_bytes h_numat].
    rewrite E2 in *. destruct D as (D1 & D2 & D3 & D4).
    split; [exact A|]. split; [exact B|]. split; [exact C|]. split; [exact D1|]. split; [exact D2|]. split; [exact D3|].
    apply inv68_set_numat; [exact D4|]. lia.
  - eexists. split; [reflexivity|]. cbn [h_set_numat h_with_data h_lgk h_ty h_full h_ooo h_rebuild].
    split; [|repeat split; assumption].
    destruct Hi1 as (A & B & C & D). unfold hinv. cbn [h_set_numat h_with_data h_lgk h_ty h_bytes h_numat].
    rewrite E2 in *. destruct D as (D1 & D4).
    split; [exact A|]. split; [exact B|]. split; [exact C|]. split; [exact D1|].
    apply inv68_set_numat; [exact D4|]. lia.
Qed.

Lemma tgt_eqb_eq a b : tgt_eqb a b = true -> a = b.
Proof. destruct a, b; simpl; congruence. Qed.

Lemma sk_copy_as_spec lgk ty full ty' i C : skinv lgk ty full i C ->
  exists i', sk_copy_as ty' i = Some i' /\ skinv lgk ty' full i' C.
Proof.
  destruct i as [l|s|h]; cbn [skinv sk_copy_as].
  - intros (A & B & _ & D). eexists. split; [reflexivity|]. cbn [skinv l_lgk l_ty].
    split; [exact A|]. split; [exact B|]. split; [reflexivity|].
    destruct D as (E & H). exists E. exact H.
  - intros (A & B & _ & D & E & F & G). eexists. split; [reflexivity|]. cbn [skinv s_lgk s_ty s_cnt s_lg].
    split; [exact A|]. split; [exact B|]. split; [reflexivity|]. split; [exact D|]. split; [exact E|]. split; [exact F|].
    destruct G; constructor; auto.
  - intros (A & B & Cc & D & E). unfold hll_copy_as.
    destruct (tgt_eqb ty' (h_ty h) && negb (h_rebuild h)) eqn:Eb.
    + apply andb_true_iff in Eb. destruct Eb as [Eb _]. apply tgt_eqb_eq in Eb. subst ty'.
      eexists. split; [reflexivity|]. cbn [skinv]. rewrite B. auto.
    + destruct (hll_convert_spec ty' h _ D) as (h' & Hc & Hi' & E1 & E2 & E3 & _). rewrite Hc.
      eexists. split; [reflexivity|]. cbn [skinv]. subst lgk.
      split; [exact E1|]. split; [exact E2|]. split; [congruence|]. split; [exact Hi'|exact E].
Qed.

(* ---------- statements used by Properties_C03.v ---------- *)
Definition sk_run (ty : tgt) (lgk : N) (full : bool) (cs : list N) : option impl := sk_updates (sk_new lgk ty full) cs.

Theorem sk_run_content ty lgk full cs : 4 <= lgk -> lgk <= 21 -> Forall cvalid cs ->
  exists i, sk_run ty lgk full cs = Some i /\ sk_content i = content_spec lgk full cs /\
            sk_mode i = mode_of lgk full (ndistinct cs) /\ sk_lgk i = lgk /\ sk_ty i = ty.
Proof.
  intros Hlo Hhi Hv. destruct (sk_run_spec lgk ty full cs Hlo Hhi Hv) as (i & Hr & Hi). exists i.
  split; [exact Hr|]. split; [now apply (skinv_content lgk ty full)|]. split; [now apply (skinv_mode lgk ty full)|].
  destruct i as [l|s|h]; cbn [skinv sk_lgk sk_ty] in *; intuition.
Qed.

Theorem sk_run_set_independent ty1 ty2 lgk full cs1 cs2 : 4 <= lgk -> lgk <= 21 -> Forall cvalid cs1 -> Forall cvalid cs2 ->
  same_set (nonzero cs1) (nonzero cs2) ->
  exists i1 i2, sk_run ty1 lgk full cs1 = Some i1 /\ sk_run ty2 lgk full cs2 = Some i2 /\
                sk_content i1 = sk_content i2 /\ sk_mode i1 = sk_mode i2.
Proof.
  intros Hlo Hhi Hv1 Hv2 Hs.
  destruct (sk_run_content ty1 lgk full cs1 Hlo Hhi Hv1) as (i1 & R1 & C1 & M1 & _).
  destruct (sk_run_content ty2 lgk full cs2 Hlo Hhi Hv2) as (i2 & R2 & C2 & M2 & _).
  exists i1, i2. split; [exact R1|]. split; [exact R2|].
  rewrite C1, C2, M1, M2. split; [now apply content_spec_set|].
  unfold ndistinct. now rewrite (sort_distinct_same_set _ _ Hs).
Qed.

Theorem sk_run_full_size_agrees ty1 ty2 lgk cs : 4 <= lgk -> lgk <= 21 -> Forall cvalid cs ->
  mode_of lgk false (ndistinct cs) = 2 ->
  exists i1 i2, sk_run ty1 lgk true cs = Some i1 /\ sk_run ty2 lgk false cs = Some i2 /\
                sk_content i1 = CRegs (spec_regs lgk cs) /\ sk_content i2 = CRegs (spec_regs lgk cs).
Proof.
  intros Hlo Hhi Hv Hm.
  destruct (sk_run_content ty1 lgk true cs Hlo Hhi Hv) as (i1 & R1 & C1 & _).
  destruct (sk_run_content ty2 lgk false cs Hlo Hhi Hv) as (i2 & R2 & C2 & _).
  exists i1, i2. split; [exact R1|]. split; [exact R2|]. rewrite C1, C2. unfold content_spec. rewrite Hm.
  split; reflexivity.
Qed.

(* converting a copy to another type keeps the content, and the copy then behaves like a sketch of the new type *)
Theorem sk_copy_as_content ty ty' lgk full cs cs2 : 4 <= lgk -> lgk <= 21 -> Forall cvalid cs -> Forall cvalid cs2 ->
  exists i i' i'', sk_run ty lgk full cs = Some i /\ sk_copy_as ty' i = Some i' /\
    sk_content i' = sk_content i /\ sk_mode i' = sk_mode i /\ sk_ty i' = ty' /\ sk_lgk i' = lgk /\
    sk_updates i' cs2 = Some i'' /\ sk_content i'' = content_spec lgk full (cs ++ cs2) /\
    sk_mode i'' = mode_of lgk full (ndistinct (cs ++ cs2)).
Proof.
  intros Hlo Hhi Hv Hv2. destruct (sk_run_spec lgk ty full cs Hlo Hhi Hv) as (i & Hr & Hi).
  destruct (sk_copy_as_spec lgk ty full ty' i cs Hi) as (i' & Hc & Hi').
  destruct (sk_updates_spec lgk ty' full Hlo Hhi cs2 i' cs Hv Hv2 Hi') as (i'' & Hu & Hi'').
  exists i, i', i''. split; [exact Hr|]. split; [exact Hc|].
  rewrite (skinv_content _ _ _ _ _ Hi'), (skinv_content _ _ _ _ _ Hi), (skinv_mode _ _ _ _ _ Hi'), (skinv_mode _ _ _ _ _ Hi).
  split; [reflexivity|]. split; [reflexivity|].
  split; [destruct i' as [l|s|h]; cbn [skinv sk_ty] in *; intuition|].
  split; [destruct i' as [l|s|h]; cbn [skinv sk_lgk] in *; intuition|].
  split; [exact Hu|]. split; [now apply (skinv_content lgk ty' full)|now apply (skinv_mode lgk ty' full)].
Qed.

(* HLL mode: registers, estimator inputs, HLL_4 bookkeeping, as functions of the coupon set only *)
Theorem sk_run_hll ty lgk full cs i : 4 <= lgk -> lgk <= 21 -> Forall cvalid cs -> sk_run ty lgk full cs = Some i ->
  mode_of lgk full (ndistinct cs) = 2 ->
  exists h, i = IHll h /\ hll_regs h = Some (spec_regs lgk cs) /\
    h_kxq0 h = kxq0_of (spec_regs lgk cs) /\ h_kxq1 h = kxq1_of (spec_regs lgk cs) /\
    est_zeros h = count_eq 0 (spec_regs lgk cs) /\
    (ty <> T4 -> h_curmin h = 0 /\ h_numat h = count_eq 0 (spec_regs lgk cs) /\ h_aux h = None) /\
    (ty = T4 -> (forall s, s < 2 ^ lgk -> h_curmin h <= getN (spec_regs lgk cs) s) /\
                (exists s, s < 2 ^ lgk /\ getN (spec_regs lgk cs) s = h_curmin h) /\
                h_numat h = count_eq (h_curmin h) (spec_regs lgk cs) /\
                arep lgk (h_aux h) (exc lgk (h_curmin h) (spec_regs lgk cs))).
Proof.
  intros Hlo Hhi Hv Hr Hm. destruct (sk_run_spec lgk ty full cs Hlo Hhi Hv) as (i0 & Hr0 & Hi).
  unfold sk_run in Hr. rewrite Hr in Hr0. inversion Hr0; subst i0.
  pose proof (skinv_mode _ _ _ _ _ Hi) as Hmode. rewrite Hm in Hmode.
  destruct i as [l|s|h]; try discriminate. exists h. split; [reflexivity|].
  cbn [skinv] in Hi. destruct Hi as (Ek & Et & Ef & Hh & _).
  destruct (hinv_est _ _ Hh) as (K0 & K1 & Z).
  split; [now apply hinv_regs|]. split; [exact K0|]. split; [exact K1|]. split; [exact Z|]. split.
  - intros Hne. apply hinv_curmin68; congruence.
  - intros ->. destruct (hinv_curmin4 _ _ Hh Et) as (A & B & Cc). rewrite Ek in *.
    split; [exact A|]. split; [exact B|]. split; [exact Cc|].
    destruct Hh as (_ & _ & _ & Hm4). rewrite Et in Hm4. destruct Hm4 as [[Hi4 _] _].
    pose proof (i4_aux _ _ Hi4) as Ha. now rewrite Ek in Ha.
Qed.

(* ---------- is_empty ---------- *)
Lemma filter_len_le {A} (p : A -> bool) l : (length (filter p l) <= length l)%nat.
Proof. induction l as [|a t IH]; cbn [filter length]; [lia|]. destruct (p a); cbn [length]; lia. Qed.

Lemma filter_len_all {A} (p : A -> bool) l : length (filter p l) = length l <-> (forall y, In y l -> p y = true).
Proof.
  induction l as [|a t IH]; cbn [filter length].
  - split; [intros _ y []|reflexivity].
  - pose proof (filter_len_le p t) as Hle. destruct (p a) eqn:Ea; cbn [length].
    + split.
      * intros H y [<-|Hy]; [exact Ea|]. apply IH; [lia|exact Hy].
      * intros H. f_equal. apply IH. intros y Hy. apply H. simpl; auto.
    + split; [lia|]. intros H. rewrite (H a) in Ea by (simpl; auto). discriminate.
Qed.

Lemma count_eq_all x regs : count_eq x regs = lenN regs <-> (forall s, s < lenN regs -> getN regs s = x).
Proof.
  unfold count_eq. split.
  - intros H s Hs. assert (Hl : length (filter (N.eqb x) regs) = length regs) by (unfold lenN in H; lia).
    pose proof (proj1 (filter_len_all _ _) Hl (getN regs s) (getN_In _ _ Hs)) as E. apply N.eqb_eq in E. now symmetry.
  - intros H. unfold lenN. f_equal. apply filter_len_all. intros y Hy.
    destruct (In_getN _ _ Hy) as (i & Hi & <-). apply N.eqb_eq. symmetry. now apply H.
Qed.

Lemma spec_regs_all_zero lgk C : (forall s, s < 2 ^ lgk -> getN (spec_regs lgk C) s = 0) <-> (forall c, In c C -> c_val c = 0).
Proof.
  split.
  - intros H c Hc. pose proof (c_slot_lt lgk c) as Hs. specialize (H _ Hs). rewrite getN_spec_regs in H by exact Hs.
    pose proof (slot_max_ub lgk C _ c Hc eq_refl). lia.
  - intros H s Hs. rewrite getN_spec_regs by exact Hs.
    destruct (slot_max_attained lgk C s) as [E|(c & Hc & _ & E)]; [exact E|]. rewrite <- E. now apply H.
Qed.

Definition valued (cs : list N) : Prop := Forall (fun c => c = 0 \/ 1 <= c_val c) cs.

Lemma valued_zero_vals C : valued C -> ((forall c, In c C -> c_val c = 0) <-> nonzero C = []).
Proof.
  intros Hv. unfold valued in Hv. rewrite Forall_forall in Hv. split.
  - intros H. unfold nonzero. apply filter_none. intros c Hc. destruct (Hv c Hc) as [->|H1]; [reflexivity|].
    specialize (H c Hc). lia.
  - intros H c Hc. destruct (N.eq_dec c 0) as [->|Hne]; [reflexivity|].
    assert (Hin : In c (nonzero C)) by (apply nonzero_In; auto). rewrite H in Hin. destruct Hin.
Qed.

Lemma same_members_nil (A B : list N) : (forall x, In x A <-> In x B) -> (A = [] <-> B = []).
Proof.
  intros H. split; intros E; subst.
  - destruct B as [|b t]; [reflexivity|]. destruct (proj2 (H b) (or_introl eq_refl)).
  - destruct A as [|a t]; [reflexivity|]. destruct (proj1 (H a) (or_introl eq_refl)).
Qed.

Lemma lenN_zero_nil (l : list N) : lenN l = 0 <-> l = [].
Proof. unfold lenN. destruct l; cbn [length]; split; intros; try reflexivity; try discriminate; lia. Qed.

Theorem sk_is_empty_spec ty lgk full cs i : 4 <= lgk -> lgk <= 21 -> Forall cvalid cs -> valued cs ->
  sk_run ty lgk full cs = Some i -> (sk_is_empty i = true <-> nonzero cs = []).
Proof.
  intros Hlo Hhi Hv Hval Hr. destruct (sk_run_spec lgk ty full cs Hlo Hhi Hv) as (i0 & Hr0 & Hi).
  unfold sk_run in Hr. rewrite Hr in Hr0. inversion Hr0; subst i0. clear Hr0.
  destruct i as [l|s|h]; cbn [skinv sk_is_empty] in *.
  - destruct Hi as (_ & _ & _ & Hl). destruct (listinv_nonzero _ _ Hl) as (_ & Hset & Hc & _).
    rewrite N.eqb_eq, Hc, lenN_zero_nil. now apply same_members_nil.
  - destruct Hi as (_ & _ & _ & _ & H8 & _ & Hs). split.
    + intros E. apply N.eqb_eq in E. lia.
    + intros E. pose proof (proj2 (same_members_nil _ _ (si_set _ _ Hs)) E) as En.
      rewrite (si_cnt _ _ Hs), En in H8. unfold lenN in H8. cbn [length] in H8. lia.
  - destruct Hi as (Ek & _ & _ & Hh & _). destruct (hinv_est _ _ Hh) as (_ & _ & Z). unfold est_zeros in Z.
    pose proof (hinv_len _ _ Hh) as Hlen. rewrite Ek in *. pose proof (pow2_pos lgk) as Hpos.
    assert (Hz : count_eq 0 (spec_regs lgk cs) = 2 ^ lgk <-> nonzero cs = []).
    { rewrite <- (valued_zero_vals cs Hval), <- (spec_regs_all_zero lgk cs), <- Hlen. apply count_eq_all. }
    rewrite <- Hz. rewrite andb_true_iff, !N.eqb_eq. split.
    + intros [E1 E2]. rewrite E1 in Z. change (0 =? 0) with true in Z. cbv iota in Z. lia.
    + intros E. destruct (N.eqb_spec (h_curmin h) 0) as [E0|E0]; [split; [exact E0|lia]|lia].
Qed.
