(* VarOptTotal.v — totality of var_opt_union::get_result in the exact-arithmetic (Q) instance: for every union history no
   throwing branch of get_result is reachable (the consistency check of the mark-moving coercer holds, decrease_k_by_1 is
   never asked to go below k = 1, the migrate loop terminates). *)
From Coq Require Import ZArith List Bool QArith Lia Lra Psatz Permutation.
From DS Require Import RunnerLib VarOptDefs VarOptProofs VarOptTheorems VarOptUnion VarOptMarks.
Import ListNotations.

Section QT.
  Variable Item : Type.
  Variable ditem : Item.
  Variable cu : Z -> Q.

  Notation vo := (vo Item Q).
  Notation vu := (vu Item Q).
  Notation slot := (slot Item Q).
  Notation sumw := (sumw Item).
  Notation wpos := (wpos Item).
  Notation pairs_of := (pairs_of Item).
  Notation Rest := (Rest Item ditem).
  Notation Est := (Est Item ditem).
  Notation Warm := (Warm Item).
  Notation provR := (provR Item).
  Notation Inv := (Inv Item ditem).
  Notation UInv := (UInv Item ditem).
  Notation G := (G Item ditem).
  Notation mk_ok := (mk_ok Item).
  Notation cntm := (cntm Item).
  Notation Qdecrease_k := (Qdecrease_k Item ditem cu).
  Notation Qdec_loop := (Qdec_loop Item ditem cu).
  Notation Qmigrate := (Qmigrate Item ditem cu).
  Notation Qresult_gen := (Qresult_gen Item ditem cu).
  Notation Qunion_update := (Qunion_update Item ditem cu).
  Notation kept := (kept Item).

  (* ---------------- decrease_k_by_1 returns ---------------- *)
  Lemma Est_Rest_of_G (s : vo) : G s -> Est s -> Rest s.
  Proof.
    intros (HM & Hmb & Hpos & _) HE. split; [exact HM|]. split; [exact Hmb|]. split; [exact Hpos|].
    split; [destruct HE as (Hr & Hs & _); lia|now right].
  Qed.

  (* exact mode, exactly full: the transition to estimation mode *)
  Lemma dec_exists_warm_full (s : vo) c : G s -> vR s = [] -> hh s = vk s -> (2 <= vk s)%nat ->
    exists s' c', Qdecrease_k s c = Some (s', c') /\ Rest s' /\ Est s' /\ (forall y, kept s y -> kept s' y).
  Proof.
    intros (HM & Hmb & Hpos & Hmode) HR0 Hh Hk. unfold VarOptUnion.Qdecrease_k, decrease_k_by_1.
    assert (Hr : rr s = 0%nat) by (unfold rr; now rewrite HR0).
    destruct Hmode as [(_ & Ht & _ & Hn)|(Hr1 & _)]; [|lia].
    destruct (Nat.leb_spec (vk s) 1); [lia|].
    destruct (Nat.eqb_spec (hh s) 0); [lia|]. rewrite Hr. cbn [andb Nat.eqb].
    replace (0 <? hh s)%nat with true by (symmetry; apply Nat.ltb_lt; lia). cbn [andb].
    set (s1 := set_k Item Q s (vk s - 1)).
    replace (vk s1 <? hh s1)%nat with true by (symmetry; apply Nat.ltb_lt; change (vk s1) with (vk s - 1)%nat; change (hh s1) with (hh s); lia).
    destruct (transition_spec Item ditem cu s1 c (pairs_of (vH s1)) HM Hmb HR0
                ltac:(change (vk s1) with (vk s - 1)%nat; lia)
                ltac:(change (vk s1) with (vk s - 1)%nat; change (hh s1) with (hh s); lia) Hpos
                ltac:(change (vk s1) with (vk s - 1)%nat; change (vn s1) with (vn s); lia)
                (Permutation_refl _))
      as (s2 & c2 & E2 & HR2 & HE2 & _ & _ & _ & _ & _ & Hsl).
    exists s2, c2. split; [exact E2|]. split; [exact HR2|]. split; [exact HE2|].
    intros y [Hy|(Hr1 & _)]; [apply Hsl; exact Hy|lia].
  Qed.

  (* estimation mode with at least one heavy item: pull the last H item, re-insert it with k - 1 *)
  Lemma dec_exists_est (s : vo) c : Rest s -> Est s -> (1 <= hh s)%nat ->
    exists s' c', Qdecrease_k s c = Some (s', c') /\ Rest s' /\ Est s' /\ (forall y, kept s y -> kept s' y).
  Proof.
    intros (HM & Hmb & Hpos & Hk1 & _) (Hr & Hhr & Htot & Hhp & HH & Hn) Hh.
    unfold VarOptUnion.Qdecrease_k, decrease_k_by_1.
    destruct (Nat.leb_spec (vk s) 1); [lia|].
    destruct (Nat.eqb_spec (hh s) 0); [lia|]. destruct (Nat.eqb_spec (rr s) 0); [lia|]. cbn [andb].
    replace (0 <? hh s)%nat with true by (symmetry; apply Nat.ltb_lt; lia).
    replace (0 <? rr s)%nat with true by (symmetry; apply Nat.ltb_lt; lia). cbn [andb].
    replace (hh s + 1 + rr s - 1 =? vk s)%nat with true by (symmetry; apply Nat.eqb_eq; lia). cbn [negb].
    assert (HneH : vH s <> []) by (unfold hh in Hh; destruct (vH s); [cbn in Hh; lia|congruence]).
    assert (HneR : vR s <> []) by (unfold rr in Hr; destruct (vR s); [cbn in Hr; lia|congruence]).
    set (pulled := last (vH s) (dslot Item ditem Q 0)).
    set (s1 := mkvo Item Q (vk s - 1) (vn s - 1) (removelast (vH s)) (vM s) (vmb s)
                    (last (vR s) ditem :: removelast (vR s)) (vtot s) (vgad s)
                    (if s_mark pulled then Nat.pred (vmarks s) else vmarks s)).
    assert (Hpin : In pulled (vH s)).
    { subst pulled. rewrite (app_removelast_last (dslot Item ditem Q 0) HneH) at 2. apply in_or_app. right. now left. }
    assert (Hpw : 0 < s_wt pulled).
    { unfold VarOptProofs.wpos in Hpos. rewrite Forall_forall in Hpos. now apply Hpos. }
    assert (Hpos1 : wpos (removelast (vH s))).
    { unfold VarOptProofs.wpos in *. rewrite Forall_forall in *. intros y Hy. apply Hpos. now apply in_removelast. }
    assert (Hrr1 : rr s1 = rr s).
    { unfold rr. subst s1. cbn [vR length]. rewrite removelast_length. unfold rr in Hr. lia. }
    assert (Hhh1 : hh s1 = (hh s - 1)%nat).
    { unfold hh. subst s1. cbn [vH]. rewrite removelast_length. lia. }
    assert (HE1 : Est s1).
    { unfold VarOptProofs.Est. rewrite Hrr1, Hhh1. change (vk s1) with (vk s - 1)%nat. change (vn s1) with (vn s - 1)%Z.
      change (vtot s1) with (vtot s). change (vH s1) with (removelast (vH s)).
      split; [lia|]. split; [lia|]. split; [exact Htot|]. split; [now apply hp_removelast|].
      split; [intros y Hy; apply HH; now apply in_removelast|lia]. }
    assert (HR1 : Rest s1).
    { split; [exact HM|]. split; [exact Hmb|]. split; [exact Hpos1|]. split; [change (vk s1) with (vk s - 1)%nat; lia|]. now right. }
    destruct (provR_trivial Item ditem s1 HR1) as (inp & HP1 & _).
    unfold update_inner, Qbad. rewrite (Qltb_ge (s_wt pulled) 0) by lra.
    destruct (Qeq_bool (s_wt pulled) 0) eqn:E0; [apply Qeq_bool_iff in E0; lra|].
    destruct (update_body_spec Item ditem cu s1 (s_item pulled) (s_wt pulled) (s_mark pulled) c inp HR1 HP1 Hpw)
      as (s2 & c2 & E2 & HR2 & _ & _ & _ & _ & _ & Hest2 & Hsl2).
    exists s2, c2. fold pulled. fold s1. rewrite E2. split; [reflexivity|]. split; [exact HR2|].
    destruct (Hest2 HE1) as [HE2 T2]. split; [exact HE2|].
    intros y [Hy|(Hry & Hby)].
    - apply Hsl2. rewrite (app_removelast_last (dslot Item ditem Q 0) HneH) in Hy. apply in_app_or in Hy.
      destruct Hy as [Hy|[<-|[]]]; [left; exact Hy|right]. fold pulled. symmetry. apply (slot_eta Item).
    - right. destruct HE2 as (Hr2 & _). split; [exact Hr2|].
      change (vtot s1) with (vtot s) in T2. rewrite Hrr1 in T2.
      apply (tau_trans (s_wt y) (vtot s) (vtot s2) (qn (rr s)) (qn (rr s2))); [apply qn_pos; lia|apply qn_nonneg|exact Hby|exact T2].
  Qed.

  Lemma cntm_pos_hh (s : vo) : (0 < cntm (vH s))%nat -> (1 <= hh s)%nat.
  Proof. unfold VarOptMarks.cntm, hh. destruct (vH s); cbn; [lia|lia]. Qed.

  (* the loop of migrate_marked_items_by_decreasing_k terminates with a result *)
  Lemma dec_loop_total : forall fuel (s : vo) c, (vk s <= fuel)%nat -> Rest s -> Est s -> mk_ok s -> vgad s = true ->
    exists s' c', Qdec_loop fuel s c = Some (s', c') /\ (forall y, kept s y -> kept s' y).
  Proof.
    induction fuel as [|f IH]; intros s c Hf HR HE Hok Hg.
    - destruct HR as (_ & _ & _ & Hk1 & _). lia.
    - unfold VarOptUnion.Qdec_loop. cbn [dec_loop]. destruct (Nat.eqb_spec (vmarks s) 0) as [Ez|Ez]; [eexists _, _; split; [reflexivity|auto]|].
      fold (VarOptUnion.Qdecrease_k Item ditem cu).
      assert (Hh : (1 <= hh s)%nat) by (apply cntm_pos_hh; rewrite <- (Hok Hg); lia).
      destruct (dec_exists_est s c HR HE Hh) as (s1 & c1 & E1 & HR1 & HE1 & Hk1). rewrite E1.
      pose proof (Rest_Est_G Item ditem s HR HE) as HG.
      destruct (dec_spec Item ditem cu s c s1 c1 HG E1) as (_ & _ & _ & Ek1 & _ & Eg1 & _).
      pose proof (dec_keeps Item ditem cu s c s1 c1 ltac:(apply HR) E1) as (_ & M1 & _).
      fold (VarOptUnion.Qdec_loop Item ditem cu f s1 c1).
      destruct (IH s1 c1 ltac:(lia) HR1 HE1 (M1 Hok) ltac:(congruence)) as (s' & c' & E' & Hk').
      exists s', c'. split; [exact E'|]. intros y Hy. apply Hk', Hk1, Hy.
  Qed.

  Lemma Est_tau_pos (s : vo) : Est s -> Qeq_bool (get_tau Item Q Qdiv inject_Z s) 0 = false.
  Proof.
    intros (Hr & _ & Htot & _). destruct (Qeq_bool _ 0) eqn:E; [|reflexivity]. apply Qeq_bool_iff in E.
    unfold get_tau, ofN in E. fold (qn (rr s)) in E. pose proof (qn_pos (rr s) ltac:(lia)) as Hq.
    assert (0 < vtot s / qn (rr s)) by (apply Qlt_shift_div_l; lra). lra.
  Qed.

  (* migrate_marked_items_by_decreasing_k returns, unless the gadget is a single marked item in exact mode (a case get_result
     never hands to it: see get_result_total) *)
  Lemma migrate_total (g0 : vo) c : G g0 -> mk_ok g0 -> vgad g0 = true -> vmarks g0 <> 0%nat ->
    ~ (vR g0 = [] /\ hh g0 = 1%nat) -> exists res c', Qmigrate g0 c = Some (res, c') /\ (forall y, kept g0 y -> kept res y).
  Proof.
    intros HG Hok Hg Hm Hn1. pose proof HG as (HM & Hmb & Hpos & Hmode).
    assert (Hh : (1 <= hh g0)%nat) by (apply cntm_pos_hh; rewrite <- (Hok Hg); lia).
    unfold VarOptUnion.Qmigrate, migrate. destruct (Nat.eqb_spec (vmarks g0) 0); [contradiction|].
    assert (Hguard : (negb (rr g0 =? 0)%nat && negb (hh g0 + rr g0 =? vk g0)%nat)%bool = false).
    { destruct Hmode as [(HR0 & _)|(Hr & Hs & _)].
      - unfold rr. rewrite HR0. reflexivity.
      - replace (hh g0 + rr g0 =? vk g0)%nat with true by (symmetry; now apply Nat.eqb_eq). apply andb_false_r. }
    rewrite Hguard.
    set (g1 := if ((rr g0 =? 0)%nat && (hh g0 <? vk g0)%nat)%bool then set_k Item Q g0 (hh g0) else g0).
    fold (VarOptUnion.Qdecrease_k Item ditem cu).
    assert (Hk01 : forall y, kept g0 y -> kept g1 y).
    { subst g1. destruct ((rr g0 =? 0)%nat && (hh g0 <? vk g0)%nat)%bool; intros y Hy; exact Hy. }
    assert (Hdec : exists g2 c2, Qdecrease_k g1 c = Some (g2, c2) /\ Rest g2 /\ Est g2 /\ mk_ok g2 /\ vgad g2 = true /\
                                 (forall y, kept g1 y -> kept g2 y)).
    { destruct Hmode as [(HR0 & Ht & Hle & Hnn)|HE].
      - (* exact mode: k becomes h, then the transition *)
        assert (Hr : rr g0 = 0%nat) by (unfold rr; now rewrite HR0).
        assert (Hh2 : (2 <= hh g0)%nat) by (destruct (Nat.eq_dec (hh g0) 1); [exfalso; apply Hn1; now split|lia]).
        assert (HG1 : G g1 /\ vR g1 = [] /\ hh g1 = vk g1 /\ vM g1 = [] /\ vH g1 = vH g0 /\ vmarks g1 = vmarks g0 /\ vgad g1 = vgad g0).
        { subst g1. rewrite Hr. cbn [Nat.eqb andb]. destruct (Nat.ltb_spec (hh g0) (vk g0)).
          - unfold set_k, hh. cbn [vR vH vk vM vmarks vgad].
            split; [|repeat split; assumption]. split; [exact HM|]. split; [exact Hmb|]. split; [exact Hpos|]. left.
            unfold hh in *. cbn [vR vtot vH vk vn]. repeat split; try assumption; lia.
          - split; [exact HG|]. repeat split; try assumption. lia. }
        destruct HG1 as (HG1 & HR1 & Hhk & HM1 & EH1 & Em1 & Eg1).
        destruct (dec_exists_warm_full g1 c HG1 HR1 Hhk ltac:(rewrite <- Hhk; unfold hh in *; rewrite EH1; exact Hh2)) as (g2 & c2 & E2 & HR2 & HE2 & Hk12).
        exists g2, c2. split; [exact E2|]. split; [exact HR2|]. split; [exact HE2|].
        pose proof (dec_keeps Item ditem cu g1 c g2 c2 HM1 E2) as (_ & M2 & G2).
        split; [apply M2; intros Hg1; unfold VarOptMarks.mk_ok in Hok; rewrite Em1, EH1; apply Hok; congruence|]. split; [congruence|exact Hk12].
      - (* estimation mode *)
        assert (E1 : g1 = g0).
        { subst g1. destruct HE as (Hr & _). destruct (Nat.eqb_spec (rr g0) 0); [lia|reflexivity]. }
        rewrite E1. pose proof (Est_Rest_of_G g0 HG HE) as HR.
        destruct (dec_exists_est g0 c HR HE Hh) as (g2 & c2 & E2 & HR2 & HE2 & Hk12).
        exists g2, c2. split; [exact E2|]. split; [exact HR2|]. split; [exact HE2|].
        pose proof (dec_keeps Item ditem cu g0 c g2 c2 HM E2) as (_ & M2 & G2). split; [now apply M2|]. split; [congruence|exact Hk12]. }
    destruct Hdec as (g2 & c2 & E2 & HR2 & HE2 & Hok2 & Hg2 & Hk12). rewrite E2.
    rewrite (Est_tau_pos g2 HE2). rewrite andb_false_r.
    fold (VarOptUnion.Qdec_loop Item ditem cu (vk g2) g2 c2).
    destruct (dec_loop_total (vk g2) g2 c2 (le_n _) HR2 HE2 Hok2 Hg2) as (g3 & c3 & E3 & Hk23). rewrite E3.
    eexists _, _. split; [reflexivity|]. intros y Hy. apply Hk01, Hk12, Hk23 in Hy. exact Hy.
  Qed.

  (* ---------------- ghost bookkeeping of a union history ---------------- *)
  (* msum: total weight of the marked H slots; M, T: number and total weight of the R samples of the sketches given since the
     last reset *)
  Definition msum (H : list slot) : Q := sumw (filter (@s_mark Item Q) H).
  Fixpoint ughost (acc : nat * Q) (ops : list (uop Item)) : nat * Q :=
    match ops with
    | [] => acc
    | UUpdate _ sk _ :: t => ughost ((fst acc + rr sk)%nat, snd acc + vtot sk) t
    | URoundTrip _ :: t => ughost acc t
    | UReset _ :: t => ughost (0%nat, 0) t
    end.

  Definition TI (u : vu) (M : nat) (T : Q) : Prop :=
    (uotd u = 0%nat <-> M = 0%nat) /\ (uotd u <= M)%nat /\ (uotd u = M -> uotn u == T) /\ (M = 0%nat -> T == 0) /\
    (Z.of_nat M <= un u)%Z /\
    (vR (ugad u) = [] -> vmarks (ugad u) = M /\ msum (vH (ugad u)) == T) /\ mk_ok (ugad u).

  Lemma TI_Qeq u M T T' : T == T' -> TI u M T -> TI u M T'.
  Proof.
    intros E (A & B & C & D & F & H & K). split; [exact A|]. split; [exact B|]. split; [intros X; rewrite <- E; now apply C|].
    split; [intros X; rewrite <- E; now apply D|]. split; [exact F|]. split; [|exact K].
    intros X. destruct (H X) as [H1 H2]. split; [exact H1|now rewrite <- E].
  Qed.

  Lemma msum_snoc H x w mk : msum (H ++ [mkslot x w mk]) == msum H + (if mk then w else 0).
  Proof.
    unfold msum. rewrite filter_app, sumw_app. cbn [filter s_mark]. destruct mk; unfold VarOptProofs.sumw; cbn [fold_right s_wt]; lra.
  Qed.

  (* one gadget update that leaves the gadget in exact mode is a plain append *)
  Lemma warm_update (g : vo) x w mk c g1 c1 : Rest g -> 0 < w ->
    update_body Item ditem Q 0 1 (-(1)) Qplus Qmult Qdiv Qltb Qle_bool Qeq_bool inject_Z cu g x w mk c = Some (g1, c1) ->
    vR g1 = [] ->
    vR g = [] /\ vH g1 = vH g ++ [mkslot x w mk] /\ vmarks g1 = (vmarks g + (if mk then 1 else 0))%nat.
  Proof.
    intros HR Hw E HR1.
    destruct (provR_trivial Item ditem g HR) as (inp & HP & _).
    destruct (update_body_spec Item ditem cu g x w mk c inp HR HP Hw) as (s' & c' & E' & _ & _ & _ & _ & _ & _ & Hest & _).
    rewrite E in E'. injection E' as <- <-.
    destruct HR as (HM & Hmb & Hpos & Hk & [(HR0 & Hh & Hn & Ht)|HE]).
    2:{ exfalso. destruct (Hest HE) as [(Hr & _) _]. unfold rr in Hr. rewrite HR1 in Hr. cbn in Hr. lia. }
    split; [exact HR0|].
    unfold update_body in E. set (s1 := set_n Item Q g (vn g + 1)) in E.
    assert (Hrr : rr s1 = 0%nat) by (unfold rr; change (vR s1) with (vR g); now rewrite HR0).
    rewrite Hrr in E. cbn [Nat.eqb] in E. unfold update_warmup_phase in E. rewrite Hrr in E.
    assert (Hmm : mm s1 = 0%nat) by (unfold mm; change (vM s1) with (vM g); change (vmb s1) with (vmb g); now rewrite HM, Hmb).
    rewrite Hmm in E. change (0 <? 0)%nat with false in E. change (0 =? 0)%nat with true in E.
    change (hh s1) with (hh g) in E. change (vk s1) with (vk g) in E.
    destruct (Nat.ltb_spec (vk g) (hh g)); [lia|]. cbn [orb negb] in E.
    set (s2 := set_marks Item Q (set_H Item Q s1 (vH s1 ++ [mkslot x w mk])) _) in E.
    destruct (Nat.ltb_spec (vk s2) (hh s2)) as [Hlt|Hge].
    - exfalso.
      assert (Hh2 : hh s2 = S (hh g)) by (unfold hh; subst s2 s1; cbn [vH set_marks set_H set_n]; rewrite app_length; cbn; lia).
      destruct (transition_spec Item ditem cu s2 c (pairs_of (vH s2)) HM Hmb HR0 Hk
                  ltac:(change (vk s2) with (vk g) in *; lia)
                  ltac:(change (vH s2) with (vH g ++ [mkslot x w mk]); apply Forall_app; split; [exact Hpos|constructor; [exact Hw|constructor]])
                  ltac:(change (vk s2) with (vk g) in *; change (vn s2) with (vn g + 1)%Z; lia)
                  (Permutation_refl _))
        as (s3 & c3 & E3 & _ & (Hr3 & _) & _).
      rewrite E3 in E. injection E as <- <-. unfold rr in Hr3. rewrite HR1 in Hr3. cbn in Hr3. lia.
    - injection E as <- <-. split; reflexivity.
  Qed.

  Definition cntl (l : list (Item * Q * bool)) : nat := length (filter (fun p => snd p) l).
  Definition wml (l : list (Item * Q * bool)) : Q := swsum Item (filter (fun p => snd p) l).

  Lemma warm_upd_all : forall l (g : vo) c gk W, GInv Item ditem g gk W -> spos Item l ->
    vR (fst (fst (Qupd_all Item ditem cu g l c))) = [] ->
    vR g = [] /\ vmarks (fst (fst (Qupd_all Item ditem cu g l c))) = (vmarks g + cntl l)%nat /\
    msum (vH (fst (fst (Qupd_all Item ditem cu g l c)))) == msum (vH g) + wml l.
  Proof.
    induction l as [|[[x w] mk] t IH]; intros g c gk W HG Hpos HR'.
    - unfold VarOptUnion.Qupd_all in *. cbn [upd_all fst] in *. unfold cntl, wml. cbn [filter length].
      split; [exact HR'|]. split; [lia|]. change (swsum Item []) with 0. lra.
    - apply Forall_cons_iff in Hpos. destruct Hpos as [Hw Ht]. cbn [fst snd] in Hw.
      destruct HG as (HR & Ek & Hsum).
      destruct (provR_trivial Item ditem g HR) as (inp & HP & _).
      destruct (update_body_spec Item ditem cu g x w mk c inp HR HP Hw) as (s1 & c1 & E & HR1 & _ & Hs1 & _ & Ek1 & _).
      assert (EU : update Item ditem Q 0 1 (-(1)) Qplus Qmult Qdiv Qltb Qle_bool Qeq_bool inject_Z Qbad cu g x w mk c = UOk Item Q s1 c1).
      { unfold update, Qbad. rewrite (Qltb_ge w 0) by lra.
        destruct (Qeq_bool w 0) eqn:E0; [apply Qeq_bool_iff in E0; lra|]. now rewrite E. }
      unfold VarOptUnion.Qupd_all in *. cbn [upd_all] in *. rewrite EU in *.
      destruct (IH s1 c1 gk (W + w) ltac:(split; [exact HR1|split; [congruence|rewrite Hs1, Hsum; lra]]) Ht HR') as (HRs1 & Hm & Hw').
      destruct (warm_update g x w mk c s1 c1 HR Hw E HRs1) as (HR0 & EH & Em).
      split; [exact HR0|]. unfold cntl, wml in *. cbn [filter snd].
      split.
      + rewrite Hm, Em. destruct mk; cbn [length]; lia.
      + rewrite Hw', EH, msum_snoc. destruct mk; [rewrite swsum_cons; cbn [fst snd]|]; lra.
  Qed.

  Lemma filter_all {B} (f : B -> bool) l : (forall x, In x l -> f x = true) -> filter f l = l.
  Proof. induction l as [|a t IH]; intros H; [reflexivity|]. cbn. rewrite (H a (or_introl eq_refl)), IH; [reflexivity|]. intros x Hx. apply H. now right. Qed.
  Lemma filter_none {B} (f : B -> bool) l : (forall x, In x l -> f x = false) -> filter f l = [].
  Proof. induction l as [|a t IH]; intros H; [reflexivity|]. cbn. rewrite (H a (or_introl eq_refl)). apply IH. intros x Hx. apply H. now right. Qed.

  (* the marked samples of a sketch: its r reservoir items, total weight total_wt_r *)
  Lemma union_samples_marked (sk : vo) k A : Inv k sk A ->
    cntl (Qunion_samples Item sk) = rr sk /\ wml (Qunion_samples Item sk) == vtot sk.
  Proof.
    intros ((_ & _ & _ & _ & Hmode) & _). unfold cntl, wml, Qunion_samples, union_samples. rewrite filter_app.
    rewrite (filter_none (fun p : Item * Q * bool => snd p) (map _ (vH sk)))
      by (intros p Hp; apply in_map_iff in Hp; destruct Hp as (y & <- & _); reflexivity).
    cbn [app].
    rewrite filter_all by (intros [[x w] mk] Hp; apply r_samples_marked in Hp; exact Hp).
    destruct Hmode as [(HR0 & _ & _ & Ht)|(Hr & _ & Htot & _)].
    - rewrite HR0. cbn [r_samples length]. unfold rr. rewrite HR0, swsum_nil. split; [reflexivity|lra].
    - assert (Hq : 0 < qn (rr sk)) by (apply qn_pos; lia).
      assert (Htau : 0 < get_tau Item Q Qdiv inject_Z sk) by (unfold get_tau, ofN; fold (qn (rr sk)); apply Qlt_shift_div_l; lra).
      assert (E : vtot sk - 0 == get_tau Item Q Qdiv inject_Z sk * qn (length (vR sk))) by (unfold get_tau, ofN; fold (rr sk) (qn (rr sk)); field; lra).
      destruct (r_samples_spec Item (vR sk) _ (vtot sk) 0 Htau E) as (_ & SR & LR).
      split; [exact LR|rewrite SR; lra].
  Qed.

  (* resolve_tau, by cases (no arithmetic on tau needed) *)
  Lemma resolve_cases (u : vu) (sk : vo) : (1 <= rr sk)%nat ->
    let u' := Qresolve_tau Item u sk in
    (uotd u = 0%nat /\ uotd u' = rr sk /\ uotn u' = vtot sk) \/
    (uotd u <> 0%nat /\ ((uotd u' = rr sk /\ uotn u' = vtot sk) \/
                        (uotd u' = (uotd u + rr sk)%nat /\ uotn u' = uotn u + vtot sk) \/
                        (uotd u' = uotd u /\ uotn u' = uotn u))).
  Proof.
    intros Hr u'. subst u'. unfold Qresolve_tau, resolve_tau.
    replace (0 <? rr sk)%nat with true by (symmetry; apply Nat.ltb_lt; lia).
    destruct (Nat.eqb_spec (uotd u) 0) as [E|E]; [left; repeat split; assumption|right; split; [exact E|]].
    destruct (Qltb _ _); [left; split; reflexivity|]. destruct (Qeq_bool _ _); [right; left; split; reflexivity|right; right; split; reflexivity].
  Qed.

  Lemma union_update_TI (u : vu) n W (sk : vo) k A c M T :
    UInv u n W -> Inv k sk A -> TI u M T -> TI (fst (fst (Qunion_update u sk c))) (M + rr sk)%nat (T + vtot sk).
  Proof.
    intros HU HI (Hiff & Hle & Heq & Hz & Hn & Hwarm & Hok).
    pose proof (inv_counts Item ditem k sk A HI) as (_ & _ & EnS & Hc & _).
    destruct (union_samples_spec Item ditem sk k A HI) as (Hpos & _).
    destruct (union_samples_marked sk k A HI) as (Hcnt & Hwm).
    pose proof HI as ((_ & _ & _ & _ & Hmode) & _).
    destruct HU as (HG & Hgad & En & Hgn).
    unfold VarOptUnion.Qunion_update, union_update, merge_items.
    destruct (Z.eqb_spec (vn sk) 0) as [E0|E0].
    - (* a sketch that has seen nothing *)
      assert (Hr0 : rr sk = 0%nat) by lia.
      assert (Ht0 : vtot sk == 0).
      { destruct Hmode as [(_ & _ & _ & Ht)|(Hr & _)]; [exact Ht|lia]. }
      cbn [fst]. fold (Qresolve_tau Item u sk). rewrite (resolve_tau_warm Item u sk Hr0), Hr0, Nat.add_0_r.
      apply (TI_Qeq u M T); [lra|]. repeat split; try assumption; try apply Hiff; try (now apply Hwarm).
    - pose proof (upd_all_keeps Item ditem cu (Qunion_samples Item sk) (ugad u) c (umaxk u) W HG Hpos) as [Mk _].
      pose proof (warm_upd_all (Qunion_samples Item sk) (ugad u) c (umaxk u) W HG Hpos) as Hwu.
      destruct (upd_all_spec Item ditem cu (Qunion_samples Item sk) (ugad u) c (umaxk u) W HG Hpos) as (g' & c' & Eg' & _).
      unfold VarOptUnion.Qupd_all, Qunion_samples in *. rewrite Eg' in *. cbn [fst] in Mk, Hwu |- *.
      match goal with |- TI (resolve_tau _ _ _ _ _ _ _ _ ?uu sk) _ _ => set (u1 := uu) end.
      fold (Qresolve_tau Item u1 sk). destruct (resolve_tau_fields Item u1 sk) as (Egd & Enn & _).
      assert (Hrn : (Z.of_nat (rr sk) <= vn sk)%Z) by lia.
      (* the gadget part *)
      assert (Hg' : (vR g' = [] -> vmarks g' = (M + rr sk)%nat /\ msum (vH g') == T + vtot sk) /\ mk_ok g').
      { split; [|now apply Mk]. intros HR'. destruct (Hwu HR') as (HR0 & Hm & Hw'). destruct (Hwarm HR0) as [Hm0 Hw0].
        split; [rewrite Hm, Hm0, Hcnt; reflexivity|rewrite Hw', Hw0, Hwm; reflexivity]. }
      destruct Hg' as [Hg'w Hg'k].
      unfold TI. rewrite Egd, Enn. change (ugad u1) with g'. change (un u1) with (un u + vn sk)%Z.
      destruct (Nat.eq_dec (rr sk) 0) as [Hr0|Hr0].
      + (* exact-mode sketch: the outer tau is untouched *)
        rewrite (resolve_tau_warm Item u1 sk Hr0). change (uotd u1) with (uotd u). change (uotn u1) with (uotn u).
        assert (Ht0 : vtot sk == 0) by (destruct Hmode as [(_ & _ & _ & Ht)|(Hr & _)]; [exact Ht|lia]).
        rewrite Hr0, Nat.add_0_r in *.
        split; [exact Hiff|]. split; [exact Hle|]. split; [intros X; rewrite (Heq X); lra|]. split; [intros X; rewrite (Hz X); lra|].
        split; [lia|]. split; [exact Hg'w|exact Hg'k].
      + destruct (resolve_cases u1 sk ltac:(lia)) as [(Ed & Ed' & En')|(Ed & [(Ed' & En')|[(Ed' & En')|(Ed' & En')]])];
          change (uotd u1) with (uotd u) in *; change (uotn u1) with (uotn u) in *; rewrite Ed', En'.
        * (* first estimation-mode sketch *)
          assert (M0 : M = 0%nat) by (now apply Hiff). subst M.
          split; [split; lia|]. split; [lia|]. split; [intros _; rewrite (Hz eq_refl); lra|]. split; [intros X; lia|].
          split; [lia|]. split; [exact Hg'w|exact Hg'k].
        * assert (M1 : M <> 0%nat) by (intros X; apply Ed; now apply Hiff).
          split; [split; lia|]. split; [lia|]. split; [intros X; lia|]. split; [intros X; lia|]. split; [lia|]. split; [exact Hg'w|exact Hg'k].
        * assert (M1 : M <> 0%nat) by (intros X; apply Ed; now apply Hiff).
          split; [split; lia|]. split; [lia|]. split; [intros X; rewrite (Heq ltac:(lia)); lra|]. split; [intros X; lia|].
          split; [lia|]. split; [exact Hg'w|exact Hg'k].
        * assert (M1 : M <> 0%nat) by (intros X; apply Ed; now apply Hiff).
          split; [split; lia|]. split; [lia|]. split; [intros X; lia|]. split; [intros X; lia|]. split; [lia|]. split; [exact Hg'w|exact Hg'k].
  Qed.

  Lemma empty_TI max_k : TI (Quempty Item max_k) 0 0.
  Proof.
    unfold TI, Quempty, vu_empty, vo_empty, msum, VarOptMarks.mk_ok, VarOptMarks.cntm. cbn.
    repeat split; try reflexivity; try lia; try lra.
  Qed.

  Lemma serde_TI (u u' : vu) n W M T : UInv u n W -> TI u M T -> Quserde Item u = Some u' -> TI u' M T.
  Proof.
    intros (_ & Hgad & _) (Hiff & Hle & Heq & Hz & Hn & Hwarm & Hok) E. unfold Quserde, union_serde in E.
    destruct (Z.eqb_spec (un u) 0) as [E0|E0].
    - injection E as <-. assert (M0 : M = 0%nat) by lia. subst M.
      pose proof (empty_TI (umaxk u)) as HT. apply (TI_Qeq _ _ 0); [symmetry; now apply Hz|exact HT].
    - destruct (serde_roundtrip Item Q 0 Qltb (ugad u)) as [g'|] eqn:Eg; [|discriminate]. injection E as <-.
      unfold TI. cbn [uotd uotn un ugad].
      assert (Hg : vH g' = vH (ugad u) \/ vH g' = []).
      { clear -Eg. unfold serde_roundtrip, serde_roundtrip_gen in Eg.
        destruct (_ && _)%bool; [injection Eg as <-; now right|].
        destruct (vn (ugad u) <=? Z.of_nat (vk (ugad u)))%Z.
        - destruct (_ || _)%bool; [discriminate|]. injection Eg as <-. now left.
        - destruct (_ || _ || _)%bool; [discriminate|]. injection Eg as <-. now left. }
      assert (Hfull : (vR g' = [] -> vR (ugad u) = [] /\ vmarks g' = vmarks (ugad u) /\ vH g' = vH (ugad u)) /\ mk_ok g').
      { unfold serde_roundtrip, serde_roundtrip_gen in Eg. rewrite Hgad in Eg.
        destruct ((hh (ugad u) =? 0)%nat && (rr (ugad u) =? 0)%nat)%bool eqn:Ee.
        - injection Eg as <-. apply andb_true_iff in Ee. destruct Ee as [Eh Er]. apply Nat.eqb_eq in Eh, Er.
          assert (EH : vH (ugad u) = []) by (unfold hh in Eh; destruct (vH (ugad u)); [reflexivity|cbn in Eh; lia]).
          assert (ER : vR (ugad u) = []) by (unfold rr in Er; destruct (vR (ugad u)); [reflexivity|cbn in Er; lia]).
          split; [|intros _; reflexivity]. intros _. split; [exact ER|]. unfold vo_empty. cbn [vmarks vH].
          split; [|now rewrite EH]. rewrite (Hok Hgad), EH. reflexivity.
        - destruct (vn (ugad u) <=? Z.of_nat (vk (ugad u)))%Z.
          + destruct ((0 <? rr (ugad u))%nat || _)%bool eqn:Ec; [discriminate|]. injection Eg as <-.
            apply orb_false_iff in Ec. destruct Ec as [Ec _]. apply Nat.ltb_ge in Ec.
            assert (ER : vR (ugad u) = []) by (unfold rr in Ec; destruct (vR (ugad u)); [reflexivity|cbn in Ec; lia]).
            cbn [vR vmarks vH vgad]. split; [|intros _; reflexivity]. intros _. split; [exact ER|]. split; [|reflexivity].
            symmetry. exact (Hok Hgad).
          + destruct (_ || _ || _)%bool; [discriminate|]. injection Eg as <-. cbn [vR vmarks vH vgad].
            split; [|intros _; reflexivity]. intros X. split; [exact X|]. split; [|reflexivity]. symmetry. exact (Hok Hgad). }
      destruct Hfull as [Hfw Hfk].
      split; [exact Hiff|]. split; [exact Hle|]. split; [exact Heq|]. split; [exact Hz|]. split; [exact Hn|]. split; [|exact Hfk].
      intros X. destruct (Hfw X) as (X0 & Em & EH). destruct (Hwarm X0) as [A1 A2]. rewrite Em, EH. split; assumption.
  Qed.

  Lemma urun_TI : forall ops (u : vu) n W c M T, UInv u n W -> valid_uops Item ditem ops -> TI u M T ->
    TI (fst (fst (urun Item ditem cu u ops c))) (fst (ughost (M, T) ops)) (snd (ughost (M, T) ops)).
  Proof.
    induction ops as [|o t IH]; intros u n W c M T HU Hv HT; [exact HT|].
    apply Forall_cons_iff in Hv. destruct Hv as [Ho Hv]. cbn [urun ughost]. destruct o as [sk A| |]; cbn [ustep fst snd].
    - destruct Ho as (k & HI).
      pose proof (union_update_TI u n W sk k A c M T HU HI HT) as HT1.
      destruct (union_update_spec Item ditem cu u n W sk k A c HU HI) as (u1 & c1 & E1 & HU1 & _).
      rewrite E1 in *. cbn [fst] in HT1. apply (IH u1 _ _ c1 _ _ HU1 Hv HT1).
    - destruct (union_serde_spec Item ditem u n W HU) as (u1 & E1 & HU1 & _). rewrite E1.
      apply (IH u1 _ _ c _ _ HU1 Hv). exact (serde_TI u u1 n W M T HU HT E1).
    - assert (HU1 : UInv (union_reset Item Q 0 u) 0 0).
      { destruct HU as ((HR & Ek & _) & Hgad & _). destruct HR as (_ & _ & _ & Hk1 & _).
        unfold union_reset, reset. rewrite Hgad, Ek. apply uempty_UInv. now rewrite <- Ek. }
      apply (IH _ _ _ c _ _ HU1 Hv).
      destruct HU as ((_ & Ek & _) & Hgad & _). unfold union_reset, reset. rewrite Hgad, Ek. apply empty_TI.
  Qed.

  (* ---------------- get_result always returns ---------------- *)
  Lemma rr0_nil (g : vo) : rr g = 0%nat -> vR g = [].
  Proof. unfold rr. destruct (vR g); [reflexivity|cbn; lia]. Qed.

  Theorem get_result_total a4 (u : vu) n W M T c : UInv u n W -> TI u M T ->
    exists res c', Qresult_gen a4 u c = Some (res, c').
  Proof.
    intros HU (Hiff & Hle & Heq & Hz & Hn & Hwarm & Hok). pose proof HU as ((HR & Ek & Hsum) & Hgad & En & Hgn).
    unfold VarOptUnion.Qresult_gen, get_result_gen, get_result_gen2. set (g := ugad u) in *.
    pose proof HR as (HM & Hmb & Hpos & Hk1 & Hmode).
    destruct (Nat.eqb_spec (vmarks g) 0) as [Ez|Ez]; [eexists _, _; reflexivity|].
    destruct ((rr g =? 0)%nat && (0 <? vmarks g)%nat && (vmarks g =? uotd u)%nat &&
              negb (exists_unmarked_lighter Item Q Qltb g (a4 u)))%bool eqn:C.
    - (* mark-moving coercer: its consistency check holds *)
      apply andb_true_iff in C. destruct C as [C _]. apply andb_true_iff in C. destruct C as [C Cm].
      apply andb_true_iff in C. destruct C as [Cr _]. apply Nat.eqb_eq in Cr, Cm.
      destruct (Hwarm (rr0_nil g Cr)) as [Em Ems].
      assert (Eotn : uotn u == T) by (apply Heq; lia).
      unfold mark_moving_gen. fold g.
      set (tw := fold_left (fun a x => a + s_wt x) (filter (@s_mark Item Q) (vH g)) 0).
      assert (Etw : tw == uotn u).
      { subst tw. rewrite (fold_sum Item (filter (@s_mark Item Q) (vH g)) 0). unfold msum in Ems. rewrite Eotn, <- Ems. lra. }
      assert (Hchk : (Qltb Qeps10 (tw - uotn u) || Qltb (tw - uotn u) (- (1) * Qeps10))%bool = false).
      { apply orb_false_iff. split; apply Qltb_ge; unfold Qeps10; lra. }
      fold tw. rewrite Hchk. eexists _, _. reflexivity.
    - (* migrate by decreasing k *)
      assert (HGc : G (copy_as Item Q g false (un u))).
      { unfold copy_as. split; [exact HM|]. split; [exact Hmb|]. split; [exact Hpos|].
        destruct Hmode as [(HR0 & Hh & Hn' & Ht)|(Hr & Hhr & Htot & Hhp & HH & Hn')].
        - left. unfold hh in *. cbn [vR vtot vH vk vn]. repeat split; try assumption. lia.
        - right. unfold VarOptProofs.Est, hh, rr in *. cbn [vR vtot vH vk vn]. repeat split; try assumption. lia. }
      assert (Hmt : exists res c', Qmigrate (copy_as Item Q g false (un u)) c = Some (res, c')
                                    /\ (forall y, kept (copy_as Item Q g false (un u)) y -> kept res y));
        [|destruct Hmt as (res & c' & Er & _); now exists res, c'].
      apply (migrate_total _ c HGc).
      + intros Hg'. unfold copy_as. cbn [vmarks vH]. apply Hok. exact Hgad.
      + unfold copy_as. cbn [vgad]. exact Hgad.
      + unfold copy_as. cbn [vmarks]. exact Ez.
      + (* a single marked item in exact mode takes the pseudo-exact branch *)
        unfold copy_as, hh. cbn [vR vH]. intros [HR0 H1]. exfalso.
        destruct (Hwarm HR0) as [Em _].
        assert (Ec : cntm (vH g) = vmarks g) by (symmetry; exact (Hok Hgad)).
        destruct (vH g) as [|y [|? ?]] eqn:EH; try discriminate.
        assert (Hy : s_mark y = true).
        { unfold VarOptMarks.cntm in Ec. cbn in Ec. destruct (s_mark y); [reflexivity|cbn in Ec; lia]. }
        assert (Em1 : vmarks g = 1%nat) by (unfold VarOptMarks.cntm in Ec; cbn in Ec; rewrite Hy in Ec; cbn in Ec; lia).
        assert (Ed : uotd u = 1%nat) by (assert (uotd u <> 0%nat) by (intros X; apply Hiff in X; lia); lia).
        assert (Cr : (rr g =? 0)%nat = true) by (unfold rr; now rewrite HR0).
        assert (Cl : exists_unmarked_lighter Item Q Qltb g (a4 u) = false).
        { unfold exists_unmarked_lighter. destruct (a4 u); [|reflexivity]. rewrite EH. cbn [existsb]. rewrite Hy. cbn [negb]. now rewrite andb_false_r. }
        rewrite Cr, Em1, Ed, Cl in C. cbn in C. discriminate.
  Qed.

  (* every union history: get_result returns *)
  Theorem union_history_total max_k ops c c2 a4 : (1 <= max_k)%nat -> valid_uops Item ditem ops ->
    exists res c3, Qresult_gen a4 (fst (fst (urun Item ditem cu (Quempty Item max_k) ops c))) c2 = Some (res, c3).
  Proof.
    intros Hk Hv.
    destruct (urun_spec Item ditem cu ops (Quempty Item max_k) 0 0 c (uempty_UInv Item ditem max_k Hk) Hv) as (u & c1 & E & HU & _).
    pose proof (urun_TI ops (Quempty Item max_k) 0 0 c 0%nat 0 (uempty_UInv Item ditem max_k Hk) Hv (empty_TI max_k)) as HT.
    rewrite E in *. cbn [fst] in HT |- *. eapply get_result_total; eassumption.
  Qed.
End QT.
