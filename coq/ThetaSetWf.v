(* ThetaSetWf.v — well-formed inputs of the set operations and the basic facts shared by the proofs about
   union (ThetaSetUnion.v), intersection (ThetaSetInter.v), A-not-B (ThetaSetANotB.v) and Jaccard (ThetaSetJaccard.v). *)
From Coq Require Import ZArith NArith List Bool Lia Permutation Sorted Arith.
From DS Require Import Word RunnerLib OpenAddr KSmallest Canon ThetaDefs ThetaProofs ThetaRefine ThetaFacts ThetaSetDefs.
Import ListNotations.
Local Open Scope N_scope.

(* ---- well-formed input sketches ---- *)
Section Wf.
  Variable S : Type.

  (* what every sketch built through the API satisfies (C01: compact_same / cwf): distinct non-zero keys below
     theta; flagged ordered => strictly increasing; empty => no entries and theta = MAX *)
  Record wf (i : input S) : Prop := {
    wf_nodup : NoDup (in_keys i);
    wf_range : forall h, In h (in_keys i) -> 0 < h < in_theta i;
    wf_sorted : in_ordered i = true -> StronglySorted (klt fst) (in_entries i);
    wf_empty : in_empty i = true -> in_entries i = [] /\ in_theta i = max_theta
  }.

  (* the operation accepts the input: an empty sketch is never checked, otherwise the seed hashes agree *)
  Definition seed_ok (sh : N) (i : input S) : Prop := in_empty i = true \/ in_seed_hash i = sh.

  (* two presentations of the same sample: same theta, same emptiness, same keys (any order, any ordered flag) *)
  Definition same_sample (i j : input S) : Prop :=
    in_theta i = in_theta j /\ in_empty i = in_empty j /\ (forall h, In h (in_keys i) <-> In h (in_keys j)).
End Wf.

Arguments wf {S}. Arguments seed_ok {S}. Arguments same_sample {S}.

(* ---- membership test ---- *)
Lemma mem_In h l : mem h l = true <-> In h l.
Proof.
  unfold mem. rewrite existsb_exists. split.
  - intros (x & Hx & E). apply N.eqb_eq in E. now subst.
  - intros H. exists h. split; auto. apply N.eqb_refl.
Qed.

Lemma mem_false h l : mem h l = false <-> ~ In h l.
Proof. rewrite <- mem_In. destruct (mem h l); split; intros H; try congruence; try discriminate; auto. Qed.

(* ---- keys_below: the canonical (strictly increasing) list of the distinct keys below a threshold ---- *)
Lemma in_keys_below th l h : In h (keys_below th l) <-> In h l /\ h < th.
Proof.
  unfold keys_below. rewrite (perm_in_iff h (sortN_perm _)), nodup_In, filter_In, N.ltb_lt. tauto.
Qed.

Lemma keys_below_strict th l : StronglySorted N.lt (keys_below th l).
Proof. unfold keys_below. apply sortN_strict, NoDup_nodup. Qed.

Lemma keys_below_nodup th l : NoDup (keys_below th l).
Proof.
  unfold keys_below. eapply Permutation_NoDup; [symmetry; apply sortN_perm|apply NoDup_nodup].
Qed.

(* a strictly increasing list is determined by its elements *)
Lemma keys_below_unique th l (v : list N) :
  StronglySorted N.lt v -> (forall h, In h v <-> In h l /\ h < th) -> v = keys_below th l.
Proof.
  intros Hs Hiff. apply strict_sorted_unique; auto using keys_below_strict.
  intros x. rewrite in_keys_below. apply Hiff.
Qed.

Lemma keys_below_ext th l l' : (forall h, h < th -> (In h l <-> In h l')) -> keys_below th l = keys_below th l'.
Proof.
  intros H. apply keys_below_unique; [apply keys_below_strict|].
  intros h. rewrite in_keys_below. split; intros [Hin Hlt]; split; auto; apply (H h Hlt); auto.
Qed.

Lemma strict_nodup (l : list N) : StronglySorted N.lt l -> NoDup l.
Proof.
  induction 1 as [|a r Hs IH Hf]; constructor; auto.
  intros Hin. rewrite Forall_forall in Hf. specialize (Hf _ Hin). lia.
Qed.

(* sorting the keys of a duplicate-free entry list gives the canonical list *)
Lemma sortN_keys_unique (ks : list N) th l :
  NoDup ks -> (forall h, In h ks <-> In h l /\ h < th) -> sortN ks = keys_below th l.
Proof.
  intros Hnd Hiff. apply keys_below_unique; [now apply sortN_strict|].
  intros h. rewrite (perm_in_iff h (sortN_perm ks)). apply Hiff.
Qed.

(* strictly increasing list: the elements below a bound form a prefix *)
Lemma strict_split (v : list N) u : StronglySorted N.lt v ->
  v = filter (fun h => h <? u) v ++ filter (fun h => u <=? h) v.
Proof.
  induction 1 as [|a r Hs IH Hf]; simpl; auto.
  destruct (N.ltb_spec a u) as [Hlt|Hge].
  - assert (E : (u <=? a) = false) by (apply N.leb_gt; lia). rewrite E. simpl. f_equal. exact IH.
  - assert (E : (u <=? a) = true) by (apply N.leb_le; lia). rewrite E.
    rewrite Forall_forall in Hf.
    rewrite (filter_all_false (fun h => h <? u) r), (filter_all_true (fun h => u <=? h) r); auto.
    + apply Forall_forall. intros x Hx. specialize (Hf _ Hx). apply N.leb_le. lia.
    + apply Forall_forall. intros x Hx. specialize (Hf _ Hx). apply N.ltb_ge. lia.
Qed.

Lemma filter_strict (f : N -> bool) (v : list N) : StronglySorted N.lt v -> StronglySorted N.lt (filter f v).
Proof.
  induction 1 as [|a r Hs IH Hf]; simpl; [constructor|]. destruct (f a); auto.
  constructor; auto. rewrite Forall_forall in *. intros x Hx. apply filter_In in Hx. apply Hf. tauto.
Qed.

(* lowering the threshold keeps the prefix below it *)
Lemma keys_below_lower u th l : u <= th -> keys_below u l = filter (fun h => h <? u) (keys_below th l).
Proof.
  intros Hle. symmetry. apply keys_below_unique.
  - apply filter_strict, keys_below_strict.
  - intros h. rewrite filter_In, in_keys_below, N.ltb_lt. split; [tauto|]. intros [? ?]. repeat split; auto; lia.
Qed.

(* ---- min_theta ---- *)
Section MinTheta.
  Variable S : Type.
  Notation input := (input S).

  Definition mt_step (m : N) (i : input) : N := if in_empty i then m else N.min m (in_theta i).

  Lemma min_theta_fold th0 (ins : list input) : min_theta S th0 ins = fold_left mt_step ins th0.
  Proof. reflexivity. Qed.

  Lemma min_theta_app th0 (a b : list input) : min_theta S th0 (a ++ b) = min_theta S (min_theta S th0 a) b.
  Proof. unfold min_theta. now rewrite fold_left_app. Qed.

  Lemma min_theta_le th0 (ins : list input) : min_theta S th0 ins <= th0.
  Proof.
    revert th0. induction ins as [|i r IH]; intros th0; simpl; [lia|].
    etransitivity; [apply IH|]. destruct (in_empty i); lia.
  Qed.

  Lemma min_theta_min m th0 (ins : list input) : min_theta S (N.min m th0) ins = N.min m (min_theta S th0 ins).
  Proof.
    revert th0 m. induction ins as [|i r IH]; intros th0 m; simpl; auto.
    destruct (in_empty i); auto. rewrite <- N.min_assoc. apply IH.
  Qed.

  (* the characterisation used to compare two input lists *)
  Lemma min_theta_spec th0 (ins : list input) : let m := min_theta S th0 ins in
    m <= th0 /\ (forall i, In i ins -> in_empty i = false -> m <= in_theta i) /\
    (m = th0 \/ exists i, In i ins /\ in_empty i = false /\ m = in_theta i).
  Proof.
    revert th0. induction ins as [|i r IH]; intros th0; simpl.
    - split; [lia|]. split; [tauto|auto].
    - destruct (IH (if in_empty i then th0 else N.min th0 (in_theta i))) as (H1 & H2 & H3).
      set (m := min_theta S _ r) in *. split; [|split].
      + destruct (in_empty i); lia.
      + intros j [<-|Hj] He; [rewrite He in H1; lia|apply H2; auto].
      + destruct H3 as [E|(j & Hj & He & E)]; [|right; exists j; auto].
        destruct (in_empty i) eqn:Ei; auto.
        destruct (N.min_spec th0 (in_theta i)) as [[_ E2]|[_ E2]]; rewrite E2 in E; auto.
        right. exists i. auto.
  Qed.

  Lemma min_theta_perm th0 (a b : list input) : Permutation a b -> min_theta S th0 a = min_theta S th0 b.
  Proof.
    intros H. revert th0. induction H; intros th0; simpl; auto.
    - destruct (in_empty x), (in_empty y); auto. f_equal. lia.
    - now rewrite IHPermutation1.
  Qed.

  Lemma all_keys_app (a b : list input) : all_keys S (a ++ b) = all_keys S a ++ all_keys S b.
  Proof. unfold all_keys. apply flat_map_app. Qed.

  Lemma in_all_keys h (ins : list input) : In h (all_keys S ins) <-> exists i, In i ins /\ In h (in_keys i).
  Proof. unfold all_keys. rewrite in_flat_map. tauto. Qed.
End MinTheta.

(* ---- lg_size_from_count: the table sized for n entries holds them below the rebuild threshold (15/16),
   with a free slot ---- *)
Lemma lg_size_ok n : 0 < n ->
  1 <= lg_size_from_count n /\ n <= 15 * 2 ^ lg_size_from_count n / 16 /\
  15 * 2 ^ lg_size_from_count n / 16 < 2 ^ lg_size_from_count n.
Proof.
  intros Hn. unfold lg_size_from_count.
  destruct (N.log2_spec n Hn) as [Hlo Hhi]. set (L := N.log2 n) in *.
  rewrite N.pow_succ_r' in Hhi. 
  assert (Hp : 0 < 2 ^ L) by (apply pow2_N_pos).
  assert (E1 : 2 ^ (L + 1) = 2 * 2 ^ L) by (rewrite N.add_1_r; apply N.pow_succ_r').
  assert (E2 : 2 ^ (L + 2) = 4 * 2 ^ L) by (replace (L + 2) with (N.succ (N.succ L)) by lia; rewrite !N.pow_succ_r'; lia).
  rewrite E1. set (P := 2 ^ L) in *.
  destruct (N.ltb_spec (15 * (2 * P) / 16) n) as [Hc|Hc].
  - rewrite E2. split; [lia|]. 
    assert (15 * (4 * P) / 16 < 4 * P) by (apply N.div_lt_upper_bound; lia).
    assert (2 * P <= 15 * (4 * P) / 16) by (apply N.div_le_lower_bound; lia).
    lia.
  - rewrite E1. split; [lia|]. split; [lia|]. apply N.div_lt_upper_bound; lia.
Qed.

(* ---- the small hash tables of intersection and A-not-B (any lg_cur >= 0; C01's TInv needs lg >= 5) ---- *)
Section SmallTable.
  Variable V : Type.
  Variable sel : nat -> list (N * V) -> list (N * V).

  Record SInv (t : sketch V) : Prop := {
    si_probe : ProbeInv (tsize (lg_cur t)) (tprobe (lg_cur t)) (slots t);
    si_num : num t = N.of_nat (length (entries V t));
    si_nodup : NoDup (keys V t)
  }.

  Lemma sinv_fresh lg lgn r th0 th e : SInv (mk_sketch V lg lgn r th0 th e 0 (repeat None (tsize lg))).
  Proof.
    constructor; unfold keys, entries; cbn [lg_cur slots num].
    - apply ProbeInv_empty.
    - now rewrite occupied_repeat_None.
    - rewrite occupied_repeat_None. constructor.
  Qed.

  Lemma sinv_flags t th e : SInv t -> SInv (with_theta_empty V t th e).
  Proof. intros [H1 H2 H3]. constructor; auto. Qed.

  Lemma sinv_free t : SInv t -> num t < 2 ^ lg_cur t ->
    exists x, (x < tsize (lg_cur t))%nat /\ nth x (slots t) None = None.
  Proof.
    intros [[Hlen _] Hnum _] Hlt. unfold entries in Hnum.
    destruct (exists_empty V (slots t)) as (x & Hx & Hn).
    - rewrite Hlen. unfold tsize. lia.
    - exists x. rewrite <- Hlen. auto.
  Qed.

  (* a stored key is found in its slot *)
  Lemma tfind_present t h : SInv t -> In h (keys V t) ->
    exists i v, tfind V (lg_cur t) (slots t) h = Some (i, true) /\ nth i (slots t) None = Some (h, v) /\
                In (h, v) (entries V t).
  Proof.
    intros [Hpi _ _] Hin. pose proof Hpi as [Hlen _]. unfold keys, entries in Hin. apply in_keys_iff in Hin.
    destruct Hin as (i & Hi & Hg). rewrite Hlen in Hi.
    unfold tfind. rewrite (find_present V _ _ (slots t) i h Hpi Hi Hg).
    unfold getk in Hg. destruct (nth i (slots t) None) as [[k v]|] eqn:En; [|discriminate]. inversion Hg; subst k.
    exists i, v. split; auto. split; auto. unfold entries. apply in_occupied_iff. exists i. split; [lia|auto].
  Qed.

  (* an absent key leads to a free slot, as long as one exists *)
  Lemma tfind_absent t h : SInv t -> num t < 2 ^ lg_cur t -> ~ In h (keys V t) ->
    exists j, (j < tsize (lg_cur t))%nat /\
      tfind V (lg_cur t) (slots t) h = Some (tprobe (lg_cur t) h j, false) /\
      nth (tprobe (lg_cur t) h j) (slots t) None = None /\
      path_busy (tprobe (lg_cur t)) (slots t) h j.
  Proof.
    intros HS Hlt Hnin. pose proof HS as [Hpi _ _]. pose proof Hpi as [Hlen _].
    destruct (find_absent V _ _ (tprobe_lt _) (tprobe_inj _) (slots t) h Hpi) as (j & Hj & Hfind & Hnone & Hbusy).
    - apply sinv_free; auto.
    - apply absent_slots; auto.
    - exists j. unfold tfind. auto.
  Qed.

  Definition same_cfg (t t' : sketch V) : Prop :=
    lg_cur t' = lg_cur t /\ lg_nom t' = lg_nom t /\ rf t' = rf t /\ theta0 t' = theta0 t /\
    theta t' = theta t /\ is_empty t' = is_empty t.

  (* insert of an absent key where find sends it, when the table keeps its size: either below the rebuild
     threshold of a full-size table (lg_cur > lg_nom), or a "resize" by factor 1 (lg_cur <= lg_nom, rf = X1),
     which re-hashes into a table of the same size; nothing is dropped *)
  Lemma insert_keeps t h v i : SInv t -> num t + 1 < 2 ^ lg_cur t -> ~ In h (keys V t) ->
    tfind V (lg_cur t) (slots t) h = Some (i, false) ->
    (lg_nom t < lg_cur t /\ num t + 1 <= capacity (lg_cur t) (lg_nom t)) \/ (lg_cur t <= lg_nom t /\ rf t = 0) ->
    let t' := insert V sel t i (h, v) in
    SInv t' /\ Permutation (entries V t') ((h, v) :: entries V t) /\ num t' = num t + 1 /\ same_cfg t t'.
  Proof.
    intros HS Hlt Hnin Hfind Hcase. pose proof HS as [Hpi Hnum Hnd]. pose proof Hpi as [Hlen _].
    destruct (tfind_absent t h HS) as (j & Hj & Hfind' & Hnone & Hbusy); auto; [lia|].
    rewrite Hfind in Hfind'. inversion Hfind'; subst i. clear Hfind'.
    set (i := tprobe (lg_cur t) h j) in *. set (e := (h, v)).
    assert (Hi : (i < length (slots t))%nat) by (rewrite Hlen; apply tprobe_lt).
    pose proof (occupied_set_nth_empty V i e (slots t) Hi Hnone) as Hocc1.
    pose proof (insert_preserves V _ _ (tprobe_lt _) (slots t) h v j Hpi Hj Hnone Hbusy) as Hpi1.
    fold i in Hpi1. fold e in Hpi1. set (t1 := set_nth i (Some e) (slots t)) in *.
    assert (Hnd1 : NoDup (map fst (occupied t1))).
    { eapply Permutation_NoDup; [symmetry; apply Permutation_map, Hocc1|]. simpl. constructor; auto. }
    assert (Hlen1 : length (occupied t1) = Datatypes.S (length (entries V t))) by (rewrite (Permutation_length Hocc1); reflexivity).
    unfold insert. cbn [lg_cur lg_nom num slots with_table]. fold e. fold i. fold t1.
    destruct (N.ltb_spec (capacity (lg_cur t) (lg_nom t)) (num t + 1)) as [Ecap|Ecap].
    - destruct Hcase as [[Hfull Hle]|[Hsmall Hrf]]; [lia|].
      assert (El : (lg_cur t <=? lg_nom t) = true) by (apply N.leb_le; auto). rewrite El.
      unfold resize, with_table. cbn [lg_cur lg_nom rf theta0 theta is_empty num slots]. rewrite Hrf.
      assert (Elg : N.min (lg_cur t + 0) (lg_nom t + 1) = lg_cur t) by lia. rewrite Elg.
      destruct (trehash_spec V (lg_cur t) (occupied t1) Hnd1) as [Hpi' Hocc'].
      { rewrite Hlen1. unfold tsize. rewrite Hnum in Hlt. lia. }
      split; [|split; [|split]].
      + constructor; unfold keys, entries; cbn [lg_cur slots num]; auto.
        * rewrite (Permutation_length Hocc'), Hlen1, Hnum. lia.
        * eapply Permutation_NoDup; [symmetry; apply Permutation_map, Hocc'|exact Hnd1].
      + unfold entries. cbn [slots]. eapply perm_trans; [exact Hocc'|exact Hocc1].
      + reflexivity.
      + unfold same_cfg. cbn [lg_cur lg_nom rf theta0 theta is_empty]. repeat split; auto.
    - unfold with_table. split; [|split; [|split]].
      + constructor; unfold keys, entries; cbn [lg_cur slots num]; auto. rewrite Hlen1, Hnum. lia.
      + exact Hocc1.
      + reflexivity.
      + unfold same_cfg. cbn [lg_cur lg_nom rf theta0 theta is_empty]. repeat split; auto.
  Qed.
End SmallTable.

Arguments SInv {V}. Arguments same_cfg {V}.
