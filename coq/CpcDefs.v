(* CpcDefs.v — executable model of the CPC sketch and union (no proofs here).
   Mirrors cpc/include/u32_table_impl.hpp (linear probing table of row_col pairs, growth/shrink by rebuild,
   delete by re-insertion), cpc_sketch_impl.hpp (row_col_from_two_hashes, row_col_update, update_sparse,
   update_windowed, promote_sparse_to_windowed, move_window, determine_flavor, determine_correct_offset,
   build_bit_matrix, validate) and cpc_union_impl.hpp (internal_update cases A-D, reduce_k,
   walk_table_updating_sketch, or_*_into_matrix, switch_to_bit_matrix, get_result).
   Every C++ `throw` (and every undefined behaviour the code could reach) is [None].
   kxp / hip_est_accum are floating point and are not part of the model. *)
From Coq Require Import ZArith NArith List Bool.
From DS Require Import Word Murmur3 RunnerLib Canon.
Import ListNotations.
Local Open Scope N_scope.

Notation "'do' x <- a ; b" := (match a with Some x => b | None => None end)
  (at level 200, x pattern, a at level 100, b at level 200, only parsing).

Definition EMPTY : N := 4294967295.            (* UINT32_MAX marks an empty slot *)

Definition nthN (l : list N) (i : N) (d : N) : N := nth (N.to_nat i) l d.
Definition setN (l : list N) (i : N) (v : N) : list N := upd_nth (N.to_nat i) (fun _ => v) l.
Definition updN (l : list N) (i : N) (f : N -> N) : list N := upd_nth (N.to_nat i) f l.

(* ------------------------------------------------------------------------------------------ *)
(** * u32_table *)

Record u32t := mkT { t_lg : N; t_nvb : N; t_num : N; t_slots : list N }.

Definition t_new (lg nvb : N) : u32t := mkT lg nvb 0 (repeat EMPTY (N.to_nat (2 ^ lg))).
Definition t_clear (t : u32t) : u32t := mkT (t_lg t) (t_nvb t) 0 (repeat EMPTY (length (t_slots t))).

(* the while loop of lookup(); [fuel] = number of slots (the C++ loop would not terminate on a full table) *)
Fixpoint lookup_from (slots : list N) (mask item probe : N) (fuel : nat) : option N :=
  match fuel with
  | O => None
  | S f =>
    let v := nthN slots probe EMPTY in
    if (v =? item) || (v =? EMPTY) then Some probe
    else lookup_from slots mask item (N.land (probe + 1) mask) f
  end.

Definition lookup (t : u32t) (item : N) : option N :=
  if t_nvb t <? t_lg t then None else             (* shift = num_valid_bits - lg_size would wrap: UB *)
  let size := 2 ^ t_lg t in
  let mask := size - 1 in
  let probe := N.shiftr item (t_nvb t - t_lg t) in
  if mask <? probe then None                      (* "probe out of range" *)
  else lookup_from (t_slots t) mask item probe (N.to_nat size).

Definition must_insert (t : u32t) (item : N) : option u32t :=
  do i <- lookup t item;
  let v := nthN (t_slots t) i EMPTY in
  if v =? item then None                          (* "item exists" *)
  else if negb (v =? EMPTY) then None             (* "could not insert" *)
  else Some (mkT (t_lg t) (t_nvb t) (t_num t) (setN (t_slots t) i item)).

Definition reinsert_all (t0 : u32t) (old : list N) : option u32t :=
  fold_left (fun acc v => do a <- acc; if v =? EMPTY then Some a else must_insert a v) old (Some t0).

Definition rebuild (t : u32t) (new_lg : N) : option u32t :=
  if new_lg <? 2 then None else
  if 2 ^ new_lg <=? t_num t then None else
  reinsert_all (mkT new_lg (t_nvb t) (t_num t) (repeat EMPTY (N.to_nat (2 ^ new_lg)))) (t_slots t).

Definition maybe_insert (t : u32t) (item : N) : option (u32t * bool) :=
  do i <- lookup t item;
  let v := nthN (t_slots t) i EMPTY in
  if v =? item then Some (t, false)
  else if negb (v =? EMPTY) then None
  else
    let t1 := mkT (t_lg t) (t_nvb t) (t_num t + 1) (setN (t_slots t) i item) in
    if 3 * 2 ^ t_lg t <? 4 * t_num t1
    then do t2 <- rebuild t1 (t_lg t + 1); Some (t2, true)
    else Some (t1, true).

(* re-insert all items between the freed slot and the next empty slot *)
Fixpoint reinsert_loop (t : u32t) (mask probe : N) (fuel : nat) : option u32t :=
  match fuel with
  | O => None
  | S f =>
    let fetched := nthN (t_slots t) probe EMPTY in
    if fetched =? EMPTY then Some t
    else
      do t1 <- must_insert (mkT (t_lg t) (t_nvb t) (t_num t) (setN (t_slots t) probe EMPTY)) fetched;
      reinsert_loop t1 mask (N.land (probe + 1) mask) f
  end.

Definition maybe_delete (t : u32t) (item : N) : option (u32t * bool) :=
  do i <- lookup t item;
  let v := nthN (t_slots t) i EMPTY in
  if v =? EMPTY then Some (t, false)
  else if negb (v =? item) then None              (* "item does not exist" *)
  else if t_num t =? 0 then None
  else
    let t1 := mkT (t_lg t) (t_nvb t) (t_num t - 1) (setN (t_slots t) i EMPTY) in
    let mask := 2 ^ t_lg t - 1 in
    do t2 <- reinsert_loop t1 mask (N.land (i + 1) mask) (N.to_nat (2 ^ t_lg t));
    if (4 * t_num t2 <? 2 ^ t_lg t2) && (2 <? t_lg t2)
    then do t3 <- rebuild t2 (t_lg t2 - 1); Some (t3, true)
    else Some (t2, true).

Fixpoint mfp_lg (num lg : N) (fuel : nat) : N :=
  match fuel with
  | O => lg
  | S f => if 3 * 2 ^ lg <? 4 * num then mfp_lg num (lg + 1) f else lg
  end.

Definition make_from_pairs (pairs : list N) (lgk : N) : option u32t :=
  let n := N.of_nat (length pairs) in
  let lg := mfp_lg n 2 40 in
  do t <- fold_left (fun acc v => do a <- acc; must_insert a v) pairs (Some (t_new lg (6 + lgk)));
  Some (mkT (t_lg t) (t_nvb t) n (t_slots t)).

(* the stored items, in slot order *)
Definition t_items (t : u32t) : list N := filter (fun v => negb (v =? EMPTY)) (t_slots t).

(* ------------------------------------------------------------------------------------------ *)
(** * cpc_sketch *)

Record sketch := mkS {
  lgk : N; seed : N; merged : bool; ncoup : N;
  table : u32t; window : list N; woff : N; fic : N }.

Definition lgk_ok (l : N) : bool := (4 <=? l) && (l <=? 26).

Definition sk_new (l sd : N) : sketch := mkS l sd false 0 (t_new 2 (6 + l)) [] 0 0.

Definition row_col_from_two_hashes (h0 h1 l : N) : option N :=
  if 26 <? l then None else
  let k := 2 ^ l in
  let col := N.min (clz64 h1) 63 in
  let row := N.land h0 (k - 1) in
  let rc := N.lor (N.shiftl row 6) col in
  Some (if rc =? EMPTY then N.lxor rc 64 else rc).

Definition FL_EMPTY : N := 0.  Definition FL_SPARSE : N := 1.  Definition FL_HYBRID : N := 2.
Definition FL_PINNED : N := 3. Definition FL_SLIDING : N := 4.

Definition determine_flavor (l c : N) : N :=
  let k := 2 ^ l in
  if c =? 0 then FL_EMPTY
  else if 32 * c <? 3 * k then FL_SPARSE
  else if 2 * c <? k then FL_HYBRID
  else if 8 * c <? 27 * k then FL_PINNED
  else FL_SLIDING.

Definition determine_correct_offset (l c : N) : N :=
  let k := 2 ^ l in
  if 8 * c <? 19 * k then 0 else N.land (N.shiftr (8 * c - 19 * k) (l + 3)) 255.

(* XOR the table's pairs into the matrix *)
Definition xor_slot (m : list N) (v : N) : list N :=
  if v =? EMPTY then m else updN m (N.shiftr v 6) (fun w => N.lxor w (N.shiftl 1 (N.land v 63))).

Fixpoint or_window (m win : list N) (off : N) : list N :=
  match m, win with
  | w :: m', b :: win' => N.lor w (N.shiftl b off) :: or_window m' win' off
  | _, _ => m
  end.

Definition build_bit_matrix (s : sketch) : option (list N) :=
  if 56 <? woff s then None else
  let k := 2 ^ lgk s in
  let m0 := repeat (2 ^ woff s - 1) (N.to_nat k) in
  if ncoup s =? 0 then Some m0 else
  let m1 := match window s with [] => m0 | _ => or_window m0 (window s) (woff s) end in
  Some (fold_left xor_slot (t_slots (table s)) m1).

Definition sum_popcount (m : list N) : N := fold_right (fun w acc => popcount w + acc) 0 m.

Definition validate (s : sketch) : option bool :=
  do m <- build_bit_matrix s; Some (sum_popcount m =? ncoup s).

(* promote_sparse_to_windowed: one old slot *)
Definition promote_slot (acc : option (list N * u32t)) (v : N) : option (list N * u32t) :=
  do (win, nt) <- acc;
  if v =? EMPTY then Some (win, nt) else
  let col := N.land v 63 in
  if col <? 8 then Some (updN win (N.shiftr v 6) (fun b => N.lor b (N.shiftl 1 col)), nt)
  else do (nt', novel) <- maybe_insert nt v; if novel then Some (win, nt') else None.

Definition promote (s : sketch) : option sketch :=
  let k := 2 ^ lgk s in
  let c32 := 32 * ncoup s in
  if negb ((c32 =? 3 * k) || ((lgk s =? 4) && (3 * k <? c32))) then None else
  if negb (woff s =? 0) then None else
  do (win, nt) <- fold_left promote_slot (t_slots (table s))
                    (Some (repeat 0 (N.to_nat k), t_new 2 (6 + lgk s)));
  Some (mkS (lgk s) (seed s) (merged s) (ncoup s) nt win (woff s) (fic s)).

Definition update_sparse (s : sketch) (rc : N) : option sketch :=
  let k := 2 ^ lgk s in
  if 3 * k <=? 32 * ncoup s then None else
  do (t', novel) <- maybe_insert (table s) rc;
  if novel then
    let s1 := mkS (lgk s) (seed s) (merged s) (ncoup s + 1) t' (window s) (woff s) (fic s) in
    if 3 * k <=? 32 * ncoup s1 then promote s1 else Some s1
  else Some (mkS (lgk s) (seed s) (merged s) (ncoup s) t' (window s) (woff s) (fic s)).

(* the inner while loop of move_window / get_result_from_bit_matrix: insert every set bit of [pattern] *)
Fixpoint insert_bits (t : u32t) (row pattern : N) (fuel : nat) : option u32t :=
  match fuel with
  | O => if pattern =? 0 then Some t else None
  | S f =>
    if pattern =? 0 then Some t else
    let col := ctz64 pattern in
    do (t', novel) <- maybe_insert t (N.lor (N.shiftl row 6) col);
    if novel then insert_bits t' row (N.lxor pattern (N.shiftl 1 col)) f else None
  end.

(* the row loop shared by move_window and get_result_from_bit_matrix *)
Fixpoint rows_loop (m : list N) (i off : N) (t : u32t) (ored : N) : option (list N * u32t * N) :=
  match m with
  | [] => Some ([], t, ored)
  | w :: m' =>
    let b := N.land (N.shiftr w off) 255 in
    let p1 := N.land w (N.lxor (N.shiftl 255 off) mask64) in
    let p2 := N.lxor p1 (2 ^ off - 1) in
    do t' <- insert_bits t i p2 64;
    do (win, t'', o) <- rows_loop m' (i + 1) off t' (N.lor ored p2);
    Some (b :: win, t'', o)
  end.

Definition move_window (s : sketch) : option sketch :=
  let new_off := woff s + 1 in
  if 56 <? new_off then None else
  if negb (new_off =? determine_correct_offset (lgk s) (ncoup s)) then None else
  match window s with [] => None | _ =>
  do m <- build_bit_matrix s;
  do (win, t', ored) <- rows_loop m 0 new_off (t_clear (table s)) 0;
  let f := ctz64 ored in
  Some (mkS (lgk s) (seed s) (merged s) (ncoup s) t' win new_off (if new_off <? f then new_off else f))
  end.

Definition update_windowed (s : sketch) (rc : N) : option sketch :=
  if 56 <? woff s then None else
  let k := 2 ^ lgk s in
  if 32 * ncoup s <? 3 * k then None else
  let w8pre := 8 * woff s in
  if (27 + w8pre) * k <=? 8 * ncoup s then None else
  let col := N.land rc 63 in
  do (s1, novel) <-
    (if col <? woff s then
       do (t', nv) <- maybe_delete (table s) rc;
       Some (mkS (lgk s) (seed s) (merged s) (ncoup s) t' (window s) (woff s) (fic s), nv)
     else if col <? woff s + 8 then
       let row := N.shiftr rc 6 in
       let old_bits := nthN (window s) row 0 in
       let new_bits := N.lor old_bits (N.shiftl 1 (col - woff s)) in
       if new_bits =? old_bits then Some (s, false)
       else Some (mkS (lgk s) (seed s) (merged s) (ncoup s) (table s) (setN (window s) row new_bits) (woff s) (fic s), true)
     else
       do (t', nv) <- maybe_insert (table s) rc;
       Some (mkS (lgk s) (seed s) (merged s) (ncoup s) t' (window s) (woff s) (fic s), nv));
  if novel then
    let s2 := mkS (lgk s1) (seed s1) (merged s1) (ncoup s1 + 1) (table s1) (window s1) (woff s1) (fic s1) in
    if (27 + w8pre) * k <=? 8 * ncoup s2 then
      do s3 <- move_window s2;
      if (woff s3 <? 1) || (56 <? woff s3) then None else
      if (27 + 8 * woff s3) * k <=? 8 * ncoup s3 then None else Some s3
    else Some s2
  else Some s1.

Definition row_col_update (s : sketch) (rc : N) : option sketch :=
  let col := N.land rc 63 in
  if col <? fic s then Some s else
  match window s with
  | [] => update_sparse s rc
  | _ => update_windowed s rc
  end.

Definition update_bytes (s : sketch) (bs : list N) : option sketch :=
  let '(h0, h1) := murmur3_x64_128 bs (seed s) in
  do rc <- row_col_from_two_hashes h0 h1 (lgk s);
  row_col_update s rc.

(* ------------------------------------------------------------------------------------------ *)
(** * cpc_union *)

Record union := mkU { u_lgk : N; u_seed : N; u_acc : option sketch; u_bm : list N }.

Definition un_new (l sd : N) : union := mkU l sd (Some (sk_new l sd)) [].

(* golden = 0.6180339887498949025 as a double is 347922205179541 / 2^49; num_slots is a power of two, so the
   product is exact and the cast truncates *)
Definition golden_stride (num_slots : N) : N := 347922205179541 * num_slots / 562949953421312.

Fixpoint walk_loop (acc : sketch) (slots : list N) (mask stride dst_mask j : N) (n : nat) : option sketch :=
  match n with
  | O => Some acc
  | S n' =>
    let j := N.land j mask in
    let rc := nthN slots j EMPTY in
    do acc' <- (if rc =? EMPTY then Some acc else row_col_update acc (N.land rc dst_mask));
    walk_loop acc' slots mask stride dst_mask (j + stride) n'
  end.

Definition walk_table_updating_sketch (acc : sketch) (t : u32t) : option sketch :=
  let num_slots := 2 ^ t_lg t in
  let dst_mask := N.lor (N.shiftl (2 ^ lgk acc - 1) 6) 63 in
  let stride := golden_stride num_slots in
  if stride <? 2 then None else
  let stride := if N.even stride then stride + 1 else stride in
  if (stride <? 3) || (num_slots <=? stride) then None else
  walk_loop acc (t_slots t) (num_slots - 1) stride dst_mask 0 (N.to_nat num_slots).

Definition or_slot (dst_mask : N) (m : list N) (v : N) : list N :=
  if v =? EMPTY then m
  else updN m (N.land (N.shiftr v 6) dst_mask) (fun w => N.lor w (N.shiftl 1 (N.land v 63))).

Definition or_table_into_matrix (bm : list N) (l : N) (t : u32t) : list N :=
  fold_left (or_slot (2 ^ l - 1)) (t_slots t) bm.

(* bit_matrix[src_row & dst_mask] |= f(src[src_row]) for src_row = i, i+1, ... *)
Fixpoint or_rows (bm : list N) (dst_mask : N) (src : list N) (i : N) : list N :=
  match src with
  | [] => bm
  | w :: src' => or_rows (updN bm (N.land i dst_mask) (fun x => N.lor x w)) dst_mask src' (i + 1)
  end.

Definition or_window_into_matrix (bm : list N) (l : N) (win : list N) (off src_lgk : N) : option (list N) :=
  if src_lgk <? l then None else
  Some (or_rows bm (2 ^ l - 1) (map (fun b => N.shiftl b off) (firstn (N.to_nat (2 ^ src_lgk)) win)) 0).

Definition or_matrix_into_matrix (bm : list N) (l : N) (src : list N) (src_lgk : N) : option (list N) :=
  if src_lgk <? l then None else
  Some (or_rows bm (2 ^ l - 1) (firstn (N.to_nat (2 ^ src_lgk)) src) 0).

Definition switch_to_bit_matrix (u : union) : option union :=
  do a <- u_acc u;
  do m <- build_bit_matrix a;
  Some (mkU (u_lgk u) (u_seed u) None m).

Definition is_dense_flavor (f : N) : bool := negb (f =? FL_EMPTY) && negb (f =? FL_SPARSE).

Definition reduce_k (u : union) (new_lgk : N) : option union :=
  if u_lgk u <=? new_lgk then None else
  match u_bm u, u_acc u with
  | [], None => None
  | (_ :: _) as old, Some _ => None
  | (_ :: _) as old, None =>
      do m <- or_matrix_into_matrix (repeat 0 (N.to_nat (2 ^ new_lgk))) new_lgk old (u_lgk u);
      Some (mkU new_lgk (u_seed u) None m)
  | [], Some a =>
      do a' <- (if ncoup a =? 0 then Some a
                else walk_table_updating_sketch (sk_new new_lgk (u_seed u)) (table a));
      let u' := mkU new_lgk (u_seed u) (Some a') [] in
      if is_dense_flavor (determine_flavor (lgk a') (ncoup a')) then switch_to_bit_matrix u' else Some u'
  end.

Definition union_update (u : union) (s : sketch) : option union :=
  if negb (compute_seed_hash (u_seed u) =? compute_seed_hash (seed s)) then None else
  let src_flavor := determine_flavor (lgk s) (ncoup s) in
  if src_flavor =? FL_EMPTY then Some u else
  do u <- (if lgk s <? u_lgk u then reduce_k u (lgk s) else Some u);
  if lgk s <? u_lgk u then None else
  match u_acc u, u_bm u with
  | None, [] => None
  | acc, bm =>
    match (if src_flavor =? FL_SPARSE then acc else None) with
    | Some a =>                                              (* Case A *)
      match bm with _ :: _ => None | [] =>
      let f0 := determine_flavor (lgk a) (ncoup a) in
      if is_dense_flavor f0 then None else
      if (f0 =? FL_EMPTY) && (u_lgk u =? lgk s) then Some (mkU (u_lgk u) (u_seed u) (Some s) [])
      else
        do a' <- walk_table_updating_sketch a (table s);
        let u' := mkU (u_lgk u) (u_seed u) (Some a') [] in
        if is_dense_flavor (determine_flavor (lgk a') (ncoup a')) then switch_to_bit_matrix u' else Some u'
      end
    | None =>
      if (src_flavor =? FL_SPARSE) && (match bm with [] => false | _ => true end) then   (* Case B *)
        match acc with Some _ => None | None =>
          Some (mkU (u_lgk u) (u_seed u) None (or_table_into_matrix bm (u_lgk u) (table s))) end
      else
      do u1 <- (match acc with
                | Some a =>
                  match bm with _ :: _ => None | [] =>
                    if is_dense_flavor (determine_flavor (lgk a) (ncoup a)) then None else switch_to_bit_matrix u
                  end
                | None => Some u
                end);
      match u_bm u1 with
      | [] => None
      | bm1 =>
        if (src_flavor =? FL_HYBRID) || (src_flavor =? FL_PINNED) then                    (* Case C *)
          do m <- or_window_into_matrix bm1 (u_lgk u1) (window s) (woff s) (lgk s);
          Some (mkU (u_lgk u1) (u_seed u1) None (or_table_into_matrix m (u_lgk u1) (table s)))
        else                                                                              (* Case D *)
          do src <- build_bit_matrix s;
          do m <- or_matrix_into_matrix bm1 (u_lgk u1) src (lgk s);
          Some (mkU (u_lgk u1) (u_seed u1) None m)
      end
    end
  end.

Definition get_result_from_bit_matrix (u : union) : option sketch :=
  let l := u_lgk u in
  let k := 2 ^ l in
  let m := firstn (N.to_nat k) (u_bm u) in
  let c := w32 (sum_popcount m) in
  if negb (is_dense_flavor (determine_flavor l c)) then None else
  let off := determine_correct_offset l c in
  let tlg := if l - 4 <? 2 then 2 else l - 4 in
  do (win, t, ored) <- rows_loop m 0 off (t_new tlg (6 + l)) 0;
  let f := ctz64 ored in
  Some (mkS l (u_seed u) true c t win off (if off <? f then off else f)).

Definition get_result (u : union) : option sketch :=
  match u_acc u with
  | Some a =>
    match u_bm u with _ :: _ => None | [] =>
    if negb (u_lgk u =? lgk a) then None else
    if ncoup a =? 0 then Some (sk_new (u_lgk u) (u_seed u)) else
    if negb (determine_flavor (lgk a) (ncoup a) =? FL_SPARSE) then None else
    Some (mkS (lgk a) (seed a) true (ncoup a) (table a) (window a) (woff a) (fic a))
    end
  | None => match u_bm u with [] => None | _ => get_result_from_bit_matrix u end
  end.

(* ------------------------------------------------------------------------------------------ *)
(** * state after deserialize(serialize s): same fields, table rebuilt by make_from_pairs from the sorted
      pairs, offset recomputed from the coupon count (the compressed image itself is modelled in CpcCodec*.v) *)

Fixpoint insert_sorted (x : N) (l : list N) : list N :=
  match l with
  | [] => [x]
  | y :: r => if x <=? y then x :: l else y :: insert_sorted x r
  end.
Definition sortN (l : list N) : list N := fold_right insert_sorted [] l.

Definition roundtrip (s : sketch) : option sketch :=
  let items := sortN (t_items (table s)) in
  do t <- (match items with [] => Some (t_new 2 (6 + lgk s)) | _ => make_from_pairs items (lgk s) end);
  Some (mkS (lgk s) (seed s) (merged s) (ncoup s) t (window s) (determine_correct_offset (lgk s) (ncoup s)) (fic s)).

(* ------------------------------------------------------------------------------------------ *)
(** * L0 specification: the coupon bit matrix of a list of row_col pairs *)

Definition set_coupon (m : list N) (rc : N) : list N :=
  updN m (N.shiftr rc 6) (fun w => N.lor w (N.shiftl 1 (N.land rc 63))).

Definition spec_matrix (l : N) (rcs : list N) : list N :=
  fold_left set_coupon rcs (repeat 0 (N.to_nat (2 ^ l))).

Definition mem (x : N) (l : list N) : bool := existsb (N.eqb x) l.

Fixpoint distinct (l : list N) : list N :=
  match l with
  | [] => []
  | x :: r => if mem x r then distinct r else x :: distinct r
  end.

(* folding a pair of a 2^src rows matrix to 2^l rows *)
Definition fold_rc (l : N) (rc : N) : N := N.land rc (N.lor (N.shiftl (2 ^ l - 1) 6) 63).

Definition sk_run (l sd : N) (rcs : list N) : option sketch :=
  fold_left (fun acc rc => do s <- acc; row_col_update s rc) rcs (Some (sk_new l sd)).

(* ------------------------------------------------------------------------------------------ *)
(** * line protocol *)
Local Open Scope Z_scope.

Inductive obj := OSk (s : sketch) (log : list N) | OUn (u : union) (lg0 : N) (inputs : list (N * list N)).

Definition NL (l : list N) : list Z := map Nz l.

Definition head_tokens (s : sketch) : option (list Z) :=
  do v <- validate s;
  Some [Nz (lgk s); Nz (ncoup s); bz v; Nz (determine_flavor (lgk s) (ncoup s)); Nz (woff s); Nz (fic s);
        bz (merged s); Nz (t_num (table s))].

(* ground truth for a union: lg* and the folded, concatenated logs of the non-empty inputs *)
Definition union_lg (lgu : N) (inputs : list (N * list N)) : N :=
  fold_left (fun m p => match snd p with [] => m | _ => N.min m (fst p) end) inputs lgu.
Definition union_log (lgu : N) (inputs : list (N * list N)) : list N :=
  let l := union_lg lgu inputs in
  flat_map (fun p => map (fold_rc l) (snd p)) inputs.

Definition step (st : list (Z * obj)) (o e : line) : list (Z * obj) * outline :=
  match o with
  | 1 :: r :: l :: sd :: _ =>                              (* new sketch *)
      if lgk_ok (zN l) then (reg_set st r (OSk (sk_new (zN l) (zN sd)) []), (ok, []))
      else (st, (refused, []))
  | 2 :: r :: kind :: args =>                              (* update with an item *)
      match reg_get st r with
      | Some (OSk s log) =>
          match canon_input kind args with                 (* Canon.v: every update overload -> bytes hashed *)
          | None => (st, (ok, []))                         (* empty string ignored *)
          | Some bs =>
            let '(h0, h1) := murmur3_x64_128 bs (seed s) in
            match row_col_from_two_hashes h0 h1 (lgk s) with
            | Some rc =>
              match row_col_update s rc with
              | Some s' => (reg_set st r (OSk s' (rc :: log)), (ok, []))
              | None => (reg_del st r, (refused, []))
              end
            | None => (reg_del st r, (refused, []))
            end
          end
      | _ => (st, (refused, []))
      end
  | 3 :: r :: rc :: _ =>                                   (* raw row_col_update *)
      match reg_get st r with
      | Some (OSk s log) =>
          match row_col_update s (zN rc) with
          | Some s' => (reg_set st r (OSk s' (zN rc :: log)), (ok, []))
          | None => (reg_del st r, (refused, []))
          end
      | _ => (st, (refused, []))
      end
  | 4 :: r :: _ =>                                         (* light dump *)
      match reg_get st r with
      | Some (OSk s log) =>
          match head_tokens s with
          | Some h => (st, (h, [Nz (N.of_nat (length (distinct log)))]))
          | None => (st, (refused, []))
          end
      | _ => (st, (refused, []))
      end
  | 5 :: r :: _ =>                                         (* full dump *)
      match reg_get st r with
      | Some (OSk s log) =>
          match head_tokens s, build_bit_matrix s with
          | Some h, Some m =>
            let items := sortN (t_items (table s)) in
            (st, (h ++ [nz (length (window s))] ++ NL (window s) ++ [nz (length items)] ++ NL items ++ NL m,
                  Nz (N.of_nat (length (distinct log))) :: NL (spec_matrix (lgk s) log)))
          | _, _ => (st, (refused, []))
          end
      | _ => (st, (refused, []))
      end
  | 6 :: r :: r2 :: _ =>                                   (* r2 := deserialize(serialize(r)) *)
      match reg_get st r with
      | Some (OSk s log) =>
          match roundtrip s with
          | Some s' => (reg_set st r2 (OSk s' log), (ok, []))
          | None => (st, (refused, []))
          end
      | _ => (st, (refused, []))
      end
  | 7 :: r :: _ =>                                         (* estimator inputs *)
      match reg_get st r with
      | Some (OSk s log) => (st, ([Nz (lgk s); Nz (ncoup s); bz (merged s)], []))
      | _ => (st, (refused, []))
      end
  | 10 :: r :: l :: sd :: _ =>                             (* new union *)
      if lgk_ok (zN l) then (reg_set st r (OUn (un_new (zN l) (zN sd)) (zN l) []), (ok, []))
      else (st, (refused, []))
  | 11 :: r :: r2 :: _ =>                                  (* union r . update(sketch r2) *)
      match reg_get st r, reg_get st r2 with
      | Some (OUn u lg0 ins), Some (OSk s log) =>
          match union_update u s with
          | Some u' => (reg_set st r (OUn u' lg0 (ins ++ [(lgk s, log)])), (ok, []))
          | None => (reg_del st r, (refused, []))
          end
      | _, _ => (st, (refused, []))
      end
  | 12 :: r :: r2 :: _ =>                                  (* sketch r2 := union r . get_result() *)
      match reg_get st r with
      | Some (OUn u lg0 ins) =>
          match get_result u with
          | Some s => (reg_set st r2 (OSk s (union_log lg0 ins)), ([1; Nz (lgk s)], [Nz (union_lg lg0 ins)]))
          | None => (st, (refused, []))
          end
      | _ => (st, (refused, []))
      end
  | 20 :: h0 :: h1 :: l :: _ =>                            (* row_col_from_two_hashes *)
      match row_col_from_two_hashes (zN h0) (zN h1) (zN l) with
      | Some rc => (st, ([Nz rc], []))
      | None => (st, (refused, []))
      end
  | _ => (st, ([-2], []))
  end.

Definition run (ops : list opline) : list outline := run_case step [] ops.
