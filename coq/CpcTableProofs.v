(* CpcTableProofs.v — partial-correctness proofs for the u32_table model of CpcDefs.v
   (linear probing table of cpc/include/u32_table_impl.hpp).
   Every model function returns [option]; [None] models a throw / non-termination / UB, and all
   statements below only speak about [Some] results. *)
From Coq Require Import ZArith NArith List Bool Lia Permutation.
From DS Require Import Word RunnerLib CpcDefs.
Import ListNotations.
Local Open Scope N_scope.

(* item x stored at slot i is reachable from its home slot by linear probing over non-empty slots *)
Definition home (t : u32t) (x : N) : N := N.shiftr x (t_nvb t - t_lg t).
Definition Reach (t : u32t) (x i : N) : Prop :=
  exists d, d < 2 ^ t_lg t /\ i = (home t x + d) mod 2 ^ t_lg t /\
            forall d', d' < d -> nthN (t_slots t) ((home t x + d') mod 2 ^ t_lg t) EMPTY <> EMPTY.
Definition TInv (t : u32t) : Prop :=
  length (t_slots t) = N.to_nat (2 ^ t_lg t) /\
  NoDup (t_items t) /\
  t_num t = N.of_nat (length (t_items t)) /\
  (forall i, i < 2 ^ t_lg t -> nthN (t_slots t) i EMPTY <> EMPTY -> Reach t (nthN (t_slots t) i EMPTY) i).

(* ------------------------------------------------------------------------------------------ *)
(** * list-level facts *)

Local Notation filt := (filter (fun v => negb (v =? EMPTY))).

Lemma ne_b x : x <> EMPTY -> negb (x =? EMPTY) = true.
Proof. intros H. apply N.eqb_neq in H. rewrite H. reflexivity. Qed.

Lemma setN_length l i v : length (setN l i v) = length l.
Proof. apply upd_nth_length. Qed.

Lemma nthN_setN_eq l i v d : (N.to_nat i < length l)%nat -> nthN (setN l i v) i d = v.
Proof. intros H. unfold nthN, setN. rewrite nth_upd_nth_eq; auto. Qed.

Lemma nthN_setN_neq l i j v d : i <> j -> nthN (setN l i v) j d = nthN l j d.
Proof.
  intros H. unfold nthN, setN. apply nth_upd_nth_neq.
  intro E. apply N2Nat.inj in E. auto.
Qed.

Lemma nthN_setN_self_empty l i : nthN (setN l i EMPTY) i EMPTY = EMPTY.
Proof.
  destruct (Nat.lt_ge_cases (N.to_nat i) (length l)) as [H|H].
  - apply nthN_setN_eq; auto.
  - unfold nthN. apply nth_overflow. rewrite setN_length. lia.
Qed.

Lemma filt_set_empty l : forall i x, (i < length l)%nat -> nth i l EMPTY = EMPTY -> x <> EMPTY ->
  Permutation (filt (upd_nth i (fun _ => x) l)) (x :: filt l).
Proof.
  induction l as [|a l IH]; intros [|i] x Hi Hn Hx; cbn [length] in Hi; try lia.
  - cbn [upd_nth filter nth] in *. subst a. rewrite N.eqb_refl. cbn [negb].
    rewrite (ne_b x Hx). apply Permutation_refl.
  - cbn [upd_nth filter nth] in *. destruct (negb (a =? EMPTY)).
    + eapply perm_trans; [apply perm_skip, IH; auto; lia | apply perm_swap].
    + apply IH; auto; lia.
Qed.

Lemma filt_clear l : forall i, (i < length l)%nat -> nth i l EMPTY <> EMPTY ->
  Permutation (nth i l EMPTY :: filt (upd_nth i (fun _ => EMPTY) l)) (filt l).
Proof.
  induction l as [|a l IH]; intros [|i] Hi Hn; cbn [length] in Hi; try lia.
  - cbn [upd_nth filter nth] in *. rewrite N.eqb_refl. cbn [negb].
    rewrite (ne_b a Hn). apply Permutation_refl.
  - cbn [upd_nth filter nth] in *. destruct (negb (a =? EMPTY)).
    + eapply perm_trans; [apply perm_swap | apply perm_skip, IH; auto; lia].
    + apply IH; auto; lia.
Qed.

Lemma filt_set_emptyN l q x : (N.to_nat q < length l)%nat -> nthN l q EMPTY = EMPTY -> x <> EMPTY ->
  Permutation (filt (setN l q x)) (x :: filt l).
Proof. intros. unfold setN. apply filt_set_empty; auto. Qed.

Lemma filt_clearN l q : (N.to_nat q < length l)%nat -> nthN l q EMPTY <> EMPTY ->
  Permutation (nthN l q EMPTY :: filt (setN l q EMPTY)) (filt l).
Proof. intros. unfold setN, nthN. apply filt_clear; auto. Qed.

Lemma In_filt l y : In y (filt l) <->
  y <> EMPTY /\ exists i, (N.to_nat i < length l)%nat /\ nthN l i EMPTY = y.
Proof.
  rewrite filter_In. split.
  - intros [Hin Hb]. split.
    + intro; subst. rewrite N.eqb_refl in Hb. discriminate.
    + apply (In_nth _ _ EMPTY) in Hin. destruct Hin as (n & Hn & E).
      exists (N.of_nat n). unfold nthN. rewrite Nat2N.id. auto.
  - intros [Hy (i & Hi & E)]. split.
    + subst. apply nth_In; auto.
    + apply ne_b; auto.
Qed.

Lemma filt_repeat n : filt (repeat EMPTY n) = [].
Proof. induction n; cbn [repeat filter]; rewrite ?N.eqb_refl; cbn [negb]; auto. Qed.

Lemma nthN_repeat n i : nthN (repeat EMPTY n) i EMPTY = EMPTY.
Proof. unfold nthN. apply nth_repeat. Qed.

Lemma fold_none {A B} (F : option A -> B -> option A) (HF : forall v, F None v = None) l :
  fold_left F l None = None.
Proof. induction l; cbn [fold_left]; auto. rewrite HF. auto. Qed.

Lemma bdec (P : N -> Prop) (Pdec : forall n, {P n} + {~ P n}) d :
  (exists d', d' < d /\ P d') \/ (forall d', d' < d -> ~ P d').
Proof.
  induction d as [|d IH] using N.peano_ind.
  - right. intros; lia.
  - destruct IH as [(d' & Hd' & HP)|IH].
    + left. exists d'. split; auto; lia.
    + destruct (Pdec d) as [HP|HP].
      * left. exists d. split; auto; lia.
      * right. intros d' Hd'. destruct (N.eq_dec d' d); [subst; auto | apply IH; lia].
Qed.

(* ------------------------------------------------------------------------------------------ *)
(** * slot-level invariants for a fixed geometry (lg, nvb) *)

Section Tab.
Variables lg nvb : N.
Local Notation SZ := (2 ^ lg).

Definition hm (x : N) : N := N.shiftr x (nvb - lg).

Lemma SZ_nz : SZ <> 0.
Proof. apply N.pow_nonzero. lia. Qed.

Lemma SZ_pos : 0 < SZ.
Proof. pose proof SZ_nz. lia. Qed.

Lemma mod_lt a : a mod SZ < SZ.
Proof. apply N.mod_lt, SZ_nz. Qed.

Lemma mod_succ_add p e : ((p + 1) mod SZ + e) mod SZ = (p + (e + 1)) mod SZ.
Proof. rewrite N.add_mod_idemp_l by apply SZ_nz. f_equal. lia. Qed.

Lemma land_mask p : N.land p (SZ - 1) = p mod SZ.
Proof. rewrite <- N.pred_sub, <- N.ones_equiv. apply N.land_ones. Qed.

Lemma add_mod_inj a d1 d2 : d1 < SZ -> d2 < SZ -> (a + d1) mod SZ = (a + d2) mod SZ -> d1 = d2.
Proof.
  intros H1 H2 E.
  pose proof (N.div_mod (a + d1) SZ SZ_nz) as E1.
  pose proof (N.div_mod (a + d2) SZ SZ_nz) as E2.
  rewrite E in E1.
  remember ((a + d1) / SZ) as q1. remember ((a + d2) / SZ) as q2.
  remember ((a + d2) mod SZ) as r. remember SZ as s.
  destruct (N.lt_trichotomy q1 q2) as [L|[L|L]].
  - assert (s * (q1 + 1) <= s * q2) by (apply N.mul_le_mono_l; lia). lia.
  - subst q2. lia.
  - assert (s * (q2 + 1) <= s * q1) by (apply N.mul_le_mono_l; lia). lia.
Qed.

Definition reach (sl : list N) (x i : N) : Prop :=
  exists d, d < SZ /\ i = (hm x + d) mod SZ /\
            forall d', d' < d -> nthN sl ((hm x + d') mod SZ) EMPTY <> EMPTY.

Definition allreach (sl : list N) : Prop :=
  forall i, i < SZ -> nthN sl i EMPTY <> EMPTY -> reach sl (nthN sl i EMPTY) i.

(* i lies in the run of non-empty slots starting at p *)
Definition intail (sl : list N) (p i : N) : Prop :=
  exists d, d < SZ /\ i = (p + d) mod SZ /\
            forall d', d' <= d -> nthN sl ((p + d') mod SZ) EMPTY <> EMPTY.

Definition TailInv (sl : list N) (p : N) : Prop :=
  forall i, i < SZ -> nthN sl i EMPTY <> EMPTY -> reach sl (nthN sl i EMPTY) i \/ intail sl p i.

(* the result of a lookup: slot q ends the probe path of x *)
Definition found (sl : list N) (x q : N) : Prop :=
  q < SZ /\ exists d, d < SZ /\ q = (hm x + d) mod SZ /\
    forall d', d' < d -> nthN sl ((hm x + d') mod SZ) EMPTY <> EMPTY /\
                         nthN sl ((hm x + d') mod SZ) EMPTY <> x.

Lemma lookup_from_spec sl x fuel : forall p i, p < SZ ->
  lookup_from sl (SZ - 1) x p fuel = Some i ->
  exists d, (N.to_nat d < fuel)%nat /\ i = (p + d) mod SZ /\
   (forall d', d' < d -> nthN sl ((p + d') mod SZ) EMPTY <> EMPTY /\
                         nthN sl ((p + d') mod SZ) EMPTY <> x) /\
   (nthN sl i EMPTY = x \/ nthN sl i EMPTY = EMPTY).
Proof.
  induction fuel as [|fuel IH]; intros p i Hp H; cbn [lookup_from] in H; [discriminate|].
  destruct ((nthN sl p EMPTY =? x) || (nthN sl p EMPTY =? EMPTY)) eqn:E.
  - inversion H; subst i. exists 0. split; [lia|]. split.
    + rewrite N.add_0_r, N.mod_small; auto.
    + split; [intros; lia|].
      apply orb_true_iff in E. destruct E as [E|E]; apply N.eqb_eq in E; auto.
  - rewrite land_mask in H. apply IH in H; [|apply mod_lt].
    destruct H as (d & Hd & Hi & Hpath & Hend). exists (d + 1). split; [lia|]. split.
    + rewrite Hi. apply mod_succ_add.
    + split; auto. intros d' Hd'.
      apply orb_false_iff in E. destruct E as [E1 E2]. apply N.eqb_neq in E1, E2.
      destruct (N.eq_dec d' 0) as [->|Hnz].
      * rewrite N.add_0_r, N.mod_small by auto. auto.
      * specialize (Hpath (d' - 1)). rewrite mod_succ_add in Hpath.
        replace (d' - 1 + 1) with d' in Hpath by lia. apply Hpath. lia.
Qed.

Lemma lookup_spec num sl x q : lookup (mkT lg nvb num sl) x = Some q ->
  found sl x q /\ (nthN sl q EMPTY = x \/ nthN sl q EMPTY = EMPTY).
Proof.
  unfold lookup. cbn [t_lg t_nvb t_slots]. cbv zeta.
  destruct (nvb <? lg); [discriminate|].
  change (N.shiftr x (nvb - lg)) with (hm x).
  destruct (SZ - 1 <? hm x) eqn:E; [discriminate|]. apply N.ltb_ge in E.
  intros H. pose proof SZ_pos.
  apply lookup_from_spec in H; [|lia].
  destruct H as (d & Hd & Hi & Hpath & Hend).
  split; auto. split.
  - rewrite Hi. apply mod_lt.
  - exists d. split; [lia|]. auto.
Qed.

Lemma must_insert_inv num sl x t' : must_insert (mkT lg nvb num sl) x = Some t' ->
  exists q, found sl x q /\ nthN sl q EMPTY = EMPTY /\ t' = mkT lg nvb num (setN sl q x).
Proof.
  unfold must_insert. destruct (lookup _ x) as [q|] eqn:L; [|discriminate].
  apply lookup_spec in L. destruct L as [Hf _]. cbn [t_lg t_nvb t_num t_slots]. cbv zeta.
  destruct (nthN sl q EMPTY =? x); [discriminate|].
  destruct (nthN sl q EMPTY =? EMPTY) eqn:E; cbn [negb]; [|discriminate].
  intros H; inversion H. apply N.eqb_eq in E. eauto.
Qed.

(* an item whose probe path ends on an EMPTY slot is stored nowhere *)
Lemma absent sl x q : allreach sl -> found sl x q -> nthN sl q EMPTY = EMPTY -> x <> EMPTY ->
  forall j, j < SZ -> nthN sl j EMPTY <> x.
Proof.
  intros Hall (Hq & d & Hd & Hqd & Hpath) Hqe Hx j Hj E.
  assert (Hne : nthN sl j EMPTY <> EMPTY) by congruence.
  pose proof (Hall j Hj Hne) as Hr. rewrite E in Hr.
  destruct Hr as (d2 & Hd2 & Hj2 & Hp2).
  destruct (N.lt_trichotomy d2 d) as [L|[L|L]].
  - destruct (Hpath d2 L) as [_ Hc]. apply Hc. rewrite <- Hj2. exact E.
  - subst d2. rewrite <- Hqd in Hj2. subst j. congruence.
  - apply (Hp2 d L). rewrite <- Hqd. exact Hqe.
Qed.

Lemma absent_items sl x q : length sl = N.to_nat SZ ->
  allreach sl -> found sl x q -> nthN sl q EMPTY = EMPTY -> x <> EMPTY -> ~ In x (filt sl).
Proof.
  intros Hlen Hall Hf Hqe Hx Hin. apply In_filt in Hin. destruct Hin as [_ (i & Hi & E)].
  eapply absent; eauto. lia.
Qed.

Lemma present_items sl x q : length sl = N.to_nat SZ ->
  q < SZ -> nthN sl q EMPTY = x -> x <> EMPTY -> In x (filt sl).
Proof. intros Hlen Hq E Hx. apply In_filt. split; auto. exists q. split; auto. lia. Qed.

Lemma reach_mono sl sl' x i :
  (forall k, nthN sl k EMPTY <> EMPTY -> nthN sl' k EMPTY <> EMPTY) -> reach sl x i -> reach sl' x i.
Proof. intros Hm (d & Hd & Hi & Hp). exists d. repeat split; auto. Qed.

Lemma intail_mono sl sl' p i :
  (forall k, nthN sl k EMPTY <> EMPTY -> nthN sl' k EMPTY <> EMPTY) -> intail sl p i -> intail sl' p i.
Proof. intros Hm (d & Hd & Hi & Hp). exists d. repeat split; auto. Qed.

Lemma fuller sl q f : f <> EMPTY -> length sl = N.to_nat SZ -> q < SZ ->
  forall k, nthN sl k EMPTY <> EMPTY -> nthN (setN sl q f) k EMPTY <> EMPTY.
Proof.
  intros Hf Hlen Hq k Hk. destruct (N.eq_dec q k) as [<-|Hne].
  - rewrite nthN_setN_eq; auto. lia.
  - rewrite nthN_setN_neq; auto.
Qed.

Lemma found_reach sl f q : f <> EMPTY -> length sl = N.to_nat SZ -> found sl f q ->
  reach (setN sl q f) f q.
Proof.
  intros Hf Hlen (Hq & d & Hd & Hqd & Hpath). exists d. repeat split; auto.
  intros d' Hd'. apply fuller; auto. apply Hpath; auto.
Qed.

Lemma allreach_insert sl q f : f <> EMPTY -> length sl = N.to_nat SZ -> found sl f q ->
  allreach sl -> allreach (setN sl q f).
Proof.
  intros Hf Hlen Hfd Hall j Hj Hne. pose proof Hfd as (Hq & _).
  destruct (N.eq_dec q j) as [<-|Hqj].
  - rewrite nthN_setN_eq by lia. apply found_reach; auto.
  - rewrite nthN_setN_neq in * by auto.
    eapply reach_mono; [apply fuller; auto | apply Hall; auto].
Qed.

Lemma tail_insert sl p q f : f <> EMPTY -> length sl = N.to_nat SZ -> found sl f q ->
  TailInv sl p -> TailInv (setN sl q f) p.
Proof.
  intros Hf Hlen Hfd HT j Hj Hne. pose proof Hfd as (Hq & _).
  destruct (N.eq_dec q j) as [<-|Hqj].
  - left. rewrite nthN_setN_eq by lia. apply found_reach; auto.
  - rewrite nthN_setN_neq in * by auto.
    destruct (HT j Hj Hne) as [Hr|Ht].
    + left. eapply reach_mono; [apply fuller; auto | auto].
    + right. eapply intail_mono; [apply fuller; auto | auto].
Qed.

Lemma allreach_tail sl p : allreach sl -> TailInv sl p.
Proof. intros H j Hj Hne. left. auto. Qed.

Lemma tail_end sl p : p < SZ -> nthN sl p EMPTY = EMPTY -> TailInv sl p -> allreach sl.
Proof.
  intros Hp He HT j Hj Hne. destruct (HT j Hj Hne) as [Hr|(d & Hd & Hi & Hpath)]; auto.
  exfalso. apply (Hpath 0); [lia|]. rewrite N.add_0_r, N.mod_small; auto.
Qed.

(* a probe path either avoids slot p or the item sits in the run starting at p *)
Lemma reach_or_tail sl y j p : reach sl y j -> nthN sl j EMPTY <> EMPTY ->
  (exists d, d < SZ /\ j = (hm y + d) mod SZ /\
     forall d', d' < d -> nthN sl ((hm y + d') mod SZ) EMPTY <> EMPTY /\ (hm y + d') mod SZ <> p)
  \/ intail sl p j.
Proof.
  intros (d & Hd & Hj & Hpath) Hne.
  destruct (bdec (fun d' => (hm y + d') mod SZ = p) (fun n => N.eq_dec _ _) d)
    as [(d0 & Hd0 & Hp)|Hno].
  - right. exists (d - d0). split; [lia|]. split.
    + rewrite <- Hp, N.add_mod_idemp_l by apply SZ_nz. rewrite Hj. f_equal. lia.
    + intros d' Hd'. rewrite <- Hp, N.add_mod_idemp_l by apply SZ_nz.
      destruct (N.eq_dec d' (d - d0)) as [->|Hlt].
      * replace (hm y + d0 + (d - d0)) with (hm y + d) by lia. rewrite <- Hj. auto.
      * replace (hm y + d0 + d') with (hm y + (d0 + d')) by lia. apply Hpath. lia.
  - left. exists d. repeat split; auto.
Qed.

Lemma tail_shift sl p j : p < SZ -> intail sl p j -> j <> p ->
  intail (setN sl p EMPTY) ((p + 1) mod SZ) j.
Proof.
  intros Hp (e & He & Hj & Hpath) Hjp.
  assert (e <> 0).
  { intros ->. apply Hjp. rewrite Hj, N.add_0_r, N.mod_small; auto. }
  exists (e - 1). split; [lia|]. split.
  - rewrite mod_succ_add. rewrite Hj. f_equal. lia.
  - intros d' Hd'. rewrite mod_succ_add.
    rewrite nthN_setN_neq; [apply Hpath; lia|].
    intros E. assert (E' : (p + 0) mod SZ = (p + (d' + 1)) mod SZ).
    { rewrite N.add_0_r, N.mod_small; auto. }
    apply add_mod_inj in E'; lia.
Qed.

Lemma tail_clear sl p : p < SZ -> TailInv sl p -> TailInv (setN sl p EMPTY) ((p + 1) mod SZ).
Proof.
  intros Hp HT j Hj Hne.
  assert (Hjp : j <> p).
  { intros ->. apply Hne. apply nthN_setN_self_empty. }
  rewrite nthN_setN_neq in * by auto.
  assert (Htail : intail sl p j -> intail (setN sl p EMPTY) ((p + 1) mod SZ) j).
  { intros Ht. apply tail_shift; auto. }
  destruct (HT j Hj Hne) as [Hr|Ht]; auto.
  apply (reach_or_tail _ _ _ p) in Hr; auto.
  destruct Hr as [(d & Hd & Hjd & Hpath)|Ht]; auto.
  left. exists d. repeat split; auto. intros d' Hd'.
  destruct (Hpath d' Hd') as [H1 H2]. rewrite nthN_setN_neq; auto.
Qed.

Lemma reinsert_loop_spec fuel : forall num sl p t', p < SZ -> length sl = N.to_nat SZ ->
  TailInv sl p ->
  reinsert_loop (mkT lg nvb num sl) (SZ - 1) p fuel = Some t' ->
  exists sl', t' = mkT lg nvb num sl' /\ length sl' = N.to_nat SZ /\ allreach sl' /\
              Permutation (filt sl') (filt sl).
Proof.
  induction fuel as [|fuel IH]; intros num sl p t' Hp Hlen HT H; cbn [reinsert_loop] in H;
    [discriminate|].
  cbn [t_lg t_nvb t_num t_slots] in H. cbv zeta in H.
  destruct (nthN sl p EMPTY =? EMPTY) eqn:E.
  - inversion H. apply N.eqb_eq in E. exists sl. repeat split; auto.
    eapply tail_end; eauto.
  - apply N.eqb_neq in E.
    destruct (must_insert _ (nthN sl p EMPTY)) as [t1|] eqn:EM; [|discriminate].
    apply must_insert_inv in EM. destruct EM as (q & Hfd & Hq & ->).
    rewrite land_mask in H. pose proof Hfd as (Hqlt & _).
    apply IH in H.
    + destruct H as (sl' & -> & Hlen' & Hall' & HP). exists sl'. repeat split; auto.
      eapply perm_trans; [exact HP|].
      eapply perm_trans; [apply filt_set_emptyN; auto; rewrite setN_length; lia|].
      apply filt_clearN; auto. lia.
    + apply mod_lt.
    + rewrite !setN_length. auto.
    + apply tail_insert; auto. rewrite setN_length; auto. apply tail_clear; auto.
Qed.

Lemma reinsert_all_spec old : forall num sl t', length sl = N.to_nat SZ -> allreach sl ->
  reinsert_all (mkT lg nvb num sl) old = Some t' ->
  exists sl', t' = mkT lg nvb num sl' /\ length sl' = N.to_nat SZ /\ allreach sl' /\
              Permutation (filt sl') (filt old ++ filt sl).
Proof.
  unfold reinsert_all.
  induction old as [|v old IH]; intros num sl t' Hlen Hall H; cbn [fold_left] in H.
  - inversion H. exists sl. repeat split; auto.
  - destruct (v =? EMPTY) eqn:E.
    + apply IH in H; auto. destruct H as (sl' & -> & Hlen' & Hall' & HP).
      exists sl'. repeat split; auto. cbn [filter]. rewrite E. cbn [negb]. auto.
    + destruct (must_insert (mkT lg nvb num sl) v) as [t1|] eqn:EM.
      * apply must_insert_inv in EM. destruct EM as (q & Hfd & Hq & ->).
        apply N.eqb_neq in E. pose proof Hfd as (Hqlt & _).
        apply IH in H; [|rewrite setN_length; auto|apply allreach_insert; auto].
        destruct H as (sl' & -> & Hlen' & Hall' & HP).
        exists sl'. repeat split; auto. cbn [filter]. rewrite (ne_b v E). cbn [app].
        eapply perm_trans; [exact HP|].
        eapply perm_trans; [apply Permutation_app_head, filt_set_emptyN; auto; lia|].
        apply Permutation_sym, Permutation_middle.
      * rewrite fold_none in H by reflexivity. discriminate.
Qed.

Lemma allreach_empty n : allreach (repeat EMPTY n).
Proof. intros i Hi Hne. exfalso. apply Hne. apply nthN_repeat. Qed.

End Tab.

(* ------------------------------------------------------------------------------------------ *)
(** * record-level statements *)

Lemma TInv_mk lg nvb num sl : TInv (mkT lg nvb num sl) <->
  (length sl = N.to_nat (2 ^ lg) /\ NoDup (filt sl) /\ num = N.of_nat (length (filt sl)) /\
   allreach lg nvb sl).
Proof. reflexivity. Qed.

Lemma TInv_of_perm lg nvb num sl L : length sl = N.to_nat (2 ^ lg) -> allreach lg nvb sl ->
  Permutation (filt sl) L -> NoDup L -> num = N.of_nat (length L) -> TInv (mkT lg nvb num sl).
Proof.
  intros Hlen Hall HP Hnd Hnum. apply TInv_mk. repeat split; auto.
  - eapply Permutation_NoDup; [apply Permutation_sym; eauto | auto].
  - rewrite (Permutation_length HP). auto.
Qed.

Lemma rebuild_spec t new_lg t' : rebuild t new_lg = Some t' ->
  exists sl', t' = mkT new_lg (t_nvb t) (t_num t) sl' /\ length sl' = N.to_nat (2 ^ new_lg) /\
              allreach new_lg (t_nvb t) sl' /\ Permutation (filt sl') (t_items t).
Proof.
  unfold rebuild. destruct (new_lg <? 2); [discriminate|].
  destruct (2 ^ new_lg <=? t_num t); [discriminate|].
  intros H. apply reinsert_all_spec in H.
  - destruct H as (sl' & ? & ? & ? & HP). exists sl'. repeat split; auto.
    rewrite filt_repeat, app_nil_r in HP. exact HP.
  - apply repeat_length.
  - apply allreach_empty.
Qed.

Lemma t_items_new lg nvb : t_items (t_new lg nvb) = [].
Proof. unfold t_items, t_new. cbn [t_slots]. apply filt_repeat. Qed.

Lemma TInv_new lg nvb : TInv (t_new lg nvb).
Proof.
  unfold t_new. apply TInv_mk. rewrite filt_repeat. repeat split.
  - apply repeat_length.
  - constructor.
  - apply allreach_empty.
Qed.

Lemma t_clear_spec t : TInv t ->
  TInv (t_clear t) /\ t_items (t_clear t) = [] /\ t_lg (t_clear t) = t_lg t /\
  t_nvb (t_clear t) = t_nvb t.
Proof.
  destruct t as [lg nvb num sl]. intros HT. pose proof (proj1 (TInv_mk lg nvb num sl) HT) as (Hlen & _).
  unfold t_clear, t_items. cbn [t_lg t_nvb t_num t_slots]. rewrite filt_repeat.
  split; [|repeat split; auto]. apply TInv_mk. rewrite filt_repeat. repeat split.
  - rewrite repeat_length. auto.
  - constructor.
  - apply allreach_empty.
Qed.

Lemma t_items_not_empty t x : In x (t_items t) -> x <> EMPTY.
Proof. unfold t_items. intros H. apply In_filt in H. tauto. Qed.

Theorem maybe_insert_spec t x t' b : TInv t -> x <> EMPTY -> maybe_insert t x = Some (t', b) ->
  TInv t' /\ t_nvb t' = t_nvb t /\ (b = true <-> ~ In x (t_items t)) /\
  (forall y, In y (t_items t') <-> y = x \/ In y (t_items t)).
Proof.
  destruct t as [lg nvb num sl]. intros HT Hx. pose proof HT as HT0.
  pose proof (proj1 (TInv_mk lg nvb num sl) HT) as (Hlen & Hnd & Hnum & Hall). clear HT.
  unfold maybe_insert. destruct (lookup _ x) as [q|] eqn:L; [|discriminate].
  apply lookup_spec in L. destruct L as [Hfd Hv]. pose proof Hfd as (Hq & _).
  unfold t_items. cbn [t_lg t_nvb t_num t_slots]. cbv zeta.
  destruct (nthN sl q EMPTY =? x) eqn:E1.
  - intros H; inversion H; subst t' b. apply N.eqb_eq in E1.
    assert (Hin : In x (filt sl)) by (eapply present_items; eauto).
    cbn [t_nvb t_slots]. repeat split; auto; try discriminate; try contradiction.
    intros [->|]; auto.
  - apply N.eqb_neq in E1. destruct Hv as [Hv|Hv]; [contradiction|].
    rewrite Hv, N.eqb_refl. cbn [negb].
    assert (Habs : ~ In x (filt sl)) by (eapply absent_items; eauto).
    assert (HP : Permutation (filt (setN sl q x)) (x :: filt sl))
      by (apply filt_set_emptyN; auto; lia).
    assert (Hnd1 : NoDup (x :: filt sl)) by (constructor; auto).
    assert (Hnum1 : num + 1 = N.of_nat (length (x :: filt sl))) by (cbn [length]; lia).
    assert (Hall1 : allreach lg nvb (setN sl q x)) by (apply allreach_insert; auto).
    assert (Hlen1 : length (setN sl q x) = N.to_nat (2 ^ lg)) by (rewrite setN_length; auto).
    assert (Hfin : forall lg' sl', length sl' = N.to_nat (2 ^ lg') -> allreach lg' nvb sl' ->
              Permutation (filt sl') (x :: filt sl) ->
              TInv (mkT lg' nvb (num + 1) sl') /\ nvb = nvb /\ (true = true <-> ~ In x (filt sl)) /\
              (forall y, In y (filt sl') <-> y = x \/ In y (filt sl))).
    { intros lg' sl' Hl' Ha' HP'. split; [eapply TInv_of_perm; eauto|].
      repeat split; auto.
      - intros Hy. apply (Permutation_in _ HP') in Hy. destruct Hy; auto.
      - intros Hy. apply (Permutation_in _ (Permutation_sym HP')). destruct Hy; [left|right]; auto. }
    destruct (3 * 2 ^ lg <? 4 * (num + 1)).
    + destruct (rebuild _ _) as [t2|] eqn:R; [|discriminate].
      intros H; inversion H; subst t' b.
      apply rebuild_spec in R. destruct R as (sl' & -> & Hl' & Ha' & HP').
      unfold t_items in HP'. cbn [t_lg t_nvb t_num t_slots] in *.
      apply Hfin; auto. eapply perm_trans; eauto.
    + intros H; inversion H; subst t' b. cbn [t_lg t_nvb t_num t_slots]. apply Hfin; auto.
Qed.

Theorem maybe_delete_spec t x t' b : TInv t -> x <> EMPTY -> maybe_delete t x = Some (t', b) ->
  TInv t' /\ t_nvb t' = t_nvb t /\ (b = true <-> In x (t_items t)) /\
  (forall y, In y (t_items t') <-> y <> x /\ In y (t_items t)).
Proof.
  destruct t as [lg nvb num sl]. intros HT Hx. pose proof HT as HT0.
  pose proof (proj1 (TInv_mk lg nvb num sl) HT) as (Hlen & Hnd & Hnum & Hall). clear HT.
  unfold maybe_delete. destruct (lookup _ x) as [q|] eqn:L; [|discriminate].
  apply lookup_spec in L. destruct L as [Hfd Hv]. pose proof Hfd as (Hq & _).
  unfold t_items. cbn [t_lg t_nvb t_num t_slots]. cbv zeta.
  destruct (nthN sl q EMPTY =? EMPTY) eqn:E1.
  - intros H; inversion H; subst t' b. apply N.eqb_eq in E1.
    assert (Habs : ~ In x (filt sl)) by (eapply absent_items; eauto).
    cbn [t_nvb t_slots]. repeat split; auto; try discriminate; try contradiction; try tauto.
    intros ->. tauto.
  - apply N.eqb_neq in E1. destruct Hv as [Hv|Hv]; [|contradiction].
    rewrite Hv, N.eqb_refl. cbn [negb].
    destruct (num =? 0); [discriminate|].
    rewrite land_mask.
    destruct (reinsert_loop _ _ _ _) as [t2|] eqn:RL; [|discriminate].
    apply reinsert_loop_spec in RL;
      [| apply mod_lt | rewrite setN_length; auto | apply tail_clear; auto; apply allreach_tail; auto].
    destruct RL as (sl2 & -> & Hlen2 & Hall2 & HP2).
    assert (HP1 : Permutation (x :: filt (setN sl q EMPTY)) (filt sl)).
    { rewrite <- Hv at 1. apply filt_clearN; [lia|congruence]. }
    assert (HP : Permutation (x :: filt sl2) (filt sl)).
    { eapply perm_trans; [apply perm_skip; exact HP2 | exact HP1]. }
    assert (Hnd1 : NoDup (x :: filt sl2)).
    { eapply Permutation_NoDup; [apply Permutation_sym; exact HP | auto]. }
    apply NoDup_cons_iff in Hnd1. destruct Hnd1 as [Hnin Hnd2].
    assert (Hnum2 : num - 1 = N.of_nat (length (filt sl2))).
    { rewrite Hnum, <- (Permutation_length HP). cbn [length]. lia. }
    assert (Hin : In x (filt sl)) by (apply (Permutation_in _ HP); left; auto).
    assert (Hfin : forall lg' sl', length sl' = N.to_nat (2 ^ lg') -> allreach lg' nvb sl' ->
              Permutation (filt sl') (filt sl2) ->
              TInv (mkT lg' nvb (num - 1) sl') /\ nvb = nvb /\
              (true = true <-> In x (filt sl)) /\
              (forall y, In y (filt sl') <-> y <> x /\ In y (filt sl))).
    { intros lg' sl' Hl' Ha' HP'. split; [eapply TInv_of_perm; eauto|].
      repeat split; auto.
      - intros ->. apply Hnin. apply (Permutation_in _ HP'). auto.
      - apply (Permutation_in _ HP). right. apply (Permutation_in _ HP'). auto.
      - intros [Hyx Hy]. apply (Permutation_in _ (Permutation_sym HP)) in Hy.
        destruct Hy as [->|Hy]; [congruence|].
        apply (Permutation_in _ (Permutation_sym HP')). auto. }
    cbn [t_lg t_nvb t_num t_slots].
    destruct ((4 * (num - 1) <? 2 ^ lg) && (2 <? lg)).
    + destruct (rebuild _ _) as [t3|] eqn:R; [|discriminate].
      intros H; inversion H; subst t' b.
      apply rebuild_spec in R. destruct R as (sl' & -> & Hl' & Ha' & HP').
      unfold t_items in HP'. cbn [t_lg t_nvb t_num t_slots] in *.
      apply Hfin; auto.
    + intros H; inversion H; subst t' b. cbn [t_lg t_nvb t_num t_slots]. apply Hfin; auto.
Qed.

Lemma mfp_fold pairs : (forall x, In x pairs -> x <> EMPTY) -> forall acc,
  fold_left (fun acc v => do a <- acc; must_insert a v) pairs acc =
  fold_left (fun acc v => do a <- acc; if v =? EMPTY then Some a else must_insert a v) pairs acc.
Proof.
  induction pairs as [|v pairs IH]; intros Hne acc; cbn [fold_left]; auto.
  rewrite IH by (intros; apply Hne; right; auto).
  f_equal. destruct acc; auto.
  assert (E : v <> EMPTY) by (apply Hne; left; auto). apply N.eqb_neq in E. rewrite E. auto.
Qed.

Lemma filt_all l : (forall x, In x l -> x <> EMPTY) -> filt l = l.
Proof.
  induction l as [|a l IH]; intros H; cbn [filter]; auto.
  rewrite ne_b by (apply H; left; reflexivity). f_equal. apply IH. intros; apply H; right; auto.
Qed.

Theorem make_from_pairs_spec pairs lgk t : NoDup pairs -> (forall x, In x pairs -> x <> EMPTY) ->
  make_from_pairs pairs lgk = Some t ->
  TInv t /\ t_nvb t = 6 + lgk /\ (forall y, In y (t_items t) <-> In y pairs).
Proof.
  intros Hnd Hne. unfold make_from_pairs. cbv zeta. rewrite mfp_fold by auto.
  unfold t_new.
  match goal with |- context [fold_left ?F pairs (Some ?t0)] =>
    change (fold_left F pairs (Some t0)) with (reinsert_all t0 pairs) end.
  destruct (reinsert_all _ pairs) as [t1|] eqn:R; [|discriminate].
  apply reinsert_all_spec in R; [|apply repeat_length|apply allreach_empty].
  destruct R as (sl' & -> & Hl' & Ha' & HP').
  rewrite filt_repeat, app_nil_r, (filt_all pairs) in HP' by auto.
  intros H; inversion H; subst t. unfold t_items. cbn [t_lg t_nvb t_num t_slots].
  split; [eapply TInv_of_perm; eauto|]. split; auto.
  intros y. split; intros Hy.
  - apply (Permutation_in _ HP'). auto.
  - apply (Permutation_in _ (Permutation_sym HP')). auto.
Qed.
