(* Properties_C10_cq.v — C10 for the classic quantiles sketch: the image follows the documented little-endian layout,
   and images of the older forms the reader accepts (serial versions 1 and 2, non-compact version 3) are read as
   documented.  Offsets are those of the layout comment in quantiles_sketch.hpp.
   Statements only; proofs in CqCodecProofs.v. *)
From Coq Require Import ZArith List Bool Lia Permutation Sorted.
From DS Require Import RunnerLib SortedView CqDefs CqProofs CqView CqCodecDefs CqCodecProofs.
Import ListNotations.
Local Open Scope Z_scope.

(* bytes 0..7: preamble_longs (1 empty / 2), serial version 3, family 8, flags (empty 0x04 | compact 0x08 | sorted 0x10),
   k little endian, two unused zero bytes *)
Theorem C10_cq_preamble : forall kind s log, reach s log ->
  firstn 8 (cq_enc kind s) =
  [if cn s =? 0 then 1 else 2; 3; 8; (if cn s =? 0 then 4 else 0) + 8 + 16; ck s mod 256; ck s / 256; 0; 0].
Proof.
  intros kind s log R. pose proof (valid_k_lt _ (i_k s (r_inv s log (reach_Rel s log R)))) as K.
  unfold cq_enc, flags_of. cbn [le app firstn]. rewrite (Z.mod_small (ck s / 256)); [reflexivity|].
  split; [apply Z.div_pos; lia|apply Z.div_lt_upper_bound; lia].
Qed.

(* an empty sketch is the 8-byte preamble alone *)
Theorem C10_cq_empty_image : forall kind s, cn s = 0 -> length (cq_enc kind s) = 8%nat.
Proof. intros kind s Z0. unfold cq_enc. rewrite Z0. reflexivity. Qed.

(* bytes 8..15: n; 16..23 min item; 24..31 max item; from 32 on the base buffer (sorted) and then the full levels,
   lowest first, 8 bytes per item *)
Theorem C10_cq_body : forall kind s, cn s <> 0 ->
  firstn 8 (skipn 8 (cq_enc kind s)) = le 8 (cn s) /\
  firstn 8 (skipn 16 (cq_enc kind s)) = item_enc kind (cmin s) /\
  firstn 8 (skipn 24 (cq_enc kind s)) = item_enc kind (cmax s) /\
  skipn 32 (cq_enc kind s) = flat_map (item_enc kind) (isort (cbb s) ++ concat (clv s)).
Proof.
  intros kind s NZ. unfold cq_enc. destruct (Z.eqb_spec (cn s) 0); [contradiction|].
  cbn [le app skipn].
  pose proof (item_enc_length kind (cmin s)) as L1. pose proof (item_enc_length kind (cmax s)) as L2.
  destruct (item_enc kind (cmin s)) as [|a0 [|a1 [|a2 [|a3 [|a4 [|a5 [|a6 [|a7 [|? ?]]]]]]]]]; try discriminate.
  destruct (item_enc kind (cmax s)) as [|b0 [|b1 [|b2 [|b3 [|b4 [|b5 [|b6 [|b7 [|? ?]]]]]]]]]; try discriminate.
  cbn [app firstn skipn]. rewrite flat_map_app. repeat split; reflexivity.
Qed.

(* every form deserialize accepts is read as documented: serial version sv with its preamble_longs (5 for version 1,
   else 2), any flags byte with the empty bit clear (and, for versions 1 and 2, the compact bit clear), the unused long
   of version 1, the base buffer as stored, the unused base-buffer slots of a non-compact image of an estimating
   sketch, then k items for every set bit of n / 2k.  The sorted flag is taken from bit 4. *)
Theorem C10_cq_documented_forms_readable : forall kind sv fl unused pad s rest,
  Inv s -> 0 < cn s -> Fits kind s -> doc_header_ok sv fl -> (sv = 1 -> length unused = 8%nat) ->
  length pad = doc_pad_len sv fl s ->
  cq_dec kind (cq_enc_doc kind sv fl unused pad s ++ rest) =
  Some (mkcq (ck s) (cn s) (cbp s) (cbb s) (clv s) (cmin s) (cmax s) (bit fl 4), rest).
Proof. exact dec_doc. Qed.

(* what serialize() writes is the version-3 compact sorted instance of the documented form *)
Theorem C10_cq_own_image_is_documented_form : forall kind s, cn s <> 0 ->
  cq_enc kind s = cq_enc_doc kind 3 24 [] [] (ser_state s).
Proof. exact enc_is_doc. Qed.

(* the header table of check_header_validity: the documented combinations are accepted, neighbours are not; the switch
   value is computed in a uint8_t, so preamble_longs values that differ by a multiple of 8 are not told apart *)
Theorem C10_cq_header_table :
  header_valid 1 4 1 = true /\ header_valid 5 0 1 = true /\          (* v1: empty (1 long), full (5 longs), never compact *)
  header_valid 1 4 2 = true /\ header_valid 2 0 2 = true /\          (* v2: empty, full *)
  header_valid 1 4 3 = true /\ header_valid 1 12 3 = true /\ header_valid 2 4 3 = true /\ header_valid 2 12 3 = true /\
  header_valid 2 0 3 = true /\ header_valid 2 8 3 = true /\           (* v3: empty with 1 or 2 longs, full, compact or not *)
  header_valid 1 0 3 = false /\ header_valid 2 0 1 = false /\ header_valid 5 8 1 = false /\ header_valid 2 8 2 = false /\
  header_valid 3 0 3 = false /\ header_valid 5 4 1 = false /\
  header_valid 9 4 3 = true /\ header_valid 10 24 3 = true.           (* aliases: 9 = 1 + 8, 10 = 2 + 8 *)
Proof. vm_compute. repeat split; reflexivity. Qed.

(* non-vacuity: a version-1 image (as written by the oldest reference implementation) of k = 4, n = 11 *)
Example C10_cq_nonvacuous :
  let s := mkcq 4 11 1 [30; 10; 20] [[1; 2; 3; 4]] 1 30 false in
  Inv s /\ Fits 1 s /\
  cq_dec 1 (cq_enc_doc 1 1 0 (le 8 8) (repeat 0 40) s) = Some (s, []).
Proof.
  cbv zeta. split.
  - constructor; cbn [ck cn cbp cbb clv csorted];
      [exists 2; split; [lia|reflexivity]|lia|reflexivity|reflexivity| |reflexivity|discriminate].
    cbn. repeat split; try reflexivity. repeat constructor; lia.
  - split; [repeat split; cbn; try lia; repeat constructor; cbn; lia|]. vm_compute. reflexivity.
Qed.

Print Assumptions C10_cq_preamble.
Print Assumptions C10_cq_empty_image.
Print Assumptions C10_cq_body.
Print Assumptions C10_cq_documented_forms_readable.
Print Assumptions C10_cq_own_image_is_documented_form.
Print Assumptions C10_cq_header_table.
