(* Hll4Proofs.v — the HLL_4 array: 4-bit slots relative to cur_min, AuxHashMap exceptions, the four update
   cases and shiftToBiggerCurMin.
   [inv4 h regs]: the array [h] represents the logical registers [regs]:
     every register >= cur_min (and < 64); nibble s = regs s - cur_min if that is < 15, else the token 15;
     the aux map holds exactly the pairs (s, regs s) with regs s - cur_min >= 15;
     num_at_cur_min = #{s | regs s = cur_min}; kxq0/kxq1 are the exact sums over regs.
   Results: [inv4_new], [shift4_ok] (one shiftToBiggerCurMin keeps the registers, no throwing path is
   reachable), [shift_loop_ok], [hll4_update_step] (an update computes the per-slot max, never throws, the
   "impossible case 2" is unreachable, num_at_cur_min stays positive), [inv4_regs] (iterator read-out). *)
From Coq Require Import ZArith NArith List Bool Lia Permutation.
From DS Require Import Word RunnerLib HllDefs HllProofs HllOpenAddr HllAuxProofs HllRegsProofs.
Import ListNotations.
Local Open Scope N_scope.

Definition exc (lgk cm : N) (regs : list N) (s : N) : option N :=
  if (s <? 2 ^ lgk) && (15 <=? getN regs s - cm) then Some (getN regs s) else None.
Definition nib_of (cm v : N) : N := if v - cm <? 15 then v - cm else 15.

Record inv4n (h : hllarr) (regs : list N) : Prop := {
  i4_lo : 4 <= h_lgk h;
  i4_hi : h_lgk h <= 21;
  i4_len : lenN regs = 2 ^ h_lgk h;
  i4_blen : lenN (h_bytes h) = 2 ^ (h_lgk h - 1);
  i4_bok : bytes_ok (h_bytes h);
  i4_ge : forall s, s < 2 ^ h_lgk h -> h_curmin h <= getN regs s /\ getN regs s < 64;
  i4_nib : forall s, s < 2 ^ h_lgk h -> get4 (h_bytes h) s = nib_of (h_curmin h) (getN regs s);
  i4_aux : arep (h_lgk h) (h_aux h) (exc (h_lgk h) (h_curmin h) regs);
  i4_est : est_ok h regs }.

Definition inv4 (h : hllarr) (regs : list N) : Prop :=
  inv4n h regs /\ h_numat h = count_eq (h_curmin h) regs.

(* ---------- small facts ---------- *)
Lemma pow2_half lgk : 1 <= lgk -> 2 ^ lgk = 2 * 2 ^ (lgk - 1).
Proof. intros H. replace lgk with (1 + (lgk - 1)) at 1 by lia. now rewrite N.pow_add_r. Qed.

Lemma slot_byte_lt lgk (b : list N) s : 1 <= lgk -> lenN b = 2 ^ (lgk - 1) -> s < 2 ^ lgk -> N.shiftr s 1 < lenN b.
Proof.
  intros Hk Hl Hs. rewrite (pow2_half lgk Hk) in Hs. rewrite Hl, N.shiftr_div_pow2. change (2 ^ 1) with 2.
  apply N.div_lt_upper_bound; lia.
Qed.

Lemma w8_small x : x < 256 -> w8 x = x.
Proof. intros H. unfold w8. change 255 with (N.ones 8). rewrite N.land_ones. now apply N.mod_small. Qed.

Lemma count_eq_zero_ne x regs s : count_eq x regs = 0 -> s < lenN regs -> getN regs s <> x.
Proof.
  intros Hc Hs E. unfold count_eq in Hc.
  assert (Hin : In x (filter (N.eqb x) regs)).
  { apply filter_In. split; [rewrite <- E; now apply getN_In|apply N.eqb_refl]. }
  destruct (filter (N.eqb x) regs); [contradiction|]. unfold lenN in Hc. cbn [length] in Hc. lia.
Qed.

Lemma filter_map_length {A B} (p : B -> bool) (f : A -> B) l :
  length (filter p (map f l)) = length (filter (fun i => p (f i)) l).
Proof. induction l as [|x t IH]; cbn [map filter]; auto. destruct (p (f x)); cbn [length]; now rewrite IH. Qed.

Lemma count_filter_seq x regs :
  lenN (filter (fun i => x =? getN regs i) (seqN (lenN regs))) = count_eq x regs.
Proof.
  transitivity (lenN (filter (N.eqb x) (map (getN regs) (seqN (lenN regs))))).
  - unfold lenN. f_equal. symmetry. apply filter_map_length.
  - now rewrite map_getN_seqN.
Qed.

Lemma filter_split_length (p : N -> bool) (l : list N) :
  lenN (filter p l) + lenN (filter (fun e => negb (p e)) l) = lenN l.
Proof.
  unfold lenN. induction l as [|x t IH]; cbn [filter]; [reflexivity|].
  destruct (p x); cbn [negb length]; lia.
Qed.

Lemma must_add_cnt a lgk s v a' : aux_must_add a lgk s v = Some a' -> a_cnt a' = a_cnt a + 1.
Proof.
  unfold aux_must_add. destruct (aux_find a lgk s); try discriminate.
  destruct (3 * 2 ^ a_lg a <? 4 * (a_cnt a + 1)).
  - destruct (aux_regrow _ _ _); [|discriminate]. intros E. inversion E. reflexivity.
  - intros E. inversion E. reflexivity.
Qed.

Definition acnt (ax : option auxmap) : N := match ax with Some a => a_cnt a | None => 0 end.

Lemma acnt_or_new ax lgk : a_cnt (aux_or_new ax lgk) = acnt ax.
Proof. destruct ax; reflexivity. Qed.

Lemma arep_some_of_exc lgk ax f s v : arep lgk ax f -> f s = Some v -> exists a, ax = Some a.
Proof.
  intros [_ Hf] Hs. apply Hf in Hs. destruct Hs as (_ & _ & _ & Hin). destruct ax as [a|]; [now exists a|destruct Hin].
Qed.

(* ---------- shiftToBiggerCurMin ---------- *)
Section Shift.
  Variables (lgk cm : N) (regs : list N).
  Hypothesis Hlo : 4 <= lgk.
  Hypothesis Hhi : lgk <= 21.
  Hypothesis Hlen : lenN regs = 2 ^ lgk.
  Hypothesis Hall : forall i, i < 2 ^ lgk -> cm + 1 <= getN regs i /\ getN regs i < 64.

  Definition mid (i : N) : N := if getN regs i - cm <? 15 then getN regs i - cm - 1 else 15.
  Definition cnt1 (l : list N) : N := lenN (filter (fun i => cm + 1 =? getN regs i) l).
  Definition cnt2 (l : list N) : N := lenN (filter (fun i => 15 <=? getN regs i - cm) l).

  Lemma cnt1_cons i t : cnt1 (i :: t) = (if cm + 1 =? getN regs i then 1 else 0) + cnt1 t.
  Proof. unfold cnt1, lenN. cbn [filter]. destruct (cm + 1 =? getN regs i); cbn [length]; lia. Qed.

  Lemma cnt2_cons i t : cnt2 (i :: t) = (if 15 <=? getN regs i - cm then 1 else 0) + cnt2 t.
  Proof. unfold cnt2, lenN. cbn [filter]. destruct (15 <=? getN regs i - cm); cbn [length]; lia. Qed.

  Lemma pass1_ok has_aux : (forall i, i < 2 ^ lgk -> 15 <= getN regs i - cm -> has_aux = true) ->
    forall l b nnew naux, NoDup l -> (forall i, In i l -> i < 2 ^ lgk) -> bytes_ok b -> lenN b = 2 ^ (lgk - 1) ->
      (forall i, In i l -> get4 b i = nib_of cm (getN regs i)) ->
      exists b', ofold (shift_pass1 has_aux) l (b, nnew, naux) = Some (b', nnew + cnt1 l, naux + cnt2 l) /\
        bytes_ok b' /\ lenN b' = 2 ^ (lgk - 1) /\
        (forall i, In i l -> get4 b' i = mid i) /\ (forall i, ~ In i l -> get4 b' i = get4 b i).
  Proof.
    intros Haux. induction l as [|i0 t IH]; intros b nnew naux Hnd Hlt Hb Hbl Hg.
    - exists b. cbn [ofold]. unfold cnt1, cnt2. cbn [filter]. change (lenN []) with 0. rewrite !N.add_0_r.
      repeat split; auto. intros i [].
    - inversion Hnd as [|? ? Hnin Hnd']; subst.
      assert (Hi0 : i0 < 2 ^ lgk) by (apply Hlt; simpl; auto).
      destruct (Hall i0 Hi0) as [Hge H64].
      assert (Hsb : N.shiftr i0 1 < lenN b) by (apply (slot_byte_lt lgk); auto; lia).
      cbn [ofold]. unfold shift_pass1 at 1. rewrite (Hg i0) by (simpl; auto). unfold nib_of.
      rewrite cnt1_cons, cnt2_cons.
      destruct (N.ltb_spec (getN regs i0 - cm) 15) as [Hd|Hd].
      + cbv beta iota zeta.
        replace (getN regs i0 - cm =? 0) with false by (symmetry; apply N.eqb_neq; lia).
        replace (getN regs i0 - cm <? 15) with true by (symmetry; apply N.ltb_lt; lia).
        replace (15 <=? getN regs i0 - cm) with false by (symmetry; apply N.leb_gt; lia).
        cbv iota.
        set (d := getN regs i0 - cm) in *.
        assert (Hput : forall i, i <> i0 -> get4 (put4 b i0 (d - 1)) i = get4 b i).
        { intros i Hne. rewrite get4_put4 by (auto; lia). destruct (N.eqb_spec i0 i); [congruence|reflexivity]. }
        destruct (IH (put4 b i0 (d - 1)) (if d - 1 =? 0 then nnew + 1 else nnew) naux) as (b' & Hf & Hb' & Hbl' & Hin' & Hout'); auto.
        { intros i Hi. apply Hlt. simpl; auto. }
        { now apply put4_bytes_ok. }
        { now rewrite put4_length. }
        { intros i Hi. rewrite Hput by (intros ->; contradiction). apply Hg. simpl; auto. }
        exists b'. split.
        { rewrite Hf. f_equal. apply f_equal2; [apply f_equal2; [reflexivity|]|lia].
          destruct (N.eqb_spec (d - 1) 0), (N.eqb_spec (cm + 1) (getN regs i0)); lia. }
        split; [exact Hb'|]. split; [exact Hbl'|]. split.
        * intros i [<-|Hi]; [|now apply Hin'].
          rewrite Hout' by exact Hnin. rewrite get4_put4 by (auto; lia). rewrite N.eqb_refl.
          unfold mid. fold d. replace (d <? 15) with true by (symmetry; apply N.ltb_lt; lia). reflexivity.
        * intros i Hi. rewrite Hout' by (intros C; apply Hi; simpl; auto). apply Hput. intros ->. apply Hi. simpl; auto.
      + cbv beta iota zeta. change (15 =? 0) with false. change (15 <? 15) with false. cbv iota.
        pose proof (Haux i0 Hi0 Hd) as Ha. destruct has_aux; [|discriminate]. cbv iota.
        replace (15 <=? getN regs i0 - cm) with true by (symmetry; apply N.leb_le; lia).
        destruct (IH b nnew (naux + 1)) as (b' & Hf & Hb' & Hbl' & Hin' & Hout'); auto.
        { intros i Hi. apply Hlt. simpl; auto. }
        { intros i Hi. apply Hg. simpl; auto. }
        exists b'. split.
        { rewrite Hf. f_equal. apply f_equal2; [apply f_equal2; [reflexivity|]|lia].
          destruct (N.eqb_spec (cm + 1) (getN regs i0)); lia. }
        split; [exact Hb'|]. split; [exact Hbl'|]. split.
        * intros i [<-|Hi]; [|now apply Hin'].
          rewrite Hout' by exact Hnin. rewrite (Hg i0) by (simpl; auto). unfold nib_of, mid.
          replace (getN regs i0 - cm <? 15) with false by (symmetry; apply N.ltb_ge; lia). reflexivity.
        * intros i Hi. apply Hout'. intros C. apply Hi. simpl; auto.
  Qed.

  (* second pass: walk the old aux map *)
  Definition wfE (e : N) : Prop := exists s, e = pair_sv s (getN regs s) /\ s < 2 ^ lgk /\ 15 <= getN regs s - cm.
  Definition kept (e : N) : bool := 15 <=? c_val e - (cm + 1).
  Definition g_after (es : list N) (g : N -> option N) (t : N) : option N :=
    if existsb (fun e => (akey lgk e =? t) && kept e) es then Some (getN regs t) else g t.

  Lemma pass2_step b naux nax s v : s < 2 ^ lgk -> cm + 1 <= v -> get4 b s = 15 ->
    shift_pass2 lgk (cm + 1) (b, naux, nax) (pair_sv s v) =
      if v - (cm + 1) <? 15 then (if negb (v - (cm + 1) =? 14) then None else Some (put4 b s (v - (cm + 1)), N.pred naux, nax))
      else match aux_must_add (aux_or_new nax lgk) lgk s v with Some a' => Some (b, naux, Some a') | None => None end.
  Proof.
    intros Hs Hv Hg. unfold shift_pass2. rewrite pair_sv_slot, pair_sv_val by lia. rewrite Hg.
    replace (v <? cm + 1) with false by (symmetry; apply N.ltb_ge; lia). reflexivity.
  Qed.

  Lemma pass2_ok : forall es b naux nax g,
    arep lgk nax g -> (forall e, In e es -> g (akey lgk e) = None) -> NoDup (map (akey lgk) es) ->
    (forall e, In e es -> wfE e) -> lenN es <= naux -> bytes_ok b -> lenN b = 2 ^ (lgk - 1) ->
    (forall e, In e es -> get4 b (akey lgk e) = 15) ->
    exists b' nax', ofold (shift_pass2 lgk (cm + 1)) es (b, naux, nax) =
                      Some (b', naux - lenN (filter (fun e => negb (kept e)) es), nax') /\
      arep lgk nax' (g_after es g) /\ acnt nax' = acnt nax + lenN (filter kept es) /\
      bytes_ok b' /\ lenN b' = 2 ^ (lgk - 1) /\
      (forall t, get4 b' t = if existsb (fun e => (akey lgk e =? t) && negb (kept e)) es then 14 else get4 b t).
  Proof.
    induction es as [|e0 t IH]; intros b naux nax g Hrep Hg Hnd Hwf Hcnt Hb Hbl H15.
    - exists b, nax. cbn [ofold filter existsb]. change (lenN []) with 0. rewrite N.sub_0_r, N.add_0_r.
      split; [reflexivity|]. split; [|auto]. eapply arep_ext; [exact Hrep|]. intros s. reflexivity.
    - inversion Hnd as [|? ? Hnin Hnd']; subst.
      destruct (Hwf e0 ltac:(simpl; auto)) as (s0 & -> & Hs0 & Hd0).
      destruct (Hall s0 Hs0) as [Hge0 H640].
      set (v0 := getN regs s0) in *.
      assert (Hk0 : akey lgk (pair_sv s0 v0) = s0) by (apply pair_sv_key; lia).
      rewrite Hk0 in Hnin.
      assert (Hne : forall e, In e t -> akey lgk e <> s0).
      { intros e He C. apply Hnin. rewrite <- C. now apply in_map. }
      assert (Hsb : N.shiftr s0 1 < lenN b) by (apply (slot_byte_lt lgk); auto; lia).
      assert (Hlt : lenN (pair_sv s0 v0 :: t) = lenN t + 1) by (unfold lenN; cbn [length]; lia).
      cbn [ofold]. rewrite pass2_step; auto; [|rewrite <- Hk0; apply H15; simpl; auto].
      assert (Hkv : kept (pair_sv s0 v0) = (15 <=? v0 - (cm + 1))) by (unfold kept; now rewrite pair_sv_val).
      cbn [filter existsb]. rewrite Hkv, Hk0.
      destruct (N.ltb_spec (v0 - (cm + 1)) 15) as [Hd|Hd].
      + (* the exception stops being one: value cur_min + 15 becomes nibble 14 *)
        replace (v0 - (cm + 1) =? 14) with true by (symmetry; apply N.eqb_eq; lia). cbn [negb].
        replace (15 <=? v0 - (cm + 1)) with false by (symmetry; apply N.leb_gt; lia). cbn [negb andb].
        replace (v0 - (cm + 1)) with 14 by lia.
        destruct (IH (put4 b s0 14) (N.pred naux) nax g) as (b' & nax' & Hf & Hrep' & Hac & Hb' & Hbl' & Hg'); auto.
        { intros e He. apply Hg. simpl; auto. }
        { intros e He. apply Hwf. simpl; auto. }
        { lia. }
        { now apply put4_bytes_ok. }
        { now rewrite put4_length. }
        { intros e He. rewrite get4_put4 by (auto; lia). destruct (N.eqb_spec s0 (akey lgk e)) as [C|_].
          - exfalso. apply (Hne e He). now symmetry.
          - apply H15. simpl; auto. }
        exists b', nax'. split.
        { rewrite Hf. f_equal. apply f_equal2; [apply f_equal2; [reflexivity|]|reflexivity].
          unfold lenN. cbn [length]. lia. }
        split.
        { eapply arep_ext; [exact Hrep'|]. intros s. unfold g_after. cbn [existsb]. rewrite Hkv.
          replace (15 <=? v0 - (cm + 1)) with false by (symmetry; apply N.leb_gt; lia).
          now rewrite andb_false_r. }
        split; [exact Hac|]. split; [exact Hb'|]. split; [exact Hbl'|].
        intros s. rewrite Hg'. rewrite get4_put4 by (auto; lia). rewrite andb_true_r.
        destruct (s0 =? s); cbn [orb]; [|reflexivity].
        destruct (existsb _ t); reflexivity.
      + (* still an exception: goes into the new aux map *)
        replace (15 <=? v0 - (cm + 1)) with true by (symmetry; apply N.leb_le; lia). cbn [negb andb].
        destruct (must_add_ok lgk Hlo Hhi nax g s0 v0 Hrep) as (a' & Hadd & Hrep1); auto; try lia.
        { rewrite <- Hk0. apply Hg. simpl; auto. }
        rewrite Hadd.
        destruct (IH b naux (Some a') (fun u => if u =? s0 then Some v0 else g u)) as (b' & nax' & Hf & Hrep' & Hac & Hb' & Hbl' & Hg'); auto.
        { intros e He. destruct (N.eqb_spec (akey lgk e) s0) as [C|_]; [exfalso; now apply (Hne e He)|].
          apply Hg. simpl; auto. }
        { intros e He. apply Hwf. simpl; auto. }
        { lia. }
        { intros e He. apply H15. simpl; auto. }
        exists b', nax'. split; [exact Hf|]. split.
        { eapply arep_ext; [exact Hrep'|]. intros s. unfold g_after. cbn [existsb]. rewrite Hkv, Hk0.
          replace (15 <=? v0 - (cm + 1)) with true by (symmetry; apply N.leb_le; lia). rewrite andb_true_r.
          destruct (existsb _ t); [now rewrite orb_true_r|]. rewrite orb_false_r.
          rewrite (N.eqb_sym s s0). destruct (N.eqb_spec s0 s) as [<-|_]; reflexivity. }
        split.
        { rewrite Hac. cbn [acnt]. rewrite (must_add_cnt _ _ _ _ _ Hadd), acnt_or_new. unfold lenN. cbn [length]. lia. }
        split; [exact Hb'|]. split; [exact Hbl'|].
        intros s. rewrite Hg'. now rewrite andb_false_r.
  Qed.
End Shift.

(* ---------- one shiftToBiggerCurMin on an array whose num_at_cur_min reached 0 ---------- *)
Lemma inv4_all_gt h regs : inv4 h regs -> h_numat h = 0 ->
  forall i, i < 2 ^ h_lgk h -> h_curmin h + 1 <= getN regs i /\ getN regs i < 64.
Proof.
  intros [Hi Hn] H0 i Hi'. destruct (i4_ge _ _ Hi i Hi') as [A B]. split; [|exact B].
  rewrite H0 in Hn. symmetry in Hn. pose proof (count_eq_zero_ne _ regs i Hn) as Hne.
  rewrite (i4_len _ _ Hi) in Hne. specialize (Hne Hi'). lia.
Qed.

Lemma exc_in lgk cm regs ax t : arep lgk ax (exc lgk cm regs) -> t < 2 ^ lgk -> 15 <= getN regs t - cm ->
  In (pair_sv t (getN regs t)) (aents ax).
Proof.
  intros [_ Hf] Ht Hd. apply (Hf t (getN regs t)). unfold exc.
  replace (t <? 2 ^ lgk) with true by (symmetry; apply N.ltb_lt; lia).
  replace (15 <=? getN regs t - cm) with true by (symmetry; apply N.leb_le; lia). reflexivity.
Qed.

Lemma aux_entries_wf lgk cm regs a : lgk <= 26 -> arep lgk (Some a) (exc lgk cm regs) ->
  forall e, In e (nonzero (a_ent a)) -> wfE lgk cm regs e.
Proof.
  intros Hk [Hinv Hrep] e He. pose proof (ai_wf _ _ Hinv) as Hw. rewrite Forall_forall in Hw.
  destruct (wf_entry_facts lgk e Hk (Hw e He)) as (_ & H1 & H2 & H3 & H4).
  assert (Hx : exc lgk cm regs (akey lgk e) = Some (c_val e)).
  { apply Hrep. repeat split; auto. cbn [aents]. now rewrite <- H4. }
  unfold exc in Hx.
  destruct ((akey lgk e <? 2 ^ lgk) && (15 <=? getN regs (akey lgk e) - cm)) eqn:Eb; [|discriminate].
  inversion Hx as [Hv]. apply andb_true_iff in Eb. destruct Eb as [E1 E2]. apply N.leb_le in E2.
  exists (akey lgk e). split; [rewrite Hv; exact H4|]. split; [exact H1|exact E2].
Qed.

Lemma filter_none (p : N -> bool) (l : list N) : (forall x, In x l -> p x = false) -> filter p l = [].
Proof.
  induction l as [|x t IH]; intros H; cbn [filter]; [reflexivity|].
  rewrite (H x) by (simpl; auto). apply IH. intros y Hy. apply H. simpl; auto.
Qed.

Lemma shift_result h regs b2 nax :
  inv4n h regs ->
  (forall i, i < 2 ^ h_lgk h -> h_curmin h + 1 <= getN regs i /\ getN regs i < 64) ->
  bytes_ok b2 -> lenN b2 = 2 ^ (h_lgk h - 1) ->
  (forall t, t < 2 ^ h_lgk h -> get4 b2 t = nib_of (h_curmin h + 1) (getN regs t)) ->
  arep (h_lgk h) nax (exc (h_lgk h) (h_curmin h + 1) regs) ->
  inv4 (h_with_data h b2 (h_curmin h + 1) (count_eq (h_curmin h + 1) regs) (h_kxq0 h) (h_kxq1 h) nax) regs.
Proof.
  intros [Hlo Hhi Hlen Hbl Hb Hge Hnib Haux Hest] Hall Hb2 Hbl2 Hn2 Ha2.
  split; [constructor|]; cbn [h_with_data h_lgk h_bytes h_curmin h_aux h_numat]; auto.
Qed.

Lemma shift4_ok h regs : inv4 h regs -> h_numat h = 0 ->
  exists h', shift4 h = Some h' /\ inv4 h' regs /\ h_curmin h' = h_curmin h + 1 /\ same_cfg h h'.
Proof.
  intros Hinv H0. pose proof (inv4_all_gt h regs Hinv H0) as Hall. destruct Hinv as [Hi Hn].
  pose proof Hi as [Hlo Hhi Hlen Hbl Hb Hge Hnib Haux Hest].
  assert (Hk26 : h_lgk h <= 26) by lia.
  assert (Hha : forall i, i < 2 ^ h_lgk h -> 15 <= getN regs i - h_curmin h ->
                 match h_aux h with Some _ => true | None => false end = true).
  { intros i Hi' H15. pose proof (exc_in _ _ _ _ _ Haux Hi' H15) as Hin.
    destruct (h_aux h); [reflexivity|destruct Hin]. }
  destruct (pass1_ok (h_lgk h) (h_curmin h) regs Hlo Hhi Hlen Hall _ Hha (seqN (2 ^ h_lgk h)) (h_bytes h) 0 0)
    as (b1 & Hf1 & Hb1 & Hbl1 & Hin1 & _); auto.
  { apply seqN_NoDup. }
  { intros i Hi'. now apply in_seqN. }
  { intros i Hi'. apply Hnib. now apply in_seqN. }
  rewrite !N.add_0_l in Hf1.
  assert (Hmid : forall i, i < 2 ^ h_lgk h -> get4 b1 i = mid (h_curmin h) regs i).
  { intros i Hi'. apply Hin1. now apply in_seqN. }
  assert (Hnnew : cnt1 (h_curmin h) regs (seqN (2 ^ h_lgk h)) = count_eq (h_curmin h + 1) regs).
  { unfold cnt1. rewrite <- Hlen. apply count_filter_seq. }
  unfold shift4. cbv zeta. rewrite Hf1, Hnnew.
  destruct (h_aux h) as [a|] eqn:Ea.
  - (* an aux map exists: second pass *)
    set (es := nonzero (a_ent a)).
    pose proof (aux_entries_wf _ _ _ a Hk26 Haux) as Hwf. fold es in Hwf.
    destruct Haux as [Hainv Harep].
    assert (Hcard : lenN es = cnt2 (h_curmin h) regs (seqN (2 ^ h_lgk h))).
    { assert (Hp : Permutation (map (akey (h_lgk h)) es)
                     (filter (fun i => 15 <=? getN regs i - h_curmin h) (seqN (2 ^ h_lgk h)))).
      { apply NoDup_Permutation.
        - apply (ai_nodup _ _ Hainv).
        - apply NoDup_filter, seqN_NoDup.
        - intros x. rewrite in_map_iff, filter_In, in_seqN. split.
          + intros (e & <- & He). destruct (Hwf e He) as (s & -> & Hs & Hd).
            rewrite pair_sv_key by lia. split; [exact Hs|]. apply N.leb_le. exact Hd.
          + intros [Hx Hd]. apply N.leb_le in Hd. exists (pair_sv x (getN regs x)). split; [apply pair_sv_key; lia|].
            apply (exc_in (h_lgk h) (h_curmin h) regs (Some a) x (conj Hainv Harep) Hx Hd). }
      unfold cnt2, lenN. rewrite <- (Permutation_length Hp), map_length. reflexivity. }
    destruct (pass2_ok (h_lgk h) (h_curmin h) regs Hlo Hhi Hlen Hall es b1 (cnt2 (h_curmin h) regs (seqN (2 ^ h_lgk h)))
                None (fun _ => None)) as (b2 & nax' & Hf2 & Hrep2 & Hac & Hb2 & Hbl2 & Hg2); auto.
    { apply arep_none. }
    { apply (ai_nodup _ _ Hainv). }
    { lia. }
    { intros e He. destruct (Hwf e He) as (s & -> & Hs & Hd). rewrite pair_sv_key by lia.
      rewrite Hmid by exact Hs. unfold mid. replace (getN regs s - h_curmin h <? 15) with false by (symmetry; apply N.ltb_ge; lia).
      reflexivity. }
    rewrite Hf2.
    assert (Hok : match nax' with
                  | Some a' => a_cnt a' =? cnt2 (h_curmin h) regs (seqN (2 ^ h_lgk h)) - lenN (filter (fun e => negb (kept (h_curmin h) e)) es)
                  | None => true end = true).
    { destruct nax' as [a'|]; [|reflexivity]. apply N.eqb_eq. cbn [acnt] in Hac.
      pose proof (filter_split_length (kept (h_curmin h)) es) as Hsp. lia. }
    rewrite Hok. eexists. split; [reflexivity|]. split; [|split; [reflexivity|repeat split]].
    apply shift_result; auto.
    + (* nibbles *)
      intros t Ht. destruct (Hall t Ht) as [Hg1 Hg2']. rewrite Hg2, Hmid by exact Ht. unfold mid, nib_of.
      destruct (N.eq_dec (getN regs t - h_curmin h) 15) as [E15|N15].
      * assert (Hex : existsb (fun e => (akey (h_lgk h) e =? t) && negb (kept (h_curmin h) e)) es = true).
        { apply existsb_exists. exists (pair_sv t (getN regs t)). split.
          - apply (exc_in (h_lgk h) (h_curmin h) regs (Some a) t (conj Hainv Harep) Ht). lia.
          - rewrite pair_sv_key by lia. rewrite N.eqb_refl. unfold kept. rewrite pair_sv_val.
            replace (15 <=? getN regs t - (h_curmin h + 1)) with false by (symmetry; apply N.leb_gt; lia). reflexivity. }
        rewrite Hex. replace (getN regs t - (h_curmin h + 1) <? 15) with true by (symmetry; apply N.ltb_lt; lia). lia.
      * assert (Hex : existsb (fun e => (akey (h_lgk h) e =? t) && negb (kept (h_curmin h) e)) es = false).
        { apply not_true_is_false. intros C. apply existsb_exists in C. destruct C as (e & He & Hc).
          apply andb_true_iff in Hc. destruct Hc as [Hc1 Hc2]. apply N.eqb_eq in Hc1.
          destruct (Hwf e He) as (s & -> & Hs & Hd). rewrite pair_sv_key in Hc1 by lia. subst s.
          unfold kept in Hc2. rewrite pair_sv_val in Hc2. apply negb_true_iff, N.leb_gt in Hc2. lia. }
        rewrite Hex.
        destruct (N.ltb_spec (getN regs t - h_curmin h) 15), (N.ltb_spec (getN regs t - (h_curmin h + 1)) 15); lia.
    + (* the new aux map *)
      eapply arep_ext; [exact Hrep2|]. intros t. unfold g_after, exc.
      destruct ((t <? 2 ^ h_lgk h) && (15 <=? getN regs t - (h_curmin h + 1))) eqn:Eb.
      * apply andb_true_iff in Eb. destruct Eb as [E1 E2]. apply N.ltb_lt in E1. apply N.leb_le in E2.
        assert (Hex : existsb (fun e => (akey (h_lgk h) e =? t) && kept (h_curmin h) e) es = true).
        { apply existsb_exists. exists (pair_sv t (getN regs t)). split.
          - apply (exc_in (h_lgk h) (h_curmin h) regs (Some a) t (conj Hainv Harep) E1). lia.
          - rewrite pair_sv_key by lia. rewrite N.eqb_refl. unfold kept. rewrite pair_sv_val.
            replace (15 <=? getN regs t - (h_curmin h + 1)) with true by (symmetry; apply N.leb_le; lia). reflexivity. }
        now rewrite Hex.
      * assert (Hex : existsb (fun e => (akey (h_lgk h) e =? t) && kept (h_curmin h) e) es = false).
        { apply not_true_is_false. intros C. apply existsb_exists in C. destruct C as (e & He & Hc).
          apply andb_true_iff in Hc. destruct Hc as [Hc1 Hc2]. apply N.eqb_eq in Hc1.
          destruct (Hwf e He) as (s & -> & Hs & Hd). rewrite pair_sv_key in Hc1 by lia. subst s.
          unfold kept in Hc2. rewrite pair_sv_val in Hc2.
          replace (t <? 2 ^ h_lgk h) with true in Eb by (symmetry; apply N.ltb_lt; lia).
          cbn [andb] in Eb. congruence. }
        now rewrite Hex.
  - (* no aux map: no exceptions *)
    assert (Hno : forall i, i < 2 ^ h_lgk h -> getN regs i - h_curmin h < 15).
    { intros i Hi'. destruct (N.lt_ge_cases (getN regs i - h_curmin h) 15) as [|Hd]; [assumption|].
      destruct (exc_in _ _ _ _ _ Haux Hi' Hd). }
    assert (Hc2 : cnt2 (h_curmin h) regs (seqN (2 ^ h_lgk h)) = 0).
    { unfold cnt2. rewrite filter_none; [reflexivity|]. intros x Hx. apply in_seqN in Hx.
      apply N.leb_gt. now apply Hno. }
    rewrite Hc2. change (0 =? 0) with true. cbv iota.
    eexists. split; [reflexivity|]. split; [|split; [reflexivity|repeat split]].
    apply shift_result; auto.
    + intros t Ht. destruct (Hall t Ht) as [Hg1 Hg2']. specialize (Hno t Ht). rewrite Hmid by exact Ht. unfold mid, nib_of.
      replace (getN regs t - h_curmin h <? 15) with true by (symmetry; apply N.ltb_lt; lia).
      replace (getN regs t - (h_curmin h + 1) <? 15) with true by (symmetry; apply N.ltb_lt; lia). lia.
    + eapply arep_ext; [apply arep_none|]. intros t. unfold exc.
      destruct (N.ltb_spec t (2 ^ h_lgk h)) as [Ht|Ht]; [|reflexivity]. specialize (Hno t Ht).
      replace (15 <=? getN regs t - (h_curmin h + 1)) with false by (symmetry; apply N.leb_gt; lia). reflexivity.
Qed.

Lemma pow2_pos n : 0 < 2 ^ n.
Proof. apply N.neq_0_lt_0, N.pow_nonzero. discriminate. Qed.

Lemma shift_loop_ok : forall fuel h regs, inv4 h regs -> getN regs 0 - h_curmin h <= N.of_nat fuel ->
  exists h', shift_loop fuel h = Some h' /\ inv4 h' regs /\ 0 < h_numat h' /\ same_cfg h h'.
Proof.
  induction fuel as [|f IH]; intros h regs Hinv Hfuel; cbn [shift_loop];
    destruct (N.eqb_spec (h_numat h) 0) as [E|E];
    try (exists h; split; [reflexivity|]; split; [exact Hinv|]; split; [lia|apply same_cfg_refl]).
  - exfalso. destruct (inv4_all_gt h regs Hinv E 0 (pow2_pos _)). lia.
  - destruct (shift4_ok h regs Hinv E) as (h1 & Hs & Hinv1 & Hcm & Hcfg). rewrite Hs.
    destruct (inv4_all_gt h regs Hinv E 0 (pow2_pos _)).
    destruct (IH h1 regs Hinv1) as (h' & Hl & Hinv' & Hpos & Hcfg'); [rewrite Hcm; lia|].
    exists h'. split; [exact Hl|]. split; [exact Hinv'|]. split; [exact Hpos|].
    eapply same_cfg_trans; eauto.
Qed.

Lemma inv4_new lgk full : 4 <= lgk -> lgk <= 21 -> inv4 (hll_new lgk T4 full) (zerosN (2 ^ lgk)).
Proof.
  intros Hlo Hhi. split; [constructor|]; cbn [hll_new h_lgk h_bytes h_curmin h_aux h_numat arr_bytes]; auto.
  - apply zerosN_length.
  - apply zerosN_length.
  - apply bytes_ok_zeros.
  - intros s _. rewrite getN_zerosN. lia.
  - intros s _. rewrite get4_zeros, getN_zerosN. reflexivity.
  - eapply arep_ext; [apply arep_none|]. intros s. unfold exc. rewrite getN_zerosN.
    change (15 <=? 0 - 0) with false. now rewrite andb_false_r.
  - unfold est_ok. cbn [hll_new h_kxq0 h_kxq1]. rewrite kxq0_of_zeros, kxq1_of_zeros. split; reflexivity.
  - now rewrite count_eq_zeros.
Qed.

(* ---------- internalHll4Update ---------- *)

Ltac bdec :=
  repeat (match goal with
  | |- context [?a <? ?b] =>
      first [replace (a <? b) with true by (symmetry; apply N.ltb_lt; lia)
            |replace (a <? b) with false by (symmetry; apply N.ltb_ge; lia)]
  | |- context [?a <=? ?b] =>
      first [replace (a <=? b) with true by (symmetry; apply N.leb_le; lia)
            |replace (a <=? b) with false by (symmetry; apply N.leb_gt; lia)]
  | |- context [?a =? ?b] =>
      first [replace (a =? b) with true by (symmetry; apply N.eqb_eq; lia)
            |replace (a =? b) with false by (symmetry; apply N.eqb_neq; lia)]
  end; cbv iota beta).

Lemma exc_upd_eq lgk cm regs s nv : s < 2 ^ lgk -> lenN regs = 2 ^ lgk -> 15 <= nv - cm ->
  forall t, (if t =? s then Some nv else exc lgk cm regs t) = exc lgk cm (setN regs s nv) t.
Proof.
  intros Hs Hl Hnv t. unfold exc. rewrite getN_setN by lia. destruct (N.eqb_spec t s) as [->|Hne].
  - rewrite N.eqb_refl. bdec. reflexivity.
  - replace (s =? t) with false by (symmetry; apply N.eqb_neq; congruence). reflexivity.
Qed.

Lemma exc_upd_small lgk cm regs s nv : lenN regs = 2 ^ lgk -> nv - cm < 15 -> getN regs s - cm < 15 ->
  forall t, exc lgk cm regs t = exc lgk cm (setN regs s nv) t.
Proof.
  intros Hl Hnv Ho t. unfold exc. destruct (N.ltb_spec t (2 ^ lgk)) as [Ht|Ht]; [|reflexivity]. cbn [andb].
  destruct (N.lt_ge_cases s (lenN regs)) as [Hs|Hs]; [|now rewrite setN_overflow].
  rewrite getN_setN by lia. destruct (N.eqb_spec s t) as [<-|Hne]; [|reflexivity]. bdec. reflexivity.
Qed.


Lemma inv4n_set_numat h regs n : inv4n h regs -> inv4n (h_set_numat h n) regs.
Proof. intros [Hlo Hhi Hlen Hbl Hb Hge Hnib Haux Hest]. constructor; auto. Qed.

Lemma same_cfg_set_numat h n : same_cfg h (h_set_numat h n).
Proof. repeat split. Qed.

Lemma update_tail h h2 regs s nv :
  inv4 h regs -> s < 2 ^ h_lgk h -> getN regs s < nv -> h_curmin h < nv -> nv < 64 ->
  inv4n h2 (setN regs s nv) -> h_numat h2 = h_numat h -> h_curmin h2 = h_curmin h -> same_cfg h h2 ->
  forall n2, n2 = N.pred (h_numat h) ->
  exists h', (if getN regs s =? h_curmin h then shift_loop 70 (h_set_numat h2 n2) else Some h2) = Some h' /\
     inv4 h' (setN regs s nv) /\ same_cfg h h' /\ (0 < h_numat h -> 0 < h_numat h').
Proof.
  intros [Hi Hn] Hs Hlt Hcm Hnv Hi2 Hn2 Hc2 Hcfg n2 ->.
  assert (Hsl : s < lenN regs) by (rewrite (i4_len _ _ Hi); exact Hs).
  pose proof (count_eq_setN (h_curmin h) regs s nv Hsl) as Hcnt.
  destruct (N.eqb_spec (getN regs s) (h_curmin h)) as [E|E].
  - replace (h_curmin h =? getN regs s) with true in Hcnt by (symmetry; apply N.eqb_eq; congruence).
    replace (h_curmin h =? nv) with false in Hcnt by (symmetry; apply N.eqb_neq; lia).
    assert (Hinv3 : inv4 (h_set_numat h2 (N.pred (h_numat h))) (setN regs s nv)).
    { split; [now apply inv4n_set_numat|]. cbn [h_set_numat h_with_data h_numat h_curmin]. rewrite Hc2, Hn. lia. }
    destruct (shift_loop_ok 70 _ _ Hinv3) as (h' & Hl & Hinv' & Hpos & Hcfg').
    { destruct (i4_ge _ _ Hi2 0) as [_ H64]; [rewrite (proj1 Hcfg); apply pow2_pos|]. change (N.of_nat 70) with 70. lia. }
    exists h'. split; [exact Hl|]. split; [exact Hinv'|]. split; [|auto].
    eapply same_cfg_trans; [exact Hcfg|]. eapply same_cfg_trans; [apply same_cfg_set_numat|exact Hcfg'].
  - replace (h_curmin h =? getN regs s) with false in Hcnt by (symmetry; apply N.eqb_neq; congruence).
    replace (h_curmin h =? nv) with false in Hcnt by (symmetry; apply N.eqb_neq; lia).
    exists h2. split; [reflexivity|]. split; [split; [exact Hi2|rewrite Hc2, Hn2, Hn; lia]|]. split; [exact Hcfg|].
    now rewrite Hn2.
Qed.

Lemma inv4n_upd h h2 regs s nv :
  inv4n h regs -> s < 2 ^ h_lgk h -> getN regs s < nv -> h_curmin h < nv -> nv < 64 ->
  h_lgk h2 = h_lgk h -> h_curmin h2 = h_curmin h ->
  h_kxq0 h2 = h_kxq0 (kxq_upd h (getN regs s) nv) -> h_kxq1 h2 = h_kxq1 (kxq_upd h (getN regs s) nv) ->
  bytes_ok (h_bytes h2) -> lenN (h_bytes h2) = 2 ^ (h_lgk h - 1) ->
  (forall t, t < 2 ^ h_lgk h -> get4 (h_bytes h2) t = nib_of (h_curmin h) (getN (setN regs s nv) t)) ->
  arep (h_lgk h) (h_aux h2) (exc (h_lgk h) (h_curmin h) (setN regs s nv)) ->
  inv4n h2 (setN regs s nv).
Proof.
  intros [Hlo Hhi Hlen Hbl Hb Hge Hnib Haux Hest] Hs Hlt Hcm Hnv El Ec E0 E1 Hb2 Hbl2 Hn2 Ha2.
  assert (Hsl : s < lenN regs) by lia.
  constructor; rewrite ?El, ?Ec; auto.
  - now rewrite lenN_setN.
  - intros t Ht. rewrite getN_setN by exact Hsl. destruct (s =? t); [lia|now apply Hge].
  - destruct (kxq_upd_est h regs s nv Hest Hsl) as [F0 F1]. split; congruence.
Qed.

Lemma nib_upd lgk cm regs b s nv : 1 <= lgk -> bytes_ok b -> lenN b = 2 ^ (lgk - 1) -> lenN regs = 2 ^ lgk ->
  s < 2 ^ lgk -> (forall t, t < 2 ^ lgk -> get4 b t = nib_of cm (getN regs t)) ->
  forall t, t < 2 ^ lgk -> get4 (put4 b s (nib_of cm nv)) t = nib_of cm (getN (setN regs s nv) t).
Proof.
  intros Hk Hb Hbl Hl Hs Hn t Ht.
  rewrite get4_put4; auto.
  - rewrite getN_setN by lia. destruct (s =? t); [reflexivity|now apply Hn].
  - now apply (slot_byte_lt lgk).
  - unfold nib_of. destruct (nv - cm <? 15) eqn:E; [apply N.ltb_lt in E|]; lia.
Qed.

Lemma hll4_update_step h regs c : inv4 h regs -> cvalid c ->
  exists h', hll4_update h c = Some h' /\ inv4 h' (reg_max_upd (h_lgk h) regs c) /\ same_cfg h h' /\
             (0 < h_numat h -> 0 < h_numat h').
Proof.
  intros Hinv Hc. pose proof Hinv as [Hi Hn]. pose proof Hi as [Hlo Hhi Hlen Hbl Hb Hge Hnib Haux Hest].
  pose proof (c_slot_lt (h_lgk h) c) as Hs. pose proof (c_val_lt c Hc) as Hv.
  unfold hll4_update, reg_max_upd. cbv zeta.
  set (s := c_slot (h_lgk h) c) in *. set (nv := c_val c) in *.
  destruct (Hge s Hs) as [Hold1 Hold2]. pose proof (Hnib s Hs) as Hnibs.
  assert (Hsl : s < lenN regs) by lia.
  assert (Hsame : nv <= getN regs s -> exists h', Some h = Some h' /\
                     inv4 h' (if getN regs s <? nv then setN regs s nv else regs) /\
                     same_cfg h h' /\ (0 < h_numat h -> 0 < h_numat h')).
  { intros H. exists h. replace (getN regs s <? nv) with false by (symmetry; apply N.ltb_ge; lia).
    split; [reflexivity|]. split; [exact Hinv|]. split; [apply same_cfg_refl|auto]. }
  destruct (N.leb_spec nv (h_curmin h)) as [Hq|Hq]; [apply Hsame; lia|].
  rewrite Hnibs. unfold nib_of in Hnibs |- *.
  destruct (N.ltb_spec (getN regs s - h_curmin h) 15) as [Hd|Hd].
  - (* the old value is not an exception *)
    replace (getN regs s - h_curmin h + h_curmin h) with (getN regs s) by lia.
    rewrite (w8_small (getN regs s)) by lia. rewrite (w8_small (nv - h_curmin h)) by lia.
    destruct (N.ltb_spec (getN regs s) nv) as [Hlt|Hge']; [|apply Hsame; lia].
    bdec.
    destruct (N.leb_spec 15 (nv - h_curmin h)) as [H15|H15].
    + (* case 3: becomes an exception *)
      hsimp.
      destruct (must_add_ok (h_lgk h) Hlo Hhi (h_aux h) _ s nv Haux) as (a' & Hadd & Hrep'); auto; try lia.
      { unfold exc. bdec. now rewrite andb_false_r. }
      rewrite Hadd. cbv iota beta.
      eapply update_tail; eauto; try reflexivity; [|repeat split].
      apply (inv4n_upd h); auto; try reflexivity; hsimp.
      * now apply put4_bytes_ok.
      * now rewrite put4_length.
      * intros t Ht. replace 15 with (nib_of (h_curmin h) nv) by (unfold nib_of; bdec; reflexivity).
        apply (nib_upd (h_lgk h)); auto; lia.
      * eapply arep_ext; [exact Hrep'|]. apply exc_upd_eq; auto.
    + (* case 4: plain overwrite *)
      eapply update_tail; eauto; try reflexivity; [|repeat split].
      apply (inv4n_upd h); auto; try reflexivity; hsimp.
      * now apply put4_bytes_ok.
      * now rewrite put4_length.
      * intros t Ht. replace (nv - h_curmin h) with (nib_of (h_curmin h) nv) by (unfold nib_of; bdec; reflexivity).
        apply (nib_upd (h_lgk h)); auto; lia.
      * eapply arep_ext; [exact Haux|]. apply exc_upd_small; auto.
  - (* the old value is an exception: the slot holds the token *)
    rewrite (w8_small (15 + h_curmin h)) by lia. rewrite (w8_small (nv - h_curmin h)) by lia.
    destruct (N.ltb_spec (15 + h_curmin h) nv) as [Hlt0|Hge0]; [|apply Hsame; lia].
    assert (Hx : exc (h_lgk h) (h_curmin h) regs s = Some (getN regs s)).
    { unfold exc. bdec. reflexivity. }
    destruct (arep_some_of_exc _ _ _ _ _ Haux Hx) as (a & Ha). rewrite Ha in *.
    bdec. rewrite (must_find_ok (h_lgk h) Hlo Hhi a _ s _ Haux Hx). cbv iota beta.
    destruct (N.ltb_spec (getN regs s) nv) as [Hlt|Hge']; [|apply Hsame; lia].
    bdec. hsimp. rewrite Ha.
    destruct (must_replace_ok (h_lgk h) Hlo Hhi a _ s _ nv Haux Hx) as (a' & Hrp & Hrep'); try lia.
    rewrite Hrp. cbv iota beta.
    match goal with |- exists h', Some ?X = Some h' /\ _ =>
      replace (Some X) with (if getN regs s =? h_curmin h then shift_loop 70 (h_set_numat X (N.pred (h_numat h))) else Some X)
        by (replace (getN regs s =? h_curmin h) with false by (symmetry; apply N.eqb_neq; lia); reflexivity) end.
    eapply update_tail; eauto; try reflexivity; [|repeat split].
    apply (inv4n_upd h); auto; try reflexivity; hsimp.
    * intros t Ht. rewrite getN_setN by exact Hsl. destruct (N.eqb_spec s t) as [<-|_]; [|now apply Hnib].
      rewrite Hnibs. unfold nib_of. bdec. reflexivity.
    * eapply arep_ext; [exact Hrep'|]. apply exc_upd_eq; auto. lia.
Qed.

(* ---------- read-out through the iterator ---------- *)
Lemma inv4_get h regs : inv4n h regs -> h_ty h = T4 -> forall s, s < 2 ^ h_lgk h -> hll_get h s = Some (getN regs s).
Proof.
  intros [Hlo Hhi Hlen Hbl Hb Hge Hnib Haux Hest] Hty s Hs. unfold hll_get. rewrite Hty, (Hnib s Hs).
  destruct (Hge s Hs) as [G1 G2]. unfold nib_of.
  destruct (N.ltb_spec (getN regs s - h_curmin h) 15) as [Hd|Hd].
  - replace (getN regs s - h_curmin h =? 15) with false by (symmetry; apply N.eqb_neq; lia).
    replace (getN regs s - h_curmin h + h_curmin h) with (getN regs s) by lia. now rewrite w8_small by lia.
  - change (15 =? 15) with true. cbv iota.
    assert (Hx : exc (h_lgk h) (h_curmin h) regs s = Some (getN regs s)).
    { unfold exc. bdec. reflexivity. }
    destruct (arep_some_of_exc _ _ _ _ _ Haux Hx) as (a & Ha). rewrite Ha in *.
    apply (must_find_ok (h_lgk h) Hlo Hhi a _ s _ Haux Hx).
Qed.

Lemma inv4_regs h regs : inv4n h regs -> h_ty h = T4 -> hll_regs h = Some regs.
Proof.
  intros Hi Hty. pose proof Hi as [Hlo Hhi Hlen Hbl Hb Hge Hnib Haux Hest].
  apply hll_regs_T4; auto; try lia. now apply inv4_get.
Qed.

Lemma count_eq_pos x regs : 0 < count_eq x regs -> exists s, s < lenN regs /\ getN regs s = x.
Proof.
  unfold count_eq. intros H. destruct (filter (N.eqb x) regs) as [|y t] eqn:E; [unfold lenN in H; cbn [length] in H; lia|].
  assert (Hin : In y (filter (N.eqb x) regs)) by (rewrite E; simpl; auto).
  apply filter_In in Hin. destruct Hin as [Hin Hy]. apply N.eqb_eq in Hy. subst y. now apply In_getN.
Qed.

(* cur_min is the minimum register as long as num_at_cur_min > 0 *)
Lemma inv4_min h regs : inv4 h regs -> 0 < h_numat h ->
  (forall s, s < 2 ^ h_lgk h -> h_curmin h <= getN regs s) /\ exists s, s < 2 ^ h_lgk h /\ getN regs s = h_curmin h.
Proof.
  intros [Hi Hn] Hpos. split.
  - intros s Hs. apply (i4_ge _ _ Hi s Hs).
  - rewrite Hn in Hpos. destruct (count_eq_pos _ _ Hpos) as (s & Hs & E). exists s. rewrite <- (i4_len _ _ Hi). auto.
Qed.
